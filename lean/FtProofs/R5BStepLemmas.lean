/-
  FtProofs.R5BStepLemmas — package R5B, part B4: `St.step` commutes with the annotation-free core.

  * `coreOp A op`  the operation the core sees: an add-node without the annotators' attribute keys;
                   `enable` / `disable` and an update-attrs naming a protected key become `nop`.
  * `core_step`    `coreWith A (s.step op).1 = ((coreWith A s).step (coreOp A op)).1` (and the same
                   answer, for every operation that is not a feature switch) under the side
                   conditions `Side A s` and the per-operation condition `Adm A s op`.
  * `side_step`    the side conditions are kept by every admissible step.
  * `core_run`     the whole run: `coreWith A (run s ops) = run (coreWith A s) (ops.map (coreOp A))`.
-/
import FtProofs.R5BSimLemmas
namespace Ft.R5B
open Ft Ft.St List

/-! ### history bookkeeping -/

theorem coreH_add (A : List Key) (h : Hist ActRec) (a : ActRec) :
    coreH A (h.add a) = (coreH A h).add (coreA A a) := by
  rw [Hist.add_eq, Hist.add_eq]
  simp only [coreH, List.map_append, List.map_cons, List.map_nil]

theorem commit_lift (A : List Key) (r : UOut) (p : Option Node) :
    commit (liftU A r) p = (coreWith A (commit r p).1, (commit r p).2) := by
  unfold commit
  rcases r with ⟨st, res⟩
  cases res with
  | error e => rfl
  | ok recs =>
    simp only [liftU, liftR]
    show (({ coreWith A st with hist := (coreH A st.hist).add (coreA A recs),
                                refreshes := st.refreshes + 1,
                                lastPayload := p } : St), Out.ok) = _
    rw [← coreH_add]
    rfl

/-- every recorded primitive of the history satisfies `PxOK` -/
def HistPx (s : St) : Prop := ∀ a, (a ∈ s.hist.undo ∨ a ∈ s.hist.redo) → ∀ r ∈ a, PxOK r

/-! ### the operation seen by the core -/

def protectedIn (A : List Key) (attrs : List (Key × Val)) : Bool :=
  attrs.any (fun kv => (keyTime :: keyTid :: keyLin :: A).contains kv.1)

def coreOp (A : List Key) : Op → Op
  | .addNode a => .addNode (coreArgs A a)
  | .updAttrs n attrs => if protectedIn A attrs then .nop else .updAttrs n attrs
  | .enable _ _ => .nop
  | .disable _ => .nop
  | op => op

/-- the measurement keys of a state: what the regionprops / IoU annotators can write -/
def AKeys (s : St) : List Key := s.rpAvail ++ (match s.iouKey with | some k => [k] | none => [])

theorem protectedKeys_eq (s : St) : s.protectedKeys = keyTime :: keyTid :: keyLin :: AKeys s := by
  unfold protectedKeys annotKeys AKeys
  cases s.iouKey <;> simp

/-- `A` is exactly the measurement key set of `s`, and every active regionprops key is available -/
structure Cov (A : List Key) (s : St) : Prop where
  eq : AKeys s = A
  act : ∀ k ∈ s.rpActive, k ∈ s.rpAvail

theorem Cov.pa {A : List Key} {s : St} (h : Cov A s) : PA A s := by
  intro k hk
  rw [protectedKeys_eq, h.eq]
  exact mem_cons_of_mem _ (mem_cons_of_mem _ (mem_cons_of_mem _ hk))

theorem Cov.avail {A : List Key} {s : St} (h : Cov A s) : ∀ k ∈ s.rpAvail, k ∈ A := by
  intro k hk; rw [← h.eq]; exact mem_append_left _ hk

theorem Cov.active {A : List Key} {s : St} (h : Cov A s) : ∀ k ∈ s.rpActive, k ∈ A :=
  fun k hk => h.avail k (h.act k hk)

theorem Cov.iou {A : List Key} {s : St} (h : Cov A s) : ∀ k, s.iouKey = some k → k ∈ A := by
  intro k hk; rw [← h.eq]; unfold AKeys; rw [hk]; exact mem_append_right _ (mem_singleton.2 rfl)

/-- the side conditions of the simulation -/
structure Side (A : List Key) (s : St) : Prop where
  seg : s.seg.isSome = true
  cov : Cov A s
  px : HistPx s

theorem Side.ia {A : List Key} {s : St} (h : Side A s) : IA A s := ⟨h.seg, h.cov.pa⟩

/-- per-operation admissibility of the simulation (the argument preconditions of the edits —
    `R3D.OpPre` — are a separate matter): an add-node brings its pixels (always the case on a state
    with an array, cf. `R2G.StepPre`); a recomputing `enable` and a `disable` do not name the
    track-id / lineage keys; a non-recomputing `enable` names the lineage key only if it is on -/
def Adm (s : St) : Op → Prop
  | .addNode a => a.pixels.isSome = true
  | .enable ks rc => (rc = true → keyTid ∉ ks ∧ keyLin ∉ ks) ∧ (keyLin ∈ ks → rc = false → s.linOn = true)
  | .disable ks => keyTid ∉ ks ∧ keyLin ∉ ks
  | _ => True

/-! ### edits and queries -/

theorem painted_ia {A : List Key} {s : St} (h : IA A s) (g : Seg) (v : Nat) (groups : List (List Pix × Nat)) :
    IA A (painted s g v groups) := ⟨rfl, h.2⟩

/-- what `step` does with the outcome of `uUpdateSeg` on the painted state -/
def paintFin (out : UOut × Option Node) (groups : List (List Pix × Nat)) : St × Out :=
  match out.1.2 with
  | .ok _ => commit out.1 out.2
  | .error e =>
    match out.1.1.seg with
    | some g' => ({ out.1.1 with seg := some (groups.foldl (fun (acc : Seg) (grp : List Pix × Nat) => acc.setPixels grp.1 grp.2) g') }, .err e)
    | none => (out.1.1, .err e)

theorem step_paint_eq (s : St) (v : Nat) (groups : List (List Pix × Nat)) (tid : Nat) (f : Bool) :
    s.step (.paint v groups tid f) =
      match s.seg with
      | none => (s, .err .value)
      | some g => paintFin ((painted s g v groups).uUpdateSeg v groups tid f) groups := by
  simp only [step]
  cases s.seg with
  | none => rfl
  | some g => rfl

theorem paintFin_lift (A : List Key) (out : UOut × Option Node) (groups : List (List Pix × Nat)) :
    paintFin (liftU A out.1, out.2) groups = (coreWith A (paintFin out groups).1, (paintFin out groups).2) := by
  unfold paintFin
  rcases out with ⟨⟨r1, r2⟩, sel⟩
  cases r2 with
  | ok recs => exact commit_lift A (r1, .ok recs) sel
  | error e =>
    simp only [liftU_snd, liftU_fst, liftR, cw_seg]
    cases r1.seg <;> rfl

theorem core_step_paint {A : List Key} {s : St} (hI : IA A s) (v : Nat) (groups : List (List Pix × Nat))
    (tid : Nat) (f : Bool) :
    (coreWith A s).step (.paint v groups tid f) =
      (coreWith A (s.step (.paint v groups tid f)).1, (s.step (.paint v groups tid f)).2) := by
  rw [step_paint_eq, step_paint_eq, cw_seg]
  cases hg : s.seg with
  | none => rfl
  | some g =>
    simp only
    have hc := core_uUpdateSeg (painted_ia hI g v groups) v groups tid f
    have hp : painted (coreWith A s) g v groups = coreWith A (painted s g v groups) := rfl
    rw [hp, hc]
    exact paintFin_lift A _ groups

/-- the edits and the queries: the core of the new state is the new state of the core (and the
    answer is the same, except that a refused update-attrs naming a protected key is a `nop` there) -/
theorem core_step_plain' {A : List Key} {s : St} (hI : IA A s) (op : Op) (hadm : Adm s op)
    (hne : ∀ ks rc, op ≠ .enable ks rc) (hnd : ∀ ks, op ≠ .disable ks) (hu : op ≠ .undo) (hr : op ≠ .redo) :
    (coreWith A s).step (coreOp A op) = (coreWith A (s.step op).1, (s.step op).2) ∨
    (∃ n attrs, op = .updAttrs n attrs ∧ protectedIn A attrs = true ∧ s.step op = (s, .err .value) ∧
      coreOp A op = .nop) := by
  cases op with
  | addEdge e f =>
    left
    simp only [coreOp, step]
    rw [core_uAddEdge hI e f]; exact commit_lift A _ _
  | delEdge e =>
    left
    simp only [coreOp, step]
    rw [core_uDeleteEdge A e s]; exact commit_lift A _ _
  | addNode a =>
    left
    simp only [coreOp, step]
    rw [core_uAddNode hI a hadm]; exact commit_lift A _ _
  | delNode n =>
    left
    simp only [coreOp, step]
    rw [core_uDeleteNode A n none s]; exact commit_lift A _ _
  | swap a b =>
    left
    simp only [coreOp, step]
    rw [core_uSwap hI a b]; exact commit_lift A _ _
  | paint v groups tid f => exact Or.inl (core_step_paint hI v groups tid f)
  | updAttrs n attrs =>
    by_cases hp : protectedIn A attrs = true
    · right
      have hprot : ∃ kv ∈ attrs, kv.1 = keyTime ∨ kv.1 ∈ s.annotKeys := by
        unfold protectedIn at hp
        obtain ⟨kv, hkv, hc⟩ := any_eq_true.1 hp
        refine ⟨kv, hkv, ?_⟩
        have hm : kv.1 ∈ keyTime :: keyTid :: keyLin :: A := List.contains_iff_mem.1 hc
        have h1 : keyTid ∈ s.annotKeys := by unfold annotKeys; simp
        have h2 : keyLin ∈ s.annotKeys := by unfold annotKeys; simp
        rcases List.mem_cons.1 hm with h | h
        · exact Or.inl h
        · rcases List.mem_cons.1 h with h | h
          · exact Or.inr (h ▸ h1)
          · rcases List.mem_cons.1 h with h | h
            · exact Or.inr (h ▸ h2)
            · have := hI.2 _ h
              unfold protectedKeys at this
              rcases List.mem_cons.1 this with h' | h'
              · exact Or.inl h'
              · exact Or.inr h'
      exact ⟨n, attrs, rfl, hp, (C10_protected s n attrs hprot).2, by simp only [coreOp, hp, if_true]⟩
    · left
      simp only [coreOp, hp, Bool.false_eq_true, if_false, step]
      rw [core_uUpdateAttrs hI n attrs]; exact commit_lift A _ _
  | undo => exact absurd rfl hu
  | redo => exact absurd rfl hr
  | enable ks rc => exact absurd rfl (hne ks rc)
  | disable ks => exact absurd rfl (hnd ks)
  | qNeighbors tid time =>
    left
    simp only [coreOp, step, cw_trackNeighbors]
  | qHasTrack tid time =>
    left
    simp only [coreOp, step, cw_hasTrackAt]
  | qNewIds n =>
    left
    simp only [coreOp, step, cw_newNodeIds]
  | nop => exact Or.inl rfl

theorem core_step_plain {A : List Key} {s : St} (hI : IA A s) (op : Op) (hadm : Adm s op)
    (hne : ∀ ks rc, op ≠ .enable ks rc) (hnd : ∀ ks, op ≠ .disable ks) (hu : op ≠ .undo) (hr : op ≠ .redo) :
    ((coreWith A s).step (coreOp A op)).1 = coreWith A (s.step op).1 := by
  rcases core_step_plain' hI op hadm hne hnd hu hr with h | ⟨n, attrs, -, -, h1, h2⟩
  · rw [h]
  · rw [h1, h2]; rfl

/-! ### undo / redo -/

theorem cw_stepped (A : List Key) (u : St) (h : Hist ActRec) :
    coreWith A (stepped u h) = stepped (coreWith A u) (coreH A h) := rfl

theorem coreH_push (A : List Key) (h : Hist ActRec) (r : ActRec) :
    coreH A { h with redo := h.redo ++ [r] } = { coreH A h with redo := (coreH A h).redo ++ [coreA A r] } := by
  simp only [coreH, List.map_append, List.map_cons, List.map_nil]

theorem core_step_undo {A : List Key} {s : St} (hI : IA A s) (hH : HistPx s) :
    (coreWith A s).step .undo = (coreWith A (s.step .undo).1, (s.step .undo).2) := by
  by_cases hle : s.hist.undo.length ≤ s.hist.redo.length
  · rw [step_undo_none s hle, step_undo_none (coreWith A s) (by simpa [coreH] using hle)]
  · have hlt : s.hist.redo.length < s.hist.undo.length := by omega
    have hidx : s.hist.undo.length - s.hist.redo.length - 1 < s.hist.undo.length := by omega
    have ha := List.getElem?_eq_getElem hidx
    generalize s.hist.undo[s.hist.undo.length - s.hist.redo.length - 1] = a at ha
    have hlt' : (coreWith A s).hist.redo.length < (coreWith A s).hist.undo.length := by
      simpa [coreH] using hlt
    have ha' : (coreWith A s).hist.undo[(coreWith A s).hist.undo.length - (coreWith A s).hist.redo.length - 1]?
        = some (coreA A a) := by
      simp only [cw_hist, coreH, List.length_map, List.getElem?_map, ha, Option.map_some]
    have hpx : ∀ r ∈ a, PxOK r := hH a (Or.inl (List.mem_of_getElem? ha))
    have hc := core_invGroup hI.2 a hpx
    cases hg : (s.invGroup a).2 with
    | ok r =>
      have hg' : ((coreWith A s).invGroup (coreA A a)).2 = .ok (coreA A r) := by
        rw [hc]; simp only [liftU_snd, hg, liftR]
      rw [step_undo_ok s a r hlt ha hg, step_undo_ok (coreWith A s) (coreA A a) (coreA A r) hlt' ha' hg']
      simp only [cw_stepped, coreH_push, hc, liftU_fst, cw_hist]
    | error e =>
      have hg' : ((coreWith A s).invGroup (coreA A a)).2 = .error e := by
        rw [hc]; simp only [liftU_snd, hg, liftR]
      rw [step_undo_err s a e hlt ha hg, step_undo_err (coreWith A s) (coreA A a) e hlt' ha' hg']
      simp only [hc, liftU_fst]

theorem core_step_redo {A : List Key} {s : St} (hI : IA A s) (hH : HistPx s) :
    (coreWith A s).step .redo = (coreWith A (s.step .redo).1, (s.step .redo).2) := by
  rcases List.eq_nil_or_concat s.hist.redo with hnil | ⟨rs, a, hcat⟩
  · rw [step_redo_none s hnil, step_redo_none (coreWith A s) (by simp [coreH, hnil])]
  · have hcat' : s.hist.redo = rs ++ [a] := by simpa using hcat
    have hcat'' : (coreWith A s).hist.redo = rs.map (coreA A) ++ [coreA A a] := by
      simp [coreH, hcat']
    have hpx : ∀ r ∈ a, PxOK r := hH a (Or.inr (by rw [hcat']; simp))
    have hc := core_invGroup hI.2 a hpx
    cases hg : (s.invGroup a).2 with
    | ok r =>
      have hg' : ((coreWith A s).invGroup (coreA A a)).2 = .ok (coreA A r) := by
        rw [hc]; simp only [liftU_snd, hg, liftR]
      rw [step_redo_ok s rs a r hcat' hg, step_redo_ok (coreWith A s) _ (coreA A a) (coreA A r) hcat'' hg']
      simp only [cw_stepped, hc, liftU_fst, cw_hist]
      rfl
    | error e =>
      have hg' : ((coreWith A s).invGroup (coreA A a)).2 = .error e := by
        rw [hc]; simp only [liftU_snd, hg, liftR]
      rw [step_redo_err s rs a e hcat' hg, step_redo_err (coreWith A s) _ (coreA A a) e hcat'' hg']
      simp only [hc, liftU_fst]

/-! ### feature switching does not move the core -/

theorem foldl_cw_eq {β : Type} {A : List Key} (f : St → β → St) (l : List β)
    (h : ∀ a, ∀ x ∈ l, coreWith A (f a x) = coreWith A a) (a : St) :
    coreWith A (l.foldl f a) = coreWith A a := by
  induction l generalizing a with
  | nil => rfl
  | cons x r ih =>
    rw [foldl_cons, ih (fun a y hy => h a y (mem_cons_of_mem _ hy)), h a x mem_cons_self]

/-- bulk regionprops computation writes active keys only: invisible in the core when they are all in `A` -/
theorem cw_rpCompute_cov {A : List Key} {s : St} (h : ∀ k ∈ s.rpActive, k ∈ A) (keys : List Key) :
    coreWith A (s.rpCompute keys) = coreWith A s := by
  unfold rpCompute
  cases s.seg with
  | none => rfl
  | some g =>
    simp only
    split
    · rfl
    · refine foldl_cw_eq _ _ (fun a t _ => ?_) s
      refine foldl_cw_eq _ _ (fun b l _ => ?_) a
      split
      · refine foldl_cw_eq _ _ (fun c k hk => ?_) b
        have hk' : k ∈ s.rpActive := by
          have := (List.mem_filter.1 hk).2
          exact List.contains_iff_mem.1 this
        exact cw_setOther_mem (h k hk') c l _
      · rfl

theorem filter_nil_of_mem {A : List Key} {l : List Key} (h : ∀ k ∈ l, k ∈ A) :
    l.filter (fun k => !(A.contains k)) = [] := by
  rw [List.filter_eq_nil_iff]
  intro k hk
  simp [h k hk]

/-- `A` covers the active features: none of them is active in the core -/
theorem cw_rpActive_cov {A : List Key} {s : St} (hc : Cov A s) : (coreWith A s).rpActive = [] :=
  filter_nil_of_mem hc.active

theorem cw_iouActive_cov {A : List Key} {s : St} (hc : Cov A s) (k : Key) (hk : s.iouKey = some k) :
    (coreWith A s).iouActive = false := by
  show (s.iouActive && !(iouIn A s)) = false
  have : iouIn A s = true := by
    unfold iouIn; rw [hk]; exact List.contains_iff_mem.2 (hc.iou k hk)
  rw [this]; simp

theorem cw_enableReg {A : List Key} {s : St} (hc : Cov A s) (ks : List Key)
    (hlin : (s.linOn || ks.contains keyLin) = s.linOn) :
    coreWith A (enableReg s ks) = coreWith A s := by
  have e1 : (s.rpActive ++ (ks.filter (fun k => s.rpAvail.contains k && !(s.rpActive.contains k))).eraseDups).filter
      (fun k => !(A.contains k)) = s.rpActive.filter (fun k => !(A.contains k)) := by
    rw [List.filter_append]
    have hnil := filter_nil_of_mem (A := A)
      (l := (ks.filter (fun k => s.rpAvail.contains k && !(s.rpActive.contains k))).eraseDups) (by
        intro k hk
        have := (List.mem_filter.1 (List.mem_eraseDups.1 hk)).2
        simp only [Bool.and_eq_true, List.contains_iff_mem] at this
        exact hc.avail k this.1)
    rw [hnil, List.append_nil]
  have e2 : (s.regNode ++ (ks.filter (fun k => s.rpAvail.contains k && !(s.regNode.contains k))).eraseDups).filter
      (fun k => !(A.contains k)) = s.regNode.filter (fun k => !(A.contains k)) := by
    rw [List.filter_append]
    have hnil := filter_nil_of_mem (A := A)
      (l := (ks.filter (fun k => s.rpAvail.contains k && !(s.regNode.contains k))).eraseDups) (by
        intro k hk
        have := (List.mem_filter.1 (List.mem_eraseDups.1 hk)).2
        simp only [Bool.and_eq_true, List.contains_iff_mem] at this
        exact hc.avail k this.1)
    rw [hnil, List.append_nil]
  unfold enableReg coreWith
  simp only [hlin, e1, e2]
  cases hk : s.iouKey with
  | none => simp only [Bool.or_false, iouIn, hk]
  | some k =>
    have hin : A.contains k = true := List.contains_iff_mem.2 (hc.iou k (by rw [hk]))
    have e3 : (if (ks.contains k && !(s.regEdge.contains k)) = true then s.regEdge ++ [k] else s.regEdge).filter
        (fun k => !(A.contains k)) = s.regEdge.filter (fun k => !(A.contains k)) := by
      have hm : k ∈ A := List.contains_iff_mem.1 hin
      split
      · rw [List.filter_append]
        simp [hm]
      · rfl
    simp only [iouIn, hk, hin, Bool.not_true, Bool.and_false, e3]

theorem cw_enableRecompute {A : List Key} {s1 : St} (hc : Cov A s1) (ks : List Key)
    (h1 : keyTid ∉ ks) (h2 : keyLin ∉ ks) :
    coreWith A (enableRecompute s1 ks) = coreWith A s1 := by
  unfold enableRecompute
  have c1 : ks.contains keyTid = false := by
    apply Bool.eq_false_iff.2; intro h; exact h1 (List.contains_iff_mem.1 h)
  have c2 : ks.contains keyLin = false := by
    apply Bool.eq_false_iff.2; intro h; exact h2 (List.contains_iff_mem.1 h)
  simp only [c1, c2, Bool.false_and, Bool.false_eq_true, if_false]
  have hr := cw_rpCompute_cov hc.active ks
  cases hk : s1.iouKey with
  | none => simp only [Bool.false_eq_true, if_false]; exact hr
  | some k =>
    simp only
    split
    · rw [← cw_iouCompute, hr, iouCompute_off (cw_iouActive_cov hc k hk)]
    · exact hr

theorem cov_enableReg {A : List Key} {s : St} (hc : Cov A s) (ks : List Key) : Cov A (enableReg s ks) := by
  refine ⟨hc.eq, ?_⟩
  intro k hk
  have : k ∈ s.rpActive ++ (ks.filter (fun k => s.rpAvail.contains k && !(s.rpActive.contains k))).eraseDups := hk
  rcases List.mem_append.1 this with h | h
  · exact hc.act k h
  · have := (List.mem_filter.1 (List.mem_eraseDups.1 h)).2
    simp only [Bool.and_eq_true, List.contains_iff_mem] at this
    exact this.1

theorem core_enable {A : List Key} {s s' : St} {ks : List Key} {rc : Bool} (hc : Cov A s)
    (hadm : Adm s (.enable ks rc)) (h : s.enable ks rc = some s') : coreWith A s' = coreWith A s := by
  cases hany : ks.any (fun k => !(s.annotKeys.contains k)) with
  | true => rw [enable_none s ks rc hany] at h; cases h
  | false =>
    rw [enable_eq s ks rc hany] at h
    injection h with h
    subst h
    have hlin : (s.linOn || ks.contains keyLin) = s.linOn := by
      by_cases hk : keyLin ∈ ks
      · cases rc with
        | true => exact absurd hk (hadm.1 rfl).2
        | false => rw [hadm.2 hk rfl]; rfl
      · have : ks.contains keyLin = false := by
          apply Bool.eq_false_iff.2; intro h; exact hk (List.contains_iff_mem.1 h)
        rw [this, Bool.or_false]
    cases rc with
    | false => exact cw_enableReg hc ks hlin
    | true =>
      simp only [if_true]
      rw [cw_enableRecompute (cov_enableReg hc ks) ks (hadm.1 rfl).1 (hadm.1 rfl).2]
      exact cw_enableReg hc ks hlin

theorem core_disable {A : List Key} {s s' : St} {ks : List Key} (hc : Cov A s)
    (hadm : Adm s (.disable ks)) (h : s.disable ks = some s') : coreWith A s' = coreWith A s := by
  unfold disable at h
  split at h
  · cases h
  · rename_i hany
    have hsub : ∀ k ∈ ks, k ∈ A := by
      intro k hk
      have hin : k ∈ s.annotKeys := by
        apply Classical.byContradiction
        intro hn
        exact hany (any_eq_true.2 ⟨k, hk, by simpa using hn⟩)
      unfold annotKeys at hin
      rcases List.mem_append.1 hin with h1 | h1
      · rcases List.mem_append.1 h1 with h2 | h2
        · rcases List.mem_cons.1 h2 with h3 | h3
          · rw [h3] at hk; exact absurd hk hadm.1
          · rw [List.mem_singleton.1 h3] at hk; exact absurd hk hadm.2
        · exact hc.avail k h2
      · cases hik : s.iouKey with
        | none => rw [hik] at h1; cases h1
        | some k' =>
          rw [hik] at h1
          rw [List.mem_singleton.1 h1]
          exact hc.iou k' hik
    injection h with h
    subst h
    have f1 : (s.rpActive.filter (fun k => !(ks.contains k))).filter (fun k => !(A.contains k)) =
        s.rpActive.filter (fun k => !(A.contains k)) := by
      rw [filter_nil_of_mem hc.active, filter_nil_of_mem]
      intro k hk
      exact hc.active k (List.mem_filter.1 hk).1
    have hflt : ∀ l : List Key, (l.filter (fun k => !(ks.contains k))).filter (fun k => !(A.contains k)) =
        l.filter (fun k => !(A.contains k)) := by
      intro l
      rw [List.filter_filter]
      apply List.filter_congr
      intro k _
      by_cases hk : k ∈ ks
      · simp [hsub k hk, hk]
      · simp [hk]
    have f4 : (if ks.contains keyLin = true then false else s.linOn) = s.linOn := by
      simp [hadm.2]
    unfold coreWith
    simp only [f1, hflt, f4]
    cases hk : s.iouKey with
    | none => simp only [iouIn, hk]
    | some k =>
      have hin : A.contains k = true := List.contains_iff_mem.2 (hc.iou k hk)
      simp only [iouIn, hk, hin, Bool.not_true, Bool.and_false]

/-! ### the side conditions along a run -/

theorem AKeys_of_avail {s t : St} (h : avail t = avail s) : AKeys t = AKeys s := by
  simp only [avail, Prod.mk.injEq] at h
  unfold AKeys; rw [h.1, h.2]

theorem cov_step {A : List Key} {s : St} (hc : Cov A s) (op : Op) : Cov A (s.step op).1 := by
  refine ⟨(AKeys_of_avail (avail_step s op)).trans hc.eq, ?_⟩
  by_cases h1 : ∃ ks rc, op = .enable ks rc
  · obtain ⟨ks, rc, rfl⟩ := h1
    simp only [step]
    split
    · rename_i s' h
      cases hany : ks.any (fun k => !(s.annotKeys.contains k)) with
      | true => rw [enable_none s ks rc hany] at h; cases h
      | false =>
        rw [enable_eq s ks rc hany] at h
        injection h with h
        subst h
        cases rc with
        | false => exact (cov_enableReg hc ks).act
        | true =>
          have hr := reg_enableRecompute (enableReg s ks) ks
          simp only [reg, Prod.mk.injEq] at hr
          intro k hk
          have hk' : k ∈ (enableRecompute (enableReg s ks) ks).rpActive := hk
          rw [hr.2.2.1] at hk'
          show k ∈ (enableRecompute (enableReg s ks) ks).rpAvail
          rw [hr.2.2.2.2.2.1]
          exact (cov_enableReg hc ks).act k hk'
    · exact hc.act
  · by_cases h2 : ∃ ks, op = .disable ks
    · obtain ⟨ks, rfl⟩ := h2
      simp only [step]
      split
      · rename_i s' h
        unfold disable at h
        split at h
        · cases h
        · injection h with h
          subst h
          intro k hk
          exact hc.act k (List.mem_filter.1 hk).1
      · exact hc.act
    · have hr := reg_step s op (fun ks rc h => h1 ⟨ks, rc, h⟩) (fun ks h => h2 ⟨ks, h⟩)
      simp only [reg, Prod.mk.injEq] at hr
      intro k hk
      rw [hr.2.2.1] at hk
      rw [hr.2.2.2.2.2.1]
      exact hc.act k hk

theorem histPx_add {s : St} (hH : HistPx s) {recs : ActRec} (hr : ∀ r ∈ recs, PxOK r) (u : St)
    (hu : u.hist = s.hist.add recs) : HistPx u := by
  intro a ha
  rw [hu, Hist.add_eq] at ha
  rcases ha with ha | ha
  · rcases List.mem_append.1 ha with ha | ha
    · rcases List.mem_append.1 ha with ha | ha
      · exact hH a (Or.inl ha)
      · exact hH a (Or.inr ha)
    · rw [List.mem_singleton.1 ha]; exact hr
  · cases ha

theorem histPx_of_hist {s u : St} (hH : HistPx s) (hu : u.hist = s.hist) : HistPx u := by
  intro a ha; rw [hu] at ha; exact hH a ha

theorem commit_side {A : List Key} {s : St} {r : UOut} (p : Option Node) (hz : Pz (IA A) PxOK r)
    (hh : r.1.hist = s.hist) (hH : HistPx s) :
    (commit r p).1.seg.isSome = true ∧ HistPx (commit r p).1 := by
  rcases commit_cases r p with ⟨recs, h1, h2⟩ | ⟨e, h1, h2⟩
  · rw [h2]
    exact ⟨hz.1.1, histPx_add hH (hz.2 recs h1) _ (by show r.1.hist.add recs = _; rw [hh])⟩
  · rw [h2]
    exact ⟨hz.1.1, histPx_of_hist hH hh⟩

theorem hist_of_cfg {s t : St} (h : t.cfg = s.cfg) : t.hist = s.hist := by
  simp only [cfg, Prod.mk.injEq] at h; exact h.1

theorem segpx_step {A : List Key} {s : St} (hI : IA A s) (hH : HistPx s) (op : Op) :
    (s.step op).1.seg.isSome = true ∧ HistPx (s.step op).1 := by
  have C := closedA A
  cases op with
  | addEdge e f => exact commit_side _ (Pz.uAddEdge C hI e f) (hist_of_cfg (cfg_uAddEdge s e f)) hH
  | delEdge e => exact commit_side _ (Pz.uDeleteEdge C hI e) (hist_of_cfg (cfg_uDeleteEdge s e)) hH
  | addNode a => exact commit_side _ (Pz.uAddNode C hI a trivial) (hist_of_cfg (cfg_uAddNode s a)) hH
  | delNode n => exact commit_side _ (Pz.uDeleteNode C hI n none) (hist_of_cfg (cfg_uDeleteNode s n none)) hH
  | swap a b => exact commit_side _ (Pz.uSwap C hI a b) (hist_of_cfg (cfg_uSwap s a b)) hH
  | updAttrs n at_ => exact commit_side _ (Pz.uUpdateAttrs C hI n at_) (hist_of_cfg (cfg_uUpdateAttrs s n at_)) hH
  | paint v groups tid f =>
    rw [step_paint_eq]
    cases hg : s.seg with
    | none => have := hI.1; rw [hg] at this; cases this
    | some g =>
      simp only
      have hz := Pz.uUpdateSeg C (painted_ia hI g v groups) v groups tid f
      have hh : ((painted s g v groups).uUpdateSeg v groups tid f).1.1.hist = s.hist :=
        hist_of_cfg (cfg_uUpdateSeg (painted s g v groups) v groups tid f)
      generalize (painted s g v groups).uUpdateSeg v groups tid f = out at hz hh
      unfold paintFin
      rcases out with ⟨⟨r1, r2⟩, sel⟩
      cases r2 with
      | ok recs => exact commit_side sel hz hh hH
      | error e =>
        simp only
        cases hs : r1.seg with
        | none => have := hz.1.1; rw [show ((r1, Except.error e) : UOut).1.seg = r1.seg from rfl, hs] at this; cases this
        | some g' => exact ⟨rfl, histPx_of_hist hH hh⟩
  | undo =>
    by_cases hle : s.hist.undo.length ≤ s.hist.redo.length
    · rw [step_undo_none s hle]; exact ⟨hI.1, hH⟩
    · have hlt : s.hist.redo.length < s.hist.undo.length := by omega
      have hidx : s.hist.undo.length - s.hist.redo.length - 1 < s.hist.undo.length := by omega
      have ha := List.getElem?_eq_getElem hidx
      generalize s.hist.undo[s.hist.undo.length - s.hist.redo.length - 1] = a at ha
      have hz := Pz.invGroup C hI a (hH a (Or.inl (List.mem_of_getElem? ha)))
      have hh : (s.invGroup a).1.hist = s.hist := hist_of_cfg (cfg_invGroup s a)
      cases hg : (s.invGroup a).2 with
      | ok r =>
        rw [step_undo_ok s a r hlt ha hg]
        refine ⟨hz.1.1, ?_⟩
        intro b hb
        rcases hb with hb | hb
        · exact hH b (Or.inl hb)
        · rcases List.mem_append.1 hb with hb | hb
          · exact hH b (Or.inr hb)
          · rw [List.mem_singleton.1 hb]; exact hz.2 r hg
      | error e =>
        rw [step_undo_err s a e hlt ha hg]
        exact ⟨hz.1.1, histPx_of_hist hH hh⟩
  | redo =>
    rcases List.eq_nil_or_concat s.hist.redo with hnil | ⟨rs, a, hcat⟩
    · rw [step_redo_none s hnil]; exact ⟨hI.1, hH⟩
    · have hcat' : s.hist.redo = rs ++ [a] := by simpa using hcat
      have hz := Pz.invGroup C hI a (hH a (Or.inr (by rw [hcat']; simp)))
      have hh : (s.invGroup a).1.hist = s.hist := hist_of_cfg (cfg_invGroup s a)
      cases hg : (s.invGroup a).2 with
      | ok r =>
        rw [step_redo_ok s rs a r hcat' hg]
        refine ⟨hz.1.1, ?_⟩
        intro b hb
        rcases hb with hb | hb
        · exact hH b (Or.inl hb)
        · exact hH b (Or.inr (by rw [hcat']; exact List.mem_append_left _ hb))
      | error e =>
        rw [step_redo_err s rs a e hcat' hg]
        exact ⟨hz.1.1, histPx_of_hist hH hh⟩
  | enable ks rc =>
    simp only [step]
    split
    · rename_i s' h
      refine ⟨by rw [(R2G.Fs.enable h).seg]; exact hI.1, histPx_of_hist hH ?_⟩
      exact congrArg (·.1) (ctl_enable s s' ks rc h)
    · exact ⟨hI.1, hH⟩
  | disable ks =>
    simp only [step]
    split
    · rename_i s' h
      refine ⟨by rw [(R2G.Fs.disable h).seg]; exact hI.1, histPx_of_hist hH ?_⟩
      exact congrArg (·.1) (ctl_disable s s' ks h)
    · exact ⟨hI.1, hH⟩
  | qNeighbors tid time =>
    refine ⟨by show (s.trackNeighbors tid time).1.seg.isSome = true
               rw [(Fr.trackNeighbors s tid time).seg]; exact hI.1, histPx_of_hist hH ?_⟩
    exact congrArg (·.1) (ctl_trackNeighbors s tid time)
  | qHasTrack tid time => exact ⟨hI.1, hH⟩
  | qNewIds n => exact ⟨hI.1, hH⟩
  | nop => exact ⟨hI.1, hH⟩

theorem side_step {A : List Key} {s : St} (h : Side A s) (op : Op) : Side A (s.step op).1 :=
  ⟨(segpx_step h.ia h.px op).1, cov_step h.cov op, (segpx_step h.ia h.px op).2⟩

/-! ### the whole run -/

/-- every operation of the list is admissible (for the simulation) where it is applied -/
def AdmAll : St → List Op → Prop
  | _, [] => True
  | s, op :: ops => Adm s op ∧ AdmAll (s.step op).1 ops

/-- **one step**: the core of the next state is the next state of the core under `coreOp` -/
theorem core_step {A : List Key} {s : St} (h : Side A s) (op : Op) (hadm : Adm s op) :
    ((coreWith A s).step (coreOp A op)).1 = coreWith A (s.step op).1 := by
  by_cases h1 : ∃ ks rc, op = .enable ks rc
  · obtain ⟨ks, rc, rfl⟩ := h1
    show coreWith A s = _
    simp only [step]
    split
    · rename_i s' he; exact (core_enable h.cov hadm he).symm
    · rfl
  · by_cases h2 : ∃ ks, op = .disable ks
    · obtain ⟨ks, rfl⟩ := h2
      show coreWith A s = _
      simp only [step]
      split
      · rename_i s' he; exact (core_disable h.cov hadm he).symm
      · rfl
    · by_cases hu : op = .undo
      · subst hu; show ((coreWith A s).step .undo).1 = _; rw [core_step_undo h.ia h.px]
      · by_cases hr : op = .redo
        · subst hr; show ((coreWith A s).step .redo).1 = _; rw [core_step_redo h.ia h.px]
        · exact core_step_plain h.ia op hadm (fun ks rc e => h1 ⟨ks, rc, e⟩) (fun ks e => h2 ⟨ks, e⟩) hu hr

/-- **history independence of the core**: the core of the state reached by a session that mixes
    edits, undo, redo, queries and feature switching is the state reached from the core by the same
    session with the switches removed -/
theorem core_run {A : List Key} : ∀ (ops : List Op) (s : St), Side A s → AdmAll s ops →
    coreWith A (run s ops) = run (coreWith A s) (ops.map (coreOp A))
  | [], _, _, _ => rfl
  | op :: ops, s, h, hadm => by
    simp only [run_cons, List.map_cons]
    rw [core_run ops _ (side_step h op) hadm.2, core_step h op hadm.1]

theorem side_run {A : List Key} (ops : List Op) (s : St) (h : Side A s) : Side A (run s ops) :=
  run_induct (P := Side A) (fun _ op ht => side_step ht op) ops s h

end Ft.R5B
