/-
  FtProofs.R2GLemmas — helper lemmas of round-2 package R2G (array side: C07 / C08 / C10 gaps).
  Everything lives in `namespace Ft.R2G`.

  A. `Fc` — the "cores" frame (array, (id, time, attributes) of every node, active set) through
     the graph-only steps and the composite user actions (`uDeleteNode_okc`, `uAddNode_okc`,
     `uAddEdge_okc`, `uSwap_okc`).
  B. `enable ks true`: bulk regionprops / IoU make the enabled keys current (`enableRecompute_current`).
  C. the column `col k` of a disabled key through the user actions (`col_u*`).
  D. `PaintPre`, the combinatorial lemma `segOKk_paint`, `SegOKk` through UpdateNodeSeg,
     array restoration for undo of AddNode.
  E. the node clause of `MeasOK` through a whole paint: invariant `PInv`, `pinv_step`,
     `rpOK_uusGrow`, `rpOK_uUpdateSeg_painted`.
-/
import FtProofs.SegLemmas
import FtProofs.InverseLemmas
import FtProofs.ForestLemmas

namespace Ft.R2G
open Ft Ft.St List

/-! ### A. the "cores" frame: array, (id, time, attributes) of every node, active set -/

/-- what every graph-only step (edge primitives, relabel walk, bookkeeping) leaves alone -/
structure Fc (s s' : St) : Prop where
  seg : s'.seg = s.seg
  cores : s'.nodes.map core = s.nodes.map core
  rpActive : s'.rpActive = s.rpActive

theorem Fc.refl (s : St) : Fc s s := ⟨rfl, rfl, rfl⟩
theorem Fc.trans {a b c : St} (h1 : Fc a b) (h2 : Fc b c) : Fc a c :=
  ⟨h2.seg.trans h1.seg, h2.cores.trans h1.cores, h2.rpActive.trans h1.rpActive⟩
theorem Fc.ofFr {s s' : St} (h : Fr s s') : Fc s s' := ⟨h.seg, h.cores, h.rpActive⟩
theorem Fc.ofNodes {s s' : St} (h1 : s'.seg = s.seg) (h2 : s'.nodes = s.nodes)
    (h3 : s'.rpActive = s.rpActive) : Fc s s' := ⟨h1, by rw [h2], h3⟩

theorem Fc.skel {s s' : St} (h : Fc s s') : s'.skel = s.skel := by
  have := congrArg (List.map (fun c : Node × Nat × List (Key × Val) => (c.1, c.2.1))) h.cores
  rw [List.map_map, List.map_map] at this
  exact this

theorem Fc.toFs {s s' : St} (h : Fc s s') : Fs s s' := ⟨h.seg, h.skel⟩

theorem Fc.ids {s s' : St} (h : Fc s s') : s'.ids = s.ids := by
  rw [ids_eq_skel_sg, ids_eq_skel_sg, h.skel]

theorem Fc.hasNode {s s' : St} (h : Fc s s') (n : Node) : s'.hasNode n = s.hasNode n :=
  hasNode_of_skel_sg h.skel n

theorem Fc.mem {s s' : St} (h : Fc s s') {r' : NodeRec} (hr : r' ∈ s'.nodes) :
    ∃ r ∈ s.nodes, core r = core r' := by
  have : core r' ∈ s'.nodes.map core := List.mem_map.mpr ⟨r', hr, rfl⟩
  rw [h.cores] at this
  obtain ⟨r, hr, he⟩ := List.mem_map.mp this
  exact ⟨r, hr, he⟩

theorem col_eq_cores (k : Key) (s : St) :
    col k s = (s.nodes.map core).map (fun c => (c.1, alook k c.2.2)) := by
  simp only [col, List.map_map]
  rfl

theorem Fc.col {s s' : St} (h : Fc s s') (k : Key) : col k s' = col k s := by
  rw [col_eq_cores, col_eq_cores, h.cores]

theorem Fc.rpOK {s s' : St} (h : Fc s s') (hr : RpOK s) : RpOK s' := by
  intro g hg k hk r' hr'
  rw [h.seg] at hg; rw [h.rpActive] at hk
  obtain ⟨r, hrm, hc⟩ := h.mem hr'
  have := hr g hg k hk r hrm
  simp only [core, Prod.mk.injEq] at hc
  rw [← hc.1, ← hc.2.1, ← hc.2.2]; exact this

def FcPrim (f : St → Except Err (St × PrimRec)) : Prop :=
  ∀ st st' r, f st = .ok (st', r) → Fc st st'

theorem FcPrim.pDelEdge (e : St → Edge) : FcPrim (fun st => st.pDelEdge (e st)) := by
  intro st st' r h
  rw [pDelEdge_ok_sg h]; exact ⟨rfl, rfl, rfl⟩

theorem FcPrim.pAddEdge (e : Edge) (a : List (Key × Val)) : FcPrim (fun st => st.pAddEdge e a) := by
  intro st st' r h
  obtain ⟨-, -, -, rfl⟩ := pAddEdge_ok_sg h
  exact Fc.ofNodes ((iouUpdateEdge_seg _ _).trans (addEdgeRaw_seg ..))
    ((iouUpdateEdge_nodes _ _).trans (addEdgeRaw_nodes ..))
    ((iouUpdateEdge_rpActive _ _).trans (addEdgeRaw_rpActive ..))

theorem FcPrim.pUpdTid (n : Node) (t : St → Nat) (l : St → Option Nat) :
    FcPrim (fun st => st.pUpdTid n (t st) (l st)) := by
  intro st st' r h
  exact Fc.ofFr (Fr.pUpdTid h)

theorem FcPrim.pUpdTid_tidOf (m n : Node) (l : St → Option Nat) :
    FcPrim (fun st => match st.tidOf m with
      | some t => st.pUpdTid n t (l st)
      | none => .error .key) := by
  intro st st' r h
  simp only at h
  split at h
  · exact Fc.ofFr (Fr.pUpdTid h)
  · cases h

theorem Fc.thenPrim {acc : UOut} {f : St → Except Err (St × PrimRec)} (hf : FcPrim f) :
    Fc acc.1 (thenPrim acc f).1 := by
  unfold St.thenPrim
  split
  · exact Fc.refl _
  · split
    · rename_i h; exact hf _ _ _ h
    · exact Fc.refl _

theorem Fc.thenUser {acc : UOut} {f : St → UOut} (hf : ∀ st, Fc st (f st).1) :
    Fc acc.1 (thenUser acc f).1 := by
  unfold St.thenUser
  split
  · exact Fc.refl _
  · simp only
    split <;> exact hf _

/-- nested user action whose frame is only known on acceptance -/
theorem Fc.thenUser_ok {acc : UOut} {f : St → UOut} {recs : List PrimRec}
    (h : (St.thenUser acc f).2 = .ok recs)
    (hf : ∀ st recs', (f st).2 = .ok recs' → Fc st (f st).1) :
    Fc acc.1 (St.thenUser acc f).1 ∧ ∃ r0, acc.2 = .ok r0 := by
  obtain ⟨r0, r1, h0, h1, h2, -⟩ := St.thenUser_ok h
  exact ⟨by rw [h2]; exact hf _ _ h1, r0, h0⟩

theorem Fc.foldl {α} (F : UOut → α → UOut) (hF : ∀ acc x, Fc acc.1 (F acc x).1) (l : List α)
    (a : UOut) : Fc a.1 (l.foldl F a).1 := by
  induction l generalizing a with
  | nil => exact Fc.refl _
  | cons x l ih => exact (hF a x).trans (ih _)

theorem Fc.uDeleteEdge (s : St) (e : Edge) : Fc s (s.uDeleteEdge e).1 := by
  unfold St.uDeleteEdge
  split
  · exact Fc.refl _
  · have ha : Fc s (St.thenPrim (s, .ok []) (fun st => st.pDelEdge e)).1 :=
      Fc.thenPrim (acc := (s, .ok [])) (FcPrim.pDelEdge (fun _ => e))
    simp only
    split
    · exact ha.trans (Fc.thenPrim (FcPrim.pUpdTid _ (fun st => st.nextTid) (fun st => some st.nextLin)))
    · split
      · split
        · exact ha
        · exact ha.trans ((Fc.thenPrim (FcPrim.pUpdTid_tidOf _ _ (fun _ => none))).trans
            (Fc.thenPrim (FcPrim.pUpdTid_tidOf _ _ (fun st => some st.nextLin))))
      · exact ha

/-! #### uDeleteNode -/

theorem Fc.udnA0 (s : St) (n : Node) : Fc s (udnA0 s n).1 := by
  unfold St.udnA0
  apply Fc.foldl (a := (s, .ok []))
  intro acc p
  split
  · exact Fc.refl _
  · simp only
    refine Fc.trans ?_ (Fc.thenPrim (FcPrim.pDelEdge (fun _ => (p, n))))
    split
    · split
      · exact Fc.thenPrim (FcPrim.pUpdTid_tidOf _ _ (fun _ => none))
      · exact Fc.refl _
    · exact Fc.refl _

theorem Fc.udnA1 (a0 : UOut) (n : Node) : Fc a0.1 (udnA1 a0 n).1 := by
  unfold St.udnA1
  apply Fc.foldl
  intro acc c
  exact Fc.thenPrim (FcPrim.pDelEdge (fun _ => (n, c)))

theorem Fc.udnA2 (a1' : UOut) (pred succ : Option Node) (o : List Node) :
    Fc a1'.1 (udnA2 a1' pred succ o).1.1 := by
  unfold St.udnA2
  split
  · exact Fc.thenPrim (FcPrim.pAddEdge _ _)
  · exact Fc.refl _

theorem Fc.udnA3 (a2 : UOut) (o : List Node) (hp : Bool) : Fc a2.1 (udnA3 a2 o hp).1 := by
  unfold St.udnA3
  apply Fc.foldl
  intro acc io
  split
  · exact Fc.thenPrim (FcPrim.pUpdTid_tidOf _ _ (fun st => some st.nextLin))
  · exact Fc.refl _

theorem udnTail_okc {a1 : UOut} {n : Node} {pixels : Option (List Pix)} {hp : Bool} {o : List Node}
    {recs : List PrimRec} (h : (udnTail a1 n pixels hp o).2 = .ok recs) :
    ∃ st r, Fc a1.1 st ∧ st.pDelNode n pixels = .ok ((udnTail a1 n pixels hp o).1, r) := by
  generalize hout : udnTail a1 n pixels hp o = out at h ⊢
  unfold St.udnTail at hout
  split at hout
  · subst hout; cases h
  · subst hout
    simp only at h ⊢
    obtain ⟨recs0, st', r, -, hf, heq⟩ := thenPrim_ok_sg h
    refine ⟨_, r, ?_, by rw [heq]; exact hf⟩
    exact ((Fc.ofFr (Fr.trackNeighbors a1.1 _ _)).trans (Fc.udnA2 (_, a1.2) _ _ o)).trans
      (Fc.udnA3 _ _ hp)
  · subst hout; cases h

/-- an accepted `uDeleteNode` = cores-neutral steps followed by one successful primitive
    DeleteNode, whose result is the final state -/
theorem uDeleteNode_okc {s : St} {n : Node} {pixels : Option (List Pix)} {recs : List PrimRec}
    (h : (s.uDeleteNode n pixels).2 = .ok recs) :
    ∃ st r, Fc s st ∧ st.pDelNode n pixels = .ok ((s.uDeleteNode n pixels).1, r) := by
  rw [uDeleteNode_eq_sg] at h ⊢
  generalize hA0 : udnA0 s n = a0 at h ⊢
  have hfs0 : Fc s a0.1 := hA0 ▸ Fc.udnA0 s n
  split
  · rename_i hn; simp only [hn, if_true] at h; cases h
  · rename_i hn
    simp only [hn] at h
    split
    · rename_i heq; simp only [heq] at h; cases h
    · rename_i heq
      simp only [heq] at h
      obtain ⟨st, r, hfs, hd⟩ := udnTail_okc h
      exact ⟨st, r, (hfs0.trans (Fc.udnA1 _ n)).trans hfs, hd⟩

/-! #### uAddNode -/

theorem Fc.uanSucc (sN : St) (succ : Option Node) (force : Bool) : Fc sN (uanSucc sN succ force).1 := by
  unfold St.uanSucc
  split
  · split
    · split
      · split
        · exact Fc.refl _
        · exact Fc.thenUser (acc := (sN, .ok [])) (fun st => Fc.uDeleteEdge st _)
      · exact Fc.refl _
    · exact Fc.refl _
  · exact Fc.refl _

theorem Fc.uanDiv (sN : St) (pred succ : Option Node) (force : Bool) :
    Fc sN (uanDiv sN pred succ force).1 := by
  unfold St.uanDiv
  split
  · split
    · split
      · exact Fc.refl _
      · split
        · exact (Fc.thenUser (acc := (sN, .ok [])) (fun st => Fc.uDeleteEdge st _)).trans
            (Fc.thenUser (fun st => Fc.uDeleteEdge st _))
        · exact Fc.refl _
    · exact Fc.uanSucc _ _ _
  · exact Fc.uanSucc _ _ _

theorem Fc.uanEdges (a : AddNodeArgs) (pred succ : Option Node) (a2 : UOut) :
    Fc a2.1 (uanEdges a pred succ a2).1 := by
  unfold St.uanEdges
  have h3 : Fc a2.1 (match pred with
      | some p => St.thenPrim a2 (fun st => st.pAddEdge (p, a.node) [])
      | none => a2).1 := by
    split
    · exact Fc.thenPrim (FcPrim.pAddEdge _ _)
    · exact Fc.refl _
  simp only
  split
  · exact h3.trans (Fc.thenPrim (FcPrim.pAddEdge _ _))
  · exact h3

def uanA1 (a0 : UOut) (pred succ : Option Node) : UOut :=
  match pred, succ with
  | some p, some sc => St.thenPrim a0 (fun st => st.pDelEdge (p, sc))
  | _, _ => a0

theorem uanRest_eq (a : AddNodeArgs) (time tid : Nat) (pred succ : Option Node) (a0 : UOut) :
    uanRest a time tid pred succ a0 =
      match a0.2 with
      | .error err => (a0.1, .error err)
      | .ok _ =>
        match (uanA1 a0 pred succ).2 with
        | .error err => ((uanA1 a0 pred succ).1, .error err)
        | .ok recs1 =>
          match (uanA1 a0 pred succ).1.pAddNode ⟨a.node, time, tid, uanLin a a0.1 pred succ, a.other⟩ a.pixels with
          | .error err => ((uanA1 a0 pred succ).1.rollback recs1, .error err)
          | .ok (s2, r) => uanEdges a pred succ (s2, .ok (recs1 ++ [r])) := by
  cases pred <;> cases succ <;> rfl

theorem Fc.uanA1 (a0 : UOut) (pred succ : Option Node) : Fc a0.1 (uanA1 a0 pred succ).1 := by
  unfold R2G.uanA1
  split
  · exact Fc.thenPrim (FcPrim.pDelEdge (fun _ => _))
  · exact Fc.refl _

theorem uanRest_okc {a : AddNodeArgs} {time tid : Nat} {pred succ : Option Node} {a0 : UOut}
    {recs : List PrimRec} (h : (uanRest a time tid pred succ a0).2 = .ok recs) :
    ∃ st s2 r lin, Fc a0.1 st ∧
      st.pAddNode { id := a.node, time := time, tid := tid, lin := lin, other := a.other } a.pixels
        = .ok (s2, r) ∧
      Fc s2 (uanRest a time tid pred succ a0).1 := by
  generalize hout : uanRest a time tid pred succ a0 = out at h ⊢
  rw [uanRest_eq] at hout
  have h1 := Fc.uanA1 a0 pred succ
  generalize uanA1 a0 pred succ = a1 at hout h1
  split at hout
  · subst hout; cases h
  · split at hout
    · subst hout; cases h
    · split at hout
      · subst hout; cases h
      · rename_i s2 r hadd
        subst hout
        exact ⟨a1.1, s2, r, _, h1, hadd, Fc.uanEdges a pred succ (s2, _)⟩

/-- an accepted `uAddNode` = cores-neutral steps, one successful primitive AddNode of the new
    node in frame `time`, then cores-neutral steps -/
theorem uAddNode_okc {s : St} {a : AddNodeArgs} {recs : List PrimRec}
    (h : (s.uAddNode a).2 = .ok recs) :
    ∃ time tid lin st s2 r, a.time = some time ∧ s.hasNode a.node = false ∧ Fc s st ∧
      st.pAddNode { id := a.node, time := time, tid := tid, lin := lin, other := a.other } a.pixels
        = .ok (s2, r) ∧
      Fc s2 (s.uAddNode a).1 := by
  generalize hout : s.uAddNode a = out at h ⊢
  rw [uAddNode_eq_sg] at hout
  split at hout
  · subst hout; cases h
  · subst hout; cases h
  · rename_i time tid0 ht _
    split at hout
    · subst hout; cases h
    · rename_i hn
      simp only at hout
      subst hout
      obtain ⟨st, s2, r, lin, hfs, hadd, hfs2⟩ := uanRest_okc h
      refine ⟨time, _, lin, st, s2, r, ht, by simpa using hn, ?_, hadd, hfs2⟩
      exact ((Fc.ofFr (Fr.trackNeighbors s _ _)).trans (Fc.uanDiv _ _ _ _)).trans hfs

/-! #### uAddEdge, uSwap (accepted) -/

theorem Fc.addEdgePre (s : St) (e : Edge) (force : Bool) : Fc s (addEdgePre s e force).1 := by
  unfold St.addEdgePre
  split
  · split
    · exact Fc.refl _
    · split
      · exact Fc.thenUser (acc := (s, .ok [])) (fun st => Fc.uDeleteEdge st _)
      · exact Fc.refl _
  · exact Fc.refl _

theorem addEdgeTail_okc {a0 : UOut} {recs0 recs : List PrimRec} {e : Edge}
    (h : (addEdgeTail a0 recs0 e).2 = .ok recs) : Fc a0.1 (addEdgeTail a0 recs0 e).1 := by
  unfold St.addEdgeTail at h ⊢
  simp only [] at h ⊢
  refine Fc.trans ?_ (Fc.thenPrim (FcPrim.pAddEdge e []))
  obtain ⟨r1, s', r, h1, -, -, -⟩ := thenPrim_ok h
  revert h1
  split
  · intro _; exact Fc.thenPrim (FcPrim.pUpdTid_tidOf _ _ _)
  · split
    · split
      · intro _; exact Fc.refl _
      · intro _
        exact (Fc.thenPrim (FcPrim.pUpdTid _ (fun st => st.nextTid) (fun _ => none))).trans
          (Fc.thenPrim (FcPrim.pUpdTid_tidOf _ _ _))
    · intro h1; cases h1

/-- an accepted `uAddEdge` touches no node record beyond track / lineage ids -/
theorem uAddEdge_okc {s : St} {e : Edge} {force : Bool} {recs : List PrimRec}
    (h : (s.uAddEdge e force).2 = .ok recs) : Fc s (s.uAddEdge e force).1 := by
  rw [uAddEdge_eq] at h ⊢
  split
  · exact Fc.refl _
  · split
    · exact Fc.refl _
    · split
      · exact Fc.refl _
      · rename_i c1 c2 c3
        simp only [c1, c2, c3, if_false] at h
        split
        · exact Fc.addEdgePre s e force
        · rename_i recs0 heq
          simp only [heq] at h
          exact (Fc.addEdgePre s e force).trans (addEdgeTail_okc h)

def swapTail (s : St) (p1 p2 : Option Node) (n1 n2 : Node) : UOut :=
  let a0 : UOut := (s, .ok [])
  let a1 := match p1 with | some p => St.thenUser a0 (fun st => st.uDeleteEdge (p, n1)) | none => a0
  let a2 := match p2 with | some p => St.thenUser a1 (fun st => st.uDeleteEdge (p, n2)) | none => a1
  let a3 := match p1 with | some p => St.thenUser a2 (fun st => st.uAddEdge (p, n2) false) | none => a2
  match p2 with | some p => St.thenUser a3 (fun st => st.uAddEdge (p, n1) false) | none => a3

def swapBad (s : St) (p : Option Node) (t : Nat) : Bool :=
  match p with | some p => decide ((s.timeOf p).getD 0 ≥ t) | none => false

theorem uSwap_eq (s : St) (n1 n2 : Node) :
    s.uSwap n1 n2 =
      if !(s.hasNode n1) || !(s.hasNode n2) then (s, .error .key) else
      if (s.preds n1).head?.isNone && (s.preds n2).head?.isNone then (s, .error .invalid) else
      if (s.preds n1).head? == (s.preds n2).head? then (s, .error .invalid) else
      if swapBad s (s.preds n1).head? ((s.timeOf n2).getD 0) then (s, .error .invalid) else
      if swapBad s (s.preds n2).head? ((s.timeOf n1).getD 0) then (s, .error .invalid) else
      swapTail s (s.preds n1).head? (s.preds n2).head? n1 n2 := rfl

theorem uSwap_cases (s : St) (n1 n2 : Node) :
    (∃ e, s.uSwap n1 n2 = (s, .error e)) ∨
    s.uSwap n1 n2 = swapTail s (s.preds n1).head? (s.preds n2).head? n1 n2 := by
  rw [uSwap_eq]
  split
  · exact Or.inl ⟨_, rfl⟩
  · split
    · exact Or.inl ⟨_, rfl⟩
    · split
      · exact Or.inl ⟨_, rfl⟩
      · split
        · exact Or.inl ⟨_, rfl⟩
        · split
          · exact Or.inl ⟨_, rfl⟩
          · exact Or.inr rfl

theorem swapTail_okc {s : St} {p1 p2 : Option Node} {n1 n2 : Node} {recs : List PrimRec}
    (h : (swapTail s p1 p2 n1 n2).2 = .ok recs) : Fc s (swapTail s p1 p2 n1 n2).1 := by
  unfold swapTail at h ⊢
  simp only [] at h ⊢
  have h1 : Fc s (match p1 with
      | some p => St.thenUser ((s, .ok []) : UOut) (fun st => st.uDeleteEdge (p, n1))
      | none => (s, .ok [])).1 := by
    split
    · exact Fc.thenUser (acc := (s, .ok [])) (fun st => Fc.uDeleteEdge st _)
    · exact Fc.refl _
  generalize (match p1 with
      | some p => St.thenUser ((s, .ok []) : UOut) (fun st => st.uDeleteEdge (p, n1))
      | none => (s, .ok [])) = a1 at h h1 ⊢
  have h2 : Fc a1.1 (match p2 with
      | some p => St.thenUser a1 (fun st => st.uDeleteEdge (p, n2))
      | none => a1).1 := by
    split
    · exact Fc.thenUser (fun st => Fc.uDeleteEdge st _)
    · exact Fc.refl _
  generalize (match p2 with
      | some p => St.thenUser a1 (fun st => st.uDeleteEdge (p, n2))
      | none => a1) = a2 at h h2 ⊢
  refine (h1.trans h2).trans ?_
  have hadd : ∀ (e : Edge) (st : St) (recs' : List PrimRec), (st.uAddEdge e false).2 = .ok recs' →
      Fc st (st.uAddEdge e false).1 := fun e st recs' hh => uAddEdge_okc hh
  cases p2 with
  | none =>
    simp only [] at h ⊢
    cases p1 with
    | none => exact Fc.refl _
    | some p => exact (Fc.thenUser_ok h (hadd _)).1
  | some q =>
    simp only [] at h ⊢
    obtain ⟨f2, r0, h0⟩ := Fc.thenUser_ok h (hadd _)
    refine Fc.trans ?_ f2
    cases p1 with
    | none => exact Fc.refl _
    | some p => exact (Fc.thenUser_ok h0 (hadd _)).1

/-- an accepted `uSwap` touches no node record beyond track / lineage ids -/
theorem uSwap_okc {s : St} {n1 n2 : Node} {recs : List PrimRec}
    (h : (s.uSwap n1 n2).2 = .ok recs) : Fc s (s.uSwap n1 n2).1 := by
  rcases uSwap_cases s n1 n2 with ⟨e, he⟩ | he
  · rw [he]; exact Fc.refl _
  · rw [he] at h ⊢; exact swapTail_okc h

end Ft.R2G

namespace Ft.R2G
open Ft Ft.St List

/-! ### B. `enable ks true` makes the enabled keys current -/

theorem Fr.foldl' {β : Type} (f : St → β → St) (h : ∀ a x, Fr a (f a x)) (l : List β) (a : St) :
    Fr a (l.foldl f a) := by
  induction l generalizing a with
  | nil => exact Fr.refl _
  | cons x l ih => exact (h a x).trans (ih _)

theorem Fr.assignTracklets (s : St) : Fr s s.assignTracklets := by
  unfold St.assignTracklets
  simp only
  have h : ∀ (idx : List (Nat × List Node)) (st : St),
      Fr st (idx.foldl (fun st p => p.2.foldl (fun st2 n => st2.setTid n (p.1 + 1)) st) st) := by
    intro idx st
    exact Fr.foldl' _ (fun a (p : Nat × List Node) =>
      Fr.foldl' (fun st2 n => st2.setTid n (p.1 + 1)) (fun b n => Fr.setTid b n _) _ _) _ _
  exact (h _ s).trans ⟨rfl, rfl, rfl, rfl, rfl, rfl, rfl⟩

theorem Fr.assignLineages (s : St) : Fr s s.assignLineages := by
  unfold St.assignLineages
  simp only
  have h : ∀ (idx : List (Nat × List Node)) (st : St),
      Fr st (idx.foldl (fun st p => p.2.foldl (fun st2 n => st2.setLin n (some (p.1 + 1))) st) st) := by
    intro idx st
    exact Fr.foldl' _ (fun a (p : Nat × List Node) =>
      Fr.foldl' (fun st2 n => st2.setLin n (some (p.1 + 1))) (fun b n => Fr.setLin b n _) _ _) _ _
  exact (h _ s).trans ⟨rfl, rfl, rfl, rfl, rfl, rfl, rfl⟩

theorem rpActive_of_cfg {s t : St} (h : t.cfg = s.cfg) : t.rpActive = s.rpActive := by
  simp only [cfg, Prod.mk.injEq] at h
  exact h.2.2.2.2.2.2.2.2.1

theorem iouKey_of_cfg {s t : St} (h : t.cfg = s.cfg) : t.iouKey = s.iouKey := by
  simp only [cfg, Prod.mk.injEq] at h
  exact h.2.2.2.2.2.2.2.2.2.1

theorem iouActive_of_cfg {s t : St} (h : t.cfg = s.cfg) : t.iouActive = s.iouActive := by
  simp only [cfg, Prod.mk.injEq] at h
  exact h.2.2.2.2.2.2.2.2.2.2

theorem foldl_rpStep_frame (g : Seg) (ks : List Key) (W : List (Nat × Nat)) (st : St) :
    (W.foldl (rpStep g ks) st).skel = st.skel ∧ (W.foldl (rpStep g ks) st).seg = st.seg ∧
    (W.foldl (rpStep g ks) st).edges = st.edges := by
  induction W generalizing st with
  | nil => exact ⟨rfl, rfl, rfl⟩
  | cons w W ih =>
    rw [List.foldl_cons]
    obtain ⟨a, b, c⟩ := ih (rpStep g ks st w)
    obtain ⟨f1, f2, -, f4⟩ := rpStep_frame g ks st w
    exact ⟨a.trans f1, b.trans f2, c.trans f4⟩

/-- bulk regionprops never touches array, skeleton, edges -/
theorem rpCompute_frame (s : St) (keys : List Key) :
    (s.rpCompute keys).seg = s.seg ∧ (s.rpCompute keys).skel = s.skel ∧
    (s.rpCompute keys).edges = s.edges := by
  cases hg : s.seg with
  | none =>
    have : s.rpCompute keys = s := by unfold St.rpCompute; simp only [hg]
    rw [this]; exact ⟨hg, rfl, rfl⟩
  | some g =>
    by_cases hemp : (keys.filter (s.rpActive.contains ·)).isEmpty = true
    · have : s.rpCompute keys = s := by unfold St.rpCompute; simp only [hg, hemp, if_true]
      rw [this]; exact ⟨hg, rfl, rfl⟩
    · have hemp' : (keys.filter (s.rpActive.contains ·)).isEmpty = false := by simpa using hemp
      rw [rpCompute_eq s keys g hg hemp']
      obtain ⟨a, b, c⟩ := foldl_rpStep_frame g (keys.filter (s.rpActive.contains ·)) (rpWrites g) s
      exact ⟨b.trans hg, a, c⟩

/-- a non-zero label that is a node id occurs only in that node's own frame -/
def LabelsInFrame (s : St) (g : Seg) : Prop :=
  ∀ i, i < g.data.length → g.data.getD i 0 ≠ 0 → ∀ r ∈ s.nodes, r.id = g.data.getD i 0 →
    i / g.frame = r.time

theorem labelsInFrame_of_segOK {s : St} {g : Seg} (hg : s.seg = some g) (hnd : s.ids.Nodup)
    (hseg : SegOK s) : LabelsInFrame s g := by
  intro i hi hne r hr hid
  obtain ⟨r', hr', h1, h2⟩ := (hseg g hg).2 i hi hne
  have : r = r' := rec_unique_sg hnd hr hr' (by rw [hid, h1])
  subst this; exact h2

theorem mem_rpWrites_of_pixels {g : Seg} (hwf : g.WF) {t n : Nat} (h0 : n ≠ 0)
    (hpx : g.pixelsOf t n ≠ []) : (t, n) ∈ rpWrites g := by
  obtain ⟨p, hp1, hp2, hp3⟩ := Seg.pixelsOf_ne_nil.mp hpx
  have hlt : p < g.data.length := getD_ne_zero_lt_sg (by rw [hp3]; exact h0)
  simp only [rpWrites, List.mem_flatMap, List.mem_map, List.mem_range]
  refine ⟨t, ?_, n, ?_, rfl⟩
  · rw [Seg.nframes, if_neg (Nat.ne_of_gt hwf.1)]
    rw [← hp1]
    apply Nat.div_lt_of_lt_mul
    rw [Nat.mul_comm, Nat.div_mul_cancel (Nat.dvd_of_mod_eq_zero hwf.2)]
    exact hlt
  · rw [mem_labelsOf]
    refine ⟨h0, p % g.frame, Nat.mod_lt _ hp2, ?_⟩
    rw [← hp1, Nat.mul_comm, Nat.div_add_mod]
    exact hp3

theorem rpWrites_time' {s : St} {g : Seg} (hfr : LabelsInFrame s g)
    {w : Nat × Nat} (hw : w ∈ rpWrites g) {r : NodeRec} (hr : r ∈ s.nodes) (hid : r.id = w.2) :
    r.time = w.1 := by
  simp only [rpWrites, List.mem_flatMap, List.mem_map, List.mem_range] at hw
  obtain ⟨t, -, l, hl, rfl⟩ := hw
  obtain ⟨hl0, o, ho, hd⟩ := mem_labelsOf.mp hl
  have hne : g.data.getD (t * g.frame + o) 0 ≠ 0 := by rw [hd]; exact hl0
  have := hfr _ (getD_ne_zero_lt_sg hne) hne r hr (by rw [hid, hd])
  rw [← this]
  have hpos : 0 < g.frame := Nat.lt_of_le_of_lt (Nat.zero_le _) ho
  rw [Nat.mul_comm, Nat.mul_add_div hpos, Nat.div_eq_of_lt ho, Nat.add_zero]

/-- bulk regionprops: every requested active key of every node that has pixels ends up equal to
    the mask of the current array (whatever was stored before) -/
theorem rpCompute_current (s : St) (keys : List Key) (g : Seg) (hg : s.seg = some g) (hwf : g.WF)
    (h0 : ∀ r ∈ s.nodes, r.id ≠ 0) (hfr : LabelsInFrame s g) :
    ∀ k ∈ keys, k ∈ s.rpActive → ∀ r ∈ (s.rpCompute keys).nodes, g.pixelsOf r.time r.id ≠ [] →
      alook k r.other = some (Val.mask (g.pixelsOf r.time r.id)) := by
  intro k hk hact r hr hpx
  have hemp' : (keys.filter (s.rpActive.contains ·)).isEmpty = false := by
    cases hh : (keys.filter (s.rpActive.contains ·)).isEmpty with
    | false => rfl
    | true =>
      have : k ∈ keys.filter (s.rpActive.contains ·) := by simp [List.mem_filter, hk, hact]
      rw [List.isEmpty_iff.mp hh] at this; cases this
  rw [rpCompute_eq s keys g hg hemp'] at hr
  obtain ⟨g1, -, -, -, g5⟩ := rpFold_inv g (keys.filter (s.rpActive.contains ·)) s
    (rpWrites g) s [] rfl (fun w hw r hr hid => rpWrites_time' hfr hw hr hid)
    (fun r _ hd => by cases hd)
  have hsk : (r.id, r.time) ∈ s.skel := by rw [← g1]; exact mem_skel_of_mem hr
  obtain ⟨r0, hr0, he⟩ := List.mem_map.mp hsk
  simp only [Prod.mk.injEq] at he
  have hw : (r.time, r.id) ∈ rpWrites g :=
    mem_rpWrites_of_pixels hwf (by rw [← he.1]; exact h0 r0 hr0) hpx
  exact g5 r hr (Or.inr hw) k (by simp [List.mem_filter, hk, hact])

/-- key `k` is current on every node that has pixels -/
def RpCur (k : Key) (s : St) : Prop :=
  ∀ g, s.seg = some g → ∀ r ∈ s.nodes, g.pixelsOf r.time r.id ≠ [] →
    alook k r.other = some (Val.mask (g.pixelsOf r.time r.id))

theorem RpCur.ofFr {k : Key} {s s' : St} (h : Fr s s') (hc : RpCur k s) : RpCur k s' := by
  intro g hg r' hr' hpx
  rw [h.seg] at hg
  obtain ⟨r, hrm, he⟩ := h.mem hr'
  simp only [core, Prod.mk.injEq] at he
  rw [← he.1, ← he.2.1] at hpx ⊢
  rw [← he.2.2]
  exact hc g hg r hrm hpx

theorem RpCur.congr {k : Key} {s s' : St} (h1 : s'.seg = s.seg) (h2 : s'.nodes = s.nodes)
    (hc : RpCur k s) : RpCur k s' := by
  intro g hg r hr hpx
  rw [h1] at hg; rw [h2] at hr
  exact hc g hg r hr hpx

theorem iouOK_iouCompute (s : St) : IouOK s.iouCompute := by
  intro g hg ha k hk er her
  have hg' : s.seg = some g := by rw [← hg]; exact (foldl_iouUpdateEdge_seg _ _).symm
  have ha' : s.iouActive = true := by rw [← ha]; exact (foldl_iouUpdateEdge_iouActive _ _).symm
  have hk' : s.iouKey = some k := by rw [← hk]; exact (foldl_iouUpdateEdge_iouKey _ _).symm
  have hin : er.e ∈ s.edges.map (·.e) := by
    have : er.e ∈ s.iouCompute.edges.map (·.e) := List.mem_map.mpr ⟨er, her, rfl⟩
    rwa [show s.iouCompute.edges.map (·.e) = s.edges.map (·.e) from
      foldl_iouUpdateEdge_edgeList _ _] at this
  unfold St.iouCompute at her ⊢
  rw [iouOf_foldl_iouUpdateEdge]
  exact mem_foldl_iouUpdateEdge_in _ s hk' ha' (by simp [hg']) her hin

theorem mem_rpActive_enableReg {s : St} {ks : List Key} {k : Key} (hk : k ∈ ks) (ha : k ∈ s.rpAvail) :
    k ∈ (enableReg s ks).rpActive := by
  simp only [enableReg, List.mem_append, List.mem_eraseDups, List.mem_filter, Bool.and_eq_true,
    Bool.not_eq_true', List.contains_eq_mem, decide_eq_true_eq, decide_eq_false_iff_not]
  by_cases h : k ∈ s.rpActive
  · exact Or.inl h
  · exact Or.inr ⟨hk, ha, h⟩

/-- the whole recomputation of `enable`, on the enabled keys -/
theorem enableRecompute_current (s1 : St) (ks : List Key) (g : Seg) (hg : s1.seg = some g) (hwf : g.WF)
    (h0 : ∀ r ∈ s1.nodes, r.id ≠ 0) (hfr : LabelsInFrame s1 g) :
    (enableRecompute s1 ks).seg = s1.seg ∧ (enableRecompute s1 ks).skel = s1.skel ∧
    (∀ k ∈ ks, k ∈ s1.rpActive → RpCur k (enableRecompute s1 ks)) ∧
    (∀ k, s1.iouKey = some k → k ∈ ks → s1.iouActive = true →
        (enableRecompute s1 ks).iouKey = some k ∧ (enableRecompute s1 ks).iouActive = true ∧
        IouOK (enableRecompute s1 ks)) := by
  unfold enableRecompute
  simp only
  -- stage 2: regionprops
  obtain ⟨f1, f2, -⟩ := rpCompute_frame s1 ks
  have c2 : ∀ k ∈ ks, k ∈ s1.rpActive → RpCur k (s1.rpCompute ks) := by
    intro k hk ha g' hg' r hr hpx
    rw [f1, hg] at hg'; cases hg'
    exact rpCompute_current s1 ks g hg hwf h0 hfr k hk ha r hr hpx
  have k2 : (s1.rpCompute ks).iouKey = s1.iouKey := iouKey_of_cfg (cfg_rpCompute _ _)
  have a2 : (s1.rpCompute ks).iouActive = s1.iouActive := iouActive_of_cfg (cfg_rpCompute _ _)
  generalize s1.rpCompute ks = s2 at f1 f2 c2 k2 a2 ⊢
  -- stage 3: IoU
  have i3 : ∀ k, s1.iouKey = some k → k ∈ ks → s1.iouActive = true →
      IouOK (if (match s1.iouKey with | some k => ks.contains k | none => false) = true
        then s2.iouCompute else s2) := by
    intro k hk hks _
    simp only [hk, List.contains_eq_mem, hks, decide_true, if_true]
    exact iouOK_iouCompute s2
  have hfr3 : ∀ b : Bool, (if b = true then s2.iouCompute else s2).seg = s2.seg ∧
      (if b = true then s2.iouCompute else s2).nodes = s2.nodes ∧
      (if b = true then s2.iouCompute else s2).iouKey = s2.iouKey ∧
      (if b = true then s2.iouCompute else s2).iouActive = s2.iouActive := by
    intro b; cases b
    · exact ⟨rfl, rfl, rfl, rfl⟩
    · exact ⟨foldl_iouUpdateEdge_seg _ _, foldl_iouUpdateEdge_nodes _ _,
        foldl_iouUpdateEdge_iouKey _ _, foldl_iouUpdateEdge_iouActive _ _⟩
  obtain ⟨g3, n3, k3, a3⟩ := hfr3 (match s1.iouKey with | some k => ks.contains k | none => false)
  generalize (if (match s1.iouKey with | some k => ks.contains k | none => false) = true
        then s2.iouCompute else s2) = s3 at i3 g3 n3 k3 a3 ⊢
  have c3 : ∀ k ∈ ks, k ∈ s1.rpActive → RpCur k s3 := fun k hk ha => (c2 k hk ha).congr g3 n3
  -- stages 4, 5: id assignment
  have h4 : Fr s3 (if ks.contains keyTid = true then s3.assignTracklets else s3) := by
    split
    · exact Fr.assignTracklets _
    · exact Fr.refl _
  generalize (if ks.contains keyTid = true then s3.assignTracklets else s3) = s4 at h4 ⊢
  have h5 : Fr s4 (if (ks.contains keyLin && s4.linOn) = true then s4.assignLineages else s4) := by
    split
    · exact Fr.assignLineages _
    · exact Fr.refl _
  generalize (if (ks.contains keyLin && s4.linOn) = true then s4.assignLineages else s4) = s5 at h5 ⊢
  have hfr45 : Fr s3 s5 := h4.trans h5
  refine ⟨hfr45.seg.trans (g3.trans f1), hfr45.skel.trans ?_, ?_, ?_⟩
  · simp only [St.skel, n3]; exact f2
  · intro k hk ha; exact (c3 k hk ha).ofFr hfr45
  · intro k hk hks hact
    refine ⟨hfr45.iouKey.trans (k3.trans (k2.trans hk)), hfr45.iouActive.trans (a3.trans (a2.trans hact)),
      hfr45.iouOK (i3 k hk hks hact)⟩

/-- `enable ks true`: the accepted call is `enableRecompute ∘ enableReg` -/
theorem enable_true_eq {s s' : St} {ks : List Key} (h : s.enable ks true = some s') :
    s' = enableRecompute (enableReg s ks) ks := by
  cases hany : ks.any (fun k => !(s.annotKeys.contains k)) with
  | true => rw [enable_none s ks true hany] at h; cases h
  | false =>
    rw [enable_eq s ks true hany] at h
    simp only [if_true, Option.some.injEq] at h
    exact h.symm

end Ft.R2G

namespace Ft.R2G
open Ft Ft.St List

/-! ### C. the column of a disabled key through the user actions -/

/-- `col k` after dropping the entries of the nodes in `dels` -/
def colDrop (k : Key) (s : St) (dels : List Node) : List (Node × Option Val) :=
  (col k s).filter (fun p => !dels.contains p.1)

theorem colDrop_nil (k : Key) (s : St) : colDrop k s [] = col k s := by
  simp [colDrop]

theorem colDrop_filter (k : Key) (s : St) (dels : List Node) (n : Node) :
    (colDrop k s dels).filter (fun p => p.1 != n) = colDrop k s (dels ++ [n]) := by
  unfold colDrop
  rw [List.filter_filter]
  apply List.filter_congr
  intro p _
  by_cases h1 : p.1 = n <;> by_cases h2 : p.1 ∈ dels <;> simp [h1, h2]

theorem col_pDelNode {k : Key} {s s' : St} {n : Node} {px : Option (List Pix)} {rec : PrimRec}
    (h : s.pDelNode n px = .ok (s', rec)) :
    col k s' = (col k s).filter (fun p => p.1 != n) ∧ s'.rpActive = s.rpActive := by
  refine ⟨?_, rpActive_of_cfg (cfg_pDelNode h)⟩
  obtain ⟨r, -, -, rfl⟩ := pDelNode_ok_sg h
  rw [(Fc.ofFr (Fr.trackOnDelete _ _)).col]
  simp only [col, delRaw, paintWith_nodes, List.filter_map]
  rfl

theorem col_append (k : Key) (s : St) (r : NodeRec) :
    col k ({ s with nodes := s.nodes ++ [r] } : St) = col k s ++ [(r.id, alook k r.other)] := by
  simp [col]

theorem col_pAddNode_new {k : Key} {s s' : St} {r : NodeRec} {px : Option (List Pix)} {rec : PrimRec}
    (hk : k ∉ s.rpActive) (hnew : s.hasNode r.id = false) (h : s.pAddNode r px = .ok (s', rec)) :
    col k s' = col k s ++ [(r.id, alook k r.other)] ∧ s'.rpActive = s.rpActive := by
  refine ⟨?_, rpActive_of_cfg (cfg_pAddNode h)⟩
  obtain ⟨-, -, rfl⟩ := pAddNode_ok_sg h
  rw [(Fc.ofFr (Fr.trackAdd _ _)).col]
  have hnew1 : (s.paintWith px r.id).hasNode r.id = false := by rw [paintWith_hasNode, hnew]
  rw [addNodeRaw_new hnew1, col_rpUpdate (by simpa using hk), col_append]
  simp [col]

theorem col_uDeleteNode {k : Key} {s : St} {n : Node} {px : Option (List Pix)} {recs : List PrimRec}
    (h : (s.uDeleteNode n px).2 = .ok recs) :
    col k (s.uDeleteNode n px).1 = (col k s).filter (fun p => p.1 != n) ∧
    (s.uDeleteNode n px).1.rpActive = s.rpActive := by
  obtain ⟨st, r, hfc, hd⟩ := uDeleteNode_okc h
  obtain ⟨h1, h2⟩ := col_pDelNode (k := k) hd
  exact ⟨by rw [h1, hfc.col], h2.trans hfc.rpActive⟩

theorem col_uAddNode {k : Key} {s : St} {a : AddNodeArgs} {recs : List PrimRec}
    (hk : k ∉ s.rpActive) (h : (s.uAddNode a).2 = .ok recs) :
    col k (s.uAddNode a).1 = col k s ++ [(a.node, alook k a.other)] ∧
    (s.uAddNode a).1.rpActive = s.rpActive ∧ s.hasNode a.node = false := by
  obtain ⟨time, tid, lin, st, s2, r, -, hn, hfc, hadd, hfc2⟩ := uAddNode_okc h
  have hk' : k ∉ st.rpActive := by rw [hfc.rpActive]; exact hk
  have hn' : st.hasNode a.node = false := by rw [hfc.hasNode]; exact hn
  obtain ⟨h1, h2⟩ := col_pAddNode_new (r := ⟨a.node, time, tid, lin, a.other⟩) hk' hn' hadd
  exact ⟨by rw [hfc2.col, h1, hfc.col], hfc2.rpActive.trans (h2.trans hfc.rpActive), hn⟩

/-- one accepted round of the group loop of `uUpdateSeg` -/
theorem col_segGrpStep {k : Key} {acc : UOut} {grp : Grp} {recs : List PrimRec}
    (hk : k ∉ acc.1.rpActive) (h : (segGrpStep acc grp).2 = .ok recs) :
    (col k (segGrpStep acc grp).1 = col k acc.1 ∨
      col k (segGrpStep acc grp).1 = (col k acc.1).filter (fun p => p.1 != grp.2)) ∧
    (segGrpStep acc grp).1.rpActive = acc.1.rpActive := by
  generalize hout : segGrpStep acc grp = out at h ⊢
  unfold segGrpStep at hout
  split at hout
  · subst hout; exact ⟨Or.inl rfl, rfl⟩
  · split at hout
    · subst hout; exact ⟨Or.inl rfl, rfl⟩
    · split at hout
      · simp only at hout
        split at hout
        · subst hout
          obtain ⟨r0, r1, -, hok, h1, -⟩ := St.thenUser_ok h
          rw [h1]
          obtain ⟨c1, c2⟩ := col_uDeleteNode (k := k) hok
          exact ⟨Or.inr c1, c2⟩
        · subst hout
          obtain ⟨r0, st', r, -, hf, h1, -⟩ := St.thenPrim_ok h
          rw [h1]
          exact ⟨Or.inl (col_pUpdSeg hk hf), rpActive_of_cfg (cfg_pUpdSeg hf)⟩
      · subst hout; exact ⟨Or.inl rfl, rfl⟩

theorem col_foldl_segGrpStep {k : Key} (gs : List Grp) {acc : UOut} {recs : List PrimRec}
    (hk : k ∉ acc.1.rpActive) (h : (gs.foldl segGrpStep acc).2 = .ok recs) :
    (∃ dels, (∀ d ∈ dels, ∃ grp ∈ gs, grp.2 = d) ∧
      col k (gs.foldl segGrpStep acc).1 = colDrop k acc.1 dels) ∧
    (gs.foldl segGrpStep acc).1.rpActive = acc.1.rpActive := by
  induction gs generalizing acc with
  | nil => exact ⟨⟨[], fun d hd => (by cases hd), (colDrop_nil _ _).symm⟩, rfl⟩
  | cons grp gs ih =>
    rw [List.foldl_cons] at h ⊢
    cases hs : (segGrpStep acc grp).2 with
    | error e => rw [foldl_segGrpStep_error gs hs] at h; cases h
    | ok recs1 =>
      obtain ⟨c1, c2⟩ := col_segGrpStep hk hs
      have hk1 : k ∉ (segGrpStep acc grp).1.rpActive := by rw [c2]; exact hk
      obtain ⟨⟨dels, hd, hc⟩, hr⟩ := ih hk1 h
      refine ⟨?_, hr.trans c2⟩
      rcases c1 with c1 | c1
      · refine ⟨dels, fun d hdm => ?_, ?_⟩
        · obtain ⟨g', hg', he⟩ := hd d hdm
          exact ⟨g', List.mem_cons_of_mem _ hg', he⟩
        · rw [hc]; unfold colDrop; rw [c1]
      · refine ⟨[grp.2] ++ dels, fun d hdm => ?_, ?_⟩
        · rcases List.mem_append.mp hdm with hm | hm
          · exact ⟨grp, List.mem_cons_self .., (List.mem_singleton.mp hm).symm⟩
          · obtain ⟨g', hg', he⟩ := hd d hm
            exact ⟨g', List.mem_cons_of_mem _ hg', he⟩
        · rw [hc]; unfold colDrop; rw [c1, List.filter_filter]
          apply List.filter_congr
          intro p _
          by_cases h1 : p.1 = grp.2 <;> by_cases h2 : p.1 ∈ dels <;> simp [h1, h2]

theorem col_uusGrow {k : Key} {a0 : UOut} {recs0 : List PrimRec} {v : Nat} {groups : List Grp}
    {tid : Nat} {force : Bool} {recs : List PrimRec} (hk : k ∉ a0.1.rpActive)
    (h : (uusGrow a0 recs0 v groups tid force).1.2 = .ok recs) :
    col k (uusGrow a0 recs0 v groups tid force).1.1 = col k a0.1 ∨
    (a0.1.hasNode v = false ∧
      col k (uusGrow a0 recs0 v groups tid force).1.1 = col k a0.1 ++ [(v, none)]) := by
  generalize hout : uusGrow a0 recs0 v groups tid force = out at h ⊢
  unfold uusGrow at hout
  split at hout
  · simp only at hout
    split at hout
    · split at hout
      · subst hout
        simp only at h ⊢
        obtain ⟨r0, st', r, -, hf, h1, -⟩ := St.thenPrim_ok h
        rw [h1]
        exact Or.inl (col_pUpdSeg hk hf)
      · split at hout
        · rename_i recs' hok
          subst hout
          simp only
          obtain ⟨c1, -, hn⟩ := col_uAddNode hk hok
          exact Or.inr ⟨hn, by rw [c1]; rfl⟩
        · subst hout; cases h
    · subst hout; cases h
  · subst hout; exact Or.inl rfl

/-- an accepted `uUpdateSeg`: the column of a disabled key loses the entries of the deleted
    nodes (each the label of a group) and gains at most the entry `(v, absent)` of a new node -/
theorem col_uUpdateSeg {k : Key} {s : St} {v : Nat} {groups : List Grp} {tid : Nat} {force : Bool}
    {recs : List PrimRec} (hk : k ∉ s.rpActive)
    (h : (s.uUpdateSeg v groups tid force).1.2 = .ok recs) :
    ∃ dels, (∀ d ∈ dels, ∃ grp ∈ groups, grp.2 = d) ∧
      (col k (s.uUpdateSeg v groups tid force).1.1 = colDrop k s dels ∨
       (v ∉ (colDrop k s dels).map (·.1) ∧
        col k (s.uUpdateSeg v groups tid force).1.1 = colDrop k s dels ++ [(v, none)])) := by
  rw [uUpdateSeg_eq_sg] at h ⊢
  cases hg : s.seg with
  | none => simp only [hg] at h; cases h
  | some g =>
    simp only [hg] at h ⊢
    cases h0 : (groups.foldl segGrpStep (s, .ok [])).2 with
    | error e => simp only [h0] at h; cases h
    | ok recs0 =>
      simp only [h0] at h ⊢
      obtain ⟨⟨dels, hd, hc⟩, hr⟩ := col_foldl_segGrpStep (k := k) groups (acc := (s, .ok [])) hk h0
      have hk0 : k ∉ (groups.foldl segGrpStep (s, .ok [])).1.rpActive := by rw [hr]; exact hk
      refine ⟨dels, hd, ?_⟩
      rcases col_uusGrow hk0 h with c | ⟨hn, c⟩
      · exact Or.inl (c.trans hc)
      · refine Or.inr ⟨?_, by rw [c, hc]⟩
        rw [← hc]
        intro hm
        have : v ∈ (groups.foldl segGrpStep (s, .ok [])).1.ids := by
          simpa [col, ids] using hm
        rw [← hasNode_iff_mem_ids_sg, hn] at this; cases this

/-- what DeleteNode saves carries no key outside the registry -/
theorem alook_savedAttrs {s : St} {r : NodeRec} {k : Key} (hk : k ∉ s.regNode) :
    alook k (s.savedAttrs r).other = none := by
  simp only [savedAttrs]
  induction r.other with
  | nil => rfl
  | cons kv l ih =>
    simp only [List.filter_cons]
    split
    · rename_i hc
      simp only [Bool.and_eq_true, List.contains_eq_mem, decide_eq_true_eq] at hc
      have hne : kv.1 ≠ k := fun e => hk (e ▸ hc.1)
      simp only [alook]
      rw [if_neg (by simpa using hne)]
      exact ih
    · exact ih

theorem col_congr {k : Key} {s s' : St} (h : s'.nodes = s.nodes) : col k s' = col k s := by
  simp only [col, h]

theorem commit_ok {r : UOut} {p : Option Node} {s' : St} (h : commit r p = (s', .ok)) :
    ∃ recs, r.2 = .ok recs ∧ s'.nodes = r.1.nodes ∧ s'.seg = r.1.seg ∧ s'.rpActive = r.1.rpActive := by
  unfold St.commit at h
  split at h
  · rename_i recs hr
    simp only [Prod.mk.injEq, and_true] at h
    subst h; exact ⟨recs, hr, rfl, rfl, rfl⟩
  · simp only [Prod.mk.injEq] at h; exact absurd h.2 (by simp)

theorem histCore_ne_ok (s : St) (r : Hist ActRec × St × Bool) (bad : Bool) :
    (histCore s r bad).2 ≠ .ok := by
  unfold histCore
  cases bad
  · simp only [Bool.false_eq_true, if_false]; split <;> simp
  · simp

end Ft.R2G

namespace Ft.R2G
open Ft Ft.St List

/-! ### D. `SegOK` through a whole paint, through UpdateNodeSeg; undo of AddNode -/

/-- The documented stroke preconditions (DESIGN §3) on the array `g` BEFORE the caller painted and
    the node skeleton `k`: the stroke lies in the one frame `t0` and in range; every group is
    non-empty and lists pixels that carried the group's label (`prev`: "grouped by the true previous
    labels" — groups with different labels are therefore disjoint); no previous label equals the
    new value; an existing label `v` is painted only in its node's own frame. -/
structure PaintPre (g : Seg) (k : List (Node × Nat)) (v : Nat) (groups : List Grp) (t0 : Nat) : Prop where
  inframe : ∀ grp ∈ groups, ∀ p ∈ grp.1, p < g.data.length ∧ p / g.frame = t0
  nonempty : ∀ grp ∈ groups, grp.1 ≠ []
  prev : ∀ grp ∈ groups, ∀ p ∈ grp.1, g.data.getD p 0 = grp.2
  ne_new : ∀ grp ∈ groups, grp.2 ≠ v
  own : groups ≠ [] → ∀ p ∈ k, p.1 = v → p.2 = t0

instance (g : Seg) (k : List (Node × Nat)) (v : Nat) (groups : List Grp) (t0 : Nat) :
    Decidable (PaintPre g k v groups t0) :=
  decidable_of_iff
    ((∀ grp ∈ groups, ∀ p ∈ grp.1, p < g.data.length ∧ p / g.frame = t0) ∧
     (∀ grp ∈ groups, grp.1 ≠ []) ∧ (∀ grp ∈ groups, ∀ p ∈ grp.1, g.data.getD p 0 = grp.2) ∧
     (∀ grp ∈ groups, grp.2 ≠ v) ∧ (groups ≠ [] → ∀ p ∈ k, p.1 = v → p.2 = t0))
    ⟨fun h => ⟨h.1, h.2.1, h.2.2.1, h.2.2.2.1, h.2.2.2.2⟩,
     fun h => ⟨h.inframe, h.nonempty, h.prev, h.ne_new, h.own⟩⟩

/-- copy of `Ft.St.paintSkel` (Props/C07.lean), tied to it by `rfl` in Props/C07_R2G.lean -/
def paintSkelR (gP : Seg) (k : List (Node × Nat)) (v : Nat) (groups : List Grp) : List (Node × Nat) :=
  let ak := groups.foldl segAbsStep (gP, k)
  if v ≠ 0 ∧ groups ≠ [] then
    if v ∈ ak.2.map (·.1) then ak.2
    else ak.2 ++ [(v, ((groups.flatMap (·.1)).head?.getD 0) / gP.frame)]
  else ak.2

/-- `A` is the painted array `P` with some cells that read `v` in `P` zeroed -/
def Rel (A P : Seg) (v : Nat) : Prop :=
  A.frame = P.frame ∧ A.data.length = P.data.length ∧
  ∀ i, A.data.getD i 0 = P.data.getD i 0 ∨ (P.data.getD i 0 = v ∧ A.data.getD i 0 = 0)

theorem Rel.refl (P : Seg) (v : Nat) : Rel P P v := ⟨rfl, rfl, fun _ => Or.inl rfl⟩

theorem Rel.offsetsOf {A P : Seg} {v : Nat} (h : Rel A P v) {l : Nat} (hl0 : l ≠ 0) (hlv : l ≠ v)
    (t : Nat) : A.offsetsOf t l = P.offsetsOf t l := by
  simp only [Seg.offsetsOf, h.1]
  apply List.filter_congr
  intro o _
  rcases h.2.2 (t * P.frame + o) with e | ⟨e1, e2⟩
  · rw [e]
  · rw [e1, e2]
    have a : (0 == l) = false := by simpa using (Ne.symm hl0)
    have b : (v == l) = false := by simpa using (Ne.symm hlv)
    rw [a, b]

theorem Rel.setPixels {A P : Seg} {v : Nat} (h : Rel A P v) {px : List Pix}
    (hpx : ∀ p ∈ px, p < P.data.length → P.data.getD p 0 = v) : Rel (A.setPixels px 0) P v := by
  refine ⟨h.1, (Seg.setPixels_length ..).trans h.2.1, fun i => ?_⟩
  rw [Seg.setPixels_getD]
  by_cases hc : i ∈ px ∧ i < A.data.length
  · rw [if_pos hc]
    exact Or.inr ⟨hpx i hc.1 (h.2.1 ▸ hc.2), rfl⟩
  · rw [if_neg hc]; exact h.2.2 i

/-- label `n` is dropped by the group loop: it is the (non-zero) label of a group and does not
    occur in frame `t0` of the painted array -/
def removedB (P : Seg) (t0 : Nat) (groups : List Grp) (n : Nat) : Bool :=
  groups.any (fun grp => grp.2 != 0 && grp.2 == n && (P.offsetsOf t0 grp.2).isEmpty)

theorem removedB_iff {P : Seg} {t0 : Nat} {groups : List Grp} {n : Nat} :
    removedB P t0 groups n = true ↔
      ∃ grp ∈ groups, grp.2 ≠ 0 ∧ grp.2 = n ∧ P.offsetsOf t0 n = [] := by
  simp only [removedB, List.any_eq_true, Bool.and_eq_true, bne_iff_ne, beq_iff_eq,
    List.isEmpty_iff]
  constructor
  · rintro ⟨grp, hm, ⟨h1, h2⟩, h3⟩; exact ⟨grp, hm, h1, h2, h2 ▸ h3⟩
  · rintro ⟨grp, hm, h1, h2, h3⟩; exact ⟨grp, hm, ⟨h1, h2⟩, h2 ▸ h3⟩

/-- closed form of the skeleton after the abstract group loop -/
theorem foldl_segAbsStep_skel {P : Seg} {v t0 : Nat} (gs : List Grp) :
    ∀ (A : Seg) (k : List (Node × Nat)), Rel A P v →
      (∀ grp ∈ gs, grp.1 ≠ [] ∧ grp.2 ≠ v ∧
        ∀ p ∈ grp.1, p < P.data.length ∧ p / P.frame = t0 ∧ P.data.getD p 0 = v) →
      (gs.foldl segAbsStep (A, k)).2 = k.filter (fun p => !removedB P t0 gs p.1) := by
  induction gs with
  | nil =>
    intro A k _ _
    simp only [List.foldl_nil, removedB, List.any_nil, Bool.not_false]
    exact (List.filter_eq_self.mpr (fun _ _ => rfl)).symm
  | cons grp gs ih =>
    intro A k hrel hgs
    obtain ⟨hne, hv, hpx⟩ := hgs grp (List.mem_cons_self ..)
    have hgs' : ∀ grp' ∈ gs, grp'.1 ≠ [] ∧ grp'.2 ≠ v ∧
        ∀ p ∈ grp'.1, p < P.data.length ∧ p / P.frame = t0 ∧ P.data.getD p 0 = v :=
      fun grp' hm => hgs grp' (List.mem_cons_of_mem _ hm)
    rw [List.foldl_cons]
    have hrel' : Rel (A.setPixels grp.1 0) P v := hrel.setPixels (fun p hp _ => (hpx p hp).2.2)
    by_cases h0 : grp.2 = 0
    · have hstep : segAbsStep (A, k) grp = (A, k) := by
        unfold segAbsStep; simp [h0]
      rw [hstep, ih A k hrel hgs']
      apply List.filter_congr
      intro p _
      simp [removedB, h0]
    · obtain ⟨p0, rest, hcons⟩ : ∃ p0 rest, grp.1 = p0 :: rest := by
        cases hh : grp.1 with
        | nil => exact absurd hh hne
        | cons a l => exact ⟨a, l, rfl⟩
      have hp0 : p0 / A.frame = t0 := by
        rw [hrel.1]; exact (hpx p0 (by rw [hcons]; exact List.mem_cons_self ..)).2.1
      have hoff : A.offsetsOf t0 grp.2 = P.offsetsOf t0 grp.2 := hrel.offsetsOf h0 hv t0
      have hb : (grp.2 == 0) = false := by simpa using h0
      by_cases hemp : (P.offsetsOf t0 grp.2).isEmpty = true
      · have hstep : segAbsStep (A, k) grp = (A.setPixels grp.1 0, k.filter (·.1 != grp.2)) := by
          unfold segAbsStep
          simp only [hb, Bool.false_eq_true, if_false, hcons, List.head?_cons, hp0, hoff, hemp, if_true]
        rw [hstep, ih _ _ hrel' hgs', List.filter_filter]
        apply List.filter_congr
        intro p _
        have hne0 : (grp.2 != 0) = true := by simpa using h0
        simp only [removedB, List.any_cons, hne0, hemp, Bool.true_and, Bool.and_true, Bool.not_or]
        by_cases he : grp.2 = p.1
        · simp [he]
        · have h1 : (grp.2 == p.1) = false := by simpa using he
          have h2 : (p.1 != grp.2) = true := by simpa using (Ne.symm he)
          simp [h1, h2]
      · have hemp' : (P.offsetsOf t0 grp.2).isEmpty = false := by simpa using hemp
        have hstep : segAbsStep (A, k) grp = (A.setPixels grp.1 0, k) := by
          unfold segAbsStep
          simp only [hb, Bool.false_eq_true, if_false, hcons, List.head?_cons, hp0, hoff, hemp']
        rw [hstep, ih _ _ hrel' hgs']
        apply List.filter_congr
        intro p _
        simp [removedB, hemp']

theorem skel_time_unique {k : List (Node × Nat)} (hnd : (k.map (·.1)).Nodup) {n a b : Nat}
    (ha : (n, a) ∈ k) (hb : (n, b) ∈ k) : a = b := by
  induction k with
  | nil => cases ha
  | cons x xs ih =>
    simp only [List.map_cons, List.nodup_cons, List.mem_map, not_exists, not_and] at hnd
    rcases List.mem_cons.mp ha with h1 | h1 <;> rcases List.mem_cons.mp hb with h2 | h2
    · rw [← h1] at h2; exact (Prod.mk.inj h2).2.symm
    · exact absurd (by rw [← h1]) (hnd.1 (n, b) h2)
    · exact absurd (by rw [← h2]) (hnd.1 (n, a) h1)
    · exact ih hnd.2 h1 h2

theorem getD_frame_mod {g : Seg} (i : Nat) :
    g.data.getD ((i / g.frame) * g.frame + i % g.frame) 0 = g.data.getD i 0 := by
  rw [Nat.mul_comm, Nat.div_add_mod]

/-- THE combinatorial lemma: a consistent (array, skeleton) pair and the stroke preconditions give
    a consistent pair (painted array, `paintSkel`). Lists and arrays only. -/
theorem segOKk_paint {g : Seg} {k : List (Node × Nat)} {v : Nat} {groups : List Grp} {t0 : Nat}
    (hpos : 0 < g.frame) (hnd : (k.map (·.1)).Nodup) (h0 : ∀ p ∈ k, p.1 ≠ 0) (hs : SegOKk g k)
    (hp : PaintPre g k v groups t0) :
    SegOKk (g.setPixels (groups.flatMap (·.1)) v)
      (paintSkelR (g.setPixels (groups.flatMap (·.1)) v) k v groups) := by
  by_cases hgr : groups = []
  · subst hgr
    have hP : g.setPixels (([] : List Grp).flatMap (·.1)) v = g := rfl
    simp only [paintSkelR, ne_eq, not_true_eq_false, and_false, if_false, List.foldl_nil]
    rw [hP]; exact hs
  generalize hP : g.setPixels (groups.flatMap (·.1)) v = P
  have hPf : P.frame = g.frame := by rw [← hP]; rfl
  have hPl : P.data.length = g.data.length := by rw [← hP]; exact Seg.setPixels_length ..
  have hPg : ∀ i, P.data.getD i 0
      = if i ∈ groups.flatMap (·.1) ∧ i < g.data.length then v else g.data.getD i 0 := by
    intro i; rw [← hP]; exact Seg.setPixels_getD ..
  -- stroke pixels
  have hstroke : ∀ grp ∈ groups, ∀ p ∈ grp.1,
      p < P.data.length ∧ p / P.frame = t0 ∧ P.data.getD p 0 = v := by
    intro grp hm p hpm
    obtain ⟨h1, h2⟩ := hp.inframe grp hm p hpm
    refine ⟨hPl ▸ h1, hPf ▸ h2, ?_⟩
    rw [hPg, if_pos ⟨List.mem_flatMap.mpr ⟨grp, hm, hpm⟩, h1⟩]
  have hall : ∀ i ∈ groups.flatMap (·.1), ∃ grp ∈ groups, i ∈ grp.1 := by
    intro i hi
    obtain ⟨grp, hm, hi'⟩ := List.mem_flatMap.mp hi
    exact ⟨grp, hm, hi'⟩
  -- closed form of the skeleton after the loop
  have hsk : (groups.foldl segAbsStep (P, k)).2 = k.filter (fun p => !removedB P t0 groups p.1) :=
    foldl_segAbsStep_skel groups P k (Rel.refl P v)
      (fun grp hm => ⟨hp.nonempty grp hm, hp.ne_new grp hm, hstroke grp hm⟩)
  generalize hkf : k.filter (fun p => !removedB P t0 groups p.1) = kf at hsk
  have hkf_mem : ∀ p, p ∈ kf ↔ p ∈ k ∧ removedB P t0 groups p.1 = false := by
    intro p; rw [← hkf, List.mem_filter]; simp
  -- head pixel of the stroke
  obtain ⟨grp0, hgrp0⟩ := List.exists_mem_of_ne_nil _ hgr
  obtain ⟨q0, hq0⟩ := List.exists_mem_of_ne_nil _ (hp.nonempty grp0 hgrp0)
  have hallne : groups.flatMap (·.1) ≠ [] := by
    intro e
    have : q0 ∈ groups.flatMap (·.1) := List.mem_flatMap.mpr ⟨grp0, hgrp0, hq0⟩
    rw [e] at this; cases this
  obtain ⟨p0, rest, hhead⟩ : ∃ p0 rest, groups.flatMap (·.1) = p0 :: rest := by
    cases hh : groups.flatMap (·.1) with
    | nil => exact absurd hh hallne
    | cons a l => exact ⟨a, l, rfl⟩
  have hp0 : p0 < P.data.length ∧ p0 / P.frame = t0 ∧ P.data.getD p0 0 = v := by
    obtain ⟨grp, hm, hi⟩ := hall p0 (by rw [hhead]; exact List.mem_cons_self ..)
    exact hstroke grp hm p0 hi
  -- (A) surviving entries other than `v` keep a pixel
  have claimA : ∀ p ∈ kf, p.1 ≠ v → P.pixelsOf p.2 p.1 ≠ [] := by
    intro p hpk hpv
    obtain ⟨hpk, hnr⟩ := (hkf_mem p).mp hpk
    obtain ⟨q, hq1, -, hq3⟩ := Seg.pixelsOf_ne_nil.mp (hs.1 p hpk)
    have hqlt : q < g.data.length := getD_ne_zero_lt_sg (by rw [hq3]; exact h0 p hpk)
    by_cases hin : q ∈ groups.flatMap (·.1)
    · obtain ⟨grp, hm, hi⟩ := hall q hin
      have hl : grp.2 = p.1 := by rw [← hp.prev grp hm q hi, hq3]
      have ht : p.2 = t0 := by rw [← hq1]; exact (hp.inframe grp hm q hi).2
      have hoff : P.offsetsOf t0 p.1 ≠ [] := by
        intro e
        have : removedB P t0 groups p.1 = true :=
          removedB_iff.mpr ⟨grp, hm, by rw [hl]; exact h0 p hpk, hl, e⟩
        rw [hnr] at this; cases this
      obtain ⟨o, ho⟩ := List.exists_mem_of_ne_nil _ hoff
      obtain ⟨ho1, ho2⟩ := Seg.mem_offsetsOf.mp ho
      rw [ht]
      intro e
      have : t0 * P.frame + o ∈ P.pixelsOf t0 p.1 := Seg.mem_pixelsOf'.mpr ⟨o, ho1, ho2, rfl⟩
      rw [e] at this; cases this
    · rw [Seg.pixelsOf_ne_nil]
      refine ⟨q, by rw [hPf]; exact hq1, by rw [hPf]; exact hpos, ?_⟩
      rw [hPg, if_neg (fun hh => hin hh.1)]; exact hq3
  -- (A') an entry of `v` lives in the stroke's frame and has the stroke's pixels
  have claimV : P.pixelsOf t0 v ≠ [] := by
    rw [Seg.pixelsOf_ne_nil]
    exact ⟨p0, hp0.2.1, by rw [hPf]; exact hpos, hp0.2.2⟩
  -- (B) labels outside the stroke keep their entry
  have claimB : ∀ i, i < P.data.length → P.data.getD i 0 ≠ 0 →
      ¬ (i ∈ groups.flatMap (·.1) ∧ i < g.data.length) → (P.data.getD i 0, i / P.frame) ∈ kf := by
    intro i hi hne hnin
    rw [hPg, if_neg hnin] at hne ⊢
    rw [hPf]
    have hik : (g.data.getD i 0, i / g.frame) ∈ k := hs.2 i (hPl ▸ hi) hne
    refine (hkf_mem _).mpr ⟨hik, ?_⟩
    cases hrm : removedB P t0 groups (g.data.getD i 0) with
    | false => rfl
    | true =>
      exfalso
      obtain ⟨grp, hm, hl0, hl, hoff⟩ := removedB_iff.mp hrm
      obtain ⟨q, hq⟩ := List.exists_mem_of_ne_nil _ (hp.nonempty grp hm)
      obtain ⟨hq1, hq2⟩ := hp.inframe grp hm q hq
      have hqk : (g.data.getD i 0, t0) ∈ k := by
        have := hs.2 q hq1 (by rw [hp.prev grp hm q hq]; exact hl0)
        rw [hp.prev grp hm q hq, hl, hq2] at this; exact this
      have ht : i / g.frame = t0 := skel_time_unique hnd hik hqk
      have : i % P.frame ∈ P.offsetsOf t0 (g.data.getD i 0) := by
        rw [Seg.mem_offsetsOf]
        refine ⟨Nat.mod_lt _ (by rw [hPf]; exact hpos), ?_⟩
        have := getD_frame_mod (g := P) i
        rw [hPf] at this ⊢
        rw [ht] at this
        rw [this, hPg, if_neg hnin]
      rw [hoff] at this; cases this
  -- assemble
  unfold paintSkelR
  simp only [hsk]
  by_cases hv0 : v = 0
  · have hc : ¬ (v ≠ 0 ∧ groups ≠ []) := fun hh => hh.1 hv0
    rw [if_neg hc]
    refine ⟨fun p hpk => claimA p hpk ?_, fun i hi hne => ?_⟩
    · rw [hv0]; exact h0 p ((hkf_mem p).mp hpk).1
    · refine claimB i hi hne (fun hin => hne ?_)
      rw [hPg, if_pos hin, hv0]
  · rw [if_pos ⟨hv0, hgr⟩]
    have hstrokeB : ∀ i, (i ∈ groups.flatMap (·.1) ∧ i < g.data.length) →
        P.data.getD i 0 = v ∧ i / P.frame = t0 := by
      intro i hin
      obtain ⟨grp, hm, hi⟩ := hall i hin.1
      exact ⟨(hstroke grp hm i hi).2.2, (hstroke grp hm i hi).2.1⟩
    by_cases hvin : v ∈ kf.map (·.1)
    · rw [if_pos hvin]
      obtain ⟨pv, hpv, hpv1⟩ := List.mem_map.mp hvin
      have hown : ∀ p ∈ kf, p.1 = v → p.2 = t0 :=
        fun p hpk he => hp.own hgr p ((hkf_mem p).mp hpk).1 he
      refine ⟨fun p hpk => ?_, fun i hi hne => ?_⟩
      · by_cases he : p.1 = v
        · rw [he, hown p hpk he]; exact claimV
        · exact claimA p hpk he
      · by_cases hin : i ∈ groups.flatMap (·.1) ∧ i < g.data.length
        · obtain ⟨e1, e2⟩ := hstrokeB i hin
          rw [e1, e2, ← hown pv hpv hpv1, ← hpv1]; exact hpv
        · exact claimB i hi hne hin
    · rw [if_neg hvin]
      have hhd : ((groups.flatMap (·.1)).head?.getD 0) / P.frame = t0 := by
        rw [hhead]; exact hp0.2.1
      rw [hhd]
      refine ⟨fun p hpk => ?_, fun i hi hne => ?_⟩
      · rcases List.mem_append.mp hpk with hpk | hpk
        · exact claimA p hpk (fun he => hvin (List.mem_map.mpr ⟨p, hpk, he⟩))
        · rw [List.mem_singleton.mp hpk]; exact claimV
      · by_cases hin : i ∈ groups.flatMap (·.1) ∧ i < g.data.length
        · obtain ⟨e1, e2⟩ := hstrokeB i hin
          rw [e1, e2]
          exact List.mem_append.mpr (Or.inr (List.mem_singleton.mpr rfl))
        · exact List.mem_append.mpr (Or.inl (claimB i hi hne hin))

/-! #### UpdateNodeSeg -/

/-- grow: pixels of the node's frame that carry background or the label -/
theorem segOKk_grow {g : Seg} {k : List (Node × Nat)} {px : List Pix} {n t : Nat}
    (h : SegOKk g k) (h0 : ∀ p ∈ k, p.1 ≠ 0) (hmem : (n, t) ∈ k)
    (hbg : ∀ p ∈ px, p < g.data.length → g.data.getD p 0 = 0 ∨ g.data.getD p 0 = n)
    (hfr : ∀ p ∈ px, p < g.data.length → p / g.frame = t) :
    SegOKk (g.setPixels px n) k := by
  refine ⟨fun p hp => ?_, fun i hi hne => ?_⟩
  · by_cases he : p.1 = n
    · obtain ⟨q, hq1, hq2, hq3⟩ := Seg.pixelsOf_ne_nil.mp (h.1 p hp)
      rw [Seg.pixelsOf_ne_nil]
      refine ⟨q, hq1, hq2, ?_⟩
      rw [Seg.setPixels_getD]
      split
      · exact he.symm
      · exact hq3
    · have hu : g.Untouched px n p.1 := by
        refine ⟨he, fun q hq hlt e => ?_⟩
        rcases hbg q hq hlt with h1 | h1
        · exact h0 p hp (by rw [← e, h1])
        · exact he (by rw [← e, h1])
      rw [Seg.pixelsOf_setPixels_other hu]; exact h.1 p hp
  · rw [Seg.setPixels_length] at hi
    rw [Seg.setPixels_getD] at hne ⊢
    simp only [Seg.setPixels_frame]
    by_cases hc : i ∈ px ∧ i < g.data.length
    · rw [if_pos hc, hfr i hc.1 hc.2]; exact hmem
    · rw [if_neg hc] at hne ⊢; exact h.2 i hi hne

/-- shrink: the zeroed pixels carry the label (or background) and one pixel of the node remains -/
theorem segOKk_shrink {g : Seg} {k : List (Node × Nat)} {px : List Pix} {n t : Nat}
    (h : SegOKk g k) (hnd : (k.map (·.1)).Nodup) (h0 : ∀ p ∈ k, p.1 ≠ 0) (hmem : (n, t) ∈ k)
    (honly : ∀ p ∈ px, p < g.data.length → g.data.getD p 0 = n ∨ g.data.getD p 0 = 0)
    (hrem : ∃ q, q ∉ px ∧ q / g.frame = t ∧ 0 < g.frame ∧ g.data.getD q 0 = n) :
    SegOKk (g.setPixels px 0) k := by
  refine ⟨fun p hp => ?_, fun i hi hne => ?_⟩
  · by_cases he : p.1 = n
    · have ht : p.2 = t := skel_time_unique hnd (by rw [← he]; exact hp) hmem
      obtain ⟨q, hq1, hq2, hq3, hq4⟩ := hrem
      rw [Seg.pixelsOf_ne_nil, he, ht]
      refine ⟨q, hq2, hq3, ?_⟩
      rw [Seg.setPixels_getD, if_neg (fun hh => hq1 hh.1)]; exact hq4
    · have hu : g.Untouched px 0 p.1 := by
        refine ⟨h0 p hp, fun q hq hlt e => ?_⟩
        rcases honly q hq hlt with h1 | h1
        · exact he (by rw [← e, h1])
        · exact h0 p hp (by rw [← e, h1])
      rw [Seg.pixelsOf_setPixels_other hu]; exact h.1 p hp
  · rw [Seg.setPixels_length] at hi
    rw [Seg.setPixels_getD] at hne ⊢
    simp only [Seg.setPixels_frame]
    by_cases hc : i ∈ px ∧ i < g.data.length
    · rw [if_pos hc] at hne; exact absurd rfl hne
    · rw [if_neg hc] at hne ⊢; exact h.2 i hi hne

theorem mem_skel_of_timeOf {s : St} {n t : Nat} (h : s.timeOf n = some t) : (n, t) ∈ s.skel := by
  simp only [St.timeOf, Option.map_eq_some_iff] at h
  obtain ⟨r, hr, rfl⟩ := h
  have hid : r.id = n := findNode_id_sg hr
  have hm : r ∈ s.nodes := List.mem_of_find?_eq_some hr
  rw [← hid]; exact mem_skel_of_mem hm

theorem skel_nodup_of_ids {s : St} (h : s.ids.Nodup) : (s.skel.map (·.1)).Nodup := by
  rw [← ids_eq_skel_sg]; exact h

theorem segAbsStep_sublist (gk : Seg × List (Node × Nat)) (grp : Grp) :
    (segAbsStep gk grp).2.Sublist gk.2 := by
  unfold segAbsStep
  split
  · exact List.Sublist.refl _
  · split
    · split
      · exact List.filter_sublist
      · exact List.Sublist.refl _
    · exact List.Sublist.refl _

theorem foldl_segAbsStep_sublist (gs : List Grp) (gk : Seg × List (Node × Nat)) :
    (gs.foldl segAbsStep gk).2.Sublist gk.2 := by
  induction gs generalizing gk with
  | nil => exact List.Sublist.refl _
  | cons grp gs ih =>
    rw [List.foldl_cons]
    exact (ih _).trans (segAbsStep_sublist gk grp)

theorem paintSkelR_ids {gP : Seg} {k : List (Node × Nat)} {v : Nat} {groups : List Grp}
    (hsub : (groups.foldl segAbsStep (gP, k)).2.Sublist k) (hnd : (k.map (·.1)).Nodup)
    (h0 : ∀ p ∈ k, p.1 ≠ 0) :
    ((paintSkelR gP k v groups).map (·.1)).Nodup ∧ ∀ p ∈ paintSkelR gP k v groups, p.1 ≠ 0 := by
  unfold paintSkelR
  simp only
  generalize (groups.foldl segAbsStep (gP, k)).2 = k2 at hsub
  have hnd2 : (k2.map (·.1)).Nodup := (hsub.map _).nodup hnd
  have h02 : ∀ p ∈ k2, p.1 ≠ 0 := fun p hp => h0 p (hsub.subset hp)
  split
  · rename_i hc
    split
    · exact ⟨hnd2, h02⟩
    · rename_i hv
      refine ⟨?_, ?_⟩
      · rw [List.map_append]
        refine List.nodup_append.mpr ⟨hnd2, by simp, fun a ha b hb => ?_⟩
        simp only [List.map_cons, List.map_nil, List.mem_singleton] at hb
        subst hb
        exact fun e => hv (e ▸ ha)
      · intro p hp
        rcases List.mem_append.mp hp with hp | hp
        · exact h02 p hp
        · rw [List.mem_singleton.mp hp]; exact hc.1
  · exact ⟨hnd2, h02⟩

/-- painting `n` on background of frame `t`, then zeroing everything of frame `t` that carries
    `n`, gives the array back when `n` was absent from that frame -/
theorem setPixels_undo_add {g : Seg} {px : List Pix} {n t : Nat}
    (hbg : ∀ p ∈ px, p < g.data.length → g.data.getD p 0 = 0)
    (hfr : ∀ p ∈ px, p < g.data.length → 0 < g.frame ∧ p / g.frame = t)
    (habs : g.pixelsOf t n = []) :
    (g.setPixels px n).setPixels ((g.setPixels px n).pixelsOf t n) 0 = g := by
  apply Seg.ext_getD
  · rfl
  · simp
  intro i hi
  simp only [Seg.setPixels_length] at hi
  rw [Seg.setPixels_getD, Seg.setPixels_length]
  by_cases hin : i ∈ px
  · have hQ : i ∈ (g.setPixels px n).pixelsOf t n := by
      rw [Seg.mem_pixelsOf]
      refine ⟨(hfr i hin hi).1, (hfr i hin hi).2, ?_⟩
      rw [Seg.setPixels_getD, if_pos ⟨hin, hi⟩]
    rw [if_pos ⟨hQ, hi⟩]; exact (hbg i hin hi).symm
  · have hQ : i ∉ (g.setPixels px n).pixelsOf t n := by
      intro hm
      rw [Seg.mem_pixelsOf] at hm
      obtain ⟨a, b, c⟩ := hm
      rw [Seg.setPixels_getD, if_neg (fun hh => hin hh.1)] at c
      have : i ∈ g.pixelsOf t n := Seg.mem_pixelsOf.mpr ⟨a, b, c⟩
      rw [habs] at this; cases this
    rw [if_neg (fun hh => hQ hh.1), Seg.setPixels_getD, if_neg (fun hh => hin hh.1)]

end Ft.R2G

namespace Ft.R2G
open Ft Ft.St List

/-! ### E. the node clause of `MeasOK` through a whole paint

  Inside `uUpdateSeg` the clause is broken between the sub-actions: the caller has already written
  the new value `v` over pixels that a later "shrink" / "delete" sub-action zeroes, so the nodes
  whose label is still to be processed (and `v` itself) carry stale values.  The intermediate
  invariant `PInv` says exactly which nodes ARE current: every node whose id is neither `v` nor the
  label of a group still to be processed is current w.r.t. the running array, and the running array
  is the painted array with some cells that read `v` zeroed. -/

/-- every node whose id is not excepted is current w.r.t. the array `A` -/
def CurEx (st : St) (A : Seg) (ex : Node → Prop) : Prop :=
  ∀ k ∈ st.rpActive, ∀ r ∈ st.nodes, ¬ ex r.id → alook k r.other = some (A.maskVal r.time r.id)

/-- the invariant of the group loop: `gs` = groups still to be processed -/
def PInv (P : Seg) (v : Nat) (gs : List Grp) (st : St) : Prop :=
  st.ids.Nodup ∧ (∀ r ∈ st.nodes, r.id ≠ 0) ∧
  ∃ A, st.seg = some A ∧ Rel A P v ∧ CurEx st A (fun n => n = v ∨ ∃ grp ∈ gs, grp.2 = n)

theorem Rel.untouched {A P : Seg} {v : Nat} (h : Rel A P v) {px : List Pix}
    (hpx : ∀ p ∈ px, p < P.data.length → P.data.getD p 0 = v) {m : Nat} (hv : m ≠ v) (h0 : m ≠ 0)
    (w : Nat) (hw : m ≠ w) : A.Untouched px w m := by
  refine ⟨hw, fun p hp hlt e => ?_⟩
  rcases h.2.2 p with e1 | ⟨-, e2⟩
  · exact hv (by rw [← e, e1, hpx p hp (h.2.1 ▸ hlt)])
  · exact h0 (by rw [← e, e2])

theorem ids_ne_zero_of_skel {s s' : St} (h : ∀ p ∈ s'.skel, p ∈ s.skel) (h0 : ∀ r ∈ s.nodes, r.id ≠ 0) :
    ∀ r ∈ s'.nodes, r.id ≠ 0 := by
  intro r hr
  obtain ⟨r0, hr0, he⟩ := List.mem_map.mp (h _ (mem_skel_of_mem hr))
  simp only [Prod.mk.injEq] at he
  rw [← he.1]; exact h0 r0 hr0

/-- primitive DeleteNode with explicit pixels, on array / skeleton / node records -/
theorem pDelNode_parts {st fin : St} {n : Node} {px : List Pix} {rec : PrimRec} {A : Seg}
    (h : st.pDelNode n (some px) = .ok (fin, rec)) (hg : st.seg = some A) :
    fin.seg = some (A.setPixels px 0) ∧ fin.rpActive = st.rpActive ∧
    fin.skel = st.skel.filter (·.1 != n) ∧ ∀ r' ∈ fin.nodes, ∃ r0 ∈ st.nodes, core r0 = core r' := by
  obtain ⟨e1, e2⟩ := pDelNode_seg_skel h hg
  refine ⟨e1, rpActive_of_cfg (cfg_pDelNode h), e2, ?_⟩
  obtain ⟨r, -, -, rfl⟩ := pDelNode_ok_sg h
  intro r' hr'
  obtain ⟨r1, hr1, hc⟩ := (Fr.trackOnDelete _ _).mem hr'
  simp only [delRaw, paintWith_nodes, List.mem_filter] at hr1
  exact ⟨r1, hr1.1, hc⟩

/-- one accepted round of the group loop keeps the invariant (for the shorter remaining list) -/
theorem pinv_step {P : Seg} {v : Nat} {grp : Grp} {gs : List Grp} {acc : UOut} {recs : List PrimRec}
    (hinv : PInv P v (grp :: gs) acc.1)
    (hpx : ∀ p ∈ grp.1, p < P.data.length → P.data.getD p 0 = v)
    (h : (segGrpStep acc grp).2 = .ok recs) : PInv P v gs (segGrpStep acc grp).1 := by
  obtain ⟨hnd, h0, A, hA, hrel, hcur⟩ := hinv
  -- the weaker exception set: nothing changes
  have hsame : PInv P v gs acc.1 ∨ grp.2 ≠ 0 := by
    by_cases hz : grp.2 = 0
    · left
      refine ⟨hnd, h0, A, hA, hrel, fun k hk r hr hex => hcur k hk r hr ?_⟩
      rintro (e | ⟨grp', hm, e⟩)
      · exact hex (Or.inl e)
      · rcases List.mem_cons.mp hm with e' | hm'
        · exact h0 r hr (by rw [← e, e', hz])
        · exact hex (Or.inr ⟨grp', hm', e⟩)
    · exact Or.inr hz
  generalize hout : segGrpStep acc grp = out at h ⊢
  unfold segGrpStep at hout
  split at hout
  · subst hout; rename_i e he; rw [he] at h; cases h
  · split at hout
    · rename_i hz
      subst hout
      rcases hsame with hs | hs
      · exact hs
      · exact absurd (by simpa using hz) hs
    · rename_i hz
      have hl0 : grp.2 ≠ 0 := by simpa using hz
      split at hout
      · rename_i g' p0 hg' _
        rw [hA] at hg'; cases hg'
        have hrel' : Rel (A.setPixels grp.1 0) P v := hrel.setPixels hpx
        have hunt : ∀ m, m ≠ v → m ≠ 0 → ∀ t, (A.setPixels grp.1 0).maskVal t m = A.maskVal t m :=
          fun m hv hm0 t => Seg.maskVal_setPixels_other (hrel.untouched hpx hv hm0 0 hm0) t
        simp only at hout
        split at hout
        · -- the node is deleted
          subst hout
          obtain ⟨r0, r1, -, hok, h1, -⟩ := St.thenUser_ok h
          rw [h1]
          obtain ⟨st, rr, hfc, hdel⟩ := uDeleteNode_okc hok
          obtain ⟨d1, d2, d3, d4⟩ := pDelNode_parts hdel (hfc.seg.trans hA)
          generalize (acc.1.uDeleteNode grp.2 (some grp.1)).1 = fin at d1 d2 d3 d4 ⊢
          have hsk : ∀ p ∈ fin.skel, p ∈ acc.1.skel ∧ p.1 ≠ grp.2 := by
            intro p hp
            rw [d3, hfc.skel, List.mem_filter] at hp
            exact ⟨hp.1, by simpa using hp.2⟩
          refine ⟨?_, ids_ne_zero_of_skel (fun p hp => (hsk p hp).1) h0, A.setPixels grp.1 0, d1, hrel', ?_⟩
          · rw [ids_eq_skel_sg, d3, hfc.skel]
            exact (List.filter_sublist.map _).nodup (by rw [← ids_eq_skel_sg]; exact hnd)
          · intro k hk r' hr' hex
            rw [d2, hfc.rpActive] at hk
            obtain ⟨r1', hr1', hc1⟩ := d4 r' hr'
            obtain ⟨r2, hr2, hc2⟩ := hfc.mem hr1'
            have hc := hc2.trans hc1
            simp only [core, Prod.mk.injEq] at hc
            have hne : r'.id ≠ grp.2 := (hsk _ (mem_skel_of_mem hr')).2
            have hv : r'.id ≠ v := fun e => hex (Or.inl e)
            have h0' : r'.id ≠ 0 := by rw [← hc.1]; exact h0 r2 hr2
            rw [hunt _ hv h0', ← hc.1, ← hc.2.1, ← hc.2.2]
            refine hcur k hk r2 hr2 ?_
            rw [hc.1]
            rintro (e | ⟨grp', hm, e⟩)
            · exact hv e
            · rcases List.mem_cons.mp hm with e' | hm'
              · exact hne (by rw [← e, e'])
              · exact hex (Or.inr ⟨grp', hm', e⟩)
        · -- the node shrinks and is recomputed
          subst hout
          obtain ⟨r0, st', rr, -, hf, h1, -⟩ := St.thenPrim_ok h
          rw [h1]
          obtain ⟨g', hg', -, -, hst⟩ := pUpdSeg_ok_sg hf
          rw [hA] at hg'; cases hg'
          simp only [Bool.false_eq_true, if_false] at hst
          subst hst
          have hnd' : (acc.1.withSeg (A.setPixels grp.1 0)).ids.Nodup := hnd
          obtain ⟨s1, s2, -⟩ := rpUpdate_spec (acc.1.withSeg (A.setPixels grp.1 0)) grp.2
            (A.setPixels grp.1 0) rfl hnd'
          have hskel : (((acc.1.withSeg (A.setPixels grp.1 0)).rpUpdate grp.2).iouUpdateNode grp.2).skel
              = acc.1.skel := (iouUpdateNode_skel _ _).trans (rpUpdate_skel _ _)
          refine ⟨?_, ids_ne_zero_of_skel (fun p hp => by rw [hskel] at hp; exact hp) h0,
            A.setPixels grp.1 0, (iouUpdateNode_seg _ _).trans (rpUpdate_seg _ _), hrel', ?_⟩
          · rw [ids_eq_skel_sg, hskel, ← ids_eq_skel_sg]; exact hnd
          · intro k hk r hr hex
            rw [iouUpdateNode_rpActive, rpUpdate_rpActive] at hk
            rw [iouUpdateNode_nodes] at hr
            change k ∈ acc.1.rpActive at hk
            by_cases he : r.id = grp.2
            · rw [s1 r hr he k hk, he]
            · have hr0 : r ∈ acc.1.nodes := s2 r hr he
              have hv : r.id ≠ v := fun e => hex (Or.inl e)
              rw [hunt _ hv (h0 r hr0)]
              refine hcur k hk r hr0 ?_
              rintro (e | ⟨grp', hm, e⟩)
              · exact hv e
              · rcases List.mem_cons.mp hm with e' | hm'
                · exact he (by rw [← e, e'])
                · exact hex (Or.inr ⟨grp', hm', e⟩)
      · subst hout; cases h

theorem pinv_fold {P : Seg} {v : Nat} (gs : List Grp) :
    ∀ (acc : UOut) (recs : List PrimRec), PInv P v gs acc.1 →
      (∀ grp ∈ gs, ∀ p ∈ grp.1, p < P.data.length → P.data.getD p 0 = v) →
      (gs.foldl segGrpStep acc).2 = .ok recs → PInv P v [] (gs.foldl segGrpStep acc).1 := by
  induction gs with
  | nil => intro acc recs hinv _ _; exact hinv
  | cons grp gs ih =>
    intro acc recs hinv hpx h
    rw [List.foldl_cons] at h ⊢
    cases hs : (segGrpStep acc grp).2 with
    | error e => rw [foldl_segGrpStep_error gs hs] at h; cases h
    | ok recs1 =>
      exact ih _ recs (pinv_step hinv (hpx grp (List.mem_cons_self ..)) hs)
        (fun grp' hm => hpx grp' (List.mem_cons_of_mem _ hm)) h

/-- AddNode of a new node keeps the node clause (copy of the argument of `C08_meas_step_addNode`) -/
theorem rpOK_pAddNode_new {s s' : St} {r : NodeRec} {ps : List Pix} {rec : PrimRec} {g : Seg}
    (hg : s.seg = some g) (hnd : s.ids.Nodup) (hnew : s.hasNode r.id = false) (hm : RpOK s)
    (hpre : ∀ r' ∈ s.nodes, g.Untouched ps r.id r'.id)
    (h : s.pAddNode r (some ps) = .ok (s', rec)) : RpOK s' := by
  obtain ⟨-, -, rfl⟩ := pAddNode_ok_sg h
  apply (Fr.trackAdd _ _).rpOK
  have hnew1 : (s.paintWith (some ps) r.id).hasNode r.id = false := by rw [paintWith_hasNode, hnew]
  rw [addNodeRaw_new hnew1]
  have hnotin : r.id ∉ s.ids := fun hmem => by
    have := (hasNode_iff_mem_ids_sg s r.id).mpr hmem
    rw [hnew] at this; cases this
  have hpw : s.paintWith (some ps) r.id = s.withSeg (g.setPixels ps r.id) := by
    simp only [paintWith, hg]
  rw [hpw]
  apply rpOK_rpUpdate
  · rw [ids_append_sg]
    exact List.nodup_append.mpr ⟨hnd, by simp, fun a ha b hb => by
      simp only [List.mem_singleton] at hb; subst hb; exact fun e => hnotin (e ▸ ha)⟩
  · intro g' hg' k hk r' hr' hne
    have hr0 : r' ∈ s.nodes := by
      simp only [withSeg_nodes, List.mem_append, List.mem_singleton] at hr'
      rcases hr' with h1 | h1
      · exact h1
      · exact absurd (by rw [h1]) hne
    change some (g.setPixels ps r.id) = some g' at hg'
    cases hg'
    rw [Seg.maskVal_setPixels_other (hpre r' hr0)]
    exact hm g hg k hk r' hr0

/-- the grow step re-establishes the full node clause -/
theorem rpOK_uusGrow {P : Seg} {a0 : UOut} {recs0 : List PrimRec} {v : Nat} {groups : List Grp}
    {tid : Nat} {force : Bool} {recs : List PrimRec} (hinv : PInv P v [] a0.1)
    (hpx : ∀ p ∈ groups.flatMap (·.1), p < P.data.length → P.data.getD p 0 = v)
    (hgr : groups ≠ []) (h : (uusGrow a0 recs0 v groups tid force).1.2 = .ok recs) :
    RpOK (uusGrow a0 recs0 v groups tid force).1.1 := by
  obtain ⟨hnd, h0, A, hA, hrel, hcur⟩ := hinv
  have hcur' : ∀ k ∈ a0.1.rpActive, ∀ r ∈ a0.1.nodes, r.id ≠ v →
      alook k r.other = some (A.maskVal r.time r.id) := by
    intro k hk r hr hv
    refine hcur k hk r hr ?_
    rintro (e | ⟨grp', hm, -⟩)
    · exact hv e
    · cases hm
  generalize hout : uusGrow a0 recs0 v groups tid force = out at h ⊢
  unfold uusGrow at hout
  split at hout
  · simp only at hout
    split at hout
    · rename_i g' p0 hg' _
      rw [hA] at hg'; cases hg'
      split at hout
      · -- the label exists: grow it
        subst hout
        simp only at h ⊢
        obtain ⟨r0, st', rr, -, hf, h1, -⟩ := St.thenPrim_ok h
        rw [h1]
        obtain ⟨g', hg', -, -, hst⟩ := pUpdSeg_ok_sg hf
        rw [hA] at hg'; cases hg'
        simp only [if_true] at hst
        subst hst
        refine rpOK_congr (iouUpdateNode_seg _ _) (iouUpdateNode_nodes _ _) (iouUpdateNode_rpActive _ _) ?_
        apply rpOK_rpUpdate (s := a0.1.withSeg (A.setPixels (groups.flatMap (·.1)) v)) hnd
        intro g' hg' k hk r hr hne
        change some (A.setPixels (groups.flatMap (·.1)) v) = some g' at hg'
        cases hg'
        rw [Seg.maskVal_setPixels_other (hrel.untouched hpx hne (h0 r hr) v hne)]
        exact hcur' k hk r hr hne
      · -- a new node is created
        rename_i hn
        split at hout
        · rename_i recs' hok
          subst hout
          simp only
          obtain ⟨time, tid', lin, st, s2, rr, -, hnew, hfc, hadd, hfc2⟩ := uAddNode_okc hok
          have hnew' : st.hasNode v = false := by rw [hfc.hasNode]; exact hnew
          have hrp : RpOK a0.1 := by
            intro g' hg' k hk r hr
            rw [hA] at hg'; cases hg'
            refine hcur' k hk r hr (fun e => ?_)
            have : v ∈ a0.1.ids := List.mem_map.mpr ⟨r, hr, e⟩
            rw [← hasNode_iff_mem_ids_sg, hnew] at this; cases this
          have hrpst : RpOK st := hfc.rpOK hrp
          refine hfc2.rpOK (rpOK_pAddNode_new (r := ⟨v, time, tid', lin, []⟩) (hfc.seg.trans hA)
            (by rw [hfc.ids]; exact hnd) hnew' hrpst ?_ hadd)
          intro r' hr'
          obtain ⟨r2, hr2, hc⟩ := hfc.mem hr'
          simp only [core, Prod.mk.injEq] at hc
          have hv : r'.id ≠ v := fun e => by
            have : v ∈ st.ids := List.mem_map.mpr ⟨r', hr', e⟩
            rw [← hasNode_iff_mem_ids_sg, hnew'] at this; cases this
          exact hrel.untouched hpx hv (by rw [← hc.1]; exact h0 r2 hr2) v hv
        · subst hout; cases h
    · subst hout; cases h
  · -- nothing to grow: `v = 0` (no node has id 0)
    rename_i hc
    subst hout
    have hv0 : v = 0 := by
      apply Classical.byContradiction
      intro hv
      apply hc
      simp only [Bool.and_eq_true, bne_iff_ne, Bool.not_eq_true', List.isEmpty_eq_false_iff]
      exact ⟨hv, hgr⟩
    intro g' hg' k hk r hr
    rw [hA] at hg'; cases hg'
    exact hcur' k hk r hr (by rw [hv0]; exact h0 r hr)

/-- The node clause of `MeasOK` through a whole accepted `uUpdateSeg` that runs on the painted
    array.  Of the stroke preconditions only "every stroke pixel carried the label of its group"
    is needed. -/
theorem rpOK_uUpdateSeg_painted {s : St} {g : Seg} {v : Nat} {groups : List Grp} {tid : Nat}
    {force : Bool} {recs : List PrimRec} (hg : s.seg = some g) (hnd : s.ids.Nodup)
    (h0 : ∀ r ∈ s.nodes, r.id ≠ 0) (hm : RpOK s)
    (hprev : ∀ grp ∈ groups, ∀ p ∈ grp.1, p < g.data.length → g.data.getD p 0 = grp.2)
    (h : ((s.withSeg (g.setPixels (groups.flatMap (·.1)) v)).uUpdateSeg v groups tid force).1.2 = .ok recs) :
    RpOK ((s.withSeg (g.setPixels (groups.flatMap (·.1)) v)).uUpdateSeg v groups tid force).1.1 := by
  generalize hP : g.setPixels (groups.flatMap (·.1)) v = P at h ⊢
  have hPl : P.data.length = g.data.length := by rw [← hP]; exact Seg.setPixels_length ..
  have hPg : ∀ i, P.data.getD i 0
      = if i ∈ groups.flatMap (·.1) ∧ i < g.data.length then v else g.data.getD i 0 := by
    intro i; rw [← hP]; exact Seg.setPixels_getD ..
  have hpx : ∀ p ∈ groups.flatMap (·.1), p < P.data.length → P.data.getD p 0 = v := by
    intro p hp hlt; rw [hPg, if_pos ⟨hp, hPl ▸ hlt⟩]
  rw [uUpdateSeg_eq_sg] at h ⊢
  simp only [withSeg_seg] at h ⊢
  cases hf : (groups.foldl segGrpStep (s.withSeg P, .ok [])).2 with
  | error e => simp only [hf] at h; cases h
  | ok recs0 =>
    simp only [hf] at h ⊢
    by_cases hgr : groups = []
    · -- empty stroke: nothing happens
      subst hgr
      have hPg' : P = g := by rw [← hP]; rfl
      subst hPg'
      have : (uusGrow (([] : List Grp).foldl segGrpStep (s.withSeg P, .ok [])) recs0 v [] tid force).1.1
          = s.withSeg P := by
        unfold uusGrow; simp
      rw [this]
      exact rpOK_congr (s := s) (by rw [hg]; rfl) rfl rfl hm
    · -- start of the loop
      have hstart : PInv P v groups (s.withSeg P) := by
        refine ⟨hnd, h0, P, rfl, Rel.refl P v, ?_⟩
        intro k hk r hr hex
        have hu : g.Untouched (groups.flatMap (·.1)) v r.id := by
          refine ⟨fun e => hex (Or.inl e), fun p hp hlt e => ?_⟩
          obtain ⟨grp, hm', hi⟩ := List.mem_flatMap.mp hp
          exact hex (Or.inr ⟨grp, hm', by rw [← hprev grp hm' p hi hlt, e]⟩)
        rw [← hP, Seg.maskVal_setPixels_other hu]
        exact hm g hg k hk r hr
      have hend := pinv_fold groups (s.withSeg P, .ok []) recs0 hstart
        (fun grp hm' p hp hlt => hpx p (List.mem_flatMap.mpr ⟨grp, hm', hp⟩) hlt) hf
      exact rpOK_uusGrow hend hpx hgr h

/-- an accepted paint at session level: what `commit` keeps -/
theorem paint_ok_rp {s s' : St} {v : Nat} {groups : List Grp} {tid : Nat} {force : Bool} {g : Seg}
    (hg : s.seg = some g) (h : s.step (.paint v groups tid force) = (s', .ok)) :
    ∃ recs, ((s.withSeg (g.setPixels (groups.flatMap (·.1)) v)).uUpdateSeg v groups tid force).1.2 = .ok recs ∧
      s'.seg = ((s.withSeg (g.setPixels (groups.flatMap (·.1)) v)).uUpdateSeg v groups tid force).1.1.seg ∧
      s'.nodes = ((s.withSeg (g.setPixels (groups.flatMap (·.1)) v)).uUpdateSeg v groups tid force).1.1.nodes ∧
      s'.rpActive = ((s.withSeg (g.setPixels (groups.flatMap (·.1)) v)).uUpdateSeg v groups tid force).1.1.rpActive := by
  rw [step_paint_eq_sg hg] at h
  generalize (s.withSeg (g.setPixels (groups.flatMap (·.1)) v)).uUpdateSeg v groups tid force = U at h ⊢
  split at h
  · obtain ⟨recs', hr', a, b, c⟩ := commit_ok h
    exact ⟨recs', hr', b, a, c⟩
  · split at h <;> (simp only [Prod.mk.injEq] at h; exact absurd h.2 (by simp))

end Ft.R2G

namespace Ft.R2G
open Ft Ft.St List

/-! ### F. `SegOK` (with unique non-zero ids) through every accepted session step -/

theorem Fs.foldl_st {β : Type} (f : St → β → St) (hf : ∀ a x, Fs a (f a x)) (l : List β) (a : St) :
    Fs a (l.foldl f a) := by
  induction l generalizing a with
  | nil => exact Fs.refl _
  | cons x l ih => exact (hf a x).trans (ih _)

theorem Fs.pUpdAttrs {s s' : St} {n : Node} {attrs : List (Key × Val)} {rec : PrimRec}
    (h : s.pUpdAttrs n attrs = .ok (s', rec)) : Fs s s' := by
  unfold St.pUpdAttrs at h
  split at h
  · cases h
  · split at h
    · cases h
    · simp only [Except.ok.injEq, Prod.mk.injEq] at h
      obtain ⟨rfl, -⟩ := h
      exact Fs.foldl_st (fun st (kv : Key × Val) => st.setOther n kv.1 kv.2)
        (fun a kv => ⟨rfl, skel_updNode a n _ (fun r => ⟨rfl, rfl⟩)⟩) _ _

theorem Fs.uUpdateAttrs (s : St) (n : Node) (attrs : List (Key × Val)) :
    Fs s (s.uUpdateAttrs n attrs).1 := by
  unfold St.uUpdateAttrs St.thenPrim
  simp only
  split
  · rename_i hf; exact Fs.pUpdAttrs hf
  · exact Fs.refl _

theorem Fs.enableRecompute (s1 : St) (ks : List Key) : Fs s1 (St.enableRecompute s1 ks) := by
  unfold St.enableRecompute
  simp only
  obtain ⟨f1, f2, -⟩ := rpCompute_frame s1 ks
  have h2 : Fs s1 (s1.rpCompute ks) := ⟨f1, f2⟩
  generalize s1.rpCompute ks = s2 at h2 ⊢
  have h3 : ∀ b : Bool, Fs s2 (if b = true then s2.iouCompute else s2) := by
    intro b; cases b
    · exact Fs.refl _
    · exact ⟨foldl_iouUpdateEdge_seg _ _, foldl_iouUpdateEdge_skel _ _⟩
  have h3' := h2.trans (h3 (match s1.iouKey with | some k => ks.contains k | none => false))
  generalize (if (match s1.iouKey with | some k => ks.contains k | none => false) = true
        then s2.iouCompute else s2) = s3 at h3' ⊢
  have h4 : Fs s3 (if ks.contains keyTid = true then s3.assignTracklets else s3) := by
    split
    · exact (Fr.assignTracklets _).toFs
    · exact Fs.refl _
  generalize (if ks.contains keyTid = true then s3.assignTracklets else s3) = s4 at h4 ⊢
  have h5 : Fs s4 (if (ks.contains keyLin && s4.linOn) = true then s4.assignLineages else s4) := by
    split
    · exact (Fr.assignLineages _).toFs
    · exact Fs.refl _
  exact (h3'.trans h4).trans h5

theorem Fs.enable {s s' : St} {ks : List Key} {rc : Bool} (h : s.enable ks rc = some s') : Fs s s' := by
  cases hany : ks.any (fun k => !(s.annotKeys.contains k)) with
  | true => rw [enable_none s ks rc hany] at h; cases h
  | false =>
    rw [enable_eq s ks rc hany] at h
    simp only [Option.some.injEq] at h
    subst h
    cases rc
    · exact ⟨rfl, rfl⟩
    · exact Fs.trans (b := enableReg s ks) ⟨rfl, rfl⟩ (Fs.enableRecompute _ ks)

theorem Fs.disable {s s' : St} {ks : List Key} (h : s.disable ks = some s') : Fs s s' := by
  unfold St.disable at h
  split at h
  · cases h
  · simp only [Option.some.injEq] at h
    subst h; exact ⟨rfl, rfl⟩

/-- the consistent state of C07 on (array, skeleton), with the frame size `f` fixed -/
def Good (s : St) (f : Nat) : Prop :=
  ∃ g, s.seg = some g ∧ g.frame = f ∧ SegOKk g s.skel ∧ (s.skel.map (·.1)).Nodup ∧
    ∀ p ∈ s.skel, p.1 ≠ 0

theorem good_iff (s : St) (f : Nat) :
    Good s f ↔ ∃ g, s.seg = some g ∧ g.frame = f ∧ SegOK s ∧ s.ids.Nodup ∧ ∀ r ∈ s.nodes, r.id ≠ 0 := by
  constructor
  · rintro ⟨g, hg, hf, hk, hnd, h0⟩
    refine ⟨g, hg, hf, ?_, by rw [ids_eq_skel_sg]; exact hnd, fun r hr => h0 _ (mem_skel_of_mem hr)⟩
    rw [segOK_iff_skel]
    intro g' hg'; rw [hg] at hg'; cases hg'; exact hk
  · rintro ⟨g, hg, hf, hs, hnd, h0⟩
    exact ⟨g, hg, hf, (segOK_iff_skel s).mp hs g hg, skel_nodup_of_ids hnd, skel_ne_zero h0⟩

theorem Good.ofFs {s s' : St} {f : Nat} (h : Fs s s') (hgd : Good s f) : Good s' f := by
  obtain ⟨g, hg, hf, hk, hnd, h0⟩ := hgd
  exact ⟨g, h.seg.trans hg, hf, by rw [h.skel]; exact hk, by rw [h.skel]; exact hnd,
    by rw [h.skel]; exact h0⟩

/-- primitive DeleteNode that computes the pixels itself -/
theorem Good.pDelNode {s s' : St} {f : Nat} {n : Node} {rec : PrimRec} (hgd : Good s f)
    (h : s.pDelNode n none = .ok (s', rec)) : Good s' f := by
  obtain ⟨g, hg, hf, hk, hnd, h0⟩ := hgd
  obtain ⟨r, hr, -, -⟩ := pDelNode_ok_sg h
  have hid : r.id = n := findNode_id_sg hr
  have ht : s.timeOf n = some r.time := by simp [St.timeOf, hr]
  have hmem : (n, r.time) ∈ s.skel := mem_skel_of_timeOf ht
  have hdp : s.delPixels n none = some (g.pixelsOf r.time n) := by
    simp only [delPixels, getPixels, hg, ht]
  obtain ⟨e1, e2⟩ := pDelNode_seg_skel' h hg hdp
  obtain ⟨_, _, hpos, _⟩ := Seg.pixelsOf_ne_nil.mp (hk.1 (n, r.time) hmem)
  refine ⟨_, e1, hf, ?_, ?_, ?_⟩
  · rw [e2]
    refine segOKk_del hk h0 (fun i hi he => ?_) (fun p hp _ => Or.inl (Seg.mem_pixelsOf.mp hp).2.2)
    have hne : g.data.getD i 0 ≠ 0 := by rw [he]; exact h0 _ hmem
    have hin := hk.2 i hi hne
    rw [he] at hin
    exact Seg.mem_pixelsOf.mpr ⟨hpos, skel_time_unique hnd hin hmem, he⟩
  · rw [e2]; exact (List.filter_sublist.map _).nodup hnd
  · rw [e2]; intro p hp; exact h0 p (List.mem_filter.mp hp).1

/-- primitive AddNode of a new non-zero node on background pixels of its frame -/
theorem Good.pAddNode {s s' : St} {f : Nat} {r : NodeRec} {px : List Pix} {rec : PrimRec} {g : Seg}
    (hgd : Good s f) (hpos : 0 < f) (hg : s.seg = some g) (hnew : s.hasNode r.id = false)
    (hid : r.id ≠ 0)
    (hbg : ∀ p ∈ px, p < g.data.length → (g.data.getD p 0 = 0 ∨ g.data.getD p 0 = r.id) ∧ p / g.frame = r.time)
    (hne : ∃ p ∈ px, p < g.data.length)
    (h : s.pAddNode r (some px) = .ok (s', rec)) : Good s' f := by
  obtain ⟨g', hg', hf, hk, hnd, h0⟩ := hgd
  rw [hg] at hg'; cases hg'
  obtain ⟨e1, e2⟩ := pAddNode_seg_skel h hg hnew
  have hnew' := skel_ne_of_hasNode_false hnew
  refine ⟨_, e1, hf, ?_, ?_, ?_⟩
  · rw [e2]
    exact segOKk_add hk (hf ▸ hpos) h0 (fun p hp hlt => (hbg p hp hlt).1)
      (fun p hp hlt => (hbg p hp hlt).2) hne hnew'
  · rw [e2, List.map_append]
    refine List.nodup_append.mpr ⟨hnd, by simp, fun a ha b hb => ?_⟩
    simp only [List.map_cons, List.map_nil, List.mem_singleton] at hb
    subst hb
    obtain ⟨p, hp, rfl⟩ := List.mem_map.mp ha
    exact hnew' p hp
  · rw [e2]
    intro p hp
    rcases List.mem_append.mp hp with hp | hp
    · exact h0 p hp
    · rw [List.mem_singleton.mp hp]; exact hid

/-- the documented preconditions of the two array-writing session operations -/
def StepPre (s : St) (g : Seg) : Op → Prop
  | .paint v groups _ _ => ∃ t0, PaintPre g s.skel v groups t0
  | .addNode a => a.node ≠ 0 ∧ ∃ px t, a.pixels = some px ∧ a.time = some t ∧
      (∀ p ∈ px, p < g.data.length → (g.data.getD p 0 = 0 ∨ g.data.getD p 0 = a.node) ∧ p / g.frame = t) ∧
      (∃ p ∈ px, p < g.data.length)
  | _ => True

end Ft.R2G
