/-
  FtProofs.R6ILemmas — package R6I: **an imported solution satisfies the invariant of the editing
  theorems.**

  `FtModel/Import.lean` returns an `Import.Graph` (integer node ids with string-keyed attribute
  dictionaries of opaque tokens, integer edges).  The session model works on `Ft.St` (natural node
  ids, natural attribute keys, `Ft.Val` values, explicit time / track id / lineage id columns,
  registry, TrackAnnotator bookkeeping, history).  This file defines the bridge

      toStR enc reg g = ((base enc reg g).assignTracklets).assignLineages

  which is what `TracksBuilder.build` step 6 does with the constructed graph:
  `SolutionTracks(graph, segmentation=None, pos_attr="pos", time_attr="time")` — the node table in
  table order, the edges from the parent links, no array, the registry `time` / `pos` (+ the static
  features registered by `enable_features(node_features)`: the list `reg`), the lineage feature on,
  and — because the source has no id columns — `TrackAnnotator.compute` = `_assign_ids`: tracklet
  ids, then lineage ids, with the lookups and maxima rebuilt from them; empty history.

  Encoding (`Enc`): the harness numbers attribute names (`key`) and opaque values (`val`, stored as
  `Val.tok`); the time cell is decoded by `time` (`timeN`: token `n<k>` ↦ `k`, the harness' token of
  an integral number).  Node ids: `Int.toNat` (the session model has natural ids; `GOK.nonneg`).

  `toStR` models the case "the source has no id columns" (no `track_id` / `lineage_id` in the name
  map): with id columns `Tracks._setup_core_computed_features` activates the stored ids instead of
  computing them, which is not what `toStR` does.  `enable_tid_bare` / `enable_lin_bare` show that
  `toStR` is exactly what the session model's `enable [track_id] true`, `enable [lineage_id] true`
  produce on the bare graph state.

  Main results
  * §2–§8  `inv_of_gok`        `GOK enc reg g → R3D.Inv (toStR enc reg g)`   (graph-level hypotheses)
  * §9     `toStR_tid_iff`, `toStR_lin_iff`   same id ⇔ same segment / component
  * §10    `importTable_facts`, `importGeff_facts`   what acceptance by the importer gives (distinct
           ids / edges, known end points, distinct attribute keys `nodeAttrs_keys_nodup`, one parent per
           node for a table `linksOf_one_parent`, a position on every node `nodeAttrs_has_pos`)
  * §11    the documented preconditions as decidable predicates on the graph (`NonNeg`, `Timed`,
           `Forward`, `Binary`, `OneParent`, `Registered`, `KeyInj`), `gok_of`, the standard key
           numbering `encStd` with `keyInj_encStd`, `registered_names`
  * §12    `gok_of_importTable`, `gok_of_importGeff`
  * §13    the preconditions read on the table (`TTimed`, `TForward`, `TBinary`, `TNonNeg`) and
           `graph_pre_of_table`: they give the graph-level ones
-/
import FtProofs.R4ALemmas
import FtProofs.ImportLemmas

namespace Ft.R6I
open Ft Ft.St Ft.Import List

/-! ## §1 the bridge -/

/-- how the harness numbers attribute names / opaque values, and how a time cell is read -/
structure Enc where
  key : String → Key
  val : Import.Val → Int
  time : Tok → Option Nat

/-- the harness' token of a non-negative integral number: `n<k>` -/
def timeN (t : Tok) : Option Nat :=
  match t.toList with
  | 'n' :: r => digitsVal r
  | _ => none

/-- the time of a node of the imported graph (`graph.nodes[n]["time"]`, a scalar) -/
def gTime (enc : Enc) (a : Attrs) : Option Nat :=
  match alook "time" a with
  | some (.sc t) => enc.time t
  | _ => none

/-- every attribute besides the time becomes a node attribute of the session model -/
def gOther (enc : Enc) (a : Attrs) : List (Key × Ft.Val) :=
  (a.filter (fun kv => kv.1 != "time")).map (fun kv => (enc.key kv.1, Ft.Val.tok (enc.val kv.2)))

def nodeOf (enc : Enc) (n : Int × Attrs) : NodeRec :=
  { id := n.1.toNat, time := (gTime enc n.2).getD 0, tid := 0, lin := none, other := gOther enc n.2 }

def edgeOf (e : Int × Int) : EdgeRec := { e := (e.1.toNat, e.2.toNat), attrs := [] }

/-- the tracks object before the id assignment: graph only, lineage feature on, position key
    `pos`, the static features `reg` registered -/
def base (enc : Enc) (reg : List String) (g : Graph) : St :=
  { nodes := g.nodes.map (nodeOf enc), edges := g.edges.map edgeOf, seg := none, linOn := true,
    posKeys := [enc.key "pos"], regNode := reg.map enc.key }

/-- **the imported solution** as a state of the session model -/
def toStR (enc : Enc) (reg : List String) (g : Graph) : St :=
  ((base enc reg g).assignTracklets).assignLineages

/-- the attribute names of the imported graph besides the time, in first-appearance order -/
def names (g : Graph) : List String :=
  ((g.nodes.flatMap (fun n => n.2.map (·.1))).filter (fun k => k != "time")).eraseDups

/-- every loaded property is a registered feature -/
def toSt (enc : Enc) (g : Graph) : St := toStR enc (names g) g

/-! ## §2 hypotheses on the imported graph -/

/-- what the theorems need of the imported graph.  The first three are acceptance conditions of the
    importer (`finish`), `keys_nodup` / `one_parent` hold for every table import, `has_pos` holds
    for a rectangular table with an unambiguous name map; `nonneg`, `timed`, `forward`, `binary`,
    `registered`, `key_inj` are the documented preconditions. -/
structure GOK (enc : Enc) (reg : List String) (g : Graph) : Prop where
  ids_nodup : (g.nodes.map (·.1)).Nodup
  edges_nodup : g.edges.Nodup
  ends : ∀ e ∈ g.edges, e.1 ∈ g.nodes.map (·.1) ∧ e.2 ∈ g.nodes.map (·.1)
  keys_nodup : ∀ n ∈ g.nodes, (n.2.map (·.1)).Nodup
  one_parent : ∀ e1 ∈ g.edges, ∀ e2 ∈ g.edges, e1.2 = e2.2 → e1.1 = e2.1
  has_pos : ∀ n ∈ g.nodes, (alook "pos" n.2).isSome = true
  nonneg : ∀ n ∈ g.nodes, 0 ≤ n.1
  timed : ∀ n ∈ g.nodes, (gTime enc n.2).isSome = true
  forward : ∀ e ∈ g.edges, ∀ a b, (e.1, a) ∈ g.nodes → (e.2, b) ∈ g.nodes →
    ∀ t1 t2, gTime enc a = some t1 → gTime enc b = some t2 → t1 < t2
  binary : ∀ u : Int, (g.edges.filter (fun e => e.1 == u)).length ≤ 2
  registered : ∀ n ∈ g.nodes, ∀ kv ∈ n.2, kv.1 ≠ "time" → kv.1 ∈ reg
  key_inj : ∀ n ∈ g.nodes, ∀ a ∈ n.2, ∀ b ∈ n.2, enc.key a.1 = enc.key b.1 → a.1 = b.1

/-! ## §3 list helpers -/

theorem nodup_map_of_inj_on {α β} {f : α → β} {l : List α} (h : l.Nodup)
    (hf : ∀ a ∈ l, ∀ b ∈ l, f a = f b → a = b) : (l.map f).Nodup := by
  unfold List.Nodup
  rw [List.pairwise_map]
  exact List.Pairwise.imp_of_mem (fun ha hb hne e => hne (hf _ ha _ hb e)) h

theorem length_le_one_of_all_eq {α} {l : List α} (h : l.Nodup) (he : ∀ a ∈ l, ∀ b ∈ l, a = b) :
    l.length ≤ 1 := by
  match l, h, he with
  | [], _, _ => simp
  | [_], _, _ => simp
  | a :: b :: r, h, he =>
    exfalso
    have := he a (by simp) b (by simp)
    subst this
    simp at h

theorem toNat_inj {a b : Int} (ha : 0 ≤ a) (hb : 0 ≤ b) (h : a.toNat = b.toNat) : a = b := by
  omega

/-! ## §4 the graph view of `base` -/

section base
variable {enc : Enc} {reg : List String} {g : Graph}

theorem base_ids : (base enc reg g).ids = g.nodes.map (fun n => n.1.toNat) := by
  simp [St.ids, base, nodeOf, List.map_map, Function.comp_def]

theorem base_edgeList : (base enc reg g).edgeList = g.edges.map (fun e => (e.1.toNat, e.2.toNat)) := by
  simp [St.edgeList, base, edgeOf, List.map_map, Function.comp_def]

theorem mem_ids_nonneg (h : GOK enc reg g) {k : Int} (hk : k ∈ g.nodes.map (·.1)) : 0 ≤ k := by
  obtain ⟨n, hn, rfl⟩ := List.mem_map.1 hk
  exact h.nonneg n hn

theorem base_ids_nodup (h : GOK enc reg g) : (base enc reg g).ids.Nodup := by
  rw [base_ids]
  have : g.nodes.map (fun n => n.1.toNat) = (g.nodes.map (·.1)).map Int.toNat := by
    simp [List.map_map, Function.comp_def]
  rw [this]
  exact nodup_map_of_inj_on h.ids_nodup
    (fun a ha b hb e => toNat_inj (mem_ids_nonneg h ha) (mem_ids_nonneg h hb) e)

theorem edge_nonneg (h : GOK enc reg g) {e : Int × Int} (he : e ∈ g.edges) : 0 ≤ e.1 ∧ 0 ≤ e.2 :=
  ⟨mem_ids_nonneg h (h.ends e he).1, mem_ids_nonneg h (h.ends e he).2⟩

theorem base_edges_nodup (h : GOK enc reg g) : (base enc reg g).edgeList.Nodup := by
  rw [base_edgeList]
  refine nodup_map_of_inj_on h.edges_nodup ?_
  intro a ha b hb e
  simp only [Prod.mk.injEq] at e
  have h1 := toNat_inj (edge_nonneg h ha).1 (edge_nonneg h hb).1 e.1
  have h2 := toNat_inj (edge_nonneg h ha).2 (edge_nonneg h hb).2 e.2
  exact Prod.ext h1 h2

theorem mem_base_edgeList {e : Edge} :
    e ∈ (base enc reg g).edgeList ↔ ∃ x ∈ g.edges, e = (x.1.toNat, x.2.toNat) := by
  rw [base_edgeList, List.mem_map]
  constructor
  · rintro ⟨x, hx, rfl⟩; exact ⟨x, hx, rfl⟩
  · rintro ⟨x, hx, rfl⟩; exact ⟨x, hx, rfl⟩

/-- the record of an imported node is found under its id -/
theorem base_findNode (h : GOK enc reg g) {n : Int × Attrs} (hn : n ∈ g.nodes) :
    (base enc reg g).findNode n.1.toNat = some (nodeOf enc n) := by
  have hnd : ((base enc reg g).nodes.map (fun r : NodeRec => r.id)).Nodup := base_ids_nodup h
  have hm : nodeOf enc n ∈ (base enc reg g).nodes := List.mem_map.2 ⟨n, hn, rfl⟩
  exact R2A1.find_key_of_mem (fun r : NodeRec => r.id) _ hnd _ hm

theorem base_timeOf (h : GOK enc reg g) {n : Int × Attrs} (hn : n ∈ g.nodes) :
    (base enc reg g).timeOf n.1.toNat = some ((gTime enc n.2).getD 0) := by
  unfold St.timeOf
  rw [base_findNode h hn]
  rfl

theorem base_forest (h : GOK enc reg g) : (base enc reg g).Forest := by
  refine ⟨base_ids_nodup h, base_edges_nodup h, ?_, ?_, ?_, ?_, ?_⟩
  · intro e he
    obtain ⟨x, hx, rfl⟩ := mem_base_edgeList.1 he
    rw [base_ids]
    obtain ⟨n, hn, e1⟩ := List.mem_map.1 (h.ends x hx).1
    exact List.mem_map.2 ⟨n, hn, by rw [e1]⟩
  · intro e he
    obtain ⟨x, hx, rfl⟩ := mem_base_edgeList.1 he
    rw [base_ids]
    obtain ⟨n, hn, e1⟩ := List.mem_map.1 (h.ends x hx).2
    exact List.mem_map.2 ⟨n, hn, by rw [e1]⟩
  · intro e he t1 t2 h1 h2
    obtain ⟨x, hx, rfl⟩ := mem_base_edgeList.1 he
    obtain ⟨⟨i, a⟩, hn, e1⟩ := List.mem_map.1 (h.ends x hx).1
    obtain ⟨⟨j, b⟩, hm, e2⟩ := List.mem_map.1 (h.ends x hx).2
    simp only at e1 e2
    subst e1 e2
    have ht1 := base_timeOf h hn
    have ht2 := base_timeOf h hm
    simp only at ht1 ht2 h1 h2
    rw [ht1] at h1
    rw [ht2] at h2
    obtain ⟨ta, hta⟩ := Option.isSome_iff_exists.1 (h.timed _ hn)
    obtain ⟨tb, htb⟩ := Option.isSome_iff_exists.1 (h.timed _ hm)
    simp only at hta htb
    rw [hta] at h1
    rw [htb] at h2
    simp only [Option.getD_some, Option.some.injEq] at h1 h2
    subst h1 h2
    exact h.forward x hx a b hn hm _ _ hta htb
  · intro v
    rw [St.indeg_eq]
    apply length_le_one_of_all_eq
    · exact (base_edges_nodup h).sublist List.filter_sublist
    · intro a ha b hb
      rw [List.mem_filter] at ha hb
      obtain ⟨x, hx, rfl⟩ := mem_base_edgeList.1 ha.1
      obtain ⟨y, hy, rfl⟩ := mem_base_edgeList.1 hb.1
      have e2 : x.2.toNat = y.2.toNat := by
        have q1 := ha.2
        have q2 := hb.2
        simp only [beq_iff_eq] at q1 q2
        rw [q1, q2]
      have h2 := toNat_inj (edge_nonneg h hx).2 (edge_nonneg h hy).2 e2
      have h1 := h.one_parent x hx y hy h2
      rw [h1, h2]
  · intro u
    rw [St.outdeg_eq, base_edgeList, List.filter_map, List.length_map]
    have : g.edges.filter ((fun e : Edge => e.1 == u) ∘ fun e : Int × Int => (e.1.toNat, e.2.toNat)) =
        g.edges.filter (fun e => e.1 == (u : Int)) := by
      apply List.filter_congr
      intro x hx
      have := (edge_nonneg h hx).1
      show (x.1.toNat == u) = (x.1 == (u : Int))
      rw [Bool.eq_iff_iff]
      simp only [beq_iff_eq]
      constructor
      · intro e; omega
      · intro e; omega
    rw [this]
    exact h.binary u

end base

/-! ## §5 the id assignment: frames -/

/-- the fields the id assignment never touches -/
structure Cfg (a b : St) : Prop where
  edges : b.edges = a.edges
  seg : b.seg = a.seg
  linOn : b.linOn = a.linOn
  posKeys : b.posKeys = a.posKeys
  regNode : b.regNode = a.regNode
  regEdge : b.regEdge = a.regEdge
  rpAvail : b.rpAvail = a.rpAvail
  rpActive : b.rpActive = a.rpActive
  iouKey : b.iouKey = a.iouKey
  iouActive : b.iouActive = a.iouActive
  hist : b.hist = a.hist
  counter : b.counter = a.counter
  nstrip : R2A2.nstrip b = R2A2.nstrip a

theorem Cfg.trans {a b c : St} (h1 : Cfg a b) (h2 : Cfg b c) : Cfg a c :=
  ⟨h2.edges.trans h1.edges, h2.seg.trans h1.seg, h2.linOn.trans h1.linOn, h2.posKeys.trans h1.posKeys,
   h2.regNode.trans h1.regNode, h2.regEdge.trans h1.regEdge, h2.rpAvail.trans h1.rpAvail,
   h2.rpActive.trans h1.rpActive, h2.iouKey.trans h1.iouKey, h2.iouActive.trans h1.iouActive,
   h2.hist.trans h1.hist, h2.counter.trans h1.counter, h2.nstrip.trans h1.nstrip⟩

theorem nstrip_assignTracklets (s : St) : R2A2.nstrip s.assignTracklets = R2A2.nstrip s :=
  (rfl : R2A2.nstrip s.assignTracklets = R2A2.nstrip (R2F.tWritten s)).trans
    (R2F.writeAll_inv R2F.tidW (fun st => R2A2.nstrip st = R2A2.nstrip s)
      (fun st n v h => (R2A2.nstrip_setTid st n v).trans h) _ s rfl)

theorem nstrip_assignLineages (s : St) : R2A2.nstrip s.assignLineages = R2A2.nstrip s :=
  (rfl : R2A2.nstrip s.assignLineages = R2A2.nstrip (R2F.lWritten s)).trans
    (R2F.writeAll_inv R2F.linW (fun st => R2A2.nstrip st = R2A2.nstrip s)
      (fun st n v h => (R2A2.nstrip_setLin st n (some v)).trans h) _ s rfl)

theorem cfg_assignTracklets (s : St) : Cfg s s.assignTracklets := by
  have h := R2F.assignTracklets_frame s
  exact ⟨(congrArg St.edges h).trans rfl, (congrArg St.seg h).trans rfl, (congrArg St.linOn h).trans rfl,
    (congrArg St.posKeys h).trans rfl, (congrArg St.regNode h).trans rfl, (congrArg St.regEdge h).trans rfl,
    (congrArg St.rpAvail h).trans rfl, (congrArg St.rpActive h).trans rfl, (congrArg St.iouKey h).trans rfl,
    (congrArg St.iouActive h).trans rfl, (congrArg St.hist h).trans rfl, (congrArg St.counter h).trans rfl,
    nstrip_assignTracklets s⟩

theorem cfg_assignLineages (s : St) : Cfg s s.assignLineages := by
  have h := R2F.assignLineages_frame s
  exact ⟨(congrArg St.edges h).trans rfl, (congrArg St.seg h).trans rfl, (congrArg St.linOn h).trans rfl,
    (congrArg St.posKeys h).trans rfl, (congrArg St.regNode h).trans rfl, (congrArg St.regEdge h).trans rfl,
    (congrArg St.rpAvail h).trans rfl, (congrArg St.rpActive h).trans rfl, (congrArg St.iouKey h).trans rfl,
    (congrArg St.iouActive h).trans rfl, (congrArg St.hist h).trans rfl, (congrArg St.counter h).trans rfl,
    nstrip_assignLineages s⟩

theorem cfg_toStR (enc : Enc) (reg : List String) (g : Graph) : Cfg (base enc reg g) (toStR enc reg g) :=
  (cfg_assignTracklets _).trans (cfg_assignLineages _)

theorem G_toStR (enc : Enc) (reg : List String) (g : Graph) :
    G (toStR enc reg g) = G (base enc reg g) :=
  (R2F.assignLineages_G _).trans (R2F.assignTracklets_G _)

/-- every record of the imported state is the record of an imported node up to its ids -/
theorem mem_nodes_toStR {enc : Enc} {reg : List String} {g : Graph} {r : NodeRec}
    (hr : r ∈ (toStR enc reg g).nodes) :
    ∃ n ∈ g.nodes, r.id = n.1.toNat ∧ r.time = (gTime enc n.2).getD 0 ∧ r.other = gOther enc n.2 := by
  have h1 : R2A2.strip r ∈ R2A2.nstrip (toStR enc reg g) := List.mem_map_of_mem hr
  rw [(cfg_toStR enc reg g).nstrip] at h1
  obtain ⟨r0, hr0, e⟩ := List.mem_map.1 h1
  obtain ⟨n, hn, rfl⟩ := List.mem_map.1 (hr0 : r0 ∈ g.nodes.map (nodeOf enc))
  simp only [R2A2.strip, Prod.mk.injEq] at e
  exact ⟨n, hn, e.1.symm, e.2.1.symm, e.2.2.symm⟩

/-! ### `toStR` is what the model's `enable_features` produces on the bare graph state -/

theorem foldl_comm {σ α} (h : σ → σ) (f : σ → α → σ) (hc : ∀ st x, f (h st) x = h (f st x)) :
    ∀ (l : List α) (st : σ), l.foldl f (h st) = h (l.foldl f st) := by
  intro l
  induction l with
  | nil => intro st; rfl
  | cons x l ih => intro st; rw [List.foldl_cons, List.foldl_cons, hc, ih]

/-- the bulk track-id assignment does not read the lineage flag -/
theorem assignTracklets_linOn_comm (s : St) (b : Bool) :
    ({ s with linOn := b }).assignTracklets = { s.assignTracklets with linOn := b } := by
  have hw : ∀ (idx : List (Nat × List Node)),
      R2F.writeAll R2F.tidW { s with linOn := b } idx = { R2F.writeAll R2F.tidW s idx with linOn := b } := by
    intro idx
    exact foldl_comm (fun st : St => { st with linOn := b }) _
      (fun st p => foldl_comm (fun st : St => { st with linOn := b }) _ (fun _ _ => rfl) p.2 st) idx s
  rw [R2F.assignTracklets_eq, R2F.assignTracklets_eq]
  have ht : R2F.tWritten { s with linOn := b } = { R2F.tWritten s with linOn := b } := hw _
  rw [ht]
  rfl

/-- the bare graph state: `base` before the lineage feature is switched on -/
def bare (enc : Enc) (reg : List String) (g : Graph) : St := { base enc reg g with linOn := false }

/-- `enable_features([track_id])` on the bare state (no array: nothing else to compute) -/
theorem enable_tid_bare (enc : Enc) (reg : List String) (g : Graph) :
    (bare enc reg g).enable [keyTid] true = some (bare enc reg g).assignTracklets := by
  simp [bare, St.enable, St.annotKeys, base, St.rpCompute, keyTid, keyLin]

theorem enable_lin_of (x : St) (h1 : x.seg = none) (h2 : x.rpAvail = []) (h3 : x.rpActive = [])
    (h4 : x.iouKey = none) (h5 : x.linOn = true) :
    ({ x with linOn := false }).enable [keyLin] true = some x.assignLineages := by
  obtain ⟨nodes, edges, seg, linOn, posKeys, regNode, regEdge, rpAvail, rpActive, iouKey, iouActive, t2n,
    l2n, maxTid, maxLin, counter, hist, refreshes, lastPayload⟩ := x
  simp only at h1 h2 h3 h4 h5
  subst h1 h2 h3 h4 h5
  simp [St.enable, St.annotKeys, St.rpCompute, keyTid, keyLin]

/-- then `enable_features([lineage_id])`: switches the lineage feature on and assigns the lineage ids -/
theorem enable_lin_bare (enc : Enc) (reg : List String) (g : Graph) :
    ((bare enc reg g).assignTracklets).enable [keyLin] true = some (toStR enc reg g) := by
  unfold bare
  rw [assignTracklets_linOn_comm]
  have hC := cfg_assignTracklets (base enc reg g)
  exact enable_lin_of _ hC.seg hC.rpAvail hC.rpActive hC.iouKey hC.linOn

/-! ## §6 `Valid` -/

theorem valid_of_forest {b : St} (hF : b.Forest) (hon : b.linOn = true) :
    (b.assignTracklets.assignLineages).Valid := by
  have hF1 : b.assignTracklets.Forest := forest_congr (R2F.assignTracklets_G b) hF
  refine ⟨forest_congr (R2F.assignLineages_G _) hF1, R2F.assignLineages_tidOK (R2F.assign_tidOK hF),
    R2F.assign_linOK hF1, ?_, ?_⟩
  · rw [PC.bookOK_iff]
    exact ⟨R2F.assign_TOK_keep (R2F.assign_TOK hF), R2F.assign_LOK hF1⟩
  · rw [R2F.assignLineages_linOn, R2F.assignTracklets_linOn]; exact hon

theorem toStR_valid {enc : Enc} {reg : List String} {g : Graph} (h : GOK enc reg g) :
    (toStR enc reg g).Valid := valid_of_forest (base_forest h) rfl

/-! ## §7 attributes -/

theorem gOther_keys (enc : Enc) (a : Attrs) :
    (gOther enc a).map (·.1) = ((a.filter (fun kv => kv.1 != "time")).map (·.1)).map enc.key := by
  simp [gOther, List.map_map, Function.comp_def]

theorem gOther_keys_nodup {enc : Enc} {a : Attrs} (hn : (a.map (·.1)).Nodup)
    (hi : ∀ x ∈ a, ∀ y ∈ a, enc.key x.1 = enc.key y.1 → x.1 = y.1) :
    ((gOther enc a).map (·.1)).Nodup := by
  rw [gOther_keys]
  have hsub : ((a.filter (fun kv => kv.1 != "time")).map (·.1)).Sublist (a.map (·.1)) :=
    List.filter_sublist.map _
  refine nodup_map_of_inj_on (hn.sublist hsub) ?_
  intro x hx y hy e
  obtain ⟨p, hp, rfl⟩ := List.mem_map.1 (hsub.subset hx)
  obtain ⟨q, hq, rfl⟩ := List.mem_map.1 (hsub.subset hy)
  exact hi p hp q hq e

theorem mem_gOther {enc : Enc} {a : Attrs} {k : Key} {v : Ft.Val} (h : (k, v) ∈ gOther enc a) :
    ∃ kv ∈ a, kv.1 ≠ "time" ∧ k = enc.key kv.1 ∧ v = Ft.Val.tok (enc.val kv.2) := by
  unfold gOther at h
  obtain ⟨kv, hkv, e⟩ := List.mem_map.1 h
  rw [List.mem_filter] at hkv
  simp only [Prod.mk.injEq] at e
  exact ⟨kv, hkv.1, by simpa using hkv.2, e.1.symm, e.2.symm⟩

theorem alook_isSome_of_mem {β} {k : Key} {l : List (Key × β)} (h : ∃ kv ∈ l, kv.1 = k) :
    (alook k l).isSome = true := by
  induction l with
  | nil => obtain ⟨_, h, _⟩ := h; cases h
  | cons x r ih =>
    obtain ⟨k', v⟩ := x
    unfold alook
    by_cases e : (k' == k) = true
    · simp [e]
    · simp only [e, Bool.false_eq_true, if_false]
      apply ih
      obtain ⟨kv, hkv, hk⟩ := h
      rcases List.mem_cons.1 hkv with rfl | h'
      · simp only [beq_iff_eq] at e; exact absurd hk e
      · exact ⟨kv, h', hk⟩

/-- a stored value of an imported node is an opaque token, never `None` -/
theorem alook_gOther_tok {enc : Enc} {a : Attrs} {k : Key} {v : Ft.Val}
    (h : alook k (gOther enc a) = some v) : ∃ kv ∈ a, kv.1 ≠ "time" ∧ k = enc.key kv.1 ∧ v ≠ Ft.Val.none := by
  obtain ⟨kv, h1, h2, h3, h4⟩ := mem_gOther (R2A1.alook_mem h)
  exact ⟨kv, h1, h2, h3, by rw [h4]; exact fun e => by cases e⟩

theorem alook_pos_gOther {enc : Enc} {a : Attrs} (h : (alook "pos" a).isSome = true) :
    ∃ v, alook (enc.key "pos") (gOther enc a) = some v ∧ v ≠ Ft.Val.none := by
  obtain ⟨w, hw⟩ := Option.isSome_iff_exists.1 h
  have hm := Import.mem_of_alook "pos" w a hw
  have : (alook (enc.key "pos") (gOther enc a)).isSome = true := by
    apply alook_isSome_of_mem
    refine ⟨(enc.key "pos", Ft.Val.tok (enc.val w)), ?_, rfl⟩
    unfold gOther
    exact List.mem_map.2 ⟨("pos", w), List.mem_filter.2 ⟨hm, rfl⟩, rfl⟩
  obtain ⟨v, hv⟩ := Option.isSome_iff_exists.1 this
  obtain ⟨_, _, _, _, h5⟩ := alook_gOther_tok hv
  exact ⟨v, hv, h5⟩

/-! ## §8 the bundle invariant -/

theorem toStR_findNode_mem {enc : Enc} {reg : List String} {g : Graph} {n : Node} {r : NodeRec}
    (h : (toStR enc reg g).findNode n = some r) : r ∈ (toStR enc reg g).nodes :=
  (PC.findNode_some_mem h).1

/-- **the imported state satisfies the bundle invariant of the whole-history theorems** -/
theorem inv_of_gok {enc : Enc} {reg : List String} {g : Graph} (h : GOK enc reg g) :
    R3D.Inv (toStR enc reg g) := by
  have hV := toStR_valid h
  have hC := cfg_toStR enc reg g
  have hseg : (toStR enc reg g).seg = none := hC.seg
  have hrp : (toStR enc reg g).rpActive = [] := hC.rpActive
  have hiou : (toStR enc reg g).iouKey = none := hC.iouKey
  have hedges : (toStR enc reg g).edges = g.edges.map edgeOf := hC.edges
  have hreg : (toStR enc reg g).regNode = reg.map enc.key := hC.regNode
  have hpos : (toStR enc reg g).posKeys = [enc.key "pos"] := hC.posKeys
  refine ⟨hV, ?_, ?_, ?_, ?_, ?_, ?_⟩
  · -- Good
    apply R3P.Good.of_invariants hV.forest hV.book
    · intro r hr
      obtain ⟨n, hn, _, _, e⟩ := mem_nodes_toStR hr
      rw [e]
      exact gOther_keys_nodup (h.keys_nodup n hn) (h.key_inj n hn)
    · intro r hr
      rw [hedges] at hr
      obtain ⟨e, _, rfl⟩ := List.mem_map.1 hr
      exact List.nodup_nil
  · -- EdgeInv
    refine ⟨?_, ?_, ?_⟩
    · rintro o ⟨r, hr, rfl⟩ k hk
      rw [hedges] at hr
      obtain ⟨e, _, rfl⟩ := List.mem_map.1 hr
      exact absurd rfl hk
    · intro _ hs; rw [hseg] at hs; cases hs
    · intro k hk; rw [hiou] at hk; cases hk
  · -- NodeInv
    refine ⟨?_, ?_, ?_, ?_, ?_⟩
    · intro n k hk
      unfold St.otherOf at hk
      cases hf : (toStR enc reg g).findNode n with
      | none => rw [hf] at hk; exact absurd rfl hk
      | some r =>
        rw [hf] at hk
        obtain ⟨m, hm, _, _, e⟩ := mem_nodes_toStR (toStR_findNode_mem hf)
        simp only [e] at hk
        cases ha : alook k (gOther enc m.2) with
        | none => rw [ha] at hk; exact absurd rfl hk
        | some v =>
          obtain ⟨kv, h1, h2, h3, _⟩ := alook_gOther_tok ha
          rw [hreg, h3]
          exact List.mem_map_of_mem (h.registered m hm kv h1 h2)
    · intro k hk; rw [hrp] at hk; cases hk
    · intro _ n hn k hk
      rw [hpos, List.mem_singleton] at hk
      subst hk
      obtain ⟨r, hf⟩ := tk_mem_ids_iff.1 hn
      obtain ⟨m, hm, _, _, e⟩ := mem_nodes_toStR (toStR_findNode_mem hf)
      obtain ⟨v, hv, hne⟩ := alook_pos_gOther (enc := enc) (h.has_pos m hm)
      unfold St.otherOf
      rw [hf]
      simp only [e, hv, Option.getD_some]
      exact hne
    · intro g' hg'; rw [hseg] at hg'; cases hg'
    · intro g' hg'; rw [hseg] at hg'; cases hg'
  · intro g' hg'; rw [hseg] at hg'; cases hg'
  · intro k hk; rw [hrp] at hk; cases hk
  · intro g' hg'; rw [hseg] at hg'; cases hg'

theorem toStR_hist (enc : Enc) (reg : List String) (g : Graph) : (toStR enc reg g).hist = {} :=
  (cfg_toStR enc reg g).hist

/-! ## §9 the ids of the imported state -/

theorem toStR_ids (enc : Enc) (reg : List String) (g : Graph) :
    (toStR enc reg g).ids = g.nodes.map (fun n => n.1.toNat) := by
  rw [G_ids (G_toStR enc reg g), base_ids]

theorem toStR_edgeList (enc : Enc) (reg : List String) (g : Graph) :
    (toStR enc reg g).edgeList = g.edges.map (fun e => (e.1.toNat, e.2.toNat)) := by
  rw [G_es (G_toStR enc reg g), base_edgeList]

/-- same track id ⇔ same unbranched segment, on the imported state itself -/
theorem toStR_tid_iff {enc : Enc} {reg : List String} {g : Graph} (h : GOK enc reg g) {a b : Node}
    (ha : a ∈ (toStR enc reg g).ids) (hb : b ∈ (toStR enc reg g).ids) :
    (toStR enc reg g).tidOf a = (toStR enc reg g).tidOf b ↔ (toStR enc reg g).SameSeg a b := by
  have hF := base_forest h
  rw [G_ids (G_toStR enc reg g)] at ha hb
  unfold toStR
  rw [R2F.assignLineages_tidOf, R2F.assignLineages_tidOf, R2F.assign_tid_iff hF ha hb]
  exact (R2F.sameSeg_iff_of_G (G_toStR enc reg g)).symm

/-- same lineage id ⇔ connected, on the imported state itself -/
theorem toStR_lin_iff {enc : Enc} {reg : List String} {g : Graph} (h : GOK enc reg g) {a b : Node}
    (ha : a ∈ (toStR enc reg g).ids) (hb : b ∈ (toStR enc reg g).ids) :
    (toStR enc reg g).linOf a = (toStR enc reg g).linOf b ↔ (toStR enc reg g).Conn a b := by
  have hF1 : (base enc reg g).assignTracklets.Forest :=
    forest_congr (R2F.assignTracklets_G _) (base_forest h)
  have hG1 : G (base enc reg g).assignTracklets.assignLineages = G (base enc reg g).assignTracklets :=
    R2F.assignLineages_G _
  rw [show (toStR enc reg g).ids = (base enc reg g).assignTracklets.ids from G_ids hG1] at ha hb
  unfold toStR
  rw [R2F.assign_lin_iff hF1 ha hb]
  exact (R2F.conn_iff_of_G hG1).symm

/-! ## §10 what acceptance by the importer gives -/

theorem aset_keys {β} (k : String) (v : β) (l : List (String × β)) :
    (aset k v l).map (·.1) = if k ∈ l.map (·.1) then l.map (·.1) else l.map (·.1) ++ [k] := by
  induction l with
  | nil => simp [aset]
  | cons p r ih =>
    obtain ⟨a, b⟩ := p
    by_cases hak : a = k
    · subst hak
      simp [aset]
    · have h1 : (a == k) = false := by simpa using hak
      have h2 : ¬ k = a := fun e => hak e.symm
      simp only [aset, h1, Bool.false_eq_true, if_false, List.map_cons, ih, List.mem_cons, h2, false_or]
      split <;> simp

theorem aset_keys_nodup {β} (k : String) (v : β) (l : List (String × β)) (h : (l.map (·.1)).Nodup) :
    ((aset k v l).map (·.1)).Nodup := by
  rw [aset_keys]
  split
  · exact h
  · rename_i hk
    rw [List.nodup_append]
    exact ⟨h, by simp, fun a ha b hb => by simp at hb; subst hb; exact fun e => hk (e ▸ ha)⟩

theorem adelAll_keys_nodup {β} (k : String) (l : List (String × β)) (h : (l.map (·.1)).Nodup) :
    ((adelAll k l).map (·.1)).Nodup :=
  h.sublist (List.filter_sublist.map _)

theorem renameAux_keys_nodup (header : List String) (cells : Attrs) :
    ∀ (flat : List (String × String)) (acc : Attrs), (acc.map (·.1)).Nodup →
      ((renameAux header cells flat acc).map (·.1)).Nodup := by
  intro flat
  induction flat with
  | nil => intro acc h; exact h
  | cons p rest ih =>
    obtain ⟨tgt, src⟩ := p
    intro acc h
    unfold renameAux
    split
    · rename_i hc
      simp only [Bool.and_eq_true, Option.isNone_iff_eq_none] at hc
      cases ha : alook src cells with
      | none => exact ih acc h
      | some v =>
        apply ih
        rw [List.map_append, List.nodup_append]
        refine ⟨h, by simp, ?_⟩
        intro a ha' b hb
        have hb' : b = tgt := by simpa using hb
        intro e
        apply (Import.alook_eq_none_iff tgt acc).1 hc.2
        rw [← hb', ← e]
        exact ha'
    · exact ih acc h

theorem popKeys_keys_nodup (ks : List String) : ∀ (a : Attrs), (a.map (·.1)).Nodup →
    ((popKeys ks a).map (·.1)).Nodup := by
  induction ks with
  | nil => intro a h; exact h
  | cons k ks ih =>
    intro a h
    unfold popKeys
    rw [List.foldl_cons]
    exact ih _ (adelAll_keys_nodup k a h)

theorem delComps_keys_nodup (k : String) (cs : List String) : ∀ (p : Attrs), (p.map (·.1)).Nodup →
    ((delComps k cs p).map (·.1)).Nodup := by
  induction cs with
  | nil => intro p h; exact h
  | cons c cs ih =>
    intro p h
    unfold delComps
    rw [List.foldl_cons]
    apply ih
    split
    · exact adelAll_keys_nodup c p h
    · exact h

theorem combineStep_keys_nodup (props : Attrs) (e : String × Src) (h : (props.map (·.1)).Nodup) :
    ((combineStep props e).map (·.1)).Nodup := by
  unfold combineStep
  split
  · exact h
  · split
    · exact h
    · split
      · exact delComps_keys_nodup _ _ _ (aset_keys_nodup _ _ _ h)
      · exact h

theorem combine_keys_nodup (nm : NameMap) : ∀ (props : Attrs), (props.map (·.1)).Nodup →
    ((combine nm props).map (·.1)).Nodup := by
  induction nm with
  | nil => intro p h; exact h
  | cons e nm ih =>
    intro p h
    unfold combine
    rw [List.foldl_cons]
    exact ih _ (combineStep_keys_nodup p e h)

/-- the attribute dictionary the importer builds for a node has pairwise distinct keys -/
theorem nodeAttrs_keys_nodup (header : List String) (nm : NameMap) (pops : List String) (cells : Attrs) :
    ((nodeAttrs header nm pops cells).map (·.1)).Nodup := by
  unfold nodeAttrs renameRow
  exact combine_keys_nodup nm _ (popKeys_keys_nodup pops _
    (renameAux_keys_nodup header cells _ [] List.nodup_nil))

theorem eq_of_map_nodup {α β} {f : α → β} {l : List α} (h : (l.map f).Nodup) {a b : α}
    (ha : a ∈ l) (hb : b ∈ l) (e : f a = f b) : a = b := by
  induction l with
  | nil => cases ha
  | cons x r ih =>
    simp only [List.map_cons, List.nodup_cons, List.mem_map, not_exists, not_and] at h
    rcases List.mem_cons.1 ha with rfl | ha' <;> rcases List.mem_cons.1 hb with rfl | hb'
    · rfl
    · exact absurd e.symm (h.1 b hb')
    · exact absurd e (h.1 a ha')
    · exact ih h.2 ha' hb'

/-- in a table import every node has at most one parent link (one parent cell per row) -/
theorem linksOf_one_parent {rows : List IRow} (hn : (rows.map (·.id)).Nodup) :
    ∀ e1 ∈ linksOf rows, ∀ e2 ∈ linksOf rows, e1.2 = e2.2 → e1.1 = e2.1 := by
  rintro ⟨u1, v1⟩ h1 ⟨u2, v2⟩ h2 e
  simp only at e
  subst e
  obtain ⟨r1, hr1, hp1, hi1⟩ := (mem_linksOf rows u1 v1).1 h1
  obtain ⟨r2, hr2, hp2, hi2⟩ := (mem_linksOf rows u2 v1).1 h2
  have : r1 = r2 := eq_of_map_nodup hn hr1 hr2 (hi1.trans hi2.symm)
  subst this
  rw [hp1] at hp2
  exact Option.some.inj hp2

theorem vnm_posCheck {req header sp : List String} {nm : NameMap}
    (h : validateNameMap req header sp nm = .ok ()) : posCheck nm = none := by
  unfold validateNameMap at h
  split at h
  · cases h
  · split at h
    · cases h
    · cases hp : posCheck nm with
      | none => rfl
      | some e => simp [hp] at h

/-- a rectangular source with an unambiguous name map: every imported node has its position -/
theorem nodeAttrs_has_pos {req pops header sp : List String} {nm : NameMap} {cells : Attrs}
    (hv : validateNameMap req header sp nm = .ok ()) (hpops : ∀ p ∈ pops, p ∈ req)
    (hpp : "pos" ∉ pops) (hok : NameMapOK nm) (hne : header ≠ [])
    (hrect : Rect header cells) : (alook "pos" (nodeAttrs header nm pops cells)).isSome = true := by
  obtain ⟨hreq, _, hcols⟩ := Import.vnm_ok _ _ _ _ hv
  have hpc := vnm_posCheck hv
  unfold posCheck at hpc
  cases hp : alook "pos" nm with
  | none => rw [hp] at hpc; cases hpc
  | some src =>
    have hmem := Import.mem_of_alook "pos" src nm hp
    cases src with
    | one c =>
      have hc : c ∈ header := hcols hne _ hmem c (by simp [Src.cols])
      rw [nodeAttrs_one header nm pops cells hok "pos" c hmem hc hpp]
      exact hrect c hc
    | many cs =>
      rw [hp] at hpc
      have hlen : ¬ cs.length < 2 := by
        intro hl; simp [hl] at hpc
      have hcs : cs ≠ [] := by
        intro e; subst e; simp at hlen
      rw [nodeAttrs_many header nm pops cells hok hrect "pos" cs hmem hcs
        (fun c hc => hcols hne _ hmem c (by simpa [Src.cols] using hc))
        (fun p hp' => (Import.alook_isSome_iff p nm).mp (hreq p (hpops p hp')))]
      rfl

/-- **what acceptance by `importTable` gives** (with a rectangular table and an unambiguous name map
    for the position) -/
theorem importTable_facts {sp : List String} {nm : NameMap} {t : Table} {g : Graph}
    (h : importTable sp nm t = .ok g) :
    (g.nodes.map (·.1)).Nodup ∧ g.edges.Nodup ∧
    (∀ e ∈ g.edges, e.1 ∈ g.nodes.map (·.1) ∧ e.2 ∈ g.nodes.map (·.1)) ∧
    (∀ n ∈ g.nodes, (n.2.map (·.1)).Nodup) ∧
    (∀ e1 ∈ g.edges, ∀ e2 ∈ g.edges, e1.2 = e2.2 → e1.1 = e2.1) ∧
    (NameMapOK nm → t.header ≠ [] → (∀ r ∈ t.rows, Rect t.header r.cells) →
      ∀ n ∈ g.nodes, (alook "pos" n.2).isSome = true) := by
  obtain ⟨irows, hv, hl, hn, he, hnd, hends, hend⟩ := importTable_ok sp nm t g h
  obtain ⟨_, _, _, hmem⟩ := loadRows_spec t irows hl
  refine ⟨hnd, hend, fun e he' => ⟨(hends e he').1, (hends e he').2.1⟩, ?_, ?_, ?_⟩
  · intro n hn'
    rw [hn] at hn'
    obtain ⟨ir, _, rfl⟩ := List.mem_map.1 hn'
    exact nodeAttrs_keys_nodup _ _ _ _
  · rw [he]
    apply linksOf_one_parent
    have : irows.map (·.id) = g.nodes.map (·.1) := by
      rw [hn]; simp [List.map_map, Function.comp_def]
    rw [this]; exact hnd
  · intro hok hne hrect n hn'
    rw [hn] at hn'
    obtain ⟨ir, hir, rfl⟩ := List.mem_map.1 hn'
    obtain ⟨r, hr, _, hc, _⟩ := hmem ir hir
    simp only
    rw [hc]
    exact nodeAttrs_has_pos hv (by decide) (by decide) hok hne (hrect r hr)

/-- renumbered (non-integer) ids are positive -/
theorem importTable_nonneg_of_renumbered {sp : List String} {nm : NameMap} {t : Table} {g : Graph}
    (h : importTable sp nm t = .ok g) (hni : t.intIds = false) : ∀ n ∈ g.nodes, 0 ≤ n.1 := by
  obtain ⟨irows, _, hl, hn, _, _, _, _⟩ := importTable_ok sp nm t g h
  obtain ⟨hnodup, _, _, hmem⟩ := loadRows_spec t irows hl
  intro n hn'
  rw [hn] at hn'
  obtain ⟨ir, hir, rfl⟩ := List.mem_map.1 hn'
  obtain ⟨r, hr, hid, _, _⟩ := hmem ir hir
  obtain ⟨i, hi⟩ := List.getElem?_of_mem hr
  have : newId t r.id = some ((i : Int) + 1) := by
    unfold newId
    rw [hni]
    simp only [Bool.false_eq_true, if_false]
    apply alook_idMapping _ hnodup i
    unfold tableIds
    simp [hi]
  rw [this] at hid
  have e : ir.id = (i : Int) + 1 := Option.some.inj hid
  show 0 ≤ ir.id
  omega

/-- **what acceptance by `importGeff` gives** (a GEFF store may contain merges: `one_parent` is not
    among them) -/
theorem importGeff_facts {sp : List String} {nm : NameMap} {header : List String}
    {nodes : List (Int × Attrs)} {edges : List (Int × Int)} {g : Graph}
    (h : importGeff sp nm header nodes edges = .ok g) :
    (g.nodes.map (·.1)).Nodup ∧ g.edges.Nodup ∧
    (∀ e ∈ g.edges, e.1 ∈ g.nodes.map (·.1) ∧ e.2 ∈ g.nodes.map (·.1)) ∧
    (∀ n ∈ g.nodes, (n.2.map (·.1)).Nodup) ∧
    (NameMapOK nm → header ≠ [] → (∀ n ∈ nodes, Rect header n.2) →
      ∀ n ∈ g.nodes, (alook "pos" n.2).isSome = true) := by
  obtain ⟨hv, hn, he, hnd, hends, hend⟩ := importGeff_ok sp nm header nodes edges g h
  have hids : g.nodes.map (·.1) = nodes.map (·.1) := by
    rw [hn]; simp [List.map_map, Function.comp_def]
  refine ⟨hids ▸ hnd, he ▸ hend, ?_, ?_, ?_⟩
  · intro e he'
    rw [he] at he'
    rw [hids]
    exact ⟨(hends e he').1, (hends e he').2.1⟩
  · intro n hn'
    rw [hn] at hn'
    obtain ⟨m, _, rfl⟩ := List.mem_map.1 hn'
    exact nodeAttrs_keys_nodup _ _ _ _
  · intro hok hne hrect n hn'
    rw [hn] at hn'
    obtain ⟨m, hm, rfl⟩ := List.mem_map.1 hn'
    exact nodeAttrs_has_pos hv (by simp) (by simp) hok hne (hrect m hm)

/-! ## §11 the documented preconditions, as decidable predicates on the imported graph -/

/-- node ids are non-negative (the session model has natural node ids) -/
def NonNeg (g : Graph) : Prop := ∀ n ∈ g.nodes, 0 ≤ n.1
/-- every node carries a readable time -/
def Timed (enc : Enc) (g : Graph) : Prop := ∀ n ∈ g.nodes, (gTime enc n.2).isSome = true
/-- every link goes strictly forward in time -/
def Forward (enc : Enc) (g : Graph) : Prop :=
  ∀ e ∈ g.edges, ∀ n ∈ g.nodes, ∀ m ∈ g.nodes, n.1 = e.1 → m.1 = e.2 →
    (gTime enc n.2).getD 0 < (gTime enc m.2).getD 0
/-- at most two children per node -/
def Binary (g : Graph) : Prop := ∀ n ∈ g.nodes, (g.edges.filter (fun e => e.1 == n.1)).length ≤ 2
/-- at most one parent per node (automatic for a table import) -/
def OneParent (g : Graph) : Prop := ∀ e1 ∈ g.edges, ∀ e2 ∈ g.edges, e1.2 = e2.2 → e1.1 = e2.1
/-- every loaded property besides the time is a registered feature -/
def Registered (reg : List String) (g : Graph) : Prop :=
  ∀ n ∈ g.nodes, ∀ kv ∈ n.2, kv.1 ≠ "time" → kv.1 ∈ reg
/-- the key numbering separates the attribute names of a node -/
def KeyInj (enc : Enc) (g : Graph) : Prop :=
  ∀ n ∈ g.nodes, ∀ a ∈ n.2, ∀ b ∈ n.2, enc.key a.1 = enc.key b.1 → a.1 = b.1
/-- every row has a cell for every column (always true of a DataFrame) -/
def RectAll (t : Table) : Prop := ∀ r ∈ t.rows, ∀ c ∈ t.header, (alook c r.cells).isSome = true

instance (g : Graph) : Decidable (NonNeg g) := by unfold NonNeg; exact inferInstance
instance (enc : Enc) (g : Graph) : Decidable (Timed enc g) := by unfold Timed; exact inferInstance
instance (enc : Enc) (g : Graph) : Decidable (Forward enc g) := by unfold Forward; exact inferInstance
instance (g : Graph) : Decidable (Binary g) := by unfold Binary; exact inferInstance
instance (g : Graph) : Decidable (OneParent g) := by unfold OneParent; exact inferInstance
instance (reg : List String) (g : Graph) : Decidable (Registered reg g) := by
  unfold Registered; exact inferInstance
instance (enc : Enc) (g : Graph) : Decidable (KeyInj enc g) := by unfold KeyInj; exact inferInstance
instance (t : Table) : Decidable (RectAll t) := by unfold RectAll; exact inferInstance

theorem registered_names (g : Graph) : Registered (names g) g := by
  intro n hn kv hkv hne
  unfold names
  rw [List.mem_eraseDups, List.mem_filter]
  refine ⟨List.mem_flatMap.2 ⟨n, hn, List.mem_map_of_mem hkv⟩, ?_⟩
  simpa using hne

/-- assembling `GOK` from the structural facts and the preconditions -/
theorem gok_of {enc : Enc} {reg : List String} {g : Graph}
    (h1 : (g.nodes.map (·.1)).Nodup) (h2 : g.edges.Nodup)
    (h3 : ∀ e ∈ g.edges, e.1 ∈ g.nodes.map (·.1) ∧ e.2 ∈ g.nodes.map (·.1))
    (h4 : ∀ n ∈ g.nodes, (n.2.map (·.1)).Nodup) (h5 : OneParent g)
    (h6 : ∀ n ∈ g.nodes, (alook "pos" n.2).isSome = true)
    (hN : NonNeg g) (hT : Timed enc g) (hF : Forward enc g) (hB : Binary g)
    (hR : Registered reg g) (hK : KeyInj enc g) : GOK enc reg g := by
  refine ⟨h1, h2, h3, h4, h5, h6, hN, hT, ?_, ?_, hR, hK⟩
  · intro e he a b ha hb t1 t2 ht1 ht2
    have := hF e he (e.1, a) ha (e.2, b) hb rfl rfl
    simp only [ht1, ht2, Option.getD_some] at this
    exact this
  · intro u
    by_cases hu : u ∈ g.nodes.map (·.1)
    · obtain ⟨n, hn, rfl⟩ := List.mem_map.1 hu
      exact hB n hn
    · have : g.edges.filter (fun e => e.1 == u) = [] := by
        rw [List.filter_eq_nil_iff]
        intro e he hc
        simp only [beq_iff_eq] at hc
        exact hu (hc ▸ (h3 e he).1)
      rw [this]; simp

/-- the standard key numbering: position of the name among the attribute names of the graph, after
    the three reserved keys (time, track id, lineage id) -/
def encStd (g : Graph) (val : Import.Val → Int) : Enc :=
  { key := fun k => (names g).idxOf k + 3, val := val, time := timeN }

theorem idxOf_inj_of_mem {l : List String} {a b : String} (ha : a ∈ l) (hb : b ∈ l)
    (e : l.idxOf a = l.idxOf b) : a = b := by
  have h1 : l.idxOf a < l.length := List.idxOf_lt_length_iff.2 ha
  have h2 : l.idxOf b < l.length := List.idxOf_lt_length_iff.2 hb
  have e1 := List.getElem_idxOf h1
  have e2 := List.getElem_idxOf h2
  rw [← e1, ← e2]
  simp only [e]

theorem mem_names {g : Graph} {n : Int × Attrs} (hn : n ∈ g.nodes) {kv : String × Import.Val}
    (hkv : kv ∈ n.2) (hne : kv.1 ≠ "time") : kv.1 ∈ names g := registered_names g n hn kv hkv hne

theorem time_not_mem_names (g : Graph) : "time" ∉ names g := by
  unfold names
  rw [List.mem_eraseDups, List.mem_filter]
  rintro ⟨_, h⟩
  simp at h

theorem keyInj_encStd (g : Graph) (val : Import.Val → Int) : KeyInj (encStd g val) g := by
  intro n hn a ha b hb e
  have e' : (names g).idxOf a.1 = (names g).idxOf b.1 := by
    have : (names g).idxOf a.1 + 3 = (names g).idxOf b.1 + 3 := e
    omega
  by_cases hat : a.1 = "time"
  · by_cases hbt : b.1 = "time"
    · rw [hat, hbt]
    · exfalso
      have h1 := List.idxOf_lt_length_iff.2 (mem_names hn hb hbt)
      have h2 := List.idxOf_eq_length (hat ▸ time_not_mem_names g : a.1 ∉ names g)
      omega
  · by_cases hbt : b.1 = "time"
    · exfalso
      have h1 := List.idxOf_lt_length_iff.2 (mem_names hn ha hat)
      have h2 := List.idxOf_eq_length (hbt ▸ time_not_mem_names g : b.1 ∉ names g)
      omega
    · exact idxOf_inj_of_mem (mem_names hn ha hat) (mem_names hn hb hbt) e'

/-! ## §12 the main statements, at lemma level -/

/-- table import: acceptance + the documented preconditions ⇒ `GOK` -/
theorem gok_of_importTable {enc : Enc} {reg : List String} {sp : List String} {nm : NameMap}
    {t : Table} {g : Graph} (h : importTable sp nm t = .ok g) (hok : NameMapOK nm)
    (hne : t.header ≠ []) (hrect : RectAll t)
    (hN : NonNeg g) (hT : Timed enc g) (hF : Forward enc g) (hB : Binary g)
    (hR : Registered reg g) (hK : KeyInj enc g) : GOK enc reg g := by
  obtain ⟨h1, h2, h3, h4, h5, h6⟩ := importTable_facts h
  exact gok_of h1 h2 h3 h4 h5 (h6 hok hne hrect) hN hT hF hB hR hK

/-- GEFF import: the store may contain merges, so `OneParent` is a hypothesis -/
theorem gok_of_importGeff {enc : Enc} {reg : List String} {sp : List String} {nm : NameMap}
    {header : List String} {nodes : List (Int × Attrs)} {edges : List (Int × Int)} {g : Graph}
    (h : importGeff sp nm header nodes edges = .ok g) (hok : NameMapOK nm)
    (hne : header ≠ []) (hrect : ∀ n ∈ nodes, Rect header n.2) (hO : OneParent g)
    (hN : NonNeg g) (hT : Timed enc g) (hF : Forward enc g) (hB : Binary g)
    (hR : Registered reg g) (hK : KeyInj enc g) : GOK enc reg g := by
  obtain ⟨h1, h2, h3, h4, h6⟩ := importGeff_facts h
  exact gok_of h1 h2 h3 h4 hO (h6 hok hne hrect) hN hT hF hB hR hK

/-! ## §13 the preconditions read on the TABLE -/

/-- the time of a row: the cell of the column mapped to `time`, decoded -/
def rowTime (dec : Tok → Option Nat) (nm : NameMap) (r : Row) : Option Nat :=
  match alook "time" nm with
  | some (.one c) =>
    (match alook c r.cells with
     | some (.sc tok) => dec tok
     | _ => none)
  | _ => none

/-- the node the parent cell of a row names (`none`: no parent) — what the importer makes of it -/
def rowParent (t : Table) (r : Row) : Option Int :=
  match resolveParent t r.parent with
  | .ok p => p
  | .error _ => none

/-- `r'` is the parent row of `r` -/
def IsParentRow (t : Table) (r' r : Row) : Prop :=
  (rowParent t r).isSome = true ∧ rowParent t r = newId t r'.id

instance (t : Table) (r' r : Row) : Decidable (IsParentRow t r' r) := by
  unfold IsParentRow; exact inferInstance

/-- every time cell is readable -/
def TTimed (dec : Tok → Option Nat) (nm : NameMap) (t : Table) : Prop :=
  ∀ r ∈ t.rows, (rowTime dec nm r).isSome = true
/-- every link of the table goes strictly forward in time -/
def TForward (dec : Tok → Option Nat) (nm : NameMap) (t : Table) : Prop :=
  ∀ r ∈ t.rows, ∀ r' ∈ t.rows, IsParentRow t r' r →
    (rowTime dec nm r').getD 0 < (rowTime dec nm r).getD 0
/-- every row is the parent of at most two rows -/
def TBinary (t : Table) : Prop :=
  ∀ r' ∈ t.rows, (t.rows.filter (fun r => decide (IsParentRow t r' r))).length ≤ 2
/-- an integer id column holds non-negative ids -/
def TNonNeg (t : Table) : Prop := t.intIds = true → ∀ r ∈ t.rows, 0 ≤ (tokInt r.id).getD 0

instance (dec : Tok → Option Nat) (nm : NameMap) (t : Table) : Decidable (TTimed dec nm t) := by
  unfold TTimed; exact inferInstance
instance (dec : Tok → Option Nat) (nm : NameMap) (t : Table) : Decidable (TForward dec nm t) := by
  unfold TForward; exact inferInstance
instance (t : Table) : Decidable (TBinary t) := by unfold TBinary; exact inferInstance
instance (t : Table) : Decidable (TNonNeg t) := by unfold TNonNeg; exact inferInstance

/-- the resolved row -/
def irowOf (t : Table) (r : Row) : IRow := ⟨(newId t r.id).getD 0, rowParent t r, r.cells⟩

theorem loadRows_eq_map {t : Table} {irows : List IRow} (h : loadRows t = .ok irows) :
    irows = t.rows.map (irowOf t) ∧ ∀ r ∈ t.rows, newId t r.id = some (irowOf t r).id := by
  obtain ⟨_, hlen, hidx, _⟩ := loadRows_spec t irows h
  constructor
  · apply List.ext_getElem?
    intro i
    rw [List.getElem?_map]
    cases hr : t.rows[i]? with
    | none =>
      have : irows[i]? = none := by
        rw [List.getElem?_eq_none_iff] at hr ⊢
        omega
      rw [this]; rfl
    | some r =>
      obtain ⟨ir, h1, h2, h3, h4⟩ := hidx i r hr
      rw [h1]
      simp only [Option.map_some, Option.some.injEq]
      obtain ⟨a, b, c⟩ := ir
      simp only at h2 h3 h4
      simp only [irowOf, rowParent, ← h2, h4, h3, Option.getD_some]
  · intro r hr
    obtain ⟨i, hi⟩ := List.getElem?_of_mem hr
    obtain ⟨ir, _, h2, _, _⟩ := hidx i r hi
    simp only [irowOf, ← h2, Option.getD_some]

/-- the importer's result in terms of the rows -/
theorem importTable_rows {sp : List String} {nm : NameMap} {t : Table} {g : Graph}
    (h : importTable sp nm t = .ok g) :
    validateNameMap csvRequired t.header sp nm = .ok () ∧
    g.nodes = t.rows.map (fun r => ((irowOf t r).id, nodeAttrs t.header nm csvPops r.cells)) ∧
    g.edges = t.rows.filterMap (fun r => (rowParent t r).map (fun p => (p, (irowOf t r).id))) ∧
    ((t.rows.map (fun r => (irowOf t r).id)).Nodup) ∧
    (∀ r ∈ t.rows, newId t r.id = some (irowOf t r).id) := by
  obtain ⟨irows, hv, hl, hn, he, hnd, _, _⟩ := importTable_ok sp nm t g h
  obtain ⟨hm, hid⟩ := loadRows_eq_map hl
  subst hm
  refine ⟨hv, ?_, ?_, ?_, hid⟩
  · rw [hn]; simp [List.map_map, Function.comp_def, irowOf]
  · rw [he]; unfold linksOf
    rw [List.filterMap_map]
    rfl
  · rw [hn] at hnd
    simpa [List.map_map, Function.comp_def] using hnd

theorem gTime_nodeAttrs {dec : Tok → Option Nat} {enc : Enc} (he : enc.time = dec)
    {header sp : List String} {nm : NameMap} {r : Row} {k : Nat}
    (hv : validateNameMap csvRequired header sp nm = .ok ()) (hok : NameMapOK nm) (hne : header ≠ [])
    (hk : rowTime dec nm r = some k) : gTime enc (nodeAttrs header nm csvPops r.cells) = some k := by
  obtain ⟨_, _, hcols⟩ := Import.vnm_ok _ _ _ _ hv
  unfold rowTime at hk
  cases hp : alook "time" nm with
  | none => rw [hp] at hk; cases hk
  | some src =>
    rw [hp] at hk
    cases src with
    | many cs => cases hk
    | one c =>
      simp only at hk
      have hmem := Import.mem_of_alook "time" _ nm hp
      have hc : c ∈ header := hcols hne _ hmem c (by simp [Src.cols])
      unfold gTime
      rw [nodeAttrs_one header nm csvPops r.cells hok "time" c hmem hc (by decide), he]
      exact hk

theorem length_filter_filterMap_parent {α} (par : α → Option Int) (idf : α → Int) (u : Int) :
    ∀ l : List α,
      ((l.filterMap (fun r => (par r).map (fun p => (p, idf r)))).filter (fun e => e.1 == u)).length =
        (l.filter (fun r => par r == some u)).length := by
  intro l
  induction l with
  | nil => rfl
  | cons x l ih =>
    rw [List.filterMap_cons]
    cases hp : par x with
    | none =>
      simp only [Option.map_none]
      rw [ih, List.filter_cons]
      simp [hp]
    | some p =>
      simp only [Option.map_some]
      rw [List.filter_cons, List.filter_cons]
      by_cases e : p = u
      · subst e; simp [hp, ih]
      · have h1 : ((p, idf x).1 == u) = false := by simpa using e
        have h2 : (par x == some u) = false := by rw [hp]; simpa using e
        simp only [h1, h2, Bool.false_eq_true, if_false]
        exact ih

/-- **the table-level preconditions give the graph-level ones** -/
theorem graph_pre_of_table {enc : Enc} {dec : Tok → Option Nat} (hdec : enc.time = dec)
    {sp : List String} {nm : NameMap} {t : Table} {g : Graph}
    (h : importTable sp nm t = .ok g) (hok : NameMapOK nm) (hne : t.header ≠ [])
    (hN : TNonNeg t) (hT : TTimed dec nm t) (hF : TForward dec nm t) (hB : TBinary t) :
    NonNeg g ∧ Timed enc g ∧ Forward enc g ∧ Binary g := by
  obtain ⟨hv, hn, he, hnd, hid⟩ := importTable_rows h
  have htime : ∀ r ∈ t.rows,
      gTime enc (nodeAttrs t.header nm csvPops r.cells) = some ((rowTime dec nm r).getD 0) := by
    intro r hr
    obtain ⟨k, hk⟩ := Option.isSome_iff_exists.1 (hT r hr)
    rw [hk]
    exact gTime_nodeAttrs hdec hv hok hne hk
  refine ⟨?_, ?_, ?_, ?_⟩
  · cases hi : t.intIds with
    | false => exact importTable_nonneg_of_renumbered h hi
    | true =>
      intro n hn'
      rw [hn] at hn'
      obtain ⟨r, hr, rfl⟩ := List.mem_map.1 hn'
      have := hN hi r hr
      show 0 ≤ (irowOf t r).id
      unfold irowOf newId
      simp only [hi, if_true]
      exact this
  · intro n hn'
    rw [hn] at hn'
    obtain ⟨r, hr, rfl⟩ := List.mem_map.1 hn'
    simp only [htime r hr, Option.isSome_some]
  · intro e he' n hn' m hm' e1 e2
    rw [hn] at hn' hm'
    obtain ⟨r', hr', rfl⟩ := List.mem_map.1 hn'
    obtain ⟨r'', hr'', rfl⟩ := List.mem_map.1 hm'
    rw [he] at he'
    obtain ⟨r, hr, hpe⟩ := List.mem_filterMap.1 he'
    obtain ⟨p, hp, hpe'⟩ := Option.map_eq_some_iff.1 hpe
    simp only at e1 e2
    have hr2 : r'' = r := by
      apply eq_of_map_nodup hnd hr'' hr
      rw [e2, ← hpe']
    subst hr2
    simp only [htime r' hr', htime r'' hr'', Option.getD_some]
    apply hF r'' hr'' r' hr'
    refine ⟨by rw [hp]; rfl, ?_⟩
    rw [hid r' hr', hp, e1, ← hpe']
  · intro n hn'
    rw [hn] at hn'
    obtain ⟨r', hr', rfl⟩ := List.mem_map.1 hn'
    rw [he, length_filter_filterMap_parent]
    have := hB r' hr'
    have hcongr : t.rows.filter (fun r => decide (IsParentRow t r' r)) =
        t.rows.filter (fun r => rowParent t r == some (irowOf t r').id) := by
      apply List.filter_congr
      intro r _
      rw [Bool.eq_iff_iff]
      simp only [decide_eq_true_eq, beq_iff_eq]
      unfold IsParentRow
      rw [hid r' hr']
      constructor
      · exact fun h => h.2
      · intro h; exact ⟨by rw [h]; rfl, h⟩
    rw [hcongr] at this
    exact this

end Ft.R6I
