/-
  FtProofs.R3ALemmas — package R3A: the joint invariant `Valid` through a paint
  (`UserUpdateSegmentation`) and through every accepted session step.

  * `valid_of_BV` — `Valid` only reads the node cores (id, time, tid, lin), the edge list, the
    lookups with their maxima and the lineage flag; hence it survives `UpdateNodeSeg`,
    `UpdateNodeAttrs`, the caller's paint of the array and `commit`.
  * `uUpdateSeg_inv` — the composition argument of `C03_step_updateSeg_partial`, restated for an
    arbitrary invariant that is kept (not only "lets the forest survive") by the nested add-node
    called with the arguments the paint passes (`lin := none`).
  * `uUpdateSeg_valid`, `step_valid` — assembly.
  * `PF` / `uUpdateSeg_frame` — the frame clauses of a paint (loop invariant relative to the start
    state: connectivity only shrinks, far nodes survive and keep their ids).
  * `Joint`, `step_joint` — the joint graph / array invariant through accepted edits;
    `step_joint_all` — also through enable / disable / queries / nop (`JPre`);
    `enable_true_rpOK` — the node clause of `MeasOK` through `enable … true`.
  * `SameShape`, `step_shape` — frame size and length of the array through every accepted step.
  * `run`, `RunOK`, `run_valid` — runs of covered, non-refused operations.
  * `exJ`, `exP`, `exOps` — example state / stroke / run for the non-vacuity checks.
-/
import FtProofs.ForestLemmas
import FtProofs.BookLemmas
import FtProofs.TrackLemmas
import FtProofs.R2BLemmas
import FtProofs.R2CLemmas
import FtProofs.R2DLemmas
import FtProofs.R2FLemmas
import FtProofs.R2GLemmas
import FtProofs.Props.C03_R2C
import FtProofs.Props.C04_R2D
import FtProofs.Props.C08_R2G
import FtProofs.Props.C10_R2G

namespace Ft.R3A
open Ft Ft.St

/-! ### 1. `Valid` reads only cores, edge list, lookups -/

theorem valid_of_BV {s s' : St} (hbv : PC.BV s s') (he : s'.edgeList = s.edgeList)
    (hV : Valid s) : Valid s' := by
  have hnt : s'.nt = s.nt := by
    have := congrArg (List.map (fun c : Node × Nat × Nat × Option Nat => (c.1, c.2.1))) hbv.core
    simpa [nt, PC.ncore, List.map_map, Function.comp_def] using this
  have hGG : G s' = G s := by unfold G; rw [hnt, he]
  have hout : ∀ u, s'.outdeg u = s.outdeg u := fun u => by rw [outdeg_eq, outdeg_eq, he]
  obtain ⟨hT, hL⟩ := (PC.bookOK_iff s).1 hV.book
  have hhead : ∀ a, s'.IsHead a ↔ s.IsHead a := by
    intro a; unfold IsHead; rw [he, hbv.ids]
    constructor
    · rintro ⟨h1, h2⟩; exact ⟨h1, fun p hp => by rw [← hout]; exact h2 p hp⟩
    · rintro ⟨h1, h2⟩; exact ⟨h1, fun p hp => by rw [hout]; exact h2 p hp⟩
  have hroot : ∀ a, s'.IsRoot a ↔ s.IsRoot a := by
    intro a; unfold IsRoot; rw [he, hbv.ids]
  refine ⟨forest_congr hGG hV.forest, ⟨?_, ?_⟩, ⟨?_, ?_, ?_⟩,
    (PC.bookOK_iff s').2 ⟨hbv.TOK hT, hbv.LOK hL⟩, hbv.linOn.trans hV.linOn⟩
  · intro e hm ho
    rw [he] at hm; rw [hout] at ho
    rw [hbv.tidOf, hbv.tidOf]; exact hV.tid.along e hm ho
  · intro a b ha hb hne
    rw [hbv.tidOf, hbv.tidOf]
    exact hV.tid.heads a b ((hhead a).1 ha) ((hhead b).1 hb) hne
  · intro n hn; rw [hbv.ids] at hn; rw [hbv.linOf]; exact hV.lin.has n hn
  · intro e hm; rw [he] at hm; rw [hbv.linOf, hbv.linOf]; exact hV.lin.along e hm
  · intro a b ha hb hne
    rw [hbv.linOf, hbv.linOf]
    exact hV.lin.roots a b ((hroot a).1 ha) ((hroot b).1 hb) hne

theorem pUpdSeg_valid {s s' : St} {n : Node} {px : List Pix} {b : Bool} {r : PrimRec}
    (hV : Valid s) (h : s.pUpdSeg n px b = .ok (s', r)) : Valid s' :=
  valid_of_BV (PC.pUpdSeg_BV h) (G_es (pUpdSeg_G h)) hV

theorem pUpdAttrs_valid {s s' : St} {n : Node} {attrs : List (Key × Val)} {r : PrimRec}
    (hV : Valid s) (h : s.pUpdAttrs n attrs = .ok (s', r)) : Valid s' :=
  valid_of_BV (PC.pUpdAttrs_BV h) (G_es (pUpdAttrs_G h)) hV

theorem uUpdateAttrs_valid {s : St} {n : Node} {attrs : List (Key × Val)} {recs : List PrimRec}
    (hV : Valid s) (h : (s.uUpdateAttrs n attrs).2 = .ok recs) : Valid (s.uUpdateAttrs n attrs).1 := by
  unfold uUpdateAttrs at h ⊢
  obtain ⟨r0, s', r, -, h1, h2, -⟩ := thenPrim_ok h
  rw [h2]; exact pUpdAttrs_valid hV h1

/-- the caller's paint of the array does not touch what `Valid` reads -/
theorem valid_withSeg {s : St} (hV : Valid s) (g : Option Seg) : Valid { s with seg := g } :=
  valid_of_BV (s := s) (s' := { s with seg := g }) ⟨rfl, rfl, rfl, rfl, rfl, rfl⟩ rfl hV

/-! ### 2. the composition argument of a paint for an arbitrary invariant -/

theorem uUpdateSeg_inv (I : St → Prop)
    (hDel : ∀ st n px r, I st → (st.uDeleteNode n px).2 = .ok r → I (st.uDeleteNode n px).1)
    (hSeg : ∀ st st' n px b r, I st → st.pUpdSeg n px b = .ok (st', r) → I st')
    (hAdd : ∀ st (a : AddNodeArgs) r, I st → a.lin = none → (st.uAddNode a).2 = .ok r →
      I (st.uAddNode a).1)
    {s : St} {newValue : Nat} {groups : List (List Pix × Nat)} {curTid : Nat} {force : Bool}
    {recs : List PrimRec} (hI : I s)
    (h : (s.uUpdateSeg newValue groups curTid force).1.2 = .ok recs) :
    I (s.uUpdateSeg newValue groups curTid force).1.1 := by
  revert recs
  change IOk I (s.uUpdateSeg newValue groups curTid force).1
  rw [uUpdateSeg_eq]
  have ierr : ∀ (st : St) (e : Err), IOk I (st, .error e) := fun _ e r h => by cases h
  split
  · exact ierr _ _
  · simp only []
    have hloop : IOk I (groups.foldl paintStep (s, .ok [])) := by
      apply foldl_inv (IOk I)
      · exact fun _ _ => hI
      · intro acc grp hacc
        unfold paintStep
        split
        · exact hacc
        · split
          · exact hacc
          · split
            · simp only []
              split
              · intro r hr
                obtain ⟨r0, r1, h0, h1, h2, -⟩ := thenUser_ok hr
                rw [h2]; exact hDel _ _ _ _ (hacc _ h0) h1
              · intro r hr
                obtain ⟨r0, st', r1, h0, h1, h2, -⟩ := thenPrim_ok hr
                rw [h2]; exact hSeg _ _ _ _ _ _ (hacc _ h0) h1
            · exact ierr _ _
    generalize groups.foldl paintStep (s, .ok []) = a0 at hloop ⊢
    rcases h0 : a0.2 with e | recs0
    · exact ierr _ _
    · simp only []
      have hI0 : I a0.1 := hloop _ h0
      unfold paintFinal
      split
      · simp only []
        split
        · split
          · intro r hr
            obtain ⟨r0, st', r1, -, h1, h2, -⟩ := thenPrim_ok hr
            rw [h2]; exact hSeg _ _ _ _ _ _ hI0 h1
          · split
            · rename_i recs' hr
              intro _ _
              exact hAdd _ _ _ hI0 rfl hr
            · exact ierr _ _
        · exact ierr _ _
      · exact fun _ _ => hI0

/-- accepted `UserUpdateSegmentation` preserves `Valid` — no stroke precondition is needed -/
theorem uUpdateSeg_valid {s : St} {v : Nat} {groups : List (List Pix × Nat)} {tid : Nat}
    {force : Bool} {recs : List PrimRec} (hV : Valid s)
    (h : (s.uUpdateSeg v groups tid force).1.2 = .ok recs) :
    Valid (s.uUpdateSeg v groups tid force).1.1 :=
  uUpdateSeg_inv Valid
    (fun _ _ _ _ hI hk => (R2C.uDeleteNode_post hI hk).2.valid)
    (fun _ _ _ _ _ _ hI hk => pUpdSeg_valid hI hk)
    (fun _ _ _ hI hl hk => R2D.uAddNode_valid hI hl hk) hV h

/-! ### 3. session level -/

theorem valid_commit' {r : UOut} {p : Option Node} (h : ∀ recs, r.2 = .ok recs → Valid r.1)
    (hne : ∀ e, (commit r p).2 ≠ .err e) : Valid (commit r p).1 := by
  unfold commit at hne ⊢
  rcases hr : r.2 with e | recs
  · rw [hr] at hne; exact absurd rfl (hne e)
  · simp only []
    exact R2D.valid_commit_fields (h recs hr) _ _ _

/-- the side conditions under which `Valid` is preserved by a session operation: add-node lets
    the action choose the lineage (what every caller does), the lineage feature is not switched
    off; undo / redo are not covered here (they need the inverse laws of C01) -/
def StepOK : Op → Prop
  | .addNode a => a.lin = none
  | .disable ks => keyLin ∉ ks
  | .undo => False
  | .redo => False
  | _ => True

instance (op : Op) : Decidable (StepOK op) := by
  cases op <;> unfold StepOK <;> infer_instance

theorem paint_valid {s : St} {v : Nat} {groups : List (List Pix × Nat)} {tid : Nat} {f : Bool}
    (hV : Valid s) (hne : ∀ e, (s.step (.paint v groups tid f)).2 ≠ .err e) :
    Valid (s.step (.paint v groups tid f)).1 := by
  simp only [St.step] at hne ⊢
  split
  · exact hV
  · rename_i g hg
    simp only [hg] at hne
    generalize hsP : ({ s with seg := some (g.setPixels
      (groups.flatMap (fun (grp : List Pix × Nat) => grp.1)) v) } : St) = sP at hne ⊢
    have hVP : Valid sP := hsP ▸ valid_withSeg hV _
    have hU := @uUpdateSeg_valid sP v groups tid f
    generalize sP.uUpdateSeg v groups tid f = out at hne hU ⊢
    obtain ⟨r, sel⟩ := out
    simp only at hne hU ⊢
    rcases hr : r.2 with e | recs
    · simp only [hr] at hne
      split at hne
      · exact absurd rfl (hne e)
      · exact absurd rfl (hne e)
    · simp only [hr] at hne ⊢
      exact valid_commit' (fun recs' h' => hU hVP h') hne

theorem step_valid {s : St} {op : Op} (hV : Valid s) (hop : StepOK op)
    (hne : ∀ e, (s.step op).2 ≠ .err e) : Valid (s.step op).1 := by
  cases op with
  | addEdge e f => exact valid_commit' (fun _ h => R2B.valid_add hV h) hne
  | delEdge e => exact valid_commit' (fun _ h => R2B.valid_del hV h) hne
  | addNode a => exact valid_commit' (fun _ h => R2D.uAddNode_valid hV hop h) hne
  | delNode n => exact valid_commit' (fun _ h => (R2C.uDeleteNode_post hV h).2.valid) hne
  | swap a b => exact valid_commit' (fun _ h => R2B.valid_swap hV h) hne
  | paint v groups tid f => exact paint_valid hV hne
  | updAttrs n attrs => exact valid_commit' (fun _ h => uUpdateAttrs_valid hV h) hne
  | undo => exact absurd hop id
  | redo => exact absurd hop id
  | enable ks rc =>
    show (match s.enable ks rc with | some s' => (s', Out.ok) | none => (s, Out.err Err.key)).1.Valid
    cases h : s.enable ks rc with
    | none => exact hV
    | some s' => exact R2F.enable_valid hV h
  | disable ks =>
    show (match s.disable ks with | some s' => (s', Out.ok) | none => (s, Out.err Err.key)).1.Valid
    cases h : s.disable ks with
    | none => exact hV
    | some s' => exact R2F.disable_valid hV hop h
  | qNeighbors tid time => exact R2D.valid_trackNeighbors hV tid time
  | qHasTrack tid time => exact hV
  | qNewIds n =>
    exact valid_of_BV (s := s) (s' := (s.newNodeIds n).1) ⟨rfl, rfl, rfl, rfl, rfl, rfl⟩ rfl hV
  | nop => exact hV

/-! ### 4. frame clauses of a paint -/

theorem conn_mono {s s' : St} (hi : ∀ x, x ∈ s'.ids → x ∈ s.ids)
    (he : ∀ p c, (p, c) ∈ s'.edgeList → ∀ a, (s.Conn a p → s.Conn a c) ∧ (s.Conn a c → s.Conn a p))
    {a b : Node} (h : s'.Conn a b) : s.Conn a b := by
  induction h with
  | refl hn => exact Conn.refl _ (hi _ hn)
  | down p c _ hm ih => exact (he p c hm _).1 ih
  | up p c _ hm ih => exact (he p c hm _).2 ih

theorem conn_congr {s s' : St} (hi : s'.ids = s.ids) (he : s'.edgeList = s.edgeList) {a b : Node}
    (h : s'.Conn a b) : s.Conn a b :=
  conn_mono (fun _ hx => hi ▸ hx)
    (fun p c hm a => ⟨fun h => Conn.down a p c h (he ▸ hm), fun h => Conn.up a p c h (he ▸ hm)⟩) h

/-- deleting a node never connects what was not connected -/
theorem conn_uDeleteNode {s : St} (hV : Valid s) {n : Node} {px : Option (List Pix)}
    {recs : List PrimRec} (h : (s.uDeleteNode n px).2 = .ok recs) {a b : Node}
    (hc : (s.uDeleteNode n px).1.Conn a b) : s.Conn a b := by
  obtain ⟨hn, hP⟩ := R2C.uDeleteNode_post hV h
  obtain ⟨br, hbr, hE⟩ := hP.edges
  refine conn_mono (fun x hx => ((hP.ids x).1 hx).1) ?_ hc
  intro p c hm a
  rw [hE, List.mem_append] at hm
  rcases hm with hm | hm
  · have hm' : (p, c) ∈ s.edgeList := (List.mem_filter.1 hm).1
    exact ⟨fun h => Conn.down a p c h hm', fun h => Conn.up a p c h hm'⟩
  · rcases hbr with ⟨rfl, _⟩ | ⟨p', c', rfl, h1, h2, _⟩
    · cases hm
    · simp only [List.mem_singleton, Prod.mk.injEq] at hm
      obtain ⟨rfl, rfl⟩ := hm
      exact ⟨fun h => Conn.down a n c (Conn.down a p n h h1) h2,
             fun h => Conn.up a p n (Conn.up a n c h h2) h1⟩

/-- the running invariant of the group loop of a paint, relative to the start state `s` and the
    set `D` of labels whose nodes may be deleted -/
structure PF (s : St) (D : Node → Prop) (st : St) : Prop where
  valid : Valid st
  conn : ∀ a b, st.Conn a b → s.Conn a b
  ids : ∀ y, y ∈ s.ids → (∀ d, D d → ¬ s.Conn y d) → y ∈ st.ids
  keep : ∀ y, (∀ d, D d → ¬ s.Conn y d) → st.tidOf y = s.tidOf y ∧ st.linOf y = s.linOf y

theorem PF.start {s : St} (D : Node → Prop) (hV : Valid s) : PF s D s :=
  ⟨hV, fun _ _ h => h, fun _ h _ => h, fun _ _ => ⟨rfl, rfl⟩⟩

theorem PF.del {s : St} {D : Node → Prop} {st : St} (h : PF s D st) {n : Node}
    {px : Option (List Pix)} {recs : List PrimRec} (hD : D n)
    (hok : (st.uDeleteNode n px).2 = .ok recs) : PF s D (st.uDeleteNode n px).1 := by
  obtain ⟨hn, hP⟩ := R2C.uDeleteNode_post h.valid hok
  refine ⟨hP.valid, fun a b hc => h.conn a b (conn_uDeleteNode h.valid hok hc), ?_, ?_⟩
  · intro y hy hfar
    refine (hP.ids y).2 ⟨h.ids y hy hfar, ?_⟩
    rintro rfl
    exact hfar y hD (Conn.refl y hy)
  · intro y hfar
    have hx : ¬ st.Conn y n := fun hc => hfar n hD (h.conn y n hc)
    rw [C04_frame_deleteNode h.valid hok y hx, C05_frame_deleteNode h.valid hok y hx]
    exact h.keep y hfar

theorem PF.seg {s : St} {D : Node → Prop} {st st' : St} (h : PF s D st) {n : Node}
    {px : List Pix} {b : Bool} {r : PrimRec} (hok : st.pUpdSeg n px b = .ok (st', r)) :
    PF s D st' := by
  have hbv := PC.pUpdSeg_BV hok
  have he : st'.edgeList = st.edgeList := G_es (pUpdSeg_G hok)
  refine ⟨pUpdSeg_valid h.valid hok, fun a b hc => h.conn a b (conn_congr hbv.ids he hc), ?_, ?_⟩
  · intro y hy hfar; rw [hbv.ids]; exact h.ids y hy hfar
  · intro y hfar; rw [hbv.tidOf, hbv.linOf]; exact h.keep y hfar

theorem PF.loop {s : St} {D : Node → Prop} (gs : List (List Pix × Nat)) :
    ∀ acc : UOut, (∀ grp ∈ gs, (grp.2 == 0) = false → D grp.2) → IOk (PF s D) acc →
      IOk (PF s D) (gs.foldl paintStep acc) := by
  induction gs with
  | nil => intro acc _ h; exact h
  | cons grp gs ih =>
    intro acc hD hacc
    rw [List.foldl_cons]
    refine ih _ (fun g hg => hD g (List.mem_cons_of_mem _ hg)) ?_
    have ierr : ∀ (st : St) (e : Err), IOk (PF s D) (st, .error e) := fun _ e r h => by cases h
    unfold paintStep
    split
    · exact hacc
    · split
      · exact hacc
      · rename_i hz
        have hd : D grp.2 := hD grp List.mem_cons_self (by simpa using hz)
        split
        · simp only []
          split
          · intro r hr
            obtain ⟨r0, r1, h0, h1, h2, -⟩ := thenUser_ok hr
            rw [h2]; exact (hacc _ h0).del hd h1
          · intro r hr
            obtain ⟨r0, st', r1, h0, h1, h2, -⟩ := thenPrim_ok hr
            rw [h2]; exact (hacc _ h0).seg h1
        · exact ierr _ _

/-- frame clause of a paint, both ids at once: a node that is connected neither to the node of an
    overwritten (non-zero) label nor to a node of the requested track keeps its track id and its
    lineage id -/
theorem uUpdateSeg_frame {s : St} {v : Nat} {groups : List (List Pix × Nat)} {tid : Nat}
    {force : Bool} {recs : List PrimRec} (hV : Valid s)
    (hok : (s.uUpdateSeg v groups tid force).1.2 = .ok recs) (x : Node)
    (hxv : x ≠ v ∨ x ∈ s.ids)
    (hdel : ∀ grp ∈ groups, grp.2 ≠ 0 → ¬ s.Conn x grp.2)
    (hfar : ∀ m, s.tidOf m = some tid → ¬ s.Conn x m) :
    (s.uUpdateSeg v groups tid force).1.1.tidOf x = s.tidOf x ∧
    (s.uUpdateSeg v groups tid force).1.1.linOf x = s.linOf x := by
  let D : Node → Prop := fun d => d ≠ 0 ∧ ∃ grp ∈ groups, grp.2 = d
  have hxD : ∀ d, D d → ¬ s.Conn x d := by
    rintro d ⟨hd0, grp, hg, rfl⟩; exact hdel grp hg hd0
  revert hok
  rw [uUpdateSeg_eq]
  split
  · intro h; cases h
  · simp only []
    have hloop : IOk (PF s D) (groups.foldl paintStep (s, .ok [])) :=
      PF.loop groups _ (fun grp hg hz => ⟨by simpa using hz, grp, hg, rfl⟩)
        (fun _ _ => PF.start D hV)
    generalize groups.foldl paintStep (s, .ok []) = a0 at hloop ⊢
    rcases h0 : a0.2 with e | recs0
    · intro h; cases h
    · simp only []
      have hP : PF s D a0.1 := hloop _ h0
      unfold paintFinal
      split
      · simp only []
        split
        · rename_i g p0 hg hp0
          split
          · intro hr
            obtain ⟨r0, st', r1, -, h1, h2, -⟩ := thenPrim_ok hr
            rw [h2]
            exact (hP.seg h1).keep x hxD
          · rename_i hnode
            split
            · rename_i recs' hr
              intro _
              simp only []
              have hxn : x ≠ v := by
                rcases hxv with h | h
                · exact h
                · rintro rfl
                  exact hnode ((hasNode_iff _ _).2 (hP.ids x h hxD))
              have hF0 := hP.valid.forest
              obtain ⟨k1, k2⟩ := R2D.uAddNode_frame_conn hP.valid hr rfl rfl x hxn (by
                intro m hm hc
                have hcs : s.Conn x m := hP.conn x m hc
                have hmD : ∀ d, D d → ¬ s.Conn m d := fun d hd hmd => hxD d hd (hcs.trans hmd)
                have hmt : s.tidOf m = a0.1.tidOf m := ((hP.keep m hmD).1).symm
                unfold addTid at hm
                split at hm
                · have := hP.valid.book.t_max m _ hm
                  unfold nextTid at this; omega
                · exact hfar m (hmt.trans hm) hcs)
              rw [k1, k2]; exact hP.keep x hxD
            · intro h; cases h
        · intro h; cases h
      · intro _; exact hP.keep x hxD

/-! ### 5. the joint graph / array invariant through accepted edits -/

/-- everything the session properties C03–C08 ask of a state with an array of frame size `f`:
    a valid tracking solution, labels and nodes in one-to-one correspondence, non-zero ids, every
    stored regionprops value current, and only available regionprops keys active -/
structure Joint (s : St) (f : Nat) : Prop where
  valid : Valid s
  seg : ∃ g, s.seg = some g ∧ g.frame = f
  segOK : SegOK s
  ne0 : ∀ r ∈ s.nodes, r.id ≠ 0
  rp : RpOK s
  avail : ∀ k ∈ s.rpActive, k ∈ s.rpAvail

/-- the seven top-level edit operations -/
def isEdit : Op → Bool
  | .addEdge .. | .delEdge .. | .addNode .. | .delNode .. | .swap .. | .paint .. | .updAttrs .. => true
  | _ => false

theorem commit_ok_full {r : UOut} {p : Option Node} {s' : St} (h : commit r p = (s', .ok)) :
    ∃ recs, r.2 = .ok recs ∧ s'.nodes = r.1.nodes ∧ s'.seg = r.1.seg ∧
      s'.rpActive = r.1.rpActive ∧ s'.rpAvail = r.1.rpAvail := by
  unfold St.commit at h
  split at h
  · rename_i recs hr
    simp only [Prod.mk.injEq, and_true] at h
    subst h; exact ⟨recs, hr, rfl, rfl, rfl, rfl⟩
  · simp only [Prod.mk.injEq] at h; exact absurd h.2 (by simp)

theorem avail_of_cfg {s t : St} (h : t.cfg = s.cfg) (ha : ∀ k ∈ s.rpActive, k ∈ s.rpAvail) :
    ∀ k ∈ t.rpActive, k ∈ t.rpAvail := by
  simp only [cfg, Prod.mk.injEq] at h
  obtain ⟨-, -, -, -, -, -, -, h1, h2, -⟩ := h
  rw [h1, h2]; exact ha

theorem Fc.ne0 {s s' : St} (h : R2G.Fc s s') (h0 : ∀ r ∈ s.nodes, r.id ≠ 0) :
    ∀ r ∈ s'.nodes, r.id ≠ 0 := by
  intro r' hr'
  obtain ⟨r, hr, hc⟩ := h.mem hr'
  simp only [core, Prod.mk.injEq] at hc
  rw [← hc.1]; exact h0 r hr

theorem paint_ok_avail {s s' : St} {v : Nat} {groups : List (List Pix × Nat)} {tid : Nat}
    {force : Bool} {g : Seg} (hg : s.seg = some g)
    (h : s.step (.paint v groups tid force) = (s', .ok)) (ha : ∀ k ∈ s.rpActive, k ∈ s.rpAvail) :
    ∀ k ∈ s'.rpActive, k ∈ s'.rpAvail := by
  rw [step_paint_eq_sg hg] at h
  have hcfg := cfg_uUpdateSeg (s.withSeg (g.setPixels (groups.flatMap (·.1)) v)) v groups tid force
  generalize (s.withSeg (g.setPixels (groups.flatMap (·.1)) v)).uUpdateSeg v groups tid force = U
    at h hcfg
  split at h
  · obtain ⟨recs', -, -, -, e3, e4⟩ := commit_ok_full h
    rw [e3, e4]
    exact avail_of_cfg (s := s) (hcfg.trans rfl) ha
  · split at h <;> (simp only [Prod.mk.injEq] at h; exact absurd h.2 (by simp))

/-- `RpOK` through an accepted `uDeleteNode` that computes the pixels itself -/
theorem uDeleteNode_rpOK {s : St} {n : Node} {recs : List PrimRec} (h0 : ∀ r ∈ s.nodes, r.id ≠ 0)
    (hm : RpOK s) (hr : (s.uDeleteNode n none).2 = .ok recs) : RpOK (s.uDeleteNode n none).1 := by
  obtain ⟨st, r, hfc, hd⟩ := R2G.uDeleteNode_okc hr
  refine C08_meas_step_delNode st _ n none r (hfc.rpOK hm) ?_ hd
  intro ps g hps hg r' hr' hne
  refine ⟨Fc.ne0 hfc h0 r' hr', ?_⟩
  intro p hp _
  rcases ht : st.timeOf n with _ | t
  · simp [delPixels, getPixels, hg, ht] at hps
  · simp only [delPixels, getPixels, hg, ht, Option.some.injEq] at hps
    subst hps
    rw [(Seg.mem_pixelsOf.mp hp).2.2]; exact fun e => hne e.symm

/-- `RpOK` through an accepted `uAddNode` that paints on background (or its own label) -/
theorem uAddNode_rpOK {s : St} {a : AddNodeArgs} {recs : List PrimRec} {g : Seg}
    (hnd : s.ids.Nodup) (h0 : ∀ r ∈ s.nodes, r.id ≠ 0) (hg : s.seg = some g) (hm : RpOK s)
    (hbg : ∀ px, a.pixels = some px → ∀ p ∈ px, p < g.data.length →
      g.data.getD p 0 = 0 ∨ g.data.getD p 0 = a.node)
    (hr : (s.uAddNode a).2 = .ok recs) : RpOK (s.uAddNode a).1 := by
  obtain ⟨time, tid, lin, st, s2, r, -, hnew, hfc1, hadd, hfc2⟩ := R2G.uAddNode_okc hr
  have hnew' : st.hasNode a.node = false := by rw [hfc1.hasNode]; exact hnew
  refine hfc2.rpOK (C08_meas_step_addNode st s2 _ a.pixels r (by rw [hfc1.ids]; exact hnd) hnew'
    (hfc1.rpOK hm) ?_ hadd)
  intro ps g' hps hg' r' hr'
  rw [hfc1.seg, hg] at hg'; cases hg'
  have hne : r'.id ≠ a.node := by
    intro e
    have : st.hasNode a.node = true := by
      rw [hasNode_iff_mem_ids_sg]; exact e ▸ List.mem_map.mpr ⟨r', hr', rfl⟩
    rw [hnew'] at this; cases this
  refine ⟨hne, ?_⟩
  intro p hp hlt
  rcases hbg ps hps p hp hlt with h | h
  · rw [h]; exact fun e => Fc.ne0 hfc1 h0 r' hr' e.symm
  · rw [h]; exact fun e => hne e.symm

theorem step_joint {s s' : St} {op : Op} {f : Nat} {g : Seg} (hJ : Joint s f) (hf : 0 < f)
    (hg : s.seg = some g) (hed : isEdit op = true) (hop : StepOK op) (hpre : R2G.StepPre s g op)
    (h : s.step op = (s', .ok)) : Joint s' f := by
  obtain ⟨g0, hg0, hgf⟩ := hJ.seg
  rw [hg] at hg0; cases hg0
  have hnd : s.ids.Nodup := hJ.valid.forest.nodup_nodes
  have hV : Valid s' := by
    have := step_valid (op := op) hJ.valid hop (by rw [h]; intro e he; cases he)
    rwa [h] at this
  obtain ⟨c1, -, c3, g', c4, c5⟩ := C07_step s s' op g hg (hgf ▸ hf) hnd hJ.ne0 hJ.segOK hpre h
  suffices RpOK s' ∧ ∀ k ∈ s'.rpActive, k ∈ s'.rpAvail from
    ⟨hV, ⟨g', c4, c5.trans hgf⟩, c1, c3, this.1, this.2⟩
  have fin : ∀ {r : UOut} {p : Option Node}, commit r p = (s', .ok) → r.1.cfg = s.cfg →
      (∀ recs, r.2 = .ok recs → RpOK r.1) →
      RpOK s' ∧ ∀ k ∈ s'.rpActive, k ∈ s'.rpAvail := by
    intro r p hc hcfg hrp
    obtain ⟨recs, hr, e1, e2, e3, e4⟩ := commit_ok_full hc
    refine ⟨rpOK_congr e2 e1 e3 (hrp recs hr), ?_⟩
    rw [e3, e4]; exact avail_of_cfg hcfg hJ.avail
  cases op with
  | addEdge e fo =>
    exact fin h (cfg_uAddEdge s e fo) (fun _ hr => (R2G.uAddEdge_okc hr).rpOK hJ.rp)
  | delEdge e =>
    exact fin h (cfg_uDeleteEdge s e) (fun _ _ => (R2G.Fc.uDeleteEdge s e).rpOK hJ.rp)
  | swap a b =>
    exact fin h (cfg_uSwap s a b) (fun _ hr => (R2G.uSwap_okc hr).rpOK hJ.rp)
  | updAttrs n attrs =>
    refine fin h (cfg_uUpdateAttrs s n attrs) (fun _ hr => ?_)
    unfold uUpdateAttrs at hr ⊢
    obtain ⟨r0, st', r1, -, h1, h2, -⟩ := thenPrim_ok hr
    rw [h2]; exact C08_meas_step_updAttrs s st' n attrs r1 hJ.rp hJ.avail h1
  | delNode n =>
    exact fin h (cfg_uDeleteNode s n none) (fun _ hr => uDeleteNode_rpOK hJ.ne0 hJ.rp hr)
  | addNode a =>
    obtain ⟨-, px, t, hpx, -, hbg, -⟩ := hpre
    refine fin h (cfg_uAddNode s a) (fun _ hr => uAddNode_rpOK hnd hJ.ne0 hg hJ.rp ?_ hr)
    intro px' hpx' p hp hlt
    rw [hpx] at hpx'; cases hpx'
    exact (hbg p hp hlt).1
  | paint v groups tid fo =>
    obtain ⟨t0, hp⟩ := hpre
    refine ⟨C08_meas_step_paint s s' v groups tid fo g hg hnd hJ.ne0 hJ.rp
      (fun grp hm p hp' _ => hp.prev grp hm p hp') h, ?_⟩
    exact paint_ok_avail hg h hJ.avail
  | undo => cases hed
  | redo => cases hed
  | enable ks rc => cases hed
  | disable ks => cases hed
  | qNeighbors tid time => cases hed
  | qHasTrack tid time => cases hed
  | qNewIds n => cases hed
  | nop => cases hed

/-! ### 5b. the joint invariant through feature switching, queries and `nop` -/

/-- `Joint` only reads nodes, array, the active / available key lists — and `Valid` -/
theorem Joint.ofNodes {s s' : St} {f : Nat} (hJ : Joint s f) (hV : Valid s')
    (hn : s'.nodes = s.nodes) (hs : s'.seg = s.seg) (ha : s'.rpActive = s.rpActive)
    (hv : s'.rpAvail = s.rpAvail) : Joint s' f := by
  refine ⟨hV, by rw [hs]; exact hJ.seg, ?_, by rw [hn]; exact hJ.ne0, rpOK_congr hs hn ha hJ.rp,
    by rw [ha, hv]; exact hJ.avail⟩
  intro g hg
  rw [hs] at hg; rw [hn]; exact hJ.segOK g hg

theorem map_pair_eq {α β γ : Type} (f : α → β) (h : α → γ) :
    ∀ (l l' : List α), l'.map f = l.map f → l'.map h = l.map h →
      l'.map (fun x => (f x, h x)) = l.map (fun x => (f x, h x)) := by
  intro l
  induction l with
  | nil => intro l' h1 _; cases l' with
    | nil => rfl
    | cons _ _ => simp at h1
  | cons a l ih =>
    intro l' h1 h2
    cases l' with
    | nil => simp at h1
    | cons b l' =>
      simp only [List.map_cons, List.cons.injEq] at h1 h2 ⊢
      exact ⟨by rw [h1.1, h2.1], ih l' h1.2 h2.2⟩

/-- bulk regionprops never writes a key that was not requested -/
theorem col_rpCompute_notin {k : Key} {s : St} {keys : List Key} (h : k ∉ keys) :
    col k (s.rpCompute keys) = col k s := by
  unfold rpCompute
  split
  · rfl
  · simp only
    split
    · rfl
    · refine foldl_col k _ _ ?_ s
      intro a t _
      refine foldl_col k _ _ ?_ a
      intro b l _
      split
      · refine foldl_col k (fun st3 k' => st3.setOther l k' _) _ ?_ b
        intro c k' hk'
        have : k' ∈ keys := (List.mem_filter.mp hk').1
        exact col_setOther (fun hh => h (by rw [hh]; exact this)) _ _ _
      · rfl

theorem col_of_nodes {k : Key} {s s' : St} (h : s'.nodes = s.nodes) : col k s' = col k s := by
  unfold col; rw [h]

/-- the stages of `enableRecompute` after the bulk regionprops -/
def erTail (s2 : St) (b : Bool) (keys : List Key) : St :=
  let s3 := if b then s2.iouCompute else s2
  let s4 := if keys.contains keyTid then s3.assignTracklets else s3
  if keys.contains keyLin && s4.linOn then s4.assignLineages else s4

theorem enableRecompute_eq_tail (s1 : St) (keys : List Key) :
    enableRecompute s1 keys = erTail (s1.rpCompute keys)
      (match s1.iouKey with | some k => keys.contains k | none => false) keys := rfl

theorem col_erTail (k : Key) (s2 : St) (b : Bool) (keys : List Key) :
    col k (erTail s2 b keys) = col k s2 := by
  unfold erTail
  simp only
  have h3 : col k (if b = true then s2.iouCompute else s2) = col k s2 := by
    cases b
    · rfl
    · exact col_of_nodes (foldl_iouUpdateEdge_nodes _ _)
  generalize (if b = true then s2.iouCompute else s2) = s3 at h3 ⊢
  have h4 : col k (if keys.contains keyTid = true then s3.assignTracklets else s3) = col k s3 := by
    split
    · exact (R2G.Fc.ofFr (R2G.Fr.assignTracklets s3)).col k
    · rfl
  generalize (if keys.contains keyTid = true then s3.assignTracklets else s3) = s4 at h4 ⊢
  have h5 : col k (if (keys.contains keyLin && s4.linOn) = true then s4.assignLineages else s4)
      = col k s4 := by
    split
    · exact (R2G.Fc.ofFr (R2G.Fr.assignLineages s4)).col k
    · rfl
  rw [h5, h4, h3]

theorem col_enableRecompute_notin {k : Key} (s1 : St) {keys : List Key} (h : k ∉ keys) :
    col k (enableRecompute s1 keys) = col k s1 := by
  rw [enableRecompute_eq_tail, col_erTail]
  exact col_rpCompute_notin h

/-- the node clause of `MeasOK` through an accepted `enable … true` on whole frames -/
theorem enable_true_rpOK {s s' : St} {ks : List Key} {g : Seg} (hg : s.seg = some g) (hwf : g.WF)
    (hnd : s.ids.Nodup) (h0 : ∀ r ∈ s.nodes, r.id ≠ 0) (hseg : SegOK s) (hseg' : SegOK s')
    (hm : RpOK s) (ha : ∀ k ∈ s.rpActive, k ∈ s.rpAvail) (h : s.enable ks true = some s') :
    RpOK s' ∧ ∀ k ∈ s'.rpActive, k ∈ s'.rpAvail := by
  obtain ⟨c1, c2, -⟩ := C10_enable_current s s' ks g hg hwf hnd h0 hseg h
  have he := R2G.enable_true_eq h
  have hreg := reg_enableRecompute (enableReg s ks) ks
  simp only [reg, Prod.mk.injEq] at hreg
  have hact : s'.rpActive = (enableReg s ks).rpActive := by rw [he]; exact hreg.2.2.1
  have hav : s'.rpAvail = s.rpAvail := by rw [he]; exact hreg.2.2.2.2.2.1
  have hmem : ∀ k ∈ s'.rpActive, k ∈ s.rpActive ∨ (k ∈ ks ∧ k ∈ s.rpAvail) := by
    intro k hk
    rw [hact] at hk
    simp only [enableReg, List.mem_append, List.mem_eraseDups, List.mem_filter, Bool.and_eq_true,
      List.contains_eq_mem, decide_eq_true_eq] at hk
    rcases hk with hk | hk
    · exact Or.inl hk
    · exact Or.inr ⟨hk.1, hk.2.1⟩
  refine ⟨?_, ?_⟩
  · intro g' hg' k hk r' hr'
    rw [c1] at hg'; cases hg'
    have hpx : g.pixelsOf r'.time r'.id ≠ [] := (hseg' g c1).1 r' hr'
    by_cases hks : k ∈ ks
    · have hav' : k ∈ s.rpAvail := by
        rcases hmem k hk with h1 | h1
        · exact ha k h1
        · exact h1.2
      rw [(c2 k hks hav').2 r' hr']
      simp only [Seg.maskVal, hpx, if_false]
    · have hk0 : k ∈ s.rpActive := by
        rcases hmem k hk with h1 | h1
        · exact h1
        · exact absurd h1.1 hks
      obtain ⟨-, e2, -⟩ := R2G.enableRecompute_current (enableReg s ks) ks g hg hwf h0
        (R2G.labelsInFrame_of_segOK (s := enableReg s ks) hg hnd hseg)
      have e3 := col_enableRecompute_notin (enableReg s ks) hks
      rw [← he] at e2 e3
      have hp := map_pair_eq (fun r : NodeRec => (r.id, r.time)) (fun r : NodeRec => (r.id, alook k r.other))
        s.nodes s'.nodes e2 e3
      have : ((r'.id, r'.time), (r'.id, alook k r'.other)) ∈
          s'.nodes.map (fun x => ((x.id, x.time), (x.id, alook k x.other))) :=
        List.mem_map.mpr ⟨r', hr', rfl⟩
      rw [hp] at this
      obtain ⟨r, hr, hc⟩ := List.mem_map.mp this
      simp only [Prod.mk.injEq] at hc
      rw [← hc.1.1, ← hc.1.2, ← hc.2.2]
      exact hm g hg k hk0 r hr
  · intro k hk
    rw [hav]
    rcases hmem k hk with h1 | h1
    · exact ha k h1
    · exact h1.2

/-- what the array side needs of an operation: the stroke / add-node preconditions `StepPre`;
    `enable` with recompute wants whole frames, `enable` without recompute must not switch a new
    regionprops key on (its values would be missing: documented behaviour, not an obligation) -/
def JPre (s : St) (g : Seg) : Op → Prop
  | .enable ks rc => if rc = true then g.WF else ∀ k ∈ ks, k ∈ s.rpAvail → k ∈ s.rpActive
  | op => R2G.StepPre s g op

theorem edit_out {s : St} {op : Op} (hed : isEdit op = true) (hne : ∀ e, (s.step op).2 ≠ .err e) :
    (s.step op).2 = .ok := by
  have hc : ∀ (r : UOut) (p : Option Node), (∀ e, (commit r p).2 ≠ .err e) → (commit r p).2 = .ok := by
    intro r p hn
    unfold commit at hn ⊢
    split
    · rfl
    · rename_i e he
      simp only [he] at hn
      exact absurd rfl (hn e)
  cases op with
  | addEdge e fo => exact hc _ _ hne
  | delEdge e => exact hc _ _ hne
  | swap a b => exact hc _ _ hne
  | updAttrs n attrs => exact hc _ _ hne
  | delNode n => exact hc _ _ hne
  | addNode a => exact hc _ _ hne
  | paint v groups tid fo =>
    simp only [St.step] at hne ⊢
    split
    · rename_i hs; simp only [hs] at hne; exact absurd rfl (hne _)
    · rename_i g hs
      simp only [hs] at hne
      generalize ({ s with seg := some (g.setPixels
        (groups.flatMap (fun (grp : List Pix × Nat) => grp.1)) v) } : St).uUpdateSeg v groups tid fo
        = out at hne ⊢
      obtain ⟨r, sel⟩ := out
      simp only at hne ⊢
      rcases hr : r.2 with e | recs
      · simp only [hr] at hne
        split at hne <;> exact absurd rfl (hne e)
      · simp only [hr] at hne ⊢
        exact hc _ _ hne
  | undo => cases hed
  | redo => cases hed
  | enable ks rc => cases hed
  | disable ks => cases hed
  | qNeighbors tid time => cases hed
  | qHasTrack tid time => cases hed
  | qNewIds n => cases hed
  | nop => cases hed

/-- the joint invariant through every operation other than undo / redo that is not refused -/
theorem step_joint_all {s : St} {op : Op} {f : Nat} {g : Seg} (hJ : Joint s f) (hf : 0 < f)
    (hg : s.seg = some g) (hop : StepOK op) (hpre : JPre s g op)
    (hne : ∀ e, (s.step op).2 ≠ .err e) : Joint (s.step op).1 f := by
  have hV : Valid (s.step op).1 := step_valid hJ.valid hop hne
  have hnd : s.ids.Nodup := hJ.valid.forest.nodup_nodes
  have hedit : isEdit op = true → R2G.StepPre s g op → Joint (s.step op).1 f := by
    intro hed hp
    have := edit_out hed hne
    exact step_joint hJ hf hg hed hop hp (Prod.ext rfl this)
  cases op with
  | addEdge e fo => exact hedit rfl hpre
  | delEdge e => exact hedit rfl hpre
  | swap a b => exact hedit rfl hpre
  | updAttrs n attrs => exact hedit rfl hpre
  | delNode n => exact hedit rfl hpre
  | addNode a => exact hedit rfl hpre
  | paint v groups tid fo => exact hedit rfl hpre
  | undo => exact absurd hop id
  | redo => exact absurd hop id
  | nop => exact hJ
  | qHasTrack tid time => exact hJ
  | qNewIds n => exact hJ.ofNodes hV rfl rfl rfl rfl
  | qNeighbors tid time =>
    obtain ⟨e1, -, -⟩ := PC.trackNeighbors_state s tid time
    have hs : (s.step (.qNeighbors tid time)).1 = (s.trackNeighbors tid time).1 := rfl
    rw [hs] at hV ⊢
    rw [e1] at hV ⊢
    exact hJ.ofNodes hV rfl rfl rfl rfl
  | disable ks =>
    have hs : s.step (.disable ks) =
      (match s.disable ks with | some s' => (s', Out.ok) | none => (s, Out.err Err.key)) := rfl
    rw [hs] at hV ⊢
    cases hd : s.disable ks with
    | none => exact hJ
    | some s' =>
      simp only [hd] at hV ⊢
      unfold disable at hd
      split at hd
      · cases hd
      · simp only [Option.some.injEq] at hd
        subst hd
        refine ⟨hV, hJ.seg, hJ.segOK, hJ.ne0, ?_, ?_⟩
        · intro g' hg' k hk r hr
          exact hJ.rp g' hg' k (List.mem_filter.mp hk).1 r hr
        · intro k hk
          exact hJ.avail k (List.mem_filter.mp hk).1
  | enable ks rc =>
    have hs : s.step (.enable ks rc) =
      (match s.enable ks rc with | some s' => (s', Out.ok) | none => (s, Out.err Err.key)) := rfl
    have hstep := hs
    rw [hs] at hV ⊢
    cases hen : s.enable ks rc with
    | none => exact hJ
    | some s' =>
      simp only [hen] at hV hstep ⊢
      obtain ⟨g0, hg0, hgf⟩ := hJ.seg
      rw [hg] at hg0; cases hg0
      obtain ⟨c1, -, c3, g', c4, c5⟩ := C07_step s s' (.enable ks rc) g hg (hgf ▸ hf) hnd hJ.ne0
        hJ.segOK trivial hstep
      suffices RpOK s' ∧ ∀ k ∈ s'.rpActive, k ∈ s'.rpAvail from
        ⟨hV, ⟨g', c4, c5.trans hgf⟩, c1, c3, this.1, this.2⟩
      cases rc with
      | true =>
        simp only [JPre, if_true] at hpre
        exact enable_true_rpOK hg hpre hnd hJ.ne0 hJ.segOK c1 hJ.rp hJ.avail hen
      | false =>
        simp only [JPre, Bool.false_eq_true, if_false] at hpre
        cases hany : ks.any (fun k => !(s.annotKeys.contains k)) with
        | true => rw [enable_none s ks false hany] at hen; cases hen
        | false =>
          rw [enable_eq s ks false hany] at hen
          simp only [Bool.false_eq_true, if_false, Option.some.injEq] at hen
          subst hen
          have hmem : ∀ k ∈ (enableReg s ks).rpActive, k ∈ s.rpActive := by
            intro k hk
            simp only [enableReg, List.mem_append, List.mem_eraseDups, List.mem_filter,
              Bool.and_eq_true, List.contains_eq_mem, decide_eq_true_eq] at hk
            rcases hk with hk | hk
            · exact hk
            · exact hpre k hk.1 hk.2.1
          refine ⟨?_, fun k hk => hJ.avail k (hmem k hk)⟩
          intro g' hg' k hk r hr
          exact hJ.rp g' hg' k (hmem k hk) r hr

/-! ### 5c. the shape of the array -/

/-- same frame size and length (so whole frames stay whole frames) -/
def SameShape (a b : Option Seg) : Prop :=
  ∀ g, a = some g → ∃ g', b = some g' ∧ g'.frame = g.frame ∧ g'.data.length = g.data.length

theorem SameShape.refl (a : Option Seg) : SameShape a a := fun g h => ⟨g, h, rfl, rfl⟩
theorem SameShape.of_eq {a b : Option Seg} (h : b = a) : SameShape a b := h ▸ SameShape.refl a
theorem SameShape.trans {a b c : Option Seg} (h1 : SameShape a b) (h2 : SameShape b c) :
    SameShape a c := by
  intro g hg
  obtain ⟨g1, e1, f1, l1⟩ := h1 g hg
  obtain ⟨g2, e2, f2, l2⟩ := h2 g1 e1
  exact ⟨g2, e2, f2.trans f1, l2.trans l1⟩

theorem paintWith_shape (s : St) (px : Option (List Pix)) (v : Nat) :
    SameShape s.seg (s.paintWith px v).seg := by
  rcases paintWith_cases s px v with ⟨ps, g, -, hg, he⟩ | ⟨-, he⟩
  · rw [he]
    intro g0 hg0
    rw [hg] at hg0; cases hg0
    exact ⟨_, rfl, Seg.setPixels_frame .., Seg.setPixels_length ..⟩
  · rw [he]; exact SameShape.refl _

theorem addNodeRaw_seg (s : St) (r : NodeRec) : (s.addNodeRaw r).seg = s.seg := by
  unfold addNodeRaw; split <;> rfl

theorem pDelNode_shape {s s' : St} {n : Node} {px : Option (List Pix)} {rec : PrimRec}
    (h : s.pDelNode n px = .ok (s', rec)) : SameShape s.seg s'.seg := by
  obtain ⟨r, -, -, rfl⟩ := pDelNode_ok_sg h
  exact (paintWith_shape s _ 0).trans (SameShape.of_eq (Fr.trackOnDelete _ _).seg)

theorem pAddNode_shape {s s' : St} {r : NodeRec} {px : Option (List Pix)} {rec : PrimRec}
    (h : s.pAddNode r px = .ok (s', rec)) : SameShape s.seg s'.seg := by
  obtain ⟨-, -, rfl⟩ := pAddNode_ok_sg h
  refine (paintWith_shape s px r.id).trans (SameShape.of_eq ?_)
  rw [(Fr.trackAdd _ _).seg, rpUpdate_seg, addNodeRaw_seg]

/-- every accepted step keeps the array's shape (no hypothesis on the state) -/
theorem step_shape {s s' : St} {op : Op} (h : s.step op = (s', .ok)) : SameShape s.seg s'.seg := by
  have hc : ∀ {r : UOut} {p : Option Node}, commit r p = (s', .ok) →
      ∃ recs, r.2 = .ok recs ∧ s'.seg = r.1.seg := by
    intro r p hh
    obtain ⟨recs, hr, -, b, -⟩ := R2G.commit_ok hh
    exact ⟨recs, hr, b⟩
  cases op with
  | addEdge e f =>
    obtain ⟨recs, hr, hs⟩ := hc h
    exact SameShape.of_eq (hs.trans (R2G.uAddEdge_okc hr).seg)
  | delEdge e =>
    obtain ⟨recs, hr, hs⟩ := hc h
    exact SameShape.of_eq (hs.trans (R2G.Fc.uDeleteEdge s e).seg)
  | swap a b =>
    obtain ⟨recs, hr, hs⟩ := hc h
    exact SameShape.of_eq (hs.trans (R2G.uSwap_okc hr).seg)
  | updAttrs n attrs =>
    obtain ⟨recs, hr, hs⟩ := hc h
    exact SameShape.of_eq (hs.trans (R2G.Fs.uUpdateAttrs s n attrs).seg)
  | delNode n =>
    obtain ⟨recs, hr, hs⟩ := hc h
    obtain ⟨st, r, hfs1, hd⟩ := uDeleteNode_ok_sg hr
    exact ((SameShape.of_eq hfs1.seg).trans (pDelNode_shape hd)).trans (SameShape.of_eq hs)
  | addNode a =>
    obtain ⟨recs, hr, hs⟩ := hc h
    obtain ⟨time, tid, lin, st, s2, r, -, -, hfs1, hadd, hfs2⟩ := uAddNode_ok_sg hr
    exact ((SameShape.of_eq hfs1.seg).trans (pAddNode_shape hadd)).trans
      (SameShape.of_eq (hs.trans hfs2.seg))
  | paint v groups tid f =>
    intro g hg
    exact ⟨_, C07_as_painted s s' v groups tid f g hg h, Seg.setPixels_frame ..,
      Seg.setPixels_length ..⟩
  | undo =>
    have := congrArg Prod.snd h
    rw [step_undo_eq] at this
    exact absurd this (R2G.histCore_ne_ok s _ _)
  | redo =>
    have := congrArg Prod.snd h
    rw [step_redo_eq] at this
    exact absurd this (R2G.histCore_ne_ok s _ _)
  | enable ks rc =>
    simp only [St.step] at h
    split at h
    · rename_i s1 he
      simp only [Prod.mk.injEq, and_true] at h
      subst h
      exact SameShape.of_eq (R2G.Fs.enable he).seg
    · cases h
  | disable ks =>
    simp only [St.step] at h
    split at h
    · rename_i s1 hd
      simp only [Prod.mk.injEq, and_true] at h
      subst h
      exact SameShape.of_eq (R2G.Fs.disable hd).seg
    · cases h
  | qNeighbors tid time => simp [St.step] at h
  | qHasTrack tid time => simp [St.step] at h
  | qNewIds n => simp [St.step] at h
  | nop =>
    simp only [St.step, Prod.mk.injEq, and_true] at h
    subst h
    exact SameShape.refl _

theorem SameShape.wf {a b : Option Seg} (h : SameShape a b) {g : Seg} (hg : a = some g)
    (hwf : g.WF) : ∃ g', b = some g' ∧ g'.WF := by
  obtain ⟨g', e, f, l⟩ := h g hg
  exact ⟨g', e, by unfold Seg.WF at hwf ⊢; rw [f, l]; exact hwf⟩

/-! ### 5d. runs of accepted operations; undo / redo that answer `false` -/

theorem histCore_false {s : St} {r : Hist ActRec × St × Bool} {bad : Bool}
    (h : (histCore s r bad).2 = .bool false) : (histCore s r bad).1 = s := by
  unfold histCore at h ⊢
  cases bad
  · simp only [Bool.false_eq_true, if_false] at h ⊢
    split
    · rename_i hb; simp [hb] at h
    · rfl
  · simp at h

/-- undo / redo that answer `false` change nothing -/
theorem step_hist_false {s : St} {op : Op} (hop : op = .undo ∨ op = .redo)
    (h : (s.step op).2 = .bool false) : (s.step op).1 = s := by
  rcases hop with rfl | rfl
  · rw [step_undo_eq] at h ⊢; exact histCore_false h
  · rw [step_redo_eq] at h ⊢; exact histCore_false h

/-- run a list of operations, forgetting the answers -/
def run (s : St) (ops : List Op) : St := ops.foldl (fun st op => (st.step op).1) s

/-- every operation of the run is covered (`StepOK`) and is not refused -/
def RunOK (s : St) : List Op → Prop
  | [] => True
  | op :: ops => StepOK op ∧ (∀ e, (s.step op).2 ≠ .err e) ∧ RunOK (s.step op).1 ops

def notErr : Out → Bool
  | .err _ => false
  | _ => true

theorem notErr_iff (o : Out) : (∀ e, o ≠ .err e) ↔ notErr o = true := by
  cases o <;> simp [notErr]

instance (o : Out) : Decidable (∀ e, o ≠ .err e) := decidable_of_iff _ (notErr_iff o).symm

instance instDecRunOK : (s : St) → (ops : List Op) → Decidable (RunOK s ops)
  | _, [] => isTrue trivial
  | s, op :: ops =>
    have := instDecRunOK (s.step op).1 ops
    (inferInstance : Decidable (StepOK op ∧ (∀ e, (s.step op).2 ≠ .err e) ∧ RunOK (s.step op).1 ops))

theorem run_valid {ops : List Op} : ∀ {s : St}, Valid s → RunOK s ops → Valid (run s ops) := by
  induction ops with
  | nil => intro s hV _; exact hV
  | cons op ops ih =>
    intro s hV h
    exact ih (step_valid hV h.1 h.2.1) h.2.2

/-! ### 6. example state for the non-vacuity checks -/

/-- three frames of four pixels; track 1 = 1 → 2 → 4 (frames 0, 1, 2), node 3 alone in frame 0;
    regionprops key 5 active with current masks, key 6 available but off, key 9 a user attribute -/
def exJ : St :=
  { nodes := [{ id := 1, time := 0, tid := 1, lin := some 1, other := [(5, Val.mask [0, 1]), (9, Val.tok 3)] },
              { id := 2, time := 1, tid := 1, lin := some 1, other := [(5, Val.mask [4, 5, 6])] },
              { id := 3, time := 0, tid := 2, lin := some 2, other := [(5, Val.mask [3])] },
              { id := 4, time := 2, tid := 1, lin := some 1, other := [(5, Val.mask [8, 9])] }],
    edges := [{ e := (1, 2) }, { e := (2, 4) }],
    seg := some { frame := 4, data := [1, 1, 0, 3,  2, 2, 2, 0,  4, 4, 0, 0] },
    rpAvail := [5, 6], rpActive := [5], regNode := [5, 9],
    t2n := [(1, [1, 2, 4]), (2, [3])], l2n := [(1, [1, 2, 4]), (2, [3])],
    maxTid := 2, maxLin := 2, counter := 5 }

def exJg : Seg := { frame := 4, data := [1, 1, 0, 3,  2, 2, 2, 0,  4, 4, 0, 0] }

theorem exJ_valid : Valid exJ := R2D.validB_sound (by decide)

theorem exJ_segOK : SegOK exJ := by
  intro g hg
  have : g = exJg := by cases hg; rfl
  subst this
  decide

theorem exJ_rpOK : RpOK exJ := by
  intro g hg
  have : g = exJg := by cases hg; rfl
  subst this
  decide

/-- `exJ` after the caller painted `v` on the pixels of `groups` -/
def exP (v : Nat) (groups : List (List Pix × Nat)) : St :=
  { exJ with seg := some (exJg.setPixels (groups.flatMap (·.1)) v) }

theorem exP_valid (v : Nat) (groups : List (List Pix × Nat)) : (exP v groups).Valid :=
  valid_withSeg exJ_valid _

/-- paint (node 3 deleted, node 9 created), delete node 2, forced add-edge, add-node with pixels
    spliced into the new skip edge, enable with recompute, a query, delete-edge, nop -/
def exOps : List Op :=
  [.paint 9 [([1], 1), ([3], 3), ([2], 0)] 5 false, .delNode 2, .addEdge (9, 4) true,
   .addNode ⟨8, some 1, some 5, none, [], some [7], false⟩, .enable [6] true, .qNeighbors 5 1,
   .delEdge (9, 8), .nop]

theorem exJ_joint : Joint exJ 4 :=
  ⟨exJ_valid, ⟨exJg, rfl, rfl⟩, exJ_segOK, by decide, exJ_rpOK, by decide⟩

end Ft.R3A
