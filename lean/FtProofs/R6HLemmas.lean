/-
  R6H — helper lemmas for the display-name CSV layout (FtModel/ExportDisplay.lean).
  Part A: association lists with arbitrary keys; Part B: what the exporter writes into a row
  (`cellAt_*`); Part C: the importer's column pipeline (`renameCols`, `combine`: `comb_spec`) and one
  row under a well-formed key map (`MapOK`, `props2_spec`); Part D: the key map of a registry
  (`RegOK`, `RegOK.mapOK`, `entry_noncore`).
  Continued in R6HRowLemmas.lean (`decodeRow_agrees`) and R6HTableLemmas.lean (`decode_encode_rows`).
-/
import FtModel.ExportDisplay
import FtProofs.ExportLemmas
namespace Ft.R6H
open Ft Ft.Export Ft.ExportDisplay

/-! ## A. association lists -/

def keys {α β} (l : List (α × β)) : List α := l.map Prod.fst

section assoc
variable {α β : Type} [BEq α] [LawfulBEq α] [DecidableEq α]

theorem alook_eq_none_iff (k : α) (l : List (α × β)) : alook k l = none ↔ k ∉ keys l := by
  induction l with
  | nil => simp [alook, keys]
  | cons p r ih =>
    obtain ⟨k', v⟩ := p
    simp only [alook_cons, keys, List.map_cons, List.mem_cons, not_or]
    by_cases h : k' = k
    · subst h; simp
    · rw [if_neg (by simpa using h)]
      constructor
      · intro hn; exact ⟨fun e => h e.symm, ih.mp hn⟩
      · intro hn; exact ih.mpr hn.2

theorem mem_keys_iff (k : α) (l : List (α × β)) : k ∈ keys l ↔ ∃ v, alook k l = some v := by
  constructor
  · intro h
    cases hv : alook k l with
    | none => exact absurd h ((alook_eq_none_iff k l).mp hv)
    | some v => exact ⟨v, rfl⟩
  · rintro ⟨v, hv⟩
    apply Classical.byContradiction
    intro hn
    rw [(alook_eq_none_iff k l).mpr hn] at hv
    cases hv

theorem alook_aset_g (k k2 : α) (v : β) (l : List (α × β)) :
    alook k2 (aset k v l) = if k2 = k then some v else alook k2 l := by
  induction l with
  | nil =>
    simp only [aset, alook_cons]
    by_cases h : k2 = k
    · subst h; simp
    · rw [if_neg (by simpa using Ne.symm h), if_neg h]
  | cons p r ih =>
    obtain ⟨k', w⟩ := p
    simp only [aset]
    by_cases hk : k' = k
    · subst hk
      simp only [beq_self_eq_true, if_true, alook_cons]
      by_cases h : k2 = k'
      · subst h; simp
      · rw [if_neg (by simpa using Ne.symm h), if_neg h, if_neg (by simpa using Ne.symm h)]
    · rw [if_neg (by simpa using hk)]
      simp only [alook_cons]
      by_cases h2 : k' = k2
      · subst h2
        simp [hk]
      · rw [if_neg (by simpa using h2), ih]
        by_cases h3 : k2 = k <;> simp [h3, h2]

theorem keys_aset_mem (k x : α) (v : β) (l : List (α × β)) :
    x ∈ keys (aset k v l) ↔ x = k ∨ x ∈ keys l := by
  rw [mem_keys_iff, mem_keys_iff]
  simp only [alook_aset_g]
  by_cases h : x = k
  · simp [h]
  · simp [h]

theorem keys_aset_nodup (k : α) (v : β) (l : List (α × β)) (h : (keys l).Nodup) :
    (keys (aset k v l)).Nodup := by
  induction l with
  | nil => simp [aset, keys]
  | cons p r ih =>
    obtain ⟨k', w⟩ := p
    simp only [keys, List.map_cons, List.nodup_cons] at h
    simp only [aset]
    by_cases hk : k' = k
    · subst hk
      simp only [beq_self_eq_true, if_true, keys, List.map_cons, List.nodup_cons]
      exact h
    · rw [if_neg (by simpa using hk)]
      simp only [keys, List.map_cons, List.nodup_cons]
      refine ⟨?_, ih h.2⟩
      intro hm
      rcases (keys_aset_mem k k' v r).mp hm with e | e
      · exact hk e
      · exact h.1 e

theorem alook_adel_g (k k2 : α) (l : List (α × β)) (h : (keys l).Nodup) :
    alook k2 (adel k l) = if k2 = k then none else alook k2 l := by
  induction l with
  | nil => simp [adel, alook]
  | cons p r ih =>
    obtain ⟨k', w⟩ := p
    simp only [keys, List.map_cons, List.nodup_cons] at h
    simp only [adel]
    by_cases hk : k' = k
    · subst hk
      simp only [beq_self_eq_true, if_true, alook_cons]
      by_cases h2 : k2 = k'
      · subst h2
        simp only [if_true]
        exact (alook_eq_none_iff _ _).mpr h.1
      · rw [if_neg h2, if_neg (by simpa using Ne.symm h2)]
    · rw [if_neg (by simpa using hk)]
      simp only [alook_cons]
      by_cases h2 : k' = k2
      · subst h2
        simp [hk]
      · have hb : (k' == k2) = false := by simpa using h2
        simp only [hb, Bool.false_eq_true, if_false]
        exact ih h.2

theorem keys_adel_mem (k x : α) (l : List (α × β)) (h : (keys l).Nodup) :
    x ∈ keys (adel k l) ↔ x ≠ k ∧ x ∈ keys l := by
  rw [mem_keys_iff, mem_keys_iff]
  simp only [alook_adel_g k x l h]
  by_cases hx : x = k
  · simp [hx]
  · simp [hx]

theorem keys_adel_nodup (k : α) (l : List (α × β)) (h : (keys l).Nodup) :
    (keys (adel k l)).Nodup := by
  induction l with
  | nil => simp [adel, keys]
  | cons p r ih =>
    obtain ⟨k', w⟩ := p
    simp only [keys, List.map_cons, List.nodup_cons] at h
    simp only [adel]
    by_cases hk : k' = k
    · subst hk
      simp only [beq_self_eq_true, if_true]
      exact h.2
    · rw [if_neg (by simpa using hk)]
      simp only [keys, List.map_cons, List.nodup_cons]
      refine ⟨?_, ih h.2⟩
      intro hm
      exact h.1 ((keys_adel_mem k k' r h.2).mp hm).2

end assoc

section assoc2
variable {α β : Type} [BEq α] [LawfulBEq α]

/-- lookup in a table whose first components are pairwise distinct -/
theorem alook_map_of_nodup {γ} (f1 : γ → α) (f2 : γ → β) (l : List γ) (h : (l.map f1).Nodup)
    (x : γ) (hx : x ∈ l) : alook (f1 x) (l.map (fun y => (f1 y, f2 y))) = some (f2 x) := by
  induction l with
  | nil => cases hx
  | cons y r ih =>
    simp only [List.map_cons, List.nodup_cons] at h
    simp only [List.map_cons, alook_cons]
    rcases List.mem_cons.mp hx with rfl | hr
    · simp
    · have hne : f1 y ≠ f1 x := fun e => h.1 (e ▸ List.mem_map.mpr ⟨x, hr, rfl⟩)
      rw [if_neg (by simpa using hne)]
      exact ih h.2 hr

theorem alook_of_mem_nodup (l : List (α × β)) (h : (keys l).Nodup) (k : α) (v : β)
    (hm : (k, v) ∈ l) : alook k l = some v := by
  induction l with
  | nil => cases hm
  | cons p r ih =>
    obtain ⟨k', w⟩ := p
    simp only [keys, List.map_cons, List.nodup_cons] at h
    simp only [alook_cons]
    rcases List.mem_cons.mp hm with e | hr
    · cases e; simp
    · have hne : k' ≠ k := fun e => h.1 (e ▸ List.mem_map.mpr ⟨(k, v), hr, rfl⟩)
      rw [if_neg (by simpa using hne)]
      exact ih h.2 hr

end assoc2

theorem map_fst_zip_sublist {α β} : ∀ (l₁ : List α) (l₂ : List β),
    ((l₁.zip l₂).map Prod.fst).Sublist l₁
  | [], _ => by simp
  | _ :: _, [] => by simp
  | a :: as, b :: bs => by
    simp only [List.zip_cons_cons, List.map_cons]
    exact (map_fst_zip_sublist as bs).cons_cons a

/-! ## B. the row the exporter writes -/

theorem foldl_put_absent (c : Name) (ws : List (Name × Cell)) (r : DictD)
    (h : ∀ p ∈ ws, p.1 ≠ c) : alook c (ws.foldl put r) = alook c r := by
  induction ws generalizing r with
  | nil => rfl
  | cons p ws ih =>
    simp only [List.foldl_cons]
    rw [ih _ (fun q hq => h q (List.mem_cons_of_mem _ hq))]
    unfold put
    rw [alook_aset_g, if_neg (fun e => h p (List.mem_cons_self ..) e.symm)]

theorem foldl_put_nodup (c : Name) (ws : List (Name × Cell)) (r : DictD) (h : (keys ws).Nodup) :
    alook c (ws.foldl put r) = match alook c ws with
                               | some v => some v
                               | none => alook c r := by
  induction ws generalizing r with
  | nil => rfl
  | cons p ws ih =>
    obtain ⟨k, v⟩ := p
    simp only [keys, List.map_cons, List.nodup_cons] at h
    simp only [List.foldl_cons, alook_cons]
    by_cases hk : k = c
    · subst hk
      rw [foldl_put_absent k ws _ (fun q hq e => h.1 (e ▸ List.mem_map.mpr ⟨q, hq, rfl⟩))]
      unfold put
      simp [alook_aset_g]
    · rw [if_neg (by simpa using hk), ih _ h.2]
      unfold put
      rw [alook_aset_g, if_neg (fun e => hk e.symm)]

theorem writes_keys_sub (n : NodeRec) (f : FeatDesc) : ∀ p ∈ writes n f, p.1 ∈ f.names := by
  intro p hp
  unfold writes at hp
  unfold FeatDesc.names Cols.names
  cases hc : f.cols with
  | one c =>
    rw [hc] at hp
    simp only [List.mem_singleton] at hp
    subst hp
    simp
  | many cs =>
    rw [hc] at hp
    simp only
    cases ha : attrOf n f with
    | none => rw [ha] at hp; cases hp
    | some a =>
      rw [ha] at hp
      cases a with
      | nat k => cases hp
      | vals vs => exact (List.of_mem_zip (by simpa using hp)).1

theorem writes_keys_nodup (n : NodeRec) (f : FeatDesc) (h : f.names.Nodup) :
    (keys (writes n f)).Nodup := by
  unfold writes
  unfold FeatDesc.names Cols.names at h
  cases hc : f.cols with
  | one c => simp [keys]
  | many cs =>
    rw [hc] at h
    simp only at h ⊢
    cases ha : attrOf n f with
    | none => simp [keys]
    | some a =>
      cases a with
      | nat k => simp [keys]
      | vals vs =>
        simp only [keys]
        exact List.Nodup.sublist (map_fst_zip_sublist ..) h

theorem colMapGet_default (feats : List FeatDesc) (k dflt : Name)
    (h : ∀ f ∈ feats, f.keyName ≠ k) : colMapGet feats k dflt = some dflt := by
  unfold colMapGet
  have : feats.reverse.find? (fun f => f.keyName == k) = none := by
    rw [List.find?_eq_none]
    intro f hf
    have := h f (List.mem_reverse.mp hf)
    simpa using this
  rw [this]

/-- what `Nodup` of the header says about one feature of the registry -/
theorem names_split (pre post : List FeatDesc) (f : FeatDesc)
    (h : (headerD (pre ++ f :: post)).Nodup) :
    f.names.Nodup ∧ ∀ c ∈ f.names, c ≠ idName ∧ c ≠ parentName ∧
      c ∉ pre.flatMap FeatDesc.names ∧ c ∉ post.flatMap FeatDesc.names := by
  unfold headerD at h
  rw [List.flatMap_append, List.flatMap_cons] at h
  obtain ⟨_, h2, h3⟩ := List.nodup_append.mp h
  obtain ⟨_, h5, h6⟩ := List.nodup_append.mp h2
  obtain ⟨h7, _, h9⟩ := List.nodup_append.mp h5
  refine ⟨h7, fun c hc => ⟨?_, ?_, ?_, ?_⟩⟩
  · intro e
    exact h3 idName (by simp) c (List.mem_append_right _ (List.mem_append_left _ hc)) e.symm
  · intro e
    exact h3 parentName (by simp) c (List.mem_append_right _ (List.mem_append_left _ hc)) e.symm
  · intro hm
    exact h6 c hm c (List.mem_append_left _ hc) rfl
  · intro hm
    exact h9 c hc c hm rfl

theorem header_no_id (feats : List FeatDesc) (h : (headerD feats).Nodup) :
    idName ∉ feats.flatMap FeatDesc.names ∧ parentName ∉ feats.flatMap FeatDesc.names := by
  unfold headerD at h
  obtain ⟨_, _, h3⟩ := List.nodup_append.mp h
  exact ⟨fun hm => h3 idName (by simp) idName hm rfl,
         fun hm => h3 parentName (by simp) parentName hm rfl⟩

theorem flatMap_writes_absent (n : NodeRec) (l : List FeatDesc) (c : Name)
    (h : c ∉ l.flatMap FeatDesc.names) : ∀ p ∈ l.flatMap (writes n), p.1 ≠ c := by
  intro p hp e
  obtain ⟨g, hg, hpg⟩ := List.mem_flatMap.mp hp
  exact h (List.mem_flatMap.mpr ⟨g, hg, e ▸ writes_keys_sub n g p hpg⟩)

/-- registry keys "id" / "parent_id" do not occur -/
def NoIdKey (feats : List FeatDesc) : Prop :=
  ∀ f ∈ feats, f.keyName ≠ "id" ∧ f.keyName ≠ "parent_id"

instance (feats : List FeatDesc) : Decidable (NoIdKey feats) := by
  unfold NoIdKey; exact inferInstance

theorem rowWrites_eq (s : Tracks) (feats : List FeatDesc) (n : NodeRec) (hk : NoIdKey feats) :
    rowWrites s feats n =
      [(idName, Cell.nat n.id), (parentName, parentCell s n)] ++ feats.flatMap (writes n) := by
  unfold rowWrites
  rw [colMapGet_default feats "id" idName (fun f hf => (hk f hf).1),
    colMapGet_default feats "parent_id" parentName (fun f hf => (hk f hf).2)]
  rfl

/-- the only writer of a feature's column is the feature -/
theorem alook_rawRow_feat (s : Tracks) (feats : List FeatDesc) (n : NodeRec)
    (hn : (headerD feats).Nodup) (hk : NoIdKey feats) (f : FeatDesc) (hf : f ∈ feats)
    (c : Name) (hc : c ∈ f.names) : alook c (rawRow s feats n) = alook c (writes n f) := by
  obtain ⟨pre, post, rfl⟩ := List.append_of_mem hf
  obtain ⟨hnd, hsp⟩ := names_split pre post f hn
  obtain ⟨h1, h2, h3, h4⟩ := hsp c hc
  unfold rawRow
  rw [rowWrites_eq s _ n hk, List.flatMap_append, List.flatMap_cons, List.foldl_append,
    List.foldl_append, List.foldl_append]
  rw [foldl_put_absent c _ _ (flatMap_writes_absent n post c h4),
    foldl_put_nodup c _ _ (writes_keys_nodup n f hnd),
    foldl_put_absent c _ _ (flatMap_writes_absent n pre c h3)]
  have h0 : alook c ([(idName, Cell.nat n.id), (parentName, parentCell s n)].foldl put []) = none := by
    rw [foldl_put_absent c _ _ (by
      intro p hp
      simp only [List.mem_cons, List.not_mem_nil, or_false] at hp
      rcases hp with rfl | rfl
      · exact fun e => h1 e.symm
      · exact fun e => h2 e.symm)]
    rfl
  rw [h0]
  cases alook c (writes n f) <;> rfl

theorem alook_rawRow_id (s : Tracks) (feats : List FeatDesc) (n : NodeRec)
    (hn : (headerD feats).Nodup) (hk : NoIdKey feats) :
    alook idName (rawRow s feats n) = some (Cell.nat n.id) ∧
    alook parentName (rawRow s feats n) = some (parentCell s n) := by
  obtain ⟨h1, h2⟩ := header_no_id feats hn
  unfold rawRow
  rw [rowWrites_eq s _ n hk, List.foldl_append]
  constructor
  · rw [foldl_put_absent idName _ _ (flatMap_writes_absent n feats _ h1)]
    simp [put, aset, alook_cons, idName, parentName]
  · rw [foldl_put_absent parentName _ _ (flatMap_writes_absent n feats _ h2)]
    simp [put, aset, alook_cons, idName, parentName]

/-- the cell the file shows for node `n` in column `c` -/
def cellAt (s : Tracks) (feats : List FeatDesc) (n : NodeRec) (c : Name) : Cell :=
  (alook c (rowD s feats n)).getD .empty

theorem cellAt_header (s : Tracks) (feats : List FeatDesc) (n : NodeRec) (c : Name)
    (hc : c ∈ headerD feats) : cellAt s feats n c = (alook c (rawRow s feats n)).getD .empty := by
  unfold cellAt rowD complete
  rw [alook_map_self _ _ _ hc]
  rfl

theorem mem_header_of_feat (feats : List FeatDesc) (f : FeatDesc) (hf : f ∈ feats) (c : Name)
    (hc : c ∈ f.names) : c ∈ headerD feats :=
  List.mem_append_right _ (List.mem_flatMap.mpr ⟨f, hf, hc⟩)

theorem cellAt_id (s : Tracks) (feats : List FeatDesc) (n : NodeRec)
    (hn : (headerD feats).Nodup) (hk : NoIdKey feats) :
    cellAt s feats n idName = Cell.nat n.id ∧ cellAt s feats n parentName = parentCell s n := by
  obtain ⟨h1, h2⟩ := alook_rawRow_id s feats n hn hk
  rw [cellAt_header _ _ _ _ (by simp [headerD]), cellAt_header _ _ _ _ (by simp [headerD]), h1, h2]
  exact ⟨rfl, rfl⟩

/-- single-name feature: the cell is the value (empty when there is none) -/
theorem cellAt_one (s : Tracks) (feats : List FeatDesc) (n : NodeRec)
    (hn : (headerD feats).Nodup) (hk : NoIdKey feats) (f : FeatDesc) (hf : f ∈ feats) (c : Name)
    (hc : f.cols = .one c) : cellAt s feats n c = singleCell (attrOf n f) := by
  have hmem : c ∈ f.names := by simp [FeatDesc.names, Cols.names, hc]
  rw [cellAt_header _ _ _ _ (mem_header_of_feat feats f hf c hmem),
    alook_rawRow_feat s feats n hn hk f hf c hmem]
  unfold writes
  rw [hc]
  simp [alook_cons]

theorem map_alook_zip (cs : List Name) (ws : List Cell) (hnd : cs.Nodup)
    (hlen : cs.length = ws.length) :
    cs.map (fun c => (alook c (cs.zip ws)).getD Cell.empty) = ws := by
  induction cs generalizing ws with
  | nil => cases ws <;> simp_all
  | cons a cs ih =>
    cases ws with
    | nil => simp at hlen
    | cons w ws =>
      simp only [List.nodup_cons] at hnd
      simp only [List.zip_cons_cons, List.map_cons, alook_cons, beq_self_eq_true, if_true,
        Option.getD_some, List.cons.injEq, true_and]
      rw [← ih ws hnd.2 (by simpa using hlen)]
      apply List.map_congr_left
      intro c hc
      have hne : a ≠ c := fun e => hnd.1 (e ▸ hc)
      rw [if_neg (by simpa using hne)]
      rw [ih ws hnd.2 (by simpa using hlen)]

/-- list-named feature with a value of the right length: the cells are the components -/
theorem cellAt_many (s : Tracks) (feats : List FeatDesc) (n : NodeRec)
    (hn : (headerD feats).Nodup) (hk : NoIdKey feats) (f : FeatDesc) (hf : f ∈ feats)
    (cs : List Name) (hc : f.cols = .many cs) (vs : List Val) (ha : attrOf n f = some (.vals vs))
    (hlen : cs.length = vs.length) : cs.map (cellAt s feats n) = vs.map Cell.val := by
  obtain ⟨pre, post, hsplit⟩ := List.append_of_mem hf
  have hnd : cs.Nodup := by
    have := (names_split pre post f (hsplit ▸ hn)).1
    simpa [FeatDesc.names, Cols.names, hc] using this
  rw [← map_alook_zip cs (vs.map Cell.val) hnd (by simpa using hlen)]
  apply List.map_congr_left
  intro c hcm
  have hmem : c ∈ f.names := by simp [FeatDesc.names, Cols.names, hc, hcm]
  rw [cellAt_header _ _ _ _ (mem_header_of_feat feats f hf c hmem),
    alook_rawRow_feat s feats n hn hk f hf c hmem]
  unfold writes
  rw [hc]
  simp only [ha]

/-- list-named feature without value: every cell is empty -/
theorem cellAt_many_none (s : Tracks) (feats : List FeatDesc) (n : NodeRec)
    (hn : (headerD feats).Nodup) (hk : NoIdKey feats) (f : FeatDesc) (hf : f ∈ feats)
    (cs : List Name) (hc : f.cols = .many cs) (ha : attrOf n f = none) :
    ∀ c ∈ cs, cellAt s feats n c = Cell.empty := by
  intro c hcm
  have hmem : c ∈ f.names := by simp [FeatDesc.names, Cols.names, hc, hcm]
  rw [cellAt_header _ _ _ _ (mem_header_of_feat feats f hf c hmem),
    alook_rawRow_feat s feats n hn hk f hf c hmem]
  unfold writes
  rw [hc]
  simp only [ha]
  rfl

/-! ## C. the importer's column pipeline -/

theorem renameCols_aux (header : List Name) (fl acc : List (Name × Name))
    (hs : ∀ ts ∈ fl, ts.2 ∈ header) (hn : ((acc ++ fl).map Prod.fst).Nodup) :
    fl.foldl (keepStep header) acc = acc ++ fl := by
  induction fl generalizing acc with
  | nil => simp
  | cons ts fl ih =>
    simp only [List.foldl_cons]
    have h1 : ts.2 ∈ header := hs ts (List.mem_cons_self ..)
    have h2 : ts.1 ∉ acc.map Prod.fst := by
      rw [List.map_append, List.map_cons] at hn
      obtain ⟨_, _, h3⟩ := List.nodup_append.mp hn
      exact fun hm => h3 _ hm ts.1 (List.mem_cons_self ..) rfl
    have hstep : keepStep header acc ts = acc ++ [ts] := by
      unfold keepStep
      rw [if_pos]
      simp only [Bool.and_eq_true, Bool.not_eq_true', List.contains_iff_mem]
      exact ⟨h1, by simpa using h2⟩
    rw [hstep, ih (acc ++ [ts]) (fun q hq => hs q (List.mem_cons_of_mem _ hq))
      (by simpa [List.append_assoc] using hn)]
    simp [List.append_assoc]

/-- every mapped column exists and no two loaded columns get the same name: nothing is dropped -/
theorem renameCols_eq (header : List Name) (fl : List (Name × Name))
    (hs : ∀ ts ∈ fl, ts.2 ∈ header) (hn : (fl.map Prod.fst).Nodup) :
    renameCols header fl = fl := by
  unfold renameCols
  rw [renameCols_aux header fl [] hs (by simpa using hn)]
  rfl

theorem keys_loadRow (kept : List (Name × Name)) (d : DictD) :
    keys (loadRow kept d) = kept.map Prod.fst := by
  simp [keys, loadRow, List.map_map, Function.comp_def]

theorem alook_loadRow (kept : List (Name × Name)) (d : DictD) (hn : (kept.map Prod.fst).Nodup)
    (ts : Name × Name) (hts : ts ∈ kept) :
    alook ts.1 (loadRow kept d) = some ((alook ts.2 d).getD .empty) :=
  alook_map_of_nodup Prod.fst (fun ts => (alook ts.2 d).getD Cell.empty) kept hn ts hts

/-! ### entries of a key map -/

def multiCols (m : NameMap) : List Name :=
  m.flatMap (fun e => match e.2 with
    | .many cs => cs
    | .one _ => [])

theorem mem_flattenMap_one {m : NameMap} {k c : Name} (h : (k, Cols.one c) ∈ m) :
    (k, c) ∈ flattenMap m :=
  List.mem_flatMap.mpr ⟨_, h, by simp⟩

theorem mem_flattenMap_many {m : NameMap} {k c : Name} {cs : List Name}
    (h : (k, Cols.many cs) ∈ m) (hc : c ∈ cs) : (c, c) ∈ flattenMap m :=
  List.mem_flatMap.mpr ⟨_, h, by simpa using hc⟩

theorem mem_flattenMap {m : NameMap} {t src : Name} (h : (t, src) ∈ flattenMap m) :
    (t, Cols.one src) ∈ m ∨ ∃ k cs, (k, Cols.many cs) ∈ m ∧ src ∈ cs ∧ t = src := by
  obtain ⟨e, he, hm⟩ := List.mem_flatMap.mp h
  obtain ⟨k, cl⟩ := e
  cases cl with
  | one c =>
    simp only [List.mem_singleton, Prod.mk.injEq] at hm
    obtain ⟨rfl, rfl⟩ := hm
    exact Or.inl he
  | many cs =>
    simp only [List.mem_map, Prod.mk.injEq] at hm
    obtain ⟨c, hc, rfl, rfl⟩ := hm
    exact Or.inr ⟨k, cs, he, hc, rfl⟩

theorem mem_multiCols {m : NameMap} {x : Name} :
    x ∈ multiCols m ↔ ∃ k cs, (k, Cols.many cs) ∈ m ∧ x ∈ cs := by
  unfold multiCols
  simp only [List.mem_flatMap]
  constructor
  · rintro ⟨⟨k, cl⟩, he, hx⟩
    cases cl with
    | one c => simp at hx
    | many cs => exact ⟨k, cs, he, hx⟩
  · rintro ⟨k, cs, he, hx⟩
    exact ⟨(k, .many cs), he, hx⟩

theorem multiCols_sub_targets {m : NameMap} {x : Name} (h : x ∈ multiCols m) : x ∈ targets m := by
  obtain ⟨k, cs, he, hx⟩ := mem_multiCols.mp h
  exact List.mem_map.mpr ⟨(x, x), mem_flattenMap_many he hx, rfl⟩

theorem targets_cons (e : Name × Cols) (m : NameMap) :
    targets (e :: m) = (match e.2 with
      | .one _ => [e.1]
      | .many cs => cs) ++ targets m := by
  unfold targets flattenMap
  rw [List.flatMap_cons, List.map_append]
  congr 1
  cases e.2 <;> simp [List.map_map, Function.comp_def]

theorem multiCols_cons (e : Name × Cols) (m : NameMap) :
    multiCols (e :: m) = (match e.2 with
      | .many cs => cs
      | .one _ => []) ++ multiCols m := by
  unfold multiCols
  rw [List.flatMap_cons]

theorem multiCols_nodup (m : NameMap) (h : (targets m).Nodup) : (multiCols m).Nodup := by
  induction m with
  | nil => simp [multiCols]
  | cons e m ih =>
    rw [targets_cons] at h
    rw [multiCols_cons]
    obtain ⟨h1, h2, h3⟩ := List.nodup_append.mp h
    obtain ⟨k, cl⟩ := e
    cases cl with
    | one c => simpa using ih h2
    | many cs =>
      exact List.nodup_append.mpr ⟨h1, ih h2, fun a ha b hb => h3 a ha b (multiCols_sub_targets hb)⟩

theorem one_not_multiCol (m : NameMap) (h : (targets m).Nodup) (k c : Name)
    (hm : (k, Cols.one c) ∈ m) : k ∉ multiCols m := by
  induction m with
  | nil => cases hm
  | cons e m ih =>
    rw [targets_cons] at h
    rw [multiCols_cons]
    obtain ⟨_, h2, h3⟩ := List.nodup_append.mp h
    rcases List.mem_cons.mp hm with he | hm'
    · subst he
      simp only [List.nil_append]
      intro hx
      exact h3 k (by simp) k (multiCols_sub_targets hx) rfl
    · have hk : k ∈ targets m := List.mem_map.mpr ⟨(k, c), mem_flattenMap_one hm', rfl⟩
      intro hx
      rcases List.mem_append.mp hx with hx | hx
      · obtain ⟨k', cl⟩ := e
        cases cl with
        | one c' => simp at hx
        | many cs => exact h3 k hx k hk rfl
      · exact ih h2 hm' hx

/-! ### `_combine_multi_value_props` -/

theorem delfold_spec (k : Name) (cs : List Name) (hk : k ∉ cs) (q : DictD) (hq : (keys q).Nodup)
    (x : Name) :
    alook x (cs.foldl (fun p c => if c != k then adel c p else p) q) =
      if x ∈ cs then none else alook x q := by
  induction cs generalizing q with
  | nil => simp
  | cons c cs ih =>
    have hck : c ≠ k := fun e => hk (e ▸ List.mem_cons_self ..)
    simp only [List.foldl_cons]
    rw [if_pos (by simpa using hck)]
    rw [ih (fun hm => hk (List.mem_cons_of_mem _ hm)) _ (keys_adel_nodup c q hq),
      alook_adel_g c x q hq]
    by_cases h1 : x = c
    · subst h1; simp
    · by_cases h2 : x ∈ cs <;> simp [h1, h2]

theorem delfold_nodup (k : Name) (cs : List Name) (q : DictD) (hq : (keys q).Nodup) :
    (keys (cs.foldl (fun p c => if c != k then adel c p else p) q)).Nodup := by
  induction cs generalizing q with
  | nil => exact hq
  | cons c cs ih =>
    simp only [List.foldl_cons]
    apply ih
    split
    · exact keys_adel_nodup c q hq
    · exact hq

theorem combineStep_nodup (p : DictD) (e : Name × Cols) (hp : (keys p).Nodup) :
    (keys (combineStep p e)).Nodup := by
  unfold combineStep
  split
  · exact hp
  · split
    · exact hp
    · exact delfold_nodup _ _ _ (keys_aset_nodup _ _ _ hp)

theorem combine_nodup (m : NameMap) (p : DictD) (hp : (keys p).Nodup) :
    (keys (combine m p)).Nodup := by
  unfold combine
  induction m generalizing p with
  | nil => exact hp
  | cons e m ih =>
    simp only [List.foldl_cons]
    exact ih _ (combineStep_nodup p e hp)

/-- what the combination step needs: the stacked keys are new, their columns are loaded,
    distinct, and belong to one list only -/
structure CombInv (m : NameMap) (p : DictD) : Prop where
  keysP : (keys p).Nodup
  keysM : (mapKeys m).Nodup
  colsNd : (multiCols m).Nodup
  ne : ∀ k cs, (k, Cols.many cs) ∈ m → cs ≠ []
  cols_in : ∀ k cs, (k, Cols.many cs) ∈ m → ∀ c ∈ cs, c ∈ keys p
  fresh : ∀ k cs, (k, Cols.many cs) ∈ m → k ∉ keys p

/-- the properties of one node after `_combine_multi_value_props`, by key -/
def combLook (m : NameMap) (p : DictD) (x : Name) : Option Cell :=
  match alook x m with
  | some (.many cs) => some (stackCells (cs.map (fun c => (alook c p).getD .empty)))
  | _ => if x ∈ multiCols m then none else alook x p

theorem CombInv.tail {e : Name × Cols} {m : NameMap} {p : DictD} (h : CombInv (e :: m) p) :
    CombInv m p := by
  refine ⟨h.keysP, ?_, ?_, ?_, ?_, ?_⟩
  · have := h.keysM
    simp only [mapKeys, List.map_cons, List.nodup_cons] at this
    exact this.2
  · have := h.colsNd
    rw [multiCols_cons] at this
    exact (List.nodup_append.mp this).2.1
  · exact fun k cs hm => h.ne k cs (List.mem_cons_of_mem _ hm)
  · exact fun k cs hm => h.cols_in k cs (List.mem_cons_of_mem _ hm)
  · exact fun k cs hm => h.fresh k cs (List.mem_cons_of_mem _ hm)

theorem comb_spec (m : NameMap) (p : DictD) (h : CombInv m p) (x : Name) :
    alook x (combine m p) = combLook m p x := by
  induction m generalizing p with
  | nil => simp [combine, combLook, alook, multiCols]
  | cons e m ih =>
    obtain ⟨k, cl⟩ := e
    have hkm : k ∉ mapKeys m := by
      have := h.keysM
      simp only [mapKeys, List.map_cons, List.nodup_cons] at this
      exact this.1
    have hkm' : alook k m = none := (alook_eq_none_iff k m).mpr hkm
    cases cl with
    | one c =>
      have hstep : combine ((k, Cols.one c) :: m) p = combine m p := by
        simp [combine, combineStep]
      rw [hstep, ih p h.tail]
      unfold combLook
      rw [multiCols_cons]
      simp only [alook_cons, List.nil_append]
      by_cases hx : k = x
      · subst hx
        simp [hkm']
      · have hb : (k == x) = false := by simpa using hx
        simp only [hb, Bool.false_eq_true, ↓reduceIte]
    | many cs =>
      have hne : cs ≠ [] := h.ne k cs (List.mem_cons_self ..)
      have hin : ∀ c ∈ cs, c ∈ keys p := h.cols_in k cs (List.mem_cons_self ..)
      have hfr : k ∉ keys p := h.fresh k cs (List.mem_cons_self ..)
      have hkcs : k ∉ cs := fun hm => hfr (hin k hm)
      obtain ⟨hcsnd, hmnd, hdisj⟩ := List.nodup_append.mp (by
        have := h.colsNd
        rw [multiCols_cons] at this
        exact this)
      -- the properties after this step
      let p' := cs.foldl (fun q c => if c != k then adel c q else q)
        (aset k (stackCells (cs.map (fun c => (alook c p).getD .empty))) p)
      have hstep : combine ((k, Cols.many cs) :: m) p = combine m p' := by
        show List.foldl combineStep (combineStep p (k, Cols.many cs)) m = _
        congr 1
        unfold combineStep
        simp only
        rw [if_neg]
        simp only [Bool.or_eq_true, List.isEmpty_iff, Bool.not_eq_true', not_or]
        refine ⟨hne, ?_⟩
        simp only [Bool.not_eq_false, List.all_eq_true]
        intro c hc
        simpa [hasKey, keys] using hin c hc
      have hp'nd : (keys p').Nodup := delfold_nodup _ _ _ (keys_aset_nodup _ _ _ h.keysP)
      have hL : ∀ y, alook y p' = if y ∈ cs then none else
          if y = k then some (stackCells (cs.map (fun c => (alook c p).getD .empty)))
          else alook y p := by
        intro y
        show alook y (cs.foldl _ _) = _
        rw [delfold_spec k cs hkcs _ (keys_aset_nodup _ _ _ h.keysP), alook_aset_g]
      have hmem : ∀ y, y ∈ keys p' ↔ y ∉ cs ∧ (y = k ∨ y ∈ keys p) := by
        intro y
        rw [mem_keys_iff, hL y]
        by_cases h1 : y ∈ cs
        · simp [h1]
        · by_cases h2 : y = k
          · simp [h2]
          · simp only [h1, h2, if_false, not_false_eq_true, false_or, true_and]
            exact (mem_keys_iff y p).symm
      have hinv' : CombInv m p' := by
        refine ⟨hp'nd, h.tail.keysM, hmnd, h.tail.ne, ?_, ?_⟩
        · intro k2 cs2 hm2 c hc
          rw [hmem]
          refine ⟨?_, Or.inr (h.cols_in k2 cs2 (List.mem_cons_of_mem _ hm2) c hc)⟩
          intro hcc
          exact hdisj c hcc c (mem_multiCols.mpr ⟨k2, cs2, hm2, hc⟩) rfl
        · intro k2 cs2 hm2 hk2
          rw [hmem] at hk2
          rcases hk2.2 with e | e
          · subst e
            exact hkm (List.mem_map.mpr ⟨_, hm2, rfl⟩)
          · exact h.fresh k2 cs2 (List.mem_cons_of_mem _ hm2) e
      rw [hstep, ih p' hinv']
      unfold combLook
      rw [multiCols_cons]
      simp only [alook_cons]
      by_cases hx : k = x
      · subst hx
        simp only [beq_self_eq_true, if_true, hkm']
        have : k ∉ multiCols m := by
          intro hm
          obtain ⟨k2, cs2, hm2, hc⟩ := mem_multiCols.mp hm
          exact hfr (h.cols_in k2 cs2 (List.mem_cons_of_mem _ hm2) k hc)
        rw [if_neg this, hL k, if_neg hkcs, if_pos rfl]
      · have hb : (k == x) = false := by simpa using hx
        simp only [hb, Bool.false_eq_true, ↓reduceIte]
        cases hxm : alook x m with
        | none =>
          simp only [List.mem_append]
          rw [hL x]
          by_cases h1 : x ∈ multiCols m
          · simp [h1]
          · by_cases h2 : x ∈ cs
            · simp [h2]
            · simp [h1, h2, Ne.symm hx]
        | some cl2 =>
          cases cl2 with
          | one c2 =>
            simp only [List.mem_append]
            rw [hL x]
            by_cases h1 : x ∈ multiCols m
            · simp [h1]
            · by_cases h2 : x ∈ cs
              · simp [h1, h2]
              · simp [h1, h2, Ne.symm hx]
          | many cs2 =>
            simp only
            congr 2
            apply List.map_congr_left
            intro c hc
            have hm2 : (x, Cols.many cs2) ∈ m := alook_mem hxm
            have hcm : c ∈ multiCols m := mem_multiCols.mpr ⟨x, cs2, hm2, hc⟩
            have h1 : c ∉ cs := fun hcc => hdisj c hcc c hcm rfl
            have h2 : c ≠ k := by
              intro e
              exact hfr (e ▸ h.cols_in x cs2 (List.mem_cons_of_mem _ hm2) c hc)
            rw [hL c, if_neg h1, if_neg h2]

/-! ### one row through `load_source` and `_combine_multi_value_props` -/

/-- a key map the importer handles without losing a column: the std keys are distinct, the
    names of the loaded columns (std key of a single column, own name of a list component) are
    distinct, list-valued std keys are new and have columns, every mapped column exists -/
structure MapOK (header : List Name) (m : NameMap) : Prop where
  keys_nodup : (mapKeys m).Nodup
  targets_nodup : (targets m).Nodup
  many_ok : ∀ k cs, (k, Cols.many cs) ∈ m → cs ≠ [] ∧ k ∉ targets m
  sources_in : ∀ c ∈ sources m, c ∈ header
  id_entry : ∃ c, (("id" : Name), Cols.one c) ∈ m
  parent_entry : ∃ c, (("parent_id" : Name), Cols.one c) ∈ m

def cellOf (d : DictD) (c : Name) : Cell := (alook c d).getD .empty

def props1 (m : NameMap) (d : DictD) : DictD :=
  adel "parent_id" (adel "id" (loadRow (flattenMap m) d))

theorem MapOK.kept {header : List Name} {m : NameMap} (h : MapOK header m) :
    renameCols header (flattenMap m) = flattenMap m :=
  renameCols_eq header _ (fun ts hts => h.sources_in _ (List.mem_map.mpr ⟨ts, hts, rfl⟩))
    h.targets_nodup

theorem alook_props0 {header : List Name} {m : NameMap} (h : MapOK header m) (d : DictD)
    (t src : Name) (hm : (t, src) ∈ flattenMap m) :
    alook t (loadRow (flattenMap m) d) = some (cellOf d src) :=
  alook_loadRow _ d h.targets_nodup (t, src) hm

theorem props0_nodup {header : List Name} {m : NameMap} (h : MapOK header m) (d : DictD) :
    (keys (loadRow (flattenMap m) d)).Nodup := by
  rw [keys_loadRow]
  exact h.targets_nodup

theorem alook_props1 {header : List Name} {m : NameMap} (h : MapOK header m) (d : DictD)
    (x : Name) :
    alook x (props1 m d) =
      if x = "parent_id" then none else if x = "id" then none
      else alook x (loadRow (flattenMap m) d) := by
  unfold props1
  rw [alook_adel_g _ _ _ (keys_adel_nodup _ _ (props0_nodup h d)),
    alook_adel_g _ _ _ (props0_nodup h d)]

theorem props1_nodup {header : List Name} {m : NameMap} (h : MapOK header m) (d : DictD) :
    (keys (props1 m d)).Nodup :=
  keys_adel_nodup _ _ (keys_adel_nodup _ _ (props0_nodup h d))

theorem mem_keys_props1 {header : List Name} {m : NameMap} (h : MapOK header m) (d : DictD)
    (x : Name) : x ∈ keys (props1 m d) ↔ x ≠ "parent_id" ∧ x ≠ "id" ∧ x ∈ targets m := by
  unfold props1
  rw [keys_adel_mem _ _ _ (keys_adel_nodup _ _ (props0_nodup h d)),
    keys_adel_mem _ _ _ (props0_nodup h d), keys_loadRow]
  rfl

theorem MapOK.combInv {header : List Name} {m : NameMap} (h : MapOK header m) (d : DictD) :
    CombInv m (props1 m d) := by
  obtain ⟨idc, hid⟩ := h.id_entry
  obtain ⟨pc, hpc⟩ := h.parent_entry
  refine ⟨props1_nodup h d, h.keys_nodup, multiCols_nodup m h.targets_nodup,
    fun k cs hm => (h.many_ok k cs hm).1, ?_, ?_⟩
  · intro k cs hm c hc
    have hcm : c ∈ multiCols m := mem_multiCols.mpr ⟨k, cs, hm, hc⟩
    rw [mem_keys_props1 h]
    refine ⟨?_, ?_, multiCols_sub_targets hcm⟩
    · intro e
      exact one_not_multiCol m h.targets_nodup _ _ hpc (e ▸ hcm)
    · intro e
      exact one_not_multiCol m h.targets_nodup _ _ hid (e ▸ hcm)
  · intro k cs hm hk
    exact (h.many_ok k cs hm).2 ((mem_keys_props1 h d k).mp hk).2.2

/-- the properties of one node after loading and combining, by std key -/
theorem props2_spec {header : List Name} {m : NameMap} (h : MapOK header m) (d : DictD)
    (x : Name) :
    alook x (combine m (props1 m d)) =
      match alook x m with
      | some (.many cs) => some (stackCells (cs.map (cellOf d)))
      | some (.one c) => if x = "parent_id" ∨ x = "id" then none else some (cellOf d c)
      | none => none := by
  obtain ⟨idc, hid⟩ := h.id_entry
  obtain ⟨pc, hpc⟩ := h.parent_entry
  rw [comb_spec m _ (h.combInv d) x]
  unfold combLook
  cases hx : alook x m with
  | none =>
    simp only
    split
    · rfl
    · rename_i hnm
      rw [(alook_eq_none_iff x _).mpr]
      intro hk
      have ht := ((mem_keys_props1 h d x).mp hk).2.2
      obtain ⟨ts, hts, hfst⟩ := List.mem_map.mp ht
      obtain ⟨t, src⟩ := ts
      simp only at hfst
      subst hfst
      rcases mem_flattenMap hts with h1 | ⟨k, cs, h1, h2, h3⟩
      · have := alook_of_mem_nodup m h.keys_nodup _ _ h1
        rw [hx] at this
        cases this
      · exact hnm (mem_multiCols.mpr ⟨k, cs, h1, h3 ▸ h2⟩)
  | some cl =>
    have hmem : (x, cl) ∈ m := alook_mem hx
    cases cl with
    | one c =>
      simp only
      rw [if_neg (one_not_multiCol m h.targets_nodup x c hmem), alook_props1 h d x]
      by_cases h1 : x = "parent_id"
      · simp [h1]
      · by_cases h2 : x = "id"
        · simp [h2]
        · simp only [h1, h2, if_false, false_or]
          exact alook_props0 h d x c (mem_flattenMap_one hmem)
    | many cs =>
      simp only
      congr 2
      apply List.map_congr_left
      intro c hc
      have hcm : c ∈ multiCols m := mem_multiCols.mpr ⟨x, cs, hmem, hc⟩
      have h1 : c ≠ "parent_id" := fun e => one_not_multiCol m h.targets_nodup _ _ hpc (e ▸ hcm)
      have h2 : c ≠ "id" := fun e => one_not_multiCol m h.targets_nodup _ _ hid (e ▸ hcm)
      rw [alook_props1 h d c, if_neg h1, if_neg h2,
        alook_props0 h d c c (mem_flattenMap_many hmem hc)]
      rfl

theorem props2_nodup {header : List Name} {m : NameMap} (h : MapOK header m) (d : DictD) :
    (keys (combine m (props1 m d))).Nodup :=
  combine_nodup m _ (props1_nodup h d)

theorem decodeRowD_eq {header : List Name} {m : NameMap} (h : MapOK header m) (tv lv : Bool) (d : DictD)
    (idc pc : Name) (hid : (("id" : Name), Cols.one idc) ∈ m)
    (hpc : (("parent_id" : Name), Cols.one pc) ∈ m) (i : Nat) (par : Option Nat)
    (hi : cellOf d idc = Cell.nat i) (hp : parentOfCell (cellOf d pc) = some par) :
    decodeRowD tv lv (flattenMap m) m d =
      (nodeOfProps tv lv i (combine m (props1 m d))).map (fun nd => (nd, par)) := by
  unfold decodeRowD
  simp only
  rw [alook_props0 h d "id" idc (mem_flattenMap_one hid),
    alook_props0 h d "parent_id" pc (mem_flattenMap_one hpc)]
  simp only [Option.bind_some, hi, hp, cellNat]
  rfl

/-! ### the loaded attributes other than time / position / ids -/

theorem otherFeats_absent (P : DictD) (k : Name) (h : k ∉ keys P) : alook k (otherFeats P) = none := by
  rw [alook_eq_none_iff]
  intro hm
  obtain ⟨p, hp, hk⟩ := List.mem_map.mp hm
  unfold otherFeats at hp
  obtain ⟨q, hq, hqp⟩ := List.mem_filterMap.mp hp
  split at hqp
  · cases hqp
  · obtain ⟨vs, _, hvs⟩ := Option.map_eq_some_iff.mp hqp
    subst hvs
    exact h (List.mem_map.mpr ⟨q, hq, hk⟩)

theorem otherFeats_cons (k' : Name) (c : Cell) (r : DictD) :
    otherFeats ((k', c) :: r) =
      if coreKeys.contains k' then otherFeats r
      else match cellVals c with
           | none => otherFeats r
           | some vs => (k', vs) :: otherFeats r := by
  unfold otherFeats
  rw [List.filterMap_cons]
  by_cases hc : k' ∈ coreKeys
  · simp [hc]
  · cases hv : cellVals c <;> simp [hc]

theorem alook_otherFeats (P : DictD) (hP : (keys P).Nodup) (k : Name) :
    alook k (otherFeats P) =
      if coreKeys.contains k then none else (alook k P).bind cellVals := by
  induction P with
  | nil => simp [otherFeats, alook]
  | cons p r ih =>
    obtain ⟨k', c⟩ := p
    simp only [keys, List.map_cons, List.nodup_cons] at hP
    rw [otherFeats_cons]
    by_cases hk : k' = k
    · subst hk
      have habs : alook k' (otherFeats r) = none := otherFeats_absent r k' hP.1
      by_cases hc : coreKeys.contains k' = true
      · rw [if_pos hc, if_pos hc, habs]
      · rw [if_neg hc, if_neg hc]
        simp only [alook_cons, beq_self_eq_true, if_true, Option.bind_some]
        cases hv : cellVals c with
        | none => exact habs
        | some vs => simp [alook_cons]
    · have hb : (k' == k) = false := by simpa using hk
      have htail : alook k (if coreKeys.contains k' then otherFeats r
            else match cellVals c with
                 | none => otherFeats r
                 | some vs => (k', vs) :: otherFeats r) = alook k (otherFeats r) := by
        split
        · rfl
        · cases cellVals c with
          | none => rfl
          | some vs => simp [alook_cons, hb]
      rw [htail, ih hP.2]
      simp [alook_cons, hb]

theorem otherInts_nil (P : DictD)
    (h : ∀ k c, (k, c) ∈ P → coreKeys.contains k = false → cellNat c = none) :
    otherInts P = [] := by
  unfold otherInts
  rw [List.filterMap_eq_nil_iff]
  intro p hp
  obtain ⟨k, c⟩ := p
  simp only
  split
  · rfl
  · rename_i hc
    rw [h k c hp (by simpa using hc)]
    rfl

/-! ## D. the key map of a registry -/

def isOne : Cols → Bool
  | .one _ => true
  | .many _ => false

/-- every list-valued std key has columns and is not the name of a loaded column -/
def manyFresh (m : NameMap) : Bool :=
  m.all (fun e => match e.2 with
    | .many cs => !cs.isEmpty && !(targets m).contains e.1
    | .one _ => true)

/-- Hypotheses on the registry and its key map (all decidable):
    column names of the file pairwise distinct (and ≠ ID / Parent ID); no registry key is "id" /
    "parent_id"; std keys of the key map distinct; names of the loaded columns distinct; list-valued
    std keys fresh; keys of the other features distinct and none of time/pos/track_id/lineage_id -/
def RegOK (nax : Nat) (feats : List FeatDesc) (ns : List NodeRec) : Prop :=
  (headerD feats).Nodup ∧
  NoIdKey feats ∧
  (mapKeys (nameMapOf nax feats ns)).Nodup ∧
  (targets (nameMapOf nax feats ns)).Nodup ∧
  manyFresh (nameMapOf nax feats ns) = true ∧
  ((feats.filter (fun f => f.role == Role.other)).map FeatDesc.keyName).Nodup ∧
  (∀ f ∈ feats, f.role = Role.other → f.keyName ∉ coreKeys)

instance (nax : Nat) (feats : List FeatDesc) (ns : List NodeRec) : Decidable (RegOK nax feats ns) := by
  unfold RegOK NoIdKey
  exact inferInstance

theorem mem_nameMapOf {nax : Nat} {feats : List FeatDesc} {ns : List NodeRec} {e : Name × Cols} :
    e ∈ nameMapOf nax feats ns ↔ e = ("id", Cols.one idName) ∨ e = ("parent_id", Cols.one parentName) ∨
      ∃ f ∈ feats, e ∈ entriesOf nax feats ns f := by
  unfold nameMapOf
  simp only [List.mem_append, List.mem_cons, List.not_mem_nil, or_false, List.mem_flatMap]
  constructor
  · rintro ((h | h) | h)
    · exact Or.inl h
    · exact Or.inr (Or.inl h)
    · exact Or.inr (Or.inr h)
  · rintro (h | h | h)
    · exact Or.inl (Or.inl h)
    · exact Or.inl (Or.inr h)
    · exact Or.inr h

theorem entriesOf_cases {nax : Nat} {feats : List FeatDesc} {ns : List NodeRec} {f : FeatDesc}
    {e : Name × Cols} (h : e ∈ entriesOf nax feats ns f) :
    (f.role = Role.axis 0 ∧ e = ("pos", Cols.many (axisCols nax feats))) ∨
    ((∀ i, f.role ≠ Role.axis i) ∧ e = (stdKey f, f.cols) ∧ (f.role = Role.other → live ns f = true)) := by
  unfold entriesOf at h
  cases hr : f.role with
  | axis i =>
    rw [hr] at h
    cases i with
    | zero =>
      simp only [List.mem_singleton] at h
      exact Or.inl ⟨rfl, h⟩
    | succ j => simp at h
  | other =>
    rw [hr] at h
    simp only at h
    split at h
    · rename_i hl
      simp only [List.mem_singleton] at h
      refine Or.inr ⟨fun i => by simp, ?_, fun _ => hl⟩
      rw [h]
      simp [stdKey, hr]
    · cases h
  | time =>
    rw [hr] at h
    simp only [List.mem_singleton] at h
    exact Or.inr ⟨fun i => by simp, h, fun e => by cases e⟩
  | pos =>
    rw [hr] at h
    simp only [List.mem_singleton] at h
    exact Or.inr ⟨fun i => by simp, h, fun e => by cases e⟩
  | tid =>
    rw [hr] at h
    simp only [List.mem_singleton] at h
    exact Or.inr ⟨fun i => by simp, h, fun e => by cases e⟩
  | lin =>
    rw [hr] at h
    simp only [List.mem_singleton] at h
    exact Or.inr ⟨fun i => by simp, h, fun e => by cases e⟩

theorem axisCols_mem {nax : Nat} {feats : List FeatDesc} {c : Name} (h : c ∈ axisCols nax feats) :
    ∃ g ∈ feats, ∃ i, g.role = Role.axis i ∧ g.cols = Cols.one c := by
  unfold axisCols at h
  obtain ⟨i, _, hi⟩ := List.mem_filterMap.mp h
  cases hf : feats.find? (fun f => f.role == Role.axis i) with
  | none => rw [hf] at hi; cases hi
  | some g =>
    rw [hf] at hi
    simp only [Option.bind_some] at hi
    refine ⟨g, List.mem_of_find?_eq_some hf, i, by simpa using List.find?_some hf, ?_⟩
    cases hc : g.cols with
    | one c' => rw [hc] at hi; simp only [oneName, Option.some.injEq] at hi; rw [hi]
    | many cs => rw [hc] at hi; cases hi

theorem entry_names_in_header {nax : Nat} {feats : List FeatDesc} {ns : List NodeRec}
    {e : Name × Cols} (he : e ∈ nameMapOf nax feats ns) : ∀ c ∈ e.2.names, c ∈ headerD feats := by
  intro c hc
  rcases mem_nameMapOf.mp he with rfl | rfl | ⟨f, hf, hef⟩
  · simp only [Cols.names, List.mem_singleton] at hc
    subst hc
    simp [headerD]
  · simp only [Cols.names, List.mem_singleton] at hc
    subst hc
    simp [headerD]
  · rcases entriesOf_cases hef with ⟨_, rfl⟩ | ⟨_, rfl, _⟩
    · obtain ⟨g, hg, i, _, hgc⟩ := axisCols_mem (by simpa [Cols.names] using hc)
      exact mem_header_of_feat feats g hg c (by simp [FeatDesc.names, Cols.names, hgc])
    · exact mem_header_of_feat feats f hf c hc

theorem sources_in_header {nax : Nat} {feats : List FeatDesc} {ns : List NodeRec} :
    ∀ c ∈ sources (nameMapOf nax feats ns), c ∈ headerD feats := by
  intro c hc
  obtain ⟨ts, hts, rfl⟩ := List.mem_map.mp hc
  obtain ⟨t, src⟩ := ts
  rcases mem_flattenMap hts with h | ⟨k, cs, h1, h2, _⟩
  · exact entry_names_in_header h src (by simp [Cols.names])
  · exact entry_names_in_header h1 src (by simpa [Cols.names] using h2)

theorem RegOK.mapOK {nax : Nat} {feats : List FeatDesc} {ns : List NodeRec}
    (h : RegOK nax feats ns) : MapOK (headerD feats) (nameMapOf nax feats ns) := by
  obtain ⟨_, _, hk, ht, hm, _, _⟩ := h
  refine ⟨hk, ht, ?_, sources_in_header, ⟨idName, by simp [nameMapOf]⟩, ⟨parentName, by simp [nameMapOf]⟩⟩
  intro k cs hmem
  unfold manyFresh at hm
  have := List.all_eq_true.mp hm (k, Cols.many cs) hmem
  simp only [Bool.and_eq_true, Bool.not_eq_true', List.isEmpty_eq_false_iff] at this
  refine ⟨this.1, ?_⟩
  have h2 := this.2
  intro hc
  rw [List.contains_iff_mem.mpr hc] at h2
  cases h2

theorem mem_nameMapOf_of_feat {nax : Nat} {feats : List FeatDesc} {ns : List NodeRec} {f : FeatDesc}
    (hf : f ∈ feats) {e : Name × Cols} (he : e ∈ entriesOf nax feats ns f) :
    e ∈ nameMapOf nax feats ns :=
  mem_nameMapOf.mpr (Or.inr (Or.inr ⟨f, hf, he⟩))

/-- an entry of the key map under a key that is none of id / parent_id / time / pos / track_id /
    lineage_id belongs to a registered other feature that has a value -/
theorem entry_noncore {nax : Nat} {feats : List FeatDesc} {ns : List NodeRec} {k : Name} {cl : Cols}
    (he : (k, cl) ∈ nameMapOf nax feats ns) (hc : k ∉ coreKeys) (h1 : k ≠ "id")
    (h2 : k ≠ "parent_id") :
    ∃ g ∈ feats, g.role = Role.other ∧ g.keyName = k ∧ g.cols = cl ∧ live ns g = true := by
  rcases mem_nameMapOf.mp he with e | e | ⟨g, hg, hge⟩
  · exact absurd (congrArg Prod.fst e) h1
  · exact absurd (congrArg Prod.fst e) h2
  · rcases entriesOf_cases hge with ⟨_, e⟩ | ⟨_, e, hl⟩
    · have : k = "pos" := congrArg Prod.fst e
      exact absurd (this ▸ (by decide : "pos" ∈ coreKeys)) hc
    · have hk : k = stdKey g := congrArg Prod.fst e
      have hcl : cl = g.cols := congrArg Prod.snd e
      cases hr : g.role with
      | other =>
        refine ⟨g, hg, hr, ?_, hcl.symm, hl hr⟩
        rw [hk]; simp [stdKey, hr]
      | time => exact absurd (by rw [hk]; simp [stdKey, hr, coreKeys]) hc
      | pos => exact absurd (by rw [hk]; simp [stdKey, hr, coreKeys]) hc
      | tid => exact absurd (by rw [hk]; simp [stdKey, hr, coreKeys]) hc
      | lin => exact absurd (by rw [hk]; simp [stdKey, hr, coreKeys]) hc
      | axis i => exact absurd (by rw [hk]; simp [stdKey, hr, coreKeys]) hc

end Ft.R6H
