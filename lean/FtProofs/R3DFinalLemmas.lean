/-
  FtProofs.R3DFinalLemmas — package R3D: the hypotheses of the whole-history theorems discharged.
  `refusalHyps : RefusalHyps` (delete-node of an existing node, the nested actions of a swap and the
  late paths of add-node are never refused on an `Inv` state), `paintRefusalHyps`, and
  `paintLaw : PaintLaw` (C01 + C11 of a paint at session level).
-/
import FtProofs.R3DHistLemmas
import FtProofs.R3DAccDelLemmas
import FtProofs.R3DAccSwapLemmas
import FtProofs.R3DAccAddLemmas
import FtProofs.R3DLemmas
import FtProofs.R3DRefuseLemmas

namespace Ft.R3D
open Ft Ft.St Ft.R2A1 Ft.R3P List

/-- the three refusal paths left open by `editStep` cannot be taken on an `Inv` state -/
theorem refusalHyps : RefusalHyps where
  delNode := fun s n e hI hn herr => by
    obtain ⟨r, hr⟩ := uDeleteNode_accepts hI.valid hn none
    rw [hr] at herr; cases herr
  swapNested := swapNested_holds
  addNodeLate := addNodeLate_holds

/-- C11 for `UserAddNode`, every refusal path, on an `Inv` state (no argument precondition needed) -/
theorem uAddNode_refused_E {s : St} {a : AddNodeArgs} {e : Err} (hI : Inv s)
    (herr : (s.uAddNode a).2 = .error e) : E (s.uAddNode a).1 s := by
  rcases addNode_refused (a := a) hI with h | h
  · exact h
  · obtain ⟨r, hr⟩ := addNodeLate_ok hI h
    rw [hr] at herr; cases herr

theorem paintRefusalHyps : PaintRefusalHyps where
  delNode_accepts := fun _ _ px hI hn => uDeleteNode_accepts hI.valid hn px
  addNode_refused := fun _ _ _ hI _ _ herr => uAddNode_refused_E hI herr

/-- **C01 + C11 of a paint at session level**, no hypothesis left -/
theorem paintLaw : PaintLaw where
  ok := fun _ _ _ _ _ hI hpre hok => paint_step_ok hI hpre hok
  err := fun _ _ _ _ _ _ hI hpre herr => paint_step_err paintRefusalHyps hI hpre herr

end Ft.R3D
