/-
  FtProofs.R2A1Lemmas — package R2A1 (C01, primitive inverse laws for nodes, attributes, array).

  Part 1  generic theory over a parameter equivalence `E`:
          `InvLaw E` (two-way inverse law of one recorded primitive: inverting lands in the
          `E`-class of the source state *and the record produced by the inversion satisfies the
          law again in the opposite direction*, to every depth), `Chain E`, the group theorem
          `invGroup_chain`, and the bridge `obligation` to `St.C01Obligation` (so that
          `C02_session` can be instantiated with `Rec := Chain E`).
  Part 2  the observational equivalence `ObsEq` (set of observed node records, set of observed
          edge records, array, lookups as sets, registry), the structural well-formedness `WF`
          (distinct node ids / edge keys / attribute keys / lookup keys, duplicate-free lookup
          lists), `ObsW = ObsEq ∧ (WF ↔ WF)`, and the function-level reading `ObsF` of `ObsEq`
          on well-formed states.
  Part 3  per-primitive symmetric step relations (`AttrStep`, `SegStep`, `NodeStep`) and their
          inverse steps.
-/
import FtProofs.InverseLemmas
import FtProofs.BookLemmas
import FtProofs.SegLemmas
import FtProofs.HistoryLemmas

namespace Ft.R2A1
open Ft Ft.St List

/-! ## Part 1 — generic inverse laws over a parameter equivalence -/

structure IsEquiv (E : St → St → Prop) : Prop where
  refl : ∀ s, E s s
  symm : ∀ {s t}, E s t → E t s
  trans : ∀ {s t u}, E s t → E t u → E s u

section Generic
variable (E : St → St → Prop)

/-- depth-`k` inverse law: `r` was recorded on the way from `s` to `s₁`; from every state
    `E`-equivalent to `s₁` inverting `r` succeeds, lands in the `E`-class of `s`, and the record
    `r'` of that inversion satisfies the depth-`k-1` law for the way back from `s₁` to `s`. -/
def InvLawN : Nat → St → PrimRec → St → Prop
  | 0, _, _, _ => True
  | k + 1, s, r, s₁ => ∀ s₁', E s₁' s₁ →
      ∃ s₂ r', s₁'.invPrim r = .ok (s₂, r') ∧ E s₂ s ∧ InvLawN k s₁ r' s

/-- the inverse law to every depth (undo, redo, undo, …) -/
def InvLaw (s : St) (r : PrimRec) (s₁ : St) : Prop := ∀ k, InvLawN E k s r s₁

variable {E}

/-- unfolding: one inversion step, and the law again for the produced record -/
theorem InvLaw.step {s s₁ : St} {r : PrimRec} (h : InvLaw E s r s₁) {s₁' : St} (he : E s₁' s₁) :
    ∃ s₂ r', s₁'.invPrim r = .ok (s₂, r') ∧ E s₂ s ∧ InvLaw E s₁ r' s := by
  obtain ⟨s₂, r', hinv, he2, -⟩ := h 1 s₁' he
  refine ⟨s₂, r', hinv, he2, ?_⟩
  intro k
  obtain ⟨s₂', r'', hinv', -, hk⟩ := h (k + 1) s₁' he
  rw [hinv] at hinv'
  cases hinv'
  exact hk

/-- coinduction: a predicate on (source, record, target) that is closed under inversion gives
    the law to every depth -/
theorem InvLaw.of_closed (Good : St → PrimRec → St → Prop)
    (hstep : ∀ s r s₁, Good s r s₁ → ∀ s₁', E s₁' s₁ →
      ∃ s₂ r', s₁'.invPrim r = .ok (s₂, r') ∧ E s₂ s ∧ Good s₁ r' s)
    {s s₁ : St} {r : PrimRec} (h : Good s r s₁) : InvLaw E s r s₁ := by
  intro k
  induction k generalizing s s₁ r with
  | zero => trivial
  | succ k ih =>
    intro s₁' he
    obtain ⟨s₂, r', hinv, he2, hg⟩ := hstep s r s₁ h s₁' he
    exact ⟨s₂, r', hinv, he2, ih hg⟩

theorem InvLawN.congr (hE : IsEquiv E) : ∀ (k : Nat) {s s₁ t t₁ : St} {r : PrimRec},
    InvLawN E k s r s₁ → E s t → E s₁ t₁ → InvLawN E k t r t₁
  | 0, _, _, _, _, _, _, _, _ => trivial
  | k + 1, s, s₁, t, t₁, r, h, hs, hs₁ => by
    intro s₁' he
    obtain ⟨s₂, r', hinv, he2, hk⟩ := h s₁' (hE.trans he (hE.symm hs₁))
    exact ⟨s₂, r', hinv, hE.trans he2 hs, InvLawN.congr hE k hk hs₁ hs⟩

/-- the law only depends on the `E`-classes of its two states -/
theorem InvLaw.congr (hE : IsEquiv E) {s s₁ t t₁ : St} {r : PrimRec}
    (h : InvLaw E s r s₁) (hs : E s t) (hs₁ : E s₁ t₁) : InvLaw E t r t₁ :=
  fun k => InvLawN.congr hE k (h k) hs hs₁

variable (E)

/-- a recorded run `s —r₁→ s₁ —r₂→ … —rₙ→ sₙ` (states up to `E`) in which every primitive
    satisfies its inverse law at the state where it was applied -/
inductive Chain : St → List PrimRec → St → Prop where
  | nil {s t : St} : E s t → Chain s [] t
  | cons {s s₁ sₙ : St} {r : PrimRec} {rs : List PrimRec} :
      InvLaw E s r s₁ → Chain s₁ rs sₙ → Chain s (r :: rs) sₙ

variable {E}

theorem Chain.congr (hE : IsEquiv E) {s sₙ : St} {recs : List PrimRec} (h : Chain E s recs sₙ) :
    ∀ {t tₙ : St}, E s t → E sₙ tₙ → Chain E t recs tₙ := by
  induction h with
  | nil h0 => intro t tₙ h1 h2; exact Chain.nil (hE.trans (hE.symm h1) (hE.trans h0 h2))
  | cons hl _ ih =>
    intro t tₙ h1 h2
    exact Chain.cons (hl.congr hE h1 (hE.refl _)) (ih (hE.refl _) h2)

theorem Chain.snoc (hE : IsEquiv E) {s sₙ t : St} {recs : List PrimRec} {r : PrimRec}
    (h : Chain E s recs sₙ) (hl : InvLaw E sₙ r t) : Chain E s (recs ++ [r]) t := by
  induction h with
  | nil h0 => exact Chain.cons (hl.congr hE (hE.symm h0) (hE.refl _)) (Chain.nil (hE.refl _))
  | cons hl' _ ih => exact Chain.cons hl' (ih hl)

theorem Chain.single (hE : IsEquiv E) {s s₁ : St} {r : PrimRec} (h : InvLaw E s r s₁) :
    Chain E s [r] s₁ := Chain.cons h (Chain.nil (hE.refl _))

theorem Chain.append (hE : IsEquiv E) {s t u : St} {l₁ l₂ : List PrimRec}
    (h₁ : Chain E s l₁ t) (h₂ : Chain E t l₂ u) : Chain E s (l₁ ++ l₂) u := by
  induction h₁ with
  | nil h0 => exact h₂.congr hE (hE.symm h0) (hE.refl _)
  | cons hl _ ih => exact Chain.cons hl (ih h₂)

/-- **group theorem**: `ActionGroup.inverse` of a lawful run, started anywhere in the `E`-class
    of its end state, succeeds, lands in the `E`-class of its start state, and the list of
    inverse records it returns is again a lawful run, from the end state back to the start -/
theorem invGroup_chain (hE : IsEquiv E) {s sₙ : St} {recs : List PrimRec} (h : Chain E s recs sₙ) :
    ∀ sₙ', E sₙ' sₙ → ∃ s' recs', sₙ'.invGroup recs = (s', .ok recs') ∧ E s' s ∧
      recs'.length = recs.length ∧ Chain E sₙ recs' s := by
  induction h with
  | nil h0 =>
    intro sₙ' he
    exact ⟨sₙ', [], rfl, hE.trans he (hE.symm h0), rfl, Chain.nil (hE.symm h0)⟩
  | cons hl _ ih =>
    intro sₙ' he
    obtain ⟨s₁', recs', hg, he1, hlen, hch⟩ := ih sₙ' he
    obtain ⟨s₂, r', hinv, he2, hl'⟩ := hl.step he1
    refine ⟨s₂, recs' ++ [r'], ?_, he2, by simp [hlen], hch.snoc hE hl'⟩
    rw [invGroup_cons, hg]
    simp only [invStep, hinv]

/-- the bridge to `C02_session`: with `Rec := Chain E` the C01 obligation of the history
    theorem holds for every equivalence `E` that ignores the control fields -/
theorem obligation (hE : IsEquiv E) (hctl : ∀ u h, E (stepped u h) u) :
    C01Obligation (fun a s t => Chain E s a t) E := by
  refine ⟨hE.refl, hE.symm, hE.trans, hctl, ?_, ?_⟩
  · intro a s t s' t' hr h1 h2; exact hr.congr hE h1 h2
  · intro a s t t' hr he
    obtain ⟨s', recs', hg, he', -, hch⟩ := invGroup_chain hE hr t' he
    have hok : (t'.invGroup a).2 = .ok recs' := by rw [hg]
    have ht := invTotal_ok hok
    refine ⟨⟨recs', hok⟩, ?_, ?_⟩
    · rw [ht, hg]; exact he'
    · rw [ht]; exact hch

end Generic

/-- the one-step law of `InverseLemmas` is the depth-1 projection of the law over `St.Equiv` -/
theorem invLaw_equiv_old {s s₁ : St} {r : PrimRec} (h : InvLaw St.Equiv s r s₁) : St.InvLaw s r s₁ := by
  intro s₁' he
  obtain ⟨s₂, r', hinv, he2, -⟩ := h 1 s₁' he
  exact ⟨s₂, r', hinv, he2⟩

/-! ## Part 2 — the observational equivalence -/

/-- what a reader sees of an attribute dictionary: key ↦ value, `None` ≡ absent -/
def obsAttrs (l : List (Key × Val)) : Key → Val := fun k => (alook k l).getD Val.none

abbrev NodeObs := Node × Nat × Nat × Option Nat × (Key → Val)
abbrev EdgeObs := Edge × (Key → Val)

/-- observed node record: id, time, track id, lineage id, every other attribute -/
def obsNode (r : NodeRec) : NodeObs := (r.id, r.time, r.tid, r.lin, obsAttrs r.other)
/-- observed edge record: end points and every attribute -/
def obsEdge (r : EdgeRec) : EdgeObs := (r.e, obsAttrs r.attrs)

def NObs (s : St) (o : NodeObs) : Prop := ∃ r ∈ s.nodes, obsNode r = o
def EObs (s : St) (o : EdgeObs) : Prop := ∃ r ∈ s.edges, obsEdge r = o

/-- **observational equivalence**: the same observed nodes (id ↦ time, track id, lineage id,
    key ↦ value with None ≡ absent), the same observed edges, the same array, the same lookups
    as sets, the same registry. Insertion orders, the id maxima, the node-id counter, the
    history and the refresh log are not compared. -/
structure ObsEq (s t : St) : Prop where
  nodes : ∀ o, NObs s o ↔ NObs t o
  edges : ∀ o, EObs s o ↔ EObs t o
  seg : s.seg = t.seg
  t2n : ∀ id n, PC.InBook s.t2n id n ↔ PC.InBook t.t2n id n
  l2n : ∀ id n, PC.InBook s.l2n id n ↔ PC.InBook t.l2n id n
  reg : s.reg = t.reg

theorem ObsEq.refl (s : St) : ObsEq s s :=
  ⟨fun _ => Iff.rfl, fun _ => Iff.rfl, rfl, fun _ _ => Iff.rfl, fun _ _ => Iff.rfl, rfl⟩
theorem ObsEq.symm {s t : St} (h : ObsEq s t) : ObsEq t s :=
  ⟨fun o => (h.nodes o).symm, fun o => (h.edges o).symm, h.seg.symm, fun a b => (h.t2n a b).symm,
    fun a b => (h.l2n a b).symm, h.reg.symm⟩
theorem ObsEq.trans {s t u : St} (h : ObsEq s t) (g : ObsEq t u) : ObsEq s u :=
  ⟨fun o => (h.nodes o).trans (g.nodes o), fun o => (h.edges o).trans (g.edges o), h.seg.trans g.seg,
    fun a b => (h.t2n a b).trans (g.t2n a b), fun a b => (h.l2n a b).trans (g.l2n a b),
    h.reg.trans g.reg⟩

theorem obsEq_isEquiv : IsEquiv ObsEq := ⟨ObsEq.refl, ObsEq.symm, ObsEq.trans⟩

/-- the structural `Equiv` of SessionSpec is finer than `ObsEq` -/
theorem ObsEq.of_equiv {s t : St} (h : St.Equiv s t) : ObsEq s t := by
  refine ⟨?_, ?_, h.seg, h.t2n, h.l2n, ?_⟩
  · intro o
    exact ⟨fun ⟨r, hr, ho⟩ => ⟨r, (h.nodes r).mp hr, ho⟩, fun ⟨r, hr, ho⟩ => ⟨r, (h.nodes r).mpr hr, ho⟩⟩
  · intro o
    exact ⟨fun ⟨r, hr, ho⟩ => ⟨r, (h.edges r).mp hr, ho⟩, fun ⟨r, hr, ho⟩ => ⟨r, (h.edges r).mpr hr, ho⟩⟩
  · obtain ⟨h1, h2, h3, h4, h5, h6, h7, h8⟩ := h.reg
    simp only [St.reg, h1, h2, h3, h4, h5, h6, h7, h8]

theorem ObsEq.stepped (u : St) (h : Hist ActRec) : ObsEq (stepped u h) u :=
  ⟨fun _ => Iff.rfl, fun _ => Iff.rfl, rfl, fun _ _ => Iff.rfl, fun _ _ => Iff.rfl, rfl⟩

/-- structural well-formedness (implied by `Forest ∧ BookOK` plus "attribute dictionaries have
    distinct keys"): what `findNode`/`findEdge`/`alook`/`list.remove` silently rely on -/
structure WF (s : St) : Prop where
  ids : s.ids.Nodup
  edges : s.edgeList.Nodup
  nkeys : ∀ r ∈ s.nodes, (r.other.map (·.1)).Nodup
  ekeys : ∀ r ∈ s.edges, (r.attrs.map (·.1)).Nodup
  t2n : PC.MapWF s.t2n
  l2n : PC.MapWF s.l2n

theorem WF.stepped_iff (u : St) (h : Hist ActRec) : WF (stepped u h) ↔ WF u :=
  ⟨fun ⟨a, b, c, d, e, f⟩ => ⟨a, b, c, d, e, f⟩, fun ⟨a, b, c, d, e, f⟩ => ⟨a, b, c, d, e, f⟩⟩

/-- the equivalence for the session theorem: observationally equal, and well-formed together -/
def ObsW (s t : St) : Prop := ObsEq s t ∧ (WF s ↔ WF t)

theorem obsW_isEquiv : IsEquiv ObsW :=
  ⟨fun s => ⟨ObsEq.refl s, Iff.rfl⟩, fun h => ⟨h.1.symm, h.2.symm⟩,
    fun h g => ⟨h.1.trans g.1, h.2.trans g.2⟩⟩

theorem ObsW.stepped (u : St) (h : Hist ActRec) : ObsW (stepped u h) u :=
  ⟨ObsEq.stepped u h, WF.stepped_iff u h⟩

theorem ObsW.mk' {s t : St} (h : ObsEq s t) (hs : WF s) (ht : WF t) : ObsW s t :=
  ⟨h, ⟨fun _ => ht, fun _ => hs⟩⟩

/-! ### function-level reading of `ObsEq` on well-formed states -/

section Keyed
variable {α κ β : Type} [BEq κ] [LawfulBEq κ]

theorem find_key_of_mem (key : α → κ) : ∀ (l : List α), (l.map key).Nodup → ∀ a ∈ l,
    l.find? (fun x => key x == key a) = some a := by
  intro l
  induction l with
  | nil => intro _ a ha; cases ha
  | cons x xs ih =>
    intro hnd a ha
    rw [map_cons, nodup_cons] at hnd
    rcases mem_cons.mp ha with h | h
    · subst h; simp
    · have hne : ¬ key x = key a := fun e => hnd.1 (e ▸ mem_map.mpr ⟨a, h, rfl⟩)
      rw [find?_cons]
      have : (key x == key a) = false := by simpa using hne
      rw [this]
      exact ih hnd.2 a h

theorem find_key_some (key : α → κ) {l : List α} {k : κ} {a : α}
    (h : l.find? (fun x => key x == k) = some a) : a ∈ l ∧ key a = k :=
  ⟨mem_of_find?_eq_some h, by simpa using find?_some h⟩

/-- on lists with distinct keys: equal observed sets ↔ equal observation under every key -/
theorem obs_set_iff_fun (key : α → κ) (obs : α → β) (hko : ∀ a b, obs a = obs b → key a = key b)
    {l m : List α} (hl : (l.map key).Nodup) (hm : (m.map key).Nodup) :
    (∀ o, (∃ a ∈ l, obs a = o) ↔ (∃ a ∈ m, obs a = o)) ↔
    (∀ k, (l.find? (fun x => key x == k)).map obs = (m.find? (fun x => key x == k)).map obs) := by
  have half : ∀ {l m : List α}, (l.map key).Nodup → (m.map key).Nodup →
      (∀ o, (∃ a ∈ l, obs a = o) → (∃ a ∈ m, obs a = o)) →
      ∀ k a, l.find? (fun x => key x == k) = some a →
        (m.find? (fun x => key x == k)).map obs = some (obs a) := by
    intro l m _ hm h k a ha
    obtain ⟨hal, hak⟩ := find_key_some key ha
    obtain ⟨b, hb, hob⟩ := h _ ⟨a, hal, rfl⟩
    have hkb : key b = k := (hko _ _ hob).trans hak
    have := find_key_of_mem key m hm b hb
    rw [hkb] at this
    rw [this, Option.map_some, hob]
  constructor
  · intro h k
    cases ha : l.find? (fun x => key x == k) with
    | some a => rw [half hl hm (fun o => (h o).mp) k a ha]; rfl
    | none =>
      cases hb : m.find? (fun x => key x == k) with
      | none => rfl
      | some b =>
        have := half hm hl (fun o => (h o).mpr) k b hb
        rw [ha] at this; cases this
  · intro h o
    have dir : ∀ {l m : List α}, (l.map key).Nodup →
        (∀ k, (l.find? (fun x => key x == k)).map obs = (m.find? (fun x => key x == k)).map obs) →
        (∃ a ∈ l, obs a = o) → (∃ a ∈ m, obs a = o) := by
      intro l m hl h ⟨a, ha, hao⟩
      have h1 := find_key_of_mem key l hl a ha
      have h2 := h (key a)
      rw [h1, Option.map_some] at h2
      cases hb : m.find? (fun x => key x == key a) with
      | none => rw [hb] at h2; cases h2
      | some b =>
        rw [hb, Option.map_some] at h2
        exact ⟨b, (find_key_some key hb).1, (Option.some.inj h2).symm.trans hao⟩
    exact ⟨dir hl h, dir hm (fun k => (h k).symm)⟩

end Keyed

/-- observation of node `n` (none = no such node) -/
def nobs (s : St) (n : Node) : Option NodeObs := (s.findNode n).map obsNode
/-- observation of edge `e` -/
def eobs (s : St) (e : Edge) : Option EdgeObs := (s.findEdge e).map obsEdge

theorem nobs_iff {s t : St} (hs : s.ids.Nodup) (ht : t.ids.Nodup) :
    (∀ o, NObs s o ↔ NObs t o) ↔ ∀ n, nobs s n = nobs t n :=
  obs_set_iff_fun (fun r : NodeRec => r.id) obsNode (fun _ _ h => congrArg (·.1) h) hs ht

theorem eobs_iff {s t : St} (hs : s.edgeList.Nodup) (ht : t.edgeList.Nodup) :
    (∀ o, EObs s o ↔ EObs t o) ↔ ∀ e, eobs s e = eobs t e :=
  obs_set_iff_fun (fun r : EdgeRec => r.e) obsEdge (fun _ _ h => congrArg (·.1) h) hs ht

/-- function-level observational equality -/
structure ObsF (s t : St) : Prop where
  nodes : ∀ n, nobs s n = nobs t n
  edges : ∀ e, eobs s e = eobs t e
  seg : s.seg = t.seg
  t2n : ∀ id n, PC.InBook s.t2n id n ↔ PC.InBook t.t2n id n
  l2n : ∀ id n, PC.InBook s.l2n id n ↔ PC.InBook t.l2n id n
  reg : s.reg = t.reg

theorem obsEq_iff_obsF {s t : St} (hs : WF s) (ht : WF t) : ObsEq s t ↔ ObsF s t :=
  ⟨fun h => ⟨(nobs_iff hs.ids ht.ids).mp h.nodes, (eobs_iff hs.edges ht.edges).mp h.edges, h.seg,
      h.t2n, h.l2n, h.reg⟩,
   fun h => ⟨(nobs_iff hs.ids ht.ids).mpr h.nodes, (eobs_iff hs.edges ht.edges).mpr h.edges, h.seg,
      h.t2n, h.l2n, h.reg⟩⟩

theorem ObsW.obsF {s t : St} (h : ObsW s t) (ht : WF t) : ObsF s t :=
  (obsEq_iff_obsF (h.2.mpr ht) ht).mp h.1
theorem ObsW.wf_left {s t : St} (h : ObsW s t) (ht : WF t) : WF s := h.2.mpr ht
theorem ObsW.of_obsF {s t : St} (h : ObsF s t) (hs : WF s) (ht : WF t) : ObsW s t :=
  ObsW.mk' ((obsEq_iff_obsF hs ht).mpr h) hs ht

theorem ObsF.refl (s : St) : ObsF s s :=
  ⟨fun _ => rfl, fun _ => rfl, rfl, fun _ _ => Iff.rfl, fun _ _ => Iff.rfl, rfl⟩
theorem ObsF.symm {s t : St} (h : ObsF s t) : ObsF t s :=
  ⟨fun n => (h.nodes n).symm, fun e => (h.edges e).symm, h.seg.symm, fun a b => (h.t2n a b).symm,
    fun a b => (h.l2n a b).symm, h.reg.symm⟩
theorem ObsF.trans {s t u : St} (h : ObsF s t) (g : ObsF t u) : ObsF s u :=
  ⟨fun n => (h.nodes n).trans (g.nodes n), fun e => (h.edges e).trans (g.edges e), h.seg.trans g.seg,
    fun a b => (h.t2n a b).trans (g.t2n a b), fun a b => (h.l2n a b).trans (g.l2n a b),
    h.reg.trans g.reg⟩

/-! ### readers in terms of `nobs` -/

theorem nobs_isSome_iff (s : St) (n : Node) : (nobs s n).isSome ↔ n ∈ s.ids := by
  unfold nobs; rw [Option.isSome_map]; exact PC.findNode_isSome_iff s n

theorem mem_ids_congr {s t : St} (h : ∀ n, nobs s n = nobs t n) (n : Node) : n ∈ s.ids ↔ n ∈ t.ids := by
  rw [← nobs_isSome_iff, ← nobs_isSome_iff, h n]

theorem hasNode_congr {s t : St} (h : ∀ n, nobs s n = nobs t n) (n : Node) : s.hasNode n = t.hasNode n := by
  have := mem_ids_congr h n
  rw [← PC.hasNode_iff, ← PC.hasNode_iff] at this
  cases h1 : s.hasNode n <;> cases h2 : t.hasNode n <;> simp_all

theorem timeOf_eq_nobs (s : St) (n : Node) : s.timeOf n = (nobs s n).map (·.2.1) := by
  unfold timeOf nobs; rw [Option.map_map]; rfl
theorem tidOf_eq_nobs (s : St) (n : Node) : s.tidOf n = (nobs s n).map (·.2.2.1) := by
  unfold tidOf nobs; rw [Option.map_map]; rfl
theorem linOf_eq_nobs (s : St) (n : Node) : s.linOf n = (nobs s n).bind (·.2.2.2.1) := by
  unfold linOf nobs; cases s.findNode n <;> rfl
theorem otherOf_eq_nobs (s : St) (n : Node) (k : Key) :
    s.otherOf n k = ((nobs s n).map (·.2.2.2.2 k)).getD Val.none := by
  unfold otherOf nobs; cases s.findNode n <;> rfl

theorem timeOf_congr {s t : St} (h : ∀ n, nobs s n = nobs t n) (n : Node) : s.timeOf n = t.timeOf n := by
  rw [timeOf_eq_nobs, timeOf_eq_nobs, h]

theorem reg_fields {s t : St} (h : s.reg = t.reg) :
    s.regNode = t.regNode ∧ s.regEdge = t.regEdge ∧ s.rpActive = t.rpActive ∧ s.iouKey = t.iouKey ∧
    s.iouActive = t.iouActive ∧ s.rpAvail = t.rpAvail ∧ s.linOn = t.linOn ∧ s.posKeys = t.posKeys := by
  simp only [St.reg, Prod.mk.injEq] at h
  exact h

theorem InvLaw.undo_redo {E : St → St → Prop} (hE : IsEquiv E) {s s₁ : St} {r : PrimRec}
    (h : InvLaw E s r s₁) :
    ∃ s₂ r', s₁.invPrim r = .ok (s₂, r') ∧ E s₂ s ∧
      ∃ s₃ r'', s₂.invPrim r' = .ok (s₃, r'') ∧ E s₃ s₁ := by
  obtain ⟨s₂, r', h1, h2, h3⟩ := h.step (hE.refl s₁)
  obtain ⟨s₃, r'', h4, h5, -⟩ := h3.step h2
  exact ⟨s₂, r', h1, h2, s₃, r'', h4, h5⟩

/-! ## Part 3a — `UpdateNodeAttrs` -/

/-- `dict.update(attrs)` on the observation of a dictionary (later entries win) -/
def over (attrs : List (Key × Val)) (f : Key → Val) : Key → Val :=
  attrs.foldl (fun f kv => fun k => if k = kv.1 then kv.2 else f k) f

/-- the same on the dictionary -/
def writes (attrs : List (Key × Val)) (o : List (Key × Val)) : List (Key × Val) :=
  attrs.foldl (fun o kv => aset kv.1 kv.2 o) o

theorem obsAttrs_aset (k : Key) (v : Val) (l : List (Key × Val)) :
    obsAttrs (aset k v l) = fun k' => if k' = k then v else obsAttrs l k' := by
  funext k'
  unfold obsAttrs
  rw [PC.alook_aset]
  split <;> rfl

theorem obsAttrs_writes (attrs : List (Key × Val)) : ∀ l, obsAttrs (writes attrs l) = over attrs (obsAttrs l) := by
  induction attrs with
  | nil => intro l; rfl
  | cons kv r ih =>
    intro l
    show obsAttrs (writes r (aset kv.1 kv.2 l)) = over r (fun k => if k = kv.1 then kv.2 else obsAttrs l k)
    rw [ih, obsAttrs_aset]

theorem over_not_mem {attrs : List (Key × Val)} {k : Key} (h : k ∉ attrs.map (·.1)) :
    ∀ f, over attrs f k = f k := by
  induction attrs with
  | nil => intro f; rfl
  | cons kv r ih =>
    intro f
    simp only [map_cons, mem_cons, not_or] at h
    show over r (fun k => if k = kv.1 then kv.2 else f k) k = f k
    rw [ih h.2]; simp [h.1]

theorem over_keys (K : List Key) (g : Key → Val) : ∀ f k,
    over (K.map (fun k => (k, g k))) f k = if k ∈ K then g k else f k := by
  induction K with
  | nil => intro f k; rfl
  | cons a r ih =>
    intro f k
    show over (r.map (fun k => (k, g k))) (fun k => if k = a then g a else f k) k = _
    rw [ih]
    by_cases h1 : k ∈ r
    · simp [h1]
    · by_cases h2 : k = a
      · subst h2; simp [h1]
      · simp [h1, h2]

theorem nodup_keys_writes (attrs : List (Key × Val)) : ∀ l : List (Key × Val), (l.map (·.1)).Nodup →
    ((writes attrs l).map (·.1)).Nodup := by
  induction attrs with
  | nil => intro l h; exact h
  | cons kv r ih => intro l h; exact ih _ (PC.nodup_keys_aset h)

/-- apply `F` to the attribute part of an observed node -/
def mapO (F : (Key → Val) → (Key → Val)) (o : NodeObs) : NodeObs :=
  (o.1, o.2.1, o.2.2.1, o.2.2.2.1, F o.2.2.2.2)

def setAttrs (s : St) (n : Node) (attrs : List (Key × Val)) : St :=
  attrs.foldl (fun st kv => st.setOther n kv.1 kv.2) s

theorem updNode_id (s : St) (n : Node) : s.updNode n (fun r => r) = s := by
  unfold updNode
  have : s.nodes.map (fun r => if r.id == n then r else r) = s.nodes := by
    conv => rhs; rw [← List.map_id s.nodes]
    apply List.map_congr_left
    intro r _; split <;> rfl
  rw [this]

theorem updNode_updNode (s : St) (n : Node) (f g : NodeRec → NodeRec) (hf : ∀ r, (f r).id = r.id) :
    (s.updNode n f).updNode n g = s.updNode n (fun r => g (f r)) := by
  unfold updNode
  simp only [List.map_map]
  congr 1
  apply List.map_congr_left
  intro r _
  simp only [Function.comp]
  by_cases h : r.id == n
  · simp only [h, if_true, hf]
  · simp [h]

theorem setAttrs_eq (attrs : List (Key × Val)) : ∀ (s : St) (n : Node),
    setAttrs s n attrs = s.updNode n (fun r => { r with other := writes attrs r.other }) := by
  induction attrs with
  | nil => intro s n; exact (updNode_id s n).symm
  | cons kv r ih =>
    intro s n
    show setAttrs (s.setOther n kv.1 kv.2) n r = _
    rw [ih]
    exact updNode_updNode s n (fun r => { r with other := aset kv.1 kv.2 r.other }) _ (fun _ => rfl)

theorem nobs_updNode (s : St) (n m : Node) (f : NodeRec → NodeRec) (φ : NodeObs → NodeObs)
    (hf : ∀ r, (f r).id = r.id) (hφ : ∀ r, obsNode (f r) = φ (obsNode r)) :
    nobs (s.updNode n f) m = if m = n then (nobs s n).map φ else nobs s m := by
  unfold nobs
  rw [PC.findNode_updNode _ _ _ _ hf]
  split
  · rw [Option.map_map, Option.map_map]
    congr 1
    funext r; exact hφ r
  · rfl

theorem wf_updNode {s : St} (hw : WF s) (n : Node) (f : NodeRec → NodeRec) (hf : ∀ r, (f r).id = r.id)
    (hk : ∀ r, (r.other.map (·.1)).Nodup → ((f r).other.map (·.1)).Nodup) : WF (s.updNode n f) := by
  refine ⟨?_, hw.edges, ?_, hw.ekeys, hw.t2n, hw.l2n⟩
  · rw [PC.ids_updNode _ _ _ hf]; exact hw.ids
  · intro r hr
    obtain ⟨r0, h0, rfl⟩ := List.mem_map.mp hr
    split
    · exact hk _ (hw.nkeys r0 h0)
    · exact hw.nkeys r0 h0

theorem nobs_setAttrs (s : St) (n m : Node) (attrs : List (Key × Val)) :
    nobs (setAttrs s n attrs) m = if m = n then (nobs s n).map (mapO (over attrs)) else nobs s m := by
  rw [setAttrs_eq]
  exact nobs_updNode s n m _ _ (fun _ => rfl) (fun r => by
    show (_, _, _, _, obsAttrs (writes attrs r.other)) = _
    rw [obsAttrs_writes]; rfl)

theorem wf_setAttrs {s : St} (hw : WF s) (n : Node) (attrs : List (Key × Val)) : WF (setAttrs s n attrs) := by
  rw [setAttrs_eq]
  exact wf_updNode hw n _ (fun _ => rfl) (fun r h => nodup_keys_writes attrs _ h)

theorem setAttrs_frame (s : St) (n : Node) (attrs : List (Key × Val)) :
    (setAttrs s n attrs).edges = s.edges ∧ (setAttrs s n attrs).seg = s.seg ∧
    (setAttrs s n attrs).t2n = s.t2n ∧ (setAttrs s n attrs).l2n = s.l2n ∧
    (setAttrs s n attrs).reg = s.reg := by
  rw [setAttrs_eq]; exact ⟨rfl, rfl, rfl, rfl, rfl⟩

/-- "everything but the node table agrees observationally" -/
abbrev RestEq (s s₁ : St) : Prop := ObsF { s with nodes := s₁.nodes } s₁

theorem RestEq.symm {s s₁ : St} (h : RestEq s s₁) : RestEq s₁ s :=
  ⟨fun _ => rfl, fun e => (h.edges e).symm, h.seg.symm, fun a b => (h.t2n a b).symm,
    fun a b => (h.l2n a b).symm, h.reg.symm⟩

theorem protectedKeys_congr {s t : St} (h : s.reg = t.reg) : s.protectedKeys = t.protectedKeys := by
  obtain ⟨-, -, -, h4, -, h6, -, -⟩ := reg_fields h
  unfold protectedKeys annotKeys
  rw [h4, h6]

/-- the symmetric description of an `UpdateNodeAttrs` step from `s` to `s₁`: `new` was written
    over node `n`, `prev` holds what those keys showed before -/
structure AttrStep (s : St) (n : Node) (prev new : List (Key × Val)) (s₁ : St) : Prop where
  wf : WF s
  wf₁ : WF s₁
  mem : n ∈ s.ids
  keys : prev.map (·.1) = new.map (·.1)
  unprot : ∀ kv ∈ new, kv.1 ∉ s.protectedKeys
  fwd : nobs s₁ n = (nobs s n).map (mapO (over new))
  bwd : nobs s n = (nobs s₁ n).map (mapO (over prev))
  oth : ∀ m, m ≠ n → nobs s₁ m = nobs s m
  rest : RestEq s s₁

theorem AttrStep.mem₁ {s s₁ : St} {n : Node} {prev new : List (Key × Val)}
    (h : AttrStep s n prev new s₁) : n ∈ s₁.ids := by
  rw [← nobs_isSome_iff, h.fwd, Option.isSome_map, nobs_isSome_iff]; exact h.mem

theorem pUpdAttrs_eq {s : St} {n : Node} {attrs : List (Key × Val)} {r : NodeRec}
    (hp : ∀ kv ∈ attrs, kv.1 ∉ s.protectedKeys) (hf : s.findNode n = some r) :
    s.pUpdAttrs n attrs = .ok (setAttrs s n attrs,
      .updAttrs n (attrs.map (fun kv => (kv.1, obsAttrs r.other kv.1))) attrs) := by
  unfold pUpdAttrs
  have : attrs.any (fun kv => s.protectedKeys.contains kv.1) = false := by
    rw [List.any_eq_false]
    intro kv hkv
    simpa using hp kv hkv
  rw [this]
  simp only [Bool.false_eq_true, if_false, hf]
  rfl

/-- one inversion of an `UpdateNodeAttrs` record, from anywhere in the class of the post state -/
theorem attr_step {s s₁ : St} {n : Node} {prev new : List (Key × Val)}
    (h : AttrStep s n prev new s₁) {s₁' : St} (he : ObsW s₁' s₁) :
    ∃ s₂ prev', s₁'.invPrim (.updAttrs n prev new) = .ok (s₂, .updAttrs n prev' prev) ∧ ObsW s₂ s ∧
      AttrStep s₁ n prev' prev s := by
  have hF := he.obsF h.wf₁
  have hw' := he.wf_left h.wf₁
  have hreg1 : s₁'.reg = s₁.reg := hF.reg
  have hreg : s₁.reg = s.reg := h.rest.reg.symm
  have hprot : ∀ kv ∈ prev, kv.1 ∉ s.protectedKeys := by
    intro kv hkv
    have : kv.1 ∈ new.map (·.1) := h.keys ▸ mem_map.mpr ⟨kv, hkv, rfl⟩
    obtain ⟨kv', hkv', hk⟩ := mem_map.mp this
    rw [← hk]; exact h.unprot kv' hkv'
  have hmem' : n ∈ s₁'.ids := (mem_ids_congr hF.nodes n).mpr h.mem₁
  obtain ⟨r, hr⟩ := Option.isSome_iff_exists.mp ((PC.findNode_isSome_iff s₁' n).mpr hmem')
  have hinv := pUpdAttrs_eq (s := s₁') (n := n) (attrs := prev) (r := r)
    (by rw [protectedKeys_congr (hreg1.trans hreg)]; exact hprot) hr
  have hnr : nobs s₁ n = some (obsNode r) := by rw [← hF.nodes n]; unfold nobs; rw [hr]; rfl
  refine ⟨_, _, hinv, ?_, ?_⟩
  · refine ObsW.of_obsF ?_ (wf_setAttrs hw' n prev) h.wf
    obtain ⟨f1, f2, f3, f4, f5⟩ := setAttrs_frame s₁' n prev
    refine ⟨?_, fun e => ?_, by rw [f2]; exact hF.seg.trans h.rest.seg.symm,
      fun a b => by rw [f3]; exact (hF.t2n a b).trans (h.rest.t2n a b).symm,
      fun a b => by rw [f4]; exact (hF.l2n a b).trans (h.rest.l2n a b).symm, by rw [f5]; exact hreg1.trans hreg⟩
    rotate_left
    · have : eobs (setAttrs s₁' n prev) e = eobs s₁' e := by unfold eobs findEdge; rw [f1]
      rw [this]; exact (hF.edges e).trans (h.rest.edges e).symm
    · intro m
      rw [nobs_setAttrs]
      split
      · rename_i hm; subst hm; rw [hF.nodes, ← h.bwd]
      · rename_i hm; rw [hF.nodes, h.oth m hm]
  · refine ⟨h.wf₁, h.wf, h.mem₁, by rw [map_map]; rfl, ?_, h.bwd, ?_, fun m hm => (h.oth m hm).symm,
      h.rest.symm⟩
    · intro kv hkv; rw [protectedKeys_congr hreg]; exact hprot kv hkv
    · -- writing the post values of the touched keys over the pre state gives the post state
      obtain ⟨o₀, ho₀⟩ := Option.isSome_iff_exists.mp ((nobs_isSome_iff s n).mpr h.mem)
      have hfw := h.fwd
      rw [ho₀, hnr, Option.map_some] at hfw
      rw [hnr, ho₀, Option.map_some]
      have hattr : obsAttrs r.other = over new o₀.2.2.2.2 := congrArg (·.2.2.2.2) (Option.some.inj hfw)
      rw [Option.some.inj hfw]
      congr 1
      unfold mapO
      congr 4
      funext k
      have : prev.map (fun kv => (kv.1, obsAttrs r.other kv.1))
          = (prev.map (·.1)).map (fun k => (k, obsAttrs r.other k)) := by rw [map_map]; rfl
      rw [this, over_keys, h.keys]
      split
      · rw [hattr]
      · rename_i hk; exact (over_not_mem hk _)

/-- an accepted `UpdateNodeAttrs` on a well-formed state is such a step -/
theorem pUpdAttrs_attrStep {s s₁ : St} {n : Node} {attrs : List (Key × Val)} {rec : PrimRec}
    (hw : WF s) (h : s.pUpdAttrs n attrs = .ok (s₁, rec)) :
    ∃ prev, rec = .updAttrs n prev attrs ∧ AttrStep s n prev attrs s₁ := by
  have hp : ∀ kv ∈ attrs, kv.1 ∉ s.protectedKeys := by
    intro kv hkv hc
    unfold pUpdAttrs at h
    have : attrs.any (fun kv => s.protectedKeys.contains kv.1) = true :=
      List.any_eq_true.mpr ⟨kv, hkv, by simpa using hc⟩
    rw [this] at h; cases h
  cases hf : s.findNode n with
  | none =>
    unfold pUpdAttrs at h
    rw [hf] at h
    split at h <;> cases h
  | some r =>
    rw [pUpdAttrs_eq hp hf] at h
    simp only [Except.ok.injEq, Prod.mk.injEq] at h
    obtain ⟨h1, h2⟩ := h
    subst h1; subst h2
    have hn : nobs s n = some (obsNode r) := by unfold nobs; rw [hf]; rfl
    refine ⟨_, rfl, hw, wf_setAttrs hw n attrs, (PC.findNode_isSome_iff s n).mp (by rw [hf]; rfl),
      by rw [map_map]; rfl, hp, by rw [nobs_setAttrs, if_pos rfl], ?_,
      fun m hm => by rw [nobs_setAttrs, if_neg hm], ?_⟩
    · rw [nobs_setAttrs, if_pos rfl, hn, Option.map_some, Option.map_some]
      congr 1
      show obsNode r = (r.id, r.time, r.tid, r.lin, _)
      unfold obsNode
      congr 4
      funext k
      have : attrs.map (fun kv => (kv.1, obsAttrs r.other kv.1))
          = (attrs.map (·.1)).map (fun k => (k, obsAttrs r.other k)) := by rw [map_map]; rfl
      show _ = over _ (over attrs (obsAttrs r.other)) k
      rw [this, over_keys]
      split
      · rfl
      · rename_i hk; exact (over_not_mem hk _).symm
    · rw [setAttrs_eq]; exact ObsF.refl _

/-- closed-under-inversion predicate for `UpdateNodeAttrs` records -/
def GoodAttr (s : St) (r : PrimRec) (s₁ : St) : Prop :=
  ∃ n prev new, r = .updAttrs n prev new ∧ AttrStep s n prev new s₁

theorem goodAttr_closed (s : St) (r : PrimRec) (s₁ : St) (h : GoodAttr s r s₁) (s₁' : St)
    (he : ObsW s₁' s₁) : ∃ s₂ r', s₁'.invPrim r = .ok (s₂, r') ∧ ObsW s₂ s ∧ GoodAttr s₁ r' s := by
  obtain ⟨n, prev, new, rfl, hs⟩ := h
  obtain ⟨s₂, prev', h1, h2, h3⟩ := attr_step hs he
  exact ⟨s₂, _, h1, h2, n, prev', prev, rfl, h3⟩

theorem invLaw_updAttrs {s s₁ : St} {n : Node} {attrs : List (Key × Val)} {rec : PrimRec}
    (hw : WF s) (h : s.pUpdAttrs n attrs = .ok (s₁, rec)) : InvLaw ObsW s rec s₁ := by
  obtain ⟨prev, rfl, hs⟩ := pUpdAttrs_attrStep hw h
  exact InvLaw.of_closed GoodAttr goodAttr_closed ⟨n, prev, attrs, rfl, hs⟩

/-! ## Part 3b — `AddNode` / `DeleteNode` -/

theorem trackOnAdd_cases (s : St) (r : NodeRec) :
    (∃ l, s.linOn = true ∧ r.lin = some l ∧ s.trackOnAdd r = (s.bookAddT [r.id] r.tid).bookAddL [r.id] l) ∨
    ((s.linOn = true → r.lin = none) ∧ s.trackOnAdd r = s.bookAddT [r.id] r.tid) := by
  unfold trackOnAdd
  cases hl : s.linOn with
  | false => right; exact ⟨fun h => (by cases h), rfl⟩
  | true =>
    cases hr : r.lin with
    | none => right; exact ⟨fun _ => rfl, rfl⟩
    | some l => left; exact ⟨l, rfl, rfl, rfl⟩

theorem trackOnDelete_cases (s : St) (r : NodeRec) :
    (∃ l, s.linOn = true ∧ r.lin = some l ∧ s.trackOnDelete r = (s.bookRemT [r.id] r.tid).bookRemL [r.id] l) ∨
    ((s.linOn = true → r.lin = none) ∧ s.trackOnDelete r = s.bookRemT [r.id] r.tid) := by
  unfold trackOnDelete
  cases hl : s.linOn with
  | false => right; exact ⟨fun h => (by cases h), rfl⟩
  | true =>
    cases hr : r.lin with
    | none => right; exact ⟨fun _ => rfl, rfl⟩
    | some l => left; exact ⟨l, rfl, rfl, rfl⟩

/-- effect of `_handle_add_node` on the lookups -/
theorem trackOnAdd_desc (s : St) (r : NodeRec) :
    (s.trackOnAdd r).nodes = s.nodes ∧ (s.trackOnAdd r).edges = s.edges ∧ (s.trackOnAdd r).seg = s.seg ∧
    (s.trackOnAdd r).reg = s.reg ∧
    (∀ id m, PC.InBook (s.trackOnAdd r).t2n id m ↔ PC.InBook s.t2n id m ∨ (id = r.tid ∧ m = r.id)) ∧
    (∀ id m, PC.InBook (s.trackOnAdd r).l2n id m ↔
        PC.InBook s.l2n id m ∨ (s.linOn = true ∧ r.lin = some id ∧ m = r.id)) ∧
    (PC.MapWF s.t2n → ¬ PC.InBook s.t2n r.tid r.id → PC.MapWF (s.trackOnAdd r).t2n) ∧
    (PC.MapWF s.l2n → PC.MapWF (s.trackOnAdd r).l2n) := by
  have hT : ∀ id m, PC.InBook (s.bookAddT [r.id] r.tid).t2n id m ↔
      PC.InBook s.t2n id m ∨ (id = r.tid ∧ m = r.id) := by
    intro id m
    have := PC.inBook_addT s.t2n [r.id] r.tid id m
    rw [List.mem_singleton] at this
    exact this
  have hTwf : PC.MapWF s.t2n → ¬ PC.InBook s.t2n r.tid r.id → PC.MapWF (s.bookAddT [r.id] r.tid).t2n := by
    intro h1 h2
    refine PC.mapWF_addT h1 [r.id] r.tid (by simp) ?_
    intro n hn; rw [List.mem_singleton] at hn; subst hn; exact h2
  rcases trackOnAdd_cases s r with ⟨l, hl, hr, e⟩ | ⟨hno, e⟩
  · rw [e]
    refine ⟨rfl, rfl, rfl, rfl, hT, ?_, hTwf, ?_⟩
    · intro id m
      have := PC.inBook_addL s.l2n [r.id] l id m
      rw [List.mem_singleton] at this
      refine this.trans ?_
      constructor
      · rintro (h | ⟨h1, h2⟩)
        · exact Or.inl h
        · exact Or.inr ⟨hl, by rw [hr, h1], h2⟩
      · rintro (h | ⟨_, h1, h2⟩)
        · exact Or.inl h
        · rw [hr] at h1; exact Or.inr ⟨(Option.some.inj h1).symm, h2⟩
    · intro h; exact PC.mapWF_addL h [r.id] l
  · rw [e]
    refine ⟨rfl, rfl, rfl, rfl, hT, ?_, hTwf, fun h => h⟩
    intro id m
    constructor
    · intro h; exact Or.inl h
    · rintro (h | ⟨h1, h2, _⟩)
      · exact h
      · rw [hno h1] at h2; cases h2

/-- effect of `_handle_delete_node` on the lookups -/
theorem trackOnDelete_desc (s : St) (r : NodeRec) (hwt : PC.MapWF s.t2n) (hwl : PC.MapWF s.l2n) :
    (s.trackOnDelete r).nodes = s.nodes ∧ (s.trackOnDelete r).edges = s.edges ∧
    (s.trackOnDelete r).seg = s.seg ∧ (s.trackOnDelete r).reg = s.reg ∧
    (∀ id m, PC.InBook (s.trackOnDelete r).t2n id m ↔ PC.InBook s.t2n id m ∧ ¬ (id = r.tid ∧ m = r.id)) ∧
    (∀ id m, PC.InBook (s.trackOnDelete r).l2n id m ↔
        PC.InBook s.l2n id m ∧ ¬ (s.linOn = true ∧ r.lin = some id ∧ m = r.id)) ∧
    PC.MapWF (s.trackOnDelete r).t2n ∧ PC.MapWF (s.trackOnDelete r).l2n := by
  have hT : ∀ id m, PC.InBook (s.bookRemT [r.id] r.tid).t2n id m ↔
      PC.InBook s.t2n id m ∧ ¬ (id = r.tid ∧ m = r.id) := by
    intro id m
    have := PC.inBook_bookRem hwt [r.id] r.tid id m
    rw [List.mem_singleton] at this
    exact this
  have hTwf : PC.MapWF (s.bookRemT [r.id] r.tid).t2n := PC.mapWF_bookRem hwt _ _
  rcases trackOnDelete_cases s r with ⟨l, hl, hr, e⟩ | ⟨hno, e⟩
  · rw [e]
    refine ⟨rfl, rfl, rfl, rfl, hT, ?_, hTwf, PC.mapWF_bookRem hwl _ _⟩
    intro id m
    have := PC.inBook_bookRem hwl [r.id] l id m
    rw [List.mem_singleton] at this
    refine this.trans (and_congr_right fun _ => not_congr ?_)
    constructor
    · rintro ⟨h1, h2⟩; exact ⟨hl, by rw [hr, h1], h2⟩
    · rintro ⟨_, h1, h2⟩; rw [hr] at h1; exact ⟨(Option.some.inj h1).symm, h2⟩
  · rw [e]
    refine ⟨rfl, rfl, rfl, rfl, hT, ?_, hTwf, hwl⟩
    intro id m
    constructor
    · intro h; refine ⟨h, ?_⟩; rintro ⟨h1, h2, _⟩; rw [hno h1] at h2; cases h2
    · rintro ⟨h, _⟩; exact h

theorem paintWith_frame (s : St) (px : Option (List Pix)) (v : Nat) :
    (s.paintWith px v).nodes = s.nodes ∧ (s.paintWith px v).edges = s.edges ∧
    (s.paintWith px v).t2n = s.t2n ∧ (s.paintWith px v).l2n = s.l2n ∧ (s.paintWith px v).reg = s.reg ∧
    (s.paintWith px v).linOn = s.linOn := by
  unfold paintWith; split <;> exact ⟨rfl, rfl, rfl, rfl, rfl, rfl⟩

theorem wf_of_frame {s t : St} (hw : WF s) (hn : t.nodes = s.nodes) (he : t.edges = s.edges)
    (ht : t.t2n = s.t2n) (hl : t.l2n = s.l2n) : WF t := by
  obtain ⟨a, b, c, d, e, f⟩ := hw
  refine ⟨?_, ?_, ?_, ?_, ?_, ?_⟩
  · unfold St.ids; rw [hn]; exact a
  · unfold St.edgeList; rw [he]; exact b
  · rw [hn]; exact c
  · rw [he]; exact d
  · rw [ht]; exact e
  · rw [hl]; exact f

theorem findNode_append_new {s : St} {r : NodeRec} (h : r.id ∉ s.ids) (m : Node) :
    ({ s with nodes := s.nodes ++ [r] } : St).findNode m = if m = r.id then some r else s.findNode m := by
  unfold findNode
  show (s.nodes ++ [r]).find? _ = _
  rw [List.find?_append]
  by_cases hm : m = r.id
  · subst hm
    have : s.nodes.find? (fun x => x.id == r.id) = none := by
      rw [List.find?_eq_none]
      intro x hx hc
      exact h (mem_map.mpr ⟨x, hx, by simpa using hc⟩)
    rw [this]; simp
  · have : ([r] : List NodeRec).find? (fun x => x.id == m) = none := by
      rw [List.find?_eq_none]
      intro x hx hc
      rw [List.mem_singleton] at hx; rw [hx] at hc
      exact hm (by simpa using hc : r.id = m).symm
    rw [this, if_neg hm]; simp

theorem find_filter_ne (l : List NodeRec) (n m : Node) :
    (l.filter (·.id != n)).find? (·.id == m) = if m = n then none else l.find? (·.id == m) := by
  rw [List.find?_filter]
  by_cases hm : m = n
  · subst hm
    rw [if_pos rfl, List.find?_eq_none]
    intro x _ hc
    simp at hc
  · rw [if_neg hm]
    congr 1
    funext x
    by_cases hx : x.id = m
    · simp [hx, hm]
    · simp [hx]

theorem obsAttrs_asets (ks : List Key) (v : Val) (o : List (Key × Val)) :
    obsAttrs (asets ks v o) = fun k => if k ∈ ks then v else obsAttrs o k := by
  funext k
  unfold obsAttrs
  by_cases hk : k ∈ ks
  · rw [alook_asets_mem hk, if_pos hk]; rfl
  · rw [alook_asets_not_mem hk, if_neg hk]

theorem nodup_keys_asets (ks : List Key) (v : Val) : ∀ o : List (Key × Val), (o.map (·.1)).Nodup →
    ((asets ks v o).map (·.1)).Nodup := by
  induction ks with
  | nil => intro o h; exact h
  | cons k r ih => intro o h; exact ih _ (PC.nodup_keys_aset h)

/-- `RegionpropsAnnotator.update(node)` in closed form: the records of `n` get `v` under the keys `ks` -/
theorem rpUpdate_upd (s : St) (n : Node) :
    ∃ ks v, s.rpUpdate n = s.updNode n (fun r => { r with other := asets ks v r.other }) ∧
      (∀ g t, s.seg = some g → s.timeOf n = some t → ks = s.rpActive ∧ v = g.maskVal t n) ∧
      ((s.seg = none ∨ s.timeOf n = none) → ks = []) := by
  have hid : s = s.updNode n (fun r => { r with other := asets [] Val.none r.other }) :=
    (updNode_id s n).symm
  rw [rpUpdate_eq]
  cases hg : s.seg with
  | none => exact ⟨[], Val.none, hid, fun g t h => (by cases h), fun _ => rfl⟩
  | some g =>
    cases ht : s.timeOf n with
    | none => exact ⟨[], Val.none, hid, fun g t _ h => (by cases h), fun _ => rfl⟩
    | some t =>
      simp only
      by_cases hemp : s.rpActive.isEmpty = true
      · have he : s.rpActive = [] := by simpa using hemp
        refine ⟨[], g.maskVal t n, ?_, ?_, ?_⟩
        · simp only [hemp, if_true]; exact (updNode_id s n).symm
        · intro g' t' h1 h2; cases h1; cases h2
          exact ⟨he.symm, rfl⟩
        · intro _; rfl
      · refine ⟨s.rpActive, g.maskVal t n, ?_, ?_, ?_⟩
        · simp only [hemp]
          rw [setOthers_eq]
          simp only [Seg.maskVal, List.isEmpty_iff]
          rfl
        · intro g' t' h1 h2; cases h1; cases h2; exact ⟨rfl, rfl⟩
        · rintro (h | h) <;> cases h

theorem wf_append {s : St} (hw : WF s) {r : NodeRec} (hf : r.id ∉ s.ids)
    (hk : (r.other.map (·.1)).Nodup) : WF ({ s with nodes := s.nodes ++ [r] } : St) := by
  refine ⟨?_, hw.edges, ?_, hw.ekeys, hw.t2n, hw.l2n⟩
  · show ((s.nodes ++ [r]).map (·.id)).Nodup
    rw [map_append, nodup_append]
    refine ⟨hw.ids, by simp, ?_⟩
    intro a ha b hb e
    simp at hb; subst hb; subst e; exact hf ha
  · intro x hx
    rcases mem_append.mp hx with h | h
    · exact hw.nkeys x h
    · rw [mem_singleton] at h; rw [h]; exact hk

/-- the state after `AddNode(rec, px)` -/
def addRes (s : St) (rec : NodeRec) (px : Option (List Pix)) : St :=
  (((s.paintWith px rec.id).addNodeRaw rec).rpUpdate rec.id).trackAdd rec.id

/-- what `AddNode(rec, px)` of a fresh id does, observationally -/
structure AddDesc (s : St) (rec : NodeRec) (px : Option (List Pix)) (s₁ : St) : Prop where
  wf₁ : WF s₁
  seg : s₁.seg = (s.paintWith px rec.id).seg
  edges : s₁.edges = s.edges
  reg : s₁.reg = s.reg
  nodes : ∃ ks v, (∀ m, nobs s₁ m = if m = rec.id then
        some (mapO (fun f k => if k ∈ ks then v else f k) (obsNode rec)) else nobs s m) ∧
      (∀ g, s₁.seg = some g → ks = s.rpActive ∧ v = g.maskVal rec.time rec.id) ∧
      (s₁.seg = none → ks = [])
  t2n : ∀ id m, PC.InBook s₁.t2n id m ↔ PC.InBook s.t2n id m ∨ (id = rec.tid ∧ m = rec.id)
  l2n : ∀ id m, PC.InBook s₁.l2n id m ↔
      PC.InBook s.l2n id m ∨ (s.linOn = true ∧ rec.lin = some id ∧ m = rec.id)

theorem add_desc {s : St} (hw : WF s) {rec : NodeRec} (hfresh : rec.id ∉ s.ids)
    (hk : (rec.other.map (·.1)).Nodup) (hnb : ¬ PC.InBook s.t2n rec.tid rec.id)
    (px : Option (List Pix)) : AddDesc s rec px (addRes s rec px) := by
  unfold addRes
  obtain ⟨a, ha⟩ : ∃ a, a = s.paintWith px rec.id := ⟨_, rfl⟩
  rw [← ha]
  obtain ⟨an, ae, at_, al, ar, alin⟩ : a.nodes = s.nodes ∧ a.edges = s.edges ∧ a.t2n = s.t2n ∧
      a.l2n = s.l2n ∧ a.reg = s.reg ∧ a.linOn = s.linOn := ha ▸ paintWith_frame s px rec.id
  have hwa : WF a := wf_of_frame hw an ae at_ al
  have haids : a.ids = s.ids := by unfold St.ids; rw [an]
  have hfa : rec.id ∉ a.ids := haids ▸ hfresh
  have hhas : a.hasNode rec.id = false := by
    cases h : a.hasNode rec.id with
    | false => rfl
    | true => exact absurd ((PC.hasNode_iff a rec.id).mp h) hfa
  rw [addNodeRaw_new hhas]
  obtain ⟨b, hb⟩ : ∃ b : St, b = { a with nodes := a.nodes ++ [rec] } := ⟨_, rfl⟩
  rw [← hb]
  have hwb : WF b := hb ▸ wf_append hwa hfa hk
  have hbf : ∀ m, b.findNode m = if m = rec.id then some rec else a.findNode m :=
    hb ▸ findNode_append_new hfa
  have hbt : b.timeOf rec.id = some rec.time := by unfold timeOf; rw [hbf, if_pos rfl]; rfl
  have hbseg : b.seg = a.seg := by rw [hb]
  obtain ⟨ks, v, hc, hkv, hk0⟩ := rpUpdate_upd b rec.id
  rw [hc]
  obtain ⟨f, hf⟩ : ∃ f : NodeRec → NodeRec, f = fun r => { r with other := asets ks v r.other } := ⟨_, rfl⟩
  rw [← hf]
  have hfid : ∀ r, (f r).id = r.id := by intro r; rw [hf]
  obtain ⟨c, hcc⟩ : ∃ c : St, c = b.updNode rec.id f := ⟨_, rfl⟩
  rw [← hcc]
  have hwc : WF c := by
    rw [hcc]
    exact wf_updNode hwb _ f hfid (fun r h => by rw [hf]; exact nodup_keys_asets ks v _ h)
  have hcf : ∀ m, c.findNode m = if m = rec.id then some (f rec) else a.findNode m := by
    intro m
    rw [hcc, PC.findNode_updNode _ _ _ _ hfid, hbf, hbf]
    by_cases hm : m = rec.id
    · simp [hm]
    · simp [hm]
  have htr : c.trackAdd rec.id = c.trackOnAdd (f rec) := by
    unfold St.trackAdd; rw [hcf, if_pos rfl]
  rw [htr]
  have hct : c.t2n = s.t2n := by rw [hcc]; show b.t2n = _; rw [hb]; exact at_
  have hcl : c.l2n = s.l2n := by rw [hcc]; show b.l2n = _; rw [hb]; exact al
  have hce : c.edges = s.edges := by rw [hcc]; show b.edges = _; rw [hb]; exact ae
  have hcs : c.seg = a.seg := by rw [hcc]; show b.seg = _; rw [hb]
  have hcr : c.reg = s.reg := by rw [hcc]; show b.reg = _; rw [hb]; exact ar
  have hclin : c.linOn = s.linOn := by rw [hcc]; show b.linOn = _; rw [hb]; exact alin
  have hf1 : (f rec).id = rec.id := hfid rec
  have hf2 : (f rec).tid = rec.tid := by rw [hf]
  have hf3 : (f rec).lin = rec.lin := by rw [hf]
  obtain ⟨dn, de, ds, dr, dt, dl, dtw, dlw⟩ := trackOnAdd_desc c (f rec)
  rw [hf1, hf2] at dt
  rw [hf1, hf3, hclin] at dl
  rw [hf1, hf2, hct] at dtw
  refine ⟨?_, ds.trans (hcs.trans (by rw [ha])), de.trans hce, dr.trans hcr, ⟨ks, v, ?_, ?_, ?_⟩, ?_, ?_⟩
  · obtain ⟨w1, w2, w3, w4, w5, w6⟩ := hwc
    refine ⟨?_, ?_, ?_, ?_, dtw (hct ▸ w5) hnb, dlw w6⟩
    · unfold St.ids; rw [dn]; exact w1
    · unfold St.edgeList; rw [de]; exact w2
    · rw [dn]; exact w3
    · rw [de]; exact w4
  · intro m
    have : nobs (c.trackOnAdd (f rec)) m = nobs c m := by unfold nobs findNode; rw [dn]
    rw [this]
    unfold nobs
    rw [hcf]
    split
    · rw [Option.map_some, hf]
      show some (_, _, _, _, obsAttrs (asets ks v rec.other)) = _
      rw [obsAttrs_asets]; rfl
    · unfold findNode; rw [an]
  · intro g hg
    rw [ds, hcs, ← hbseg] at hg
    have := hkv g rec.time hg hbt
    obtain ⟨_, _, hra, _⟩ := reg_fields (show b.reg = s.reg by rw [hb]; exact ar)
    rw [← hra]; exact this
  · intro hg
    rw [ds, hcs, ← hbseg] at hg
    exact hk0 (Or.inl hg)
  · intro id m; rw [dt, hct]
  · intro id m; rw [dl, hcl]

/-- the state after `DeleteNode(n, px)` when `r` is the record of `n` -/
def delRes (s : St) (n : Node) (r : NodeRec) (px : Option (List Pix)) : St :=
  ((s.paintWith px 0).delRaw n).trackOnDelete (s.savedAttrs r)

/-- what `DeleteNode` of a node without incident edges does, observationally -/
structure DelDesc (s₁ : St) (n : Node) (r : NodeRec) (px : Option (List Pix)) (s : St) : Prop where
  wf : WF s
  seg : s.seg = (s₁.paintWith px 0).seg
  edges : s.edges = s₁.edges
  reg : s.reg = s₁.reg
  nodes : ∀ m, nobs s m = if m = n then none else nobs s₁ m
  t2n : ∀ id m, PC.InBook s.t2n id m ↔ PC.InBook s₁.t2n id m ∧ ¬ (id = r.tid ∧ m = n)
  l2n : ∀ id m, PC.InBook s.l2n id m ↔ PC.InBook s₁.l2n id m ∧ ¬ (r.lin = some id ∧ m = n)

theorem del_desc {s₁ : St} (hw : WF s₁) {n : Node} {r : NodeRec} (hf : s₁.findNode n = some r)
    (hne : ∀ e ∈ s₁.edgeList, e.1 ≠ n ∧ e.2 ≠ n) (hlin : s₁.linOn = true)
    (px : Option (List Pix)) : DelDesc s₁ n r px (delRes s₁ n r px) := by
  unfold delRes
  obtain ⟨a, ha⟩ : ∃ a, a = s₁.paintWith px 0 := ⟨_, rfl⟩
  rw [← ha]
  obtain ⟨an, ae, at_, al, ar, alin⟩ : a.nodes = s₁.nodes ∧ a.edges = s₁.edges ∧ a.t2n = s₁.t2n ∧
      a.l2n = s₁.l2n ∧ a.reg = s₁.reg ∧ a.linOn = s₁.linOn := ha ▸ paintWith_frame s₁ px 0
  have hrid : r.id = n := (PC.findNode_some_mem hf).2
  obtain ⟨sv, hsv⟩ : ∃ sv, sv = s₁.savedAttrs r := ⟨_, rfl⟩
  rw [← hsv]
  have hs1 : sv.id = n := by rw [hsv]; exact hrid
  have hs2 : sv.tid = r.tid := by rw [hsv]; rfl
  have hs3 : sv.lin = r.lin := by rw [hsv]; unfold savedAttrs; simp [hlin]
  obtain ⟨b, hb⟩ : ∃ b, b = a.delRaw n := ⟨_, rfl⟩
  rw [← hb]
  have hbn : b.nodes = s₁.nodes.filter (·.id != n) := by rw [hb]; unfold delRaw; rw [an]
  have hbe : b.edges = s₁.edges := by
    rw [hb]; unfold delRaw
    show a.edges.filter _ = _
    rw [ae, List.filter_eq_self]
    intro x hx
    have := hne x.e (mem_map.mpr ⟨x, hx, rfl⟩)
    simp [this.1, this.2]
  have hbt : b.t2n = s₁.t2n := by rw [hb]; exact at_
  have hbl : b.l2n = s₁.l2n := by rw [hb]; exact al
  have hbr : b.reg = s₁.reg := by rw [hb]; exact ar
  have hbs : b.seg = a.seg := by rw [hb]; rfl
  have hblin : b.linOn = true := by rw [hb]; exact alin.trans hlin
  obtain ⟨dn, de, ds, dr, dt, dl, dtw, dlw⟩ := trackOnDelete_desc b sv (hbt ▸ hw.t2n) (hbl ▸ hw.l2n)
  rw [hs1, hs2, hbt] at dt
  rw [hs1, hs3, hbl, hblin] at dl
  refine ⟨⟨?_, ?_, ?_, ?_, dtw, dlw⟩, ds.trans (hbs.trans (by rw [ha])), de.trans hbe, dr.trans hbr, ?_,
    dt, ?_⟩
  · unfold St.ids; rw [dn, hbn]
    exact hw.ids.sublist (List.Sublist.map _ List.filter_sublist)
  · unfold St.edgeList; rw [de, hbe]; exact hw.edges
  · rw [dn, hbn]; intro x hx; exact hw.nkeys x (List.mem_filter.mp hx).1
  · rw [de, hbe]; exact hw.ekeys
  · intro m
    unfold nobs findNode
    rw [dn, hbn, find_filter_ne]
    split <;> rfl
  · intro id m; rw [dl]; simp

theorem pDelNode_eq {s : St} {n : Node} {r : NodeRec} (hf : s.findNode n = some r) (px : Option (List Pix)) :
    s.pDelNode n px = .ok (delRes s n r (s.delPixels n px), .delNode (s.savedAttrs r) (s.delPixels n px)) := by
  unfold pDelNode; rw [hf]; rfl

theorem pAddNode_eq {s : St} {rec : NodeRec} {px : Option (List Pix)}
    (h1 : px = none → ∀ k ∈ s.posKeys, (alook k rec.other).isSome = true)
    (h2 : px.isSome = true → s.seg.isSome = true) :
    s.pAddNode rec px = .ok (addRes s rec px, .addNode rec px) := by
  unfold pAddNode
  have c1 : (px.isNone && !(s.posKeys.all (fun k => (alook k rec.other).isSome))) = false := by
    cases px with
    | some p => rfl
    | none =>
      have : s.posKeys.all (fun k => (alook k rec.other).isSome) = true :=
        List.all_eq_true.mpr (fun k hk => h1 rfl k hk)
      simp [this]
  have c2 : (px.isSome && s.seg.isNone) = false := by
    cases px with
    | none => rfl
    | some p =>
      have := h2 rfl
      cases hs : s.seg with
      | none => rw [hs] at this; cases this
      | some g => rfl
  rw [c1, c2]
  rfl

theorem eobs_isSome_iff (s : St) (e : Edge) : (eobs s e).isSome ↔ e ∈ s.edgeList := by
  unfold eobs findEdge St.edgeList
  rw [Option.isSome_map, List.find?_isSome]
  simp

theorem edgeList_congr {s t : St} (h : ∀ e, eobs s e = eobs t e) (e : Edge) :
    e ∈ s.edgeList ↔ e ∈ t.edgeList := by
  rw [← eobs_isSome_iff, ← eobs_isSome_iff, h e]

theorem eobs_of_edges {s t : St} (h : s.edges = t.edges) (e : Edge) : eobs s e = eobs t e := by
  unfold eobs findEdge; rw [h]

theorem getPixels_congr {s t : St} (hs : s.seg = t.seg) (hn : ∀ n, nobs s n = nobs t n) (n : Node) :
    s.getPixels n = t.getPixels n := by
  unfold getPixels; rw [hs, timeOf_congr hn]

theorem alook_filter_not_mem {l : List (Key × Val)} {k : Key} (h : k ∉ l.map (·.1))
    (p : Key × Val → Bool) : alook k (l.filter p) = none := by
  rw [PC.alook_eq_none_iff]
  intro hc
  obtain ⟨kv, hkv, e⟩ := mem_map.mp hc
  exact h (mem_map.mpr ⟨kv, (mem_filter.mp hkv).1, e⟩)

/-- what DeleteNode saves (registered, non-None) reads like the dictionary it was taken from,
    except that unregistered keys are gone -/
theorem obsAttrs_saved (P : Key → Bool) : ∀ (l : List (Key × Val)), (l.map (·.1)).Nodup → ∀ k,
    obsAttrs (l.filter (fun kv => P kv.1 && kv.2 != Val.none)) k
      = if P k = true then obsAttrs l k else Val.none := by
  intro l
  induction l with
  | nil => intro _ k; unfold obsAttrs; simp [alook]
  | cons kv r ih =>
    intro hnd k
    obtain ⟨k0, v0⟩ := kv
    rw [map_cons, nodup_cons] at hnd
    by_cases hk : k0 = k
    · subst hk
      have hr : ∀ p, alook k0 (r.filter p) = none := fun p => alook_filter_not_mem hnd.1 p
      rw [List.filter_cons]
      by_cases hkeep : (P k0 && v0 != Val.none) = true
      · simp only [hkeep, if_true]
        have hP : P k0 = true := by simp at hkeep; exact hkeep.1
        unfold obsAttrs; simp [alook, hP]
      · simp only [hkeep, Bool.false_eq_true, if_false]
        unfold obsAttrs
        rw [hr]
        simp only [alook, beq_self_eq_true, if_true, Option.getD_none, Option.getD_some]
        by_cases hP : P k0 = true
        · simp only [hP, Bool.true_and] at hkeep
          have hv : v0 = Val.none := by
            by_cases hv : v0 = Val.none
            · exact hv
            · exact absurd ((val_bne_none v0).mpr hv) hkeep
          simp [hP, hv]
        · simp [hP]
    · have hne : (k0 == k) = false := by simpa using hk
      rw [List.filter_cons]
      have e1 : obsAttrs ((k0, v0) :: r) k = obsAttrs r k := by unfold obsAttrs; simp [alook, hne]
      rw [e1, ← ih hnd.2 k]
      split
      · unfold obsAttrs; simp [alook, hne]
      · rfl

theorem obsNode_savedAttrs {s : St} {r : NodeRec} (hlin : s.linOn = true)
    (hk : (r.other.map (·.1)).Nodup) (hreg : ∀ k, obsAttrs r.other k ≠ Val.none → k ∈ s.regNode) :
    obsNode (s.savedAttrs r) = obsNode r := by
  unfold savedAttrs obsNode
  simp only [hlin, if_true]
  congr 4
  funext k
  rw [obsAttrs_saved (fun k => s.regNode.contains k) r.other hk k]
  split
  · rfl
  · rename_i h
    by_cases hv : obsAttrs r.other k = Val.none
    · exact hv.symm
    · exact absurd (by simpa using hreg k hv) h

theorem nodup_keys_savedAttrs {s : St} {r : NodeRec} (hk : (r.other.map (·.1)).Nodup) :
    (((s.savedAttrs r).other).map (·.1)).Nodup :=
  hk.sublist (List.Sublist.map _ List.filter_sublist)

/-- zeroing a label's pixels of one frame and painting them again gives the array back -/
theorem repaint (g₁ : Seg) (t n : Nat) :
    (g₁.setPixels (g₁.pixelsOf t n) 0).setPixels (g₁.pixelsOf t n) n = g₁ := by
  apply Seg.ext_getD
  · rfl
  · simp
  · intro i _
    rw [Seg.setPixels_getD, Seg.setPixels_getD]
    by_cases hi : i ∈ g₁.pixelsOf t n
    · have := (Seg.mem_pixelsOf.mp hi).2.2
      by_cases hl : i < g₁.data.length
      · rw [if_pos ⟨hi, by simpa using hl⟩]; exact this.symm
      · simp [hl]
    · simp [hi]

/-- the array side of the node relation -/
def SegRel (s : St) (n : Node) (s₁ : St) : Prop :=
  (s.seg = none ∧ s₁.seg = none ∧ ∀ k ∈ s.posKeys, s₁.otherOf n k ≠ Val.none) ∨
  (∃ g g₁ t, s.seg = some g ∧ s₁.seg = some g₁ ∧ s₁.timeOf n = some t ∧
      g = g₁.setPixels (g₁.pixelsOf t n) 0 ∧ ∀ k ∈ s.rpActive, s₁.otherOf n k = g₁.maskVal t n)

/-- **the node relation**: `s₁` is `s` plus the isolated node `n` (with its pixels, its lookup
    entries and current regionprops values); symmetric description of AddNode / DeleteNode -/
structure NodeRel (s : St) (n : Node) (s₁ : St) : Prop where
  wf : WF s
  wf₁ : WF s₁
  linOn : s.linOn = true
  fresh : n ∉ s.ids
  mem₁ : n ∈ s₁.ids
  oth : ∀ m, m ≠ n → nobs s₁ m = nobs s m
  noedge : ∀ e ∈ s.edgeList, e.1 ≠ n ∧ e.2 ≠ n
  edges : ∀ e, eobs s₁ e = eobs s e
  reg : s₁.reg = s.reg
  t2n : ∀ id m, PC.InBook s₁.t2n id m ↔ PC.InBook s.t2n id m ∨ (s₁.tidOf n = some id ∧ m = n)
  t2nfresh : ∀ id, ¬ PC.InBook s.t2n id n
  l2n : ∀ id m, PC.InBook s₁.l2n id m ↔ PC.InBook s.l2n id m ∨ (s₁.linOf n = some id ∧ m = n)
  l2nfresh : ∀ id, ¬ PC.InBook s.l2n id n
  registered : ∀ k, s₁.otherOf n k ≠ Val.none → k ∈ s.regNode
  segrel : SegRel s n s₁

/-- a DeleteNode record from `s₁` to `s` -/
structure GoodDelRec (s₁ : St) (saved : NodeRec) (px : Option (List Pix)) (s : St) : Prop where
  rel : NodeRel s saved.id s₁
  obs : nobs s₁ saved.id = some (obsNode saved)
  keys : (saved.other.map (·.1)).Nodup
  px : px = s₁.getPixels saved.id

theorem nobs_none_of_fresh {s : St} {n : Node} (h : n ∉ s.ids) : nobs s n = none := by
  cases hn : nobs s n with
  | none => rfl
  | some o => exact absurd ((nobs_isSome_iff s n).mp (by rw [hn]; rfl)) h

theorem views_of_nobs {s : St} {n : Node} {r : NodeRec} (h : nobs s n = some (obsNode r)) :
    s.timeOf n = some r.time ∧ s.tidOf n = some r.tid ∧ s.linOf n = r.lin ∧
    ∀ k, s.otherOf n k = obsAttrs r.other k := by
  refine ⟨by rw [timeOf_eq_nobs, h]; rfl, by rw [tidOf_eq_nobs, h]; rfl, by rw [linOf_eq_nobs, h]; rfl,
    fun k => by rw [otherOf_eq_nobs, h]; rfl⟩

/-- inverting an AddNode record: DeleteNode from anywhere in the class of the post state -/
theorem node_del_step {s s₁ : St} {n : Node} (h : NodeRel s n s₁) {s₁' : St} (he : ObsW s₁' s₁) :
    ∃ s₂ saved px, s₁'.pDelNode n none = .ok (s₂, .delNode saved px) ∧ ObsW s₂ s ∧
      GoodDelRec s₁ saved px s := by
  have hF := he.obsF h.wf₁
  have hw' := he.wf_left h.wf₁
  have hmem' : n ∈ s₁'.ids := (mem_ids_congr hF.nodes n).mpr h.mem₁
  obtain ⟨r, hr⟩ := Option.isSome_iff_exists.mp ((PC.findNode_isSome_iff s₁' n).mpr hmem')
  have hrid : r.id = n := (PC.findNode_some_mem hr).2
  have hn' : nobs s₁' n = some (obsNode r) := by unfold nobs; rw [hr]; rfl
  have hn₁ : nobs s₁ n = some (obsNode r) := by rw [← hF.nodes]; exact hn'
  obtain ⟨v1, v2, v3, v4⟩ := views_of_nobs hn₁
  obtain ⟨q1, q2, q3, q4, q5, q6, q7, q8⟩ := reg_fields (hF.reg.trans h.reg)
  have hlin' : s₁'.linOn = true := q7.trans h.linOn
  have hne' : ∀ e ∈ s₁'.edgeList, e.1 ≠ n ∧ e.2 ≠ n := by
    intro e hmem
    exact h.noedge e ((edgeList_congr h.edges e).mp ((edgeList_congr hF.edges e).mp hmem))
  have hd := del_desc hw' hr hne' hlin' (s₁'.delPixels n none)
  have hpx : s₁'.delPixels n none = s₁.getPixels n := by
    show s₁'.getPixels n = _
    exact getPixels_congr hF.seg hF.nodes n
  have hreg' : ∀ k, obsAttrs r.other k ≠ Val.none → k ∈ s₁'.regNode := by
    intro k hk; rw [q1]; exact h.registered k (by rw [v4]; exact hk)
  have hkeys : (r.other.map (·.1)).Nodup := hw'.nkeys r (PC.findNode_some_mem hr).1
  refine ⟨_, _, _, pDelNode_eq hr none, ?_, ?_⟩
  · refine ObsW.of_obsF ?_ hd.wf h.wf
    refine ⟨?_, ?_, ?_, ?_, ?_, hd.reg.trans (hF.reg.trans h.reg)⟩
    · intro m
      rw [hd.nodes]
      split
      · rename_i hm; rw [hm, nobs_none_of_fresh h.fresh]
      · rename_i hm; rw [hF.nodes, h.oth m hm]
    · intro e; rw [eobs_of_edges hd.edges, hF.edges, h.edges]
    · rw [hd.seg, hpx]
      rcases h.segrel with ⟨g0, g1, _⟩ | ⟨g, g₁, t, hg, hg₁, ht, hgg, _⟩
      · have : s₁'.seg = none := hF.seg.trans g1
        unfold paintWith; rw [this, g0]
        cases s₁.getPixels n <;> exact this
      · have hs' : s₁'.seg = some g₁ := hF.seg.trans hg₁
        have : s₁.getPixels n = some (g₁.pixelsOf t n) := by unfold getPixels; rw [hg₁, ht]
        rw [this]
        unfold paintWith; rw [hs', hg, hgg]; rfl
    · intro id m
      rw [hd.t2n, hF.t2n, h.t2n, v2]
      constructor
      · rintro ⟨h1 | ⟨h1, h2⟩, h3⟩
        · exact h1
        · exact absurd ⟨(Option.some.inj h1).symm, h2⟩ h3
      · intro h1
        refine ⟨Or.inl h1, ?_⟩
        rintro ⟨_, h3⟩; rw [h3] at h1; exact h.t2nfresh id h1
    · intro id m
      rw [hd.l2n, hF.l2n, h.l2n, v3]
      constructor
      · rintro ⟨h1 | ⟨h1, h2⟩, h3⟩
        · exact h1
        · exact absurd ⟨h1, h2⟩ h3
      · intro h1
        refine ⟨Or.inl h1, ?_⟩
        rintro ⟨_, h3⟩; rw [h3] at h1; exact h.l2nfresh id h1
  · have hsid : (s₁'.savedAttrs r).id = n := hrid
    refine ⟨hsid ▸ h, ?_, nodup_keys_savedAttrs hkeys, ?_⟩
    · rw [hsid, obsNode_savedAttrs hlin' hkeys hreg']; exact hn₁
    · rw [hsid]; exact hpx

theorem alook_isSome_of_obs {l : List (Key × Val)} {k : Key} (h : obsAttrs l k ≠ Val.none) :
    (alook k l).isSome = true := by
  unfold obsAttrs at h
  cases ha : alook k l with
  | none => rw [ha] at h; exact absurd rfl h
  | some v => rfl

/-- inverting a DeleteNode record: AddNode from anywhere in the class of the post state -/
theorem node_add_step {s s₁ : St} {saved : NodeRec} {px : Option (List Pix)}
    (h : GoodDelRec s₁ saved px s) {s' : St} (he : ObsW s' s) :
    ∃ s₂, s'.pAddNode saved px = .ok (s₂, .addNode saved px) ∧ ObsW s₂ s₁ ∧ NodeRel s saved.id s₁ := by
  obtain ⟨hR, hobs, hkeys, hpx⟩ := h
  have hF := he.obsF hR.wf
  have hw' := he.wf_left hR.wf
  obtain ⟨v1, v2, v3, v4⟩ := views_of_nobs hobs
  obtain ⟨q1, q2, q3, q4, q5, q6, q7, q8⟩ := reg_fields hF.reg
  have hfresh' : saved.id ∉ s'.ids := fun hc => hR.fresh ((mem_ids_congr hF.nodes _).mp hc)
  have hnb : ¬ PC.InBook s'.t2n saved.tid saved.id := fun hc => hR.t2nfresh _ ((hF.t2n _ _).mp hc)
  have hc1 : px = none → ∀ k ∈ s'.posKeys, (alook k saved.other).isSome = true := by
    intro hp k hk
    rw [hpx] at hp
    rcases hR.segrel with ⟨_, _, hpos⟩ | ⟨g, g₁, t, _, hg₁, ht, _, _⟩
    · apply alook_isSome_of_obs
      rw [← v4]; exact hpos k (q8 ▸ hk)
    · unfold getPixels at hp; rw [hg₁, ht] at hp; cases hp
  have hc2 : px.isSome = true → s'.seg.isSome = true := by
    intro hp
    rw [hpx] at hp
    rcases hR.segrel with ⟨_, g1, _⟩ | ⟨g, g₁, t, hg, _, _, _, _⟩
    · unfold getPixels at hp; rw [g1] at hp; cases hp
    · rw [hF.seg, hg]; rfl
  have hd := add_desc hw' hfresh' hkeys hnb px
  have hseg : (addRes s' saved px).seg = s₁.seg := by
    rw [hd.seg, hpx]
    rcases hR.segrel with ⟨g0, g1, _⟩ | ⟨g, g₁, t, hg, hg₁, ht, hgg, _⟩
    · have : s'.seg = none := hF.seg.trans g0
      unfold paintWith; rw [this, g1]
      cases s₁.getPixels saved.id <;> exact this
    · have hs' : s'.seg = some g := hF.seg.trans hg
      have : s₁.getPixels saved.id = some (g₁.pixelsOf t saved.id) := by unfold getPixels; rw [hg₁, ht]
      rw [this]
      unfold paintWith; rw [hs', hg₁]
      show some (g.setPixels _ _) = _
      rw [hgg, repaint]
  refine ⟨_, pAddNode_eq hc1 hc2, ?_, hR⟩
  refine ObsW.of_obsF ?_ hd.wf₁ hR.wf₁
  refine ⟨?_, ?_, hseg, ?_, ?_, hd.reg.trans (hF.reg.trans hR.reg.symm)⟩
  · intro m
    obtain ⟨ks, v, hn, hsome, hnone⟩ := hd.nodes
    rw [hn]
    split
    · rename_i hm
      rw [hm, hobs]
      congr 1
      unfold mapO obsNode
      congr 4
      funext k
      show (if k ∈ ks then v else obsAttrs saved.other k) = _
      split
      · rename_i hk
        cases hs : (addRes s' saved px).seg with
        | none => rw [hnone hs] at hk; cases hk
        | some g₂ =>
          obtain ⟨e1, e2⟩ := hsome g₂ hs
          rw [hseg] at hs
          rcases hR.segrel with ⟨_, g1, _⟩ | ⟨g, g₁, t, _, hg₁, ht, _, hcur⟩
          · rw [g1] at hs; cases hs
          · rw [hg₁] at hs; cases hs
            rw [v1] at ht; cases ht
            rw [e2, ← v4, hcur k (by rw [← q3, ← e1]; exact hk)]
      · rfl
    · rename_i hm; rw [hF.nodes, hR.oth m hm]
  · intro e; rw [eobs_of_edges hd.edges, hF.edges, hR.edges]
  · intro id m
    rw [hd.t2n, hF.t2n, hR.t2n, v2]
    constructor
    · rintro (h1 | ⟨h1, h2⟩)
      · exact Or.inl h1
      · exact Or.inr ⟨by rw [h1], h2⟩
    · rintro (h1 | ⟨h1, h2⟩)
      · exact Or.inl h1
      · exact Or.inr ⟨(Option.some.inj h1).symm, h2⟩
  · intro id m
    rw [hd.l2n, hF.l2n, hR.l2n, v3]
    constructor
    · rintro (h1 | ⟨_, h1, h2⟩)
      · exact Or.inl h1
      · exact Or.inr ⟨h1, h2⟩
    · rintro (h1 | ⟨h1, h2⟩)
      · exact Or.inl h1
      · exact Or.inr ⟨q7.trans hR.linOn, h1, h2⟩

/-- closed-under-inversion predicate for AddNode / DeleteNode records -/
def GoodNode (s : St) (r : PrimRec) (s₁ : St) : Prop :=
  (∃ rec px, r = .addNode rec px ∧ NodeRel s rec.id s₁) ∨
  (∃ saved px, r = .delNode saved px ∧ GoodDelRec s saved px s₁)

theorem goodNode_closed (s : St) (r : PrimRec) (s₁ : St) (h : GoodNode s r s₁) (s₁' : St)
    (he : ObsW s₁' s₁) : ∃ s₂ r', s₁'.invPrim r = .ok (s₂, r') ∧ ObsW s₂ s ∧ GoodNode s₁ r' s := by
  rcases h with ⟨rec, px, rfl, hR⟩ | ⟨saved, px, rfl, hG⟩
  · obtain ⟨s₂, saved, px', h1, h2, h3⟩ := node_del_step hR he
    exact ⟨s₂, _, h1, h2, Or.inr ⟨saved, px', rfl, h3⟩⟩
  · obtain ⟨s₂, h1, h2, h3⟩ := node_add_step hG he
    exact ⟨s₂, _, h1, h2, Or.inl ⟨saved, px, rfl, h3⟩⟩

theorem alook_mem {l : List (Key × Val)} {k : Key} {v : Val} (h : alook k l = some v) : (k, v) ∈ l := by
  induction l with
  | nil => simp [alook] at h
  | cons p r ih =>
    obtain ⟨k0, v0⟩ := p
    by_cases h0 : k0 = k
    · subst h0; simp [alook] at h; subst h; exact mem_cons_self
    · simp [alook, h0] at h; exact mem_cons_of_mem _ (ih h)

/-- preconditions of a primitive AddNode (C01): fresh id (graph, edges, lookups), attribute
    dictionary with distinct keys whose non-None entries are registered features, active
    regionprops keys registered, lineage feature on; without array: position present and not
    None; with array: the label is absent from the node's frame and the pixels lie on background
    inside that frame -/
structure AddPre (s : St) (rec : NodeRec) (px : Option (List Pix)) : Prop where
  wf : WF s
  linOn : s.linOn = true
  fresh : rec.id ∉ s.ids
  keys : (rec.other.map (·.1)).Nodup
  noedge : ∀ e ∈ s.edgeList, e.1 ≠ rec.id ∧ e.2 ≠ rec.id
  t2nfresh : ∀ id, ¬ PC.InBook s.t2n id rec.id
  l2nfresh : ∀ id, ¬ PC.InBook s.l2n id rec.id
  registered : ∀ kv ∈ rec.other, kv.2 ≠ Val.none → kv.1 ∈ s.regNode
  rpreg : ∀ k ∈ s.rpActive, k ∈ s.regNode
  pos : s.seg = none → ∀ k ∈ s.posKeys, obsAttrs rec.other k ≠ Val.none
  absent : ∀ g, s.seg = some g → g.pixelsOf rec.time rec.id = []
  bg : ∀ g ps, s.seg = some g → px = some ps →
    ∀ p ∈ ps, p < g.data.length ∧ g.data.getD p 0 = 0 ∧ 0 < g.frame ∧ p / g.frame = rec.time

/-- painting a label that is absent from frame `t` onto background pixels of frame `t`, then
    zeroing the label's pixels of that frame, gives the array back -/
theorem unpaint {g : Seg} {ps : List Pix} {t n : Nat} (habs : g.pixelsOf t n = [])
    (hbg : ∀ p ∈ ps, p < g.data.length ∧ g.data.getD p 0 = 0 ∧ 0 < g.frame ∧ p / g.frame = t) :
    g = (g.setPixels ps n).setPixels ((g.setPixels ps n).pixelsOf t n) 0 := by
  apply Seg.ext_getD
  · rfl
  · simp
  · intro i hi
    rw [Seg.setPixels_getD]
    simp only [Seg.mem_pixelsOf, Seg.setPixels_getD, Seg.setPixels_frame, Seg.setPixels_length]
    by_cases hps : i ∈ ps
    · obtain ⟨h1, h2, h3, h4⟩ := hbg i hps
      have e : (if i ∈ ps ∧ i < g.data.length then n else g.data.getD i 0) = n := if_pos ⟨hps, h1⟩
      rw [e, if_pos ⟨⟨h3, h4, rfl⟩, h1⟩]; exact h2
    · simp only [hps, false_and, if_false]
      split
      · rename_i hc
        have : i ∈ g.pixelsOf t n := Seg.mem_pixelsOf.mpr ⟨hc.1.1, hc.1.2.1, hc.1.2.2⟩
        rw [habs] at this; cases this
      · rfl

theorem pAddNode_nodeRel {s s₁ : St} {rec : NodeRec} {px : Option (List Pix)} {r : PrimRec}
    (hp : AddPre s rec px) (h : s.pAddNode rec px = .ok (s₁, r)) :
    r = .addNode rec px ∧ NodeRel s rec.id s₁ := by
  obtain ⟨hr, _, hs₁⟩ := pAddNode_ok_sg h
  refine ⟨hr, ?_⟩
  have hd : AddDesc s rec px s₁ := hs₁ ▸ add_desc hp.wf hp.fresh hp.keys (hp.t2nfresh _) px
  obtain ⟨ks, v, hn, hsome, hnone⟩ := hd.nodes
  have hnn := hn rec.id
  rw [if_pos rfl] at hnn
  have v1 : s₁.timeOf rec.id = some rec.time := by rw [timeOf_eq_nobs, hnn]; rfl
  have v2 : s₁.tidOf rec.id = some rec.tid := by rw [tidOf_eq_nobs, hnn]; rfl
  have v3 : s₁.linOf rec.id = rec.lin := by rw [linOf_eq_nobs, hnn]; rfl
  have v4 : ∀ k, s₁.otherOf rec.id k = if k ∈ ks then v else obsAttrs rec.other k := by
    intro k; rw [otherOf_eq_nobs, hnn]; rfl
  obtain ⟨q1, q2, q3, q4, q5, q6, q7, q8⟩ := reg_fields hd.reg
  refine ⟨hp.wf, hd.wf₁, hp.linOn, hp.fresh, (nobs_isSome_iff _ _).mp (by rw [hnn]; rfl),
    fun m hm => by rw [hn, if_neg hm], hp.noedge, eobs_of_edges hd.edges, hd.reg, ?_, hp.t2nfresh, ?_,
    hp.l2nfresh, ?_, ?_⟩
  · intro id m
    rw [hd.t2n, v2]
    exact or_congr_right (and_congr_left fun _ => ⟨fun e => by rw [e], fun e => (Option.some.inj e).symm⟩)
  · intro id m
    rw [hd.l2n, v3]
    exact or_congr_right ⟨fun ⟨_, a, b⟩ => ⟨a, b⟩, fun ⟨a, b⟩ => ⟨hp.linOn, a, b⟩⟩
  · intro k hk
    rw [v4] at hk
    by_cases hks : k ∈ ks
    · cases hs : s₁.seg with
      | none => rw [hnone hs] at hks; cases hks
      | some g₁ => rw [(hsome g₁ hs).1] at hks; exact hp.rpreg k hks
    · rw [if_neg hks] at hk
      unfold obsAttrs at hk
      cases ha : alook k rec.other with
      | none => rw [ha] at hk; exact absurd rfl hk
      | some v' =>
        rw [ha] at hk
        exact hp.registered (k, v') (alook_mem ha) hk
  · cases hs : s.seg with
    | none =>
      have hs1 : s₁.seg = none := by
        rw [hd.seg]; unfold paintWith; rw [hs]; cases px <;> exact hs
      left
      refine ⟨hs, hs1, ?_⟩
      intro k hk
      rw [v4, hnone hs1]
      exact hp.pos hs k hk
    | some g =>
      right
      have habs := hp.absent g hs
      cases px with
      | none =>
        have hs1 : s₁.seg = some g := by rw [hd.seg]; unfold paintWith; exact hs
        refine ⟨g, g, rec.time, hs, hs1, v1, by rw [habs]; rfl, ?_⟩
        intro k hk
        obtain ⟨e1, e2⟩ := hsome g hs1
        rw [v4, e1, if_pos hk, e2]
      | some ps =>
        have hs1 : s₁.seg = some (g.setPixels ps rec.id) := by
          rw [hd.seg]; unfold paintWith; rw [hs]; rfl
        refine ⟨g, _, rec.time, hs, hs1, v1, unpaint habs (hp.bg g ps hs rfl), ?_⟩
        intro k hk
        obtain ⟨e1, e2⟩ := hsome _ hs1
        rw [v4, e1, if_pos hk, e2]

/-- preconditions of a primitive DeleteNode (C01): no incident edges, the node is listed in the
    lookups under its ids, every non-None attribute registered, lineage feature on; without
    array: position not None; with array: the regionprops values of the node are current -/
structure DelPre (s₁ : St) (n : Node) : Prop where
  wf : WF s₁
  linOn : s₁.linOn = true
  noedge : ∀ e ∈ s₁.edgeList, e.1 ≠ n ∧ e.2 ≠ n
  t2n : ∀ id, PC.InBook s₁.t2n id n ↔ s₁.tidOf n = some id
  l2n : ∀ id, PC.InBook s₁.l2n id n ↔ s₁.linOf n = some id
  registered : ∀ k, s₁.otherOf n k ≠ Val.none → k ∈ s₁.regNode
  pos : s₁.seg = none → ∀ k ∈ s₁.posKeys, s₁.otherOf n k ≠ Val.none
  cur : ∀ g t, s₁.seg = some g → s₁.timeOf n = some t →
    ∀ k ∈ s₁.rpActive, s₁.otherOf n k = g.maskVal t n

theorem pDelNode_good {s s₁ : St} {n : Node} {px : Option (List Pix)} {r : PrimRec}
    (hp : DelPre s₁ n) (hpx : px = none ∨ px = s₁.getPixels n) (h : s₁.pDelNode n px = .ok (s, r)) :
    ∃ saved px', r = .delNode saved px' ∧ saved.id = n ∧ GoodDelRec s₁ saved px' s := by
  obtain ⟨r0, hf, hr, hs⟩ := pDelNode_ok_sg h
  have hdp : s₁.delPixels n px = s₁.getPixels n := by
    rcases hpx with e | e
    · rw [e]; rfl
    · rw [e]; unfold delPixels; cases s₁.getPixels n <;> rfl
  rw [hdp] at hr hs
  have hd : DelDesc s₁ n r0 (s₁.getPixels n) s := hs ▸ del_desc hp.wf hf hp.noedge hp.linOn _
  have hrid : r0.id = n := (PC.findNode_some_mem hf).2
  have hn₁ : nobs s₁ n = some (obsNode r0) := by unfold nobs; rw [hf]; rfl
  obtain ⟨v1, v2, v3, v4⟩ := views_of_nobs hn₁
  obtain ⟨q1, q2, q3, q4, q5, q6, q7, q8⟩ := reg_fields hd.reg
  have hsid : (s₁.savedAttrs r0).id = n := hrid
  have hkeys : (r0.other.map (·.1)).Nodup := hp.wf.nkeys r0 (PC.findNode_some_mem hf).1
  have hrel : NodeRel s n s₁ := by
    refine ⟨hd.wf, hp.wf, q7.trans hp.linOn, ?_, (PC.findNode_isSome_iff s₁ n).mp (by rw [hf]; rfl),
      fun m hm => by rw [hd.nodes, if_neg hm], ?_, fun e => (eobs_of_edges hd.edges e).symm,
      hd.reg.symm, ?_, ?_, ?_, ?_, ?_, ?_⟩
    · intro hc
      have := (nobs_isSome_iff s n).mpr hc
      rw [hd.nodes, if_pos rfl] at this; cases this
    · intro e he
      refine hp.noedge e ?_
      unfold St.edgeList at he ⊢; rw [← hd.edges]; exact he
    · intro id m
      rw [hd.t2n, v2]
      constructor
      · intro h1
        by_cases hc : id = r0.tid ∧ m = n
        · exact Or.inr ⟨by rw [hc.1], hc.2⟩
        · exact Or.inl ⟨h1, hc⟩
      · rintro (⟨h1, _⟩ | ⟨h1, h2⟩)
        · exact h1
        · rw [h2]; exact (hp.t2n id).mpr (v2 ▸ h1)
    · intro id hc
      rw [hd.t2n] at hc
      have := (hp.t2n id).mp hc.1
      rw [v2] at this
      exact hc.2 ⟨(Option.some.inj this).symm, rfl⟩
    · intro id m
      rw [hd.l2n, v3]
      constructor
      · intro h1
        by_cases hc : r0.lin = some id ∧ m = n
        · exact Or.inr hc
        · exact Or.inl ⟨h1, hc⟩
      · rintro (⟨h1, _⟩ | ⟨h1, h2⟩)
        · exact h1
        · rw [h2]; exact (hp.l2n id).mpr (v3 ▸ h1)
    · intro id hc
      rw [hd.l2n] at hc
      have := (hp.l2n id).mp hc.1
      rw [v3] at this
      exact hc.2 ⟨this, rfl⟩
    · intro k hk; rw [q1]; exact hp.registered k hk
    · cases hs1 : s₁.seg with
      | none =>
        left
        refine ⟨?_, hs1, ?_⟩
        · rw [hd.seg]; unfold paintWith; rw [hs1]; cases s₁.getPixels n <;> exact hs1
        · intro k hk; exact hp.pos hs1 k (q8 ▸ hk)
      | some g₁ =>
        right
        have hgp : s₁.getPixels n = some (g₁.pixelsOf r0.time n) := by unfold getPixels; rw [hs1, v1]
        refine ⟨_, g₁, r0.time, ?_, hs1, v1, rfl, ?_⟩
        · rw [hd.seg, hgp]; unfold paintWith; rw [hs1]; rfl
        · intro k hk; exact hp.cur g₁ r0.time hs1 v1 k (q3 ▸ hk)
  refine ⟨_, _, hr, hsid, hsid ▸ hrel, ?_, nodup_keys_savedAttrs hkeys, by rw [hsid]⟩
  rw [hsid, obsNode_savedAttrs hp.linOn hkeys (fun k hk => hp.registered k (by rw [v4]; exact hk))]
  exact hn₁

theorem invLaw_addNode {s s₁ : St} {rec : NodeRec} {px : Option (List Pix)} {r : PrimRec}
    (hp : AddPre s rec px) (h : s.pAddNode rec px = .ok (s₁, r)) : InvLaw ObsW s r s₁ := by
  obtain ⟨hr, hR⟩ := pAddNode_nodeRel hp h
  exact InvLaw.of_closed GoodNode goodNode_closed (Or.inl ⟨rec, px, hr, hR⟩)

theorem invLaw_delNode {s s₁ : St} {n : Node} {px : Option (List Pix)} {r : PrimRec}
    (hp : DelPre s₁ n) (hpx : px = none ∨ px = s₁.getPixels n) (h : s₁.pDelNode n px = .ok (s, r)) :
    InvLaw ObsW s₁ r s := by
  obtain ⟨saved, px', hr, _, hG⟩ := pDelNode_good hp hpx h
  exact InvLaw.of_closed GoodNode goodNode_closed (Or.inr ⟨saved, px', hr, hG⟩)

/-! ## Part 3c — `UpdateNodeSeg` -/

def mapE (F : (Key → Val) → (Key → Val)) (o : EdgeObs) : EdgeObs := (o.1, F o.2)

/-- what the edge annotator does to the observation of edge `e` in state `s` -/
def iouW (s : St) (e : Edge) (f : Key → Val) : Key → Val :=
  match s.iouKey with
  | some k => if s.iouActive && s.seg.isSome then fun k' => if k' = k then s.iouOf e else f k' else f
  | none => f

theorem obsAttrs_iouF (s : St) (e : Edge) (l : List (Key × Val)) :
    obsAttrs (iouF s e l) = iouW s e (obsAttrs l) := by
  unfold iouF iouW
  cases s.iouKey with
  | none => rfl
  | some k =>
    simp only
    split
    · rw [obsAttrs_aset]
    · rfl

theorem iouW_idem (s : St) (e : Edge) (f : Key → Val) : iouW s e (iouW s e f) = iouW s e f := by
  unfold iouW
  cases s.iouKey with
  | none => rfl
  | some k =>
    simp only
    split
    · funext k'; by_cases h : k' = k <;> simp [h]
    · rfl

theorem iouW_congr {s t : St} (hk : s.iouKey = t.iouKey) (ha : s.iouActive = t.iouActive)
    (hs : s.seg = t.seg) (ho : ∀ e, s.iouOf e = t.iouOf e) (e : Edge) : iouW s e = iouW t e := by
  funext f; unfold iouW; rw [hk, ha, hs, ho]

theorem nodup_keys_iouF (s : St) (e : Edge) {l : List (Key × Val)} (h : (l.map (·.1)).Nodup) :
    ((iouF s e l).map (·.1)).Nodup := by
  unfold iouF
  cases s.iouKey with
  | none => exact h
  | some k =>
    simp only
    split
    · exact PC.nodup_keys_aset h
    · exact h

theorem find_map_onEdge (l : List EdgeRec) (e e' : Edge) (F : List (Key × Val) → List (Key × Val)) :
    (l.map (onEdge e F)).find? (·.e == e') =
      if e' = e then (l.find? (·.e == e)).map (fun r => { r with attrs := F r.attrs })
      else l.find? (·.e == e') := by
  induction l with
  | nil => simp
  | cons r rs ih =>
    rw [map_cons, find?_cons, find?_cons, find?_cons, onEdge_e]
    by_cases h1 : r.e = e'
    · have hb : (r.e == e') = true := by simpa using h1
      rw [hb]
      by_cases h2 : e' = e
      · have hb2 : (r.e == e) = true := by simpa using h1.trans h2
        simp only [h2, hb2, if_true, Option.map_some]
        rw [onEdge_eq (h1.trans h2)]
      · have hne : r.e ≠ e := fun hc => h2 (h1.symm.trans hc)
        simp only [h2, if_false]
        rw [onEdge_ne hne]
    · have hb : (r.e == e') = false := by simpa using h1
      rw [hb, ih]
      by_cases h2 : e' = e
      · have hb2 : (r.e == e) = false := by simpa using (fun hc => h1 (hc.trans h2.symm))
        simp only [h2, hb2, if_true]
      · simp only [h2, if_false]

theorem eobs_iouUpdateEdge (s : St) (e e' : Edge) :
    eobs (s.iouUpdateEdge e) e' = if e' = e then (eobs s e).map (mapE (iouW s e)) else eobs s e' := by
  rw [iouUpdateEdge_eq]
  unfold eobs findEdge
  show ((s.edges.map (onEdge e (iouF s e))).find? _).map obsEdge = _
  rw [find_map_onEdge]
  split
  · rw [Option.map_map, Option.map_map]
    congr 1
    funext r
    show (r.e, obsAttrs (iouF s e r.attrs)) = _
    rw [obsAttrs_iouF]; rfl
  · rfl

theorem iouUpdateEdge_frame (s : St) (e : Edge) :
    (s.iouUpdateEdge e).nodes = s.nodes ∧ (s.iouUpdateEdge e).seg = s.seg ∧
    (s.iouUpdateEdge e).t2n = s.t2n ∧ (s.iouUpdateEdge e).l2n = s.l2n ∧
    (s.iouUpdateEdge e).reg = s.reg := by
  rw [iouUpdateEdge_eq]; exact ⟨rfl, rfl, rfl, rfl, rfl⟩

theorem iouW_iouUpdateEdge (s : St) (e e' : Edge) : iouW (s.iouUpdateEdge e) e' = iouW s e' := by
  obtain ⟨_, h2, _, _, h5⟩ := iouUpdateEdge_frame s e
  obtain ⟨_, _, _, q4, q5, _, _, _⟩ := reg_fields h5
  exact iouW_congr q4 q5 h2 (fun x => iouOf_iouUpdateEdge s e x) e'

theorem wf_iouUpdateEdge {s : St} (hw : WF s) (e : Edge) : WF (s.iouUpdateEdge e) := by
  rw [iouUpdateEdge_eq]
  refine ⟨hw.ids, ?_, hw.nkeys, ?_, hw.t2n, hw.l2n⟩
  · show ((s.edges.map (onEdge e (iouF s e))).map (·.e)).Nodup
    rw [map_map]
    have : ((fun r : EdgeRec => r.e) ∘ onEdge e (iouF s e)) = fun r => r.e := by
      funext r; exact onEdge_e _ _ _
    rw [this]; exact hw.edges
  · intro r hr
    obtain ⟨r0, h0, rfl⟩ := mem_map.mp hr
    unfold onEdge
    split
    · exact nodup_keys_iouF s e (hw.ekeys r0 h0)
    · exact hw.ekeys r0 h0

theorem foldl_iouUpdateEdge_desc (es : List Edge) : ∀ (s : St),
    (∀ e', eobs (es.foldl iouUpdateEdge s) e' =
        if e' ∈ es then (eobs s e').map (mapE (iouW s e')) else eobs s e') ∧
    (es.foldl iouUpdateEdge s).nodes = s.nodes ∧ (es.foldl iouUpdateEdge s).seg = s.seg ∧
    (es.foldl iouUpdateEdge s).t2n = s.t2n ∧ (es.foldl iouUpdateEdge s).l2n = s.l2n ∧
    (es.foldl iouUpdateEdge s).reg = s.reg ∧ (WF s → WF (es.foldl iouUpdateEdge s)) := by
  induction es with
  | nil => intro s; exact ⟨fun e' => by simp, rfl, rfl, rfl, rfl, rfl, fun h => h⟩
  | cons e es ih =>
    intro s
    obtain ⟨i1, i2, i3, i4, i5, i6, i7⟩ := ih (s.iouUpdateEdge e)
    obtain ⟨f1, f2, f3, f4, f5⟩ := iouUpdateEdge_frame s e
    rw [foldl_cons]
    refine ⟨?_, i2.trans f1, i3.trans f2, i4.trans f3, i5.trans f4, i6.trans f5,
      fun h => i7 (wf_iouUpdateEdge h e)⟩
    intro e'
    rw [i1, iouW_iouUpdateEdge, eobs_iouUpdateEdge]
    by_cases h1 : e' = e
    · subst h1
      by_cases h2 : e' ∈ es
      · simp only [h2, mem_cons, true_or, if_true]
        rw [Option.map_map]
        congr 1; funext o
        show (o.1, iouW s e' (iouW s e' o.2)) = _
        rw [iouW_idem]; rfl
      · simp only [h2, mem_cons, true_or, if_true, if_false]
    · by_cases h2 : e' ∈ es
      · simp only [h1, h2, mem_cons, or_true, if_true, if_false]
      · simp only [h1, h2, mem_cons, or_self, if_false]

theorem iouOf_congr_obs {s t : St} (hs : s.seg = t.seg) (hn : ∀ n, nobs s n = nobs t n) (e : Edge) :
    s.iouOf e = t.iouOf e := by
  unfold iouOf; rw [hs, timeOf_congr hn, timeOf_congr hn]

/-- what the regionprops annotator does to the observation of node `n` in state `s` -/
def RW (s : St) (n : Node) (f : Key → Val) : Key → Val :=
  match s.seg, s.timeOf n with
  | some g, some t => fun k => if k ∈ s.rpActive then g.maskVal t n else f k
  | _, _ => f

/-- the state after `UpdateNodeSeg` once the array has been written -/
def updRes (s : St) (g' : Seg) (n : Node) : St := ((s.withSeg g').rpUpdate n).iouUpdateNode n

theorem pUpdSeg_eq {s : St} {g : Seg} {n : Node} (hg : s.seg = some g) (hn : s.hasNode n = true)
    (px : List Pix) (b : Bool) :
    s.pUpdSeg n px b = .ok (updRes s (g.setPixels px (if b then n else 0)) n, .updSeg n px b) := by
  unfold pUpdSeg; rw [hg]; simp only [hn, Bool.not_true, Bool.false_eq_true, if_false]; rfl

structure UpdDesc (s : St) (g' : Seg) (n : Node) (s₁ : St) : Prop where
  wf₁ : WF s → WF s₁
  seg : s₁.seg = some g'
  reg : s₁.reg = s.reg
  t2n : s₁.t2n = s.t2n
  l2n : s₁.l2n = s.l2n
  time : ∀ m, s₁.timeOf m = s.timeOf m
  nodes : ∀ m, nobs s₁ m = if m = n then (nobs s n).map (mapO (RW s₁ n)) else nobs s m
  edges : ∀ e, eobs s₁ e = if e.1 = n ∨ e.2 = n then (eobs s e).map (mapE (iouW s₁ e)) else eobs s e

theorem upd_desc (s : St) (g' : Seg) (n : Node) : UpdDesc s g' n (updRes s g' n) := by
  unfold updRes
  obtain ⟨a, ha⟩ : ∃ a, a = s.withSeg g' := ⟨_, rfl⟩
  rw [← ha]
  obtain ⟨ks, v, hb, hkv, hk0⟩ := rpUpdate_upd a n
  obtain ⟨b, hbb⟩ : ∃ b, b = a.rpUpdate n := ⟨_, rfl⟩
  rw [← hbb]
  rw [← hbb] at hb
  have haseg : a.seg = some g' := by rw [ha]; rfl
  have hbseg : b.seg = some g' := by rw [hb]; exact haseg
  have hbreg : b.reg = s.reg := by rw [hb, ha]; rfl
  have hbt : b.t2n = s.t2n := by rw [hb, ha]; rfl
  have hbl : b.l2n = s.l2n := by rw [hb, ha]; rfl
  have hbe : b.edges = s.edges := by rw [hb, ha]; rfl
  have hbskel : b.skel = s.skel := by rw [hbb, rpUpdate_skel, ha]; rfl
  have hbn : ∀ m, nobs b m = if m = n then (nobs s n).map (mapO (fun f k => if k ∈ ks then v else f k))
      else nobs s m := by
    intro m
    rw [hb]
    have : ∀ x, nobs a x = nobs s x := by intro x; rw [ha]; rfl
    rw [← this, ← this]
    exact nobs_updNode a n m _ _ (fun _ => rfl) (fun r => by
      show (_, _, _, _, obsAttrs (asets ks v r.other)) = _
      rw [obsAttrs_asets]; rfl)
  obtain ⟨c, hc⟩ : ∃ c, c = b.iouUpdateNode n := ⟨_, rfl⟩
  rw [← hc]
  obtain ⟨d1, d2, d3, d4, d5, d6, d7⟩ := foldl_iouUpdateEdge_desc (b.incident n) b
  rw [← iouUpdateNode_eq, ← hc] at d1 d2 d3 d4 d5 d6 d7
  have hcskel : c.skel = s.skel := by unfold skel; rw [d2]; exact hbskel
  have hctime : ∀ m, c.timeOf m = s.timeOf m := fun m => timeOf_of_skel_sg hcskel m
  have hcseg : c.seg = some g' := d3.trans hbseg
  obtain ⟨_, _, q3, q4, q5, _, _, _⟩ := reg_fields (d6.trans hbreg)
  refine ⟨?_, hcseg, d6.trans hbreg, d4.trans hbt, d5.trans hbl, hctime, ?_, ?_⟩
  · intro hw
    apply d7
    rw [hb]
    exact wf_updNode (wf_of_frame hw (by rw [ha]; rfl) (by rw [ha]; rfl) (by rw [ha]; rfl) (by rw [ha]; rfl))
      n _ (fun _ => rfl) (fun r h => nodup_keys_asets ks v _ h)
  · intro m
    have : nobs c m = nobs b m := by unfold nobs findNode; rw [d2]
    rw [this, hbn]
    split
    · cases ht : s.timeOf n with
      | none =>
        have : nobs s n = none := by
          rw [timeOf_eq_nobs] at ht
          cases hn : nobs s n with
          | none => rfl
          | some o => rw [hn] at ht; cases ht
        rw [this]; rfl
      | some t =>
        have hat : a.timeOf n = some t := by rw [ha]; exact ht
        obtain ⟨e1, e2⟩ := hkv g' t haseg hat
        congr 2
        funext f
        unfold RW
        rw [hcseg, hctime, ht, e1, e2, q3]
        show _ = fun k => _
        rw [ha]; rfl
    · rfl
  · intro e
    have hiw : iouW b e = iouW c e :=
      iouW_congr (by rw [← d6] at hbreg; obtain ⟨_, _, _, x, _⟩ := reg_fields d6; exact x.symm)
        (by obtain ⟨_, _, _, _, x, _⟩ := reg_fields d6; exact x.symm) d3.symm
        (fun x => (iouOf_congr_sg d3 d2 x).symm) e
    rw [d1, eobs_of_edges hbe, hiw]
    by_cases hc1 : e.1 = n ∨ e.2 = n
    · rw [if_pos hc1]
      by_cases hmem : e ∈ s.edgeList
      · rw [if_pos (mem_incident (by unfold St.edgeList at hmem; rw [hbe]; exact hmem) hc1)]
      · have : eobs s e = none := by
          cases h : eobs s e with
          | none => rfl
          | some o => exact absurd ((eobs_isSome_iff s e).mp (by rw [h]; rfl)) hmem
        rw [this]; split <;> rfl
    · rw [if_neg hc1, if_neg (not_mem_incident (fun h => hc1 (Or.inl h)) (fun h => hc1 (Or.inr h)))]

/-- the label `UpdateNodeSeg(n, px, added)` writes -/
def lab (added : Bool) (n : Node) : Nat := if added then n else 0

/-- writing `v` and then the value the pixels carried before gives the array back -/
theorem restore_pixels {g : Seg} {px : List Pix} {v' : Nat}
    (h : ∀ p ∈ px, p < g.data.length ∧ g.data.getD p 0 = v') (v : Nat) :
    (g.setPixels px v).setPixels px v' = g := by
  apply Seg.ext_getD
  · rfl
  · simp
  · intro i _
    rw [Seg.setPixels_getD, Seg.setPixels_getD, Seg.setPixels_length]
    by_cases hi : i ∈ px ∧ i < g.data.length
    · rw [if_pos hi]; exact (h i hi.1).2.symm
    · rw [if_neg hi, if_neg hi]

theorem time_map_mapO (o : Option NodeObs) (F : (Key → Val) → (Key → Val)) :
    (o.map (mapO F)).map (·.2.1) = o.map (·.2.1) := by cases o <;> rfl

/-- the symmetric description of an `UpdateNodeSeg` step -/
structure SegStep (s : St) (n : Node) (px : List Pix) (added : Bool) (s₁ : St) : Prop where
  wf : WF s
  wf₁ : WF s₁
  mem : n ∈ s.ids
  arr : ∃ g, s.seg = some g ∧ s₁.seg = some (g.setPixels px (lab added n)) ∧
    ∀ p ∈ px, p < g.data.length ∧ g.data.getD p 0 = lab (!added) n
  oth : ∀ m, m ≠ n → nobs s₁ m = nobs s m
  nfwd : nobs s₁ n = (nobs s n).map (mapO (RW s₁ n))
  nbwd : nobs s n = (nobs s₁ n).map (mapO (RW s n))
  efwd : ∀ e, eobs s₁ e = if e.1 = n ∨ e.2 = n then (eobs s e).map (mapE (iouW s₁ e)) else eobs s e
  ebwd : ∀ e, eobs s e = if e.1 = n ∨ e.2 = n then (eobs s₁ e).map (mapE (iouW s e)) else eobs s₁ e
  t2n : ∀ id m, PC.InBook s₁.t2n id m ↔ PC.InBook s.t2n id m
  l2n : ∀ id m, PC.InBook s₁.l2n id m ↔ PC.InBook s.l2n id m
  reg : s₁.reg = s.reg

theorem RW_congr {s t : St} {n : Node} (hs : s.seg = t.seg) (ht : s.timeOf n = t.timeOf n)
    (ha : s.rpActive = t.rpActive) : RW s n = RW t n := by
  funext f; unfold RW; rw [hs, ht, ha]

theorem seg_step {s s₁ : St} {n : Node} {px : List Pix} {added : Bool}
    (h : SegStep s n px added s₁) {s₁' : St} (he : ObsW s₁' s₁) :
    ∃ s₂, s₁'.invPrim (.updSeg n px added) = .ok (s₂, .updSeg n px (!added)) ∧ ObsW s₂ s ∧
      SegStep s₁ n px (!added) s := by
  have hF := he.obsF h.wf₁
  have hw' := he.wf_left h.wf₁
  obtain ⟨g, hg, hg₁, hpx⟩ := h.arr
  have hmem₁ : n ∈ s₁.ids := by
    rw [← nobs_isSome_iff, h.nfwd, Option.isSome_map, nobs_isSome_iff]; exact h.mem
  have hhas : s₁'.hasNode n = true := (PC.hasNode_iff _ _).mpr ((mem_ids_congr hF.nodes n).mpr hmem₁)
  have hrest : (g.setPixels px (lab added n)).setPixels px (lab (!added) n) = g := restore_pixels hpx _
  have hinv : s₁'.invPrim (.updSeg n px added) = .ok (updRes s₁' g n, .updSeg n px (!added)) := by
    show s₁'.pUpdSeg n px (!added) = _
    rw [pUpdSeg_eq (hF.seg.trans hg₁) hhas]
    show Except.ok (updRes s₁' ((g.setPixels px (lab added n)).setPixels px (lab (!added) n)) n, _) = _
    rw [hrest]
  have hd := upd_desc s₁' g n
  have htime : s₁.timeOf n = s.timeOf n := by
    rw [timeOf_eq_nobs, timeOf_eq_nobs, h.nfwd, time_map_mapO]
  obtain ⟨_, _, q3, q4, q5, _, _, _⟩ := reg_fields (hd.reg.trans (hF.reg.trans h.reg))
  have hRW : RW (updRes s₁' g n) n = RW s n :=
    RW_congr (hd.seg.trans hg.symm) ((hd.time n).trans ((timeOf_congr hF.nodes n).trans htime)) q3
  have hnodes : ∀ m, nobs (updRes s₁' g n) m = nobs s m := by
    intro m
    rw [hd.nodes]
    split
    · rename_i hm; rw [hm, hRW, hF.nodes, ← h.nbwd]
    · rename_i hm; rw [hF.nodes, h.oth m hm]
  refine ⟨_, hinv, ?_, ?_⟩
  · refine ObsW.of_obsF ?_ (hd.wf₁ hw') h.wf
    refine ⟨hnodes, ?_, hd.seg.trans hg.symm, ?_, ?_, hd.reg.trans (hF.reg.trans h.reg)⟩
    · intro e
      rw [hd.edges, iouW_congr q4 q5 (hd.seg.trans hg.symm) (iouOf_congr_obs (hd.seg.trans hg.symm) hnodes) e,
        hF.edges, ← h.ebwd]
    · intro id m; rw [hd.t2n, hF.t2n, h.t2n]
    · intro id m; rw [hd.l2n, hF.l2n, h.l2n]
  · refine ⟨h.wf₁, h.wf, hmem₁, ⟨_, hg₁, by rw [hrest]; exact hg, ?_⟩, fun m hm => (h.oth m hm).symm,
      h.nbwd, h.nfwd, h.ebwd, h.efwd, fun id m => (h.t2n id m).symm, fun id m => (h.l2n id m).symm,
      h.reg.symm⟩
    intro p hp
    have hl := (hpx p hp).1
    refine ⟨by simpa using hl, ?_⟩
    rw [Seg.setPixels_getD, if_pos ⟨hp, hl⟩, Bool.not_not]

theorem iouW_absorb {s t : St} (hk : s.iouKey = t.iouKey) (ha : s.iouActive = t.iouActive)
    (hs : s.seg.isSome = t.seg.isSome) (e : Edge) (f : Key → Val) :
    iouW s e (iouW t e f) = iouW s e f := by
  unfold iouW
  rw [← hk, ← ha, ← hs]
  cases s.iouKey with
  | none => rfl
  | some k =>
    simp only
    split
    · funext k'; by_cases h : k' = k <;> simp [h]
    · rfl

/-- preconditions of a primitive UpdateNodeSeg (C01): the pixels lie inside the array and carry
    the opposite value (background when adding, the node's label when removing); the
    regionprops values of the node and the IoU of its incident edges are current (`MeasOK`) -/
structure SegPre (s : St) (g : Seg) (n : Node) (px : List Pix) (added : Bool) : Prop where
  wf : WF s
  seg : s.seg = some g
  opp : ∀ p ∈ px, p < g.data.length ∧ g.data.getD p 0 = lab (!added) n
  cur : ∀ t, s.timeOf n = some t → ∀ k ∈ s.rpActive, s.otherOf n k = g.maskVal t n
  iouCur : ∀ k, s.iouKey = some k → s.iouActive = true → ∀ r ∈ s.edges, (r.e.1 = n ∨ r.e.2 = n) →
    obsAttrs r.attrs k = s.iouOf r.e

theorem pUpdSeg_segStep {s s₁ : St} {g : Seg} {n : Node} {px : List Pix} {added : Bool} {r : PrimRec}
    (hp : SegPre s g n px added) (h : s.pUpdSeg n px added = .ok (s₁, r)) :
    r = .updSeg n px added ∧ SegStep s n px added s₁ := by
  obtain ⟨g0, hg0, hhas, hr, hs₁⟩ := pUpdSeg_ok_sg h
  rw [hp.seg] at hg0; cases hg0
  refine ⟨hr, ?_⟩
  have hd : UpdDesc s (g.setPixels px (lab added n)) n s₁ := hs₁ ▸ upd_desc s _ n
  have hmem : n ∈ s.ids := (PC.hasNode_iff s n).mp hhas
  obtain ⟨o, ho⟩ := Option.isSome_iff_exists.mp ((nobs_isSome_iff s n).mpr hmem)
  have hnf : nobs s₁ n = (nobs s n).map (mapO (RW s₁ n)) := by rw [hd.nodes, if_pos rfl]
  obtain ⟨_, _, q3, q4, q5, _, _, _⟩ := reg_fields hd.reg
  refine ⟨hp.wf, hd.wf₁ hp.wf, hmem, ⟨g, hp.seg, hd.seg, hp.opp⟩, fun m hm => by rw [hd.nodes, if_neg hm],
    hnf, ?_, hd.edges, ?_, fun id m => by rw [hd.t2n], fun id m => by rw [hd.l2n], hd.reg⟩
  · rw [hnf, ho, Option.map_some, Option.map_some]
    congr 1
    show o = (o.1, o.2.1, o.2.2.1, o.2.2.2.1, RW s n (RW s₁ n o.2.2.2.2))
    have : RW s n (RW s₁ n o.2.2.2.2) = o.2.2.2.2 := by
      have hto : s.timeOf n = some o.2.1 := by rw [timeOf_eq_nobs, ho]; rfl
      funext k
      unfold RW
      rw [hp.seg, hto, hd.seg, hd.time, hto]
      simp only
      have hoth : s.otherOf n k = o.2.2.2.2 k := by rw [otherOf_eq_nobs, ho]; rfl
      by_cases hk : k ∈ s.rpActive
      · rw [if_pos hk, ← hoth]; exact (hp.cur _ hto k hk).symm
      · rw [if_neg hk, q3, if_neg hk]
    rw [this]
  · intro e
    rw [hd.edges]
    split
    · rename_i hc
      cases hfe : s.findEdge e with
      | none => unfold eobs; rw [hfe]; rfl
      | some er =>
        have hee : eobs s e = some (obsEdge er) := by unfold eobs; rw [hfe]; rfl
        obtain ⟨hmem_er, hre⟩ := findEdge_some hfe
        rw [hee, Option.map_some, Option.map_some]
        congr 1
        show (er.e, obsAttrs er.attrs) = (er.e, iouW s e (iouW s₁ e (obsAttrs er.attrs)))
        congr 1
        rw [iouW_absorb q4.symm q5.symm (by rw [hp.seg, hd.seg]; rfl)]
        unfold iouW
        cases hk : s.iouKey with
        | none => rfl
        | some k =>
          simp only
          split
          · rename_i hact
            funext k'
            by_cases hk' : k' = k
            · simp only [hk', if_true]
              have hact' : s.iouActive = true := by
                cases ha : s.iouActive with
                | true => rfl
                | false => rw [ha] at hact; simp at hact
              rw [← hre]
              exact hp.iouCur k hk hact' er hmem_er (hre ▸ hc)
            · simp [hk']
          · rfl
    · rfl

def GoodSeg (s : St) (r : PrimRec) (s₁ : St) : Prop :=
  ∃ n px added, r = .updSeg n px added ∧ SegStep s n px added s₁

theorem goodSeg_closed (s : St) (r : PrimRec) (s₁ : St) (h : GoodSeg s r s₁) (s₁' : St)
    (he : ObsW s₁' s₁) : ∃ s₂ r', s₁'.invPrim r = .ok (s₂, r') ∧ ObsW s₂ s ∧ GoodSeg s₁ r' s := by
  obtain ⟨n, px, added, rfl, hs⟩ := h
  obtain ⟨s₂, h1, h2, h3⟩ := seg_step hs he
  exact ⟨s₂, _, h1, h2, n, px, !added, rfl, h3⟩

theorem invLaw_updSeg {s s₁ : St} {g : Seg} {n : Node} {px : List Pix} {added : Bool} {r : PrimRec}
    (hp : SegPre s g n px added) (h : s.pUpdSeg n px added = .ok (s₁, r)) : InvLaw ObsW s r s₁ := by
  obtain ⟨hr, hs⟩ := pUpdSeg_segStep hp h
  exact InvLaw.of_closed GoodSeg goodSeg_closed ⟨n, px, added, hr, hs⟩

/-! ## Part 4 — checkable forms of the hypotheses, links to the invariants of SessionSpec -/

theorem mapWF_of_all {m : List (Nat × List Node)} (hk : (m.map (·.1)).Nodup)
    (hl : ∀ p ∈ m, p.2.Nodup) : PC.MapWF m := by
  refine ⟨hk, ?_⟩
  intro id l h
  have : ∀ (m : List (Nat × List Node)), alook id m = some l → (id, l) ∈ m := by
    intro m
    induction m with
    | nil => intro h; simp [alook] at h
    | cons p r ih =>
      intro h
      obtain ⟨k0, v0⟩ := p
      by_cases h0 : k0 = id
      · subst h0; simp [alook] at h; subst h; exact mem_cons_self
      · simp [alook, h0] at h; exact mem_cons_of_mem _ (ih h)
  exact hl _ (this m h)

theorem notInBook_of_all {m : List (Nat × List Node)} {n : Node} (h : ∀ p ∈ m, n ∉ p.2) :
    ∀ id, ¬ PC.InBook m id n := by
  rintro id ⟨l, hl, hn⟩
  have : ∀ (m : List (Nat × List Node)), alook id m = some l → (id, l) ∈ m := by
    intro m
    induction m with
    | nil => intro h; simp [alook] at h
    | cons p r ih =>
      intro h
      obtain ⟨k0, v0⟩ := p
      by_cases h0 : k0 = id
      · subst h0; simp [alook] at h; subst h; exact mem_cons_self
      · simp [alook, h0] at h; exact mem_cons_of_mem _ (ih h)
  exact h _ (this m hl) hn

/-- decidable form of `WF` -/
def WFb (s : St) : Prop :=
  s.ids.Nodup ∧ s.edgeList.Nodup ∧ (∀ r ∈ s.nodes, (r.other.map (·.1)).Nodup) ∧
  (∀ r ∈ s.edges, (r.attrs.map (·.1)).Nodup) ∧ (s.t2n.map (·.1)).Nodup ∧ (∀ p ∈ s.t2n, p.2.Nodup) ∧
  (s.l2n.map (·.1)).Nodup ∧ (∀ p ∈ s.l2n, p.2.Nodup)

instance (s : St) : Decidable (WFb s) := by unfold WFb; infer_instance

theorem WF.of_b {s : St} (h : WFb s) : WF s :=
  ⟨h.1, h.2.1, h.2.2.1, h.2.2.2.1, mapWF_of_all h.2.2.2.2.1 h.2.2.2.2.2.1,
    mapWF_of_all h.2.2.2.2.2.2.1 h.2.2.2.2.2.2.2⟩

/-- `Forest ∧ BookOK` + "attribute dictionaries have distinct keys" gives `WF` -/
theorem WF.of_invariants {s : St} (hf : Forest s) (hb : BookOK s)
    (hn : ∀ r ∈ s.nodes, (r.other.map (·.1)).Nodup) (he : ∀ r ∈ s.edges, (r.attrs.map (·.1)).Nodup) :
    WF s :=
  ⟨hf.nodup_nodes, hf.nodup_edges, hn, he, ⟨hb.t_keys, hb.t_nodup⟩, ⟨hb.l_keys, hb.l_nodup⟩⟩

/-- under `BookOK` a fresh id is in no lookup, a present node exactly under its ids -/
theorem t2nfresh_of_book {s : St} (hb : BookOK s) {n : Node} (hn : n ∉ s.ids) :
    ∀ id, ¬ PC.InBook s.t2n id n := fun id h => hn ((hb.t_iff id n).mp h).1
theorem l2nfresh_of_book {s : St} (hb : BookOK s) (hl : s.linOn = true) {n : Node} (hn : n ∉ s.ids) :
    ∀ id, ¬ PC.InBook s.l2n id n := fun id h => hn ((hb.l_iff hl id n).mp h).1
theorem t2n_of_book {s : St} (hb : BookOK s) {n : Node} (hn : n ∈ s.ids) :
    ∀ id, PC.InBook s.t2n id n ↔ s.tidOf n = some id :=
  fun id => (hb.t_iff id n).trans ⟨fun h => h.2, fun h => ⟨hn, h⟩⟩
theorem l2n_of_book {s : St} (hb : BookOK s) (hl : s.linOn = true) {n : Node} (hn : n ∈ s.ids) :
    ∀ id, PC.InBook s.l2n id n ↔ s.linOf n = some id :=
  fun id => (hb.l_iff hl id n).trans ⟨fun h => h.2, fun h => ⟨hn, h⟩⟩

/-- on well-formed states `ObsEq` gives every reader the same answer -/
theorem ObsEq.readers {s t : St} (h : ObsEq s t) (hs : WF s) (ht : WF t) :
    (∀ n, n ∈ s.ids ↔ n ∈ t.ids) ∧ (∀ n, s.timeOf n = t.timeOf n) ∧ (∀ n, s.tidOf n = t.tidOf n) ∧
    (∀ n, s.linOf n = t.linOf n) ∧ (∀ n k, s.otherOf n k = t.otherOf n k) ∧
    (∀ e, e ∈ s.edgeList ↔ e ∈ t.edgeList) ∧ s.seg = t.seg := by
  have hF := (obsEq_iff_obsF hs ht).mp h
  refine ⟨mem_ids_congr hF.nodes, timeOf_congr hF.nodes, fun n => by rw [tidOf_eq_nobs, tidOf_eq_nobs, hF.nodes],
    fun n => by rw [linOf_eq_nobs, linOf_eq_nobs, hF.nodes],
    fun n k => by rw [otherOf_eq_nobs, otherOf_eq_nobs, hF.nodes], edgeList_congr hF.edges, hF.seg⟩

/-- explicit undo / redo form of the law over `ObsW` -/
theorem InvLaw.undo_redo_obs {s s₁ : St} {r : PrimRec} (h : InvLaw ObsW s r s₁) :
    ∃ s₂ r', s₁.invPrim r = .ok (s₂, r') ∧ ObsEq s₂ s ∧
      ∃ s₃ r'', s₂.invPrim r' = .ok (s₃, r'') ∧ ObsEq s₃ s₁ := by
  obtain ⟨s₂, r', h1, h2, s₃, r'', h3, h4⟩ := h.undo_redo obsW_isEquiv
  exact ⟨s₂, r', h1, h2.1, s₃, r'', h3, h4.1⟩

theorem alook_of_mem {m : List (Nat × List Node)} (hk : (m.map (·.1)).Nodup) {id : Nat} {l : List Node}
    (h : (id, l) ∈ m) : alook id m = some l := by
  induction m with
  | nil => cases h
  | cons p r ih =>
    obtain ⟨k0, v0⟩ := p
    rw [map_cons, nodup_cons] at hk
    rcases mem_cons.mp h with h | h
    · cases h; simp [alook]
    · have : k0 ≠ id := fun e => hk.1 (e ▸ mem_map.mpr ⟨(id, l), h, rfl⟩)
      simp [alook, this, ih hk.2 h]

theorem inBook_iff_mem {m : List (Nat × List Node)} (hk : (m.map (·.1)).Nodup) (id : Nat) (n : Node) :
    PC.InBook m id n ↔ ∃ p ∈ m, p.1 = id ∧ n ∈ p.2 := by
  constructor
  · rintro ⟨l, hl, hn⟩
    have : ∀ (m : List (Nat × List Node)), alook id m = some l → (id, l) ∈ m := by
      intro m
      induction m with
      | nil => intro h; simp [alook] at h
      | cons p r ih =>
        intro h
        obtain ⟨k0, v0⟩ := p
        by_cases h0 : k0 = id
        · subst h0; simp [alook] at h; subst h; exact mem_cons_self
        · simp [alook, h0] at h; exact mem_cons_of_mem _ (ih h)
    exact ⟨(id, l), this m hl, rfl, hn⟩
  · rintro ⟨⟨k, l⟩, hp, rfl, hn⟩
    exact ⟨l, alook_of_mem hk hp, hn⟩

/-- checkable form of "listed in the lookup exactly under its id" -/
theorem book_dec {m : List (Nat × List Node)} {n : Node} {v : Option Nat} (hk : (m.map (·.1)).Nodup)
    (h1 : ∀ p ∈ m, n ∈ p.2 → v = some p.1) (h2 : ∀ id ∈ v.toList, ∃ p ∈ m, p.1 = id ∧ n ∈ p.2) :
    ∀ id, PC.InBook m id n ↔ v = some id := by
  intro id
  rw [inBook_iff_mem hk]
  constructor
  · rintro ⟨p, hp, rfl, hn⟩; exact h1 p hp hn
  · intro hv; exact h2 id (by rw [hv]; simp)

/-- checkable form of "every non-None attribute of the node is a registered feature" -/
theorem registered_dec {s : St} {n : Node}
    (h : ∀ r ∈ s.nodes, r.id = n → ∀ kv ∈ r.other, kv.1 ∈ s.regNode) :
    ∀ k, s.otherOf n k ≠ Val.none → k ∈ s.regNode := by
  intro k hk
  unfold otherOf at hk
  cases hf : s.findNode n with
  | none => rw [hf] at hk; exact absurd rfl hk
  | some r =>
    rw [hf] at hk
    have hk' : (alook k r.other).getD Val.none ≠ Val.none := hk
    obtain ⟨hr, hid⟩ := PC.findNode_some_mem hf
    cases ha : alook k r.other with
    | none => rw [ha] at hk'; exact absurd rfl hk'
    | some v => exact h r hr hid (k, v) (alook_mem ha)

/-! ### example state for the non-vacuity checks -/

/-- `exSeg` of InverseLemmas with every annotator value computed (regionprops key 10 on every
    node, IoU key 11 on every edge): 1@0 → {2@1, 3@1}, 2 → 4@3, 5@2 isolated; 4 frames of 4 pixels -/
def exCur : St := (exSeg.rpCompute [10]).iouCompute
theorem exCur_seg : exCur.seg = some ⟨4, [1,0,0,0, 2,2,3,0, 5,0,0,0, 4,4,0,0]⟩ := by decide
theorem exCur_wf : WF exCur := WF.of_b (by decide)

end Ft.R2A1
