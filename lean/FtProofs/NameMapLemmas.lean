/-
  Helper lemmas for property C17 (FtModel.NameMap).
  Route: every matching step turns (props_left, mapping) into (props_left', mapping ++ ext)
  where `ext` has fresh keys and its columns are exactly the ones removed from props_left
  (`Good`, stated with `List.count`); the steps compose (`Good.trans`), and step 5 appends
  the leftovers under their own names, which are not keys because every column spelled like
  a possible key was consumed by the exact step.
-/
import FtModel.NameMap
namespace Ft.NameMap
open List

/-! ### association lists (`Ft.alook`, `Ft.aset`) -/

theorem keys_cons {α β : Type} (e : α × β) (l : List (α × β)) : keys (e :: l) = e.1 :: keys l :=
  rfl
theorem keys_append {α β : Type} (l₁ l₂ : List (α × β)) : keys (l₁ ++ l₂) = keys l₁ ++ keys l₂ := by
  simp [keys]
@[simp] theorem keys_nil {α β : Type} : keys ([] : List (α × β)) = [] := rfl
theorem mem_keys_of_mem {α β : Type} {k : α} {v : β} {l : List (α × β)} (h : (k, v) ∈ l) :
    k ∈ keys l := by
  simp [keys]; exact ⟨v, h⟩

section assoc
variable {α β : Type} [BEq α] [LawfulBEq α]

theorem aset_not_mem (k : α) (v : β) (l : List (α × β)) (h : k ∉ keys l) :
    aset k v l = l ++ [(k, v)] := by
  induction l with
  | nil => rfl
  | cons e r ih =>
    obtain ⟨k', v'⟩ := e
    have h1 : k' ≠ k := fun hh => h (by simp [keys, hh])
    have h2 : k ∉ keys r := fun hh => h (by simp [keys] at hh ⊢; exact Or.inr hh)
    simp [aset, h1, ih h2]

theorem mem_aset {k : α} {v : β} {l : List (α × β)} {x : α × β} (h : x ∈ aset k v l) :
    x = (k, v) ∨ x ∈ l := by
  induction l with
  | nil => simp [aset] at h; exact Or.inl h
  | cons e r ih =>
    obtain ⟨k', v'⟩ := e
    by_cases hk : k' = k
    · simp [aset, hk] at h
      rcases h with h | h
      · exact Or.inl h
      · exact Or.inr (mem_cons_of_mem _ h)
    · simp [aset, hk] at h
      rcases h with h | h
      · exact Or.inr (by simp [h])
      · rcases ih h with h | h
        · exact Or.inl h
        · exact Or.inr (mem_cons_of_mem _ h)

theorem keys_aset_mem (k : α) (v : β) (l : List (α × β)) (h : k ∈ keys l) :
    keys (aset k v l) = keys l := by
  induction l with
  | nil => simp [keys] at h
  | cons e r ih =>
    obtain ⟨k', v'⟩ := e
    by_cases hk : k' = k
    · simp [aset, hk, keys]
    · have : k ∈ keys r := by
        simp [keys] at h ⊢
        rcases h with h | h
        · exact absurd h.symm hk
        · exact h
      simp [aset, hk, keys_cons, ih this]

theorem alook_mem {k : α} {v : β} {l : List (α × β)} (h : alook k l = some v) : (k, v) ∈ l := by
  induction l with
  | nil => simp [alook] at h
  | cons e r ih =>
    obtain ⟨k', v'⟩ := e
    by_cases hk : k' = k
    · simp [alook, hk] at h; simp [hk, h]
    · simp [alook, hk] at h; exact mem_cons_of_mem _ (ih h)

theorem alook_none {k : α} {l : List (α × β)} (h : alook k l = none) : k ∉ keys l := by
  induction l with
  | nil => simp [keys]
  | cons e r ih =>
    obtain ⟨k', v'⟩ := e
    by_cases hk : k' = k
    · simp [alook, hk] at h
    · simp [alook, hk] at h
      simp [keys_cons]
      exact ⟨fun hh => hk hh.symm, ih h⟩

theorem alook_some_of_mem {k : α} {l : List (α × β)} (h : k ∈ keys l) : ∃ v, alook k l = some v := by
  cases hh : alook k l with
  | none => exact absurd h (alook_none hh)
  | some v => exact ⟨v, rfl⟩

end assoc

/-! ### columns of a mapping -/

theorem mcols_append (m₁ m₂ : Mapping) : mcols (m₁ ++ m₂) = mcols m₁ ++ mcols m₂ := by
  simp [mcols]
@[simp] theorem mcols_nil : mcols [] = [] := rfl
@[simp] theorem mcols_single_one (k c : String) : mcols [(k, Val.one c)] = [c] := by
  simp [mcols, Val.cols]
@[simp] theorem mcols_single_many (k : String) (cs : List String) :
    mcols [(k, Val.many cs)] = cs := by
  simp [mcols, Val.cols]

/-! ### the step specification -/

/-- `Good K pl m r`: the step that turned `(pl, m)` into `r = (pl', m')` only appended entries
    `ext` to the mapping, under fresh keys taken from `K`, and the columns of `ext` together
    with `pl'` are exactly `pl` (multiset equality, stated with `count`). -/
def Good (K : List String) (pl : List String) (m : Mapping) (r : List String × Mapping) : Prop :=
  ∃ ext : Mapping, r.2 = m ++ ext
    ∧ (∀ a, count a (mcols ext) + count a r.1 = count a pl)
    ∧ (keys (m ++ ext)).Nodup
    ∧ ∀ k ∈ keys ext, k ∈ K

theorem Good.refl {K pl m} (h : (keys m).Nodup) : Good K pl m (pl, m) :=
  ⟨[], by simp, by simp, by simpa using h, by simp⟩

theorem Good.trans {K pl m pl₁ m₁ r} (h₁ : Good K pl m (pl₁, m₁)) (h₂ : Good K pl₁ m₁ r) :
    Good K pl m r := by
  obtain ⟨e₁, he₁, hc₁, hn₁, hk₁⟩ := h₁
  obtain ⟨e₂, he₂, hc₂, hn₂, hk₂⟩ := h₂
  simp only at he₁ hc₁
  subst he₁
  refine ⟨e₁ ++ e₂, by simp [he₂], ?_, by simpa using hn₂, ?_⟩
  · intro a
    have := hc₁ a; have := hc₂ a
    simp only [mcols_append, count_append]; omega
  · intro k hk
    simp only [keys_append, mem_append] at hk
    rcases hk with hk | hk
    · exact hk₁ k hk
    · exact hk₂ k hk

theorem Good.mono {K K' pl m r} (h : Good K pl m r) (hK : ∀ k ∈ K, k ∈ K') : Good K' pl m r := by
  obtain ⟨e, he, hc, hn, hk⟩ := h
  exact ⟨e, he, hc, hn, fun k h => hK k (hk k h)⟩

theorem Good.nodup {K pl m r} (h : Good K pl m r) : (keys r.2).Nodup := by
  obtain ⟨e, he, _, hn, _⟩ := h
  rw [he]; exact hn

/-- what is left is part of what was there -/
theorem Good.sub {K pl m r} (h : Good K pl m r) : ∀ p ∈ r.1, p ∈ pl := by
  obtain ⟨e, _, hc, _, _⟩ := h
  intro p hp
  have h1 := hc p
  have h2 : 0 < count p r.1 := count_pos_iff.mpr hp
  exact count_pos_iff.mp (by omega)

/-- earlier entries survive -/
theorem Good.keep {K pl m r} (h : Good K pl m r) : ∀ e ∈ m, e ∈ r.2 := by
  obtain ⟨e, he, _, _, _⟩ := h
  intro x hx; rw [he]; exact mem_append_left _ hx

/-- one assignment `mapping[k] = c; props_left.remove(c)` with `k` fresh and `c` present -/
theorem good_add {K pl m} (k c : String) (hn : (keys m).Nodup) (hk : k ∉ keys m) (hc : c ∈ pl)
    (hK : k ∈ K) : Good K pl m (pl.erase c, aset k (.one c) m) := by
  refine ⟨[(k, .one c)], aset_not_mem k _ m hk, ?_, ?_, ?_⟩
  · intro a
    simp only [mcols_single_one, count_erase]
    have := count_pos_iff.mpr hc
    by_cases h : c = a
    · subst h; simp; omega
    · simp [h]
  · rw [keys_append, nodup_append]
    refine ⟨hn, by simp [keys], ?_⟩
    intro a ha b hb
    simp [keys] at hb
    subst hb
    exact fun h => hk (h ▸ ha)
  · intro k' hk'
    simp [keys] at hk'
    exact hk' ▸ hK

/-! ### steps 1 and 2 -/

theorem matchExact_good (K : List String) (ts : List String) :
    ∀ pl m, (keys m).Nodup → (∀ t ∈ ts, t ∈ K) → Good K pl m (matchExact ts pl m) := by
  induction ts with
  | nil => intro pl m hn _; exact Good.refl hn
  | cons f fs ih =>
    intro pl m hn hK
    have hK' : ∀ t ∈ fs, t ∈ K := fun t ht => hK t (mem_cons_of_mem _ ht)
    unfold matchExact
    split
    · exact ih pl m hn hK'
    · rename_i hk
      split
      · rename_i hf
        have g := good_add (K := K) f f hn hk hf (hK f mem_cons_self)
        exact g.trans (ih _ _ g.nodup hK')
      · exact ih pl m hn hK'

theorem matchExact_sub (ts : List String) :
    ∀ pl m, ∀ p ∈ (matchExact ts pl m).1, p ∈ pl := by
  induction ts with
  | nil => intro pl m p hp; exact hp
  | cons f fs ih =>
    intro pl m p hp
    unfold matchExact at hp
    split at hp
    · exact ih pl m p hp
    · split at hp
      · exact mem_of_mem_erase (ih _ _ p hp)
      · exact ih pl m p hp

/-- after the exact step no target is left over, unless its key was taken beforehand -/
theorem matchExact_consumes (ts : List String) :
    ∀ pl m, pl.Nodup → ∀ t ∈ ts, t ∈ (matchExact ts pl m).1 → t ∈ keys m := by
  induction ts with
  | nil => intro pl m _ t ht; simp at ht
  | cons f fs ih =>
    intro pl m hn t ht hin
    unfold matchExact at hin
    split at hin
    · rename_i hk
      rcases mem_cons.mp ht with rfl | ht'
      · exact hk
      · exact ih pl m hn t ht' hin
    · rename_i hk
      split at hin
      · rename_i hf
        have hgone : f ∉ (matchExact fs (pl.erase f) (aset f (.one f) m)).1 := by
          intro h
          have := matchExact_sub fs _ _ f h
          exact absurd rfl ((hn.mem_erase_iff).mp this).1
        rcases mem_cons.mp ht with rfl | ht'
        · exact absurd hin hgone
        · have := ih _ _ (hn.erase f) t ht' hin
          rw [aset_not_mem f _ m hk, keys_append, mem_append] at this
          rcases this with h | h
          · exact h
          · simp [keys] at h; subst h; exact absurd hin hgone
      · rename_i hf
        rcases mem_cons.mp ht with rfl | ht'
        · exact absurd (matchExact_sub fs pl m _ hin) hf
        · exact ih pl m hn t ht' hin

/-- a column spelled exactly like a target whose key is free is mapped to that key -/
theorem matchExact_exact (ts : List String) (c : String) :
    ∀ pl m, (keys m).Nodup → c ∈ ts → c ∈ pl → c ∉ keys m →
      (c, Val.one c) ∈ (matchExact ts pl m).2 := by
  induction ts with
  | nil => intro pl m _ h; simp at h
  | cons f fs ih =>
    intro pl m hn hts hpl hk
    unfold matchExact
    split
    · rename_i hf
      have hne : c ≠ f := fun h => hk (h ▸ hf)
      exact ih pl m hn ((mem_cons.mp hts).resolve_left hne) hpl hk
    · rename_i hfk
      split
      · rename_i hf
        have g := good_add (K := [f]) f f hn hfk hf (by simp)
        by_cases hcf : c = f
        · subst hcf
          have g2 := matchExact_good fs fs (pl.erase c) (aset c (.one c) m) g.nodup (fun _ h => h)
          apply g2.keep
          rw [aset_not_mem c _ m hfk]; simp
        · apply ih _ _ g.nodup ((mem_cons.mp hts).resolve_left hcf)
          · exact (mem_erase_of_ne hcf).mpr hpl
          · rw [aset_not_mem f _ m hfk, keys_append, mem_append]
            simp [keys]
            exact ⟨by simpa [keys] using hk, hcf⟩
      · rename_i hf
        have hne : c ≠ f := fun h => hf (h ▸ hpl)
        exact ih pl m hn ((mem_cons.mp hts).resolve_left hne) hpl hk

section fuzzy
variable (fz : String → List String → Option String) (lower : String → String)

theorem lowerMap_vals (pl : List String) : ∀ e ∈ lowerMap lower pl, e.2 ∈ pl := by
  have gen : ∀ (xs : List String) (d : List (String × String)),
      (∀ e ∈ d, e.2 ∈ pl) → (∀ x ∈ xs, x ∈ pl) →
      ∀ e ∈ xs.foldl (fun d p => aset (lower p) p d) d, e.2 ∈ pl := by
    intro xs
    induction xs with
    | nil => intro d hd _ e he; exact hd e he
    | cons x xs ih =>
      intro d hd hx e he
      simp only [foldl_cons] at he
      refine ih _ ?_ (fun y hy => hx y (mem_cons_of_mem _ hy)) e he
      intro e' he'
      rcases mem_aset he' with h | h
      · subst h; exact hx x mem_cons_self
      · exact hd e' h
  exact gen pl [] (by simp) (fun x h => h)

theorem matchFuzzy_good (hfz : ∀ q cs c, fz q cs = some c → c ∈ cs) (K : List String)
    (ts : List String) :
    ∀ pl m, (keys m).Nodup → (∀ t ∈ ts, t ∈ K) → Good K pl m (matchFuzzy fz lower ts pl m) := by
  induction ts with
  | nil => intro pl m hn _; exact Good.refl hn
  | cons f fs ih =>
    intro pl m hn hK
    have hK' : ∀ t ∈ fs, t ∈ K := fun t ht => hK t (mem_cons_of_mem _ ht)
    unfold matchFuzzy
    split
    · exact ih pl m hn hK'
    · rename_i hk
      split
      · exact Good.refl hn
      · simp only
        split
        · exact ih pl m hn hK'
        · rename_i c hc
          have hcm := hfz _ _ _ hc
          split
          · rename_i hnone
            exact absurd hcm (alook_none hnone)
          · rename_i best hbest
            have hb : best ∈ pl := lowerMap_vals lower pl _ (alook_mem hbest)
            have g := good_add (K := K) f best hn hk hb (hK f mem_cons_self)
            exact g.trans (ih _ _ g.nodup hK')

end fuzzy

/-! ### steps 3 and 4: the loop over the columns -/

def dvals (d : DMap) : List (String × Nat) := d.map (·.2)
def dkeys (d : DMap) : List String := d.map (·.2.1)
/-- the feature key has (at least) two different value indices in the display map -/
def TwoIdx (d : DMap) (k : String) : Prop :=
  ∃ i j, i ≠ j ∧ (k, i) ∈ dvals d ∧ (k, j) ∈ dvals d
/-- columns parked in `multi_value_matches` -/
def pcols (mvm : MVM) : List String := mvm.flatMap (fun e => e.2.map (·.2))

theorem dkeys_of_dvals {d : DMap} {k : String} {i : Nat} (h : (k, i) ∈ dvals d) : k ∈ dkeys d := by
  simp only [dvals, dkeys, mem_map] at h ⊢
  obtain ⟨e, he, h⟩ := h
  exact ⟨e, he, by rw [h]⟩

theorem alook_dvals {d : DMap} {c k : String} {i : Nat} (h : alook c d = some (k, i)) :
    (k, i) ∈ dvals d := by
  have := alook_mem h
  simp only [dvals, mem_map]
  exact ⟨_, this, rfl⟩

theorem isMulti_true {d : DMap} {k : String} {idx : Nat} (h : isMulti d k idx = true) :
    ∃ i, i ≠ idx ∧ (k, i) ∈ dvals d := by
  simp only [isMulti, any_eq_true, Bool.and_eq_true, beq_iff_eq, bne_iff_ne] at h
  obtain ⟨e, he, h1, h2⟩ := h
  refine ⟨e.2.2, h2, ?_⟩
  simp only [dvals, mem_map]
  exact ⟨e, he, by rw [← h1]⟩

theorem isMulti_false {d : DMap} {k : String} {idx : Nat} (h : ¬ isMulti d k idx = true) :
    ∀ i, (k, i) ∈ dvals d → i = idx := by
  intro i hi
  simp only [dvals, mem_map] at hi
  obtain ⟨e, he, h1⟩ := hi
  by_cases hne : i = idx
  · exact hne
  exfalso
  apply h
  simp only [isMulti, any_eq_true, Bool.and_eq_true, beq_iff_eq, bne_iff_ne]
  refine ⟨e, he, ?_, ?_⟩
  · rw [h1]
  · rw [h1]; exact hne

theorem pcols_aset (k : String) (idx : Nat) (p : String) :
    ∀ mvm : MVM, idx ∉ keys ((alook k mvm).getD []) → ∀ a,
      count a (pcols (aset k (aset idx p ((alook k mvm).getD [])) mvm))
        = count a [p] + count a (pcols mvm) := by
  intro mvm
  induction mvm with
  | nil =>
    intro _ a
    simp [alook, aset, pcols]
  | cons e r ih =>
    obtain ⟨k', s'⟩ := e
    intro h a
    by_cases hk : k' = k
    · subst hk
      simp only [alook, beq_self_eq_true, if_true, Option.getD_some] at h ⊢
      rw [aset_not_mem idx p s' h]
      simp only [aset, beq_self_eq_true, if_true, pcols, flatMap_cons, map_append, map_cons,
        map_nil, count_append]
      omega
    · have hb : (k' == k) = false := by simpa using hk
      simp only [alook, hb] at h ⊢
      have := ih h a
      simp only [aset, hb, pcols, flatMap_cons, count_append] at this ⊢
      simp only [Bool.false_eq_true, if_false, flatMap_cons, count_append]
      omega

theorem keys_aset (k : String) {β : Type} (v : β) (l : List (String × β)) :
    keys (aset k v l) = if k ∈ keys l then keys l else keys l ++ [k] := by
  split
  · rename_i h; exact keys_aset_mem k v l h
  · rename_i h; rw [aset_not_mem k v l h, keys_append]; rfl

/-- loop invariant of steps 3/4, relative to the state `(pl₀, m₀)` at loop entry -/
structure LInv (d : DMap) (pl₀ : List String) (m₀ : Mapping) (st : St) : Prop where
  ext : ∃ ext : Mapping, st.m = m₀ ++ ext
    ∧ (∀ a, count a (mcols ext) + count a (pcols st.mvm) + count a st.pl = count a pl₀)
    ∧ ∀ k ∈ keys ext, k ∈ dkeys d
  nodup : (keys st.m ++ keys st.mvm).Nodup
  mvmK : ∀ k ∈ keys st.mvm, k ∈ dkeys d ∧ TwoIdx d k

theorem LInv.init {d pl₀ m₀} (hn : (keys m₀).Nodup) : LInv d pl₀ m₀ ⟨pl₀, m₀, []⟩ :=
  ⟨⟨[], by simp, by simp [pcols], by simp⟩, by simpa using hn, by simp⟩

theorem dispStep_inv {d pl₀ m₀ st} (prop k : String) (idx : Nat) (h : LInv d pl₀ m₀ st)
    (hd : (k, idx) ∈ dvals d) (hp : prop ∈ st.pl) : LInv d pl₀ m₀ (dispStep d st prop k idx) := by
  obtain ⟨⟨ext, hm, hc, hk⟩, hn, hK⟩ := h
  have hpos := count_pos_iff.mpr hp
  have hcount : ∀ a, count a [prop] + count a (st.pl.erase prop) = count a st.pl := by
    intro a
    simp only [count_erase]
    by_cases h : prop = a
    · subst h; simp; omega
    · simp [h]
  unfold dispStep
  split
  · exact ⟨⟨ext, hm, hc, hk⟩, hn, hK⟩
  · rename_i hkm
    split
    · rename_i hmulti
      simp only
      split
      · exact ⟨⟨ext, hm, hc, hk⟩, hn, hK⟩
      · rename_i hidx
        have htwo : TwoIdx d k := by
          obtain ⟨i, hi, hin⟩ := isMulti_true hmulti
          exact ⟨i, idx, hi, hin, hd⟩
        refine ⟨⟨ext, hm, ?_, hk⟩, ?_, ?_⟩
        · intro a
          have h1 := pcols_aset k idx prop st.mvm hidx a
          have h2 := hc a
          have h3 := hcount a
          simp only at h1 ⊢
          omega
        · simp only
          rw [keys_aset]
          split
          · exact hn
          · rename_i hnew
            rw [← append_assoc, nodup_append]
            refine ⟨hn, by simp, ?_⟩
            intro a ha b hb
            simp at hb
            subst hb
            rcases mem_append.mp ha with h | h
            · exact fun e => hkm (e ▸ h)
            · exact fun e => hnew (e ▸ h)
        · intro k' hk'
          simp only at hk'
          rw [keys_aset] at hk'
          split at hk'
          · exact hK k' hk'
          · rcases mem_append.mp hk' with h | h
            · exact hK k' h
            · simp at h; subst h; exact ⟨dkeys_of_dvals hd, htwo⟩
    · rename_i hsingle
      have hfresh : k ∉ keys st.mvm := by
        intro hin
        obtain ⟨i, j, hij, hi, hj⟩ := (hK k hin).2
        have := isMulti_false hsingle i hi
        have := isMulti_false hsingle j hj
        omega
      refine ⟨⟨ext ++ [(k, .one prop)], ?_, ?_, ?_⟩, ?_, hK⟩
      · simp only; rw [aset_not_mem k _ st.m hkm, hm, append_assoc]
      · intro a
        have h2 := hc a
        have h3 := hcount a
        simp only [mcols_append, mcols_single_one, count_append] at h3 ⊢
        omega
      · intro k' hk'
        rw [keys_append, mem_append] at hk'
        rcases hk' with h | h
        · exact hk k' h
        · simp [keys] at h; subst h; exact dkeys_of_dvals hd
      · simp only
        rw [aset_not_mem k _ st.m hkm, keys_append]
        have : (keys st.m ++ keys [(k, Val.one prop)] ++ keys st.mvm).Perm
            (k :: (keys st.m ++ keys st.mvm)) := by
          simp only [keys, map_cons, map_nil, append_assoc, singleton_append]
          exact perm_middle
        rw [this.nodup_iff, nodup_cons]
        refine ⟨?_, hn⟩
        intro h
        rcases mem_append.mp h with h | h
        · exact hkm h
        · exact hfresh h

theorem dispStep_pl (d : DMap) (st : St) (prop k : String) (idx : Nat) (p : String)
    (hne : p ≠ prop) (hp : p ∈ st.pl) : p ∈ (dispStep d st prop k idx).pl := by
  unfold dispStep
  split
  · exact hp
  · split
    · simp only
      split
      · exact hp
      · exact (mem_erase_of_ne hne).mpr hp
    · exact (mem_erase_of_ne hne).mpr hp

/-! ### conversion of the parked multi-value matches -/

theorem insertSlot_perm (x : Nat × String) (s : Slots) : (insertSlot x s).Perm (x :: s) := by
  induction s with
  | nil => exact Perm.refl _
  | cons y ys ih =>
    unfold insertSlot
    split
    · exact Perm.refl _
    · exact (Perm.cons y ih).trans (Perm.swap x y ys)

theorem sortSlots_perm (s : Slots) : (sortSlots s).Perm s := by
  induction s with
  | nil => exact Perm.refl _
  | cons x xs ih =>
    simp only [sortSlots, foldr_cons] at ih ⊢
    exact (insertSlot_perm x _).trans (Perm.cons x ih)

/-- the entries appended by `convert` -/
def convExt (mvm : MVM) : Mapping :=
  mvm.filterMap (fun e =>
    if e.2.isEmpty then none else some (e.1, Val.many ((sortSlots e.2).map (·.2))))

theorem keys_convExt_sublist (mvm : MVM) : (keys (convExt mvm)).Sublist (keys mvm) := by
  induction mvm with
  | nil => exact Sublist.refl _
  | cons e r ih =>
    simp only [convExt, filterMap_cons]
    split
    · rename_i h
      split at h
      · exact Sublist.cons _ ih
      · simp at h
    · rename_i b h
      split at h
      · simp at h
      · simp at h
        subst h
        exact Sublist.cons_cons _ ih

theorem mcols_cons (e : String × Val) (m : Mapping) : mcols (e :: m) = e.2.cols ++ mcols m := by
  simp [mcols]

theorem pcols_cons (e : String × Slots) (r : MVM) : pcols (e :: r) = e.2.map (·.2) ++ pcols r := by
  simp [pcols]

theorem mcols_convExt (mvm : MVM) : ∀ a, count a (mcols (convExt mvm)) = count a (pcols mvm) := by
  intro a
  induction mvm with
  | nil => rfl
  | cons e r ih =>
    obtain ⟨k, s⟩ := e
    have hce : convExt ((k, s) :: r) =
        if s.isEmpty then convExt r
        else (k, Val.many ((sortSlots s).map (·.2))) :: convExt r := by
      simp only [convExt, filterMap_cons]
      split <;> simp_all
    rw [hce, pcols_cons]
    by_cases hs : s.isEmpty = true
    · have : s = [] := by simpa using hs
      subst this
      simpa using ih
    · have hp : ((sortSlots s).map (·.2)).Perm (s.map (·.2)) := (sortSlots_perm s).map _
      have := hp.count_eq a
      simp only [hs, Bool.false_eq_true, if_false, mcols_cons, Val.cols, count_append]
      omega

theorem convert_eq : ∀ (mvm : MVM) (m : Mapping), (keys m ++ keys mvm).Nodup →
    convert mvm m = m ++ convExt mvm := by
  intro mvm
  induction mvm with
  | nil => intro m _; simp [convert, convExt]
  | cons e r ih =>
    obtain ⟨k, s⟩ := e
    intro m hn
    have hperm : (keys m ++ keys ((k, s) :: r)).Perm (k :: (keys m ++ keys r)) := by
      simp only [keys_cons]; exact perm_middle
    have hn' := hperm.nodup_iff.mp hn
    rw [nodup_cons] at hn'
    have hk : k ∉ keys m := fun h => hn'.1 (mem_append_left _ h)
    simp only [convert, foldl_cons]
    by_cases hs : s.isEmpty = true
    · simp only [hs, if_true, convExt, filterMap_cons]
      exact ih m hn'.2
    · simp only [hs, Bool.false_eq_true, if_false, convExt, filterMap_cons]
      rw [aset_not_mem k _ m hk]
      have := ih (m ++ [(k, Val.many ((sortSlots s).map (·.2)))]) (by
        rw [keys_append]
        have hp2 : (keys m ++ keys [(k, Val.many ((sortSlots s).map (·.2)))] ++ keys r).Perm
            (k :: (keys m ++ keys r)) := by
          simp only [keys, map_cons, map_nil, append_assoc, singleton_append]
          exact perm_middle
        rw [hp2.nodup_iff, nodup_cons]
        exact hn')
      simp only [convert, convExt] at this
      rw [this]
      simp

/-- from the loop invariant at loop exit to the step specification -/
theorem LInv.finish {d pl₀ m₀ st} (h : LInv d pl₀ m₀ st) :
    Good (dkeys d) pl₀ m₀ (st.pl, convert st.mvm st.m) := by
  obtain ⟨⟨ext, hm, hc, hk⟩, hn, hK⟩ := h
  refine ⟨ext ++ convExt st.mvm, ?_, ?_, ?_, ?_⟩
  · simp only; rw [convert_eq _ _ hn, hm, append_assoc]
  · intro a
    have := hc a
    have := mcols_convExt st.mvm a
    simp only [mcols_append, count_append]
    omega
  · rw [← append_assoc, ← hm, keys_append]
    exact ((Sublist.refl _).append (keys_convExt_sublist st.mvm)).nodup hn
  · intro k hk'
    rw [keys_append, mem_append] at hk'
    rcases hk' with h | h
    · exact hk k h
    · exact (hK k ((keys_convExt_sublist st.mvm).subset h)).1

/-! ### steps 3 and 4 as a whole -/

theorem exactLoop_inv (d : DMap) (pl₀ : List String) (m₀ : Mapping) :
    ∀ (props : List String) (st : St), props.Nodup → (∀ p ∈ props, p ∈ st.pl) →
      LInv d pl₀ m₀ st → LInv d pl₀ m₀ (props.foldl (exactBody (dispStep d) d) st) := by
  intro props
  induction props with
  | nil => intro st _ _ h; exact h
  | cons prop rest ih =>
    intro st hnd hin h
    rw [nodup_cons] at hnd
    simp only [foldl_cons]
    have hrest : ∀ p ∈ rest, p ≠ prop := fun p hp e => hnd.1 (e ▸ hp)
    apply ih _ hnd.2
    · intro p hp
      unfold exactBody
      split
      · exact dispStep_pl d st prop _ _ p (hrest p hp) (hin p (mem_cons_of_mem _ hp))
      · exact hin p (mem_cons_of_mem _ hp)
    · unfold exactBody
      split
      · rename_i k idx hlook
        exact dispStep_inv prop k idx h (alook_dvals hlook) (hin prop mem_cons_self)
      · exact h

theorem matchDisplayExact_good (d : DMap) (pl : List String) (m : Mapping)
    (hn : (keys m).Nodup) (hpl : pl.Nodup) :
    Good (dkeys d) pl m (matchDisplayExact d pl m) := by
  unfold matchDisplayExact
  exact (exactLoop_inv d pl m pl ⟨pl, m, []⟩ hpl (fun _ h => h) (LInv.init hn)).finish

section fuzzy
variable (fz : String → List String → Option String) (lower : String → String)

theorem lowerDisplay_vals (d : DMap) : ∀ e ∈ lowerDisplay lower d, e.2 ∈ dvals d := by
  have gen : ∀ (xs : DMap) (ld : DMap),
      (∀ e ∈ ld, e.2 ∈ dvals d) → (∀ x ∈ xs, x ∈ d) →
      ∀ e ∈ xs.foldl (fun ld e => aset (lower e.1) e.2 ld) ld, e.2 ∈ dvals d := by
    intro xs
    induction xs with
    | nil => intro ld hd _ e he; exact hd e he
    | cons x xs ih =>
      intro ld hd hx e he
      simp only [foldl_cons] at he
      refine ih _ ?_ (fun y hy => hx y (mem_cons_of_mem _ hy)) e he
      intro e' he'
      rcases mem_aset he' with h | h
      · subst h
        simp only [dvals, mem_map]
        exact ⟨x, hx x mem_cons_self, rfl⟩
      · exact hd e' h
  exact gen d [] (by simp) (fun x h => h)

theorem fuzzyLoop_inv (hfz : ∀ q cs c, fz q cs = some c → c ∈ cs) (d : DMap)
    (pl₀ : List String) (m₀ : Mapping) :
    ∀ (props : List String) (st : St), LInv d pl₀ m₀ st →
      LInv d pl₀ m₀
        (props.foldl (fuzzyBody fz lower (dispStep d) (lowerDisplay lower d)) st) := by
  intro props
  induction props with
  | nil => intro st h; exact h
  | cons prop rest ih =>
    intro st h
    simp only [foldl_cons]
    apply ih
    unfold fuzzyBody
    split
    · rename_i hin
      split
      · exact h
      · rename_i c hc
        have hcm := hfz _ _ _ hc
        split
        · rename_i hnone
          exact absurd hcm (alook_none hnone)
        · rename_i k idx hlook
          have := lowerDisplay_vals lower d _ (alook_mem hlook)
          exact dispStep_inv prop k idx h this hin
    · exact h

theorem matchDisplayFuzzy_good (hfz : ∀ q cs c, fz q cs = some c → c ∈ cs) (d : DMap)
    (pl : List String) (m : Mapping) (hn : (keys m).Nodup) :
    Good (dkeys d) pl m (matchDisplayFuzzy fz lower d pl m) := by
  unfold matchDisplayFuzzy
  split
  · exact Good.refl hn
  · exact (fuzzyLoop_inv fz lower hfz d pl m pl ⟨pl, m, []⟩ (LInv.init hn)).finish

end fuzzy

/-! ### the display map only mentions feature keys of the table -/

theorem buildDisplayFeat_keys (K : List String) (f : Feat) (hf : f.key ∈ K) (d : DMap)
    (hd : ∀ e ∈ d, e.2.1 ∈ K) : ∀ e ∈ buildDisplayFeat d f, e.2.1 ∈ K := by
  unfold buildDisplayFeat
  split
  · have gen : ∀ (xs : List (Nat × String)) (d : DMap), (∀ e ∈ d, e.2.1 ∈ K) →
        ∀ e ∈ xs.foldl (fun d iv => aset iv.2 (f.key, iv.1) d) d, e.2.1 ∈ K := by
      intro xs
      induction xs with
      | nil => intro d hd e he; exact hd e he
      | cons x xs ih =>
        intro d hd e he
        simp only [foldl_cons] at he
        refine ih _ ?_ e he
        intro e' he'
        rcases mem_aset he' with h | h
        · subst h; exact hf
        · exact hd e' h
    exact gen _ d hd
  · split
    · intro e he
      rcases mem_aset he with h | h
      · subst h; exact hf
      · exact hd e h
    · exact hd

theorem buildDisplay_keys (feats : List Feat) :
    ∀ k ∈ dkeys (buildDisplay feats), k ∈ feats.map (·.key) := by
  have gen : ∀ (fs : List Feat) (d : DMap), (∀ e ∈ d, e.2.1 ∈ feats.map (·.key)) →
      (∀ f ∈ fs, f ∈ feats) → ∀ e ∈ fs.foldl buildDisplayFeat d, e.2.1 ∈ feats.map (·.key) := by
    intro fs
    induction fs with
    | nil => intro d hd _ e he; exact hd e he
    | cons f fs ih =>
      intro d hd hfs e he
      simp only [foldl_cons] at he
      refine ih _ ?_ (fun g hg => hfs g (mem_cons_of_mem _ hg)) e he
      exact buildDisplayFeat_keys _ f (mem_map.mpr ⟨f, hfs f mem_cons_self, rfl⟩) d hd
  intro k hk
  simp only [dkeys, mem_map] at hk
  obtain ⟨e, he, rfl⟩ := hk
  exact gen feats [] (by simp) (fun f h => h) e he

/-! ### step 5 -/

theorem mapRemainingToSelf_eq (pl : List String) (h : pl.Nodup) :
    mapRemainingToSelf pl = pl.map (fun p => (p, Val.one p)) := by
  have gen : ∀ (xs : List String) (d : Mapping), xs.Nodup → (∀ x ∈ xs, x ∉ keys d) →
      xs.foldl (fun d p => aset p (Val.one p) d) d = d ++ xs.map (fun p => (p, Val.one p)) := by
    intro xs
    induction xs with
    | nil => intro d _ _; simp
    | cons x xs ih =>
      intro d hn hd
      rw [nodup_cons] at hn
      simp only [foldl_cons]
      rw [aset_not_mem x _ d (hd x mem_cons_self), ih _ hn.2]
      · simp
      · intro y hy
        rw [keys_append, mem_append]
        intro h
        rcases h with h | h
        · exact hd y (mem_cons_of_mem _ hy) h
        · simp [keys] at h; subst h; exact hn.1 hy
  have := gen pl [] h (by simp)
  simpa [mapRemainingToSelf] using this

theorem update_eq : ∀ (custom m : Mapping), (keys m ++ keys custom).Nodup →
    update m custom = m ++ custom := by
  intro custom
  induction custom with
  | nil => intro m _; simp [update]
  | cons e r ih =>
    intro m hn
    have hperm : (keys m ++ keys (e :: r)).Perm (e.1 :: (keys m ++ keys r)) := by
      simp only [keys_cons]; exact perm_middle
    have hn' := hperm.nodup_iff.mp hn
    rw [nodup_cons] at hn'
    have hk : e.1 ∉ keys m := fun h => hn'.1 (mem_append_left _ h)
    simp only [update, foldl_cons]
    rw [aset_not_mem e.1 _ m hk]
    have := ih (m ++ [(e.1, e.2)]) (by
      rw [keys_append]
      have hp2 : (keys m ++ keys [(e.1, e.2)] ++ keys r).Perm (e.1 :: (keys m ++ keys r)) := by
        simp only [keys, map_cons, map_nil, append_assoc, singleton_append]
        exact perm_middle
      rw [hp2.nodup_iff, nodup_cons]
      exact hn')
    simp only [update] at this
    rw [this]; simp

theorem keys_self (pl : List String) : keys (pl.map (fun p => (p, Val.one p))) = pl := by
  induction pl with
  | nil => rfl
  | cons p r ih => simp only [map_cons, keys_cons, ih]

theorem mcols_self (pl : List String) : mcols (pl.map (fun p => (p, Val.one p))) = pl := by
  induction pl with
  | nil => rfl
  | cons p r ih => simp only [map_cons, mcols_cons, Val.cols, ih]; rfl

/-- step 5 loses nothing when no leftover column is spelled like a key already in use -/
theorem step5_eq (m : Mapping) (pl : List String) (hn : (keys m).Nodup) (hpl : pl.Nodup)
    (hdisj : ∀ p ∈ pl, p ∉ keys m) :
    update m (mapRemainingToSelf pl) = m ++ pl.map (fun p => (p, Val.one p)) := by
  rw [mapRemainingToSelf_eq pl hpl]
  apply update_eq
  rw [keys_self, nodup_append]
  exact ⟨hn, hpl, fun a ha b hb e => hdisj b hb (e ▸ ha)⟩

theorem Good.nodup_left {K pl m r} (h : Good K pl m r) (hpl : pl.Nodup) : r.1.Nodup := by
  obtain ⟨e, _, hc, _, _⟩ := h
  rw [nodup_iff_count] at hpl ⊢
  intro a
  have := hc a; have := hpl a
  omega

theorem alook_of_mem_nodup {β : Type} : ∀ (l : List (String × β)) (k : String) (v : β),
    (keys l).Nodup → (k, v) ∈ l → alook k l = some v := by
  intro l
  induction l with
  | nil => intro k v _ h; simp at h
  | cons e r ih =>
    obtain ⟨k', v'⟩ := e
    intro k v hn h
    rw [keys_cons, nodup_cons] at hn
    rcases mem_cons.mp h with h | h
    · cases h; simp [alook]
    · have hne : k' ≠ k := fun e => hn.1 (e ▸ mem_keys_of_mem h)
      simp [alook, hne, ih k v hn.2 h]

/-! ### the whole pipeline -/

/-- what the C17 theorems need to know about a result -/
structure Spec (cols : List String) (res : Mapping) : Prop where
  count : ∀ a, count a (mcols res) = count a cols
  nodup : (keys res).Nodup

theorem finish_spec (T cols pl : List String) (m : Mapping) (G : Good T cols [] (pl, m))
    (hc : cols.Nodup) (hT : ∀ p ∈ pl, p ∉ T) :
    Spec cols (update m (mapRemainingToSelf pl)) ∧ ∀ e ∈ m, e ∈ update m (mapRemainingToSelf pl) := by
  have hpl : pl.Nodup := G.nodup_left hc
  obtain ⟨ext, he, hcnt, hn, hk⟩ := G
  simp only [nil_append] at he hn hcnt
  subst he
  have hdisj : ∀ p ∈ pl, p ∉ keys m := fun p hp h => hT p hp (hk p h)
  rw [step5_eq m pl hn hpl hdisj]
  refine ⟨⟨?_, ?_⟩, fun e he => mem_append_left _ he⟩
  · intro a
    rw [mcols_append, mcols_self, count_append]
    exact hcnt a
  · rw [keys_append, keys_self, nodup_append]
    exact ⟨hn, hpl, fun a ha b hb e => hdisj b hb (e ▸ ha)⟩

section fuzzy
variable (fz : String → List String → Option String) (lower : String → String)

theorem inferNode_spec (hfz : ∀ q cs c, fz q cs = some c → c ∈ cs)
    (cols required : List String) (feats : List Feat) (hc : cols.Nodup) :
    Spec cols (inferNode fz lower cols required feats) ∧
    ∀ e ∈ (matchExact (buildStandardFields required) cols []).2,
      e ∈ inferNode fz lower cols required feats := by
  unfold inferNode
  simp only
  generalize hnf : feats.filter (fun f => f.ftype == "node") = nf
  generalize hstd : buildStandardFields required = std
  let T := std ++ nf.map (·.key)
  have hd : ∀ k ∈ dkeys (buildDisplay nf), k ∈ T :=
    fun k hk => mem_append_right _ (buildDisplay_keys nf k hk)
  -- step 1
  have g1s := matchExact_good std std cols [] (by simp) (fun _ h => h)
  have c1 := matchExact_consumes std cols [] hc
  generalize matchExact std cols [] = r1 at g1s c1 ⊢
  obtain ⟨pl1, m1⟩ := r1
  have g1 : Good T cols [] (pl1, m1) := g1s.mono (fun _ h => mem_append_left _ h)
  have hpl1 : pl1.Nodup := g1.nodup_left hc
  have g2 := matchExact_good T (nf.map (·.key)) pl1 m1 g1.nodup (fun _ h => mem_append_right _ h)
  have c2 := matchExact_consumes (nf.map (·.key)) pl1 m1 hpl1
  generalize matchExact (nf.map (·.key)) pl1 m1 = r2 at g2 c2 ⊢
  obtain ⟨pl2, m2⟩ := r2
  -- no column spelled like a possible key is left after step 1
  have hT2 : ∀ p ∈ pl2, p ∉ T := by
    intro p hp hpT
    have hp1 : p ∈ pl1 := g2.sub p hp
    have hstd' : p ∉ std := fun h => by simpa using c1 p h hp1
    rcases mem_append.mp hpT with h | h
    · exact hstd' h
    · have hk1 : p ∈ keys m1 := c2 p h hp
      obtain ⟨e, he, _, _, hk⟩ := g1s
      simp only [nil_append] at he
      exact hstd' (hk p (he ▸ hk1))
  -- step 2
  have g3 := matchFuzzy_good fz lower hfz T std pl2 m2 g2.nodup (fun _ h => mem_append_left _ h)
  generalize matchFuzzy fz lower std pl2 m2 = r3 at g3 ⊢
  obtain ⟨pl3, m3⟩ := r3
  have hpl3 : pl3.Nodup := g3.nodup_left (g2.nodup_left hpl1)
  -- step 3
  have g4 := (matchDisplayExact_good (buildDisplay nf) pl3 m3 g3.nodup hpl3).mono hd
  generalize matchDisplayExact (buildDisplay nf) pl3 m3 = r4 at g4 ⊢
  obtain ⟨pl4, m4⟩ := r4
  -- step 4
  have g5 := (matchDisplayFuzzy_good fz lower hfz (buildDisplay nf) pl4 m4 g4.nodup).mono hd
  generalize matchDisplayFuzzy fz lower (buildDisplay nf) pl4 m4 = r5 at g5 ⊢
  obtain ⟨pl5, m5⟩ := r5
  -- step 5
  have G : Good T cols [] (pl5, m5) := g1.trans (g2.trans (g3.trans (g4.trans g5)))
  have hT5 : ∀ p ∈ pl5, p ∉ T :=
    fun p hp => hT2 p (g3.sub p (g4.sub p (g5.sub p hp)))
  obtain ⟨hs, hkeep⟩ := finish_spec T cols pl5 m5 G hc hT5
  refine ⟨hs, fun e he => hkeep e ?_⟩
  exact g5.keep e (g4.keep e (g3.keep e (g2.keep e he)))

theorem inferEdge_spec (hfz : ∀ q cs c, fz q cs = some c → c ∈ cs)
    (cols : List String) (feats : List Feat) (hc : cols.Nodup) :
    Spec cols (inferEdge fz lower cols feats) := by
  unfold inferEdge
  simp only
  generalize hnf : feats.filter (fun f => f.ftype == "edge") = ef
  let T := ef.map (·.key)
  have hd : ∀ k ∈ dkeys (buildDisplay ef), k ∈ T := buildDisplay_keys ef
  have g1 := matchExact_good T T cols [] (by simp) (fun _ h => h)
  have c1 := matchExact_consumes T cols [] hc
  generalize matchExact (ef.map (·.key)) cols [] = r1 at g1 c1 ⊢
  obtain ⟨pl1, m1⟩ := r1
  have hpl1 : pl1.Nodup := g1.nodup_left hc
  have hT1 : ∀ p ∈ pl1, p ∉ T := fun p hp h => by simpa using c1 p h hp
  have g2 := matchFuzzy_good fz lower hfz T T pl1 m1 g1.nodup (fun _ h => h)
  generalize matchFuzzy fz lower (ef.map (·.key)) pl1 m1 = r2 at g2 ⊢
  obtain ⟨pl2, m2⟩ := r2
  have hpl2 : pl2.Nodup := g2.nodup_left hpl1
  have g3 : Good T pl2 m2
      (if (buildDisplay ef).isEmpty then (pl2, m2) else matchDisplayExact (buildDisplay ef) pl2 m2) := by
    split
    · exact Good.refl g2.nodup
    · exact (matchDisplayExact_good (buildDisplay ef) pl2 m2 g2.nodup hpl2).mono hd
  generalize (if (buildDisplay ef).isEmpty then (pl2, m2)
    else matchDisplayExact (buildDisplay ef) pl2 m2) = r3 at g3 ⊢
  obtain ⟨pl3, m3⟩ := r3
  have g4 : Good T pl3 m3
      (if (buildDisplay ef).isEmpty then (pl3, m3)
       else matchDisplayFuzzy fz lower (buildDisplay ef) pl3 m3) := by
    split
    · exact Good.refl g3.nodup
    · exact (matchDisplayFuzzy_good fz lower hfz (buildDisplay ef) pl3 m3 g3.nodup).mono hd
  generalize (if (buildDisplay ef).isEmpty then (pl3, m3)
    else matchDisplayFuzzy fz lower (buildDisplay ef) pl3 m3) = r4 at g4 ⊢
  obtain ⟨pl4, m4⟩ := r4
  have G : Good T cols [] (pl4, m4) := g1.trans (g2.trans (g3.trans g4))
  have hT4 : ∀ p ∈ pl4, p ∉ T := fun p hp => hT1 p (g2.sub p (g3.sub p (g4.sub p hp)))
  exact (finish_spec T cols pl4 m4 G hc hT4).1

end fuzzy

end Ft.NameMap
