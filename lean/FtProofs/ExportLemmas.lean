/-
  Helper lemmas for the export model (FtModel/Export.lean): association lists, the three codecs,
  ancestor climbing, the in-place sort of `get_track_neighbors`.
-/
import FtModel.Export
namespace Ft.Export
open Ft

/-! ### association lists -/

theorem alook_cons {α β} [BEq α] (k k' : α) (v : β) (r : List (α × β)) :
    alook k ((k', v) :: r) = if k' == k then some v else alook k r := rfl

theorem alook_append {α β} [BEq α] (k : α) (a b : List (α × β)) :
    alook k (a ++ b) = match alook k a with
                       | some v => some v
                       | none => alook k b := by
  induction a with
  | nil => rfl
  | cons p r ih =>
    obtain ⟨k', v⟩ := p
    simp only [List.cons_append, alook_cons]
    by_cases h : (k' == k) = true
    · simp [h]
    · simp [h, ih]

theorem alook_none_of_ne {α β} [BEq α] [LawfulBEq α] (k : α) (l : List (α × β))
    (h : ∀ p ∈ l, p.1 ≠ k) : alook k l = none := by
  induction l with
  | nil => rfl
  | cons p r ih =>
    obtain ⟨k', v⟩ := p
    have h1 : k' ≠ k := h (k', v) (List.mem_cons_self ..)
    simp only [alook_cons]
    rw [if_neg (by simpa using h1)]
    exact ih (fun q hq => h q (List.mem_cons_of_mem _ hq))

/-- lookup in a table built by mapping an injective key function over a list -/
theorem alook_map_key {γ α β} [BEq α] [LawfulBEq α] (g : γ → α) (f : γ → β)
    (hg : ∀ a b, g a = g b → a = b) (l : List γ) (c : γ) (hc : c ∈ l) :
    alook (g c) (l.map (fun x => (g x, f x))) = some (f c) := by
  induction l with
  | nil => cases hc
  | cons x r ih =>
    simp only [List.map_cons, alook_cons]
    by_cases h : g x = g c
    · have := hg _ _ h
      subst this
      simp
    · rw [if_neg (by simpa using h)]
      rcases List.mem_cons.mp hc with rfl | hr
      · exact absurd rfl h
      · exact ih hr

theorem alook_map_self {α β} [BEq α] [LawfulBEq α] (f : α → β) (l : List α) (c : α) (hc : c ∈ l) :
    alook c (l.map (fun x => (x, f x))) = some (f c) :=
  alook_map_key id f (fun _ _ h => h) l c hc

theorem alook_mem {α β} [BEq α] [LawfulBEq α] {k : α} {v : β} {l : List (α × β)}
    (h : alook k l = some v) : (k, v) ∈ l := by
  induction l with
  | nil => cases h
  | cons p r ih =>
    obtain ⟨k', v'⟩ := p
    simp only [alook_cons] at h
    by_cases hk : (k' == k) = true
    · rw [if_pos hk] at h
      have e1 : k' = k := by simpa using hk
      have e2 : v' = v := by simpa using h
      subst e1; subst e2
      exact List.mem_cons_self ..
    · rw [if_neg hk] at h
      exact List.mem_cons_of_mem _ (ih h)

theorem nodup_map_inj {α β} (f : α → β) : ∀ (l : List α), (l.map f).Nodup →
    ∀ a ∈ l, ∀ b ∈ l, f a = f b → a = b := by
  intro l
  induction l with
  | nil => intro _ a ha; cases ha
  | cons x r ih =>
    intro h a ha b hb e
    simp only [List.map_cons, List.nodup_cons] at h
    rcases List.mem_cons.mp ha with rfl | ha' <;> rcases List.mem_cons.mp hb with rfl | hb'
    · rfl
    · exact absurd (List.mem_map.mpr ⟨b, hb', e.symm⟩) h.1
    · exact absurd (List.mem_map.mpr ⟨a, ha', e⟩) h.1
    · exact ih h.2 a ha' b hb' e

/-! ### allSome -/

theorem allSome_map {α β} (f : α → Option β) (g : α → β) (l : List α)
    (h : ∀ x ∈ l, f x = some (g x)) : allSome (l.map f) = some (l.map g) := by
  induction l with
  | nil => rfl
  | cons x r ih =>
    simp only [List.map_cons]
    rw [h x (List.mem_cons_self ..)]
    simp only [allSome]
    rw [ih (fun y hy => h y (List.mem_cons_of_mem _ hy))]
    rfl

theorem range_map_getD (l : List Nat) : (List.range l.length).map (fun i => l.getD i 0) = l := by
  apply List.ext_getElem
  · simp
  · intro i h1 h2
    simp [List.getD_eq_getElem?_getD, List.getElem?_eq_getElem h2]

/-- recombining the per-axis cells gives the position back -/
theorem posOf_of_cells (k : Nat) (d : Dict) (n : NodeRec) (hlen : n.pos.length = k)
    (h : ∀ i, i < k → alook (.axis i) d = some (posCell n i)) : posOf k d = some n.pos := by
  unfold posOf
  rw [allSome_map _ (fun i => n.pos.getD i 0)]
  · rw [← hlen, range_map_getD]
  · intro i hi
    have hi' : i < k := List.mem_range.mp hi
    unfold getVal
    rw [h i hi']
    unfold posCell
    have : i < n.pos.length := hlen ▸ hi'
    simp [List.getElem?_eq_getElem this, List.getD_eq_getElem?_getD]

/-! ### graph views -/

theorem mem_preds {s : Tracks} {p n : Nat} :
    p ∈ preds s n ↔ ∃ e ∈ s.edges, e.dst = n ∧ e.src = p := by
  unfold preds
  simp only [List.mem_map, List.mem_filter, beq_iff_eq]
  constructor
  · rintro ⟨e, ⟨he, hd⟩, hs⟩
    exact ⟨e, he, hd, hs⟩
  · rintro ⟨e, he, hd, hs⟩
    exact ⟨e, ⟨he, hd⟩, hs⟩

theorem mem_axes {s : Tracks} {i : Nat} : i ∈ axes s ↔ i < nax s := List.mem_range

/-- well-formedness used by the round-trip theorems -/
structure WF (s : Tracks) : Prop where
  ids_nodup : (ids s).Nodup
  edges_nodup : (edgePairs s).Nodup
  dst_in : ∀ e ∈ s.edges, e.dst ∈ ids s
  one_parent : ∀ e1 ∈ s.edges, ∀ e2 ∈ s.edges, e1.dst = e2.dst → e1.src = e2.src
  pos_len : ∀ n ∈ s.nodes, n.pos.length = nax s

instance (s : Tracks) : Decidable (WF s) :=
  if h : (ids s).Nodup ∧ (edgePairs s).Nodup ∧ (∀ e ∈ s.edges, e.dst ∈ ids s) ∧
      (∀ e1 ∈ s.edges, ∀ e2 ∈ s.edges, e1.dst = e2.dst → e1.src = e2.src) ∧
      (∀ n ∈ s.nodes, n.pos.length = nax s) then
    isTrue ⟨h.1, h.2.1, h.2.2.1, h.2.2.2.1, h.2.2.2.2⟩
  else isFalse (fun w => h ⟨w.1, w.2, w.3, w.4, w.5⟩)

/-! ### CSV -/

theorem mem_csvHeader (s : Tracks) (c : Col) :
    c ∈ csvHeader s ↔ c = .time ∨ (∃ i, i < nax s ∧ c = .axis i) ∨ c = .id ∨ c = .parent ∨ c = .tid := by
  unfold csvHeader
  simp only [List.mem_append, List.mem_cons, List.mem_map, List.not_mem_nil, or_false, mem_axes]
  constructor
  · rintro ((h | ⟨i, hi, rfl⟩) | h | h | h)
    · exact Or.inl h
    · exact Or.inr (Or.inl ⟨i, hi, rfl⟩)
    · exact Or.inr (Or.inr (Or.inl h))
    · exact Or.inr (Or.inr (Or.inr (Or.inl h)))
    · exact Or.inr (Or.inr (Or.inr (Or.inr h)))
  · rintro (h | ⟨i, hi, rfl⟩ | h | h | h)
    · exact Or.inl (Or.inl h)
    · exact Or.inl (Or.inr ⟨i, hi, rfl⟩)
    · exact Or.inr (Or.inl h)
    · exact Or.inr (Or.inr (Or.inl h))
    · exact Or.inr (Or.inr (Or.inr h))

theorem alook_csvRow (s : Tracks) (n : NodeRec) (c : Col) (hc : c ∈ csvHeader s) :
    alook c (csvRow s n) = some (csvCell s n c) :=
  alook_map_self _ _ _ hc

theorem decodeCsvRow_csvRow (s : Tracks) (n : NodeRec) (hlen : n.pos.length = nax s) :
    decodeCsvRow (nax s) (csvRow s n) = some (core n) := by
  have hid := alook_csvRow s n .id ((mem_csvHeader s _).mpr (by simp))
  have ht := alook_csvRow s n .time ((mem_csvHeader s _).mpr (by simp))
  have hk := alook_csvRow s n .tid ((mem_csvHeader s _).mpr (by simp))
  have hp : posOf (nax s) (csvRow s n) = some n.pos :=
    posOf_of_cells _ _ n hlen (fun i hi => by
      rw [alook_csvRow s n (.axis i) ((mem_csvHeader s _).mpr (Or.inr (Or.inl ⟨i, hi, rfl⟩)))]
      rfl)
  unfold decodeCsvRow getNat
  rw [hid, ht, hk, hp]
  rfl

theorem csvEdge_csvRow (s : Tracks) (n : NodeRec) :
    csvEdge (csvRow s n) = (parentOf s n.id).map (fun p => (p, n.id)) := by
  have hid := alook_csvRow s n .id ((mem_csvHeader s _).mpr (by simp))
  have hp := alook_csvRow s n .parent ((mem_csvHeader s _).mpr (by simp))
  unfold csvEdge getNat
  rw [hid, hp]
  simp only [csvCell]
  cases parentOf s n.id <;> rfl

/-- edges read back from the parent column of the rows of `ns` -/
def parentEdges (s : Tracks) (ns : List NodeRec) : List (Nat × Nat) :=
  ns.filterMap (fun n => (parentOf s n.id).map (fun p => (p, n.id)))

theorem filterMap_csvEdge (s : Tracks) (ns : List NodeRec) :
    (ns.map (csvRow s)).filterMap csvEdge = parentEdges s ns := by
  unfold parentEdges
  rw [List.filterMap_map]
  congr 1
  funext n
  exact csvEdge_csvRow s n

theorem decodeCsv_encodeCsv (s : Tracks) (sel : Option (List Nat))
    (hlen : ∀ n ∈ s.nodes, n.pos.length = nax s) :
    decodeCsv (nax s) (encodeCsv s sel) =
      some ⟨(exported s sel).map core, parentEdges s (exported s sel)⟩ := by
  have hsub : ∀ n ∈ exported s sel, n ∈ s.nodes := by
    intro n hn
    cases sel with
    | none => exact hn
    | some l => exact (List.mem_filter.mp hn).1
  unfold decodeCsv encodeCsv
  simp only
  rw [List.map_map]
  rw [allSome_map _ core _ (fun n hn => by
    show decodeCsvRow (nax s) (csvRow s n) = _
    exact decodeCsvRow_csvRow s n (hlen n (hsub n hn)))]
  simp only [Option.map_some, filterMap_csvEdge]

theorem parentOf_some {s : Tracks} {n p : Nat} (h : parentOf s n = some p) :
    ∃ e ∈ s.edges, e.dst = n ∧ e.src = p :=
  mem_preds.mp (List.mem_of_mem_head? h)

theorem parentOf_of_edge {s : Tracks} (hw : WF s) {e : EdgeRec} (he : e ∈ s.edges) :
    parentOf s e.dst = some e.src := by
  have hm : e.src ∈ preds s e.dst := mem_preds.mpr ⟨e, he, rfl, rfl⟩
  unfold parentOf
  cases hp : preds s e.dst with
  | nil => rw [hp] at hm; cases hm
  | cons p r =>
    simp only [List.head?_cons]
    have : p ∈ preds s e.dst := by rw [hp]; exact List.mem_cons_self ..
    obtain ⟨e', he', hd, hs⟩ := mem_preds.mp this
    rw [← hs, hw.one_parent e' he' e he hd]

theorem mem_parentEdges {s : Tracks} {ns : List NodeRec} {p c : Nat} :
    (p, c) ∈ parentEdges s ns ↔ ∃ n ∈ ns, n.id = c ∧ parentOf s c = some p := by
  unfold parentEdges
  simp only [List.mem_filterMap, Option.map_eq_some_iff, Prod.mk.injEq]
  constructor
  · rintro ⟨n, hn, q, hq, rfl, rfl⟩
    exact ⟨n, hn, rfl, hq⟩
  · rintro ⟨n, hn, rfl, hq⟩
    exact ⟨n, hn, p, hq, rfl, rfl⟩

theorem nodup_parentEdges (s : Tracks) (ns : List NodeRec) (h : (ns.map NodeRec.id).Nodup) :
    (parentEdges s ns).Nodup := by
  induction ns with
  | nil => exact List.nodup_nil
  | cons n r ih =>
    simp only [List.map_cons, List.nodup_cons] at h
    have ihr := ih h.2
    unfold parentEdges
    simp only [List.filterMap_cons]
    cases hp : parentOf s n.id with
    | none => simpa [parentEdges] using ihr
    | some p =>
      simp only [Option.map_some]
      refine List.nodup_cons.mpr ⟨?_, ihr⟩
      intro hm
      obtain ⟨m, hm1, hm2, _⟩ := mem_parentEdges.mp hm
      exact h.1 (List.mem_map.mpr ⟨m, hm1, hm2⟩)

theorem nodeOf_id {s : Tracks} {c : Nat} (h : c ∈ ids s) : ∃ n ∈ s.nodes, n.id = c := by
  obtain ⟨n, hn, e⟩ := List.mem_map.mp h
  exact ⟨n, hn, e⟩

/-- under `WF`, the links read back from the parent column are exactly the edges -/
theorem parentEdges_perm (s : Tracks) (hw : WF s) :
    (parentEdges s s.nodes).Perm (edgePairs s) := by
  rw [List.perm_ext_iff_of_nodup (nodup_parentEdges s s.nodes hw.ids_nodup) hw.edges_nodup]
  rintro ⟨p, c⟩
  rw [mem_parentEdges]
  constructor
  · rintro ⟨n, _, _, hq⟩
    obtain ⟨e, he, hd, hs⟩ := parentOf_some hq
    exact List.mem_map.mpr ⟨e, he, by simp [endpoints, hd, hs]⟩
  · intro h
    obtain ⟨e, he, hx⟩ := List.mem_map.mp h
    simp only [endpoints, Prod.mk.injEq] at hx
    obtain ⟨n, hn, hid⟩ := nodeOf_id (hw.dst_in e he)
    refine ⟨n, hn, by rw [hid, hx.2], ?_⟩
    rw [← hx.2, ← hx.1]
    exact parentOf_of_edge hw he

/-! ### GEFF -/

theorem alook_featCells (k : Key) (fs : List (Key × List Val)) :
    alook (Col.feat k) (featCells fs) = (alook k fs).map Cell.vals := by
  induction fs with
  | nil => rfl
  | cons p r ih =>
    obtain ⟨k', vs⟩ := p
    show alook (Col.feat k) ((Col.feat k', Cell.vals vs) :: featCells r) = _
    simp only [alook_cons]
    by_cases h : k' = k
    · subst h; simp
    · have : ¬ (Col.feat k' = Col.feat k) := fun e => h (Col.feat.inj e)
      rw [if_neg (by simpa using this), if_neg (by simpa using h)]
      exact ih

theorem alook_featCells_other (c : Col) (fs : List (Key × List Val)) (h : ∀ k, c ≠ .feat k) :
    alook c (featCells fs) = none :=
  alook_none_of_ne _ _ (by
    intro p hp
    obtain ⟨kv, _, rfl⟩ := List.mem_map.mp hp
    exact fun e => h kv.1 e.symm)

def axisCells (s : Tracks) (n : NodeRec) : Dict := (axes s).map (fun i => (Col.axis i, posCell n i))

theorem alook_axisCells (s : Tracks) (n : NodeRec) (i : Nat) (hi : i < nax s) :
    alook (Col.axis i) (axisCells s n) = some (posCell n i) :=
  alook_map_key Col.axis (posCell n) (fun _ _ h => Col.axis.inj h) _ i (mem_axes.mpr hi)

theorem alook_axisCells_other (s : Tracks) (n : NodeRec) (c : Col) (h : ∀ i, c ≠ .axis i) :
    alook c (axisCells s n) = none :=
  alook_none_of_ne _ _ (by
    intro p hp
    obtain ⟨i, _, rfl⟩ := List.mem_map.mp hp
    exact fun e => h i e.symm)

theorem getVals_feat_geff (s : Tracks) (n : NodeRec) (k : Key) :
    getVals (geffNodeProps s n) (.feat k) = alook k n.feats := by
  unfold getVals geffNodeProps
  show (match alook (Col.feat k) ((Col.time, Cell.nat n.time) :: (Col.tid, Cell.nat n.tid) ::
    (Col.lin, Cell.nat n.lin) :: (axisCells s n ++ featCells n.feats)) with
    | some (.vals vs) => some vs | _ => none) = _
  simp only [alook_cons]
  rw [if_neg (by simp), if_neg (by simp), if_neg (by simp), alook_append,
    alook_axisCells_other s n _ (fun i => by intro e; cases e), alook_featCells]
  cases alook k n.feats <;> rfl

theorem loadFeats_geff (s : Tracks) (n : NodeRec) (ks : List Key) :
    loadFeats ks (geffNodeProps s n) = restrict ks n.feats := by
  unfold loadFeats restrict
  congr 1
  funext k
  rw [getVals_feat_geff]

theorem loadFeats_featCells (ks : List Key) (fs : List (Key × List Val)) :
    loadFeats ks (featCells fs) = restrict ks fs := by
  unfold loadFeats restrict
  congr 1
  funext k
  unfold getVals
  rw [alook_featCells]
  cases alook k fs <;> rfl

theorem decodeGeffNode_props (s : Tracks) (n : NodeRec) (ks : List Key)
    (hlen : n.pos.length = nax s) :
    decodeGeffNode (nax s) ks (n.id, geffNodeProps s n) = some (restrictN ks n) := by
  have hp : posOf (nax s) (geffNodeProps s n) = some n.pos :=
    posOf_of_cells _ _ n hlen (fun i hi => by
      show alook (Col.axis i) ((Col.time, Cell.nat n.time) :: (Col.tid, Cell.nat n.tid) ::
        (Col.lin, Cell.nat n.lin) :: (axisCells s n ++ featCells n.feats)) = _
      simp only [alook_cons]
      rw [if_neg (by simp), if_neg (by simp), if_neg (by simp), alook_append,
        alook_axisCells s n i hi])
  unfold decodeGeffNode
  simp only
  rw [hp, loadFeats_geff]
  rfl

theorem exported_sub (s : Tracks) (sel : Option (List Nat)) : ∀ n ∈ exported s sel, n ∈ s.nodes := by
  intro n hn
  cases sel with
  | none => exact hn
  | some l => exact (List.mem_filter.mp hn).1

theorem decodeGeff_encodeGeff (one : Val) (s : Tracks) (sel : Option (List Nat)) (ks eks : List Key)
    (hlen : ∀ n ∈ s.nodes, n.pos.length = nax s) :
    decodeGeff (nax s) ks eks (encodeGeff one s sel) =
      some ⟨(exported s sel).map (restrictN ks), (exportedEdges s sel).map (restrictE eks),
            (encodeGeff one s sel).seg⟩ := by
  unfold decodeGeff
  show Option.map _ (allSome (((exported s sel).map (fun n => (n.id, geffNodeProps s n))).map
    (decodeGeffNode (nax s) ks))) = _
  rw [List.map_map]
  rw [allSome_map _ (restrictN ks) _ (fun n hn => by
    show decodeGeffNode (nax s) ks (n.id, geffNodeProps s n) = _
    exact decodeGeffNode_props s n ks (hlen n (exported_sub s sel n hn)))]
  simp only [Option.map_some]
  congr 2
  show ((exportedEdges s sel).map (fun e => ((e.src, e.dst), featCells e.feats))).map _ = _
  rw [List.map_map]
  apply List.map_congr_left
  intro e _
  show EdgeRec.mk e.src e.dst (loadFeats eks (featCells e.feats)) = _
  rw [loadFeats_featCells]
  rfl

theorem alook_restrict (ks : List Key) (fs : List (Key × List Val)) (k : Key) :
    alook k (restrict ks fs) = if k ∈ ks then alook k fs else none := by
  unfold restrict
  induction ks with
  | nil => rfl
  | cons k' r ih =>
    simp only [List.filterMap_cons]
    by_cases hk : k' = k
    · subst hk
      cases hv : alook k' fs with
      | none =>
        simp only [Option.map_none]
        rw [ih]
        simp [hv]
      | some vs => simp [alook_cons]
    · cases hv : alook k' fs with
      | none =>
        simp only [Option.map_none]
        rw [ih]
        simp [Ne.symm hk]
      | some vs =>
        simp only [Option.map_some, alook_cons]
        rw [if_neg (by simpa using hk), ih]
        simp [Ne.symm hk]

/-! ### internal format -/

theorem dictFeats_append (a b : Dict) : dictFeats (a ++ b) = dictFeats a ++ dictFeats b := by
  induction a with
  | nil => rfl
  | cons p r ih =>
    obtain ⟨c, v⟩ := p
    cases c <;> cases v <;> simp [dictFeats, ih]

theorem dictFeats_featCells (fs : List (Key × List Val)) : dictFeats (featCells fs) = fs := by
  induction fs with
  | nil => rfl
  | cons p r ih =>
    obtain ⟨k, vs⟩ := p
    show dictFeats ((Col.feat k, Cell.vals vs) :: featCells r) = _
    simp [dictFeats, ih]

theorem dictFeats_axisCells (s : Tracks) (n : NodeRec) : dictFeats (axisCells s n) = [] := by
  unfold axisCells
  induction axes s with
  | nil => rfl
  | cons i r ih => simp [dictFeats, ih]

def posCells (s : Tracks) (n : NodeRec) : Dict :=
  if s.perAxis then axisCells s n else [(Col.pos, Cell.vals n.pos)]

theorem internalNode_eq (s : Tracks) (n : NodeRec) :
    internalNode s n = (Col.time, Cell.nat n.time) :: (Col.tid, Cell.nat n.tid) ::
      (Col.lin, Cell.nat n.lin) :: (posCells s n ++ (featCells n.feats ++ [(Col.id, Cell.nat n.id)])) := by
  unfold internalNode posCells axisCells
  simp [List.append_assoc]

theorem dictFeats_internalNode (s : Tracks) (n : NodeRec) : dictFeats (internalNode s n) = n.feats := by
  rw [internalNode_eq]
  simp only [dictFeats, dictFeats_append, dictFeats_featCells]
  unfold posCells
  cases s.perAxis
  · simp [dictFeats]
  · simp [dictFeats_axisCells]

theorem alook_posCells_other (s : Tracks) (n : NodeRec) (c : Col) (h1 : ∀ i, c ≠ .axis i)
    (h2 : c ≠ .pos) : alook c (posCells s n) = none := by
  unfold posCells
  cases s.perAxis
  · simp only [Bool.false_eq_true, if_false, alook_cons]
    rw [if_neg (by simpa using Ne.symm h2)]
    rfl
  · simp only [if_true]
    exact alook_axisCells_other s n c h1

theorem decodeInternalNode_internalNode (s : Tracks) (n : NodeRec)
    (hlen : s.perAxis = true → n.pos.length = nax s) :
    decodeInternalNode s.perAxis (nax s) (internalNode s n) = some n := by
  have hid : getNat (internalNode s n) .id = some n.id := by
    unfold getNat
    rw [internalNode_eq]
    simp only [alook_cons]
    rw [if_neg (by decide), if_neg (by decide), if_neg (by decide), alook_append,
      alook_posCells_other s n _ (fun i => by intro e; cases e) (by intro e; cases e), alook_append,
      alook_featCells_other _ _ (fun k => by intro e; cases e)]
    simp [alook_cons]
  have ht : getNat (internalNode s n) .time = some n.time := by
    unfold getNat; rw [internalNode_eq]; simp [alook_cons]
  have hk : getNat (internalNode s n) .tid = some n.tid := by
    unfold getNat; rw [internalNode_eq]; simp only [alook_cons]
    rw [if_neg (by decide)]; simp
  have hl : getNat (internalNode s n) .lin = some n.lin := by
    unfold getNat; rw [internalNode_eq]; simp only [alook_cons]
    rw [if_neg (by decide), if_neg (by decide)]; simp
  have hp : (if s.perAxis then posOf (nax s) (internalNode s n) else getVals (internalNode s n) .pos)
      = some n.pos := by
    cases hpa : s.perAxis
    · simp only [Bool.false_eq_true, if_false]
      unfold getVals
      rw [internalNode_eq]
      simp only [alook_cons]
      rw [if_neg (by decide), if_neg (by decide), if_neg (by decide), alook_append]
      unfold posCells
      simp [hpa, alook_cons]
    · simp only [if_true]
      apply posOf_of_cells _ _ n (hlen hpa)
      intro i hi
      rw [internalNode_eq]
      simp only [alook_cons]
      rw [if_neg (by simp), if_neg (by simp), if_neg (by simp), alook_append]
      unfold posCells
      simp only [hpa, if_true]
      rw [alook_axisCells s n i hi]
  unfold decodeInternalNode
  rw [hid, ht, hk, hl, hp, dictFeats_internalNode]

theorem decodeInternalLink_internalLink (e : EdgeRec) :
    decodeInternalLink (internalLink e) = some e := by
  have hs : getNat (internalLink e) .src = some e.src := by
    unfold getNat internalLink
    rw [alook_append, alook_featCells_other _ _ (fun k => by intro h; cases h)]
    simp [alook_cons]
  have hd : getNat (internalLink e) .dst = some e.dst := by
    unfold getNat internalLink
    rw [alook_append, alook_featCells_other _ _ (fun k => by intro h; cases h)]
    simp only [alook_cons]
    rw [if_neg (by decide)]
    simp
  have hf : dictFeats (internalLink e) = e.feats := by
    unfold internalLink
    rw [dictFeats_append, dictFeats_featCells]
    simp [dictFeats]
  unfold decodeInternalLink
  rw [hs, hd, hf]

theorem decodeInternal_encodeInternal (s : Tracks)
    (hlen : s.perAxis = true → ∀ n ∈ s.nodes, n.pos.length = nax s) :
    decodeInternal (encodeInternal s) = some s := by
  unfold decodeInternal encodeInternal
  simp only
  rw [List.map_map, List.map_map]
  rw [allSome_map _ id _ (fun n hn => by
    show decodeInternalNode s.perAxis (s.ndim - 1) (internalNode s n) = _
    exact decodeInternalNode_internalNode s n (fun h => hlen h n hn))]
  rw [allSome_map _ id _ (fun e _ => by
    show decodeInternalLink (internalLink e) = _
    exact decodeInternalLink_internalLink e)]
  simp

/-! ### ancestors -/

/-- `Anc s a n`: `a` is `n` or an ancestor of `n` (a directed path a → … → n) -/
inductive Anc (s : Tracks) : Nat → Nat → Prop where
  | refl (n : Nat) : Anc s n n
  | step {a p n : Nat} : p ∈ preds s n → Anc s a p → Anc s a n

theorem Anc.trans {s : Tracks} {a b c : Nat} (h1 : Anc s a b) (h2 : Anc s b c) : Anc s a c := by
  induction h2 with
  | refl => exact h1
  | step hp _ ih => exact Anc.step hp ih

theorem up_sound {s : Tracks} : ∀ (f n a : Nat), a ∈ up s f n → Anc s a n := by
  intro f
  induction f with
  | zero =>
    intro n a h
    simp only [up, List.mem_singleton] at h
    subst h
    exact Anc.refl _
  | succ f ih =>
    intro n a h
    simp only [up, List.mem_cons, List.mem_flatMap] at h
    rcases h with rfl | ⟨p, hp, ha⟩
    · exact Anc.refl _
    · exact Anc.step hp (ih p a ha)

/-- every edge goes forward in time -/
def TimeInc (s : Tracks) : Prop := ∀ e ∈ s.edges, timeOf s e.src < timeOf s e.dst

instance (s : Tracks) : Decidable (TimeInc s) := by unfold TimeInc; exact inferInstance

theorem up_complete {s : Tracks} (ht : TimeInc s) {a n : Nat} (h : Anc s a n) :
    ∀ f, timeOf s n ≤ f → a ∈ up s f n := by
  induction h with
  | refl =>
    intro f _
    cases f <;> simp [up]
  | @step p n hp _ ih =>
    intro f hf
    obtain ⟨e, he, hd, hs⟩ := mem_preds.mp hp
    have hlt : timeOf s p < timeOf s n := by
      have := ht e he
      rw [hd, hs] at this
      exact this
    cases f with
    | zero => omega
    | succ f =>
      simp only [up, List.mem_cons, List.mem_flatMap]
      exact Or.inr ⟨p, hp, ih f (by omega)⟩

theorem mem_ancestorsClosure {s : Tracks} (ht : TimeInc s) (sel : List Nat) (a : Nat) :
    a ∈ ancestorsClosure s sel ↔ ∃ m ∈ sel, Anc s a m := by
  unfold ancestorsClosure
  simp only [List.mem_flatMap]
  constructor
  · rintro ⟨m, hm, h⟩
    exact ⟨m, hm, up_sound _ _ _ h⟩
  · rintro ⟨m, hm, h⟩
    exact ⟨m, hm, up_complete ht h _ (Nat.le_refl _)⟩

/-- both endpoints of every edge are nodes -/
def EdgesIn (s : Tracks) : Prop := ∀ e ∈ s.edges, e.src ∈ ids s ∧ e.dst ∈ ids s

instance (s : Tracks) : Decidable (EdgesIn s) := by unfold EdgesIn; exact inferInstance

theorem Anc.mem_ids {s : Tracks} (he : EdgesIn s) {a n : Nat} (h : Anc s a n) (hn : n ∈ ids s) :
    a ∈ ids s := by
  induction h with
  | refl => exact hn
  | step hp _ ih =>
    obtain ⟨e, hem, _, hs⟩ := mem_preds.mp hp
    exact ih (hs ▸ (he e hem).1)

theorem mem_exported_ids {s : Tracks} (l : List Nat) (a : Nat) :
    a ∈ (exported s (some l)).map NodeRec.id ↔ a ∈ ids s ∧ a ∈ ancestorsClosure s l := by
  unfold exported ids
  simp only [List.mem_map, List.mem_filter, List.contains_iff_mem]
  constructor
  · rintro ⟨n, ⟨hn, hc⟩, rfl⟩
    exact ⟨⟨n, hn, rfl⟩, hc⟩
  · rintro ⟨⟨n, hn, rfl⟩, hc⟩
    exact ⟨n, ⟨hn, hc⟩, rfl⟩

/-! ### the in-place sort of `get_track_neighbors` -/

theorem insertByTime_perm (s : Tracks) (x : Nat) (l : List Nat) :
    (insertByTime s x l).Perm (x :: l) := by
  induction l with
  | nil => exact List.Perm.refl _
  | cons y ys ih =>
    simp only [insertByTime]
    split
    · exact (List.Perm.cons y ih).trans (List.Perm.swap x y ys)
    · exact List.Perm.refl _

theorem sortByTime_perm (s : Tracks) (l : List Nat) : (sortByTime s l).Perm l := by
  unfold sortByTime
  induction l with
  | nil => exact List.Perm.refl _
  | cons x r ih =>
    simp only [List.foldr_cons]
    exact (insertByTime_perm s x _).trans (List.Perm.cons x ih)

theorem aset_keys {β} (k : Nat) (v v' : β) (l : List (Nat × β)) (h : alook k l = some v') :
    (aset k v l).map Prod.fst = l.map Prod.fst := by
  induction l with
  | nil => cases h
  | cons p r ih =>
    obtain ⟨k', w⟩ := p
    simp only [aset]
    by_cases hk : (k' == k) = true
    · rw [if_pos hk]
      simp only [List.map_cons]
      rw [show k = k' from (by simpa using hk : k' = k).symm]
    · rw [if_neg hk]
      simp only [alook_cons, if_neg hk] at h
      simp only [List.map_cons, ih h]

theorem alook_aset {β} (k k2 : Nat) (v : β) (l : List (Nat × β)) :
    alook k2 (aset k v l) = if k2 = k then some v else alook k2 l := by
  induction l with
  | nil =>
    simp only [aset, alook_cons]
    by_cases h : k2 = k
    · subst h; simp
    · rw [if_neg (by simpa using Ne.symm h), if_neg h]
  | cons p r ih =>
    obtain ⟨k', w⟩ := p
    simp only [aset]
    by_cases hk : k' = k
    · subst hk
      simp only [beq_self_eq_true, if_true, alook_cons]
      by_cases h : k2 = k'
      · subst h; simp
      · rw [if_neg (by simpa using Ne.symm h), if_neg h, if_neg (by simpa using Ne.symm h)]
    · rw [if_neg (by simpa using hk)]
      simp only [alook_cons]
      by_cases h2 : k' = k2
      · subst h2
        simp [hk]
      · rw [if_neg (by simpa using h2), ih]
        by_cases h3 : k2 = k <;> simp [h3, h2]

theorem lookupEquiv_refl (a : List (Nat × List Nat)) : lookupEquiv a a :=
  ⟨rfl, fun _ => List.Perm.refl _⟩

theorem lookupEquiv_aset (s : Tracks) (tid : Nat) (cands : List Nat) (t2n : List (Nat × List Nat))
    (h : alook tid t2n = some cands) : lookupEquiv (aset tid (sortByTime s cands) t2n) t2n := by
  refine ⟨aset_keys tid _ cands t2n h, fun k => ?_⟩
  rw [alook_aset]
  by_cases hk : k = tid
  · subst hk
    simpa [h] using sortByTime_perm s cands
  · simp only [if_neg hk]
    exact List.Perm.refl _

theorem State.same_refl (st : State) : State.same st st :=
  ⟨rfl, lookupEquiv_refl _, rfl, rfl, rfl, rfl, rfl, rfl, rfl⟩

/-! ### nothing but `Geff.scale` reads the scale -/

def withScale (s : Tracks) (x : Option (List Val)) : Tracks := { s with scale := x }

theorem up_withScale (s : Tracks) (x : Option (List Val)) :
    ∀ f n, up (withScale s x) f n = up s f n := by
  intro f
  induction f with
  | zero => intro n; rfl
  | succ f ih =>
    intro n
    show n :: (preds s n).flatMap (up (withScale s x) f) = n :: (preds s n).flatMap (up s f)
    rw [show up (withScale s x) f = up s f from funext (ih)]

theorem ancestorsClosure_withScale (s : Tracks) (x : Option (List Val)) (l : List Nat) :
    ancestorsClosure (withScale s x) l = ancestorsClosure s l := by
  unfold ancestorsClosure
  congr 1
  funext m
  exact up_withScale s x _ m

theorem exported_withScale (s : Tracks) (x : Option (List Val)) (sel : Option (List Nat)) :
    exported (withScale s x) sel = exported s sel := by
  cases sel with
  | none => rfl
  | some l =>
    show s.nodes.filter _ = s.nodes.filter _
    rw [ancestorsClosure_withScale]

theorem exportedEdges_withScale (s : Tracks) (x : Option (List Val)) (sel : Option (List Nat)) :
    exportedEdges (withScale s x) sel = exportedEdges s sel := by
  cases sel with
  | none => rfl
  | some l =>
    unfold exportedEdges
    simp only
    rw [exported_withScale]
    rfl

theorem encodeGeff_withScale (one : Val) (s : Tracks) (sel : Option (List Nat)) (h : s.scale = none) :
    encodeGeff one (withScale s (some (List.replicate s.ndim one))) sel = encodeGeff one s sel := by
  unfold encodeGeff
  rw [exported_withScale, exportedEdges_withScale, h]
  cases sel with
  | none => rfl
  | some l =>
    simp only [ancestorsClosure_withScale]
    rfl

end Ft.Export
