/-
  FtProofs.R6PStrLemmas — package R6P, part 2: the structural invariant of the primitive protocol
  on ARBITRARY graphs and the argument preconditions of the primitives.

  `Str s`  = array present, whole frames (`Seg.WF`), node ids unique and non-zero, every node's time
             inside the array, every label that IS a node id occurs only in that node's own frame
             (`LabelsInFrame`; orphan labels — labels that are no node — are allowed anywhere), the
             edge list is duplicate-free with endpoints that are nodes (a networkx DiGraph), active
             regionprops keys are annotator keys.
             NO forest hypothesis: any in-degree, any out-degree, backward edges, cycles, self loops.
  `PrimPre s c` = the documented argument preconditions that matter for C08 / C09:
     AddNode      fresh non-zero id, time inside the array, the id does not occur as a label outside
                  the node's frame, pixels (if given) inside the array, in the node's frame, on background;
     DeleteNode   pixels (if given) carry the node's label  (weaker than "= the node's pixels");
     UpdateNodeSeg added: pixels inside the array, in the node's own frame, on background;
                  removed: pixels carry the node's label;
     the other four: none.
  `closedStr` : `Str` is kept by every accepted primitive under `PrimPre`, the inverse of the returned
  record satisfies `PrimPre` in the new state, and `enable` / `disable` keep `Str` unconditionally.
-/
import FtProofs.R6PLemmas
import FtProofs.Props.C10_R5B
namespace Ft.R6P
open Ft Ft.St Ft.R2G List

/-! ### 1. the invariant on (array, skeleton, edge list) -/

structure StrK (g : Seg) (k : List (Node × Nat)) (E : List Edge) : Prop where
  wf : g.WF
  nodup : (k.map (·.1)).Nodup
  nz : ∀ p ∈ k, p.1 ≠ 0
  time : ∀ p ∈ k, p.2 < g.nframes
  lab : ∀ i, i < g.data.length → ∀ p ∈ k, g.data.getD i 0 = p.1 → i / g.frame = p.2
  enod : E.Nodup
  esrc : ∀ e ∈ E, e.1 ∈ k.map (·.1)
  edst : ∀ e ∈ E, e.2 ∈ k.map (·.1)

/-- the structural invariant -/
def Str (s : St) : Prop :=
  (∃ g, s.seg = some g ∧ StrK g s.skel s.edgeList) ∧ ∀ k ∈ s.rpActive, k ∈ s.rpAvail

theorem nframes_setPixels (g : Seg) (ps : List Pix) (v : Nat) : (g.setPixels ps v).nframes = g.nframes := by
  simp only [Seg.nframes, Seg.setPixels_frame, Seg.setPixels_length]

theorem wf_setPixels {g : Seg} (h : g.WF) (ps : List Pix) (v : Nat) : (g.setPixels ps v).WF := by
  unfold Seg.WF at h ⊢
  rw [Seg.setPixels_frame, Seg.setPixels_length]; exact h

theorem StrK.mono {g : Seg} {k : List (Node × Nat)} {E E' : List Edge} (h : StrK g k E)
    (hE : E'.Sublist E) : StrK g k E' :=
  ⟨h.wf, h.nodup, h.nz, h.time, h.lab, hE.nodup h.enod, fun e he => h.esrc e (hE.subset he),
    fun e he => h.edst e (hE.subset he)⟩

theorem StrK.addEdge {g : Seg} {k : List (Node × Nat)} {E : List Edge} (h : StrK g k E) {e : Edge}
    (h1 : e.1 ∈ k.map (·.1)) (h2 : e.2 ∈ k.map (·.1)) (hnew : e ∉ E) : StrK g k (E ++ [e]) := by
  refine ⟨h.wf, h.nodup, h.nz, h.time, h.lab, ?_, ?_, ?_⟩
  · refine List.nodup_append.mpr ⟨h.enod, by simp, fun a ha b hb => ?_⟩
    rw [List.mem_singleton.1 hb]; exact fun e' => hnew (e' ▸ ha)
  · intro e' he'
    rcases List.mem_append.1 he' with he' | he'
    · exact h.esrc e' he'
    · rw [List.mem_singleton.1 he']; exact h1
  · intro e' he'
    rcases List.mem_append.1 he' with he' | he'
    · exact h.edst e' he'
    · rw [List.mem_singleton.1 he']; exact h2

/-- zeroing ANY set of pixels keeps the structure -/
theorem StrK.zero {g : Seg} {k : List (Node × Nat)} {E : List Edge} (h : StrK g k E) (ps : List Pix) :
    StrK (g.setPixels ps 0) k E := by
  refine ⟨wf_setPixels h.wf _ _, h.nodup, h.nz, fun p hp => by rw [nframes_setPixels]; exact h.time p hp,
    ?_, h.enod, h.esrc, h.edst⟩
  intro i hi p hp he
  rw [Seg.setPixels_length] at hi
  rw [Seg.setPixels_getD] at he
  rw [Seg.setPixels_frame]
  split at he
  · exact absurd he.symm (h.nz p hp)
  · exact h.lab i hi p hp he

/-- painting label `n` of the node `(n, t)` onto pixels of frame `t` that carried background -/
theorem StrK.grow {g : Seg} {k : List (Node × Nat)} {E : List Edge} (h : StrK g k E) {n t : Nat}
    (hn : (n, t) ∈ k) {ps : List Pix} (hps : ∀ p ∈ ps, p / g.frame = t ∧ g.data.getD p 0 = 0) :
    StrK (g.setPixels ps n) k E := by
  refine ⟨wf_setPixels h.wf _ _, h.nodup, h.nz, fun p hp => by rw [nframes_setPixels]; exact h.time p hp,
    ?_, h.enod, h.esrc, h.edst⟩
  intro i hi p hp he
  rw [Seg.setPixels_length] at hi
  rw [Seg.setPixels_getD] at he
  rw [Seg.setPixels_frame]
  split at he
  · rename_i hc
    -- the written label is `n`: `p` is the node `(n, t)` itself
    have hpe : p = (n, t) := by
      have h1 : p.1 = n := he.symm
      have := skel_time_unique h.nodup (n := n) (a := p.2) (b := t) (by rw [← h1]; exact hp) hn
      exact Prod.ext h1 this
    rw [hpe]; exact (hps i hc.1).1
  · exact h.lab i hi p hp he

/-- dropping node `n` (and its incident edges) after zeroing pixels -/
theorem StrK.del {g : Seg} {k : List (Node × Nat)} {E : List Edge} (h : StrK g k E) (n : Node) :
    StrK g (k.filter (·.1 != n)) (E.filter (fun e => e.1 != n && e.2 != n)) := by
  have hsub : ∀ p ∈ k.filter (·.1 != n), p ∈ k := fun p hp => (List.mem_filter.1 hp).1
  refine ⟨h.wf, (List.filter_sublist.map _).nodup h.nodup, fun p hp => h.nz p (hsub p hp),
    fun p hp => h.time p (hsub p hp), fun i hi p hp he => h.lab i hi p (hsub p hp) he,
    List.filter_sublist.nodup h.enod, ?_, ?_⟩
  · intro e he
    obtain ⟨he1, he2⟩ := List.mem_filter.1 he
    obtain ⟨p, hp, hpe⟩ := List.mem_map.1 (h.esrc e he1)
    simp only [Bool.and_eq_true, bne_iff_ne, ne_eq] at he2
    exact List.mem_map.2 ⟨p, List.mem_filter.2 ⟨hp, by simp [hpe, he2.1]⟩, hpe⟩
  · intro e he
    obtain ⟨he1, he2⟩ := List.mem_filter.1 he
    obtain ⟨p, hp, hpe⟩ := List.mem_map.1 (h.edst e he1)
    simp only [Bool.and_eq_true, bne_iff_ne, ne_eq] at he2
    exact List.mem_map.2 ⟨p, List.mem_filter.2 ⟨hp, by simp [hpe, he2.2]⟩, hpe⟩

/-- appending a fresh node whose label (if it occurs at all) sits in its own frame -/
theorem StrK.push {g : Seg} {k : List (Node × Nat)} {E : List Edge} (h : StrK g k E) {n t : Nat}
    (hnew : n ∉ k.map (·.1)) (h0 : n ≠ 0) (ht : t < g.nframes)
    (hfree : ∀ i, i < g.data.length → g.data.getD i 0 = n → i / g.frame = t) :
    StrK g (k ++ [(n, t)]) E := by
  refine ⟨h.wf, ?_, ?_, ?_, ?_, h.enod, ?_, ?_⟩
  · rw [List.map_append]
    refine List.nodup_append.mpr ⟨h.nodup, by simp, fun a ha b hb => ?_⟩
    simp only [List.map_cons, List.map_nil, List.mem_singleton] at hb
    subst hb; exact fun e => hnew (e ▸ ha)
  · intro p hp
    rcases List.mem_append.1 hp with hp | hp
    · exact h.nz p hp
    · rw [List.mem_singleton.1 hp]; exact h0
  · intro p hp
    rcases List.mem_append.1 hp with hp | hp
    · exact h.time p hp
    · rw [List.mem_singleton.1 hp]; exact ht
  · intro i hi p hp he
    rcases List.mem_append.1 hp with hp | hp
    · exact h.lab i hi p hp he
    · rw [List.mem_singleton.1 hp] at he ⊢; exact hfree i hi he
  · intro e he; rw [List.map_append]; exact List.mem_append_left _ (h.esrc e he)
  · intro e he; rw [List.map_append]; exact List.mem_append_left _ (h.edst e he)

/-! ### 2. the preconditions -/

/-- AddNode: fresh non-zero id; time inside the array; the id is no label outside the node's frame;
    pixels (if given) inside the array, in the node's frame, on background -/
def AddNodePre (s : St) (r : NodeRec) (px : Option (List Pix)) : Prop :=
  s.hasNode r.id = false ∧ r.id ≠ 0 ∧
  match s.seg with
  | none => True
  | some g =>
    r.time < g.nframes ∧
    (∀ i, i < g.data.length → g.data.getD i 0 = r.id → i / g.frame = r.time) ∧
    match px with
    | none => True
    | some ps => ∀ p ∈ ps, p < g.data.length ∧ p / g.frame = r.time ∧ g.data.getD p 0 = 0

/-- DeleteNode: the pixels, if given, carry the node's label -/
def DelNodePre (s : St) (n : Node) (px : Option (List Pix)) : Prop :=
  match s.seg, px with
  | some g, some ps => ∀ p ∈ ps, g.data.getD p 0 = n
  | _, _ => True

/-- UpdateNodeSeg: added — inside the array, in the node's own frame, on background;
    removed — the pixels carry the node's label -/
def UpdSegPre (s : St) (n : Node) (ps : List Pix) (added : Bool) : Prop :=
  match s.seg, s.timeOf n with
  | some g, some t =>
    if added = true then ∀ p ∈ ps, p < g.data.length ∧ p / g.frame = t ∧ g.data.getD p 0 = 0
    else ∀ p ∈ ps, g.data.getD p 0 = n
  | _, _ => True

def PrimPre (s : St) : PCmd → Prop
  | .addNode r px => AddNodePre s r px
  | .delNode n px => DelNodePre s n px
  | .updSeg n ps added => UpdSegPre s n ps added
  | _ => True

instance (s : St) (r : NodeRec) (px : Option (List Pix)) : Decidable (AddNodePre s r px) := by
  unfold AddNodePre
  cases s.seg with
  | none => infer_instance
  | some g => cases px <;> infer_instance

instance (s : St) (n : Node) (px : Option (List Pix)) : Decidable (DelNodePre s n px) := by
  unfold DelNodePre
  cases s.seg <;> cases px <;> infer_instance

instance (s : St) (n : Node) (ps : List Pix) (added : Bool) : Decidable (UpdSegPre s n ps added) := by
  unfold UpdSegPre
  cases s.seg <;> cases s.timeOf n <;> infer_instance

instance (s : St) (c : PCmd) : Decidable (PrimPre s c) := by
  cases c <;> unfold PrimPre <;> infer_instance

theorem AddNodePre.out {s : St} {r : NodeRec} {px : Option (List Pix)} (h : AddNodePre s r px)
    {g : Seg} (hg : s.seg = some g) :
    s.hasNode r.id = false ∧ r.id ≠ 0 ∧ r.time < g.nframes ∧
    (∀ i, i < g.data.length → g.data.getD i 0 = r.id → i / g.frame = r.time) ∧
    (∀ ps, px = some ps → ∀ p ∈ ps, p < g.data.length ∧ p / g.frame = r.time ∧ g.data.getD p 0 = 0) := by
  unfold AddNodePre at h
  rw [hg] at h
  refine ⟨h.1, h.2.1, h.2.2.1, h.2.2.2.1, ?_⟩
  intro ps hps
  have := h.2.2.2.2
  rw [hps] at this; exact this

theorem DelNodePre.out {s : St} {n : Node} {px : Option (List Pix)} (h : DelNodePre s n px)
    {g : Seg} (hg : s.seg = some g) {ps : List Pix} (hps : px = some ps) :
    ∀ p ∈ ps, g.data.getD p 0 = n := by
  unfold DelNodePre at h
  rw [hg, hps] at h; exact h

theorem UpdSegPre.out {s : St} {n : Node} {ps : List Pix} {added : Bool} (h : UpdSegPre s n ps added)
    {g : Seg} (hg : s.seg = some g) {t : Nat} (ht : s.timeOf n = some t) :
    (added = true → ∀ p ∈ ps, p < g.data.length ∧ p / g.frame = t ∧ g.data.getD p 0 = 0) ∧
    (added = false → ∀ p ∈ ps, g.data.getD p 0 = n) := by
  unfold UpdSegPre at h
  rw [hg, ht] at h
  cases added
  · exact ⟨fun e => (by cases e), fun _ => (by simpa using h)⟩
  · exact ⟨fun _ => (by simpa using h), fun e => (by cases e)⟩

/-! ### 3. what each primitive does to (array, skeleton, edge list, registry) -/

theorem edgeList_addEdgeRaw (s : St) (e : Edge) (a : List (Key × Val)) :
    (s.addEdgeRaw e a).edgeList = if s.hasEdge e then s.edgeList else s.edgeList ++ [e] := by
  unfold addEdgeRaw edgeList
  split
  · simp only [List.map_map]
    apply List.map_congr_left
    intro r _
    simp only [Function.comp]
    split <;> rfl
  · simp

theorem shape_pAddEdge {s s' : St} {e : Edge} {a : List (Key × Val)} {rec : PrimRec}
    (h : s.pAddEdge e a = .ok (s', rec)) :
    s'.seg = s.seg ∧ s'.skel = s.skel ∧ s'.nodes = s.nodes ∧
    s'.edgeList = (if s.hasEdge e then s.edgeList else s.edgeList ++ [e]) ∧
    e.1 ∈ s.ids ∧ e.2 ∈ s.ids ∧ rec = .addEdge e a := by
  obtain ⟨h1, h2, h3, rfl⟩ := pAddEdge_ok_sg h
  refine ⟨(iouUpdateEdge_seg _ _).trans (addEdgeRaw_seg ..), ?_, (iouUpdateEdge_nodes _ _).trans (addEdgeRaw_nodes ..),
    ?_, (hasNode_iff_mem_ids_sg _ _).1 h1, (hasNode_iff_mem_ids_sg _ _).1 h2, h3⟩
  · rw [iouUpdateEdge_skel]; simp only [St.skel, addEdgeRaw_nodes]
  · show ((s.addEdgeRaw e a).iouUpdateEdge e).edges.map (·.e) = _
    rw [iouUpdateEdge_edgeList]; exact edgeList_addEdgeRaw s e a

theorem shape_pDelEdge {s s' : St} {e : Edge} {rec : PrimRec} (h : s.pDelEdge e = .ok (s', rec)) :
    s'.seg = s.seg ∧ s'.nodes = s.nodes ∧ s'.edges = s.edges.filter (·.e != e) ∧
    ∃ saved, rec = .delEdge e saved := by
  have hs := pDelEdge_ok_sg h
  subst hs
  refine ⟨rfl, rfl, rfl, ?_⟩
  unfold pDelEdge at h
  split at h
  · cases h
  · injection h with h; injection h with _ h; exact ⟨_, h.symm⟩

theorem shape_pAddNode {s s' : St} {r : NodeRec} {px : Option (List Pix)} {rec : PrimRec}
    (hnew : s.hasNode r.id = false) (h : s.pAddNode r px = .ok (s', rec)) :
    s'.seg = (s.paintWith px r.id).seg ∧ s'.skel = s.skel ++ [(r.id, r.time)] ∧ s'.edges = s.edges ∧
    rec = .addNode r px := by
  obtain ⟨hrec, -, rfl⟩ := pAddNode_ok_sg h
  have hfr := Fr.trackAdd (((s.paintWith px r.id).addNodeRaw r).rpUpdate r.id) r.id
  have hnew1 : (s.paintWith px r.id).hasNode r.id = false := by rw [paintWith_hasNode, hnew]
  refine ⟨hfr.seg.trans ((rpUpdate_seg _ _).trans ?_), hfr.skel.trans ((rpUpdate_skel _ _).trans ?_),
    hfr.edges.trans ((rpUpdate_edges _ _).trans ?_), hrec⟩
  · rw [addNodeRaw_new hnew1]
  · rw [addNodeRaw_new hnew1]; simp [St.skel]
  · rw [addNodeRaw_new hnew1]; simp

theorem shape_pDelNode {s s' : St} {n : Node} {px : Option (List Pix)} {rec : PrimRec}
    (h : s.pDelNode n px = .ok (s', rec)) :
    ∃ r0, s.findNode n = some r0 ∧ rec = .delNode (s.savedAttrs r0) (s.delPixels n px) ∧
      s'.seg = (s.paintWith (s.delPixels n px) 0).seg ∧ s'.skel = s.skel.filter (·.1 != n) ∧
      s'.nodes.map core = (s.nodes.filter (·.id != n)).map core ∧
      s'.edges = s.edges.filter (fun e => e.e.1 != n && e.e.2 != n) := by
  obtain ⟨r0, hr0, hrec, rfl⟩ := pDelNode_ok_sg h
  have hfr := Fr.trackOnDelete ((s.paintWith (s.delPixels n px) 0).delRaw n) (s.savedAttrs r0)
  refine ⟨r0, hr0, hrec, hfr.seg, hfr.skel.trans ?_, hfr.cores.trans ?_, hfr.edges.trans ?_⟩
  · simp only [St.skel, delRaw, paintWith_nodes, List.filter_map]; rfl
  · simp only [delRaw, paintWith_nodes]
  · simp only [delRaw, paintWith_edges]

theorem shape_pUpdSeg {s s' : St} {n : Node} {ps : List Pix} {added : Bool} {rec : PrimRec}
    (h : s.pUpdSeg n ps added = .ok (s', rec)) :
    ∃ g, s.seg = some g ∧ s'.seg = some (g.setPixels ps (if added then n else 0)) ∧ s'.skel = s.skel ∧
      s'.edgeList = s.edgeList ∧ s.hasNode n = true ∧ rec = .updSeg n ps added := by
  obtain ⟨g, hg, hn, hrec, rfl⟩ := pUpdSeg_ok_sg h
  refine ⟨g, hg, (iouUpdateNode_seg _ _).trans (rpUpdate_seg _ _),
    (iouUpdateNode_skel _ _).trans (rpUpdate_skel _ _), ?_, hn, hrec⟩
  show ((s.withSeg _).rpUpdate n |>.iouUpdateNode n).edges.map (·.e) = _
  rw [iouUpdateNode_edgeList, rpUpdate_edges]; rfl

theorem edges_foldl_setOther (n : Node) (a : List (Key × Val)) (st : St) :
    (a.foldl (fun st kv => st.setOther n kv.1 kv.2) st).edges = st.edges := by
  induction a generalizing st with
  | nil => rfl
  | cons kv l ih => rw [List.foldl_cons, ih]; rfl

theorem edges_pUpdAttrs {s s' : St} {n : Node} {a : List (Key × Val)} {rec : PrimRec}
    (h : s.pUpdAttrs n a = .ok (s', rec)) : s'.edges = s.edges ∧ ∃ prev, rec = .updAttrs n prev a := by
  unfold St.pUpdAttrs at h
  split at h
  · cases h
  · split at h
    · cases h
    · injection h with h; injection h with h1 h2
      subst h1
      exact ⟨edges_foldl_setOther n a s, _, h2.symm⟩

theorem rec_pUpdTid {s s' : St} {n : Node} {t : Nat} {l : Option Nat} {rec : PrimRec}
    (h : s.pUpdTid n t l = .ok (s', rec)) : ∃ a b c d, rec = .updTid n a b c d := by
  obtain ⟨r, -, hr, -⟩ := pUpdTid_ok_sg h
  exact ⟨_, _, _, _, hr⟩

/-! ### 4. `Str` is closed -/

theorem Str.congr {s s' : St} (h : Str s) (hg : s'.seg = s.seg) (hk : s'.skel = s.skel)
    (he : s'.edgeList = s.edgeList) (ha : s'.rpActive = s.rpActive) (hv : s'.rpAvail = s.rpAvail) :
    Str s' := by
  obtain ⟨⟨g, h1, h2⟩, h3⟩ := h
  exact ⟨⟨g, hg.trans h1, by rw [hk, he]; exact h2⟩, by rw [ha, hv]; exact h3⟩

theorem rpAvail_of_cfg {s t : St} (h : t.cfg = s.cfg) : t.rpAvail = s.rpAvail := by
  simp only [cfg, Prod.mk.injEq] at h
  exact h.2.2.2.2.2.2.2.1

theorem mem_ids_skel {s : St} {n : Node} : n ∈ s.ids ↔ n ∈ s.skel.map (·.1) := by
  rw [ids_eq_skel_sg]

theorem hasNode_false_skel {s : St} {n : Node} (h : s.hasNode n = false) : n ∉ s.skel.map (·.1) := by
  intro hm
  have := (hasNode_iff_mem_ids_sg s n).2 (mem_ids_skel.2 hm)
  rw [h] at this; cases this

theorem timeOf_mem_skel {s : St} {n t : Nat} (h : s.timeOf n = some t) : (n, t) ∈ s.skel :=
  mem_skel_of_timeOf h

theorem getD_lt_of_ne_zero {g : Seg} {p n : Nat} (h : g.data.getD p 0 = n) (hn : n ≠ 0) :
    p < g.data.length := getD_ne_zero_lt_sg (by rw [h]; exact hn)

/-- the accepted primitives keep `Str` and return a record whose inverse is admissible again -/
theorem str_prim {s s' : St} {c : PCmd} {r : PrimRec} (hS : Str s) (hpre : PrimPre s c)
    (h : c.run s = .ok (s', r)) : Str s' ∧ PrimPre s' (invCmd r) := by
  obtain ⟨⟨g, hg, hK⟩, hact⟩ := hS
  cases c with
  | addEdge e a =>
    obtain ⟨e1, e2, -, e4, m1, m2, hrec⟩ := shape_pAddEdge h
    have hc := cfg_pAddEdge h
    refine ⟨⟨⟨g, e1.trans hg, ?_⟩, by rw [rpActive_of_cfg hc, rpAvail_of_cfg hc]; exact hact⟩,
      by rw [hrec]; trivial⟩
    rw [e2, e4]
    split
    · exact hK
    · rename_i hne
      refine hK.addEdge (mem_ids_skel.1 m1) (mem_ids_skel.1 m2) ?_
      intro hm
      apply hne
      obtain ⟨er, her, hee⟩ := List.mem_map.1 hm
      simp only [hasEdge, List.any_eq_true]
      exact ⟨er, her, by simp [hee]⟩
  | delEdge e =>
    obtain ⟨e1, e2, e3, saved, hrec⟩ := shape_pDelEdge h
    have hc := cfg_pDelEdge h
    refine ⟨⟨⟨g, e1.trans hg, ?_⟩, by rw [rpActive_of_cfg hc, rpAvail_of_cfg hc]; exact hact⟩,
      by rw [hrec]; trivial⟩
    have hk : s'.skel = s.skel := by simp only [St.skel, e2]
    rw [hk]
    refine hK.mono ?_
    simp only [edgeList, e3]
    exact List.filter_sublist.map _
  | addNode nr px =>
    obtain ⟨hnew, h0, ht, hfree, hpx⟩ := AddNodePre.out hpre hg
    obtain ⟨e1, e2, e3, hrec⟩ := shape_pAddNode hnew h
    have hc := cfg_pAddNode h
    refine ⟨⟨?_, by rw [rpActive_of_cfg hc, rpAvail_of_cfg hc]; exact hact⟩,
      by rw [hrec]; show DelNodePre s' nr.id none; unfold DelNodePre; split <;> trivial⟩
    have hE : s'.edgeList = s.edgeList := by simp only [edgeList, e3]
    have hpush := hK.push (hasNode_false_skel hnew) h0 ht hfree
    cases px with
    | none =>
      refine ⟨g, e1.trans (by simp only [paintWith]; exact hg), ?_⟩
      rw [e2, hE]; exact hpush
    | some ps =>
      refine ⟨g.setPixels ps nr.id, e1.trans (by simp only [paintWith, hg]; rfl), ?_⟩
      rw [e2, hE]
      exact hpush.grow (List.mem_append_right _ (List.mem_singleton.2 rfl))
        (fun p hp => ⟨(hpx ps rfl p hp).2.1, (hpx ps rfl p hp).2.2⟩)
  | delNode n px =>
    obtain ⟨r0, hr0, hrec, e1, e2, -, e4⟩ := shape_pDelNode h
    have hc := cfg_pDelNode h
    have hid : r0.id = n := findNode_id_sg hr0
    have htime : s.timeOf n = some r0.time := by simp [St.timeOf, hr0]
    have hmem : (n, r0.time) ∈ s.skel := timeOf_mem_skel htime
    have hn0 : n ≠ 0 := hK.nz _ hmem
    -- the pixels that are zeroed: all carry label `n`
    obtain ⟨ps, hdp, hcar⟩ : ∃ ps, s.delPixels n px = some ps ∧ ∀ p ∈ ps, g.data.getD p 0 = n := by
      cases px with
      | some ps => exact ⟨ps, rfl, DelNodePre.out hpre hg rfl⟩
      | none =>
        refine ⟨g.pixelsOf r0.time n, by simp only [delPixels, getPixels, hg, htime], ?_⟩
        intro p hp; exact (Seg.mem_pixelsOf.1 hp).2.2
    have hseg' : s'.seg = some (g.setPixels ps 0) := by
      rw [e1, hdp]; simp only [paintWith, hg]; rfl
    have hE : s'.edgeList = s.edgeList.filter (fun e => e.1 != n && e.2 != n) := by
      simp only [edgeList, e4, List.filter_map]; rfl
    have hK' : StrK (g.setPixels ps 0) s'.skel s'.edgeList := by
      rw [e2, hE]; exact (hK.zero ps).del n
    refine ⟨⟨⟨_, hseg', hK'⟩, by rw [rpActive_of_cfg hc, rpAvail_of_cfg hc]; exact hact⟩, ?_⟩
    rw [hrec, hdp]
    show AddNodePre s' (s.savedAttrs r0) (some ps)
    have hsid : (s.savedAttrs r0).id = n := hid
    have hstime : (s.savedAttrs r0).time = r0.time := rfl
    unfold AddNodePre
    rw [hseg', hsid, hstime]
    refine ⟨?_, hn0, ?_, ?_, ?_⟩
    · cases hh : s'.hasNode n with
      | false => rfl
      | true =>
        have := mem_ids_skel.1 ((hasNode_iff_mem_ids_sg _ _).1 hh)
        rw [e2] at this
        obtain ⟨p, hp, hpn⟩ := List.mem_map.1 this
        have := (List.mem_filter.1 hp).2
        simp [hpn] at this
    · rw [nframes_setPixels]; exact hK.time _ hmem
    · intro i hi he
      rw [Seg.setPixels_length] at hi
      rw [Seg.setPixels_getD] at he
      rw [Seg.setPixels_frame]
      split at he
      · exact absurd he.symm hn0
      · exact hK.lab i hi _ hmem he
    · intro p hp
      have hlt : p < g.data.length := getD_lt_of_ne_zero (hcar p hp) hn0
      refine ⟨by rw [Seg.setPixels_length]; exact hlt, ?_, ?_⟩
      · rw [Seg.setPixels_frame]; exact hK.lab p hlt _ hmem (hcar p hp)
      · rw [Seg.setPixels_getD, if_pos ⟨hp, hlt⟩]
  | updTid st t l =>
    have hfr := Fr.pUpdTid h
    have hc := cfg_pUpdTid h
    obtain ⟨a, b, c', d, hrec⟩ := rec_pUpdTid h
    exact ⟨Str.congr ⟨⟨g, hg, hK⟩, hact⟩ hfr.seg hfr.skel (by simp only [edgeList, hfr.edges])
      (rpActive_of_cfg hc) (rpAvail_of_cfg hc), by rw [hrec]; trivial⟩
  | updSeg n ps added =>
    obtain ⟨g', hg', e1, e2, e3, hn, hrec⟩ := shape_pUpdSeg h
    rw [hg] at hg'; cases hg'
    have hc := cfg_pUpdSeg h
    obtain ⟨t, ht⟩ : ∃ t, s.timeOf n = some t := by
      have := hn; rw [hasNode_eq_timeOf_sg] at this
      exact Option.isSome_iff_exists.1 this
    have hmem : (n, t) ∈ s.skel := timeOf_mem_skel ht
    have hn0 : n ≠ 0 := hK.nz _ hmem
    obtain ⟨pa, pr⟩ := UpdSegPre.out hpre hg ht
    have ht' : s'.timeOf n = some t := by rw [timeOf_of_skel_sg e2]; exact ht
    cases added with
    | true =>
      have hps := pa rfl
      refine ⟨⟨⟨_, e1, ?_⟩, by rw [rpActive_of_cfg hc, rpAvail_of_cfg hc]; exact hact⟩, ?_⟩
      · rw [e2, e3]; simp only [if_true]
        exact hK.grow hmem (fun p hp => ⟨(hps p hp).2.1, (hps p hp).2.2⟩)
      · rw [hrec]
        show UpdSegPre s' n ps (!true)
        unfold UpdSegPre
        rw [e1, ht']
        simp only [Bool.not_true, Bool.false_eq_true, if_false, if_true]
        intro p hp
        rw [Seg.setPixels_getD, if_pos ⟨hp, (hps p hp).1⟩]
    | false =>
      have hps := pr rfl
      refine ⟨⟨⟨_, e1, ?_⟩, by rw [rpActive_of_cfg hc, rpAvail_of_cfg hc]; exact hact⟩, ?_⟩
      · rw [e2, e3]; simp only [Bool.false_eq_true, if_false]
        exact hK.zero ps
      · rw [hrec]
        show UpdSegPre s' n ps (!false)
        unfold UpdSegPre
        rw [e1, ht']
        simp only [Bool.not_false, if_true, Bool.false_eq_true, if_false]
        intro p hp
        have hlt : p < g.data.length := getD_lt_of_ne_zero (hps p hp) hn0
        refine ⟨by rw [Seg.setPixels_length]; exact hlt, ?_, ?_⟩
        · rw [Seg.setPixels_frame]; exact hK.lab p hlt _ hmem (hps p hp)
        · rw [Seg.setPixels_getD, if_pos ⟨hp, hlt⟩]
  | updAttrs n a =>
    have hfs := Fs.pUpdAttrs h
    have hc := cfg_pUpdAttrs h
    obtain ⟨he, prev, hrec⟩ := edges_pUpdAttrs h
    exact ⟨Str.congr ⟨⟨g, hg, hK⟩, hact⟩ hfs.seg hfs.skel (by simp only [edgeList, he])
      (rpActive_of_cfg hc) (rpAvail_of_cfg hc), by rw [hrec]; trivial⟩

theorem edgeList_assignLineages (s : St) : s.assignLineages.edgeList = s.edgeList := by
  simp only [edgeList, (Fr.assignLineages s).edges]
theorem edgeList_assignTracklets (s : St) : s.assignTracklets.edgeList = s.edgeList := by
  simp only [edgeList, (Fr.assignTracklets s).edges]
theorem edgeList_iouCompute (s : St) : s.iouCompute.edgeList = s.edgeList :=
  foldl_iouUpdateEdge_edgeList _ _
theorem edgeList_rpCompute (s : St) (ks : List Key) : (s.rpCompute ks).edgeList = s.edgeList := by
  simp only [edgeList, (rpCompute_frame s ks).2.2]

theorem edgeList_enableRecompute (s1 : St) (ks : List Key) :
    (enableRecompute s1 ks).edgeList = s1.edgeList := by
  unfold enableRecompute
  simp only
  repeat' split
  all_goals simp only [edgeList_assignLineages, edgeList_assignTracklets, edgeList_iouCompute,
    edgeList_rpCompute]

theorem str_enable {s s' : St} {ks : List Key} {rc : Bool} (hS : Str s) (h : s.enable ks rc = some s') :
    Str s' := by
  have hfs := Fs.enable h
  cases hany : ks.any (fun k => !(s.annotKeys.contains k)) with
  | true => rw [enable_none s ks rc hany] at h; cases h
  | false =>
    rw [enable_eq s ks rc hany] at h
    injection h with h
    obtain ⟨⟨g, hg, hK⟩, hact⟩ := hS
    have hE : s'.edgeList = s.edgeList := by
      subst h
      cases rc
      · rfl
      · exact (edgeList_enableRecompute _ ks).trans rfl
    have hA : s'.rpActive = (enableReg s ks).rpActive ∧ s'.rpAvail = s.rpAvail := by
      subst h
      cases rc
      · exact ⟨rfl, rfl⟩
      · have hr := reg_enableRecompute (enableReg s ks) ks
        simp only [reg, Prod.mk.injEq] at hr
        exact ⟨hr.2.2.1, hr.2.2.2.2.2.1⟩
    refine ⟨⟨g, hfs.seg.trans hg, by rw [hfs.skel, hE]; exact hK⟩, ?_⟩
    rw [hA.1, hA.2]
    intro k hk
    simp only [enableReg, List.mem_append, List.mem_eraseDups, List.mem_filter, Bool.and_eq_true,
      List.contains_eq_mem, decide_eq_true_eq] at hk
    rcases hk with hk | hk
    · exact hact k hk
    · exact hk.2.1

theorem str_disable {s s' : St} {ks : List Key} (hS : Str s) (h : s.disable ks = some s') : Str s' := by
  obtain ⟨⟨g, hg, hK⟩, hact⟩ := hS
  unfold St.disable at h
  split at h
  · cases h
  · injection h with h
    subst h
    exact ⟨⟨g, hg, hK⟩, fun k hk => hact k (List.mem_filter.1 hk).1⟩

theorem closedStr : Closed Str PrimPre (fun _ _ _ => True) (fun _ _ => True) where
  prim := fun hJ hp h => str_prim hJ hp h
  enable := fun hJ _ h => str_enable hJ h
  disable := fun hJ _ h => str_disable hJ h

end Ft.R6P
