/-
  Helper lemmas for the label utilities (properties C19, C13).
  Also the SPECIFICATION-side relation `SameSeg` ("same unbranched track segment").
-/
import FtModel.Labels
namespace Ft.Labels

/-! ### pixels -/

theorem px_eq_some {a : Arr} {i p x : Nat} :
    px a i p = some x ↔ ∃ f, a[i]? = some f ∧ f[p]? = some x := by
  unfold px
  cases h : a[i]? <;> simp

theorem px_of_frame {a b : Arr} {i : Nat} {g : Nat → Nat}
    (h : b[i]? = (a[i]?).map (fun f => f.map g)) (p : Nat) :
    px b i p = (px a i p).map g := by
  unfold px
  rw [h]
  cases a[i]? with
  | none => rfl
  | some f => simp [List.getElem?_map]

/-! ### ensure_unique_labels -/

theorem foldl_max_ge_init (f : List Nat) (a : Nat) : a ≤ f.foldl max a := by
  induction f generalizing a with
  | nil => exact Nat.le_refl _
  | cons x xs ih => exact Nat.le_trans (Nat.le_max_left a x) (ih (max a x))

theorem foldl_max_ge_mem (f : List Nat) (a x : Nat) (h : x ∈ f) : x ≤ f.foldl max a := by
  induction f generalizing a with
  | nil => cases h
  | cons y ys ih =>
    rcases List.mem_cons.mp h with rfl | h'
    · exact Nat.le_trans (Nat.le_max_right a x) (foldl_max_ge_init ys (max a x))
    · exact ih (max a y) h'

theorem le_frameMax {f : Frame} {x : Nat} (h : x ∈ f) : x ≤ frameMax f :=
  foldl_max_ge_mem f 0 x h

theorem shiftFrame_gt {c : Nat} {f : Frame} {y : Nat} (h : y ∈ shiftFrame c f) (hy : y ≠ 0) :
    c < y := by
  unfold shiftFrame at h
  rcases List.mem_map.mp h with ⟨x, _, rfl⟩
  by_cases hx : x = 0
  · simp [hx] at hy
  · simp [hx]; omega

/-- every non-zero label produced by the loop exceeds the incoming running maximum -/
theorem euGo_gt (a : Arr) (c i : Nat) (fo : Frame) (y : Nat)
    (h : (euGo c a)[i]? = some fo) (hy : y ∈ fo) (h0 : y ≠ 0) : c < y := by
  induction a generalizing c i with
  | nil => simp [euGo] at h
  | cons f fs ih =>
    cases i with
    | zero =>
      simp [euGo] at h
      subst h
      exact shiftFrame_gt hy h0
    | succ k =>
      simp [euGo] at h
      have := ih _ _ h
      omega

/-- labels strictly increase from earlier to later frames -/
theorem euGo_lt (a : Arr) (c i j : Nat) (fi fj : Frame) (x y : Nat) (hij : i < j)
    (hi : (euGo c a)[i]? = some fi) (hj : (euGo c a)[j]? = some fj)
    (hx : x ∈ fi) (hy : y ∈ fj) (y0 : y ≠ 0) : x < y := by
  induction a generalizing c i j with
  | nil => simp [euGo] at hi
  | cons f fs ih =>
    cases j with
    | zero => omega
    | succ j' =>
      simp [euGo] at hj
      cases i with
      | zero =>
        simp [euGo] at hi
        subst hi
        have h1 := euGo_gt fs _ j' fj y hj hy y0
        have h2 := le_frameMax hx
        omega
      | succ i' =>
        simp [euGo] at hi
        exact ih _ i' j' (by omega) hi hj

/-- each output frame is the input frame shifted by one per-frame constant -/
theorem euGo_frame (a : Arr) (c i : Nat) :
    ∃ c', (euGo c a)[i]? = (a[i]?).map (fun f => f.map (fun x => if x ≠ 0 then x + c' else x)) := by
  induction a generalizing c i with
  | nil => exact ⟨0, by simp [euGo]⟩
  | cons f fs ih =>
    cases i with
    | zero => exact ⟨c, by simp [euGo, shiftFrame]⟩
    | succ k =>
      obtain ⟨c', h⟩ := ih (max c (frameMax (shiftFrame c f))) k
      exact ⟨c', by simpa [euGo] using h⟩

theorem euGo_length (a : Arr) (c : Nat) : (euGo c a).length = a.length := by
  induction a generalizing c with
  | nil => rfl
  | cons f fs ih => simp [euGo, ih]

theorem flatten_chunk {α} (lens : List Nat) (xs : List α) (h : xs.length = lens.sum) :
    (chunk lens xs).flatten = xs := by
  induction lens generalizing xs with
  | nil =>
    simp at h
    simp [chunk, h]
  | cons n ns ih =>
    simp [chunk]
    have : (xs.drop n).length = ns.sum := by simp [List.length_drop, h]
    rw [ih _ this, List.take_append_drop]

/-! ### masked assignment -/

theorem px_applyWrites (orig : Arr) (ws : List W) (i p : Nat) :
    px (applyWrites orig ws) i p = (px orig i p).map (fun o => pxWrite i o ws) := by
  unfold px applyWrites
  rw [List.getElem?_mapIdx]
  cases orig[i]? with
  | none => rfl
  | some f => simp [List.getElem?_map]

theorem px_applyWritesChained (orig : Arr) (ws : List W) (i p : Nat) :
    px (applyWritesChained orig ws) i p = (px orig i p).map (fun o => pxWriteChained i o ws) := by
  unfold px applyWritesChained
  rw [List.getElem?_mapIdx]
  cases orig[i]? with
  | none => rfl
  | some f => simp [List.getElem?_map]

def wstep (i o : Nat) (x : Nat) (w : W) : Nat := if w.t = i ∧ o = w.sid then w.v else x

theorem pxWrite_eq (i o : Nat) (ws : List W) : pxWrite i o ws = ws.foldl (wstep i o) 0 := rfl

/-- no write touches the pixel: the value is kept -/
theorem foldl_wstep_none (i o : Nat) (ws : List W) (x : Nat)
    (h : ∀ w ∈ ws, ¬ (w.t = i ∧ o = w.sid)) : ws.foldl (wstep i o) x = x := by
  induction ws generalizing x with
  | nil => rfl
  | cons w ws ih =>
    have hw := h w (List.mem_cons_self ..)
    simp only [List.foldl_cons, wstep, hw, if_false]
    exact ih x (fun w' hw' => h w' (List.mem_cons_of_mem _ hw'))

/-- already `v`, and every write touching the pixel writes `v` -/
theorem foldl_wstep_keep (i o v : Nat) (ws : List W)
    (h : ∀ w ∈ ws, w.t = i ∧ o = w.sid → w.v = v) : ws.foldl (wstep i o) v = v := by
  induction ws with
  | nil => rfl
  | cons w ws ih =>
    have hw := h w (List.mem_cons_self ..)
    have hrest : ∀ w' ∈ ws, w'.t = i ∧ o = w'.sid → w'.v = v :=
      fun w' hw' => h w' (List.mem_cons_of_mem _ hw')
    simp only [List.foldl_cons, wstep]
    by_cases hm : w.t = i ∧ o = w.sid
    · rw [if_pos hm, hw hm]; exact ih hrest
    · rw [if_neg hm]; exact ih hrest

/-- some write touches the pixel, and all that do write `v` -/
theorem foldl_wstep_some (i o v : Nat) (ws : List W) (x : Nat)
    (hex : ∃ w ∈ ws, w.t = i ∧ o = w.sid)
    (h : ∀ w ∈ ws, w.t = i ∧ o = w.sid → w.v = v) : ws.foldl (wstep i o) x = v := by
  induction ws generalizing x with
  | nil => obtain ⟨w, hw, _⟩ := hex; cases hw
  | cons w ws ih =>
    have hrest : ∀ w' ∈ ws, w'.t = i ∧ o = w'.sid → w'.v = v :=
      fun w' hw' => h w' (List.mem_cons_of_mem _ hw')
    simp only [List.foldl_cons, wstep]
    by_cases hm : w.t = i ∧ o = w.sid
    · rw [if_pos hm, h w (List.mem_cons_self ..) hm]
      exact foldl_wstep_keep i o v ws hrest
    · rw [if_neg hm]
      obtain ⟨w', hw', hm'⟩ := hex
      rcases List.mem_cons.mp hw' with rfl | hw''
      · exact absurd hm' hm
      · exact ih x ⟨w', hw'', hm'⟩ hrest

/-! ### first occurrences -/

theorem mem_dedup {l : List Nat} {x : Nat} : x ∈ dedup l ↔ x ∈ l := by
  induction l with
  | nil => simp [dedup]
  | cons y ys ih =>
    simp only [dedup, List.mem_cons, List.mem_filter, ih]
    constructor
    · rintro (h | ⟨h, _⟩)
      · exact Or.inl h
      · exact Or.inr h
    · intro h
      by_cases hxy : x = y
      · exact Or.inl hxy
      · rcases h with h | h
        · exact absurd h hxy
        · exact Or.inr ⟨h, by simpa using hxy⟩

theorem nodup_dedup (l : List Nat) : (dedup l).Nodup := by
  induction l with
  | nil => simp [dedup]
  | cons y ys ih =>
    simp only [dedup, List.nodup_cons]
    refine ⟨?_, ?_⟩
    · simp [List.mem_filter]
    · exact List.Nodup.sublist List.filter_sublist ih

theorem mem_insertNat {x y : Nat} {l : List Nat} : y ∈ insertNat x l ↔ y = x ∨ y ∈ l := by
  induction l with
  | nil => simp [insertNat]
  | cons z zs ih =>
    simp only [insertNat]
    split
    · simp
    · simp only [List.mem_cons, ih]
      constructor
      · rintro (h | h | h)
        · exact Or.inr (Or.inl h)
        · exact Or.inl h
        · exact Or.inr (Or.inr h)
      · rintro (h | h | h)
        · exact Or.inr (Or.inl h)
        · exact Or.inl h
        · exact Or.inr (Or.inr h)

theorem mem_sortNat {y : Nat} {l : List Nat} : y ∈ sortNat l ↔ y ∈ l := by
  induction l with
  | nil => simp [sortNat]
  | cons z zs ih =>
    have : sortNat (z :: zs) = insertNat z (sortNat zs) := rfl
    rw [this, mem_insertNat, ih, List.mem_cons]

/-! ### components of the pruned graph -/

/-- specification: same unbranched segment = connected (ignoring direction) through edges
    whose source does not divide -/
inductive SameSeg (es : List (Nat × Nat)) : Nat → Nat → Prop
  | refl (n : Nat) : SameSeg es n n
  | step {u v : Nat} : (u, v) ∈ pruned es → SameSeg es u v
  | symm {n m : Nat} : SameSeg es n m → SameSeg es m n
  | trans {n m k : Nat} : SameSeg es n m → SameSeg es m k → SameSeg es n k

/-- function-level version of `mergeL` -/
def mergeF (c : Nat → Nat) (e : Nat × Nat) : Nat → Nat :=
  fun n => if c n = c e.2 then c e.1 else c n

def runF (c : Nat → Nat) (es : List (Nat × Nat)) : Nat → Nat := es.foldl mergeF c

/-- connectivity relative to an initial class function `c` and an edge list -/
inductive Conn (c : Nat → Nat) (es : List (Nat × Nat)) : Nat → Nat → Prop
  | base {n m : Nat} : c n = c m → Conn c es n m
  | edge {u v : Nat} : (u, v) ∈ es → Conn c es u v
  | symm {n m : Nat} : Conn c es n m → Conn c es m n
  | trans {n m k : Nat} : Conn c es n m → Conn c es m k → Conn c es n k

theorem conn_merge_iff (c : Nat → Nat) (e : Nat × Nat) (es : List (Nat × Nat)) (n m : Nat) :
    Conn (mergeF c e) es n m ↔ Conn c (e :: es) n m := by
  constructor
  · intro h
    induction h with
    | @base n m hb =>
      have hev : Conn c (e :: es) e.1 e.2 := Conn.edge (List.mem_cons_self ..)
      unfold mergeF at hb
      by_cases hn : c n = c e.2 <;> by_cases hm : c m = c e.2
      · exact Conn.trans (Conn.base hn) (Conn.symm (Conn.base hm))
      · rw [if_pos hn, if_neg hm] at hb
        exact Conn.trans (Conn.base hn) (Conn.trans (Conn.symm hev) (Conn.base hb))
      · rw [if_neg hn, if_pos hm] at hb
        exact Conn.trans (Conn.base hb) (Conn.trans hev (Conn.symm (Conn.base hm)))
      · rw [if_neg hn, if_neg hm] at hb
        exact Conn.base hb
    | edge he => exact Conn.edge (List.mem_cons_of_mem _ he)
    | symm _ ih => exact Conn.symm ih
    | trans _ _ ih1 ih2 => exact Conn.trans ih1 ih2
  · intro h
    induction h with
    | @base n m hb =>
      apply Conn.base
      unfold mergeF
      rw [hb]
    | @edge u v he =>
      rcases List.mem_cons.mp he with h | h
      · apply Conn.base
        subst h
        unfold mergeF
        simp
      · exact Conn.edge h
    | symm _ ih => exact Conn.symm ih
    | trans _ _ ih1 ih2 => exact Conn.trans ih1 ih2

theorem conn_nil (c : Nat → Nat) (n m : Nat) : Conn c [] n m ↔ c n = c m := by
  constructor
  · intro h
    induction h with
    | base hb => exact hb
    | edge he => cases he
    | symm _ ih => exact ih.symm
    | trans _ _ ih1 ih2 => exact ih1.trans ih2
  · exact Conn.base

/-- the merging loop computes exactly the connectivity classes -/
theorem runF_iff (c : Nat → Nat) (es : List (Nat × Nat)) (n m : Nat) :
    runF c es n = runF c es m ↔ Conn c es n m := by
  induction es generalizing c with
  | nil => exact (conn_nil c n m).symm
  | cons e es ih =>
    have : runF c (e :: es) = runF (mergeF c e) es := rfl
    rw [this, ih, conn_merge_iff]

theorem conn_id_iff_sameSeg (es : List (Nat × Nat)) (n m : Nat) :
    Conn id (pruned es) n m ↔ SameSeg es n m := by
  constructor
  · intro h
    induction h with
    | base hb => cases hb; exact SameSeg.refl _
    | edge he => exact SameSeg.step he
    | symm _ ih => exact SameSeg.symm ih
    | trans _ _ ih1 ih2 => exact SameSeg.trans ih1 ih2
  · intro h
    induction h with
    | refl n => exact Conn.base rfl
    | step he => exact Conn.edge he
    | symm _ ih => exact Conn.symm ih
    | trans _ _ ih1 ih2 => exact Conn.trans ih1 ih2

theorem alook_tab (ids : List Nat) (c : Nat → Nat) (u : Nat) (hu : u ∈ ids) :
    alook u (ids.map (fun n => (n, c n))) = some (c u) := by
  induction ids with
  | nil => cases hu
  | cons x xs ih =>
    simp only [List.map_cons, alook]
    by_cases hx : x = u
    · subst hx; simp
    · have : (x == u) = false := by simpa using hx
      rw [this]
      rcases List.mem_cons.mp hu with h | h
      · exact absurd h.symm hx
      · simpa using ih h

theorem mergeL_tab (ids : List Nat) (c : Nat → Nat) (e : Nat × Nat)
    (h1 : e.1 ∈ ids) (h2 : e.2 ∈ ids) :
    mergeL (ids.map (fun n => (n, c n))) e = ids.map (fun n => (n, mergeF c e n)) := by
  unfold mergeL
  rw [alook_tab ids c e.1 h1, alook_tab ids c e.2 h2]
  simp [mergeF, List.map_map, Function.comp_def]

/-- the list-level loop tabulates the function-level loop -/
theorem foldl_mergeL_tab (ids : List Nat) (es : List (Nat × Nat)) (c : Nat → Nat)
    (h : ∀ e ∈ es, e.1 ∈ ids ∧ e.2 ∈ ids) :
    es.foldl mergeL (ids.map (fun n => (n, c n))) = ids.map (fun n => (n, runF c es n)) := by
  induction es generalizing c with
  | nil => rfl
  | cons e es ih =>
    have he := h e (List.mem_cons_self ..)
    simp only [List.foldl_cons]
    rw [mergeL_tab ids c e he.1 he.2, ih _ (fun e' he' => h e' (List.mem_cons_of_mem _ he'))]
    rfl

theorem classOf_classes (ids : List Nat) (es : List (Nat × Nat))
    (h : ∀ e ∈ es, e.1 ∈ ids ∧ e.2 ∈ ids) (n : Nat) (hn : n ∈ ids) :
    classOf (classes ids es) n = runF id es n := by
  unfold classOf classes
  have : ids.map (fun n => (n, n)) = ids.map (fun n => (n, id n)) := rfl
  rw [this, foldl_mergeL_tab ids es id h, alook_tab ids _ n hn]
  rfl

theorem pruned_sub {es : List (Nat × Nat)} {e : Nat × Nat} (h : e ∈ pruned es) : e ∈ es :=
  (List.mem_filter.mp h).1

/-- executable class ids decide `SameSeg` -/
theorem classOf_eq_iff_sameSeg (ids : List Nat) (es : List (Nat × Nat))
    (h : ∀ e ∈ es, e.1 ∈ ids ∧ e.2 ∈ ids) (n m : Nat) (hn : n ∈ ids) (hm : m ∈ ids) :
    classOf (classes ids (pruned es)) n = classOf (classes ids (pruned es)) m ↔ SameSeg es n m := by
  have hp : ∀ e ∈ pruned es, e.1 ∈ ids ∧ e.2 ∈ ids := fun e he => h e (pruned_sub he)
  rw [classOf_classes ids _ hp n hn, classOf_classes ids _ hp m hm, runF_iff, conn_id_iff_sameSeg]

/-! ### the id counter -/

/-- value of `id_counter` when component `k` is processed -/
def pos (k : Nat) : List Nat → Nat → Nat
  | [], c => c
  | k' :: ks, c => if k = k' then c else pos k ks (c + 1)

theorem pos_ge (k : Nat) (ks : List Nat) (c : Nat) : c ≤ pos k ks c := by
  induction ks generalizing c with
  | nil => exact Nat.le_refl _
  | cons k' ks ih =>
    unfold pos
    split
    · exact Nat.le_refl _
    · exact Nat.le_trans (Nat.le_succ c) (ih (c + 1))

theorem pos_inj (k k' : Nat) (ks : List Nat) (c : Nat) (hk : k ∈ ks) (hk' : k' ∈ ks) :
    pos k ks c = pos k' ks c ↔ k = k' := by
  induction ks generalizing c with
  | nil => cases hk
  | cons k0 ks ih =>
    unfold pos
    by_cases h1 : k = k0 <;> by_cases h2 : k' = k0
    · simp [h1, h2]
    · rw [if_pos h1, if_neg h2]
      have := pos_ge k' ks (c + 1)
      constructor
      · intro h; omega
      · intro h; exact absurd (h ▸ h1) h2
    · rw [if_neg h1, if_pos h2]
      have := pos_ge k ks (c + 1)
      constructor
      · intro h; omega
      · intro h; exact absurd (h ▸ h2) h1
    · rw [if_neg h1, if_neg h2]
      have hk1 : k ∈ ks := by
        rcases List.mem_cons.mp hk with h | h
        · exact absurd h h1
        · exact h
      have hk2 : k' ∈ ks := by
        rcases List.mem_cons.mp hk' with h | h
        · exact absurd h h2
        · exact h
      exact ih (c + 1) hk1 hk2

theorem mem_compWrites_of (nodes : List SNode) (cl : List (Nat × Nat)) (order : List Nat) (c : Nat)
    (n : SNode) (hn : n ∈ nodes) (hk : classOf cl n.id ∈ order) :
    nodeW (pos (classOf cl n.id) order c) n ∈ compWrites nodes cl order c := by
  induction order generalizing c with
  | nil => cases hk
  | cons k ks ih =>
    simp only [compWrites, List.mem_append, List.mem_map, List.mem_filter]
    unfold pos
    by_cases h : classOf cl n.id = k
    · rw [if_pos h]
      exact Or.inl ⟨n, ⟨hn, by simpa using h⟩, rfl⟩
    · rw [if_neg h]
      rcases List.mem_cons.mp hk with h' | h'
      · exact absurd h' h
      · exact Or.inr (ih (c + 1) h')

theorem of_mem_compWrites (nodes : List SNode) (cl : List (Nat × Nat)) (order : List Nat) (c : Nat)
    (hnd : order.Nodup) (w : W) (hw : w ∈ compWrites nodes cl order c) :
    ∃ n ∈ nodes, classOf cl n.id ∈ order ∧ w = nodeW (pos (classOf cl n.id) order c) n := by
  induction order generalizing c with
  | nil => simp [compWrites] at hw
  | cons k ks ih =>
    simp only [compWrites, List.mem_append, List.mem_map, List.mem_filter] at hw
    have ⟨hk, hks⟩ := List.nodup_cons.mp hnd
    rcases hw with ⟨n, ⟨hn, hc⟩, rfl⟩ | hw
    · have hc' : classOf cl n.id = k := by simpa using hc
      refine ⟨n, hn, by rw [hc']; exact List.mem_cons_self .., ?_⟩
      unfold pos
      rw [if_pos hc']
    · obtain ⟨n, hn, hmem, rfl⟩ := ih (c + 1) hks hw
      refine ⟨n, hn, List.mem_cons_of_mem _ hmem, ?_⟩
      have hne : classOf cl n.id ≠ k := fun h => hk (h ▸ hmem)
      conv => rhs; unfold pos
      rw [if_neg hne]

/-! ### relabel_segmentation_with_track_id: value of one pixel -/

theorem solOK_node {T : Nat} {g : Sol} (hok : solOK T g = true) {n : SNode}
    (hn : n ∈ g.nodes) : ∃ t s, n.time = some t ∧ n.seg = some s ∧ t < T := by
  unfold solOK at hok
  have := List.all_eq_true.mp hok n hn
  cases ht : n.time <;> cases hs : n.seg <;> simp [ht, hs] at this
  exact ⟨_, _, rfl, rfl, this⟩

theorem track_pixel (g : Sol) (orig : Arr) (hends : ∀ e ∈ g.edges, e.1 ∈ g.ids ∧ e.2 ∈ g.ids)
    (hok : solOK orig.length g = true)
    (hdist : ∀ n ∈ g.nodes, ∀ m ∈ g.nodes, n.time = m.time → n.seg = m.seg → n = m)
    (i o : Nat) :
    (∀ n ∈ g.nodes, n.time = some i → n.seg = some o →
        pxWrite i o (trackWrites g) =
          pos (classOf (classes g.ids (pruned g.edges)) n.id)
            (compOrder g.ids (classes g.ids (pruned g.edges))) 1) ∧
    ((∀ n ∈ g.nodes, ¬ (n.time = some i ∧ n.seg = some o)) → pxWrite i o (trackWrites g) = 0) := by
  have _ := hends
  have key : ∀ w ∈ trackWrites g, w.t = i ∧ o = w.sid →
      ∃ m ∈ g.nodes, m.time = some i ∧ m.seg = some o ∧
        w.v = pos (classOf (classes g.ids (pruned g.edges)) m.id)
          (compOrder g.ids (classes g.ids (pruned g.edges))) 1 := by
    intro w hw hm
    obtain ⟨m, hmn, _, rfl⟩ := of_mem_compWrites _ _ _ 1 (nodup_dedup _) w hw
    obtain ⟨t, s, ht, hs, _⟩ := solOK_node hok hmn
    simp only [nodeW, ht, hs, Option.getD_some] at hm
    exact ⟨m, hmn, by rw [ht, hm.1], by rw [hs, hm.2], rfl⟩
  constructor
  · intro n hn ht hs
    rw [pxWrite_eq]
    apply foldl_wstep_some
    · refine ⟨_, mem_compWrites_of g.nodes _ _ 1 n hn ?_, ?_⟩
      · unfold compOrder
        rw [mem_dedup]
        exact List.mem_map.mpr ⟨n.id, List.mem_map.mpr ⟨n, hn, rfl⟩, rfl⟩
      · simp [nodeW, ht, hs]
    · intro w hw hm
      obtain ⟨m, hmn, hmt, hms, hv⟩ := key w hw hm
      have : m = n := hdist m hmn n hn (by rw [hmt, ht]) (by rw [hms, hs])
      rw [hv, this]
  · intro hno
    rw [pxWrite_eq]
    apply foldl_wstep_none
    intro w hw hm
    obtain ⟨m, hmn, hmt, hms, _⟩ := key w hw hm
    exact hno m hmn ⟨hmt, hms⟩

/-! ### dict(zip(...)) -/

theorem mem_aset {k v : Nat} {d : List (Nat × Nat)} {p : Nat × Nat} (h : p ∈ aset k v d) :
    p = (k, v) ∨ p ∈ d := by
  induction d with
  | nil => simp [aset] at h; exact Or.inl h
  | cons q qs ih =>
    obtain ⟨k', v'⟩ := q
    simp only [aset] at h
    split at h
    · rcases List.mem_cons.mp h with h | h
      · exact Or.inl h
      · exact Or.inr (List.mem_cons_of_mem _ h)
    · rcases List.mem_cons.mp h with h | h
      · exact Or.inr (h ▸ List.mem_cons_self ..)
      · rcases ih h with h | h
        · exact Or.inl h
        · exact Or.inr (List.mem_cons_of_mem _ h)

theorem key_aset_self (k v : Nat) (d : List (Nat × Nat)) : ∃ v', (k, v') ∈ aset k v d := by
  induction d with
  | nil => exact ⟨v, by simp [aset]⟩
  | cons q qs ih =>
    obtain ⟨k', v'⟩ := q
    simp only [aset]
    split
    · exact ⟨v, List.mem_cons_self ..⟩
    · obtain ⟨v'', h⟩ := ih
      exact ⟨v'', List.mem_cons_of_mem _ h⟩

theorem key_aset_keep (k v k0 v0 : Nat) (d : List (Nat × Nat)) (h : (k0, v0) ∈ d) :
    ∃ v', (k0, v') ∈ aset k v d := by
  induction d with
  | nil => cases h
  | cons q qs ih =>
    obtain ⟨k', v'⟩ := q
    simp only [aset]
    split
    · rename_i hkk
      rcases List.mem_cons.mp h with h | h
      · have : k0 = k := by
          have h1 : k0 = k' := (Prod.mk.inj h).1
          have h2 : k' = k := by simpa using hkk
          exact h1.trans h2
        exact ⟨v, by rw [this]; exact List.mem_cons_self ..⟩
      · exact ⟨v0, List.mem_cons_of_mem _ h⟩
    · rcases List.mem_cons.mp h with h | h
      · exact ⟨v0, h ▸ List.mem_cons_self ..⟩
      · obtain ⟨v'', h'⟩ := ih h
        exact ⟨v'', List.mem_cons_of_mem _ h'⟩

theorem foldl_aset_sub (kvs d : List (Nat × Nat)) (p : Nat × Nat)
    (h : p ∈ kvs.foldl (fun d kv => aset kv.1 kv.2 d) d) : p ∈ d ∨ p ∈ kvs := by
  induction kvs generalizing d with
  | nil => exact Or.inl h
  | cons kv kvs ih =>
    simp only [List.foldl_cons] at h
    rcases ih _ h with h | h
    · rcases mem_aset h with h | h
      · exact Or.inr (h ▸ List.mem_cons_self ..)
      · exact Or.inl h
    · exact Or.inr (List.mem_cons_of_mem _ h)

theorem foldl_aset_key (kvs d : List (Nat × Nat)) (k : Nat)
    (h : (∃ v, (k, v) ∈ d) ∨ (∃ v, (k, v) ∈ kvs)) :
    ∃ v, (k, v) ∈ kvs.foldl (fun d kv => aset kv.1 kv.2 d) d := by
  induction kvs generalizing d with
  | nil =>
    rcases h with h | ⟨v, h⟩
    · exact h
    · cases h
  | cons kv kvs ih =>
    simp only [List.foldl_cons]
    apply ih
    rcases h with ⟨v, h⟩ | ⟨v, h⟩
    · exact Or.inl (key_aset_keep kv.1 kv.2 k v d h)
    · rcases List.mem_cons.mp h with h | h
      · left
        have : kv.1 = k := by rw [← h]
        rw [← this]
        exact key_aset_self kv.1 kv.2 d
      · exact Or.inr ⟨v, h⟩

theorem dictOf_sub {kvs : List (Nat × Nat)} {p : Nat × Nat} (h : p ∈ dictOf kvs) : p ∈ kvs := by
  rcases foldl_aset_sub kvs [] p h with h | h
  · cases h
  · exact h

theorem dictOf_key {kvs : List (Nat × Nat)} {k v : Nat} (h : (k, v) ∈ kvs) :
    ∃ v', (k, v') ∈ dictOf kvs :=
  foldl_aset_key kvs [] k (Or.inr ⟨v, h⟩)

theorem mem_uniqTimes {rows : List Row} {t : Nat} :
    t ∈ uniqTimes rows ↔ ∃ r ∈ rows, r.time = t := by
  unfold uniqTimes
  rw [mem_dedup, mem_sortNat, List.mem_map]

theorem mem_segWrites {off : Nat} {rows : List Row} {w : W} :
    w ∈ segWrites off rows ↔
      ∃ t ∈ uniqTimes rows, ∃ kv ∈ dictOf (rowsAt off rows t), w = ⟨t, kv.1, kv.2⟩ := by
  unfold segWrites
  simp only [List.mem_flatMap, List.mem_map]
  constructor
  · rintro ⟨t, ht, kv, hkv, rfl⟩; exact ⟨t, ht, kv, hkv, rfl⟩
  · rintro ⟨t, ht, kv, hkv, rfl⟩; exact ⟨t, ht, kv, hkv, rfl⟩

theorem mem_rowsAt {off : Nat} {rows : List Row} {t : Nat} {kv : Nat × Nat} :
    kv ∈ rowsAt off rows t ↔ ∃ r ∈ rows, r.time = t ∧ kv = (r.seg, r.id + off) := by
  unfold rowsAt
  simp only [List.mem_map, List.mem_filter]
  constructor
  · rintro ⟨r, ⟨hr, ht⟩, rfl⟩; exact ⟨r, hr, by simpa using ht, rfl⟩
  · rintro ⟨r, hr, ht, rfl⟩; exact ⟨r, ⟨hr, by simpa using ht⟩, rfl⟩

theorem offsetOf_eq (rows : List Row) :
    offsetOf rows = if 0 ∈ rows.map (·.id) then 1 else 0 := by
  unfold offsetOf
  have : (rows.any (fun r => r.id == 0) = true) ↔ 0 ∈ rows.map (·.id) := by
    simp only [List.any_eq_true, List.mem_map]
    constructor
    · rintro ⟨r, hr, h⟩; exact ⟨r, hr, by simpa using h⟩
    · rintro ⟨r, hr, h⟩; exact ⟨r, hr, by simpa using h⟩
  by_cases h : 0 ∈ rows.map (·.id)
  · rw [if_pos h, if_pos (this.mpr h)]
  · rw [if_neg h, if_neg (fun hh => h (this.mp hh))]

end Ft.Labels
