/-
  FtProofs.R3DAccSwapLemmas — package R3D: the field `swapNested` of `Ft.R3D.RefusalHyps` holds.

  Once the five argument validations of `UserSwapPredecessors` have passed (both nodes exist, not
  both parentless, different parents, both new edges forward in time), the up to four nested user
  actions (`uDeleteEdge (p1, n1)`, `uDeleteEdge (p2, n2)`, `uAddEdge (p1, n2) false`,
  `uAddEdge (p2, n1) false`) are all accepted from a state with `Inv3 = Valid ∧ Good ∧ EdgeInv`.
  So a refused `uSwap` is a refusal by validation, which returns the input state.

  §1  `uAddEdge_accepts`: the acceptance condition of an unforced `uAddEdge` (converse of the
      refusal lemmas); `del_step` / `add_step`: acceptance + invariant + graph effect of one nested
      action.
  §2  `swapTail_accepts_*`: the three shapes (two parents, only `n1` has one, only `n2` has one).
  §3  `swapTail_accepts`, `uSwap_refused_eq`, `swapNested_holds`.
-/
import FtProofs.R3DHistLemmas

namespace Ft.R3D
open Ft Ft.St Ft.R2A1 Ft.R3P List

/-! ## §1 one nested action -/

/-- an unforced `uAddEdge (u, w)` is accepted from a state with the invariants when both nodes
    exist, the edge is forward in time, the target is parentless and the source has at most one
    child -/
theorem uAddEdge_accepts {st : St} (hI : R3B.Inv3 st) {u w : Node} (hu : u ∈ st.ids)
    (hw : w ∈ st.ids) (ht : st.tk_tm u < st.tk_tm w) (hroot : ∀ p, (p, w) ∉ st.edgeList)
    (hout : st.outdeg u ≤ 1) : ∃ recs, (st.uAddEdge (u, w) false).2 = .ok recs := by
  rw [tk_uAddEdge_eq]
  have h1 := tk_hasNode_iff.2 hu
  have h2 := tk_hasNode_iff.2 hw
  have h3 : ¬ (st.timeOf u).getD 0 ≥ (st.timeOf w).getD 0 := by unfold tk_tm at ht; omega
  simp only [h1, h2, h3, Bool.not_true, Bool.false_eq_true, if_false]
  have hin : ¬ st.indeg w > 0 := by
    have := tk_preds_nil_iff.2 hroot; omega
  have hhead : tk_addHead st (u, w) false = (st, .ok []) := by
    unfold tk_addHead; simp only [hin, if_false]
  rw [hhead]
  rcases R3B.addTail_total (a0 := (st, .ok [])) (e := (u, w)) (Run.start st) hI hu hw ht hroot with
    ⟨⟨recs, hok, _⟩, _⟩ | ⟨r0, _, h2', _⟩
  · exact ⟨recs, hok⟩
  · exfalso
    have h2'' : 2 ≤ st.outdeg u := h2'
    omega

/-- graph effect of an accepted `uDeleteEdge` -/
structure DelG (st : St) (e : Edge) (st' : St) : Prop where
  ids : st'.ids = st.ids
  tm : ∀ n, st'.tk_tm n = st.tk_tm n
  mem : ∀ x, x ∈ st'.edgeList ↔ (x ∈ st.edgeList ∧ x ≠ e)
  out_ne : ∀ q, q ≠ e.1 → st'.outdeg q = st.outdeg q
  out_src : st'.outdeg e.1 + 1 = st.outdeg e.1

/-- a nested `uDeleteEdge` of an existing edge: accepted, invariants again, graph effect -/
theorem del_step {st : St} (hI : R3B.Inv3 st) {u v : Node} (he : (u, v) ∈ st.edgeList) :
    ∃ recs, (st.uDeleteEdge (u, v)).2 = .ok recs ∧ R3B.Inv3 (st.uDeleteEdge (u, v)).1 ∧
      DelG st (u, v) (st.uDeleteEdge (u, v)).1 := by
  have hF := hI.valid.forest
  obtain ⟨recs, hok⟩ := R3B.uDeleteEdge_accepts hF he
  have G := (R2B.uDeleteEdge_sameG hok).2
  refine ⟨recs, hok, (R3B.uDeleteEdge_run hI hok).2, ?_⟩
  refine ⟨G.ids, fun n => tk_tm_congr G.time n, fun x => ?_, fun q hq => ?_, ?_⟩
  · rw [G.edgeList]; exact tk_mem_delE
  · rw [G.outdeg, tk_outdeg_delE_ne st hq]
  · rw [G.outdeg]; exact R3B.outdeg_delE_src hF.nodup_edges he

/-- a nested unforced `uAddEdge` under the acceptance condition: accepted, invariants again,
    graph effect -/
theorem add_step {st : St} (hI : R3B.Inv3 st) {u w : Node} (hu : u ∈ st.ids)
    (hw : w ∈ st.ids) (ht : st.tk_tm u < st.tk_tm w) (hroot : ∀ p, (p, w) ∉ st.edgeList)
    (hout : st.outdeg u ≤ 1) :
    ∃ recs, (st.uAddEdge (u, w) false).2 = .ok recs ∧ R3B.Inv3 (st.uAddEdge (u, w) false).1 ∧
      R2B.AddG st (u, w) (st.uAddEdge (u, w) false).1 := by
  obtain ⟨recs, hok⟩ := uAddEdge_accepts hI hu hw ht hroot hout
  exact ⟨recs, hok, (R3B.uAddEdge_run hI hok).2, R2B.uAddEdge_false_graph hok⟩

theorem thenUser_step {a : St} {r : List PrimRec} {f : St → UOut} {a' : St} {r' : List PrimRec}
    (h2 : (f a).2 = .ok r') (h1 : (f a).1 = a') :
    St.thenUser (a, .ok r) f = (a', .ok (r ++ r')) := by
  unfold St.thenUser
  simp only [h2, h1]

/-! ## §2 the three shapes of the nested part -/

/-- both nodes have a parent -/
theorem swapTail_accepts_ss {s : St} (hI : R3B.Inv3 s) {n1 n2 p1 p2 : Node}
    (he1 : (p1, n1) ∈ s.edgeList) (he2 : (p2, n2) ∈ s.edgeList) (hp : p1 ≠ p2)
    (ht1 : s.tk_tm p1 < s.tk_tm n2) (ht2 : s.tk_tm p2 < s.tk_tm n1) :
    ∃ recs, (R2G.swapTail s (some p1) (some p2) n1 n2).2 = .ok recs := by
  have hF := hI.valid.forest
  have hn : n1 ≠ n2 := fun h => hp (hF.par_unique he1 (by rw [h]; exact he2))
  have hu1 : p1 ∈ s.ids := hF.src_mem _ he1
  have hu2 : p2 ∈ s.ids := hF.src_mem _ he2
  have hv1 : n1 ∈ s.ids := hF.dst_mem _ he1
  have hv2 : n2 ∈ s.ids := hF.dst_mem _ he2
  -- delete (p1, n1)
  obtain ⟨r1, ok1, I1, D1⟩ := del_step hI he1
  obtain ⟨s1, hs1⟩ : ∃ s1, (s.uDeleteEdge (p1, n1)).1 = s1 := ⟨_, rfl⟩
  rw [hs1] at I1 D1
  have he2' : (p2, n2) ∈ s1.edgeList :=
    (D1.mem _).2 ⟨he2, fun h => hp (Prod.mk.inj h).1.symm⟩
  -- delete (p2, n2)
  obtain ⟨r2, ok2, I2, D2⟩ := del_step I1 he2'
  obtain ⟨s2, hs2⟩ : ∃ s2, (s1.uDeleteEdge (p2, n2)).1 = s2 := ⟨_, rfl⟩
  rw [hs2] at I2 D2
  have ids2 : s2.ids = s.ids := D2.ids.trans D1.ids
  have tm2 : ∀ n, s2.tk_tm n = s.tk_tm n := fun n => (D2.tm n).trans (D1.tm n)
  have root2 : ∀ q, (q, n2) ∉ s2.edgeList := by
    intro q hq
    obtain ⟨hq1, hq2⟩ := (D2.mem _).1 hq
    have hq0 := ((D1.mem _).1 hq1).1
    have : q = p2 := hF.par_unique hq0 he2
    subst this; exact hq2 rfl
  have out2 : s2.outdeg p1 ≤ 1 := by
    have a : s2.outdeg p1 = s1.outdeg p1 := D2.out_ne p1 hp
    have b : s1.outdeg p1 + 1 = s.outdeg p1 := D1.out_src
    have c := hF.outdeg_le p1
    omega
  -- add (p1, n2)
  obtain ⟨r3, ok3, I3, A3⟩ := add_step I2 (by rw [ids2]; exact hu1) (by rw [ids2]; exact hv2)
    (by rw [tm2, tm2]; exact ht1) root2 out2
  obtain ⟨s3, hs3⟩ : ∃ s3, (s2.uAddEdge (p1, n2) false).1 = s3 := ⟨_, rfl⟩
  rw [hs3] at I3 A3
  have ids3 : s3.ids = s.ids := A3.ids.trans ids2
  have tm3 : ∀ n, s3.tk_tm n = s.tk_tm n := fun n => (tk_tm_congr A3.time n).trans (tm2 n)
  have root3 : ∀ q, (q, n1) ∉ s3.edgeList := by
    intro q hq
    rcases (A3.mem _).1 hq with hq | hq
    · obtain ⟨hq1, -⟩ := (D2.mem _).1 hq
      obtain ⟨hq0, hq2⟩ := (D1.mem _).1 hq1
      have : q = p1 := hF.par_unique hq0 he1
      subst this; exact hq2 rfl
    · exact hn (Prod.mk.inj hq).2
  have out3 : s3.outdeg p2 ≤ 1 := by
    have a : s3.outdeg p2 = s2.outdeg p2 := A3.outdeg_ne (p := p2) (Ne.symm hp)
    have b : s2.outdeg p2 + 1 = s1.outdeg p2 := D2.out_src
    have c : s1.outdeg p2 = s.outdeg p2 := D1.out_ne p2 (Ne.symm hp)
    have d := hF.outdeg_le p2
    omega
  -- add (p2, n1)
  obtain ⟨r4, ok4, -, -⟩ := add_step I3 (by rw [ids3]; exact hu2) (by rw [ids3]; exact hv1)
    (by rw [tm3, tm3]; exact ht2) root3 out3
  have E1 := thenUser_step (r := []) (f := fun st => st.uDeleteEdge (p1, n1)) ok1 hs1
  have E2 := thenUser_step (r := [] ++ r1) (f := fun st => st.uDeleteEdge (p2, n2)) ok2 hs2
  have E3 := thenUser_step (r := [] ++ r1 ++ r2) (f := fun st => st.uAddEdge (p1, n2) false) ok3 hs3
  have E4 := thenUser_step (r := [] ++ r1 ++ r2 ++ r3) (f := fun st => st.uAddEdge (p2, n1) false)
    ok4 rfl
  refine ⟨[] ++ r1 ++ r2 ++ r3 ++ r4, ?_⟩
  unfold R2G.swapTail
  simp only []
  rw [E1, E2, E3, E4]

/-- only `n1` has a parent -/
theorem swapTail_accepts_sn {s : St} (hI : R3B.Inv3 s) {n1 n2 p1 : Node}
    (he1 : (p1, n1) ∈ s.edgeList) (hv2 : n2 ∈ s.ids) (hroot : ∀ q, (q, n2) ∉ s.edgeList)
    (ht1 : s.tk_tm p1 < s.tk_tm n2) :
    ∃ recs, (R2G.swapTail s (some p1) none n1 n2).2 = .ok recs := by
  have hF := hI.valid.forest
  have hu1 : p1 ∈ s.ids := hF.src_mem _ he1
  obtain ⟨r1, ok1, I1, D1⟩ := del_step hI he1
  obtain ⟨s1, hs1⟩ : ∃ s1, (s.uDeleteEdge (p1, n1)).1 = s1 := ⟨_, rfl⟩
  rw [hs1] at I1 D1
  have root1 : ∀ q, (q, n2) ∉ s1.edgeList := fun q hq => hroot q ((D1.mem _).1 hq).1
  have out1 : s1.outdeg p1 ≤ 1 := by
    have b : s1.outdeg p1 + 1 = s.outdeg p1 := D1.out_src
    have c := hF.outdeg_le p1
    omega
  obtain ⟨r3, ok3, -, -⟩ := add_step I1 (by rw [D1.ids]; exact hu1) (by rw [D1.ids]; exact hv2)
    (by rw [D1.tm, D1.tm]; exact ht1) root1 out1
  have E1 := thenUser_step (r := []) (f := fun st => st.uDeleteEdge (p1, n1)) ok1 hs1
  have E3 := thenUser_step (r := [] ++ r1) (f := fun st => st.uAddEdge (p1, n2) false) ok3 rfl
  refine ⟨[] ++ r1 ++ r3, ?_⟩
  unfold R2G.swapTail
  simp only []
  rw [E1, E3]

/-- only `n2` has a parent -/
theorem swapTail_accepts_ns {s : St} (hI : R3B.Inv3 s) {n1 n2 p2 : Node}
    (he2 : (p2, n2) ∈ s.edgeList) (hv1 : n1 ∈ s.ids) (hroot : ∀ q, (q, n1) ∉ s.edgeList)
    (ht2 : s.tk_tm p2 < s.tk_tm n1) :
    ∃ recs, (R2G.swapTail s none (some p2) n1 n2).2 = .ok recs := by
  have hF := hI.valid.forest
  have hu2 : p2 ∈ s.ids := hF.src_mem _ he2
  obtain ⟨r2, ok2, I2, D2⟩ := del_step hI he2
  obtain ⟨s2, hs2⟩ : ∃ s2, (s.uDeleteEdge (p2, n2)).1 = s2 := ⟨_, rfl⟩
  rw [hs2] at I2 D2
  have root2 : ∀ q, (q, n1) ∉ s2.edgeList := fun q hq => hroot q ((D2.mem _).1 hq).1
  have out2 : s2.outdeg p2 ≤ 1 := by
    have b : s2.outdeg p2 + 1 = s.outdeg p2 := D2.out_src
    have c := hF.outdeg_le p2
    omega
  obtain ⟨r4, ok4, -, -⟩ := add_step I2 (by rw [D2.ids]; exact hu2) (by rw [D2.ids]; exact hv1)
    (by rw [D2.tm, D2.tm]; exact ht2) root2 out2
  have E2 := thenUser_step (r := []) (f := fun st => st.uDeleteEdge (p2, n2)) ok2 hs2
  have E4 := thenUser_step (r := [] ++ r2) (f := fun st => st.uAddEdge (p2, n1) false) ok4 rfl
  refine ⟨[] ++ r2 ++ r4, ?_⟩
  unfold R2G.swapTail
  simp only []
  rw [E2, E4]

/-! ## §3 the nested part of `uSwap` is always accepted -/

theorem root_of_head_none {s : St} {n : Node} (h : (s.preds n).head? = none) :
    ∀ q, (q, n) ∉ s.edgeList := by
  intro q hq
  have hm := tk_mem_preds.2 hq
  rw [List.head?_eq_none_iff] at h
  rw [h] at hm; cases hm

theorem edge_of_head_some {s : St} {n p : Node} (h : (s.preds n).head? = some p) :
    (p, n) ∈ s.edgeList := tk_mem_preds.1 (List.mem_of_head? h)

/-- **after the five argument validations of `UserSwapPredecessors` the nested actions are all
    accepted** (from a state with `Valid ∧ Good ∧ EdgeInv`) -/
theorem swapTail_accepts {s : St} (hI : R3B.Inv3 s) {n1 n2 : Node} (h1 : n1 ∈ s.ids)
    (h2 : n2 ∈ s.ids)
    (c2 : ¬ ((s.preds n1).head?.isNone && (s.preds n2).head?.isNone) = true)
    (c3 : ¬ ((s.preds n1).head? == (s.preds n2).head?) = true)
    (c4 : ¬ R2G.swapBad s (s.preds n1).head? ((s.timeOf n2).getD 0) = true)
    (c5 : ¬ R2G.swapBad s (s.preds n2).head? ((s.timeOf n1).getD 0) = true) :
    ∃ recs, (R2G.swapTail s (s.preds n1).head? (s.preds n2).head? n1 n2).2 = .ok recs := by
  cases hp1 : (s.preds n1).head? with
  | none =>
    cases hp2 : (s.preds n2).head? with
    | none => rw [hp1, hp2] at c2; exact absurd rfl c2
    | some p2 =>
      rw [hp2] at c5
      have ht2 : s.tk_tm p2 < s.tk_tm n1 := by
        simp only [R2G.swapBad, decide_eq_true_eq] at c5
        unfold tk_tm; omega
      exact swapTail_accepts_ns hI (edge_of_head_some hp2) h1 (root_of_head_none hp1) ht2
  | some p1 =>
    rw [hp1] at c4
    have ht1 : s.tk_tm p1 < s.tk_tm n2 := by
      simp only [R2G.swapBad, decide_eq_true_eq] at c4
      unfold tk_tm; omega
    cases hp2 : (s.preds n2).head? with
    | none => exact swapTail_accepts_sn hI (edge_of_head_some hp1) h2 (root_of_head_none hp2) ht1
    | some p2 =>
      rw [hp2] at c5
      have ht2 : s.tk_tm p2 < s.tk_tm n1 := by
        simp only [R2G.swapBad, decide_eq_true_eq] at c5
        unfold tk_tm; omega
      have hp : p1 ≠ p2 := by
        intro h; apply c3; rw [hp1, hp2, h]; simp
      exact swapTail_accepts_ss hI (edge_of_head_some hp1) (edge_of_head_some hp2) hp ht1 ht2

/-- **a refused `UserSwapPredecessors` is a refusal by argument validation**: from a state with
    `Valid ∧ Good ∧ EdgeInv`, a refused `uSwap` returns the input state itself -/
theorem uSwap_refused_eq {s : St} (hI : R3B.Inv3 s) {n1 n2 : Node} {e : Err}
    (herr : (s.uSwap n1 n2).2 = .error e) : (s.uSwap n1 n2).1 = s := by
  rw [R2G.uSwap_eq] at herr ⊢
  by_cases c1 : (!(s.hasNode n1) || !(s.hasNode n2)) = true
  · rw [if_pos c1]
  · rw [if_neg c1] at herr ⊢
    by_cases c2 : ((s.preds n1).head?.isNone && (s.preds n2).head?.isNone) = true
    · rw [if_pos c2]
    · rw [if_neg c2] at herr ⊢
      by_cases c3 : ((s.preds n1).head? == (s.preds n2).head?) = true
      · rw [if_pos c3]
      · rw [if_neg c3] at herr ⊢
        by_cases c4 : R2G.swapBad s (s.preds n1).head? ((s.timeOf n2).getD 0) = true
        · rw [if_pos c4]
        · rw [if_neg c4] at herr ⊢
          by_cases c5 : R2G.swapBad s (s.preds n2).head? ((s.timeOf n1).getD 0) = true
          · rw [if_pos c5]
          · rw [if_neg c5] at herr ⊢
            exfalso
            have hh : s.hasNode n1 = true ∧ s.hasNode n2 = true := by
              cases a : s.hasNode n1 <;> cases b : s.hasNode n2 <;> simp [a, b] at c1 ⊢
            obtain ⟨recs, hok⟩ := swapTail_accepts hI (tk_hasNode_iff.1 hh.1) (tk_hasNode_iff.1 hh.2)
              c2 c3 c4 c5
            rw [hok] at herr; cases herr

/-- **the field `swapNested` of `RefusalHyps`** (the hypothesis `hsw` is not even needed) -/
theorem swapNested_holds (s : St) (n1 n2 : Node) (e : Err) (hI : Inv s)
    (_hsw : s.uSwap n1 n2 = R2G.swapTail s (s.preds n1).head? (s.preds n2).head? n1 n2)
    (herr : (s.uSwap n1 n2).2 = .error e) : E (s.uSwap n1 n2).1 s := by
  rw [uSwap_refused_eq ⟨hI.valid, hI.good, hI.edge⟩ herr]
  exact E_isEquiv.refl s

/-- the nested part of a validated `uSwap` is never refused on an `Inv` state -/
theorem swapNested_impossible (s : St) (n1 n2 : Node) (e : Err) (hI : Inv s)
    (_hsw : s.uSwap n1 n2 = R2G.swapTail s (s.preds n1).head? (s.preds n2).head? n1 n2)
    (herr : (s.uSwap n1 n2).2 = .error e) :
    ∃ e', s.uSwap n1 n2 = (s, .error e') := by
  have h := uSwap_refused_eq ⟨hI.valid, hI.good, hI.edge⟩ herr
  refine ⟨e, ?_⟩
  have : s.uSwap n1 n2 = ((s.uSwap n1 n2).1, (s.uSwap n1 n2).2) := rfl
  rw [this, h, herr]

end Ft.R3D
