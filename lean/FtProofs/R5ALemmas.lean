/-
  FtProofs.R5ALemmas — package R5A: the table the exporters see of a session state
  (`toExport : Ft.St → Ft.Export.Tracks`), the well-formedness hypotheses of C14 / C15 derived from
  the bundle invariant `Inv` of R3D, and the extra registry invariant `PosSrc` ("with an array the
  position keys are active regionprops keys") through every admissible session.

  Session model `Ft.St`                              | table `Ft.Export.Tracks`
  ---------------------------------------------------+------------------------------------------------
  `nodes` (insertion order) `id / time / tid`        | `nodes` (same order) `id / time / tid`
  `NodeRec.lin : Option Nat`                         | `lin := getD 0`  (`none` is unreachable under
                                                     |   `LinOK.has`, a component of `Inv`: `lin_some`)
  values stored under `s.posKeys`, in key order,     | `pos`  (a key without value contributes NOTHING,
    `None` ≡ absent                                  |   so a missing position makes `WF.pos_len` fail)
  every other attribute whose value is not `None`    | `feats` (one-element value list)
  `edges` (insertion order) with non-`None` attrs    | `edges`
  `seg = some ⟨frame, data⟩`                         | `seg = some frames`, `frames[t][o] = data[t*frame+o]`
  time, track id, (lineage,) `regNode`, `regEdge`    | `registry`
  `posKeys.length > 1`                               | `perAxis`
  (not part of the session state)                    | `ndim`, `scale` : parameters

  Values: the session model's `Val` (opaque token / mask / IoU counts) is mapped to the export
  model's opaque token by an arbitrary `enc : Ft.Val → Nat`; every theorem quantifies over it.
  `toExportP` is the general form in which one stored position value may stand for several axes
  (`encP : Ft.Val → List Nat`; single-key storage `pos_attr = "pos"`: the value is the whole
  coordinate list); `toExport enc = toExportP (fun v => [enc v]) enc` is the form of the work package
  (one token per position key).
-/
import FtProofs.ExportLemmas
import FtProofs.R3DFinalLemmas

namespace Ft.R5A
open Ft Ft.St Ft.R2A1 Ft.R3P Ft.R3D List

/-! ## §1 the table of a session state -/

/-- the value a record stores under `k`, `None` ≡ absent -/
def recVal (r : NodeRec) (k : Key) : Val := (alook k r.other).getD Val.none

/-- position of a record: the values under the position keys, in key order -/
def posOfRec (encP : Val → List Nat) (posKeys : List Key) (r : NodeRec) : List Nat :=
  posKeys.flatMap (fun k => if recVal r k = Val.none then [] else encP (recVal r k))

/-- every attribute that is not a position key and whose value is not `None` -/
def featsOf (enc : Val → Nat) (posKeys : List Key) (attrs : List (Key × Val)) :
    List (Nat × List Nat) :=
  (attrs.filter (fun kv => !posKeys.contains kv.1 && decide (kv.2 ≠ Val.none))).map
    (fun kv => (kv.1, [enc kv.2]))

def nodeX (encP : Val → List Nat) (enc : Val → Nat) (posKeys : List Key) (r : NodeRec) :
    Export.NodeRec :=
  ⟨r.id, r.time, r.tid, r.lin.getD 0, posOfRec encP posKeys r, featsOf enc posKeys r.other⟩

def edgeX (enc : Val → Nat) (e : EdgeRec) : Export.EdgeRec :=
  ⟨e.e.1, e.e.2, featsOf enc [] e.attrs⟩

/-- the label array as a list of frames -/
def framesOf (g : Seg) : List (List Nat) :=
  (List.range g.nframes).map (fun t => (List.range g.frame).map (fun o => g.data.getD (t * g.frame + o) 0))

/-- the FeatureDict keys: time, track id, lineage id when on, node features, edge features -/
def registryOf (s : St) : List Key :=
  [keyTime, keyTid] ++ (if s.linOn then [keyLin] else []) ++ s.regNode ++ s.regEdge

/-- general form: one stored position value may stand for several axes -/
def toExportP (encP : Val → List Nat) (enc : Val → Nat) (ndim : Nat) (scale : Option (List Nat))
    (s : St) : Export.Tracks :=
  { ndim := ndim
    nodes := s.nodes.map (nodeX encP enc s.posKeys)
    edges := s.edges.map (edgeX enc)
    seg := s.seg.map framesOf
    scale := scale
    registry := registryOf s
    perAxis := decide (s.posKeys.length > 1) }

/-- **the table the exporters see** (one token per position key) -/
def toExport (enc : Val → Nat) (ndim : Nat) (scale : Option (List Nat)) (s : St) : Export.Tracks :=
  toExportP (fun v => [enc v]) enc ndim scale s

variable {encP : Val → List Nat} {enc : Val → Nat} {ndim : Nat} {scale : Option (List Nat)}

@[simp] theorem toExportP_ndim (s : St) : (toExportP encP enc ndim scale s).ndim = ndim := rfl
@[simp] theorem toExportP_nax (s : St) : Export.nax (toExportP encP enc ndim scale s) = ndim - 1 := rfl

theorem ids_toExportP (s : St) : Export.ids (toExportP encP enc ndim scale s) = s.ids := by
  unfold Export.ids toExportP St.ids
  simp only [List.map_map]
  rfl

theorem edgePairs_toExportP (s : St) :
    Export.edgePairs (toExportP encP enc ndim scale s) = s.edgeList := by
  unfold Export.edgePairs toExportP St.edgeList
  simp only [List.map_map]
  rfl

theorem nodeOf_toExportP (s : St) (n : Nat) :
    Export.nodeOf (toExportP encP enc ndim scale s) n = (s.findNode n).map (nodeX encP enc s.posKeys) := by
  unfold Export.nodeOf toExportP St.findNode
  simp only [List.find?_map]
  rfl

theorem timeOf_toExportP (s : St) (n : Nat) :
    Export.timeOf (toExportP encP enc ndim scale s) n = (s.timeOf n).getD 0 := by
  unfold Export.timeOf St.timeOf
  rw [nodeOf_toExportP]
  cases s.findNode n <;> rfl

theorem preds_toExportP (s : St) (n : Nat) :
    Export.preds (toExportP encP enc ndim scale s) n = s.preds n := by
  unfold Export.preds toExportP St.preds
  simp only [List.filter_map, List.map_map]
  rfl

theorem succs_toExportP (s : St) (n : Nat) :
    Export.succs (toExportP encP enc ndim scale s) n = s.succs n := by
  unfold Export.succs toExportP St.succs
  simp only [List.filter_map, List.map_map]
  rfl

theorem mem_edges_toExportP {s : St} {e : Export.EdgeRec}
    (h : e ∈ (toExportP encP enc ndim scale s).edges) : (e.src, e.dst) ∈ s.edgeList := by
  obtain ⟨r, hr, rfl⟩ := List.mem_map.mp h
  exact List.mem_map.mpr ⟨r, hr, rfl⟩

/-! ## §2 graph hypotheses of C14 / C15 from the forest -/

theorem timeOf_some_of_mem {s : St} {n : Node} (h : n ∈ s.ids) : ∃ t, s.timeOf n = some t := by
  obtain ⟨r, hr⟩ := findNode_of_mem h
  exact ⟨r.time, by unfold St.timeOf; rw [hr]; rfl⟩

/-- every edge of the table goes forward in time -/
theorem timeInc_of_forest {s : St} (hF : s.Forest) :
    Export.TimeInc (toExportP encP enc ndim scale s) := by
  intro e he
  have hm := mem_edges_toExportP he
  obtain ⟨t1, h1⟩ := timeOf_some_of_mem (hF.src_mem _ hm)
  obtain ⟨t2, h2⟩ := timeOf_some_of_mem (hF.dst_mem _ hm)
  rw [timeOf_toExportP, timeOf_toExportP]
  have := hF.forward _ hm t1 t2 h1 h2
  simp only at h1 h2
  rw [h1, h2]
  exact this

/-- both endpoints of every edge of the table are nodes of the table -/
theorem edgesIn_of_forest {s : St} (hF : s.Forest) :
    Export.EdgesIn (toExportP encP enc ndim scale s) := by
  intro e he
  have hm := mem_edges_toExportP he
  rw [ids_toExportP]
  exact ⟨hF.src_mem _ hm, hF.dst_mem _ hm⟩

/-- `Export.WF` of the table, from the forest and "one position value per axis" -/
theorem wf_of_forest {s : St} (hF : s.Forest)
    (hpos : ∀ r ∈ s.nodes, (posOfRec encP s.posKeys r).length = ndim - 1) :
    Export.WF (toExportP encP enc ndim scale s) where
  ids_nodup := by rw [ids_toExportP]; exact hF.nodup_nodes
  edges_nodup := by rw [edgePairs_toExportP]; exact hF.nodup_edges
  dst_in := by
    intro e he
    rw [ids_toExportP]
    exact hF.dst_mem _ (mem_edges_toExportP he)
  one_parent := by
    intro e1 h1 e2 h2 hd
    have m1 := mem_edges_toExportP h1
    have m2 := mem_edges_toExportP h2
    rw [hd] at m1
    exact hF.par_unique m1 m2
  pos_len := by
    intro n hn
    obtain ⟨r, hr, rfl⟩ := List.mem_map.mp hn
    exact hpos r hr

/-! ## §3 ancestors: the export model's `Anc` is the session model's `Anc` -/

theorem anc_iff (s : St) (a n : Nat) :
    Export.Anc (toExportP encP enc ndim scale s) a n ↔ St.Anc s a n := by
  constructor
  · intro h
    induction h with
    | refl => exact St.Anc.refl _
    | step hp _ ih =>
      rw [preds_toExportP] at hp
      exact St.Anc.step _ _ _ ih (tk_mem_preds.1 hp)
  · intro h
    induction h with
    | refl => exact Export.Anc.refl _
    | step p c _ he ih =>
      exact Export.Anc.step (by rw [preds_toExportP]; exact tk_mem_preds.2 he) ih

/-! ## §4 positions, lineage ids, features and labels of the table -/

/-- every node carries a value under every position key -/
def PosVals (s : St) : Prop := ∀ r ∈ s.nodes, ∀ k ∈ s.posKeys, recVal r k ≠ Val.none

instance (s : St) : Decidable (PosVals s) := by unfold PosVals; exact inferInstance

/-- **the extra registry invariant**: with an array, the position keys are active regionprops keys
    (the position is the computed centroid feature, switched on) -/
def PosSrc (s : St) : Prop := s.seg = none ∨ ∀ k ∈ s.posKeys, k ∈ s.rpActive

instance (s : St) : Decidable (PosSrc s) := by unfold PosSrc; exact inferInstance

theorem otherOf_eq_recVal {s : St} (hnd : s.ids.Nodup) {r : NodeRec} (hr : r ∈ s.nodes) (k : Key) :
    s.otherOf r.id k = recVal r k := by
  unfold St.otherOf recVal
  rw [findNode_of_mem_sg hnd hr]

/-- `Inv` gives the positions: without array by `NodeInv.pos`; with an array, under `PosSrc`, the
    stored value is the current mask value (`NodeInv.cur`) of a non-empty mask (`SegOK`) -/
theorem posVals_of_inv {s : St} (hI : Inv s) (hP : PosSrc s) : PosVals s := by
  intro r hr k hk
  have hnd := hI.valid.forest.nodup_nodes
  rw [← otherOf_eq_recVal hnd hr]
  cases hg : s.seg with
  | none => exact hI.node.pos hg r.id (List.mem_map.mpr ⟨r, hr, rfl⟩) k hk
  | some g =>
    rcases hP with h | h
    · rw [hg] at h; cases h
    · rw [hI.node.cur g hg r.id r.time (timeOf_of_mem_sg hnd hr) k (h k hk)]
      unfold Seg.maskVal
      rw [if_neg ((hI.segOK g hg).1 r hr)]
      intro h; cases h

/-- without array `Inv` alone is enough -/
theorem posSrc_of_seg_none {s : St} (h : s.seg = none) : PosSrc s := Or.inl h

theorem posOfRec_length {w : Nat} (hw : ∀ v, v ≠ Val.none → (encP v).length = w) (r : NodeRec) :
    ∀ keys : List Key, (∀ k ∈ keys, recVal r k ≠ Val.none) →
      (posOfRec encP keys r).length = keys.length * w := by
  intro keys
  induction keys with
  | nil => intro _; simp [posOfRec]
  | cons k ks ih =>
    intro h
    have hk := h k (List.mem_cons_self ..)
    have := ih (fun k' hk' => h k' (List.mem_cons_of_mem _ hk'))
    unfold posOfRec at this ⊢
    rw [List.flatMap_cons, List.length_append, this, if_neg hk, hw _ hk, List.length_cons,
      Nat.succ_mul, Nat.add_comm]

/-- one token per key: the position is the list of the encoded values, in key order -/
theorem posOfRec_single (r : NodeRec) (keys : List Key) (h : ∀ k ∈ keys, recVal r k ≠ Val.none) :
    posOfRec (fun v => [enc v]) keys r = keys.map (fun k => enc (recVal r k)) := by
  induction keys with
  | nil => rfl
  | cons k ks ih =>
    have hk := h k (List.mem_cons_self ..)
    have := ih (fun k' hk' => h k' (List.mem_cons_of_mem _ hk'))
    unfold posOfRec at this ⊢
    rw [List.flatMap_cons, this, if_neg hk]
    rfl

/-- the `none ↦ 0` of the lineage column is never taken on an `Inv` state (`LinOK.has`) -/
theorem lin_some {s : St} (hI : Inv s) {r : NodeRec} (hr : r ∈ s.nodes) :
    r.lin = some (nodeX encP enc s.posKeys r).lin := by
  have hnd := hI.valid.forest.nodup_nodes
  have h := hI.valid.lin.has r.id (List.mem_map.mpr ⟨r, hr, rfl⟩)
  unfold St.linOf at h
  rw [findNode_of_mem_sg hnd hr] at h
  replace h : r.lin.isSome = true := h
  show r.lin = some (r.lin.getD 0)
  cases hl : r.lin with
  | none => rw [hl] at h; cases h
  | some l => rfl

/-- the feature column `k` of a record: the encoded stored value, unless `k` is a position key or
    the value is `None` / absent -/
theorem alook_featsOf (posKeys : List Key) (k : Key) :
    ∀ attrs : List (Key × Val), (attrs.map (·.1)).Nodup →
      alook k (featsOf enc posKeys attrs) =
        if posKeys.contains k = true ∨ (alook k attrs).getD Val.none = Val.none then none
        else some [enc ((alook k attrs).getD Val.none)] := by
  intro attrs
  induction attrs with
  | nil => intro _; simp [featsOf, alook]
  | cons kv rest ih =>
    intro hnd
    obtain ⟨k', v⟩ := kv
    simp only [List.map_cons, List.nodup_cons] at hnd
    have ihr := ih hnd.2
    unfold featsOf at ihr ⊢
    by_cases hk : k' = k
    · subst hk
      have hno : alook k' rest = none := by
        apply Export.alook_none_of_ne
        intro p hp e
        exact hnd.1 (List.mem_map.mpr ⟨p, hp, e⟩)
      have hrest : alook k' (List.map (fun kv : Key × Val => (kv.1, [enc kv.2]))
          (List.filter (fun kv => !posKeys.contains kv.1 && decide (kv.2 ≠ Val.none)) rest)) = none := by
        rw [ihr, hno]; simp
      simp only [List.filter_cons, alook, beq_self_eq_true, if_true, Option.getD_some]
      by_cases hc : (!posKeys.contains k' && decide (v ≠ Val.none)) = true
      · rw [if_pos hc]
        simp only [Bool.and_eq_true, Bool.not_eq_true', decide_eq_true_eq] at hc
        simp only [List.map_cons, alook, beq_self_eq_true, if_true]
        rw [if_neg (by rw [hc.1]; simp [hc.2])]
      · rw [if_neg hc, hrest]
        simp only [Bool.and_eq_true, Bool.not_eq_true', decide_eq_true_eq, not_and,
          Decidable.not_not] at hc
        by_cases hp : posKeys.contains k' = true
        · rw [if_pos (Or.inl hp)]
        · rw [if_pos (Or.inr (hc (by simpa using hp)))]
    · have hb : (k' == k) = false := by simpa using hk
      simp only [List.filter_cons, alook, hb, Bool.false_eq_true, if_false]
      by_cases hc : (!posKeys.contains k' && decide (v ≠ Val.none)) = true
      · rw [if_pos hc]
        simp only [List.map_cons, alook, hb, Bool.false_eq_true, if_false]
        exact ihr
      · rw [if_neg hc]; exact ihr

/-- the frames of the table are the frames of the array -/
theorem framesOf_get (g : Seg) (t p : Nat) (ht : t < g.nframes) (hp : p < g.frame) :
    ((framesOf g)[t]?.bind (fun fr => fr[p]?)) = some (g.data.getD (t * g.frame + p) 0) := by
  unfold framesOf
  simp [List.getElem?_map, List.getElem?_range ht, List.getElem?_range hp]

theorem framesOf_shape (g : Seg) :
    (framesOf g).length = g.nframes ∧ ∀ fr ∈ framesOf g, fr.length = g.frame := by
  unfold framesOf
  refine ⟨by simp, ?_⟩
  intro fr hfr
  obtain ⟨t, _, rfl⟩ := List.mem_map.mp hfr
  simp

theorem framesOf_get_inv (g : Seg) (t p : Nat) (fr : List Nat) (l : Nat)
    (hfr : (framesOf g)[t]? = some fr) (hl : fr[p]? = some l) :
    t < g.nframes ∧ p < g.frame ∧ l = g.data.getD (t * g.frame + p) 0 := by
  have ht : t < g.nframes := by
    have := (List.getElem?_eq_some_iff.mp hfr).1
    rw [(framesOf_shape g).1] at this; exact this
  have hlen : fr.length = g.frame := (framesOf_shape g).2 fr (List.mem_of_getElem? hfr)
  have hp : p < g.frame := by
    have := (List.getElem?_eq_some_iff.mp hl).1
    rw [hlen] at this; exact this
  refine ⟨ht, hp, ?_⟩
  have := framesOf_get g t p ht hp
  rw [hfr] at this
  simp only [Option.bind_some] at this
  rw [hl] at this
  exact Option.some.inj this

/-! ## §5 the registry, and "no array out of nothing", through one step -/

/-- every `step` other than enable / disable leaves the registry and the activation flags alone
    (the argument of `C10_registry_step`, as an equation) -/
theorem reg_step (s : St) (op : Op) (hop : ∀ ks rc, op ≠ .enable ks rc) (hop' : ∀ ks, op ≠ .disable ks) :
    (s.step op).1.reg = s.reg := by
  have hc : ∀ (r : UOut) (p : Option Node), r.1.cfg = s.cfg → (commit r p).1.reg = s.reg := by
    intro r p h
    unfold commit
    split
    · exact (show _ = r.1.reg from rfl).trans (St.reg_of_cfg h)
    · exact St.reg_of_cfg h
  have hh : ∀ (r : Hist ActRec × St × Bool) (bad : Bool), r.2.1.cfg = s.cfg →
      (histCore s r bad).1.reg = s.reg := by
    intro r bad h
    unfold histCore
    split
    · exact St.reg_of_cfg h
    · split
      · exact (show _ = r.2.1.reg from rfl).trans (St.reg_of_cfg h)
      · rfl
  cases op with
  | addEdge e' f => exact hc _ _ (cfg_uAddEdge s e' f)
  | delEdge e' => exact hc _ _ (cfg_uDeleteEdge s e')
  | addNode a => exact hc _ _ (cfg_uAddNode s a)
  | delNode n => exact hc _ _ (cfg_uDeleteNode s n none)
  | swap a b => exact hc _ _ (cfg_uSwap s a b)
  | updAttrs n at_ => exact hc _ _ (cfg_uUpdateAttrs s n at_)
  | paint v groups tid f =>
    simp only [step]
    split
    · rfl
    · rename_i g hg
      have hu := cfg_uUpdateSeg
        { s with seg := some (g.setPixels (groups.flatMap (fun (grp : List Pix × Nat) => grp.1)) v) }
        v groups tid f
      split
      · exact hc _ _ hu
      · split
        · exact St.reg_of_cfg hu
        · exact St.reg_of_cfg hu
  | undo => rw [step_undo_eq]; exact hh _ _ (cfg_undoStep _ _)
  | redo => rw [step_redo_eq]; exact hh _ _ (cfg_redoStep _ _)
  | enable ks rc => exact absurd rfl (hop ks rc)
  | disable ks => exact absurd rfl (hop' ks)
  | qNeighbors tid time => exact St.reg_of_cfg (cfg_trackNeighbors s tid time)
  | qHasTrack tid time => rfl
  | qNewIds n => rfl
  | nop => rfl

theorem edit_not_switch {op : Op} (he : op.isTopEdit = true) :
    (∀ ks rc, op ≠ .enable ks rc) ∧ (∀ ks, op ≠ .disable ks) :=
  ⟨fun _ _ e => (by rw [e] at he; cases he), fun _ e => (by rw [e] at he; cases he)⟩

/-- an accepted edit on a state without array produces a state without array -/
theorem segNone_step {s : St} {op : Op} (hI : Inv s) (hpre : OpPre s op) (he : op.isTopEdit = true)
    (hok : (s.step op).2 = .ok) (hs : s.seg = none) : (s.step op).1.seg = none := by
  obtain ⟨r, recs, hu, hr, hst⟩ := step_edit_group s op he hok
  rw [hst]
  show r.1.seg = none
  cases op with
  | paint v gs t f => simp only [userPart, hs] at hu; cases hu
  | addEdge e f =>
    simp only [userPart, Option.some.injEq] at hu; subst hu; exact (userOK_addEdge hI hr).segNone hs
  | delEdge e =>
    simp only [userPart, Option.some.injEq] at hu; subst hu; exact (userOK_delEdge hI hr).segNone hs
  | swap a b =>
    simp only [userPart, Option.some.injEq] at hu; subst hu; exact (userOK_swap hI hr).segNone hs
  | updAttrs n attrs =>
    simp only [userPart, Option.some.injEq] at hu; subst hu
    exact (userOK_updAttrs hI hpre hr).segNone hs
  | delNode n =>
    simp only [userPart, Option.some.injEq] at hu; subst hu; exact (userOK_delNode hI hr).segNone hs
  | addNode a =>
    simp only [userPart, Option.some.injEq] at hu; subst hu
    exact (userOK_addNode hI hpre hr).segNone hs
  | undo => cases he
  | redo => cases he
  | enable ks rc => cases he
  | disable ks => cases he
  | qNeighbors tid time => cases he
  | qHasTrack tid time => cases he
  | qNewIds n => cases he
  | nop => cases he

/-- `PosSrc` only reads the array's presence and the registry: invariant under `E` -/
theorem PosSrc.of_E {a b : St} (h : E a b) (hb : PosSrc b) : PosSrc a := by
  obtain ⟨-, -, q3, -, -, -, -, q8⟩ := reg_fields h.1.reg
  rcases hb with hb | hb
  · exact Or.inl (h.1.seg.trans hb)
  · right; rw [q3, q8]; exact hb

/-- **`PosSrc` is preserved by every accepted edit** from an `Inv` state under `OpPre` -/
theorem PosSrc.step_ok {s : St} {op : Op} (hI : Inv s) (hQ : PosSrc s) (he : op.isTopEdit = true)
    (hpre : OpPre s op) (hok : (s.step op).2 = .ok) : PosSrc (s.step op).1 := by
  rcases hQ with hQ | hQ
  · exact Or.inl (segNone_step hI hpre he hok hQ)
  · obtain ⟨-, -, q3, -, -, -, -, q8⟩ :=
      reg_fields (reg_step s op (edit_not_switch he).1 (edit_not_switch he).2)
    right; rw [q3, q8]; exact hQ

/-! ## §6 a state predicate through every admissible session -/

section Reach
variable {Q : St → Prop}

/-- one admissible operation keeps a predicate that is invariant under `E` and preserved by the
    accepted edits: undo / redo land in the `E`-class of a timeline state, refused edits and queries
    in the class of the current state -/
theorem sess_step_Q (hQE : ∀ {a b : St}, E a b → Q b → Q a)
    (hQok : ∀ {s : St} {op : Op}, Inv s → Q s → op.isTopEdit = true → OpPre s op →
      (s.step op).2 = .ok → Q (s.step op).1)
    {s : St} {t : Timeline St} (hr : Hist.Refines RecE E (s.hist, s) t) (hI : Inv s) (hQ : Q s)
    (hT : ∀ x ∈ t.states, Q x) (op : Op) (hop : OpOK s op) :
    Q (step s op).1 ∧ ∀ x ∈ (absStep t op (step s op)).states, Q x := by
  have hv := sessOpOK_of paintLaw refusalHyps hI hop
  obtain ⟨hr', -, -⟩ := sess_step obligation_E hr op hv
  have hnext : Q (step s op).1 := by
    by_cases hh : op = .undo ∨ op = .redo
    · obtain ⟨x, hx, hE⟩ := hr'.current
      have hm : x ∈ (absStep t op (step s op)).states := List.mem_of_getElem? hx
      have hm' : x ∈ t.states := by
        rcases hh with rfl | rfl
        · simp only [absStep, Hist.stepA_undo_states] at hm; exact hm
        · simp only [absStep, Hist.stepA_redo_states] at hm; exact hm
      exact hQE hE (hT x hm')
    · rcases hop with h | h | h | ⟨he, hpre⟩
      · exact absurd (Or.inl h) hh
      · exact absurd (Or.inr h) hh
      · exact hQE (query_E h) hQ
      · obtain ⟨-, herr⟩ := editStep paintLaw refusalHyps he hI hpre
        rcases edit_out (s := s) he with h | ⟨e, h⟩
        · exact hQok hI hQ he hpre h
        · exact hQE (herr e h) hQ
  refine ⟨hnext, fun x hx => ?_⟩
  rcases mem_absStep hx with h | h
  · exact hT x h
  · rw [h]; exact hnext

theorem sess_run_Q (hQE : ∀ {a b : St}, E a b → Q b → Q a)
    (hQok : ∀ {s : St} {op : Op}, Inv s → Q s → op.isTopEdit = true → OpPre s op →
      (s.step op).2 = .ok → Q (s.step op).1) :
    ∀ (ops : List Op) {s : St} {t : Timeline St},
    Hist.Refines RecE E (s.hist, s) t → Inv s → (∀ x ∈ t.states, Inv x) → Q s → (∀ x ∈ t.states, Q x) →
    SessOK s ops → Q (sessFinal s t ops).1 ∧ ∀ x ∈ (sessFinal s t ops).2.states, Q x
  | [], _, _, _, _, _, hQ, hT, _ => ⟨hQ, hT⟩
  | op :: ops, s, t, hr, hI, hTI, hQ, hT, hs => by
    obtain ⟨h1, h2, h3⟩ := sess_step_inv paintLaw refusalHyps hr hI hTI op hs.1
    obtain ⟨hr', -, -⟩ := sess_step obligation_E hr op h1
    obtain ⟨h4, h5⟩ := sess_step_Q hQE hQok hr hI hQ hT op hs.1
    exact sess_run_Q hQE hQok ops hr' h2 h3 h4 h5 hs.2

/-- from an `Inv` start state with an empty history: a predicate that is `E`-invariant and preserved
    by the accepted edits holds at the state reached by every admissible session (and at every state
    on its timeline) -/
theorem reach_Q (hQE : ∀ {a b : St}, E a b → Q b → Q a)
    (hQok : ∀ {s : St} {op : Op}, Inv s → Q s → op.isTopEdit = true → OpPre s op →
      (s.step op).2 = .ok → Q (s.step op).1)
    (s0 : St) (h0 : s0.hist = {}) (hI : Inv s0) (hQ : Q s0) (ops : List Op) (hs : SessOK s0 ops) :
    Q (sessFinal s0 ⟨[s0], 0⟩ ops).1 ∧ ∀ x ∈ (sessFinal s0 ⟨[s0], 0⟩ ops).2.states, Q x :=
  sess_run_Q hQE hQok ops (refines_init s0 h0) hI
    (fun x hx => by rw [List.mem_singleton.1 hx]; exact hI) hQ
    (fun x hx => by rw [List.mem_singleton.1 hx]; exact hQ) hs

end Reach

/-- **`PosSrc` at every state an admissible session reaches** -/
theorem reach_posSrc (s0 : St) (h0 : s0.hist = {}) (hI : Inv s0) (hQ : PosSrc s0) (ops : List Op)
    (hs : SessOK s0 ops) : PosSrc (sessFinal s0 ⟨[s0], 0⟩ ops).1 :=
  (reach_Q (Q := PosSrc) PosSrc.of_E PosSrc.step_ok s0 h0 hI hQ ops hs).1

/-- the registry is the start state's at every state an admissible session reaches -/
theorem reach_reg (s0 : St) (h0 : s0.hist = {}) (hI : Inv s0) (ops : List Op) (hs : SessOK s0 ops) :
    (sessFinal s0 ⟨[s0], 0⟩ ops).1.reg = s0.reg :=
  (reach_Q (Q := fun x => x.reg = s0.reg) (fun h hb => h.1.reg.trans hb)
    (fun {s op} _ hq he _ _ => (reg_step s op (edit_not_switch he).1 (edit_not_switch he).2).trans hq)
    s0 h0 hI rfl ops hs).1

/-! ## §6b the CSV label map needs distinct ids only -/

/-- `C15_seg_csv` under its real hypothesis (distinct node ids; `Export.WF` also asks for the
    positions, which the label map never reads) -/
theorem csvSeg_get (s : Export.Tracks) (hnd : (Export.ids s).Nodup) (sel : Option (List Nat))
    (frames : List (List Nat)) (t p : Nat) (fr : List Nat) (l : Nat) (hfr : frames[t]? = some fr)
    (hl : fr[p]? = some l) :
    (l ∉ (Export.exported s sel).map Export.NodeRec.id →
      ((Export.csvSeg s sel frames)[t]?.bind (fun r => r[p]?)) = some 0) ∧
    (∀ n ∈ Export.exported s sel, n.id = l →
      ((Export.csvSeg s sel frames)[t]?.bind (fun r => r[p]?)) = some n.tid) := by
  have hval : ((Export.csvSeg s sel frames)[t]?.bind (fun r => r[p]?)) = some (Export.csvLabel s sel l) := by
    simp [Export.csvSeg, hfr, hl]
  refine ⟨?_, ?_⟩
  · intro hnot
    rw [hval]
    have : (Export.exported s sel).find? (fun n => n.id == l) = none := by
      rw [List.find?_eq_none]
      intro n hn hb
      exact hnot (List.mem_map.mpr ⟨n, hn, by simpa using hb⟩)
    unfold Export.csvLabel
    rw [this]
  · intro n hn hid
    rw [hval]
    unfold Export.csvLabel
    cases hf : (Export.exported s sel).find? (fun n => n.id == l) with
    | none =>
      rw [List.find?_eq_none] at hf
      exact absurd (by simpa using hid) (hf n hn)
    | some m =>
      have hm := List.mem_of_find?_eq_some hf
      have hmid : m.id = l := by simpa using List.find?_some hf
      have hinj : m = n :=
        Export.nodup_map_inj Export.NodeRec.id s.nodes hnd m (Export.exported_sub s sel m hm) n
          (Export.exported_sub s sel n hn) (hmid.trans hid.symm)
      rw [hinj]

/-! ## §7 assembly -/

/-- the state an operation list reaches (first component of `sessFinal`, the timeline dropped) -/
def reached (s0 : St) (ops : List Op) : St := (sessFinal s0 ⟨[s0], 0⟩ ops).1

theorem sessFinal_fst : ∀ (ops : List Op) (s : St) (t : Timeline St),
    (sessFinal s t ops).1 = ops.foldl (fun x op => (x.step op).1) s
  | [], _, _ => rfl
  | op :: ops, s, t => by
    show (sessFinal (step s op).1 _ ops).1 = _
    rw [sessFinal_fst ops]; rfl

/-- `reached` is just the iteration of `St.step` -/
theorem reached_eq_foldl (s0 : St) (ops : List Op) :
    reached s0 ops = ops.foldl (fun x op => (x.step op).1) s0 := sessFinal_fst ops s0 _

/-- all three graph hypotheses of C14 / C15 for the table of an `Inv` state whose nodes carry their
    position values, each stored value standing for `w` axes -/
theorem wf_of_inv {w : Nat} {s : St} (hw : ∀ v, v ≠ Val.none → (encP v).length = w)
    (hd : s.posKeys.length * w = ndim - 1) (hI : Inv s) (hV : PosVals s) :
    Export.WF (toExportP encP enc ndim scale s) ∧ Export.TimeInc (toExportP encP enc ndim scale s) ∧
    Export.EdgesIn (toExportP encP enc ndim scale s) :=
  ⟨wf_of_forest hI.valid.forest (fun r hr => by rw [posOfRec_length hw r _ (hV r hr), hd]),
    timeInc_of_forest hI.valid.forest, edgesIn_of_forest hI.valid.forest⟩

/-- what an admissible session delivers at the reached state: `Inv`, `PosSrc`, the position values,
    the start state's registry -/
theorem reached_facts (s0 : St) (h0 : s0.hist = {}) (hI : Inv s0) (hP : PosSrc s0) (ops : List Op)
    (hs : SessOK s0 ops) :
    Inv (reached s0 ops) ∧ PosSrc (reached s0 ops) ∧ PosVals (reached s0 ops) ∧
    (reached s0 ops).reg = s0.reg := by
  have h1 : Inv (reached s0 ops) := (sess_all paintLaw refusalHyps s0 h0 hI ops hs).2.1
  have h2 := reach_posSrc s0 h0 hI hP ops hs
  exact ⟨h1, h2, posVals_of_inv h1 h2, reach_reg s0 h0 hI ops hs⟩

theorem reached_posKeys (s0 : St) (h0 : s0.hist = {}) (hI : Inv s0) (ops : List Op)
    (hs : SessOK s0 ops) : (reached s0 ops).posKeys = s0.posKeys :=
  (reg_fields (reach_reg s0 h0 hI ops hs)).2.2.2.2.2.2.2

end Ft.R5A
