/-
  FtProofs.R8SPrimLemmas — package R8S, part 2b: the seven primitives, `inverse()`,
  `ActionGroup.inverse()` and the rollback are congruent for `Sim` ("same object up to the order inside
  the lookups").  No primitive calls `get_track_neighbors`: all of this is unconditional.
-/
import FtProofs.R8SBookLemmas
import FtProofs.R3DSimLemmas

set_option linter.unusedSimpArgs false

namespace Ft.R8S
open Ft Ft.St List

/-! ## §1 views that do not read the lookups -/

section views
variable {s t : St} (h : Sim s t)
include h

theorem Sim.nodes : t.nodes = s.nodes := by rw [h.core]; rfl
theorem Sim.edges : t.edges = s.edges := by rw [h.core]; rfl
theorem Sim.seg : t.seg = s.seg := by rw [h.core]; rfl
theorem Sim.hist : t.hist = s.hist := by rw [h.core]; rfl
theorem Sim.counter : t.counter = s.counter := by rw [h.core]; rfl
theorem Sim.maxTid : t.maxTid = s.maxTid := by rw [h.core]; rfl
theorem Sim.maxLin : t.maxLin = s.maxLin := by rw [h.core]; rfl
theorem Sim.linOn : t.linOn = s.linOn := by rw [h.core]; rfl
theorem Sim.findNode (n : Node) : t.findNode n = s.findNode n := by rw [h.core]; rfl
theorem Sim.hasNode (n : Node) : t.hasNode n = s.hasNode n := by rw [h.core]; rfl
theorem Sim.hasEdge (e : Edge) : t.hasEdge e = s.hasEdge e := by rw [h.core]; rfl
theorem Sim.succs (n : Node) : t.succs n = s.succs n := by rw [h.core]; rfl
theorem Sim.preds (n : Node) : t.preds n = s.preds n := by rw [h.core]; rfl
theorem Sim.outdeg (n : Node) : t.outdeg n = s.outdeg n := by rw [h.core]; rfl
theorem Sim.indeg (n : Node) : t.indeg n = s.indeg n := by rw [h.core]; rfl
theorem Sim.timeOf (n : Node) : t.timeOf n = s.timeOf n := by rw [h.core]; rfl
theorem Sim.tidOf (n : Node) : t.tidOf n = s.tidOf n := by rw [h.core]; rfl
theorem Sim.linOf (n : Node) : t.linOf n = s.linOf n := by rw [h.core]; rfl
theorem Sim.nextTid : t.nextTid = s.nextTid := by rw [h.core]; rfl
theorem Sim.nextLin : t.nextLin = s.nextLin := by rw [h.core]; rfl

end views

/-! ## §2 blind state transformers -/

theorem Blind.updNode (n : Node) (f : NodeRec → NodeRec) : Blind (fun s => s.updNode n f) :=
  fun _ _ _ => rfl
theorem Blind.setOther (n : Node) (k : Key) (v : Val) : Blind (fun s => s.setOther n k v) :=
  fun _ _ _ => rfl
theorem Blind.setEdgeAttr (e : Edge) (k : Key) (v : Val) : Blind (fun s => s.setEdgeAttr e k v) :=
  fun _ _ _ => rfl

theorem Blind.foldl_setOther (n : Node) (v : Val) (ks : List Key) :
    Blind (fun s => ks.foldl (fun st k => st.setOther n k v) s) :=
  Blind.foldl (F := fun st k => st.setOther n k v) (fun k => Blind.setOther n k v) ks

theorem Blind.rpUpdate (n : Node) : Blind (fun s => s.rpUpdate n) := by
  intro s a b
  show (wb s a b).rpUpdate n = wb (s.rpUpdate n) a b
  unfold St.rpUpdate
  simp only [wb_seg, wb_timeOf, wb_rpActive]
  rcases s.seg with _ | g
  · rfl
  · rcases s.timeOf n with _ | t
    · rfl
    · simp only
      by_cases hc : s.rpActive.isEmpty = true
      · simp only [hc, Bool.false_eq_true, ↓reduceIte]
      · simp only [hc, Bool.false_eq_true, ↓reduceIte]
        exact Blind.foldl_setOther n _ s.rpActive s a b

theorem Blind.iouUpdateEdge (e : Edge) : Blind (fun s => s.iouUpdateEdge e) := by
  intro s a b
  show (wb s a b).iouUpdateEdge e = wb (s.iouUpdateEdge e) a b
  unfold St.iouUpdateEdge
  simp only [wb_iouKey, wb_iouActive, wb_seg, wb_iouOf]
  rcases s.iouKey with _ | k
  · rfl
  · simp only
    by_cases hc : (s.iouActive && s.seg.isSome) = true
    · simp only [hc, Bool.false_eq_true, ↓reduceIte]; rfl
    · simp only [hc, Bool.false_eq_true, ↓reduceIte]

theorem Blind.iouUpdateNode (n : Node) : Blind (fun s => s.iouUpdateNode n) := by
  intro s a b
  show (wb s a b).iouUpdateNode n = wb (s.iouUpdateNode n) a b
  unfold St.iouUpdateNode
  simp only [wb_edges]
  exact Blind.foldl (F := St.iouUpdateEdge) (fun e => Blind.iouUpdateEdge e) _ s a b

theorem Blind.addEdgeRaw (e : Edge) (attrs : List (Key × Val)) : Blind (fun s => s.addEdgeRaw e attrs) := by
  intro s a b
  show (wb s a b).addEdgeRaw e attrs = wb (s.addEdgeRaw e attrs) a b
  unfold St.addEdgeRaw
  rw [wb_hasEdge]
  split <;> rfl

theorem Blind.paintNew (v : Nat) (px : Option (List Pix)) : Blind (fun s => PC.paintNew s v px) := by
  intro s a b
  show PC.paintNew (wb s a b) v px = wb (PC.paintNew s v px) a b
  unfold PC.paintNew
  simp only [wb_seg]
  rcases px with _ | ps
  · rfl
  · rcases s.seg with _ | g <;> rfl

theorem Blind.delGraph (n : Node) : Blind (fun s => PC.delGraph s n) := fun _ _ _ => rfl

/-! ## §3 blind primitives -/

theorem BlindP.pDelEdge (e : Edge) : BlindP (fun st => st.pDelEdge e) := by
  intro s a b
  show (wb s a b).pDelEdge e = liftP a b (s.pDelEdge e)
  unfold St.pDelEdge
  simp only [wb_findEdge]
  rcases s.findEdge e with _ | r <;> rfl

theorem BlindP.pAddEdge (e : Edge) (attrs : List (Key × Val)) : BlindP (fun st => st.pAddEdge e attrs) := by
  intro s a b
  show (wb s a b).pAddEdge e attrs = liftP a b (s.pAddEdge e attrs)
  rw [R3D.pAddEdge_def, R3D.pAddEdge_def]
  simp only [wb_hasNode]
  by_cases hc : (!(s.hasNode e.1) || !(s.hasNode e.2)) = true
  · simp only [hc, Bool.false_eq_true, ↓reduceIte]; rfl
  · simp only [hc, Bool.false_eq_true, ↓reduceIte]
    have h1 := Blind.addEdgeRaw e attrs s a b
    simp only at h1
    rw [h1]
    have h2 := Blind.iouUpdateEdge e (s.addEdgeRaw e attrs) a b
    simp only at h2
    rw [h2]
    rfl

theorem pUpdSeg_def (s : St) (n : Node) (px : List Pix) (added : Bool) :
    s.pUpdSeg n px added = match s.seg with
      | none => .error .value
      | some g => if !(s.hasNode n) then .error .key else
          .ok (((s.withSeg (g.setPixels px (if added then n else 0))).rpUpdate n).iouUpdateNode n,
               .updSeg n px added) := rfl

theorem Blind.withSeg (g : Seg) : Blind (fun s => s.withSeg g) := fun _ _ _ => rfl

theorem BlindP.pUpdSeg (n : Node) (px : List Pix) (added : Bool) :
    BlindP (fun st => st.pUpdSeg n px added) := by
  intro s a b
  show (wb s a b).pUpdSeg n px added = liftP a b (s.pUpdSeg n px added)
  rw [pUpdSeg_def, pUpdSeg_def]
  simp only [wb_seg, wb_hasNode]
  rcases s.seg with _ | g
  · rfl
  · simp only
    by_cases hc : (!(s.hasNode n)) = true
    · simp only [hc, Bool.false_eq_true, ↓reduceIte]; rfl
    · simp only [hc, Bool.false_eq_true, ↓reduceIte]
      have h0 := Blind.withSeg (g.setPixels px (if added then n else 0)) s a b
      have h1 := Blind.rpUpdate n (s.withSeg (g.setPixels px (if added then n else 0))) a b
      have h2 := Blind.iouUpdateNode n
        ((s.withSeg (g.setPixels px (if added then n else 0))).rpUpdate n) a b
      simp only at h0 h1 h2
      rw [h0, h1, h2]
      rfl

theorem BlindP.pUpdAttrs (n : Node) (attrs : List (Key × Val)) :
    BlindP (fun st => st.pUpdAttrs n attrs) := by
  intro s a b
  show (wb s a b).pUpdAttrs n attrs = liftP a b (s.pUpdAttrs n attrs)
  unfold St.pUpdAttrs
  simp only [wb_protectedKeys, wb_findNode]
  by_cases hc : (attrs.any (fun kv => s.protectedKeys.contains kv.1)) = true
  · simp only [hc, Bool.false_eq_true, ↓reduceIte]; rfl
  · simp only [hc, Bool.false_eq_true, ↓reduceIte]
    rcases s.findNode n with _ | r
    · rfl
    · simp only
      have := Blind.foldl (F := fun st (kv : Key × Val) => st.setOther n kv.1 kv.2)
        (fun kv => Blind.setOther n kv.1 kv.2) attrs s a b
      simp only at this
      rw [this]
      rfl

/-! ## §4 `UpdateTrackIDs`: the walk is blind, the final bookkeeping move is congruent -/

def wbAcc (a b : Book) (acc : WalkAcc) : WalkAcc := { acc with s := wb acc.s a b }

theorem walkNode_wb (a b : Book) (old new : Nat) (nl : Option Nat) (u : Bool) (acc : WalkAcc) (n : Node) :
    walkNode old new nl u (wbAcc a b acc) n = wbAcc a b (walkNode old new nl u acc n) := by
  rcases acc with ⟨s, flag, tN, lN, nx⟩
  cases u <;> cases flag
  · rfl
  · simp only [walkNode, wbAcc]
    show _ = _
    by_cases h : (s.tidOf n == some old) = true
    · have h' : ((wb s a b).tidOf n == some old) = true := h
      simp only [h, h', if_true, Bool.false_eq_true, if_false]; rfl
    · have h' : ¬ ((wb s a b).tidOf n == some old) = true := h
      simp only [h, h', if_true, Bool.false_eq_true, if_false]; rfl
  · rfl
  · simp only [walkNode, wbAcc]
    by_cases h : ((s.setLin n nl).tidOf n == some old) = true
    · have h' : (((wb s a b).setLin n nl).tidOf n == some old) = true := h
      simp only [h, h', if_true]; rfl
    · have h' : ¬ (((wb s a b).setLin n nl).tidOf n == some old) = true := h
      simp only [h, h', if_true, Bool.false_eq_true, if_false]; rfl

theorem foldl_walkNode_wb (a b : Book) (old new : Nat) (nl : Option Nat) (u : Bool) (l : List Node)
    (acc : WalkAcc) :
    l.foldl (walkNode old new nl u) (wbAcc a b acc) = wbAcc a b (l.foldl (walkNode old new nl u) acc) := by
  induction l generalizing acc with
  | nil => rfl
  | cons x l ih => rw [foldl_cons, foldl_cons, walkNode_wb, ih]

theorem walkLevels_wb (a b : Book) (old new : Nat) (nl : Option Nat) (u : Bool) (fuel : Nat)
    (acc : WalkAcc) :
    walkLevels old new nl u fuel (wbAcc a b acc) = wbAcc a b (walkLevels old new nl u fuel acc) := by
  induction fuel generalizing acc with
  | zero => rfl
  | succ f ih =>
    rcases acc with ⟨s, flag, tN, lN, nx⟩
    cases nx with
    | nil => rfl
    | cons c cs =>
      show walkLevels old new nl u f ((c :: cs).foldl (walkNode old new nl u)
          (wbAcc a b ⟨s, flag, tN, lN, []⟩)) = _
      rw [foldl_walkNode_wb, ih]
      rfl

theorem walkFin_sim (u : Bool) {acc acc' : WalkAcc} (hs : Sim acc.s acc'.s) (ht : acc'.tNodes = acc.tNodes)
    (hl : acc'.lNodes = acc.lNodes) (oT nT : Nat) (oL nL : Option Nat) :
    Sim (R3D.walkFin u acc oT nT oL nL) (R3D.walkFin u acc' oT nT oL nL) := by
  unfold R3D.walkFin
  rw [ht, hl]
  have h1 := bookMoveT_sim hs acc.tNodes oT nT
  cases u <;> cases nL
  · exact h1
  · exact h1
  · exact h1
  · exact bookMoveL_sim h1 _ _ _

theorem walk_sim {s t : St} (h : Sim s t) (start : Node) (oT nT : Nat) (oL nL : Option Nat) :
    Sim (s.walk start oT nT oL nL) (t.walk start oT nT oL nL) := by
  obtain ⟨a, b, rfl, ha, hb⟩ := h.exists
  rw [R3D.walk_def, R3D.walk_def]
  simp only [wb_linOn, wb_nodes]
  have e : (⟨wb s a b, true, [], [], [start]⟩ : WalkAcc) = wbAcc a b ⟨s, true, [], [], [start]⟩ := rfl
  rw [e, walkLevels_wb]
  -- the walk leaves the lookups alone
  have hk := walkLevels_wb s.t2n s.l2n oT nT nL (nL.isSome && s.linOn) (s.nodes.length + 1)
    ⟨s, true, [], [], [start]⟩
  have e0 : wbAcc s.t2n s.l2n (⟨s, true, [], [], [start]⟩ : WalkAcc) = ⟨s, true, [], [], [start]⟩ := rfl
  rw [e0] at hk
  generalize walkLevels oT nT nL (nL.isSome && s.linOn) (s.nodes.length + 1)
    ⟨s, true, [], [], [start]⟩ = W at hk ⊢
  have h1 : W.s.t2n = s.t2n := by rw [hk]; rfl
  have h2 : W.s.l2n = s.l2n := by rw [hk]; rfl
  refine walkFin_sim (acc := W) (acc' := wbAcc a b W) _ ?_ rfl rfl oT nT oL nL
  exact Sim.mk' (h1 ▸ ha) (h2 ▸ hb)

/-- a family of primitives (the arguments may be read from the state) that respects `Sim` -/
def SimPrim (f : St → Except Err (St × PrimRec)) : Prop := ∀ s t, Sim s t → SimP (f s) (f t)

theorem BlindP.simPrim {f : St → Except Err (St × PrimRec)} (hf : BlindP f) : SimPrim f :=
  fun _ _ h => hf.sim h

theorem pUpdTid_sim {s t : St} (h : Sim s t) (start : Node) (newT : Nat) (newL : Option Nat) :
    SimP (s.pUpdTid start newT newL) (t.pUpdTid start newT newL) := by
  unfold St.pUpdTid
  rw [h.findNode]
  rcases s.findNode start with _ | r
  · exact .error _
  · exact .ok _ (walk_sim h _ _ _ _ _)

theorem SimPrim.pUpdTid (n : Node) (tf : St → Nat) (lf : St → Option Nat)
    (ht : ∀ s t, Sim s t → tf t = tf s) (hl : ∀ s t, Sim s t → lf t = lf s) :
    SimPrim (fun st => st.pUpdTid n (tf st) (lf st)) := by
  intro s t h
  simp only [ht s t h, hl s t h]
  exact pUpdTid_sim h _ _ _

theorem SimPrim.pUpdTid_tidOf (m n : Node) (lf : St → Option Nat) (hl : ∀ s t, Sim s t → lf t = lf s) :
    SimPrim (fun st => match st.tidOf m with
      | some t => st.pUpdTid n t (lf st)
      | none => .error .key) := by
  intro s t h
  simp only [h.tidOf, hl s t h]
  rcases s.tidOf m with _ | tt
  · exact .error _
  · exact pUpdTid_sim h _ _ _

/-! ## §5 `AddNode`, `DeleteNode` -/

/-- `addNodeTail` up to the annotator notification -/
def addPre (s1 : St) (r : NodeRec) : St :=
  (if s1.hasNode r.id then s1.updNode r.id (fun old => { r with other := amerge r.other old.other })
   else { s1 with nodes := s1.nodes ++ [r] }).rpUpdate r.id

theorem addNodeTail_eq (s1 : St) (r : NodeRec) :
    PC.addNodeTail s1 r = match (addPre s1 r).findNode r.id with
      | some r' => (addPre s1 r).trackOnAdd r'
      | none => addPre s1 r := rfl

theorem Blind.addPre (r : NodeRec) : Blind (fun s => R8S.addPre s r) := by
  intro s a b
  show R8S.addPre (wb s a b) r = wb (R8S.addPre s r) a b
  unfold R8S.addPre
  rw [wb_hasNode]
  by_cases hc : s.hasNode r.id = true
  · simp only [hc, Bool.false_eq_true, ↓reduceIte]
    exact Blind.rpUpdate r.id (s.updNode r.id _) a b
  · simp only [hc, Bool.false_eq_true, ↓reduceIte]
    exact Blind.rpUpdate r.id { s with nodes := s.nodes ++ [r] } a b

theorem addNodeTail_sim {s t : St} (h : Sim s t) (r : NodeRec) :
    Sim (PC.addNodeTail s r) (PC.addNodeTail t r) := by
  rw [addNodeTail_eq, addNodeTail_eq]
  have h1 : Sim (addPre s r) (addPre t r) := (Blind.addPre r).sim h
  rw [h1.findNode]
  rcases (addPre s r).findNode r.id with _ | r'
  · exact h1
  · exact trackOnAdd_sim h1 r'

theorem pAddNode_sim {s t : St} (h : Sim s t) (r : NodeRec) (px : Option (List Pix)) :
    SimP (s.pAddNode r px) (t.pAddNode r px) := by
  rw [PC.pAddNode_unfold, PC.pAddNode_unfold]
  have e1 : t.posKeys = s.posKeys := by rw [h.core]; rfl
  rw [e1, h.seg]
  by_cases c1 : (px.isNone && !(s.posKeys.all (fun k => (alook k r.other).isSome))) = true
  · simp only [c1, Bool.false_eq_true, ↓reduceIte]; exact .error _
  · simp only [c1, Bool.false_eq_true, ↓reduceIte]
    by_cases c2 : (px.isSome && s.seg.isNone) = true
    · simp only [c2, Bool.false_eq_true, ↓reduceIte]; exact .error _
    · simp only [c2, Bool.false_eq_true, ↓reduceIte]
      exact .ok _ (addNodeTail_sim ((Blind.paintNew r.id px).sim h) r)

theorem pDelNode_sim {s t : St} (h : Sim s t) (n : Node) (px : Option (List Pix)) :
    SimP (s.pDelNode n px) (t.pDelNode n px) := by
  rw [PC.pDelNode_unfold, PC.pDelNode_unfold]
  rw [h.findNode]
  have e1 : t.getPixels n = s.getPixels n := by rw [h.core]; rfl
  have e2 : ∀ r, t.savedAttrs r = s.savedAttrs r := by intro r; rw [h.core]; rfl
  rcases s.findNode n with _ | r
  · exact .error _
  · simp only [e1, e2]
    refine .ok _ ?_
    unfold PC.delNodeTail
    exact trackOnDelete_sim ((Blind.delGraph n).sim ((Blind.paintNew 0 _).sim h)) _

/-! ## §6 `inverse()`, `ActionGroup.inverse()`, rollback -/

theorem invPrim_sim {s t : St} (h : Sim s t) (p : PrimRec) : SimP (s.invPrim p) (t.invPrim p) := by
  cases p with
  | addNode r px => exact pDelNode_sim h r.id none
  | delNode saved px => exact pAddNode_sim h saved px
  | addEdge e at_ => exact (BlindP.pDelEdge e).sim h
  | delEdge e saved => exact (BlindP.pAddEdge e saved).sim h
  | updTid start oT nT oL nL => exact pUpdTid_sim h start oT oL
  | updSeg n px added => exact (BlindP.pUpdSeg n px (!added)).sim h
  | updAttrs n prev new => exact (BlindP.pUpdAttrs n prev).sim h

theorem SimU.refl_of {s t : St} (h : Sim s t) (r : Except Err (List PrimRec)) : SimU (s, r) (t, r) :=
  ⟨h, rfl⟩

theorem thenPrim_sim {a b : UOut} {f : St → Except Err (St × PrimRec)} (h : SimU a b) (hf : SimPrim f) :
    SimU (thenPrim a f) (thenPrim b f) := by
  obtain ⟨a1, a2⟩ := a
  obtain ⟨b1, b2⟩ := b
  obtain ⟨h1, h2⟩ := h
  simp only at h1 h2
  subst h2
  unfold St.thenPrim
  rcases a2 with e | recs
  · exact ⟨h1, rfl⟩
  · simp only
    have := hf a1 b1 h1
    generalize f a1 = x at this
    generalize f b1 = y at this
    cases this with
    | error e => exact ⟨h1, rfl⟩
    | ok r hs => exact ⟨hs, rfl⟩

/-- a user action (arguments fixed) that respects `Sim` -/
def SimUser (f : St → UOut) : Prop := ∀ s t, Sim s t → SimU (f s) (f t)

theorem thenUser_sim_at {a b : UOut} {f : St → UOut} (h : SimU a b) (hf : SimU (f a.1) (f b.1)) :
    SimU (thenUser a f) (thenUser b f) := by
  obtain ⟨a1, a2⟩ := a
  obtain ⟨b1, b2⟩ := b
  obtain ⟨h1, h2⟩ := h
  simp only at h1 h2 hf
  subst h2
  unfold St.thenUser
  rcases a2 with e | recs
  · exact ⟨h1, rfl⟩
  · simp only
    obtain ⟨g1, g2⟩ := hf
    rw [← g2]
    rcases (f a1).2 with e | r'
    · exact ⟨g1, rfl⟩
    · exact ⟨g1, rfl⟩

theorem thenUser_sim {a b : UOut} {f : St → UOut} (h : SimU a b) (hf : SimUser f) :
    SimU (thenUser a f) (thenUser b f) := thenUser_sim_at h (hf _ _ h.1)

theorem foldl_simU {α} {F : UOut → α → UOut} (hF : ∀ a b x, SimU a b → SimU (F a x) (F b x))
    (l : List α) {a b : UOut} (h : SimU a b) : SimU (l.foldl F a) (l.foldl F b) := by
  induction l generalizing a b with
  | nil => exact h
  | cons x l ih => exact ih (hF a b x h)

theorem invStep_sim {a b : UOut} (h : SimU a b) (p : PrimRec) : SimU (R3D.invStep a p) (R3D.invStep b p) := by
  obtain ⟨a1, a2⟩ := a
  obtain ⟨b1, b2⟩ := b
  obtain ⟨h1, h2⟩ := h
  simp only at h1 h2
  subst h2
  unfold R3D.invStep
  rcases a2 with e | done
  · exact ⟨h1, rfl⟩
  · simp only
    have := invPrim_sim h1 p
    generalize a1.invPrim p = x at this
    generalize b1.invPrim p = y at this
    cases this with
    | error e => exact ⟨h1, rfl⟩
    | ok r hs => exact ⟨hs, rfl⟩

theorem invGroup_sim {s t : St} (h : Sim s t) (recs : List PrimRec) :
    SimU (s.invGroup recs) (t.invGroup recs) := by
  rw [R3D.invGroup_def, R3D.invGroup_def]
  exact foldl_simU (fun a b p hab => invStep_sim hab p) _ ⟨h, rfl⟩

theorem rollback_sim {s t : St} (h : Sim s t) (recs : List PrimRec) :
    Sim (s.rollback recs) (t.rollback recs) := (invGroup_sim h recs).1

end Ft.R8S
