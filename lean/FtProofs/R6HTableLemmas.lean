/-
  R6H — the whole display-name file through `decodeCsvDisplay` with the registry's key map
  (`decode_encode_rows`), for any parent-closed list of exported nodes.
-/
import FtProofs.R6HRowLemmas
namespace Ft.R6H
open Ft Ft.Export Ft.ExportDisplay

/-- "pos" is mapped to at least two columns whose cells are the coordinates of every node -/
def PosMapOK (s : Tracks) (feats : List FeatDesc) (m : NameMap) (ns : List NodeRec) : Prop :=
  ∃ cs, (("pos" : Name), Cols.many cs) ∈ m ∧ 2 ≤ cs.length ∧
    ∀ n ∈ ns, cs.map (cellAt s feats n) = n.pos.map Cell.val

theorem nodup_map_of_inj {α β} (f : α → β) (hf : ∀ a b, f a = f b → a = b) (l : List α)
    (h : l.Nodup) : (l.map f).Nodup := by
  induction l with
  | nil => simp
  | cons a r ih =>
    simp only [List.nodup_cons] at h
    simp only [List.map_cons, List.nodup_cons]
    refine ⟨?_, ih h.2⟩
    intro hm
    obtain ⟨b, hb, e⟩ := List.mem_map.mp hm
    exact h.1 (hf _ _ e ▸ hb)

/-- the two lists have the same length and are related element by element -/
inductive Pointwise {α β} (R : α → β → Prop) : List α → List β → Prop where
  | nil : Pointwise R [] []
  | cons {a b l₁ l₂} : R a b → Pointwise R l₁ l₂ → Pointwise R (a :: l₁) (b :: l₂)

theorem Pointwise.length_eq {α β} {R : α → β → Prop} {l₁ : List α} {l₂ : List β}
    (h : Pointwise R l₁ l₂) : l₁.length = l₂.length := by
  induction h with
  | nil => rfl
  | cons _ _ ih => simp [ih]

theorem Pointwise.get {α β} {R : α → β → Prop} {l₁ : List α} {l₂ : List β}
    (h : Pointwise R l₁ l₂) : ∀ (i : Nat) (h1 : i < l₁.length) (h2 : i < l₂.length),
      R (l₁[i]'h1) (l₂[i]'h2) := by
  induction h with
  | nil => intro i h1; cases h1
  | cons hab _ ih =>
    intro i h1 h2
    cases i with
    | zero => exact hab
    | succ j => exact ih j (by simpa using h1) (by simpa using h2)

theorem allSome_forall2 {α β} (f : α → Option β) (R : α → β → Prop) (l : List α)
    (h : ∀ x ∈ l, ∃ y, f x = some y ∧ R x y) :
    ∃ ys, allSome (l.map f) = some ys ∧ Pointwise R l ys := by
  induction l with
  | nil => exact ⟨[], rfl, Pointwise.nil⟩
  | cons x r ih =>
    obtain ⟨y, hy, hR⟩ := h x (List.mem_cons_self ..)
    obtain ⟨ys, hys, hF⟩ := ih (fun z hz => h z (List.mem_cons_of_mem _ hz))
    refine ⟨y :: ys, ?_, Pointwise.cons hR hF⟩
    simp only [List.map_cons, hy, allSome, hys]
    rfl

theorem time_entry (nax : Nat) (feats : List FeatDesc) (ns : List NodeRec) (f : FeatDesc) (hf : f ∈ feats) (hr : f.role = Role.time) :
    (("time" : Name), f.cols) ∈ nameMapOf nax feats ns := by
  apply mem_nameMapOf_of_feat hf
  unfold entriesOf
  rw [hr]
  simp [stdKey, hr]

theorem links_eq (s : Tracks) (feats : List FeatDesc) (tv lv : Bool) (ns : List NodeRec)
    (rs : List (DNode × Option Nat))
    (hF : Pointwise (fun (n : NodeRec) (r : DNode × Option Nat) =>
      r.2 = parentOf s n.id ∧ Agrees feats tv lv n r.1) ns rs) :
    rs.filterMap linkOf = parentEdges s ns ∧ rs.map (fun r => r.1.id) = ns.map NodeRec.id ∧
      Pointwise (Agrees feats tv lv) ns (rs.map Prod.fst) := by
  induction hF with
  | nil => exact ⟨rfl, rfl, Pointwise.nil⟩
  | @cons n r ns' rs' hnr _ ih =>
    obtain ⟨ih1, ih2, ih3⟩ := ih
    refine ⟨?_, ?_, ?_⟩
    · unfold parentEdges at ih1 ⊢
      rw [List.filterMap_cons, List.filterMap_cons]
      have hl : linkOf r = (parentOf s n.id).map (fun p => (p, n.id)) := by
        unfold linkOf; rw [hnr.1, hnr.2.id]
      rw [hl]
      cases parentOf s n.id with
      | none => simpa using ih1
      | some p => simpa using ih1
    · simp only [List.map_cons, ih2, hnr.2.id]
    · exact Pointwise.cons hnr.2 ih3

section table
variable (s : Tracks) (nax : Nat) (feats : List FeatDesc) (ns : List NodeRec)
  (hR : RegOK nax feats ns)

include hR

theorem prepMap_id (hpos : ∃ cl, (("pos" : Name), cl) ∈ nameMapOf nax feats ns) :
    prepMap (nameMapOf nax feats ns) = nameMapOf nax feats ns := by
  have hM := hR.mapOK
  obtain ⟨cl, hcl⟩ := hpos
  unfold prepMap
  have h1 : (mapKeys (nameMapOf nax feats ns)).contains "pos" = true :=
    List.contains_iff_mem.mpr (List.mem_map.mpr ⟨_, hcl, rfl⟩)
  simp only [h1, if_true]
  rw [List.filter_eq_self]
  intro e he
  obtain ⟨k, c⟩ := e
  cases c with
  | one c => simp
  | many cs =>
    have := (hM.many_ok k cs he).1
    simpa using this

theorem validMap_ok (ht : ∃ f ∈ feats, f.role = Role.time)
    (cs : List Name) (hcs : (("pos" : Name), Cols.many cs) ∈ nameMapOf nax feats ns)
    (hlen : 2 ≤ cs.length) : validMap (headerD feats) (nameMapOf nax feats ns) = true := by
  have hM := hR.mapOK
  obtain ⟨f, hf, hfr⟩ := ht
  have hmem : ∀ k cl, (k, cl) ∈ nameMapOf nax feats ns →
      (mapKeys (nameMapOf nax feats ns)).contains k = true :=
    fun k cl h => List.contains_iff_mem.mpr (List.mem_map.mpr ⟨_, h, rfl⟩)
  unfold validMap
  rw [alook_of_mem_nodup _ hM.keys_nodup _ _ hcs]
  simp only [List.all_cons, List.all_nil, Bool.and_true, Bool.and_eq_true, Bool.or_eq_true,
    decide_eq_true_eq]
  refine ⟨⟨⟨hmem _ _ (time_entry nax feats ns f hf hfr), hmem "id" (Cols.one idName) (by simp [nameMapOf]),
    hmem "parent_id" (Cols.one parentName) (by simp [nameMapOf])⟩, hlen⟩, Or.inr ?_⟩
  rw [List.all_eq_true]
  intro c hc
  exact List.contains_iff_mem.mpr (sources_in_header c hc)

theorem idsUnique_ok (hnd : (ns.map NodeRec.id).Nodup) :
    idsUnique idName ⟨headerD feats, ns.map (rowD s feats)⟩ = true := by
  unfold idsUnique
  simp only [Bool.or_eq_true, Bool.not_eq_true', decide_eq_true_eq]
  right
  rw [List.map_map]
  have : (fun d => (alook idName d).getD Cell.empty) ∘ rowD s feats =
      Cell.nat ∘ NodeRec.id := by
    funext n
    exact (cellAt_id s feats n hR.1 hR.2.1).1
  rw [this, ← List.map_map]
  exact nodup_map_of_inj Cell.nat (fun a b e => Cell.nat.inj e) _ hnd

/-- every loaded column (other than id / parent id) has a value in some row -/
theorem col_live (hok : ∀ n ∈ ns, NodeOK feats n) (hpm : PosMapOK s feats (nameMapOf nax feats ns) ns)
    (n0 : NodeRec) (hn0 : n0 ∈ ns) (t src : Name)
    (hts : (t, src) ∈ flattenMap (nameMapOf nax feats ns)) (h1 : t ≠ "id") (h2 : t ≠ "parent_id") :
    ∃ n ∈ ns, cellAt s feats n src ≠ Cell.empty := by
  have hM := hR.mapOK
  obtain ⟨pcs, hpcs, _, hpcells⟩ := hpm
  -- a column of the position list
  have hposcol : ∀ c ∈ pcs, ∃ n ∈ ns, cellAt s feats n c ≠ Cell.empty := by
    intro c hc
    refine ⟨n0, hn0, ?_⟩
    have : cellAt s feats n0 c ∈ n0.pos.map Cell.val := by
      rw [← hpcells n0 hn0]
      exact List.mem_map.mpr ⟨c, hc, rfl⟩
    obtain ⟨v, _, hv⟩ := List.mem_map.mp this
    rw [← hv]
    intro e; cases e
  -- a feature whose value is an int
  have hnatcase : ∀ (f : FeatDesc), f ∈ feats → ∀ k, attrOf n0 f = some (AVal.nat k) →
      ∀ c, c ∈ f.names → ∃ n ∈ ns, cellAt s feats n c ≠ Cell.empty := by
    intro f hf k ha c hc
    obtain ⟨c0, hc0⟩ := one_of_nat ((hok n0 hn0).1 f hf) ha
    have : c = c0 := by simpa [FeatDesc.names, Cols.names, hc0] using hc
    subst this
    refine ⟨n0, hn0, ?_⟩
    rw [cellAt_one s feats n0 hR.1 hR.2.1 f hf c hc0, ha]
    intro e; cases e
  -- a live other feature
  have hothercase : ∀ (f : FeatDesc), f ∈ feats → f.role = Role.other → live ns f = true →
      ∀ c, c ∈ f.names → ∃ n ∈ ns, cellAt s feats n c ≠ Cell.empty := by
    intro f hf hfr hl c hc
    unfold live at hl
    obtain ⟨n, hn, hv⟩ := List.any_eq_true.mp hl
    cases hvs : alook f.key n.feats with
    | none => rw [hvs] at hv; cases hv
    | some vs =>
      have ha : attrOf n f = some (AVal.vals vs) := by unfold attrOf; rw [hfr, hvs]; rfl
      refine ⟨n, hn, ?_⟩
      cases hcols : f.cols with
      | one c0 =>
        have : c = c0 := by simpa [FeatDesc.names, Cols.names, hcols] using hc
        subst this
        rw [cellAt_one s feats n hR.1 hR.2.1 f hf c hcols, ha]
        have hlen := (hok n hn).2 f hf hfr (by rw [hcols]; rfl)
        rw [hvs] at hlen
        simp only [Option.map_some, Option.getD_some] at hlen
        cases vs with
        | nil => simp at hlen
        | cons v r =>
          cases r with
          | nil => intro e; cases e
          | cons w r' => simp at hlen
      | many cs =>
        have hcm : c ∈ cs := by simpa [FeatDesc.names, Cols.names, hcols] using hc
        have hlen : cs.length = vs.length := by
          have := (hok n hn).1 f hf
          unfold writeOk at this
          rw [hcols, ha] at this
          simpa using this
        have hcells := cellAt_many s feats n hR.1 hR.2.1 f hf cs hcols vs ha hlen
        have : cellAt s feats n c ∈ vs.map Cell.val := by
          rw [← hcells]; exact List.mem_map.mpr ⟨c, hcm, rfl⟩
        obtain ⟨v, _, hv'⟩ := List.mem_map.mp this
        rw [← hv']
        intro e; cases e
  -- which entry does the column come from?
  have hentry : ∀ k cl, (k, cl) ∈ nameMapOf nax feats ns → k ≠ "id" → k ≠ "parent_id" →
      src ∈ cl.names → ∃ n ∈ ns, cellAt s feats n src ≠ Cell.empty := by
    intro k cl he hk1 hk2 hsrc
    by_cases hkp : k = "pos"
    · subst hkp
      have := alook_of_mem_nodup _ hM.keys_nodup _ _ he
      rw [alook_of_mem_nodup _ hM.keys_nodup _ _ hpcs] at this
      cases this
      exact hposcol src (by simpa [Cols.names] using hsrc)
    · rcases mem_nameMapOf.mp he with e | e | ⟨f, hf, hfe⟩
      · exact absurd (congrArg Prod.fst e) hk1
      · exact absurd (congrArg Prod.fst e) hk2
      · rcases entriesOf_cases hfe with ⟨_, e⟩ | ⟨_, e, hl⟩
        · exact absurd (congrArg Prod.fst e) hkp
        · have hk : k = stdKey f := congrArg Prod.fst e
          have hcl : cl = f.cols := congrArg Prod.snd e
          have hsrc' : src ∈ f.names := by rw [hcl] at hsrc; exact hsrc
          cases hr : f.role with
          | time => exact hnatcase f hf n0.time (by unfold attrOf; rw [hr]) src hsrc'
          | tid => exact hnatcase f hf n0.tid (by unfold attrOf; rw [hr]) src hsrc'
          | lin => exact hnatcase f hf n0.lin (by unfold attrOf; rw [hr]) src hsrc'
          | pos => exact absurd (by rw [hk]; simp [stdKey, hr]) hkp
          | axis i => exact absurd (by rw [hk]; simp [stdKey, hr]) hkp
          | other => exact hothercase f hf hr (hl hr) src hsrc'
  rcases mem_flattenMap hts with h | ⟨k, cs, hk, hsrc, _⟩
  · exact hentry t (Cols.one src) h h1 h2 (by simp [Cols.names])
  · have hcm : src ∈ multiCols (nameMapOf nax feats ns) := mem_multiCols.mpr ⟨k, cs, hk, hsrc⟩
    refine hentry k (Cols.many cs) hk ?_ ?_ (by simpa [Cols.names] using hsrc)
    · intro e
      have := alook_of_mem_nodup _ hM.keys_nodup _ _ hk
      rw [e, alook_of_mem_nodup _ hM.keys_nodup "id" (Cols.one idName) (by simp [nameMapOf])] at this
      cases this
    · intro e
      have := alook_of_mem_nodup _ hM.keys_nodup _ _ hk
      rw [e, alook_of_mem_nodup _ hM.keys_nodup "parent_id" (Cols.one parentName)
        (by simp [nameMapOf])] at this
      cases this

theorem loadOk_ok (hok : ∀ n ∈ ns, NodeOK feats n)
    (hpm : PosMapOK s feats (nameMapOf nax feats ns) ns) :
    loadOk (flattenMap (nameMapOf nax feats ns)) (ns.map (rowD s feats)) = true := by
  unfold loadOk
  cases hns : ns with
  | nil => simp
  | cons n0 r =>
    rw [← hns]
    have hn0 : n0 ∈ ns := by rw [hns]; exact List.mem_cons_self ..
    simp only [Bool.or_eq_true]
    right
    rw [List.all_eq_true]
    rintro ⟨t, src⟩ hts
    simp only [Bool.or_eq_true, beq_iff_eq, Bool.not_eq_true']
    by_cases h1 : t = "id"
    · exact Or.inl (Or.inl h1)
    · by_cases h2 : t = "parent_id"
      · exact Or.inl (Or.inr h2)
      · right
        obtain ⟨n, hn, hne⟩ := col_live s nax feats ns hR hok hpm n0 hn0 t src hts h1 h2
        unfold columnEmpty
        rw [Bool.eq_false_iff]
        intro hall
        have := List.all_eq_true.mp hall (rowD s feats n) (List.mem_map.mpr ⟨n, hn, rfl⟩)
        exact hne (by unfold cellAt; simpa using this)

/-- Main table lemma: any list of exported nodes with distinct ids that is closed under
    "parent of" (and has no self-links) is re-imported node by node. -/
theorem decode_encode_rows (tv lv : Bool) (hnd : (ns.map NodeRec.id).Nodup)
    (hcl : ∀ n ∈ ns, ∀ p, parentOf s n.id = some p → p ∈ ns.map NodeRec.id ∧ p ≠ n.id)
    (hok : ∀ n ∈ ns, NodeOK feats n) (ht : ∃ f ∈ feats, f.role = Role.time)
    (hpm : PosMapOK s feats (nameMapOf nax feats ns) ns) :
    ∃ t, decodeCsvDisplay tv lv (nameMapOf nax feats ns) ⟨headerD feats, ns.map (rowD s feats)⟩ = some t ∧
      Pointwise (Agrees feats tv lv) ns t.nodes ∧ t.edges = parentEdges s ns := by
  have hM := hR.mapOK
  obtain ⟨pcs, hpcs, hplen, hpcells⟩ := hpm
  have hrows : ∀ n ∈ ns, ∃ r : DNode × Option Nat,
      decodeRowD tv lv (flattenMap (nameMapOf nax feats ns)) (nameMapOf nax feats ns) (rowD s feats n) = some r ∧
        (r.2 = parentOf s n.id ∧ Agrees feats tv lv n r.1) := by
    intro n hn
    obtain ⟨d, hd, hA⟩ := decodeRow_agrees s nax feats ns hR n tv lv hn (hok n hn) ht
      ⟨pcs, hpcs, hpcells n hn⟩
    exact ⟨(d, parentOf s n.id), hd, rfl, hA⟩
  obtain ⟨rs, hrs, hF⟩ := allSome_forall2 _ _ ns hrows
  obtain ⟨hl1, hl2, hl3⟩ := links_eq s feats tv lv ns rs hF
  have hgraph : graphOk ((rs.map Prod.fst).map DNode.id) (rs.filterMap linkOf) = true := by
    rw [List.map_map, show (DNode.id ∘ Prod.fst) = (fun r : DNode × Option Nat => r.1.id) from rfl,
      hl1, hl2]
    unfold graphOk
    simp only [Bool.and_eq_true, decide_eq_true_eq, List.all_eq_true, List.contains_iff_mem,
      bne_iff_ne, ne_eq]
    refine ⟨⟨hnd, ?_⟩, nodup_parentEdges s ns hnd⟩
    rintro ⟨p, c⟩ hpc
    obtain ⟨n, hn, hid, hpar⟩ := mem_parentEdges.mp hpc
    have := hcl n hn p (hid ▸ hpar)
    exact ⟨this.1, hid ▸ this.2⟩
  refine ⟨⟨rs.map Prod.fst, rs.filterMap linkOf⟩, ?_, hl3, hl1⟩
  unfold decodeCsvDisplay
  simp only
  rw [prepMap_id nax feats ns hR ⟨_, hpcs⟩,
    validMap_ok nax feats ns hR ht pcs hpcs hplen,
    alook_of_mem_nodup _ hM.keys_nodup "id" (Cols.one idName) (by simp [nameMapOf])]
  simp only [Bool.not_true, Bool.false_eq_true, if_false]
  rw [idsUnique_ok s nax feats ns hR hnd, hM.kept,
    loadOk_ok s nax feats ns hR hok ⟨pcs, hpcs, hplen, hpcells⟩]
  simp only [Bool.not_true, Bool.false_eq_true, if_false]
  rw [List.map_map]
  rw [show (decodeRowD tv lv (flattenMap (nameMapOf nax feats ns)) (nameMapOf nax feats ns) ∘ rowD s feats) =
    (fun x => decodeRowD tv lv (flattenMap (nameMapOf nax feats ns)) (nameMapOf nax feats ns) (rowD s feats x))
    from rfl, hrs]
  simp only [hgraph, if_true]

end table

/-! ### how the registry provides the position -/

def manyLen : Cols → Option Nat
  | .many cs => some cs.length
  | .one _ => none

/-- one position feature with one column per axis (`pos_attr` a single key) -/
def PosFeat (nax : Nat) (feats : List FeatDesc) : Prop :=
  ∃ f ∈ feats, f.role = Role.pos ∧ manyLen f.cols = some nax

/-- one single-column feature per axis (`pos_attr` a list of keys) -/
def AxisFeats (nax : Nat) (feats : List FeatDesc) : Prop :=
  (∃ f ∈ feats, f.role = Role.axis 0) ∧
  ∀ i, i < nax → ((feats.find? (fun f => f.role == Role.axis i)).bind (fun f => oneName f.cols)).isSome

instance (nax : Nat) (feats : List FeatDesc) : Decidable (PosFeat nax feats) := by
  unfold PosFeat; exact inferInstance

instance (nax : Nat) (feats : List FeatDesc) : Decidable (AxisFeats nax feats) := by
  unfold AxisFeats; exact inferInstance

theorem posMapOK_of_pos (s : Tracks) (nax : Nat) (feats : List FeatDesc) (ns : List NodeRec)
    (hR : RegOK nax feats ns) (hnax : 2 ≤ nax) (hp : PosFeat nax feats)
    (hlen : ∀ n ∈ ns, n.pos.length = nax) :
    PosMapOK s feats (nameMapOf nax feats ns) ns := by
  obtain ⟨f, hf, hr, hc⟩ := hp
  cases hcols : f.cols with
  | one c => rw [hcols] at hc; cases hc
  | many cs =>
    rw [hcols] at hc
    have hcl : cs.length = nax := by simpa [manyLen] using hc
    refine ⟨cs, ?_, by omega, ?_⟩
    · apply mem_nameMapOf_of_feat hf
      unfold entriesOf
      rw [hr]
      simp [stdKey, hr, hcols]
    · intro n hn
      have ha : attrOf n f = some (AVal.vals n.pos) := by
        unfold attrOf
        rw [hr]
        have := hlen n hn
        cases hpos : n.pos with
        | nil => rw [hpos] at this; simp at this; omega
        | cons a r => rfl
      exact cellAt_many s feats n hR.1 hR.2.1 f hf cs hcols n.pos ha (by rw [hcl, hlen n hn])

theorem filterMap_map_eq {α β γ} (h : α → Option β) (φ : β → γ) (ψ : α → γ) (l : List α)
    (hh : ∀ i ∈ l, ∃ c, h i = some c ∧ φ c = ψ i) : (l.filterMap h).map φ = l.map ψ := by
  induction l with
  | nil => rfl
  | cons a r ih =>
    obtain ⟨c, hc, hφ⟩ := hh a (List.mem_cons_self ..)
    rw [List.filterMap_cons, hc]
    simp only [List.map_cons, hφ]
    rw [ih (fun i hi => hh i (List.mem_cons_of_mem _ hi))]

theorem filterMap_length_eq {α β} (h : α → Option β) (l : List α)
    (hh : ∀ i ∈ l, (h i).isSome) : (l.filterMap h).length = l.length := by
  induction l with
  | nil => rfl
  | cons a r ih =>
    have := hh a (List.mem_cons_self ..)
    cases ha : h a with
    | none => rw [ha] at this; cases this
    | some c =>
      rw [List.filterMap_cons, ha]
      simp [ih (fun i hi => hh i (List.mem_cons_of_mem _ hi))]

theorem posMapOK_of_axes (s : Tracks) (nax : Nat) (feats : List FeatDesc) (ns : List NodeRec)
    (hR : RegOK nax feats ns) (hnax : 2 ≤ nax) (hp : AxisFeats nax feats)
    (hlen : ∀ n ∈ ns, n.pos.length = nax) :
    PosMapOK s feats (nameMapOf nax feats ns) ns := by
  obtain ⟨⟨f0, hf0, hr0⟩, hax⟩ := hp
  refine ⟨axisCols nax feats, ?_, ?_, ?_⟩
  · apply mem_nameMapOf_of_feat hf0
    unfold entriesOf
    rw [hr0]
    simp
  · unfold axisCols
    rw [filterMap_length_eq _ _ (fun i hi => hax i (List.mem_range.mp hi))]
    simpa using hnax
  · intro n hn
    have hl := hlen n hn
    unfold axisCols
    rw [filterMap_map_eq _ (cellAt s feats n) (fun i => Cell.val (n.pos.getD i 0))]
    · rw [← hl, show (fun i => Cell.val (n.pos.getD i 0)) = Cell.val ∘ (fun i => n.pos.getD i 0) from rfl,
        ← List.map_map, range_map_getD]
    · intro i hi
      have hi' : i < nax := List.mem_range.mp hi
      have hsome := hax i hi'
      cases hfind : feats.find? (fun f => f.role == Role.axis i) with
      | none => rw [hfind] at hsome; cases hsome
      | some g =>
        rw [hfind] at hsome
        simp only [Option.bind_some] at hsome ⊢
        have hg : g ∈ feats := List.mem_of_find?_eq_some hfind
        have hgr : g.role = Role.axis i := by simpa using List.find?_some hfind
        cases hgc : g.cols with
        | many cs => rw [hgc] at hsome; cases hsome
        | one c =>
          refine ⟨c, rfl, ?_⟩
          rw [cellAt_one s feats n hR.1 hR.2.1 g hg c hgc]
          unfold attrOf
          rw [hgr]
          have hlt : i < n.pos.length := by omega
          simp [List.getElem?_eq_getElem hlt, singleCell, List.getD_eq_getElem?_getD]

/-! ### the graph side -/

/-- no edge from a node to itself (the importer refuses such a file) -/
def NoSelf (s : Tracks) : Prop := ∀ e ∈ s.edges, e.src ≠ e.dst

instance (s : Tracks) : Decidable (NoSelf s) := by unfold NoSelf; exact inferInstance

theorem NoSelf.of_timeInc {s : Tracks} (h : TimeInc s) : NoSelf s := by
  intro e he hse
  have := h e he
  rw [hse] at this
  exact Nat.lt_irrefl _ this

theorem exported_ids_nodup (s : Tracks) (sel : Option (List Nat)) (h : (ids s).Nodup) :
    ((exported s sel).map NodeRec.id).Nodup := by
  cases sel with
  | none => exact h
  | some l => exact List.Nodup.sublist (List.Sublist.map _ List.filter_sublist) h

/-- the node id a row shows in its ID column -/
def rowNodeId (d : DictD) : Option Nat :=
  match alook idName d with
  | some (.nat k) => some k
  | _ => none

theorem rows_ids (s : Tracks) (feats : List FeatDesc) (sel : Option (List Nat))
    (hn : (headerD feats).Nodup) (hk : NoIdKey feats) :
    (encodeCsvDisplay s feats sel).rows.filterMap rowNodeId = (exported s sel).map NodeRec.id := by
  show ((exported s sel).map (rowD s feats)).filterMap rowNodeId = _
  rw [List.filterMap_map]
  have : (rowNodeId ∘ rowD s feats) = (fun n => some n.id) := by
    funext n
    have h1 := (cellAt_id s feats n hn hk).1
    unfold cellAt at h1
    show rowNodeId (rowD s feats n) = _
    unfold rowNodeId
    cases ha : alook idName (rowD s feats n) with
    | none =>
      exfalso
      have : idName ∈ headerD feats := by simp [headerD]
      unfold rowD complete at ha
      rw [alook_map_self _ _ _ this] at ha
      cases ha
    | some c =>
      rw [ha] at h1
      simp only [Option.getD_some] at h1
      rw [h1]
  rw [this]
  generalize exported s sel = l
  induction l with
  | nil => rfl
  | cons a r ih => simp [ih]

theorem exportOk_of_nodeOK (s : Tracks) (feats : List FeatDesc) (sel : Option (List Nat))
    (hk : NoIdKey feats) (hok : ∀ n ∈ s.nodes, NodeOK feats n) : exportOk s feats sel = true := by
  unfold exportOk
  rw [colMapGet_default feats "id" idName (fun f hf => (hk f hf).1),
    colMapGet_default feats "parent_id" parentName (fun f hf => (hk f hf).2)]
  simp only [Option.isSome_some, Bool.and_self, Bool.or_true, Bool.true_and, List.all_eq_true]
  intro n hn f hf
  exact (hok n (exported_sub s sel n hn)).1 f hf

end Ft.R6H
