/-
  FtProofs.R3DGenLemmas — package R3D: generic lemmas for the user-level C01 of a paint (`UserUpdateSegmentation`), read
  against the UNPAINTED start state.

  §1  generic: splitting a chain at its last record; `AddNode` / `DeleteNode` records whose pixel
      lists have the same members are interchangeable (`law_delNode_px`, `uDeleteNode_px_congr`).
  §2  `UpdateNodeSeg` commutes with swapping the array (`updRes_swap`).
  §3  the bundle `Inv` through `UpdateNodeSeg`.
-/
import FtProofs.R3DBase
import FtProofs.R3DSimLemmas

namespace Ft.R3D
open Ft Ft.St Ft.R2A1 Ft.R3P List

/-! ## §1 generic lemmas -/

/-- a chain that ends with the record `r` splits into the chain before and the law of `r` -/
theorem chain_snoc_inv : ∀ {init : List PrimRec} {s t : St} {r : PrimRec},
    Chain E s (init ++ [r]) t → ∃ mid, Chain E s init mid ∧ InvLaw E mid r t
  | [], s, t, r, h => by
    cases h with
    | cons hl hc =>
      cases hc with
      | nil he => exact ⟨s, chain_nil s, law_congr hl (E_isEquiv.refl _) he⟩
  | x :: init, s, t, r, h => by
    cases h with
    | cons hl hc =>
      obtain ⟨mid, h1, h2⟩ := chain_snoc_inv hc
      exact ⟨mid, Chain.cons hl h1, h2⟩

/-- the inverse of an `AddNode` record does not read the recorded pixels -/
theorem invLaw_addNode_px {a b : St} {r : NodeRec} {p1 p2 : Option (List Pix)}
    (h : InvLaw E b (.addNode r p1) a) : InvLaw E b (.addNode r p2) a := by
  intro k
  cases k with
  | zero => trivial
  | succ k => exact h (k + 1)

theorem setPixels_congr_mem (g : Seg) {px c : List Pix} (hm : ∀ p, p ∈ px ↔ p ∈ c) (v : Nat) :
    g.setPixels px v = g.setPixels c v := by
  apply Seg.ext_getD
  · rfl
  · simp
  · intro i _
    rw [Seg.setPixels_getD, Seg.setPixels_getD]
    simp only [hm]

/-- `AddNode` with another list of the same pixels -/
theorem pAddNode_px_congr {s s' : St} {r : NodeRec} {c px : List Pix} {rec : PrimRec}
    (hm : ∀ p, p ∈ px ↔ p ∈ c) (h : s.pAddNode r (some c) = .ok (s', rec)) :
    s.pAddNode r (some px) = .ok (s', .addNode r (some px)) := by
  cases hs : s.seg with
  | none => unfold pAddNode at h; simp [hs] at h
  | some g =>
    unfold pAddNode at h ⊢
    simp only [hs, Option.isNone_some, Bool.false_and, Bool.false_eq_true, if_false, Option.isSome_some,
      Bool.and_false] at h ⊢
    rw [setPixels_congr_mem g hm]
    simp only [Except.ok.injEq, Prod.mk.injEq] at h ⊢
    exact ⟨h.1, trivial⟩

/-- a `DeleteNode` record with another list of the same pixels satisfies the same law -/
theorem law_delNode_px {a b : St} {saved : NodeRec} {c px : List Pix} (hm : ∀ p, p ∈ px ↔ p ∈ c)
    (h : InvLaw E a (.delNode saved (some c)) b) : InvLaw E a (.delNode saved (some px)) b := by
  intro k
  cases k with
  | zero => trivial
  | succ k =>
    intro b' he
    obtain ⟨a₂, r', hinv, he2, hl⟩ := h.step he
    have hinv' : b'.pAddNode saved (some c) = .ok (a₂, r') := hinv
    have hr' : r' = .addNode saved (some c) := (pAddNode_ok_sg hinv').1
    refine ⟨a₂, _, pAddNode_px_congr hm hinv', he2, ?_⟩
    rw [hr'] at hl
    exact invLaw_addNode_px hl k

/-- `DeleteNode` with another list of the same pixels: same result, same saved attributes -/
theorem pDelNode_px_congr {st F : St} {n : Node} {px c : List Pix} {r : PrimRec}
    (hm : ∀ p, p ∈ px ↔ p ∈ c) (h : st.pDelNode n (some px) = .ok (F, r)) :
    ∃ saved, r = .delNode saved (some px) ∧ st.pDelNode n (some c) = .ok (F, .delNode saved (some c)) := by
  unfold pDelNode at h ⊢
  cases hf : st.findNode n with
  | none => rw [hf] at h; cases h
  | some r0 =>
    rw [hf] at h
    simp only at h ⊢
    cases hs : st.seg with
    | none =>
      simp only [hs, Except.ok.injEq, Prod.mk.injEq] at h ⊢
      exact ⟨_, h.2.symm, h.1, rfl⟩
    | some g =>
      simp only [hs, Except.ok.injEq, Prod.mk.injEq] at h ⊢
      rw [← setPixels_congr_mem g hm]
      exact ⟨_, h.2.symm, h.1, rfl⟩

theorem thenPrim_delNode_px {a : UOut} {n : Node} {px c : List Pix} {recs : List PrimRec}
    (hm : ∀ p, p ∈ px ↔ p ∈ c)
    (h : (thenPrim a (fun st => st.pDelNode n (some px))).2 = .ok recs) :
    ∃ init saved, recs = init ++ [.delNode saved (some px)] ∧
      thenPrim a (fun st => st.pDelNode n (some c)) =
        ((thenPrim a (fun st => st.pDelNode n (some px))).1, .ok (init ++ [.delNode saved (some c)])) := by
  obtain ⟨r0, s', r, h0, h1, h2, h3⟩ := thenPrim_ok h
  obtain ⟨saved, hr, hc⟩ := pDelNode_px_congr hm h1
  refine ⟨r0, saved, by rw [h3, hr], ?_⟩
  rw [h2]
  unfold thenPrim
  simp only [h0, hc]

/-- `UserDeleteNode` with another list of the same pixels: same result; the records differ in the
    pixel list of the final `DeleteNode` record only -/
theorem uDeleteNode_px_congr {s : St} {n : Node} {px c : List Pix} {recs : List PrimRec}
    (hm : ∀ p, p ∈ px ↔ p ∈ c) (hok : (s.uDeleteNode n (some px)).2 = .ok recs) :
    ∃ init saved, recs = init ++ [.delNode saved (some px)] ∧
      s.uDeleteNode n (some c) = ((s.uDeleteNode n (some px)).1, .ok (init ++ [.delNode saved (some c)])) := by
  rw [uDeleteNode_eq_sg] at hok
  rw [uDeleteNode_eq_sg, uDeleteNode_eq_sg]
  split
  · rename_i hn; simp only [hn, if_true] at hok; cases hok
  · rename_i hn
    simp only [hn] at hok
    split
    · rename_i heq; simp only [heq] at hok; cases hok
    · rename_i heq
      simp only [heq] at hok
      unfold udnTail at hok ⊢
      split
      · rename_i h1; simp only [h1] at hok; cases hok
      · rename_i h1 h2 h3
        simp only [h1, h2, h3] at hok ⊢
        exact thenPrim_delNode_px hm hok
      · rename_i _ h2 h3
        exfalso
        generalize udnA1 (s.udnA0 n) n = a1 at hok h2 h3
        rw [h2] at hok
        cases ht : a1.1.tidOf n with
        | none => rw [ht] at hok; cases hok
        | some t =>
          cases hm' : a1.1.timeOf n with
          | none => rw [ht, hm'] at hok; cases hok
          | some tm => exact h3 t tm ht hm'

/-! ## §2 `UpdateNodeSeg` commutes with swapping the array -/

theorem withSeg_self {s : St} {g : Seg} (h : s.seg = some g) : s.withSeg g = s := by
  cases s
  simp only [withSeg] at h ⊢
  subst h
  rfl

theorem iouOf_swap_nodes {Y X : St} (hn : ∀ m, Y.timeOf m = X.timeOf m) (A : Seg) (e : Edge) :
    (Y.withSeg A).iouOf e = (X.withSeg A).iouOf e :=
  iouOf_of_time (s := X.withSeg A) (t := Y.withSeg A) rfl hn e

theorem updE_swap {Y : St} {A' B' : Seg} {e : Edge}
    (h : (Y.withSeg A').iouOf e = (Y.withSeg B').iouOf e) :
    (Y.withSeg A').iouUpdateEdge e = ((Y.withSeg B').iouUpdateEdge e).withSeg A' := by
  unfold iouUpdateEdge
  simp only [withSeg_iouKey, withSeg_iouActive, withSeg_seg, Option.isSome_some, Bool.and_true]
  cases Y.iouKey with
  | none => rfl
  | some k =>
    simp only
    split
    · rw [h]; rfl
    · rfl

theorem foldl_updE_swap {A' B' : Seg} : ∀ (es : List Edge) (Y : St),
    (∀ e ∈ es, (Y.withSeg A').iouOf e = (Y.withSeg B').iouOf e) →
    es.foldl iouUpdateEdge (Y.withSeg A') = (es.foldl iouUpdateEdge (Y.withSeg B')).withSeg A'
  | [], _, _ => rfl
  | e :: es, Y, h => by
    rw [foldl_cons, foldl_cons, updE_swap (h e mem_cons_self)]
    obtain ⟨f1, f2, _, _, _⟩ := iouUpdateEdge_frame (Y.withSeg B') e
    have hY1 : ((Y.withSeg B').iouUpdateEdge e).withSeg B' = (Y.withSeg B').iouUpdateEdge e :=
      withSeg_self f2
    have htm : ∀ m, ((Y.withSeg B').iouUpdateEdge e).timeOf m = Y.timeOf m := by
      intro m; unfold timeOf findNode; rw [f1]; rfl
    have := foldl_updE_swap (A' := A') (B' := B') es ((Y.withSeg B').iouUpdateEdge e) (by
      intro e' he'
      rw [iouOf_swap_nodes htm, iouOf_swap_nodes htm]
      exact h e' (mem_cons_of_mem _ he'))
    rw [hY1] at this
    exact this

theorem foldl_setOther_withSeg (n : Node) (v : Val) (A : Seg) : ∀ (ks : List Key) (st : St),
    ks.foldl (fun st k => st.setOther n k v) (st.withSeg A) =
      (ks.foldl (fun st k => st.setOther n k v) st).withSeg A
  | [], _ => rfl
  | k :: ks, st => by
    rw [foldl_cons, foldl_cons]
    exact foldl_setOther_withSeg n v A ks (st.setOther n k v)

theorem rpUpdate_withSeg_some (st : St) (X : Seg) (n : Node) (t : Nat) (h : st.timeOf n = some t) :
    (st.withSeg X).rpUpdate n = if st.rpActive.isEmpty then st.withSeg X else
      st.rpActive.foldl (fun s k => s.setOther n k
        (if (X.pixelsOf t n).isEmpty then Val.none else Val.mask (X.pixelsOf t n))) (st.withSeg X) := by
  have ht : (st.withSeg X).timeOf n = some t := h
  unfold rpUpdate
  rw [ht]
  rfl

theorem rpUpdate_withSeg_none (st : St) (X : Seg) (n : Node) (h : st.timeOf n = none) :
    (st.withSeg X).rpUpdate n = st.withSeg X := by
  have ht : (st.withSeg X).timeOf n = none := h
  unfold rpUpdate
  rw [ht]
  rfl

theorem rpUpdate_swap {st : St} {A' B' : Seg} {n : Node}
    (hpx : ∀ t, st.timeOf n = some t → A'.pixelsOf t n = B'.pixelsOf t n) :
    (st.withSeg A').rpUpdate n = ((st.withSeg B').rpUpdate n).withSeg A' := by
  cases h : st.timeOf n with
  | none => rw [rpUpdate_withSeg_none _ _ _ h, rpUpdate_withSeg_none _ _ _ h]; rfl
  | some t =>
    rw [rpUpdate_withSeg_some _ _ _ _ h, rpUpdate_withSeg_some _ _ _ _ h]
    by_cases hc : st.rpActive.isEmpty = true
    · rw [if_pos hc, if_pos hc]; rfl
    · rw [if_neg hc, if_neg hc, hpx t h, foldl_setOther_withSeg, foldl_setOther_withSeg]
      rfl

/-- the state after `UpdateNodeSeg` with the array swapped: the regionprops values of the node and
    the IoU of its incident edges are computed from the same masks -/
theorem updRes_swap {st : St} {A' B' : Seg} {n : Node}
    (hpx : ∀ t, st.timeOf n = some t → A'.pixelsOf t n = B'.pixelsOf t n)
    (hiou : ∀ e ∈ st.incident n, (st.withSeg A').iouOf e = (st.withSeg B').iouOf e) :
    updRes st A' n = (updRes st B' n).withSeg A' := by
  unfold updRes
  rw [rpUpdate_swap hpx, iouUpdateNode_eq, iouUpdateNode_eq]
  have hseg : ((st.withSeg B').rpUpdate n).seg = some B' := rpUpdate_seg _ _
  have hinc : (((st.withSeg B').rpUpdate n).withSeg A').incident n = st.incident n := by
    unfold incident; rw [withSeg_edges, rpUpdate_edges]; rfl
  have hinc' : ((st.withSeg B').rpUpdate n).incident n = st.incident n := by
    unfold incident; rw [rpUpdate_edges]; rfl
  have htm : ∀ m, ((st.withSeg B').rpUpdate n).timeOf m = st.timeOf m := fun m =>
    timeOf_of_skel_sg (rpUpdate_skel _ _) m
  rw [hinc, hinc']
  have := foldl_updE_swap (A' := A') (B' := B') (st.incident n) ((st.withSeg B').rpUpdate n) (by
    intro e he
    rw [iouOf_swap_nodes htm, iouOf_swap_nodes htm]
    exact hiou e he)
  rw [withSeg_self hseg] at this
  exact this

end Ft.R3D
