/-
  FtProofs.R6PMeasLemmas — package R6P, part 3: the node clause `RpOK` (C08) and the edge clause
  `IouOK` (C09) of `MeasOK` through the primitive protocol on arbitrary graphs.

  * `rp_prim` / `iou_prim`   one accepted primitive under `Str` and `PrimPre`;
  * `rpCompute_keep`         what the bulk regionprops computation leaves alone: every key that is
                             not requested / not active, and every node whose id is no label of the array;
  * `rp_enable` / `iou_enable`, `rp_disable` / `iou_disable`   feature switching;
    `EnPre8`: `enable ks false` may not activate a new regionprops key; `enable ks true` needs every
              node WITHOUT pixels to store an explicit `None` under every key it newly activates
              (the bulk path only visits labels that occur in the array — see the witnesses in
              `Props/C08_R6P.lean`);
    `EnPre9`: `enable ks false` may not activate the IoU key;
  * `closedRp`, `closedIou`  the `Closed` instances for `Str ∧ RpOK`, `Str ∧ IouOK`.
-/
import FtProofs.R6PStrLemmas
import FtProofs.Props.C08
import FtProofs.Props.C09
namespace Ft.R6P
open Ft Ft.St Ft.R2G List

/-! ### 0. `Str` in terms of node records -/

theorem Str.ids_nodup {s : St} (h : Str s) : s.ids.Nodup := by
  obtain ⟨⟨g, -, hK⟩, -⟩ := h
  rw [ids_eq_skel_sg]; exact hK.nodup

theorem Str.id_ne_zero {s : St} (h : Str s) : ∀ r ∈ s.nodes, r.id ≠ 0 := by
  obtain ⟨⟨g, -, hK⟩, -⟩ := h
  intro r hr; exact hK.nz _ (mem_skel_of_mem hr)

theorem Str.mem_ids_ne_zero {s : St} (h : Str s) {n : Node} (hn : n ∈ s.ids) : n ≠ 0 := by
  obtain ⟨r, hr, rfl⟩ := List.mem_map.1 hn
  exact h.id_ne_zero r hr

theorem Str.labelsInFrame {s : St} (h : Str s) {g : Seg} (hg : s.seg = some g) : LabelsInFrame s g := by
  obtain ⟨⟨g', hg', hK⟩, -⟩ := h
  rw [hg] at hg'; cases hg'
  intro i hi _ r hr hid
  exact hK.lab i hi _ (mem_skel_of_mem hr) hid.symm

theorem Str.wf {s : St} (h : Str s) {g : Seg} (hg : s.seg = some g) : g.WF := by
  obtain ⟨⟨g', hg', hK⟩, -⟩ := h
  rw [hg] at hg'; cases hg'; exact hK.wf

theorem Str.esrc {s : St} (h : Str s) : ∀ e ∈ s.edgeList, e.1 ∈ s.ids := by
  obtain ⟨⟨g, -, hK⟩, -⟩ := h
  intro e he; rw [ids_eq_skel_sg]; exact hK.esrc e he

theorem Str.edst {s : St} (h : Str s) : ∀ e ∈ s.edgeList, e.2 ∈ s.ids := by
  obtain ⟨⟨g, -, hK⟩, -⟩ := h
  intro e he; rw [ids_eq_skel_sg]; exact hK.edst e he

theorem Str.edges_nodup {s : St} (h : Str s) : s.edgeList.Nodup := by
  obtain ⟨⟨g, -, hK⟩, -⟩ := h
  exact hK.enod

theorem Str.time_lt {s : St} (h : Str s) {g : Seg} (hg : s.seg = some g) : ∀ r ∈ s.nodes, r.time < g.nframes := by
  obtain ⟨⟨g', hg', hK⟩, -⟩ := h
  rw [hg] at hg'; cases hg'
  intro r hr; exact hK.time _ (mem_skel_of_mem hr)

/-! ### 1. `RpOK` through one primitive -/

theorem rp_prim {s s' : St} {c : PCmd} {r : PrimRec} (hS : Str s) (hR : RpOK s) (hpre : PrimPre s c)
    (h : c.run s = .ok (s', r)) : RpOK s' := by
  have hnd := hS.ids_nodup
  have h0 := hS.id_ne_zero
  obtain ⟨g, hg⟩ : ∃ g, s.seg = some g := by obtain ⟨⟨g, hg, -⟩, -⟩ := hS; exact ⟨g, hg⟩
  cases c with
  | addEdge e a => exact C08_meas_step_noarray s s' r hR (Or.inl ⟨e, a, h⟩)
  | delEdge e => exact C08_meas_step_noarray s s' r hR (Or.inr (Or.inl ⟨e, h⟩))
  | updTid st t l => exact C08_meas_step_noarray s s' r hR (Or.inr (Or.inr ⟨st, t, l, h⟩))
  | addNode nr px =>
    obtain ⟨hnew, -, -, -, hpx⟩ := AddNodePre.out hpre hg
    refine C08_meas_step_addNode s s' nr px r hnd hnew hR ?_ h
    intro ps g' hps hg' r' hr'
    rw [hg] at hg'; cases hg'
    refine ⟨fun e => ?_, fun p hp _ e => ?_⟩
    · have : s.hasNode nr.id = true := (hasNode_iff_mem_ids_sg _ _).2 (List.mem_map.2 ⟨r', hr', e⟩)
      rw [hnew] at this; cases this
    · rw [(hpx ps hps p hp).2.2] at e
      exact h0 r' hr' e.symm
  | delNode n px =>
    refine C08_meas_step_delNode s s' n px r hR ?_ h
    intro ps g' hdp hg' r' hr' hne
    rw [hg] at hg'; cases hg'
    refine ⟨h0 r' hr', fun p hp _ e => ?_⟩
    have hcar : g.data.getD p 0 = n := by
      cases px with
      | some ps0 =>
        simp only [delPixels, Option.some.injEq] at hdp
        subst hdp
        exact DelNodePre.out hpre hg rfl p hp
      | none =>
        simp only [delPixels, getPixels, hg] at hdp
        cases ht : s.timeOf n with
        | none => rw [ht] at hdp; cases hdp
        | some t =>
          rw [ht] at hdp
          simp only [Option.some.injEq] at hdp
          subst hdp
          exact (Seg.mem_pixelsOf.1 hp).2.2
    exact hne (e.symm.trans hcar)
  | updSeg n ps added =>
    refine C08_meas_step_updSeg s s' n ps added r g hg hnd hR ?_ h
    intro r' hr' hne
    obtain ⟨-, -, -, -, -, hn, -⟩ := shape_pUpdSeg h
    obtain ⟨t, ht⟩ : ∃ t, s.timeOf n = some t := by
      rw [hasNode_eq_timeOf_sg] at hn; exact Option.isSome_iff_exists.1 hn
    obtain ⟨pa, pr⟩ := UpdSegPre.out hpre hg ht
    cases added with
    | true =>
      refine ⟨by simpa using hne, fun p hp _ e => ?_⟩
      rw [(pa rfl p hp).2.2] at e
      exact h0 r' hr' e.symm
    | false =>
      refine ⟨by simpa using h0 r' hr', fun p hp _ e => ?_⟩
      exact hne (e.symm.trans (pr rfl p hp))
  | updAttrs n a =>
    exact C08_meas_step_updAttrs s s' n a r hR hS.2 h

/-! ### 2. `IouOK` through one primitive -/

theorem iouOK_congr {s s' : St} (hseg : s'.seg = s.seg) (hskel : s'.skel = s.skel)
    (hedges : ∀ er ∈ s'.edges, er ∈ s.edges) (hk : s'.iouKey = s.iouKey)
    (ha : s'.iouActive = true → s.iouActive = true) (h : IouOK s) : IouOK s' := by
  intro g hg hact k hkey er her
  rw [iouOf_congr' hseg hskel]
  exact h g (hseg ▸ hg) (ha hact) k (hk ▸ hkey) er (hedges er her)

theorem iouKey_cfg {s t : St} (h : t.cfg = s.cfg) : t.iouKey = s.iouKey := iouKey_of_cfg h
theorem iouActive_cfg {s t : St} (h : t.cfg = s.cfg) : t.iouActive = s.iouActive := iouActive_of_cfg h

/-- `iouOf` only reads the array through the offsets of the two endpoint labels -/
theorem iouOf_congr_off {s s' : St} {g g' : Seg} {e : Edge} (hg : s.seg = some g) (hg' : s'.seg = some g')
    (h1 : s'.timeOf e.1 = s.timeOf e.1) (h2 : s'.timeOf e.2 = s.timeOf e.2)
    (o1 : ∀ t, g'.offsetsOf t e.1 = g.offsetsOf t e.1) (o2 : ∀ t, g'.offsetsOf t e.2 = g.offsetsOf t e.2) :
    s'.iouOf e = s.iouOf e := by
  simp only [iouOf, hg, hg', h1, h2]
  cases s.timeOf e.1 with
  | none => rfl
  | some t1 =>
    cases s.timeOf e.2 with
    | none => rfl
    | some t2 => simp only [o1, o2]

theorem timeOf_append_ne {s s' : St} {n t : Nat} (h : s'.skel = s.skel ++ [(n, t)]) {m : Node}
    (hm : m ∈ s.ids) : s'.timeOf m = s.timeOf m := by
  rw [timeOf_eq_skel_sg, timeOf_eq_skel_sg, h, List.find?_append]
  rw [ids_eq_skel_sg] at hm
  obtain ⟨p, hp, hpm⟩ := List.mem_map.1 hm
  have : (s.skel.find? (fun p => p.1 == m)).isSome = true := by
    rw [List.find?_isSome]; exact ⟨p, hp, by simp [hpm]⟩
  obtain ⟨q, hq⟩ := Option.isSome_iff_exists.1 this
  rw [hq]; rfl

theorem timeOf_filter_ne {s s' : St} {n : Nat} (h : s'.skel = s.skel.filter (·.1 != n)) {m : Node}
    (hm : m ≠ n) : s'.timeOf m = s.timeOf m := by
  rw [timeOf_eq_skel_sg, timeOf_eq_skel_sg, h]
  congr 1
  induction s.skel with
  | nil => rfl
  | cons p l ih =>
    rw [List.filter_cons, List.find?_cons]
    by_cases hp : p.1 = n
    · have h1 : (p.1 != n) = false := by simp [hp]
      have h2 : (p.1 == m) = false := by
        simp only [beq_eq_false_iff_ne, ne_eq]; rw [hp]; exact fun e => hm e.symm
      rw [h1, h2]
      simpa using ih
    · have h1 : (p.1 != n) = true := by simpa using hp
      rw [h1]
      simp only [if_true, List.find?_cons, ih]

theorem iou_prim {s s' : St} {c : PCmd} {r : PrimRec} (hS : Str s) (hI : IouOK s) (hpre : PrimPre s c)
    (h : c.run s = .ok (s', r)) : IouOK s' := by
  have hnd := hS.ids_nodup
  obtain ⟨g, hg⟩ : ∃ g, s.seg = some g := by obtain ⟨⟨g, hg, -⟩, -⟩ := hS; exact ⟨g, hg⟩
  -- labels of edge endpoints are non-zero node ids
  have hend : ∀ er ∈ s.edges, er.e.1 ∈ s.ids ∧ er.e.2 ∈ s.ids := fun er her =>
    ⟨hS.esrc _ (List.mem_map.2 ⟨er, her, rfl⟩), hS.edst _ (List.mem_map.2 ⟨er, her, rfl⟩)⟩
  cases c with
  | addEdge e a =>
    obtain ⟨-, -, -, rfl⟩ := pAddEdge_ok_sg h
    intro g' hg' hact k hkey er her
    have hk1 : (s.addEdgeRaw e a).iouKey = some k := by rw [iouUpdateEdge_iouKey] at hkey; exact hkey
    have ha1 : (s.addEdgeRaw e a).iouActive = true := by rw [iouUpdateEdge_iouActive] at hact; exact hact
    have hs1 : (s.addEdgeRaw e a).seg.isSome = true := by rw [addEdgeRaw_seg, hg]; rfl
    rw [iouOf_iouUpdateEdge]
    by_cases hee : er.e = e
    · rw [hee]; exact mem_iouUpdateEdge_eq hk1 ha1 hs1 her hee
    · have hmem := addEdgeRaw_ne (mem_iouUpdateEdge_ne her hee) hee
      rw [iouOf_congr_sg (addEdgeRaw_seg ..) (addEdgeRaw_nodes ..)]
      exact hI g hg (by rw [← ha1, addEdgeRaw_iouActive]) k (by rw [← hk1, addEdgeRaw_iouKey]) er hmem
  | delEdge e =>
    obtain ⟨e1, e2, e3, -⟩ := shape_pDelEdge h
    have hc := cfg_pDelEdge h
    refine iouOK_congr e1 (by simp only [St.skel, e2]) ?_ (iouKey_cfg hc) (fun ha => by rw [← iouActive_cfg hc]; exact ha) hI
    intro er her; rw [e3] at her; exact (List.mem_filter.1 her).1
  | updTid st t l => exact (Fr.pUpdTid h).iouOK hI
  | updAttrs n a =>
    have hfs := Fs.pUpdAttrs h
    have hc := cfg_pUpdAttrs h
    obtain ⟨he, -⟩ := edges_pUpdAttrs h
    exact iouOK_congr hfs.seg hfs.skel (fun er her => he ▸ her) (iouKey_cfg hc)
      (fun ha => by rw [← iouActive_cfg hc]; exact ha) hI
  | addNode nr px =>
    obtain ⟨hnew, hn0, -, -, hpx⟩ := AddNodePre.out hpre hg
    obtain ⟨e1, e2, e3, -⟩ := shape_pAddNode hnew h
    have hc := cfg_pAddNode h
    intro g' hg' hact k hkey er her
    rw [e3] at her
    have hval := hI g hg (by rw [← iouActive_cfg hc]; exact hact) k (by rw [← iouKey_cfg hc]; exact hkey) er her
    rw [hval]; congr 1
    obtain ⟨m1, m2⟩ := hend er her
    have hU : ∀ m ∈ s.ids, ∀ ps, px = some ps → g.Untouched ps nr.id m := by
      intro m hm ps hps
      refine ⟨fun e => ?_, fun p hp _ e => ?_⟩
      · have : s.hasNode nr.id = true := (hasNode_iff_mem_ids_sg _ _).2 (e ▸ hm)
        rw [hnew] at this; cases this
      · rw [(hpx ps hps p hp).2.2] at e
        exact hS.mem_ids_ne_zero hm e.symm
    cases px with
    | none =>
      have hg2 : s'.seg = some g := by rw [e1]; simp only [paintWith]; exact hg
      exact (iouOf_congr_off hg hg2 (timeOf_append_ne e2 m1) (timeOf_append_ne e2 m2) (fun _ => rfl) (fun _ => rfl)).symm
    | some ps =>
      have hg2 : s'.seg = some (g.setPixels ps nr.id) := by rw [e1]; simp only [paintWith, hg]; rfl
      exact (iouOf_congr_off hg hg2 (timeOf_append_ne e2 m1) (timeOf_append_ne e2 m2)
        (fun t => Seg.offsetsOf_setPixels_other (hU _ m1 ps rfl) t)
        (fun t => Seg.offsetsOf_setPixels_other (hU _ m2 ps rfl) t)).symm
  | delNode n px =>
    obtain ⟨r0, hr0, -, e1, e2, -, e4⟩ := shape_pDelNode h
    have hc := cfg_pDelNode h
    have htime : s.timeOf n = some r0.time := by simp [St.timeOf, hr0]
    obtain ⟨ps, hdp, hcar⟩ : ∃ ps, s.delPixels n px = some ps ∧ ∀ p ∈ ps, g.data.getD p 0 = n := by
      cases px with
      | some ps => exact ⟨ps, rfl, DelNodePre.out hpre hg rfl⟩
      | none =>
        refine ⟨g.pixelsOf r0.time n, by simp only [delPixels, getPixels, hg, htime], ?_⟩
        intro p hp; exact (Seg.mem_pixelsOf.1 hp).2.2
    have hg2 : s'.seg = some (g.setPixels ps 0) := by rw [e1, hdp]; simp only [paintWith, hg]; rfl
    intro g' hg' hact k hkey er her
    rw [e4] at her
    obtain ⟨her0, hne⟩ := List.mem_filter.1 her
    simp only [Bool.and_eq_true, bne_iff_ne, ne_eq] at hne
    have hval := hI g hg (by rw [← iouActive_cfg hc]; exact hact) k (by rw [← iouKey_cfg hc]; exact hkey) er her0
    rw [hval]; congr 1
    obtain ⟨m1, m2⟩ := hend er her0
    have hU : ∀ m ∈ s.ids, m ≠ n → g.Untouched ps 0 m := by
      intro m hm hmn
      exact ⟨hS.mem_ids_ne_zero hm, fun p hp _ e => hmn (e.symm.trans (hcar p hp))⟩
    exact (iouOf_congr_off hg hg2 (timeOf_filter_ne e2 hne.1) (timeOf_filter_ne e2 hne.2)
      (fun t => Seg.offsetsOf_setPixels_other (hU _ m1 hne.1) t)
      (fun t => Seg.offsetsOf_setPixels_other (hU _ m2 hne.2) t)).symm
  | updSeg n ps added =>
    obtain ⟨g0, hg0, hn, -, rfl⟩ := pUpdSeg_ok_sg h
    rw [hg] at hg0; cases hg0
    obtain ⟨t, ht⟩ : ∃ t, s.timeOf n = some t := by
      rw [hasNode_eq_timeOf_sg] at hn; exact Option.isSome_iff_exists.1 hn
    obtain ⟨pa, pr⟩ := UpdSegPre.out hpre hg ht
    have hnid : n ∈ s.ids := (hasNode_iff_mem_ids_sg _ _).1 hn
    intro g' hg' hact k hkey er her
    generalize hs1 : (s.withSeg (g.setPixels ps (if added then n else 0))).rpUpdate n = s1 at her hact hkey hg' ⊢
    have hk1 : s1.iouKey = some k := by rw [iouUpdateNode_iouKey] at hkey; exact hkey
    have ha1 : s1.iouActive = true := by rw [iouUpdateNode_iouActive] at hact; exact hact
    have hg1 : s1.seg.isSome = true := by rw [← hs1, rpUpdate_seg]; rfl
    rw [iouOf_iouUpdateNode]
    by_cases hinc : er.e.1 = n ∨ er.e.2 = n
    · exact mem_iouUpdateNode_incident hk1 ha1 hg1 her hinc
    · simp only [not_or] at hinc
      have hmem : er ∈ s.edges := by
        have := mem_iouUpdateNode_other her hinc.1 hinc.2
        rw [← hs1, rpUpdate_edges] at this; exact this
      have hk0 : s.iouKey = some k := by rw [← hk1, ← hs1, rpUpdate_iouKey]; rfl
      have ha0 : s.iouActive = true := by rw [← ha1, ← hs1, rpUpdate_iouActive]; rfl
      rw [hI g hg ha0 k hk0 er hmem]; congr 1
      obtain ⟨m1, m2⟩ := hend er hmem
      have hU : ∀ m ∈ s.ids, m ≠ n → g.Untouched ps (if added then n else 0) m := by
        intro m hm hmn
        cases added with
        | true =>
          refine ⟨by simpa using hmn, fun p hp _ e => ?_⟩
          rw [(pa rfl p hp).2.2] at e
          exact hS.mem_ids_ne_zero hm e.symm
        | false =>
          refine ⟨by simpa using hS.mem_ids_ne_zero hm, fun p hp _ e => ?_⟩
          exact hmn (e.symm.trans (pr rfl p hp))
      rw [← hs1, iouOf_congr' (rpUpdate_seg _ _) (rpUpdate_skel _ _)]
      exact (iouOf_withSeg_untouched hg (hU _ m1 hinc.1) (hU _ m2 hinc.2)).symm

/-! ### 3. bulk regionprops: what is left alone -/

theorem rpFold_keep (g : Seg) (ks : List Key) : ∀ (W : List (Nat × Nat)) (st : St),
    ∀ r' ∈ (W.foldl (rpStep g ks) st).nodes, ∃ r ∈ st.nodes, r.id = r'.id ∧ r.time = r'.time ∧
      ∀ k, (k ∉ ks ∨ ∀ w ∈ W, r.id ≠ w.2) → alook k r'.other = alook k r.other
  | [], _, r', hr' => ⟨r', hr', rfl, rfl, fun _ _ => rfl⟩
  | w :: W, st, r', hr' => by
    rw [List.foldl_cons] at hr'
    obtain ⟨r1, hr1, i1, t1, a1⟩ := rpFold_keep g ks W (rpStep g ks st w) r' hr'
    have hstep : ∃ r ∈ st.nodes, r.id = r1.id ∧ r.time = r1.time ∧
        ∀ k, (k ∉ ks ∨ r.id ≠ w.2) → alook k r1.other = alook k r.other := by
      unfold rpStep at hr1
      split at hr1
      · obtain ⟨r0, hr0, rfl⟩ := mem_setOthers.1 hr1
        refine ⟨r0, hr0, ?_, ?_, ?_⟩
        · split <;> rfl
        · split <;> rfl
        · intro k hk
          by_cases hid : r0.id = w.2
          · simp only [hid, beq_self_eq_true, if_true]
            rcases hk with hk | hk
            · exact alook_asets_not_mem hk _ _
            · exact absurd hid hk
          · have hb : (r0.id == w.2) = false := by simpa using hid
            simp only [hb, Bool.false_eq_true, if_false]
      · exact ⟨r1, hr1, rfl, rfl, fun _ _ => rfl⟩
    obtain ⟨r, hr, i0, t0, a0⟩ := hstep
    refine ⟨r, hr, i0.trans i1, t0.trans t1, fun k hk => ?_⟩
    rw [a1 k, a0 k]
    · rcases hk with hk | hk
      · exact Or.inl hk
      · exact Or.inr (hk w List.mem_cons_self)
    · rcases hk with hk | hk
      · exact Or.inl hk
      · exact Or.inr (fun w' hw' => by rw [← i0]; exact hk w' (List.mem_cons_of_mem _ hw'))

/-- `rpCompute keys` leaves alone: every key that is not requested or not active, and every node
    whose id is not a label of the array -/
theorem rpCompute_keep (s : St) (keys : List Key) (g : Seg) (hg : s.seg = some g) :
    ∀ r' ∈ (s.rpCompute keys).nodes, ∃ r ∈ s.nodes, r.id = r'.id ∧ r.time = r'.time ∧
      ∀ k, (k ∉ keys ∨ k ∉ s.rpActive ∨ ∀ w ∈ rpWrites g, r.id ≠ w.2) →
        alook k r'.other = alook k r.other := by
  intro r' hr'
  by_cases hemp : (keys.filter (s.rpActive.contains ·)).isEmpty = true
  · have hs : s.rpCompute keys = s := by unfold St.rpCompute; simp only [hg, hemp, if_true]
    rw [hs] at hr'
    exact ⟨r', hr', rfl, rfl, fun _ _ => rfl⟩
  · have hemp' : (keys.filter (s.rpActive.contains ·)).isEmpty = false := by simpa using hemp
    rw [rpCompute_eq s keys g hg hemp'] at hr'
    obtain ⟨r, hr, i, t, a⟩ := rpFold_keep g _ _ _ r' hr'
    refine ⟨r, hr, i, t, fun k hk => a k ?_⟩
    rcases hk with hk | hk | hk
    · exact Or.inl (fun hm => hk (List.mem_filter.1 hm).1)
    · exact Or.inl (fun hm => hk (by simpa using (List.mem_filter.1 hm).2))
    · exact Or.inr hk

/-- a node without pixels whose id could only be a label in its own frame is no label at all -/
theorem not_written_of_no_pixels {s : St} {g : Seg} (hfr : LabelsInFrame s g) {r : NodeRec}
    (hr : r ∈ s.nodes) (hpx : g.pixelsOf r.time r.id = []) : ∀ w ∈ rpWrites g, r.id ≠ w.2 := by
  intro w hw e
  have ht := rpWrites_time' hfr hw hr e
  simp only [rpWrites, List.mem_flatMap, List.mem_map, List.mem_range] at hw
  obtain ⟨t, -, l, hl, rfl⟩ := hw
  obtain ⟨-, o, ho, hd⟩ := mem_labelsOf.1 hl
  have : t * g.frame + o ∈ g.pixelsOf r.time r.id := by
    rw [Seg.mem_pixelsOf']
    exact ⟨o, ho, by rw [ht]; simp only at e ⊢; rw [hd, e], by rw [ht]⟩
  rw [hpx] at this; cases this

/-! ### 4. feature switching -/

/-- `enable ks false` activates no new regionprops key; `enable ks true`: every node WITHOUT pixels
    stores an explicit `None` under every regionprops key that the call newly activates -/
def EnPre8 (s : St) (ks : List Key) (rc : Bool) : Prop :=
  if rc = true then
    match s.seg with
    | none => True
    | some g => ∀ k ∈ ks, k ∈ s.rpAvail → k ∉ s.rpActive → ∀ r ∈ s.nodes,
        g.pixelsOf r.time r.id = [] → alook k r.other = some Val.none
  else ∀ k ∈ ks, k ∈ s.rpAvail → k ∈ s.rpActive

/-- `enable ks false` does not activate the IoU key -/
def EnPre9 (s : St) (ks : List Key) (rc : Bool) : Prop :=
  rc = false → ∀ k, s.iouKey = some k → k ∈ ks → s.iouActive = true

instance (s : St) (ks : List Key) (rc : Bool) : Decidable (EnPre8 s ks rc) := by
  unfold EnPre8
  cases rc
  · simp only [Bool.false_eq_true, if_false]; infer_instance
  · simp only [if_true]
    cases s.seg <;> infer_instance

instance (s : St) (ks : List Key) (rc : Bool) : Decidable (EnPre9 s ks rc) := by
  unfold EnPre9
  cases s.iouKey with
  | none => exact isTrue (fun _ k hk => by cases hk)
  | some k0 =>
    by_cases h : rc = false → k0 ∈ ks → s.iouActive = true
    · exact isTrue (fun hr k hk hks => by cases hk; exact h hr hks)
    · exact isFalse (fun hh => h (fun hr hks => hh hr k0 rfl hks))

theorem mem_enableReg_rpActive {s : St} {ks : List Key} {k : Key} :
    k ∈ (enableReg s ks).rpActive ↔ k ∈ s.rpActive ∨ (k ∈ ks ∧ k ∈ s.rpAvail ∧ k ∉ s.rpActive) := by
  simp only [enableReg, List.mem_append, List.mem_eraseDups, List.mem_filter, Bool.and_eq_true,
    Bool.not_eq_true', List.contains_eq_mem, decide_eq_true_eq, decide_eq_false_iff_not]

theorem rp_enable {s s' : St} {ks : List Key} {rc : Bool} (hS : Str s) (hR : RpOK s)
    (hpre : EnPre8 s ks rc) (h : s.enable ks rc = some s') : RpOK s' := by
  cases hany : ks.any (fun k => !(s.annotKeys.contains k)) with
  | true => rw [enable_none s ks rc hany] at h; cases h
  | false =>
    rw [enable_eq s ks rc hany] at h
    injection h with h
    obtain ⟨g, hg⟩ : ∃ g, s.seg = some g := by obtain ⟨⟨g, hg, -⟩, -⟩ := hS; exact ⟨g, hg⟩
    cases rc with
    | false =>
      simp only [Bool.false_eq_true, if_false] at h
      subst h
      unfold EnPre8 at hpre
      simp only [Bool.false_eq_true, if_false] at hpre
      intro g' hg' k hk r hr
      have hk' : k ∈ s.rpActive := by
        rcases mem_enableReg_rpActive.1 hk with hk | ⟨h1, h2, h3⟩
        · exact hk
        · exact absurd (hpre k h1 h2) h3
      exact hR g' hg' k hk' r hr
    | true =>
      simp only [if_true] at h
      subst h
      unfold EnPre8 at hpre
      simp only [if_true, hg] at hpre
      -- stage 2: regionprops on `s1 = enableReg s ks`
      have hg1 : (enableReg s ks).seg = some g := hg
      have hS1 : Str (enableReg s ks) := by
        have := str_enable hS (enable_eq s ks false hany)
        simpa using this
      have hfr : LabelsInFrame (enableReg s ks) g := hS1.labelsInFrame hg1
      have h2 : RpOK ((enableReg s ks).rpCompute ks) := by
        intro g' hg' k hk r' hr'
        obtain ⟨f1, -, -⟩ := rpCompute_frame (enableReg s ks) ks
        rw [f1, hg1] at hg'; cases hg'
        have hk1 : k ∈ (enableReg s ks).rpActive := by
          rw [← rpActive_of_cfg (cfg_rpCompute (enableReg s ks) ks)]; exact hk
        obtain ⟨r, hr, hid, htm, hkeep⟩ := rpCompute_keep (enableReg s ks) ks g hg1 r' hr'
        have hr0 : r ∈ s.nodes := hr
        by_cases hks : k ∈ ks
        · by_cases hpx : g.pixelsOf r'.time r'.id = []
          · have hpx' : g.pixelsOf r.time r.id = [] := by rw [hid, htm]; exact hpx
            rw [hkeep k (Or.inr (Or.inr (not_written_of_no_pixels hfr hr hpx')))]
            simp only [Seg.maskVal, hpx, if_true]
            rcases mem_enableReg_rpActive.1 hk1 with hka | ⟨-, hkv, hkn⟩
            · have := hR g hg k hka r hr0
              simpa [Seg.maskVal, hpx'] using this
            · exact hpre k hks hkv hkn r hr0 hpx'
          · rw [rpCompute_current (enableReg s ks) ks g hg1 (hS1.wf hg1) hS1.id_ne_zero hfr k hks hk1 r' hr' hpx]
            simp only [Seg.maskVal, hpx, if_false]
        · rw [hkeep k (Or.inl hks)]
          have hka : k ∈ s.rpActive := by
            rcases mem_enableReg_rpActive.1 hk1 with hka | ⟨hc, -, -⟩
            · exact hka
            · exact absurd hc hks
          rw [← hid, ← htm]
          exact hR g hg k hka r hr0
      -- stages 3–5
      unfold enableRecompute
      simp only
      generalize (enableReg s ks).rpCompute ks = s2 at h2 ⊢
      have h3 : ∀ b : Bool, RpOK (if b = true then s2.iouCompute else s2) := by
        intro b; cases b
        · exact h2
        · exact rpOK_congr (foldl_iouUpdateEdge_seg _ _) (foldl_iouUpdateEdge_nodes _ _)
            (foldl_iouUpdateEdge_rpActive _ _) h2
      have h3' := h3 (match (enableReg s ks).iouKey with | some k => ks.contains k | none => false)
      generalize (if (match (enableReg s ks).iouKey with | some k => ks.contains k | none => false) = true
        then s2.iouCompute else s2) = s3 at h3' ⊢
      have h4 : RpOK (if ks.contains keyTid = true then s3.assignTracklets else s3) := by
        split
        · exact (Fr.assignTracklets _).rpOK h3'
        · exact h3'
      generalize (if ks.contains keyTid = true then s3.assignTracklets else s3) = s4 at h4 ⊢
      split
      · exact (Fr.assignLineages _).rpOK h4
      · exact h4

theorem rp_disable {s s' : St} {ks : List Key} (hR : RpOK s) (h : s.disable ks = some s') : RpOK s' := by
  unfold St.disable at h
  split at h
  · cases h
  · injection h with h
    subst h
    intro g hg k hk r hr
    exact hR g hg k (List.mem_filter.1 hk).1 r hr

theorem iou_enable {s s' : St} {ks : List Key} {rc : Bool} (hI : IouOK s)
    (hpre : EnPre9 s ks rc) (h : s.enable ks rc = some s') : IouOK s' := by
  cases hany : ks.any (fun k => !(s.annotKeys.contains k)) with
  | true => rw [enable_none s ks rc hany] at h; cases h
  | false =>
    rw [enable_eq s ks rc hany] at h
    injection h with h
    cases rc with
    | false =>
      simp only [Bool.false_eq_true, if_false] at h
      subst h
      refine iouOK_congr (s := s) (s' := enableReg s ks) rfl rfl (fun _ h => h) rfl ?_ hI
      intro ha
      cases hk : s.iouKey with
      | none => simpa [enableReg, hk] using ha
      | some k =>
        by_cases hks : k ∈ ks
        · exact hpre rfl k hk hks
        · simpa [enableReg, hk, hks] using ha
    | true =>
      simp only [if_true] at h
      subst h
      unfold enableRecompute
      simp only
      -- stage 2 does not touch edges, array, skeleton
      obtain ⟨f1, f2, f3⟩ := rpCompute_frame (enableReg s ks) ks
      have k2 : ((enableReg s ks).rpCompute ks).iouKey = s.iouKey :=
        (iouKey_of_cfg (cfg_rpCompute (enableReg s ks) ks)).trans rfl
      have a2 : ((enableReg s ks).rpCompute ks).iouActive = (enableReg s ks).iouActive :=
        iouActive_of_cfg (cfg_rpCompute _ _)
      generalize (enableReg s ks).rpCompute ks = s2 at f1 f2 f3 k2 a2 ⊢
      have hkey1 : (enableReg s ks).iouKey = s.iouKey := rfl
      rw [hkey1]
      have h3 : IouOK (if (match s.iouKey with | some k => ks.contains k | none => false) = true
          then s2.iouCompute else s2) := by
        cases hb : (match s.iouKey with | some k => ks.contains k | none => false) with
        | true => simp only [if_true]; exact iouOK_iouCompute s2
        | false =>
          simp only [Bool.false_eq_true, if_false]
          refine iouOK_congr (s := s) f1 f2 (fun er her => by rw [f3] at her; exact her) k2 ?_ hI
          intro ha
          rw [a2] at ha
          cases hk : s.iouKey with
          | none => simpa [enableReg, hk] using ha
          | some k =>
            rw [hk] at hb
            simp only at hb
            have hks : k ∉ ks := by simpa using hb
            simpa [enableReg, hk, hks] using ha
      generalize (if (match s.iouKey with | some k => ks.contains k | none => false) = true
          then s2.iouCompute else s2) = s3 at h3 ⊢
      have h4 : IouOK (if ks.contains keyTid = true then s3.assignTracklets else s3) := by
        split
        · exact (Fr.assignTracklets _).iouOK h3
        · exact h3
      generalize (if ks.contains keyTid = true then s3.assignTracklets else s3) = s4 at h4 ⊢
      split
      · exact (Fr.assignLineages _).iouOK h4
      · exact h4

theorem iou_disable {s s' : St} {ks : List Key} (hI : IouOK s) (h : s.disable ks = some s') : IouOK s' := by
  unfold St.disable at h
  split at h
  · cases h
  · injection h with h
    subst h
    intro g hg ha k hk er her
    refine hI g hg ?_ k hk er her
    change (match s.iouKey with
      | some k => if ks.contains k = true then false else s.iouActive
      | none => s.iouActive) = true at ha
    change s.iouKey = some k at hk
    rw [hk] at ha
    simp only at ha
    split at ha
    · cases ha
    · exact ha

/-! ### 5. the `Closed` instances -/

theorem closedRp : Closed (fun s => Str s ∧ RpOK s) PrimPre EnPre8 (fun _ _ => True) where
  prim := fun hJ hp h => ⟨⟨(str_prim hJ.1 hp h).1, rp_prim hJ.1 hJ.2 hp h⟩, (str_prim hJ.1 hp h).2⟩
  enable := fun hJ hp h => ⟨str_enable hJ.1 h, rp_enable hJ.1 hJ.2 hp h⟩
  disable := fun hJ _ h => ⟨str_disable hJ.1 h, rp_disable hJ.2 h⟩

theorem closedIou : Closed (fun s => Str s ∧ IouOK s) PrimPre EnPre9 (fun _ _ => True) where
  prim := fun hJ hp h => ⟨⟨(str_prim hJ.1 hp h).1, iou_prim hJ.1 hJ.2 hp h⟩, (str_prim hJ.1 hp h).2⟩
  enable := fun hJ hp h => ⟨str_enable hJ.1 h, iou_enable hJ.2 hp h⟩
  disable := fun hJ _ h => ⟨str_disable hJ.1 h, iou_disable hJ.2 h⟩

theorem closedMeas : Closed (fun s => Str s ∧ RpOK s ∧ IouOK s) PrimPre
    (fun s ks rc => EnPre8 s ks rc ∧ EnPre9 s ks rc) (fun _ _ => True) where
  prim := fun hJ hp h => ⟨⟨(str_prim hJ.1 hp h).1, rp_prim hJ.1 hJ.2.1 hp h, iou_prim hJ.1 hJ.2.2 hp h⟩,
    (str_prim hJ.1 hp h).2⟩
  enable := fun hJ hp h => ⟨str_enable hJ.1 h, rp_enable hJ.1 hJ.2.1 hp.1 h, iou_enable hJ.2.2 hp.2 h⟩
  disable := fun hJ _ h => ⟨str_disable hJ.1 h, rp_disable hJ.2.1 h, iou_disable hJ.2.2 h⟩

end Ft.R6P
