/-
  FtProofs.R9CLemmas — helper lemmas for `FtModel/UserDict.lean` (package R9C, defect D23: the
  caller's attributes dict of `UserAddNode`).

  * `divCheck_eq`            : the copy of the division checks in `UserDict.lean` IS `St.addNodePre`
  * `overwrite_overwrite`    : setting time / track id / position twice = setting them once
  * `addMany_fixed_fresh`    : with the fix, one re-used dict = a fresh copy of the template per call
  * `addManyFresh_state/outs`: the fresh loop is the iteration of `St.step (.addNode …)`
  * `addManyFresh_indep`     : with fresh dicts the flag `fixed` is irrelevant
  * `conn_eq_of_no_edges`    : without edges, connected nodes are equal
-/
import FtModel.UserDict
import FtProofs.ForestLemmas
import FtProofs.SessionSpec
namespace Ft.R9C
open Ft Ft.St

/-- the division checks copied into `UserDict.lean` are the ones the `uAddNode` proofs use -/
theorem divCheck_eq (sN : St) (pred succ : Option Node) (force : Bool) :
    divCheck sN pred succ force = St.addNodePre sN pred succ force := rfl

theorem aset_aset (k : Key) (v v' : Val) :
    ∀ l : List (Key × Val), aset k v (aset k v' l) = aset k v l
  | [] => by simp [aset]
  | (k', w) :: r => by
    by_cases h : (k' == k) = true
    · simp [aset, h]
    · simp [aset, h, aset_aset k v v' r]

theorem overwrite_overwrite (pk : Key) (d : Dict) (c c' : Call) :
    overwrite pk (overwrite pk d c') c = overwrite pk d c := by
  simp [overwrite, aset_aset]

/-- state and outcome of a call do not depend on `fixed` … -/
theorem addWithDict_state (fixed : Bool) (s : St) (node : Node) (px : Option (List Pix)) (force : Bool)
    (d : Dict) : (addWithDict fixed s node px force d).1 = (s.step (.addNode (d.args node px force))).1 := rfl

theorem addWithDict_out (fixed : Bool) (s : St) (node : Node) (px : Option (List Pix)) (force : Bool)
    (d : Dict) : (addWithDict fixed s node px force d).2.1 = (s.step (.addNode (d.args node px force))).2 := rfl

/-- … and with the fix the caller's dict comes back as it was -/
theorem addWithDict_dict_fixed (s : St) (node : Node) (px : Option (List Pix)) (force : Bool)
    (d : Dict) : (addWithDict true s node px force d).2.2 = d := rfl

theorem addWithDict_dict_unfixed (s : St) (node : Node) (px : Option (List Pix)) (force : Bool)
    (d : Dict) : (addWithDict false s node px force d).2.2 = dictAfterUnfixed s node force d := rfl

/-- the outcomes of an operation list, step by step -/
def stepOuts : St → List Op → List Out
  | _, [] => []
  | s, op :: ops => (s.step op).2 :: stepOuts (s.step op).1 ops

theorem addMany_cons (fixed : Bool) (pk : Key) (s : St) (c : Call) (cs : List Call) (d : Dict) :
    addMany fixed pk s (c :: cs) d =
      ((addMany fixed pk (addWithDict fixed s c.1 none false (overwrite pk d c)).1 cs
          (addWithDict fixed s c.1 none false (overwrite pk d c)).2.2).1,
       (addWithDict fixed s c.1 none false (overwrite pk d c)).2.1 ::
        (addMany fixed pk (addWithDict fixed s c.1 none false (overwrite pk d c)).1 cs
          (addWithDict fixed s c.1 none false (overwrite pk d c)).2.2).2.1,
       (addMany fixed pk (addWithDict fixed s c.1 none false (overwrite pk d c)).1 cs
          (addWithDict fixed s c.1 none false (overwrite pk d c)).2.2).2.2) := rfl

theorem addManyFresh_cons (fixed : Bool) (pk : Key) (s : St) (c : Call) (cs : List Call) (d0 : Dict) :
    addManyFresh fixed pk s (c :: cs) d0 =
      ((addManyFresh fixed pk (addWithDict fixed s c.1 none false (overwrite pk d0 c)).1 cs d0).1,
       (addWithDict fixed s c.1 none false (overwrite pk d0 c)).2.1 ::
        (addManyFresh fixed pk (addWithDict fixed s c.1 none false (overwrite pk d0 c)).1 cs d0).2) := rfl

/-- with the fix: a re-used dict `d` that agrees with the template `d0` after the caller's
    overwrite behaves like a fresh copy of the template per call -/
theorem addMany_fixed_fresh (pk : Key) : ∀ (calls : List Call) (s : St) (d d0 : Dict),
    (∀ c, overwrite pk d c = overwrite pk d0 c) →
    (addMany true pk s calls d).1 = (addManyFresh true pk s calls d0).1 ∧
    (addMany true pk s calls d).2.1 = (addManyFresh true pk s calls d0).2
  | [], _, _, _, _ => ⟨rfl, rfl⟩
  | c :: cs, s, d, d0, h => by
    rw [addMany_cons, addManyFresh_cons, addWithDict_dict_fixed, h c]
    obtain ⟨i1, i2⟩ := addMany_fixed_fresh pk cs
      (addWithDict true s c.1 none false (overwrite pk d0 c)).1 (overwrite pk d0 c) d0
      (fun c' => overwrite_overwrite pk d0 c' c)
    exact ⟨i1, by rw [i2]⟩

/-- with the fix the dict after the loop holds what the caller wrote, nothing else -/
theorem addMany_fixed_dict (pk : Key) : ∀ (calls : List Call) (s : St) (d : Dict),
    (addMany true pk s calls d).2.2 = calls.foldl (overwrite pk) d
  | [], _, _ => rfl
  | c :: cs, s, d => by
    rw [addMany_cons, addWithDict_dict_fixed]
    exact addMany_fixed_dict pk cs _ _

theorem addManyFresh_state (fixed : Bool) (pk : Key) : ∀ (calls : List Call) (s : St) (d0 : Dict),
    (addManyFresh fixed pk s calls d0).1 = (freshOps pk d0 calls).foldl (fun x op => (x.step op).1) s
  | [], _, _ => rfl
  | c :: cs, s, d0 => by
    rw [addManyFresh_cons]
    exact addManyFresh_state fixed pk cs _ d0

theorem addManyFresh_outs (fixed : Bool) (pk : Key) : ∀ (calls : List Call) (s : St) (d0 : Dict),
    (addManyFresh fixed pk s calls d0).2 = stepOuts s (freshOps pk d0 calls)
  | [], _, _ => rfl
  | c :: cs, s, d0 => by
    rw [addManyFresh_cons]
    show _ :: _ = _ :: _
    rw [addManyFresh_outs fixed pk cs _ d0]
    rfl

/-- a fresh dict per call: the flag `fixed` is irrelevant -/
theorem addManyFresh_indep (pk : Key) : ∀ (calls : List Call) (s : St) (d0 : Dict),
    addManyFresh false pk s calls d0 = addManyFresh true pk s calls d0
  | [], _, _ => rfl
  | c :: cs, s, d0 => by
    rw [addManyFresh_cons, addManyFresh_cons]
    have h := addManyFresh_indep pk cs (addWithDict true s c.1 none false (overwrite pk d0 c)).1 d0
    have e1 : (addWithDict false s c.1 none false (overwrite pk d0 c)).1 =
        (addWithDict true s c.1 none false (overwrite pk d0 c)).1 := rfl
    have e2 : (addWithDict false s c.1 none false (overwrite pk d0 c)).2.1 =
        (addWithDict true s c.1 none false (overwrite pk d0 c)).2.1 := rfl
    rw [e1, e2, h]

theorem freshOps_lin_none (pk : Key) (d0 : Dict) (h0 : d0.lin = none) (calls : List Call) :
    ∀ op ∈ freshOps pk d0 calls, ∃ a, op = Op.addNode a ∧ a.lin = none ∧ a.pixels = none ∧ a.force = false := by
  intro op hop
  obtain ⟨c, _, rfl⟩ := List.mem_map.1 hop
  exact ⟨_, rfl, h0, rfl, rfl⟩

/-- without edges, connected nodes are equal -/
theorem conn_eq_of_no_edges {s : St} (h : s.edges = []) {a b : Node} (hc : s.Conn a b) : a = b := by
  have he : s.edgeList = [] := by unfold St.edgeList; rw [h]; rfl
  induction hc with
  | refl _ => rfl
  | down p c _ hm _ => rw [he] at hm; cases hm
  | up p c _ hm _ => rw [he] at hm; cases hm

end Ft.R9C
