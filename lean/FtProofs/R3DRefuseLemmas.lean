/-
  FtProofs.R3DRefuseLemmas — package R3D: C11 of a refused paint (`PaintLaw.err`).

  `St.step (.paint …)` writes the stroke, runs `uUpdateSeg`, and on refusal restores the stroke.
  The only refusal that can happen under the stroke preconditions is the nested `UserAddNode`;
  `uUpdateSeg` then rolls the loop records back *on the painted array*.  The rollback is simulated
  backwards against the shadow run on the unpainted array:

  §1  the array relation `RzZ` (`A` is `B` except on stroke cells where `A` reads the new value and
      `B` reads background) and `Rz` (the same without the pixel set).
  §2  one inverted primitive under `RzZ` (`invPrim_swap_RzZ`), the whole group (`invGroup_swap_RzZ`,
      `invGroup_swap_Rz`).
  §3  the kinds of records of `uDeleteNode` (`uDeleteNode_recs`) and of the group loop.
  §4  the group loop is never refused (under `PaintRefusalHyps.delNode_accepts`).
  §5  restoring the stroke; `paint_user_err`; `paint_step_err`.
-/
import FtProofs.R3DLemmas

namespace Ft.R3D
open Ft Ft.St Ft.R2A1 Ft.R3P List

/-- the two facts about the nested user actions that the refusal theorem takes as hypotheses -/
structure PaintRefusalHyps : Prop where
  /-- on an invariant state `UserDeleteNode` of an existing node is never refused -/
  delNode_accepts : ∀ (sh : St) (n : Node) (px : Option (List Pix)), Inv sh → n ∈ sh.ids →
    ∃ recs, (sh.uDeleteNode n px).2 = .ok recs
  /-- C11 for `UserAddNode`: under its argument preconditions a refused call returns a state in the
      `E`-class of the input -/
  addNode_refused : ∀ (sh : St) (a : AddNodeArgs) (e : Err), Inv sh → R3C.AddArgsPre sh a → a.lin = none →
    (sh.uAddNode a).2 = .error e → E (sh.uAddNode a).1 sh

/-! ## §1 the array relation of the rollback -/

/-- `A` is `B` except on cells where `A` reads `v` and `B` reads background -/
def Rz (v : Nat) (A B : Seg) : Prop :=
  A.frame = B.frame ∧ A.data.length = B.data.length ∧
  ∀ i, A.data.getD i 0 = B.data.getD i 0 ∨ (A.data.getD i 0 = v ∧ B.data.getD i 0 = 0)

/-- `Rz`, the exceptional cells lying in the pixel set `Z` -/
structure RzZ (v : Nat) (Z : List Pix) (A B : Seg) : Prop where
  frame : A.frame = B.frame
  len : A.data.length = B.data.length
  cell : ∀ i, A.data.getD i 0 = B.data.getD i 0 ∨
    (i ∈ Z ∧ A.data.getD i 0 = v ∧ B.data.getD i 0 = 0)

section RzLemmas
variable {v : Nat} {Z : List Pix} {A B : Seg}

theorem RzZ.refl (v : Nat) (Z : List Pix) (B : Seg) : RzZ v Z B B := ⟨rfl, rfl, fun _ => Or.inl rfl⟩

theorem RzZ.rz (h : RzZ v Z A B) : Rz v A B :=
  ⟨h.frame, h.len, fun i => (h.cell i).imp id (fun hc => hc.2)⟩

theorem getD_ge_sg {d : List Nat} {i : Nat} (h : d.length ≤ i) : d.getD i 0 = 0 := by
  simp [List.getD_eq_getElem?_getD, h]

theorem Rz.rzZ (h : Rz v A B) : RzZ v (List.range A.data.length) A B := by
  refine ⟨h.1, h.2.1, fun i => ?_⟩
  by_cases hi : i < A.data.length
  · exact (h.2.2 i).imp id (fun hc => ⟨List.mem_range.mpr hi, hc⟩)
  · left
    rw [getD_ge_sg (Nat.le_of_not_lt hi), getD_ge_sg (h.2.1 ▸ Nat.le_of_not_lt hi)]

/-- writing the same pixels with the same value into both arrays -/
theorem RzZ.setPixels (h : RzZ v Z A B) (px : List Pix) (w : Nat) :
    RzZ v Z (A.setPixels px w) (B.setPixels px w) := by
  refine ⟨h.frame, by simp [h.len], fun i => ?_⟩
  rw [Seg.setPixels_getD, Seg.setPixels_getD, h.len]
  by_cases hc : i ∈ px ∧ i < B.data.length
  · rw [if_pos hc, if_pos hc]; exact Or.inl rfl
  · rw [if_neg hc, if_neg hc]; exact h.cell i

/-- a label that is neither the new value nor background has the same cells in both arrays -/
theorem RzZ.offsets_eq (h : RzZ v Z A B) {m : Nat} (hv : m ≠ v) (h0 : m ≠ 0) (t : Nat) :
    A.offsetsOf t m = B.offsetsOf t m := by
  simp only [Seg.offsetsOf, h.frame]
  apply filter_congr
  intro o _
  rcases h.cell (t * B.frame + o) with e | ⟨_, ea, eb⟩
  · rw [e]
  · rw [ea, eb]
    have a : (v == m) = false := by simpa using (Ne.symm hv)
    have b : ((0 : Nat) == m) = false := by simpa using (Ne.symm h0)
    rw [a, b]

theorem RzZ.pixels_eq (h : RzZ v Z A B) {m : Nat} (hv : m ≠ v) (h0 : m ≠ 0) (t : Nat) :
    A.pixelsOf t m = B.pixelsOf t m := by
  simp only [Seg.pixelsOf, h.offsets_eq hv h0 t, h.frame]

/-- the IoU of an edge of a state none of whose nodes is `v` or `0` -/
theorem iouOf_RzZ {Y : St} (h : RzZ v Z A B) (hv : v ∉ Y.ids) (h0 : 0 ∉ Y.ids) (e : Edge) :
    (Y.withSeg A).iouOf e = (Y.withSeg B).iouOf e := by
  refine iouOf_swap_of (fun t ht => ?_) (fun t ht => ?_)
  · have hm := mem_ids_of_timeOf ht
    exact h.offsets_eq (fun hc => hv (hc ▸ hm)) (fun hc => h0 (hc ▸ hm)) t
  · have hm := mem_ids_of_timeOf ht
    exact h.offsets_eq (fun hc => hv (hc ▸ hm)) (fun hc => h0 (hc ▸ hm)) t

end RzLemmas

/-! ## §2 inverting the records of the loop on the painted array -/

/-- the records the group loop of `uUpdateSeg` produces: edge records, relabel walks, `DeleteNode`
    with explicit pixels and `UpdateNodeSeg`, of nodes other than `v` and background -/
def Allowed (v : Nat) : PrimRec → Prop
  | .delEdge .. => True
  | .addEdge .. => True
  | .updTid .. => True
  | .delNode saved (some _) => saved.id ≠ v ∧ saved.id ≠ 0
  | .updSeg n _ _ => n ≠ v ∧ n ≠ 0
  | _ => False

theorem ids_of_fs {s s' : St} (h : Fs s s') : s'.ids = s.ids := by
  rw [ids_eq_skel_sg, ids_eq_skel_sg, h.skel]

theorem addNodeRaw_ws (X : Seg) (s : St) (r : NodeRec) :
    (s.withSeg X).addNodeRaw r = (s.addNodeRaw r).withSeg X := by
  unfold St.addNodeRaw
  rw [withSeg_hasNode]
  split <;> rfl

theorem trackOnAdd_ws (X : Seg) (s : St) (r : NodeRec) :
    (s.withSeg X).trackOnAdd r = (s.trackOnAdd r).withSeg X := by
  unfold St.trackOnAdd
  show (match s.linOn, r.lin with | true, some l => _ | _, _ => _) = _
  cases s.linOn <;> cases r.lin <;> rfl

theorem trackAdd_ws (X : Seg) (s : St) (n : Node) :
    (s.withSeg X).trackAdd n = (s.trackAdd n).withSeg X := by
  unfold St.trackAdd
  show (match s.findNode n with | some r' => _ | none => _) = _
  cases s.findNode n with
  | none => rfl
  | some r' => exact trackOnAdd_ws X s r'

theorem mem_ids_addNodeRaw {s : St} {r : NodeRec} {m : Node} (h : m ∈ (s.addNodeRaw r).ids) :
    m ∈ s.ids ∨ m = r.id := by
  unfold St.addNodeRaw at h
  split at h
  · left
    simp only [St.ids, St.updNode, List.mem_map] at h ⊢
    obtain ⟨x, ⟨y, hy, rfl⟩, hx⟩ := h
    by_cases hc : (y.id == r.id) = true
    · rw [if_pos hc] at hx
      exact ⟨y, hy, by rw [← hx]; simpa using hc⟩
    · rw [if_neg hc] at hx
      exact ⟨y, hy, hx⟩
  · simp only [St.ids, List.map_append, List.mem_append, List.map_cons, List.map_nil,
      List.mem_singleton] at h ⊢
    exact h

theorem mem_ids_addRes {s : St} {r : NodeRec} {px : Option (List Pix)} {m : Node}
    (h : m ∈ (addRes s r px).ids) : m ∈ s.ids ∨ m = r.id := by
  unfold addRes at h
  rw [ids_eq_skel_sg, (Fr.trackAdd _ _).skel, rpUpdate_skel, ← ids_eq_skel_sg] at h
  have := mem_ids_addNodeRaw h
  rwa [paintWith_ids] at this

theorem addRes_seg {s : St} {B : Seg} {r : NodeRec} {px : List Pix} (hB : s.seg = some B) :
    (addRes s r (some px)).seg = some (B.setPixels px r.id) := by
  unfold addRes
  rw [(Fr.trackAdd _ _).seg, rpUpdate_seg, R3A.addNodeRaw_seg]
  simp only [paintWith, hB]; rfl

/-- `AddNode` with pixels on the swapped state: the pixels are written into whatever array is
    there; the regionprops values are computed from the cells of the node's label -/
theorem addRes_swap {Y : St} {A B : Seg} {r : NodeRec} {px : List Pix} (hB : Y.seg = some B)
    (hpx : ∀ t, (A.setPixels px r.id).pixelsOf t r.id = (B.setPixels px r.id).pixelsOf t r.id) :
    addRes (Y.withSeg A) r (some px) = (addRes Y r (some px)).withSeg (A.setPixels px r.id) := by
  unfold addRes
  have e1 : (Y.withSeg A).paintWith (some px) r.id = Y.withSeg (A.setPixels px r.id) := rfl
  have e2 : Y.paintWith (some px) r.id = Y.withSeg (B.setPixels px r.id) := by
    simp only [paintWith, hB]
  rw [e1, e2, addNodeRaw_ws, addNodeRaw_ws, rpUpdate_swap (B' := B.setPixels px r.id) (fun t _ => hpx t),
    trackAdd_ws]

theorem pAddNode_swap_RzZ {Y : St} {A B : Seg} {r : NodeRec} {px : List Pix} (hB : Y.seg = some B)
    (hpx : ∀ t, (A.setPixels px r.id).pixelsOf t r.id = (B.setPixels px r.id).pixelsOf t r.id) :
    (Y.withSeg A).pAddNode r (some px) = liftP (A.setPixels px r.id) (Y.pAddNode r (some px)) := by
  rw [pAddNode_eq (s := Y.withSeg A) (fun h => by cases h) (fun _ => rfl),
    pAddNode_eq (s := Y) (fun h => by cases h) (fun _ => by rw [hB]; rfl), addRes_swap hB hpx]
  rfl

theorem withSeg_withSeg (s : St) (X X' : Seg) : (s.withSeg X).withSeg X' = s.withSeg X' := rfl

/-- **one inverted primitive under `RzZ`**: on a state with array `B` none of whose nodes is `v`
    or background, the inverse of an allowed record succeeds or fails together on the state with the
    array swapped for `A`, with the same record; the results differ in the array only, and the new
    arrays are related again -/
theorem invPrim_swap_RzZ {v : Nat} {Z : List Pix} {Y : St} {A B : Seg} {r : PrimRec}
    (hB : Y.seg = some B) (hR : RzZ v Z A B) (hv : v ∉ Y.ids) (h0 : 0 ∉ Y.ids) (ha : Allowed v r) :
    ∃ A' B', RzZ v Z A' B' ∧ (Y.withSeg A).invPrim r = liftP A' (Y.invPrim r) ∧
      ∀ Y' r', Y.invPrim r = .ok (Y', r') → Y'.seg = some B' ∧ v ∉ Y'.ids ∧ 0 ∉ Y'.ids := by
  have hgo : ∀ p : PrimRec, GraphOnly p → ∀ Y' r', Y.invPrim p = .ok (Y', r') →
      Y'.seg = some B ∧ v ∉ Y'.ids ∧ 0 ∉ Y'.ids := by
    intro p hp Y' r' h
    have hfs := Fs.invPrim_graphOnly hp h
    rw [ids_of_fs hfs]
    exact ⟨hfs.seg.trans hB, hv, h0⟩
  cases r with
  | delEdge e saved =>
    refine ⟨A, B, hR, ?_, hgo _ trivial⟩
    refine pAddEdge_swap hB ?_
    have := iouOf_RzZ (Y := Y) hR hv h0 e
    rwa [withSeg_self hB] at this
  | addEdge e at_ => exact ⟨A, B, hR, BlindP.pDelEdge e A Y, hgo _ trivial⟩
  | updTid start oT nT oL nL => exact ⟨A, B, hR, pUpdTid_ws A Y start oT oL, hgo _ trivial⟩
  | addNode _ _ => exact ha.elim
  | updAttrs _ _ _ => exact ha.elim
  | delNode saved opx =>
    cases opx with
    | none => exact ha.elim
    | some px =>
      have hR' := hR.setPixels px saved.id
      refine ⟨_, _, hR', pAddNode_swap_RzZ hB (fun t => hR'.pixels_eq ha.1 ha.2 t), ?_⟩
      intro Y' r' h
      have h' : Y.pAddNode saved (some px) = .ok (Y', r') := h
      rw [pAddNode_eq (s := Y) (fun h => by cases h) (fun _ => by rw [hB]; rfl)] at h'
      simp only [Except.ok.injEq, Prod.mk.injEq] at h'
      rw [← h'.1]
      refine ⟨addRes_seg hB, fun hc => ?_, fun hc => ?_⟩
      · rcases mem_ids_addRes hc with hc | hc
        · exact hv hc
        · exact ha.1 hc.symm
      · rcases mem_ids_addRes hc with hc | hc
        · exact h0 hc
        · exact ha.2 hc.symm
  | updSeg n px b =>
    show ∃ A' B', RzZ v Z A' B' ∧ (Y.withSeg A).pUpdSeg n px (!b) = liftP A' (Y.pUpdSeg n px (!b)) ∧
      ∀ Y' r', Y.pUpdSeg n px (!b) = .ok (Y', r') → Y'.seg = some B' ∧ v ∉ Y'.ids ∧ 0 ∉ Y'.ids
    cases hn : Y.hasNode n with
    | false =>
      refine ⟨A, B, hR, ?_, ?_⟩
      · unfold St.pUpdSeg
        simp only [withSeg_seg, hB, withSeg_hasNode, hn]
        rfl
      · intro Y' r' h
        obtain ⟨_, _, h2, _⟩ := pUpdSeg_ok_sg h
        rw [hn] at h2; cases h2
    | true =>
      have hR' := hR.setPixels px (if (!b) = true then n else 0)
      refine ⟨_, _, hR', ?_, ?_⟩
      · rw [pUpdSeg_eq (s := Y.withSeg A) rfl (by rw [withSeg_hasNode]; exact hn) px (!b),
          pUpdSeg_eq hB hn px (!b)]
        show Except.ok (updRes Y (A.setPixels px (if (!b) = true then n else 0)) n, _) = _
        rw [updRes_swap (B' := B.setPixels px (if (!b) = true then n else 0))
          (fun t _ => hR'.pixels_eq ha.1 ha.2 t) (fun e _ => iouOf_RzZ hR' hv h0 e)]
        rfl
      · intro Y' r' h
        rw [pUpdSeg_eq hB hn px (!b)] at h
        simp only [Except.ok.injEq, Prod.mk.injEq] at h
        rw [← h.1, ids_eq_skel_sg, skel_updRes, ← ids_eq_skel_sg]
        exact ⟨(upd_desc _ _ _).seg, hv, h0⟩

/-- the fold of `invGroup` under `RzZ` -/
theorem foldl_invStep_RzZ {v : Nat} {Z : List Pix} (l : List PrimRec) (hall : ∀ r ∈ l, Allowed v r) :
    ∀ (acc : UOut) (A B : Seg), acc.1.seg = some B → RzZ v Z A B → v ∉ acc.1.ids → 0 ∉ acc.1.ids →
    ∃ A' B', RzZ v Z A' B' ∧ (l.foldl invStep acc).1.seg = some B' ∧
      l.foldl invStep (liftU A acc) = liftU A' (l.foldl invStep acc) := by
  induction l with
  | nil => intro acc A B hB hR _ _; exact ⟨A, B, hR, hB, rfl⟩
  | cons p l ih =>
    intro acc A B hB hR hv h0
    rw [foldl_cons, foldl_cons]
    have hall' : ∀ r ∈ l, Allowed v r := fun r hr => hall r (mem_cons_of_mem _ hr)
    obtain ⟨A1, B1, hR1, hsw, hres⟩ := invPrim_swap_RzZ hB hR hv h0 (hall p mem_cons_self)
    rcases h2 : acc.2 with e | done
    · have e1 : invStep (liftU A acc) p = liftU A (invStep acc p) := by
        unfold invStep; simp only [liftU_snd, h2]; rfl
      have e2 : (invStep acc p).1 = acc.1 := by unfold invStep; simp only [h2]
      rw [e1]
      exact ih hall' _ A B (e2 ▸ hB) hR (e2 ▸ hv) (e2 ▸ h0)
    · rcases hp : acc.1.invPrim p with e | ⟨Y', r'⟩
      · have e1 : invStep (liftU A acc) p = liftU A (invStep acc p) := by
          unfold invStep; simp only [liftU_snd, liftU_fst, h2, hsw, hp]; rfl
        have e2 : (invStep acc p).1 = acc.1 := by unfold invStep; simp only [h2, hp]
        rw [e1]
        exact ih hall' _ A B (e2 ▸ hB) hR (e2 ▸ hv) (e2 ▸ h0)
      · have e1 : invStep (liftU A acc) p = liftU A1 (invStep acc p) := by
          unfold invStep; simp only [liftU_snd, liftU_fst, h2, hsw, hp]; rfl
        have e2 : (invStep acc p).1 = Y' := by unfold invStep; simp only [h2, hp]
        obtain ⟨k1, k2, k3⟩ := hres Y' r' hp
        rw [e1]
        exact ih hall' _ A1 B1 (e2 ▸ k1) hR1 (e2 ▸ k2) (e2 ▸ k3)

/-- **backward simulation of the rollback**: inverting allowed records commutes with swapping the
    array `B` for an `RzZ`-related `A`; the resulting arrays are related again -/
theorem invGroup_swap_RzZ {v : Nat} {Z : List Pix} {Y : St} {A B : Seg} {recs : List PrimRec}
    (hB : Y.seg = some B) (hR : RzZ v Z A B) (hv : v ∉ Y.ids) (h0 : 0 ∉ Y.ids)
    (hall : ∀ r ∈ recs, Allowed v r) :
    ∃ A' B', RzZ v Z A' B' ∧ (Y.invGroup recs).1.seg = some B' ∧
      (Y.withSeg A).invGroup recs = ((Y.invGroup recs).1.withSeg A', (Y.invGroup recs).2) := by
  rw [invGroup_def, invGroup_def]
  exact foldl_invStep_RzZ recs.reverse (fun r hr => hall r (mem_reverse.mp hr)) (Y, .ok []) A B hB hR hv h0

/-- the same with the plain relation `Rz` -/
theorem invGroup_swap_Rz {v : Nat} {Y : St} {A B : Seg} {recs : List PrimRec}
    (hB : Y.seg = some B) (hR : Rz v A B) (hv : v ∉ Y.ids) (h0 : 0 ∉ Y.ids)
    (hall : ∀ r ∈ recs, Allowed v r) :
    ∃ A' B', Rz v A' B' ∧ (Y.invGroup recs).1.seg = some B' ∧
      (Y.withSeg A).invGroup recs = ((Y.invGroup recs).1.withSeg A', (Y.invGroup recs).2) := by
  obtain ⟨A', B', h1, h2, h3⟩ := invGroup_swap_RzZ hB hR.rzZ hv h0 hall
  exact ⟨A', B', h1.rz, h2, h3⟩

/-! ## §3 the kinds of records of `uDeleteNode` and of the group loop -/

/-- all records of an accepted run satisfy `P` -/
def RecsP (P : PrimRec → Prop) (a : UOut) : Prop := ∀ recs, a.2 = .ok recs → ∀ r ∈ recs, P r

section RecsLemmas
variable {P : PrimRec → Prop}

theorem RecsP.error (st : St) (e : Err) : RecsP P (st, .error e) := by
  intro recs h; cases h

theorem RecsP.start (st : St) : RecsP P (st, .ok []) := by
  intro recs h r hr; cases h; cases hr

theorem RecsP.snd {a b : UOut} (h : RecsP P a) (e : b.2 = a.2) : RecsP P b := by
  intro recs hb; exact h recs (e ▸ hb)

theorem RecsP.thenPrim {a : UOut} {f : St → Except Err (St × PrimRec)} (ha : RecsP P a)
    (hf : ∀ st st' r, f st = .ok (st', r) → P r) : RecsP P (thenPrim a f) := by
  intro recs h r hr
  obtain ⟨r0, s', r1, h0, h1, _, h3⟩ := thenPrim_ok h
  rw [h3] at hr
  rcases mem_append.mp hr with hr | hr
  · exact ha r0 h0 r hr
  · rw [mem_singleton] at hr; rw [hr]; exact hf _ _ _ h1

theorem RecsP.thenUser {a : UOut} {f : St → UOut} (ha : RecsP P a) (hf : RecsP P (f a.1)) :
    RecsP P (thenUser a f) := by
  intro recs h r hr
  obtain ⟨r0, r1, h0, h1, _, h3⟩ := thenUser_ok h
  rw [h3] at hr
  rcases mem_append.mp hr with hr | hr
  · exact ha r0 h0 r hr
  · exact hf r1 h1 r hr

theorem RecsP.foldl {α} (F : UOut → α → UOut) (hF : ∀ acc x, RecsP P acc → RecsP P (F acc x))
    (l : List α) (a : UOut) (ha : RecsP P a) : RecsP P (l.foldl F a) := by
  induction l generalizing a with
  | nil => exact ha
  | cons x l ih => exact ih _ (hF a x ha)

theorem go_pDelEdge (hP : ∀ r, GraphOnly r → P r) (e : Edge) :
    ∀ st st' r, (fun st : St => st.pDelEdge e) st = .ok (st', r) → P r := by
  intro st st' r h
  obtain ⟨sv, rfl⟩ := pDelEdge_rec h
  exact hP _ trivial

theorem go_pAddEdge (hP : ∀ r, GraphOnly r → P r) (e : Edge) (a : List (Key × Val)) :
    ∀ st st' r, (fun st : St => st.pAddEdge e a) st = .ok (st', r) → P r := by
  intro st st' r h
  rw [pAddEdge_rec h]
  exact hP _ trivial

theorem go_pUpdTid_tidOf (hP : ∀ r, GraphOnly r → P r) (m n : Node) (l : St → Option Nat) :
    ∀ st st' r, (fun st : St => match st.tidOf m with
      | some t => st.pUpdTid n t (l st)
      | none => .error .key) st = .ok (st', r) → P r := by
  intro st st' r h
  simp only at h
  split at h
  · obtain ⟨r0, _, hr, _⟩ := pUpdTid_ok_sg h
    rw [hr]; exact hP _ trivial
  · cases h

theorem RecsP.udnA0 (hP : ∀ r, GraphOnly r → P r) (s : St) (n : Node) : RecsP P (udnA0 s n) := by
  unfold St.udnA0
  refine RecsP.foldl _ ?_ _ (s, .ok []) (RecsP.start s)
  intro acc p hacc
  split
  · exact hacc
  · simp only
    refine RecsP.thenPrim ?_ (go_pDelEdge hP _)
    split
    · split
      · exact RecsP.thenPrim hacc (go_pUpdTid_tidOf hP _ _ (fun _ => none))
      · exact hacc
    · exact hacc

theorem RecsP.udnA1 (hP : ∀ r, GraphOnly r → P r) {a0 : UOut} (h : RecsP P a0) (n : Node) :
    RecsP P (udnA1 a0 n) := by
  unfold St.udnA1
  refine RecsP.foldl _ ?_ _ a0 h
  intro acc c hacc
  exact RecsP.thenPrim hacc (go_pDelEdge hP _)

theorem RecsP.udnA2 (hP : ∀ r, GraphOnly r → P r) {a1' : UOut} (h : RecsP P a1') (pred succ : Option Node)
    (o : List Node) : RecsP P (udnA2 a1' pred succ o).1 := by
  unfold St.udnA2
  split
  · exact RecsP.thenPrim h (go_pAddEdge hP _ _)
  · exact h

theorem RecsP.udnA3 (hP : ∀ r, GraphOnly r → P r) {a2 : UOut} (h : RecsP P a2) (o : List Node) (hp : Bool) :
    RecsP P (udnA3 a2 o hp) := by
  unfold St.udnA3
  refine RecsP.foldl _ ?_ _ a2 h
  intro acc io hacc
  split
  · exact RecsP.thenPrim hacc (go_pUpdTid_tidOf hP _ _ (fun st => some st.nextLin))
  · exact hacc

end RecsLemmas

/-- a record of `uDeleteNode n (some px)`: graph-only, or the final `DeleteNode` of `n` -/
def DelRec (n : Node) (px : List Pix) (r : PrimRec) : Prop :=
  GraphOnly r ∨ ∃ saved, r = .delNode saved (some px) ∧ saved.id = n

theorem findNode_id {s : St} {n : Node} {r : NodeRec} (h : s.findNode n = some r) : r.id = n := by
  unfold St.findNode at h
  have := List.find?_some h
  simpa using this

theorem RecsP.udnTail {a1 : UOut} {n : Node} {px : List Pix} (h : RecsP (DelRec n px) a1) (hp : Bool)
    (o : List Node) : RecsP (DelRec n px) (udnTail a1 n (some px) hp o) := by
  have hP : ∀ r, GraphOnly r → DelRec n px r := fun r hr => Or.inl hr
  unfold St.udnTail
  split
  · exact RecsP.error _ _
  · simp only
    refine RecsP.thenPrim (RecsP.udnA3 hP (RecsP.udnA2 hP ?_ _ _ _) _ _) ?_
    · exact h.snd rfl
    · intro st st' r hd
      obtain ⟨r0, hf, hr, _⟩ := pDelNode_ok_sg hd
      rw [hr]
      exact Or.inr ⟨_, rfl, (findNode_id hf : r0.id = n)⟩
  · exact RecsP.error _ _

/-- **the records of an accepted `UserDeleteNode n (some px)`**: edge records and relabel walks,
    and one `DeleteNode` record of `n` with the given pixels -/
theorem uDeleteNode_recs {s : St} {n : Node} {px : List Pix} {recs : List PrimRec}
    (h : (s.uDeleteNode n (some px)).2 = .ok recs) :
    ∀ r ∈ recs, GraphOnly r ∨ ∃ saved, r = .delNode saved (some px) ∧ saved.id = n := by
  have hP : ∀ r, GraphOnly r → DelRec n px r := fun r hr => Or.inl hr
  have key : RecsP (DelRec n px) (s.uDeleteNode n (some px)) := by
    rw [uDeleteNode_eq_sg]
    split
    · exact RecsP.error _ _
    · split
      · exact RecsP.error _ _
      · exact RecsP.udnTail (RecsP.udnA1 hP (RecsP.udnA0 hP s n) n) _ _
  exact key recs h

theorem allowed_of_graphOnly {v : Nat} {r : PrimRec} (h : GraphOnly r) : Allowed v r := by
  cases r <;> first | trivial | exact h.elim

/-- one round of the group loop records allowed records only -/
theorem recsP_segGrpStep {v : Nat} {acc : UOut} {grp : Grp} (hne : grp.2 ≠ v)
    (hacc : RecsP (Allowed v) acc) : RecsP (Allowed v) (segGrpStep acc grp) := by
  unfold St.segGrpStep
  split
  · exact hacc
  · split
    · exact hacc
    · rename_i hz
      have hl0 : grp.2 ≠ 0 := by simpa using hz
      split
      · simp only
        split
        · refine RecsP.thenUser hacc ?_
          intro recs h r hr
          rcases uDeleteNode_recs h r hr with hg | ⟨saved, rfl, hid⟩
          · exact allowed_of_graphOnly hg
          · exact ⟨hid ▸ hne, hid ▸ hl0⟩
        · refine RecsP.thenPrim hacc ?_
          intro st st' r h
          rw [pUpdSeg_rec h]
          exact ⟨hne, hl0⟩
      · exact RecsP.error _ _

theorem recsP_loop {v : Nat} (gs : List Grp) (hne : ∀ grp ∈ gs, grp.2 ≠ v) (acc : UOut)
    (hacc : RecsP (Allowed v) acc) : RecsP (Allowed v) (gs.foldl segGrpStep acc) := by
  induction gs generalizing acc with
  | nil => exact hacc
  | cons grp gs ih =>
    rw [foldl_cons]
    exact ih (fun x hx => hne x (mem_cons_of_mem _ hx)) _
      (recsP_segGrpStep (hne grp mem_cons_self) hacc)

/-! ## §4 the group loop is never refused -/

theorem thenUser_isOk {acc : UOut} {f : St → UOut} {r0 r1 : List PrimRec} (h0 : acc.2 = .ok r0)
    (h1 : (f acc.1).2 = .ok r1) : (thenUser acc f).2 = .ok (r0 ++ r1) := by
  unfold St.thenUser; simp only [h0, h1]

theorem thenPrim_isOk {acc : UOut} {f : St → Except Err (St × PrimRec)} {r0 : List PrimRec} {s' : St}
    {r : PrimRec} (h0 : acc.2 = .ok r0) (h1 : f acc.1 = .ok (s', r)) :
    (thenPrim acc f).2 = .ok (r0 ++ [r]) := by
  unfold St.thenPrim; simp only [h0, h1]

/-- one round of the group loop is not refused -/
theorem segGrpStep_noerr (hH : PaintRefusalHyps) {s : St} {g : Seg} {v : Nat} {groups gs : List Grp}
    {t0 : Nat} {grp : Grp} {acc : UOut} (hG : GFacts g v groups t0)
    (h : LOk s g v groups (grp :: gs) acc) (hok : ∃ r, acc.2 = .ok r) :
    ∃ r, (segGrpStep acc grp).2 = .ok r := by
  obtain ⟨r0', hacc⟩ := hok
  obtain ⟨sh, A, B, hc0, hI, hB, hA, harr, hsk⟩ := h r0' hacc
  have hm : grp ∈ groups := harr.sub grp mem_cons_self
  unfold St.segGrpStep
  simp only [hacc]
  by_cases hz : (grp.2 == 0) = true
  · simp only [hz, if_true]; exact ⟨r0', hacc⟩
  · simp only [hz, Bool.false_eq_true, if_false]
    have hl0 : grp.2 ≠ 0 := by simpa using hz
    have hsegA : acc.1.seg = some A := by rw [hA]; rfl
    obtain ⟨p0, hh⟩ : ∃ p0, grp.1.head? = some p0 := by
      cases hp : grp.1 with
      | nil => exact absurd hp (hG.nonempty grp hm)
      | cons p ps => exact ⟨p, rfl⟩
    have ht : sh.timeOf grp.2 = some t0 := node_of_pending hG harr hI hB hl0
    have hn : grp.2 ∈ sh.ids := mem_ids_of_timeOf ht
    simp only [hsegA, hh]
    split
    · cases hd : (acc.1.uDeleteNode grp.2 (some grp.1)).2 with
      | ok r1 => exact ⟨_, thenUser_isOk hacc hd⟩
      | error e =>
        exfalso
        rw [hA] at hd
        obtain ⟨hs1, _⟩ := uDeleteNode_swap_err hB ht (harr.offFrame hG) hd
        obtain ⟨recs, hr⟩ := hH.delNode_accepts sh grp.2 (some grp.1) hI hn
        rw [hr] at hs1; cases hs1
    · have hhas : acc.1.hasNode grp.2 = true := by
        rw [hA, withSeg_hasNode]; exact (PC.hasNode_iff sh _).mpr hn
      exact ⟨_, thenPrim_isOk hacc (pUpdSeg_eq hsegA hhas grp.1 false)⟩

/-- the whole loop is not refused -/
theorem loop_noerr (hH : PaintRefusalHyps) {s : St} {g : Seg} {v : Nat} {groups : List Grp} {t0 : Nat}
    (hG : GFacts g v groups t0) :
    ∀ (gs : List Grp) (acc : UOut), (gs.map (·.2)).Nodup → LOk s g v groups gs acc →
      (∃ r, acc.2 = .ok r) → ∃ r, (gs.foldl segGrpStep acc).2 = .ok r
  | [], _, _, _, hok => hok
  | grp :: gs, acc, hnd, h, hok => by
    rw [map_cons, nodup_cons] at hnd
    rw [foldl_cons]
    exact loop_noerr hH hG gs _ hnd.2 (lok_step hG h (fun hc => hnd.1 (mem_map_of_mem hc)))
      (segGrpStep_noerr hH hG h hok)

/-! ## §5 the refused grow step; restoring the stroke -/

/-- restoring the previous labels of the stroke on an array that differs from the unpainted array
    on stroke pixels only gives back the unpainted array -/
theorem restore_eq {g : Seg} {v : Nat} {groups : List Grp} {t0 : Nat} (hG : GFacts g v groups t0) :
    ∀ (gs : List Grp), (∀ x ∈ gs, x ∈ groups) → ∀ A' : Seg, A'.frame = g.frame →
      A'.data.length = g.data.length →
      (∀ i, A'.data.getD i 0 = g.data.getD i 0 ∨ i ∈ gs.flatMap (·.1)) →
      gs.foldl (fun (acc : Seg) (grp : List Pix × Nat) => acc.setPixels grp.1 grp.2) A' = g
  | [], _, A', hf, hl, h => by
    refine Seg.ext_getD hf hl (fun i _ => (h i).resolve_right ?_)
    simp
  | grp :: gs, hsub, A', hf, hl, h => by
    rw [foldl_cons]
    have hm : grp ∈ groups := hsub grp mem_cons_self
    refine restore_eq hG gs (fun x hx => hsub x (mem_cons_of_mem _ hx)) _ hf
      ((Seg.setPixels_length ..).trans hl) (fun i => ?_)
    rw [Seg.setPixels_getD, hl]
    by_cases hc : i ∈ grp.1 ∧ i < g.data.length
    · rw [if_pos hc]; exact Or.inl (hG.prev grp hm i hc.1).symm
    · rw [if_neg hc]
      rcases h i with e | hi
      · exact Or.inl e
      · rw [flatMap_cons, mem_append] at hi
        rcases hi with hi | hi
        · exact absurd ⟨hi, (hG.inr grp hm i hi).1⟩ hc
        · exact Or.inr hi

/-- the argument preconditions of the `UserAddNode` a paint calls -/
theorem addArgsPre_paint {sh : St} {B : Seg} {v t0 tid : Nat} {force : Bool} {px : List Pix}
    (hI : Inv sh) (hB : sh.seg = some B) (hv : v ≠ 0) (hnew : sh.hasNode v = false)
    (hbg : ∀ p ∈ px, p < B.data.length ∧ B.data.getD p 0 = 0 ∧ p / B.frame = t0) :
    R3C.AddArgsPre sh (⟨v, some t0, some tid, none, [], some px, force⟩ : AddNodeArgs) := by
  refine ⟨List.nodup_nil, ?_, ?_, fun _ _ => hv, ?_, ?_⟩
  · intro kv hkv; cases hkv
  · intro h; rw [hB] at h; cases h
  · intro g time hg ht'
    rw [hB] at hg; cases hg
    cases ht'
    exact pixelsOf_nil_of_new hI hB hv hnew
  · intro g ps time hg hps ht' p hp
    rw [hB] at hg; cases hg
    cases hps
    cases ht'
    obtain ⟨h1, h2, h3⟩ := hbg p hp
    exact ⟨h1, h2, hI.frame B hB, h3⟩

/-- after the loop: the painted array `A` is `RzZ`-related to the shadow array `B` -/
theorem Arr.final_rzZ {g : Seg} {v : Nat} {groups : List Grp} {A B : Seg}
    (h : Arr g v groups [] A B) : RzZ v (groups.flatMap (·.1)) A B := by
  refine ⟨h.frameA.trans h.frameB.symm, h.lenA.trans h.lenB.symm, fun i => ?_⟩
  rcases h.same i with e | ⟨x, hx, hi⟩
  · exact Or.inl e
  · right
    have hx' : x ∈ groups ∧ x.2 = 0 := by
      rcases hx with hx | hx
      · cases hx
      · exact hx
    refine ⟨mem_flatMap.mpr ⟨x, hx'.1, hi⟩, h.pendA x hx i hi, ?_⟩
    rw [h.pendB x hx i hi, hx'.2]

/-- **the refused grow step**: the only refusal is the nested `UserAddNode`; the rollback of the
    loop records on the painted array lands on a state of the `E`-class of the start state, with an
    array that the restore of the stroke turns into the unpainted array -/
theorem grow_err (hH : PaintRefusalHyps) {s sh : St} {g : Seg} {v : Nat} {groups : List Grp}
    {t0 tid : Nat} {force : Bool} {a0 : UOut} {recs0 : List PrimRec} {A B : Seg} {e : Err}
    (hG : GFacts g v groups t0) (hg : s.seg = some g) (hc0 : Chain E s recs0 sh) (hI : Inv sh)
    (hB : sh.seg = some B) (hA : a0.1 = sh.withSeg A) (h0 : a0.2 = .ok recs0)
    (harr : Arr g v groups [] A B) (hall : ∀ r ∈ recs0, Allowed v r)
    (herr : (uusGrow a0 recs0 v groups tid force).1.2 = .error e) :
    ∃ s' A', (uusGrow a0 recs0 v groups tid force).1.1 = s'.withSeg A' ∧ E s' s ∧
      groups.foldl (fun (acc : Seg) (grp : List Pix × Nat) => acc.setPixels grp.1 grp.2) A' = g := by
  have hsegA : a0.1.seg = some A := by rw [hA]; rfl
  generalize hout : uusGrow a0 recs0 v groups tid force = out at herr ⊢
  unfold St.uusGrow at hout
  split at hout
  · rename_i hc
    have hc' : v ≠ 0 ∧ groups ≠ [] := by
      simp only [Bool.and_eq_true, bne_iff_ne, Bool.not_eq_true', List.isEmpty_eq_false_iff] at hc
      exact hc
    simp only at hout
    split at hout
    · rename_i g' p0 hg' hp0
      rw [hsegA] at hg'; cases hg'
      have hp0m : p0 ∈ groups.flatMap (·.1) := mem_of_mem_head? hp0
      have hbg := harr.final_bg hG
      have ht0 : p0 / A.frame = t0 := by
        rw [harr.frameA, ← harr.frameB]; exact (hbg p0 hp0m).2.2
      simp only [ht0] at hout
      split at hout
      · -- the label exists: growing it is accepted
        rename_i hn
        subst hout
        simp only at herr
        rw [thenPrim_isOk h0 (pUpdSeg_eq hsegA hn _ true)] at herr
        cases herr
      · rename_i hn
        split at hout
        · subst hout; cases herr
        · -- the nested `UserAddNode` is refused
          rename_i err hr'
          subst hout
          simp only
          have hnew : sh.hasNode v = false := by
            cases hh : sh.hasNode v with
            | false => rfl
            | true => rw [hA] at hn; exact absurd hh hn
          rw [hA] at hr' ⊢
          obtain ⟨hs1, hs2⟩ := uAddNode_swap_err (px := groups.flatMap (·.1)) hB rfl (harr.final_eq hG) hr'
          have hEX := hH.addNode_refused sh _ err hI (addArgsPre_paint (tid := tid) (force := force)
            hI hB hc'.1 hnew hbg) rfl hs1
          generalize hX : (sh.uAddNode (⟨v, some t0, some tid, none, [], some (groups.flatMap (·.1)),
            force⟩ : AddNodeArgs)).1 = X at hs2 hEX
          generalize ((sh.withSeg A).uAddNode (⟨v, some t0, some tid, none, [],
            some (groups.flatMap (·.1)), force⟩ : AddNodeArgs)).1 = R at hs2 ⊢
          have hXB : X.seg = some B := hEX.1.seg.trans hB
          have hF := hEX.obsF hI.good.wf
          have hXv : v ∉ X.ids := fun hcn =>
            absurd ((PC.hasNode_iff sh v).mpr ((mem_ids_congr hF.nodes v).mp hcn)) (by rw [hnew]; simp)
          have hX0 : 0 ∉ X.ids := fun hcn => hI.node.ne0 B hB ((mem_ids_congr hF.nodes 0).mp hcn)
          obtain ⟨A0, hR0, hRA⟩ : ∃ A0, RzZ v (groups.flatMap (·.1)) A0 B ∧ R = X.withSeg A0 := by
            rcases hs2 with h | h
            · exact ⟨A, harr.final_rzZ, h⟩
            · exact ⟨B, RzZ.refl _ _ _, h.trans (withSeg_self hXB).symm⟩
          obtain ⟨A', B', hR', hsegB', hsw⟩ := invGroup_swap_RzZ hXB hR0 hXv hX0 hall
          obtain ⟨s', recs', hg', hE', -, -⟩ := invGroup_chain E_isEquiv hc0 X hEX
          rw [hg'] at hsegB' hsw
          have hBg : B' = g := by
            have := hsegB'.symm.trans (hE'.1.seg.trans hg)
            exact Option.some.inj this
          subst hBg
          refine ⟨s', A', ?_, hE', ?_⟩
          · unfold St.rollback; rw [hRA, hsw]
          · exact restore_eq hG groups (fun _ h => h) A' hR'.frame hR'.len
              (fun i => (hR'.cell i).imp id (fun hc => hc.1))
    · -- no first pixel: impossible, the groups are non-empty
      rename_i hno
      exfalso
      obtain ⟨x, hx⟩ := exists_mem_of_ne_nil _ hc'.2
      obtain ⟨p, hp⟩ := exists_mem_of_ne_nil _ (hG.nonempty x hx)
      have hmem : p ∈ groups.flatMap (·.1) := mem_flatMap.mpr ⟨x, hx, hp⟩
      cases hh : (groups.flatMap (·.1)).head? with
      | none => rw [head?_eq_none_iff] at hh; rw [hh] at hmem; cases hmem
      | some p0 => exact hno A p0 hsegA hh
  · subst hout
    simp only at herr
    rw [h0] at herr; cases herr

/-- **user-level C11 of a paint**: the caller has written the stroke into the array, `uUpdateSeg` ran
    and was refused; the returned state is a state of the `E`-class of the unpainted start state
    with another array, which the restore of the stroke turns into the unpainted array -/
theorem paint_user_err (hH : PaintRefusalHyps) {s : St} {g : Seg} {v : Nat} {groups : List Grp}
    {tid : Nat} {force : Bool} {e : Err} (hI : Inv s) (hg : s.seg = some g)
    (hP : PaintArgs s g v groups)
    (herr : ((s.withSeg (g.setPixels (groups.flatMap (·.1)) v)).uUpdateSeg v groups tid force).1.2
      = .error e) :
    ∃ s' A', ((s.withSeg (g.setPixels (groups.flatMap (·.1)) v)).uUpdateSeg v groups tid force).1.1
        = s'.withSeg A' ∧ E s' s ∧
      groups.foldl (fun (acc : Seg) (grp : List Pix × Nat) => acc.setPixels grp.1 grp.2) A' = g := by
  obtain ⟨t0, hG, hown⟩ := GFacts.of_pre hI hg hP
  rw [uUpdateSeg_eq_sg] at herr ⊢
  simp only [withSeg_seg] at herr ⊢
  have hinit := lok_init hI hg hG
  have hloop := lok_fold hG groups _ hG.nd hinit
  obtain ⟨recs0, hf⟩ := loop_noerr hH hG groups _ hG.nd hinit ⟨[], rfl⟩
  have hall := recsP_loop (v := v) groups hG.ne_new _
    (RecsP.start (s.withSeg (g.setPixels (groups.flatMap (·.1)) v))) recs0 hf
  simp only [hf] at herr ⊢
  obtain ⟨sh, A, B, hc0, hI', hB, hA, harr, -⟩ := hloop recs0 hf
  exact grow_err hH hG hg hc0 hI' hB hA hf harr hall herr

/-- **C11 of a paint at session level** (`PaintLaw.err`): a refused paint leaves a state of the
    `E`-class of the start state -/
theorem paint_step_err (hH : PaintRefusalHyps) {s : St} {v : Nat} {groups : List Grp} {tid : Nat}
    {f : Bool} {e : Err} (hI : Inv s) (hpre : OpPre s (.paint v groups tid f))
    (herr : (s.step (.paint v groups tid f)).2 = .err e) :
    E (s.step (.paint v groups tid f)).1 s := by
  cases hs : s.seg with
  | none =>
    have : s.step (.paint v groups tid f) = (s, .err .value) := by
      unfold St.step; simp only [hs]
    rw [this]; exact E_isEquiv.refl s
  | some g =>
    have key := fun e' => paint_user_err hH (tid := tid) (force := f) (e := e') hI hs (hpre g hs)
    rw [step_paint_eq_sg hs] at herr ⊢
    generalize (s.withSeg (g.setPixels (groups.flatMap (·.1)) v)).uUpdateSeg v groups tid f = U
      at herr key ⊢
    cases hU2 : U.1.2 with
    | ok recs =>
      simp only [hU2] at herr
      unfold St.commit at herr
      simp only [hU2] at herr
      cases herr
    | error e' =>
      obtain ⟨s', A', h1, h2, h3⟩ := key e' hU2
      simp only [h1, withSeg_seg]
      show E (s'.withSeg (groups.foldl (fun (acc : Seg) (grp : List Pix × Nat) =>
        acc.setPixels grp.1 grp.2) A')) s
      rw [h3, withSeg_self (h2.1.seg.trans hs)]
      exact h2

/-- the `err` half of `PaintLaw` from the two named hypotheses -/
theorem paintLaw_err (hH : PaintRefusalHyps) :
    ∀ (s : St) (v : Nat) (groups : List (List Pix × Nat)) (tid : Nat) (f : Bool) (e : Err), Inv s →
      OpPre s (.paint v groups tid f) → (s.step (.paint v groups tid f)).2 = .err e →
      E (s.step (.paint v groups tid f)).1 s :=
  fun _ _ _ _ _ _ hI hpre herr => paint_step_err hH hI hpre herr

end Ft.R3D
