/-
  FtProofs.R2FLemmas — package R2F: bulk id assignment (`assignTracklets`, `assignLineages`,
  `components`, `component` of FtModel/Annot.lean) and feature switching on the graph side
  (`St.enable`).

  §1 list helpers (`eraseDups`)
  §2 `nbrs`, the list-level reachability relation `Reach`
  §3 `component`: sound; complete with fuel |nodes|+1
  §4 `components`: every node covered, classes pairwise disjoint, each class = `Reach` class
  §5 writing the ids (`setTid` / `setLin` folds)
  §6 `assignTracklets` / `assignLineages`: effect, TidOK / LinOK / BookOK parts
  §7 `enable`
-/
import FtProofs.TrackLemmas
import FtProofs.BookLemmas
import FtProofs.ForestLemmas

namespace Ft.R2F
open Ft Ft.St List

/-! ## §1 list helpers -/

theorem nodup_eraseDups_aux : ∀ (k : Nat) (l : List Nat), l.length ≤ k → l.eraseDups.Nodup := by
  intro k
  induction k with
  | zero =>
    intro l hl
    have : l = [] := List.eq_nil_of_length_eq_zero (by omega)
    subst this; simp
  | succ k ih =>
    intro l hl
    cases l with
    | nil => simp
    | cons a as =>
      rw [eraseDups_cons, nodup_cons]
      refine ⟨?_, ih _ ?_⟩
      · rw [mem_eraseDups, mem_filter]
        rintro ⟨_, h⟩
        simp at h
      · have := (filter_sublist (p := fun b => !b == a) (l := as)).length_le
        simp only [length_cons] at hl
        omega

theorem nodup_eraseDups (l : List Nat) : l.eraseDups.Nodup := nodup_eraseDups_aux _ l (Nat.le_refl _)

theorem nodup_filter {l : List Nat} (p : Nat → Bool) (h : l.Nodup) : (l.filter p).Nodup :=
  h.sublist filter_sublist

/-! ## §2 neighbours and reachability in an edge list -/

theorem mem_nbrs {es : List Edge} {n x : Node} : x ∈ nbrs es n ↔ ((n, x) ∈ es ∨ (x, n) ∈ es) := by
  unfold nbrs
  simp only [mem_append, mem_map, mem_filter, beq_iff_eq]
  constructor
  · rintro (⟨⟨a, b⟩, ⟨h1, h2⟩, h3⟩ | ⟨⟨a, b⟩, ⟨h1, h2⟩, h3⟩)
    · simp only at h2 h3; subst h2; subst h3; exact Or.inl h1
    · simp only at h2 h3; subst h2; subst h3; exact Or.inr h1
  · rintro (h | h)
    · exact Or.inl ⟨(n, x), ⟨h, rfl⟩, rfl⟩
    · exact Or.inr ⟨(x, n), ⟨h, rfl⟩, rfl⟩

/-- connected ignoring edge direction, inside the edge list `es` (no membership side condition) -/
inductive Reach (es : List Edge) : Node → Node → Prop where
  | refl (n : Node) : Reach es n n
  | down (a p c : Node) : Reach es a p → (p, c) ∈ es → Reach es a c
  | up (a p c : Node) : Reach es a c → (p, c) ∈ es → Reach es a p

theorem Reach.trans {es : List Edge} {a b c : Node} (h1 : Reach es a b) (h2 : Reach es b c) :
    Reach es a c := by
  induction h2 with
  | refl => exact h1
  | down p c _ he ih => exact Reach.down _ p c ih he
  | up p c _ he ih => exact Reach.up _ p c ih he

theorem Reach.symm {es : List Edge} {a b : Node} (h : Reach es a b) : Reach es b a := by
  induction h with
  | refl => exact Reach.refl _
  | down p c _ he ih => exact Reach.trans (Reach.up c p c (Reach.refl c) he) ih
  | up p c _ he ih => exact Reach.trans (Reach.down p p c (Reach.refl p) he) ih

theorem Reach.nbr {es : List Edge} {a b c : Node} (h : Reach es a b) (hc : c ∈ nbrs es b) :
    Reach es a c := by
  rcases mem_nbrs.1 hc with he | he
  · exact Reach.down _ b c h he
  · exact Reach.up _ c b h he

/-- a set closed under neighbours contains everything reachable from one of its elements -/
theorem Reach.closed {es : List Edge} {P : Node → Prop}
    (hP : ∀ x, P x → ∀ y ∈ nbrs es x, P y) {a b : Node} (h : Reach es a b) (ha : P a) : P b := by
  induction h with
  | refl => exact ha
  | down p c _ he ih => exact hP p ih c (mem_nbrs.2 (Or.inl he))
  | up p c _ he ih => exact hP c ih p (mem_nbrs.2 (Or.inr he))

theorem Reach.mono {es es' : List Edge} (hsub : ∀ e ∈ es, e ∈ es') {a b : Node} (h : Reach es a b) :
    Reach es' a b := by
  induction h with
  | refl => exact Reach.refl _
  | down p c _ he ih => exact Reach.down _ p c ih (hsub _ he)
  | up p c _ he ih => exact Reach.up _ p c ih (hsub _ he)

/-! ## §3 the BFS `component` -/

theorem component_nil (es : List Edge) (fuel : Nat) (seen : List Node) :
    component es fuel seen [] = seen := by
  unfold component; rfl

theorem component_zero (es : List Edge) (seen : List Node) (a : Node) (fr : List Node) :
    component es 0 seen (a :: fr) = seen := by
  unfold component; rfl

/-- the nodes discovered in one BFS round -/
def newOf (es : List Edge) (seen frontier : List Node) : List Node :=
  ((frontier.flatMap (nbrs es)).eraseDups).filter (fun x => !seen.contains x)

theorem component_succ (es : List Edge) (f : Nat) (seen : List Node) (a : Node) (fr : List Node) :
    component es (f + 1) seen (a :: fr) =
      component es f (seen ++ newOf es seen (a :: fr)) (newOf es seen (a :: fr)) := by
  rw [component]; rfl

theorem mem_newOf {es : List Edge} {seen frontier : List Node} {x : Node} :
    x ∈ newOf es seen frontier ↔ ((∃ y ∈ frontier, x ∈ nbrs es y) ∧ x ∉ seen) := by
  unfold newOf
  simp only [mem_filter, mem_eraseDups, mem_flatMap, Bool.not_eq_true', ← Bool.not_eq_true,
    contains_iff_mem]

theorem nodup_newOf (es : List Edge) (seen frontier : List Node) : (newOf es seen frontier).Nodup :=
  nodup_filter _ (nodup_eraseDups _)

/-- soundness: everything `component` returns satisfies any predicate that holds on `seen` and
    `frontier` and is closed under neighbours -/
theorem component_sound (es : List Edge) (P : Node → Prop)
    (hP : ∀ x, P x → ∀ y ∈ nbrs es x, P y) :
    ∀ (fuel : Nat) (seen frontier : List Node), (∀ x ∈ seen, P x) → (∀ x ∈ frontier, P x) →
      ∀ x ∈ component es fuel seen frontier, P x := by
  intro fuel
  induction fuel with
  | zero =>
    intro seen frontier hs _ x hx
    cases frontier with
    | nil => rw [component_nil] at hx; exact hs x hx
    | cons a fr => rw [component_zero] at hx; exact hs x hx
  | succ f ih =>
    intro seen frontier hs hf x hx
    cases frontier with
    | nil => rw [component_nil] at hx; exact hs x hx
    | cons a fr =>
      rw [component_succ] at hx
      have hnew : ∀ y ∈ newOf es seen (a :: fr), P y := by
        intro y hy
        rcases (mem_newOf.1 hy).1 with ⟨z, hz, hyz⟩
        exact hP z (hf z hz) y hyz
      refine ih _ _ ?_ hnew x hx
      intro y hy
      rcases mem_append.1 hy with h | h
      · exact hs y h
      · exact hnew y h

/-- the BFS loop invariant -/
structure Inv (es : List Edge) (nodes seen frontier : List Node) : Prop where
  nodup : seen.Nodup
  sub : ∀ x ∈ seen, x ∈ nodes
  fr : ∀ x ∈ frontier, x ∈ seen
  closed : ∀ x ∈ seen, x ∉ frontier → ∀ y ∈ nbrs es x, y ∈ seen

theorem Inv.step {es : List Edge} {nodes seen frontier : List Node}
    (hes : ∀ e ∈ es, e.1 ∈ nodes ∧ e.2 ∈ nodes) (h : Inv es nodes seen frontier) :
    Inv es nodes (seen ++ newOf es seen frontier) (newOf es seen frontier) where
  nodup := by
    rw [nodup_append]
    refine ⟨h.nodup, nodup_newOf _ _ _, ?_⟩
    intro a ha b hb hab
    subst hab
    exact (mem_newOf.1 hb).2 ha
  sub := by
    intro x hx
    rcases mem_append.1 hx with hx | hx
    · exact h.sub x hx
    · rcases (mem_newOf.1 hx).1 with ⟨y, _, hxy⟩
      rcases mem_nbrs.1 hxy with he | he
      · exact (hes _ he).2
      · exact (hes _ he).1
  fr := fun x hx => mem_append.2 (Or.inr hx)
  closed := by
    intro x hx hxn y hy
    rcases mem_append.1 hx with hx | hx
    · by_cases hxf : x ∈ frontier
      · by_cases hys : y ∈ seen
        · exact mem_append.2 (Or.inl hys)
        · exact mem_append.2 (Or.inr (mem_newOf.2 ⟨⟨x, hxf, hy⟩, hys⟩))
      · exact mem_append.2 (Or.inl (h.closed x hx hxf y hy))
    · exact absurd hx hxn

/-- completeness: with enough fuel the BFS stops on an empty frontier, so the result is closed
    under neighbours -/
theorem component_closed (es : List Edge) (nodes : List Node)
    (hes : ∀ e ∈ es, e.1 ∈ nodes ∧ e.2 ∈ nodes) :
    ∀ (fuel : Nat) (seen frontier : List Node), Inv es nodes seen frontier →
      (frontier ≠ [] → nodes.length + 1 ≤ fuel + seen.length) →
      (∀ x ∈ seen, x ∈ component es fuel seen frontier) ∧
      (∀ x ∈ component es fuel seen frontier, ∀ y ∈ nbrs es x, y ∈ component es fuel seen frontier) ∧
      (component es fuel seen frontier).Nodup ∧
      (∀ x ∈ component es fuel seen frontier, x ∈ nodes) := by
  intro fuel
  induction fuel with
  | zero =>
    intro seen frontier hI hfuel
    cases frontier with
    | nil =>
      rw [component_nil]
      exact ⟨fun _ h => h, fun x hx => hI.closed x hx (by simp), hI.nodup, hI.sub⟩
    | cons a fr =>
      have := hfuel (by simp)
      have := hI.nodup.length_le_of_subset (l₂ := nodes) (fun x hx => hI.sub x hx)
      omega
  | succ f ih =>
    intro seen frontier hI hfuel
    cases frontier with
    | nil =>
      rw [component_nil]
      exact ⟨fun _ h => h, fun x hx => hI.closed x hx (by simp), hI.nodup, hI.sub⟩
    | cons a fr =>
      rw [component_succ]
      have hI' := hI.step hes
      have hfuel' : newOf es seen (a :: fr) ≠ [] →
          nodes.length + 1 ≤ f + (seen ++ newOf es seen (a :: fr)).length := by
        intro hne
        have := hfuel (by simp)
        have : 1 ≤ (newOf es seen (a :: fr)).length := by
          cases hn : newOf es seen (a :: fr) with
          | nil => exact absurd hn hne
          | cons _ _ => simp
        rw [length_append]
        omega
      rcases ih _ _ hI' hfuel' with ⟨h1, h2, h3, h4⟩
      exact ⟨fun x hx => h1 x (mem_append.2 (Or.inl hx)), h2, h3, h4⟩

/-- the class of `n` computed by `components` for the node list `nodes` -/
def comp (nodes : List Node) (es : List Edge) (n : Node) : List Node :=
  component es (nodes.length + 1) [n] [n]

theorem comp_sound (nodes : List Node) (es : List Edge) (n x : Node) (h : x ∈ comp nodes es n) :
    Reach es n x := by
  refine component_sound es (Reach es n) (fun x hx y hy => hx.nbr hy) _ _ _ ?_ ?_ x h
  · intro y hy; rw [mem_singleton] at hy; subst hy; exact Reach.refl _
  · intro y hy; rw [mem_singleton] at hy; subst hy; exact Reach.refl _

theorem comp_spec {nodes : List Node} {es : List Edge}
    (hes : ∀ e ∈ es, e.1 ∈ nodes ∧ e.2 ∈ nodes) {n : Node} (hn : n ∈ nodes) :
    (∀ x, x ∈ comp nodes es n ↔ Reach es n x) ∧ (comp nodes es n).Nodup ∧
      (∀ x ∈ comp nodes es n, x ∈ nodes) := by
  have hI : Inv es nodes [n] [n] :=
    ⟨by simp, by simpa using hn, fun x hx => hx, fun x hx hxn => absurd hx hxn⟩
  rcases component_closed es nodes hes (nodes.length + 1) [n] [n] hI (by intro _; simp) with
    ⟨h1, h2, h3, h4⟩
  refine ⟨fun x => ⟨comp_sound nodes es n x, fun hr => ?_⟩, h3, h4⟩
  exact hr.closed (P := fun y => y ∈ comp nodes es n) h2 (h1 n (by simp))

/-! ## §4 `components` -/

/-- the loop invariant of `components`: `done` = nodes processed so far -/
structure CInv (nodes : List Node) (es : List Edge) (done : List Node) (acc : List (List Node)) :
    Prop where
  cls : ∀ c ∈ acc, ∃ n ∈ done, c = comp nodes es n
  cover : ∀ n ∈ done, ∃ c ∈ acc, n ∈ c
  disj : acc.Pairwise (fun c c' => ∀ x, x ∈ c → x ∉ c')

theorem components_fold {nodes : List Node} {es : List Edge}
    (hes : ∀ e ∈ es, e.1 ∈ nodes ∧ e.2 ∈ nodes) :
    ∀ (l done : List Node) (acc : List (List Node)), (∀ n ∈ l, n ∈ nodes) → (∀ n ∈ done, n ∈ nodes) →
      CInv nodes es done acc →
      CInv nodes es (done ++ l) (l.foldl (fun acc n =>
        if acc.any (·.contains n) then acc else acc ++ [comp nodes es n]) acc) := by
  intro l
  induction l with
  | nil => intro done acc _ _ h; simpa using h
  | cons n l ih =>
    intro done acc hl hd h
    rw [foldl_cons]
    have hn : n ∈ nodes := hl n (by simp)
    have hd' : ∀ m ∈ done ++ [n], m ∈ nodes := by
      intro m hm
      rcases mem_append.1 hm with hm | hm
      · exact hd m hm
      · rw [mem_singleton] at hm; subst hm; exact hn
    have key : CInv nodes es (done ++ [n])
        (if acc.any (·.contains n) then acc else acc ++ [comp nodes es n]) := by
      by_cases hany : acc.any (·.contains n) = true
      · rw [if_pos hany]
        rw [any_eq_true] at hany
        rcases hany with ⟨c, hc, hnc⟩
        rw [contains_iff_mem] at hnc
        refine ⟨?_, ?_, h.disj⟩
        · intro c' hc'
          rcases h.cls c' hc' with ⟨m, hm, e⟩
          exact ⟨m, mem_append.2 (Or.inl hm), e⟩
        · intro m hm
          rcases mem_append.1 hm with hm | hm
          · exact h.cover m hm
          · rw [mem_singleton] at hm; subst hm; exact ⟨c, hc, hnc⟩
      · rw [if_neg hany]
        have hnot : ∀ c ∈ acc, n ∉ c := by
          intro c hc hnc
          apply hany
          rw [any_eq_true]
          exact ⟨c, hc, contains_iff_mem.2 hnc⟩
        have hself : n ∈ comp nodes es n := ((comp_spec hes hn).1 n).2 (Reach.refl n)
        refine ⟨?_, ?_, ?_⟩
        · intro c' hc'
          rcases mem_append.1 hc' with hc' | hc'
          · rcases h.cls c' hc' with ⟨m, hm, e⟩
            exact ⟨m, mem_append.2 (Or.inl hm), e⟩
          · rw [mem_singleton] at hc'; exact ⟨n, by simp, hc'⟩
        · intro m hm
          rcases mem_append.1 hm with hm | hm
          · rcases h.cover m hm with ⟨c, hc, hmc⟩
            exact ⟨c, mem_append.2 (Or.inl hc), hmc⟩
          · rw [mem_singleton] at hm; subst hm
            exact ⟨_, mem_append.2 (Or.inr (by simp)), hself⟩
        · rw [pairwise_append]
          refine ⟨h.disj, by simp, ?_⟩
          intro c hc c' hc' x hxc hxc'
          rw [mem_singleton] at hc'; subst hc'
          rcases h.cls c hc with ⟨m, hm, e⟩
          subst e
          have r1 := comp_sound nodes es m x hxc
          have r2 := comp_sound nodes es n x hxc'
          have : n ∈ comp nodes es m := ((comp_spec hes (hd m hm)).1 n).2 (r1.trans r2.symm)
          exact hnot _ hc this
    have := ih (done ++ [n]) _ (fun m hm => hl m (by simp [hm])) hd' key
    simpa [append_assoc] using this

theorem components_inv {nodes : List Node} {es : List Edge}
    (hes : ∀ e ∈ es, e.1 ∈ nodes ∧ e.2 ∈ nodes) :
    CInv nodes es nodes (components nodes es) := by
  have := components_fold hes nodes [] [] (fun _ h => h) (by simp) ⟨by simp, by simp, by simp⟩
  simpa [components, comp] using this

/-- the partition computed by `components`, in index form -/
structure Part (nodes : List Node) (es : List Edge) (cs : List (List Node)) : Prop where
  /-- every listed class is the `Reach`-class of one of the nodes, without duplicates -/
  cls : ∀ (i : Nat) (c : List Node), cs[i]? = some c → ∃ m ∈ nodes, (∀ x, x ∈ c ↔ Reach es m x) ∧ c.Nodup ∧ ∀ x ∈ c, x ∈ nodes
  /-- every node lies in a listed class -/
  cover : ∀ n ∈ nodes, ∃ (i : Nat) (c : List Node), cs[i]? = some c ∧ n ∈ c
  /-- … in exactly one (each class is listed once) -/
  uniq : ∀ (i j : Nat) (c c' : List Node) (x : Node), cs[i]? = some c → cs[j]? = some c' → x ∈ c → x ∈ c' → i = j

theorem components_part {nodes : List Node} {es : List Edge}
    (hes : ∀ e ∈ es, e.1 ∈ nodes ∧ e.2 ∈ nodes) : Part nodes es (components nodes es) := by
  have hI := components_inv hes
  refine ⟨?_, ?_, ?_⟩
  · intro i c hc
    rcases hI.cls c (mem_iff_getElem?.2 ⟨i, hc⟩) with ⟨m, hm, e⟩
    subst e
    exact ⟨m, hm, comp_spec hes hm⟩
  · intro n hn
    rcases hI.cover n hn with ⟨c, hc, hnc⟩
    rcases mem_iff_getElem?.1 hc with ⟨i, hi⟩
    exact ⟨i, c, hi, hnc⟩
  · intro i j c c' x hi hj hx hx'
    have hd := pairwise_iff_getElem.1 hI.disj
    rcases List.getElem?_eq_some_iff.1 hi with ⟨hi1, hi2⟩
    rcases List.getElem?_eq_some_iff.1 hj with ⟨hj1, hj2⟩
    rcases Nat.lt_trichotomy i j with h | h | h
    · exact absurd hx' (hd i j hi1 hj1 h x (hi2 ▸ hx) |> fun hh => by rw [hj2] at hh; exact hh)
    · exact h
    · exact absurd hx (hd j i hj1 hi1 h x (hj2 ▸ hx') |> fun hh => by rw [hi2] at hh; exact hh)

/-- two nodes lie in the same listed class iff they are `Reach`-connected -/
theorem Part.same_iff {nodes : List Node} {es : List Edge} {cs : List (List Node)}
    (h : Part nodes es cs) {i j : Nat} {c c' : List Node} {a b : Node}
    (hi : cs[i]? = some c) (hj : cs[j]? = some c') (ha : a ∈ c) (hb : b ∈ c') :
    i = j ↔ Reach es a b := by
  rcases h.cls i c hi with ⟨m, _, hm, _⟩
  constructor
  · intro e
    subst e
    rw [hi] at hj
    cases hj
    exact ((hm a).1 ha).symm.trans ((hm b).1 hb)
  · intro r
    have : b ∈ c := (hm b).2 (((hm a).1 ha).trans r)
    exact h.uniq i j c c' b hi hj this hb

/-! ### the index list `zip (range |cs|) cs` -/

theorem mem_idx {cs : List (List Node)} {p : Nat × List Node} :
    p ∈ List.zip (List.range cs.length) cs ↔ cs[p.1]? = some p.2 := by
  rw [mem_iff_getElem?]
  constructor
  · rintro ⟨i, hi⟩
    rw [getElem?_zip_eq_some] at hi
    rcases hi with ⟨h1, h2⟩
    rcases List.getElem?_eq_some_iff.1 h1 with ⟨hlt, e⟩
    rw [getElem_range] at e
    subst e
    exact h2
  · intro h
    refine ⟨p.1, ?_⟩
    rw [getElem?_zip_eq_some]
    refine ⟨?_, h⟩
    rcases List.getElem?_eq_some_iff.1 h with ⟨hlt, _⟩
    rw [List.getElem?_eq_some_iff]
    exact ⟨by simpa using hlt, by rw [getElem_range]⟩

theorem alook_iff_mem {β : Type} {m : List (Nat × β)} (hk : (m.map (·.1)).Nodup) (k : Nat) (v : β) :
    alook k m = some v ↔ (k, v) ∈ m := by
  induction m with
  | nil => simp [alook]
  | cons p r ih =>
    obtain ⟨a, b⟩ := p
    simp only [map_cons, nodup_cons] at hk
    by_cases h : a = k
    · subst h
      simp only [alook, beq_self_eq_true, if_true, Option.some.injEq, mem_cons, Prod.mk.injEq, true_and]
      constructor
      · intro e; exact Or.inl e.symm
      · rintro (e | e)
        · exact e.symm
        · exact absurd (mem_map.2 ⟨(a, v), e, rfl⟩) hk.1
    · have hne : (a == k) = false := by simpa using h
      simp only [alook, hne, mem_cons, Prod.mk.injEq, Bool.false_eq_true, if_false]
      rw [ih hk.2]
      constructor
      · intro e; exact Or.inr e
      · rintro (⟨e, _⟩ | e)
        · exact absurd e.symm h
        · exact e

/-- the lookup table written by `assignTracklets` / `assignLineages` -/
def bookOf (cs : List (List Node)) : List (Nat × List Node) :=
  (List.zip (List.range cs.length) cs).map (fun p => (p.1 + 1, p.2))

theorem keys_bookOf (cs : List (List Node)) :
    (bookOf cs).map (·.1) = (List.range cs.length).map (· + 1) := by
  unfold bookOf
  rw [map_map]
  have : ((fun x : Nat × List Node => x.1) ∘ fun p : Nat × List Node => (p.1 + 1, p.2)) =
      (fun i : Nat => i + 1) ∘ Prod.fst := rfl
  rw [this, ← map_map, map_fst_zip (by simp)]

theorem nodup_keys_bookOf (cs : List (List Node)) : ((bookOf cs).map (·.1)).Nodup := by
  rw [keys_bookOf]
  refine Pairwise.map _ ?_ (nodup_range (n := cs.length))
  intro a b h; simpa using h

theorem alook_bookOf (cs : List (List Node)) (id : Nat) (l : List Node) :
    alook id (bookOf cs) = some l ↔ ∃ i, id = i + 1 ∧ cs[i]? = some l := by
  rw [alook_iff_mem (nodup_keys_bookOf cs)]
  unfold bookOf
  rw [mem_map]
  constructor
  · rintro ⟨p, hp, e⟩
    simp only [Prod.mk.injEq] at e
    exact ⟨p.1, e.1.symm, e.2 ▸ mem_idx.1 hp⟩
  · rintro ⟨i, e, h⟩
    exact ⟨(i, l), mem_idx.2 h, by simp [e]⟩

/-! ## §5 writing the ids -/

/-- a node-attribute writer (`setTid`, or `setLin · (some ·)`) with its reader -/
structure Writer where
  w : St → Node → Nat → St
  rd : St → Node → Option Nat
  rd_w : ∀ s n m v, rd (w s n v) m = if m = n then (if n ∈ s.ids then some v else none) else rd s m
  ids_w : ∀ s n v, (w s n v).ids = s.ids

def tidW : Writer where
  w := fun s n v => s.setTid n v
  rd := St.tidOf
  rd_w := fun s n m v => PC.tidOf_setTid s n m v
  ids_w := fun s n v => PC.ids_setTid s n v

def linW : Writer where
  w := fun s n v => s.setLin n (some v)
  rd := St.linOf
  rd_w := fun s n m v => PC.linOf_setLin s n m (some v)
  ids_w := fun s n v => PC.ids_setLin s n (some v)

def writeAll (W : Writer) (s : St) (idx : List (Nat × List Node)) : St :=
  idx.foldl (fun st p => p.2.foldl (fun st2 n => W.w st2 n (p.1 + 1)) st) s

theorem writeAll_inv (W : Writer) (P : St → Prop) (hP : ∀ s n v, P s → P (W.w s n v)) :
    ∀ (idx : List (Nat × List Node)) (s : St), P s → P (writeAll W s idx) := by
  intro idx
  induction idx with
  | nil => intro s h; exact h
  | cons p idx ih =>
    intro s h
    unfold writeAll
    rw [foldl_cons]
    apply ih
    generalize p.2 = c
    induction c generalizing s with
    | nil => exact h
    | cons m c ihc => rw [foldl_cons]; exact ihc _ (hP s m _ h)

theorem writeAll_ids (W : Writer) (idx : List (Nat × List Node)) (s : St) :
    (writeAll W s idx).ids = s.ids :=
  writeAll_inv W (fun st => st.ids = s.ids) (fun st n v h => (W.ids_w st n v).trans h) idx s rfl

theorem writeOne_rd (W : Writer) (v : Nat) (n : Node) : ∀ (c : List Node) (s : St), n ∈ s.ids →
    W.rd (c.foldl (fun st m => W.w st m v) s) n = if n ∈ c then some v else W.rd s n := by
  intro c
  induction c with
  | nil => intro s _; simp
  | cons m c ih =>
    intro s hn
    rw [foldl_cons, ih _ (by rw [W.ids_w]; exact hn), W.rd_w]
    by_cases hc : n ∈ c
    · simp [hc]
    · by_cases hm : n = m
      · subst hm; simp [hn]
      · simp [hc, hm]

theorem writeOne_ids (W : Writer) (v : Nat) : ∀ (c : List Node) (s : St),
    (c.foldl (fun st m => W.w st m v) s).ids = s.ids := by
  intro c
  induction c with
  | nil => intro s; rfl
  | cons m c ih => intro s; rw [foldl_cons, ih, W.ids_w]

theorem writeAll_rd (W : Writer) (n : Node) (i : Nat) : ∀ (idx : List (Nat × List Node)) (s : St),
    n ∈ s.ids → (∀ p ∈ idx, n ∈ p.2 → p.1 = i) →
    ((∃ p ∈ idx, n ∈ p.2) ∨ W.rd s n = some (i + 1)) →
    W.rd (writeAll W s idx) n = some (i + 1) := by
  intro idx
  induction idx with
  | nil =>
    intro s _ _ h
    rcases h with ⟨p, hp, _⟩ | h
    · cases hp
    · exact h
  | cons p idx ih =>
    intro s hn hu h
    unfold writeAll
    rw [foldl_cons]
    refine ih _ (by rw [writeOne_ids]; exact hn) (fun q hq => hu q (mem_cons_of_mem _ hq)) ?_
    rw [writeOne_rd W _ n p.2 s hn]
    by_cases hp : n ∈ p.2
    · right
      rw [if_pos hp, hu p (by simp) hp]
    · rw [if_neg hp]
      rcases h with ⟨q, hq, hnq⟩ | h
      · rcases mem_cons.1 hq with e | hq
        · subst e; exact absurd hnq hp
        · exact Or.inl ⟨q, hq, hnq⟩
      · exact Or.inr h

/-- after writing class index + 1 on every class of a partition, each node carries the index of
    its class (+ 1) -/
theorem writeAll_part (W : Writer) {nodes : List Node} {es : List Edge} {cs : List (List Node)}
    (hP : Part nodes es cs) (s : St) (hs : s.ids = nodes) {n : Node} {i : Nat} {c : List Node}
    (hi : cs[i]? = some c) (hn : n ∈ c) :
    W.rd (writeAll W s (List.zip (List.range cs.length) cs)) n = some (i + 1) := by
  rcases hP.cls i c hi with ⟨_, _, _, _, hsub⟩
  refine writeAll_rd W n i _ s (hs ▸ hsub n hn) ?_ (Or.inl ⟨(i, c), mem_idx.2 hi, hn⟩)
  intro p hp hnp
  exact hP.uniq p.1 i p.2 c n (mem_idx.1 hp) hi hnp hn

/-! ### frames of the id writers -/

theorem frame_self (s : St) : s = { s with nodes := s.nodes } := rfl

theorem writeAll_tid_frame (s : St) (idx : List (Nat × List Node)) :
    writeAll tidW s idx = { s with nodes := (writeAll tidW s idx).nodes } :=
  writeAll_inv tidW (fun st => st = { s with nodes := st.nodes })
    (fun _ n v h => PC.frame_setTid h n v) idx s (frame_self s)

theorem writeAll_lin_frame (s : St) (idx : List (Nat × List Node)) :
    writeAll linW s idx = { s with nodes := (writeAll linW s idx).nodes } :=
  writeAll_inv linW (fun st => st = { s with nodes := st.nodes })
    (fun _ n v h => PC.frame_setLin h n (some v)) idx s (frame_self s)

theorem writeAll_tid_G (s : St) (idx : List (Nat × List Node)) : G (writeAll tidW s idx) = G s :=
  writeAll_inv tidW (fun st => G st = G s) (fun st n v h => (G_setTid st n v).trans h) idx s rfl

theorem writeAll_lin_G (s : St) (idx : List (Nat × List Node)) : G (writeAll linW s idx) = G s :=
  writeAll_inv linW (fun st => G st = G s) (fun st n v h => (G_setLin st n (some v)).trans h) idx s rfl

theorem writeAll_tid_linOf (s : St) (idx : List (Nat × List Node)) (m : Node) :
    (writeAll tidW s idx).linOf m = s.linOf m :=
  writeAll_inv tidW (fun st => st.linOf m = s.linOf m)
    (fun st n v h => (PC.linOf_setTid st n m v).trans h) idx s rfl

theorem writeAll_lin_tidOf (s : St) (idx : List (Nat × List Node)) (m : Node) :
    (writeAll linW s idx).tidOf m = s.tidOf m :=
  writeAll_inv linW (fun st => st.tidOf m = s.tidOf m)
    (fun st n v h => (PC.tidOf_setLin st n m (some v)).trans h) idx s rfl

/-! ## §6 `assignTracklets` / `assignLineages` -/

/-- the classes `assignTracklets` numbers -/
def tComps (s : St) : List (List Node) := components s.ids s.trackletEdges
/-- the classes `assignLineages` numbers -/
def lComps (s : St) : List (List Node) := components s.ids s.edgeList

def tWritten (s : St) : St :=
  writeAll tidW s (List.zip (List.range (tComps s).length) (tComps s))
def lWritten (s : St) : St :=
  writeAll linW s (List.zip (List.range (lComps s).length) (lComps s))

theorem assignTracklets_eq (s : St) :
    s.assignTracklets =
      { tWritten s with t2n := bookOf (tComps s), maxTid := (tComps s).length } := rfl

theorem assignLineages_eq (s : St) :
    s.assignLineages =
      { lWritten s with l2n := bookOf (lComps s), maxLin := (lComps s).length } := rfl

theorem mem_trackletEdges {s : St} {e : Edge} :
    e ∈ s.trackletEdges ↔ (e ∈ s.edgeList ∧ s.outdeg e.1 < 2) := by
  unfold trackletEdges St.edgeList
  simp only [mem_filter, decide_eq_true_eq]

theorem mem_trackletEdges' {s : St} {e : Edge} :
    e ∈ s.trackletEdges ↔ (e ∈ s.edgeList ∧ s.outdeg e.1 = 1) := by
  rw [mem_trackletEdges]
  constructor
  · rintro ⟨h1, h2⟩
    have := tk_outdeg_pos (s := s) (u := e.1) (c := e.2) h1
    exact ⟨h1, by omega⟩
  · rintro ⟨h1, h2⟩; exact ⟨h1, by omega⟩

theorem reach_sameSeg {s : St} {a b : Node} (ha : a ∈ s.ids) :
    Reach s.trackletEdges a b ↔ s.SameSeg a b := by
  constructor
  · intro h
    induction h with
    | refl => exact SameSeg.refl _ ha
    | down p c _ he ih =>
      have := mem_trackletEdges'.1 he
      exact SameSeg.down _ p c ih this.1 this.2
    | up p c _ he ih =>
      have := mem_trackletEdges'.1 he
      exact SameSeg.up _ p c ih this.1 this.2
  · intro h
    induction h with
    | refl => exact Reach.refl _
    | down p c _ he ho ih => exact Reach.down _ p c ih (mem_trackletEdges'.2 ⟨he, ho⟩)
    | up p c _ he ho ih => exact Reach.up _ p c ih (mem_trackletEdges'.2 ⟨he, ho⟩)

theorem reach_conn {s : St} {a b : Node} (ha : a ∈ s.ids) :
    Reach s.edgeList a b ↔ s.Conn a b := by
  constructor
  · intro h
    induction h with
    | refl => exact Conn.refl _ ha
    | down p c _ he ih => exact Conn.down _ p c ih he
    | up p c _ he ih => exact Conn.up _ p c ih he
  · intro h
    induction h with
    | refl => exact Reach.refl _
    | down p c _ he ih => exact Reach.down _ p c ih he
    | up p c _ he ih => exact Reach.up _ p c ih he

theorem tComps_part {s : St} (hF : s.Forest) : Part s.ids s.trackletEdges (tComps s) :=
  components_part (fun e he =>
    ⟨hF.src_mem e (mem_trackletEdges.1 he).1, hF.dst_mem e (mem_trackletEdges.1 he).1⟩)

theorem lComps_part {s : St} (hF : s.Forest) : Part s.ids s.edgeList (lComps s) :=
  components_part (fun e he => ⟨hF.src_mem e he, hF.dst_mem e he⟩)

/-! ### generic consequences of "every node carries the index of its class" -/

section assigned
variable {nodes : List Node} {es : List Edge} {cs : List (List Node)} {rd : Node → Option Nat}

theorem assigned_iff (hP : Part nodes es cs)
    (hrd : ∀ (i : Nat) (c : List Node) (n : Node), cs[i]? = some c → n ∈ c → rd n = some (i + 1))
    {a b : Node} (ha : a ∈ nodes) (hb : b ∈ nodes) : rd a = rd b ↔ Reach es a b := by
  rcases hP.cover a ha with ⟨i, c, hi, hac⟩
  rcases hP.cover b hb with ⟨j, c', hj, hbc⟩
  rw [hrd i c a hi hac, hrd j c' b hj hbc, ← hP.same_iff hi hj hac hbc]
  constructor
  · intro h; simpa using h
  · intro h; rw [h]

theorem assigned_some (hP : Part nodes es cs)
    (hrd : ∀ (i : Nat) (c : List Node) (n : Node), cs[i]? = some c → n ∈ c → rd n = some (i + 1))
    {a : Node} (ha : a ∈ nodes) : ∃ i, i < cs.length ∧ rd a = some (i + 1) := by
  rcases hP.cover a ha with ⟨i, c, hi, hac⟩
  rcases List.getElem?_eq_some_iff.1 hi with ⟨hlt, _⟩
  exact ⟨i, hlt, hrd i c a hi hac⟩

theorem assigned_book_nodup (hP : Part nodes es cs) {id : Nat} {l : List Node}
    (h : alook id (bookOf cs) = some l) : l.Nodup := by
  rcases (alook_bookOf cs id l).1 h with ⟨i, _, hi⟩
  rcases hP.cls i l hi with ⟨_, _, _, hn, _⟩
  exact hn

theorem assigned_book_iff (hP : Part nodes es cs)
    (hrd : ∀ (i : Nat) (c : List Node) (n : Node), cs[i]? = some c → n ∈ c → rd n = some (i + 1))
    (id : Nat) (n : Node) :
    (∃ l, alook id (bookOf cs) = some l ∧ n ∈ l) ↔ (n ∈ nodes ∧ rd n = some id) := by
  constructor
  · rintro ⟨l, hl, hn⟩
    rcases (alook_bookOf cs id l).1 hl with ⟨i, e, hi⟩
    rcases hP.cls i l hi with ⟨_, _, _, _, hsub⟩
    exact ⟨hsub n hn, e ▸ hrd i l n hi hn⟩
  · rintro ⟨hn, hid⟩
    rcases hP.cover n hn with ⟨i, c, hi, hnc⟩
    have := hrd i c n hi hnc
    rw [hid] at this
    have e : id = i + 1 := by simpa using this
    exact ⟨c, (alook_bookOf cs id c).2 ⟨i, e, hi⟩, hnc⟩

end assigned

/-! ### the ids after assignment -/

theorem tWritten_tid {s : St} (hF : s.Forest) (i : Nat) (c : List Node) (n : Node)
    (hi : (tComps s)[i]? = some c) (hn : n ∈ c) : (tWritten s).tidOf n = some (i + 1) :=
  writeAll_part tidW (tComps_part hF) s rfl hi hn

theorem lWritten_lin {s : St} (hF : s.Forest) (i : Nat) (c : List Node) (n : Node)
    (hi : (lComps s)[i]? = some c) (hn : n ∈ c) : (lWritten s).linOf n = some (i + 1) :=
  writeAll_part linW (lComps_part hF) s rfl hi hn

theorem assignTracklets_tidOf (s : St) (n : Node) :
    s.assignTracklets.tidOf n = (tWritten s).tidOf n := rfl
theorem assignLineages_linOf (s : St) (n : Node) :
    s.assignLineages.linOf n = (lWritten s).linOf n := rfl

theorem assignTracklets_G (s : St) : G s.assignTracklets = G s :=
  (rfl : G s.assignTracklets = G (tWritten s)).trans (writeAll_tid_G s _)
theorem assignLineages_G (s : St) : G s.assignLineages = G s :=
  (rfl : G s.assignLineages = G (lWritten s)).trans (writeAll_lin_G s _)

theorem assignTracklets_linOf (s : St) (n : Node) : s.assignTracklets.linOf n = s.linOf n :=
  (rfl : s.assignTracklets.linOf n = (tWritten s).linOf n).trans (writeAll_tid_linOf s _ n)
theorem assignLineages_tidOf (s : St) (n : Node) : s.assignLineages.tidOf n = s.tidOf n :=
  (rfl : s.assignLineages.tidOf n = (lWritten s).tidOf n).trans (writeAll_lin_tidOf s _ n)

/-- everything except `nodes`, `t2n`, `maxTid` is untouched -/
theorem assignTracklets_frame (s : St) :
    s.assignTracklets = { s with nodes := s.assignTracklets.nodes, t2n := bookOf (tComps s),
                                 maxTid := (tComps s).length } := by
  rw [assignTracklets_eq]
  have h := writeAll_tid_frame s (List.zip (List.range (tComps s).length) (tComps s))
  show ({ tWritten s with t2n := _, maxTid := _ } : St) = _
  unfold tWritten
  rw [h]

theorem assignLineages_frame (s : St) :
    s.assignLineages = { s with nodes := s.assignLineages.nodes, l2n := bookOf (lComps s),
                                maxLin := (lComps s).length } := by
  rw [assignLineages_eq]
  have h := writeAll_lin_frame s (List.zip (List.range (lComps s).length) (lComps s))
  show ({ lWritten s with l2n := _, maxLin := _ } : St) = _
  unfold lWritten
  rw [h]

/-! ### congruences: the invariants read the graph view `G` and the id columns only -/

theorem isHead_congr {s s' : St} (hG : G s' = G s) (a : Node) : s'.IsHead a ↔ s.IsHead a := by
  unfold IsHead
  rw [G_ids hG, G_es hG]
  simp only [G_outdeg hG]

theorem isRoot_congr {s s' : St} (hG : G s' = G s) (a : Node) : s'.IsRoot a ↔ s.IsRoot a := by
  unfold IsRoot
  rw [G_ids hG, G_es hG]

theorem tidOK_congr {s s' : St} (hG : G s' = G s) (ht : ∀ n, s'.tidOf n = s.tidOf n)
    (h : s.TidOK) : s'.TidOK where
  along := by
    intro e he ho
    rw [G_es hG] at he
    rw [G_outdeg hG] at ho
    rw [ht, ht]
    exact h.along e he ho
  heads := by
    intro a b ha hb hab
    rw [ht, ht]
    exact h.heads a b ((isHead_congr hG a).1 ha) ((isHead_congr hG b).1 hb) hab

theorem linOK_congr {s s' : St} (hG : G s' = G s) (hl : ∀ n, s'.linOf n = s.linOf n)
    (h : s.LinOK) : s'.LinOK where
  has := by
    intro n hn
    rw [G_ids hG] at hn
    rw [hl]; exact h.has n hn
  along := by
    intro e he
    rw [G_es hG] at he
    rw [hl, hl]
    exact h.along e he
  roots := by
    intro a b ha hb hab
    rw [hl, hl]
    exact h.roots a b ((isRoot_congr hG a).1 ha) ((isRoot_congr hG b).1 hb) hab

theorem sameSeg_congr {s s' : St} (hG : G s' = G s) {a b : Node} (h : s.SameSeg a b) :
    s'.SameSeg a b := by
  induction h with
  | refl hn => exact SameSeg.refl _ (by rw [G_ids hG]; exact hn)
  | down p c _ he ho ih =>
    exact SameSeg.down _ p c ih (by rw [G_es hG]; exact he) (by rw [G_outdeg hG]; exact ho)
  | up p c _ he ho ih =>
    exact SameSeg.up _ p c ih (by rw [G_es hG]; exact he) (by rw [G_outdeg hG]; exact ho)

theorem conn_congr {s s' : St} (hG : G s' = G s) {a b : Node} (h : s.Conn a b) :
    s'.Conn a b := by
  induction h with
  | refl hn => exact Conn.refl _ (by rw [G_ids hG]; exact hn)
  | down p c _ he ih => exact Conn.down _ p c ih (by rw [G_es hG]; exact he)
  | up p c _ he ih => exact Conn.up _ p c ih (by rw [G_es hG]; exact he)

/-! ### unique head of a segment, unique root of a component -/

theorem sameSeg_heads_eq {s : St} (hF : s.Forest) {a b : Node} (ha : s.IsHead a) (hb : s.IsHead b)
    (h : s.SameSeg a b) : a = b := by
  have hd : s.tk_SegDown a b := (h.head_iff hF a ha).1 (tk_SegDown.refl a)
  apply Classical.byContradiction
  intro hne
  exact hd.not_head (fun e => hne e.symm) hb

theorem conn_root_iff {s : St} (hF : s.Forest) {a b : Node} (h : s.Conn a b) :
    ∀ r, s.IsRoot r → (s.Anc r a ↔ s.Anc r b) := by
  induction h with
  | refl => intro r _; exact Iff.rfl
  | down p c _ he ih =>
    intro r hr
    rw [ih r hr]
    constructor
    · intro hd; exact Anc.step _ p c hd he
    · intro hd
      rcases hd.tail with e | ⟨p', hp', he'⟩
      · subst e; exact absurd he (hr.2 p)
      · rw [hF.par_unique he he']; exact hp'
  | up p c _ he ih =>
    intro r hr
    rw [ih r hr]
    constructor
    · intro hd
      rcases hd.tail with e | ⟨p', hp', he'⟩
      · subst e; exact absurd he (hr.2 p)
      · rw [hF.par_unique he he']; exact hp'
    · intro hd; exact Anc.step _ p c hd he

theorem conn_roots_eq {s : St} (hF : s.Forest) {a b : Node} (ha : s.IsRoot a) (hb : s.IsRoot b)
    (h : s.Conn a b) : a = b := by
  have hd : s.Anc a b := (conn_root_iff hF h a ha).1 (Anc.refl a)
  rcases hd.tail with e | ⟨p, _, he⟩
  · exact e
  · exact absurd he (hb.2 p)

/-! ### C04: `assignTracklets` -/

theorem assign_tid_iff {s : St} (hF : s.Forest) {a b : Node} (ha : a ∈ s.ids) (hb : b ∈ s.ids) :
    s.assignTracklets.tidOf a = s.assignTracklets.tidOf b ↔ s.SameSeg a b := by
  rw [← reach_sameSeg ha]
  exact assigned_iff (rd := s.assignTracklets.tidOf) (tComps_part hF)
    (fun i c n hi hn => tWritten_tid hF i c n hi hn) ha hb

theorem assign_tidOK {s : St} (hF : s.Forest) : s.assignTracklets.TidOK := by
  have hG := assignTracklets_G s
  refine ⟨?_, ?_⟩
  · intro e he ho
    rw [G_es hG] at he
    rw [G_outdeg hG] at ho
    rw [assign_tid_iff hF (hF.dst_mem e he) (hF.src_mem e he)]
    exact SameSeg.up e.2 e.1 e.2 (SameSeg.refl _ (hF.dst_mem e he)) he ho
  · intro a b ha hb hab heq
    have ha' := (isHead_congr hG a).1 ha
    have hb' := (isHead_congr hG b).1 hb
    exact hab (sameSeg_heads_eq hF ha' hb' ((assign_tid_iff hF ha'.1 hb'.1).1 heq))

theorem assign_TOK {s : St} (hF : s.Forest) : PC.TOK s.assignTracklets := by
  have hG := assignTracklets_G s
  have hP := tComps_part hF
  have hrd : ∀ (i : Nat) (c : List Node) (n : Node), (tComps s)[i]? = some c → n ∈ c →
      s.assignTracklets.tidOf n = some (i + 1) := fun i c n hi hn => tWritten_tid hF i c n hi hn
  have ht2n : s.assignTracklets.t2n = bookOf (tComps s) := rfl
  refine ⟨⟨?_, ?_⟩, ?_, ?_⟩
  · rw [ht2n]; exact nodup_keys_bookOf _
  · intro id l h; rw [ht2n] at h; exact assigned_book_nodup hP h
  · intro id n
    unfold PC.InBook
    rw [ht2n, G_ids hG]
    exact assigned_book_iff hP hrd id n
  · intro n t h
    have hn : n ∈ s.ids := by rw [← G_ids hG]; exact PC.tidOf_some_mem h
    rcases assigned_some hP hrd hn with ⟨i, hlt, e⟩
    rw [h] at e
    have : t = i + 1 := by simpa using e
    show t ≤ (tComps s).length
    omega

theorem assign_LOK_keep {s : St} (hL : PC.LOK s) : PC.LOK s.assignTracklets := by
  have hfr := assignTracklets_frame s
  exact PC.LOK_congr (G_ids (assignTracklets_G s)) (assignTracklets_linOf s)
    ((congrArg St.l2n hfr).trans rfl) ((congrArg St.maxLin hfr).trans rfl)
    ((congrArg St.linOn hfr).trans rfl) hL

theorem assignTracklets_linOK {s : St} (h : s.LinOK) : s.assignTracklets.LinOK :=
  linOK_congr (assignTracklets_G s) (assignTracklets_linOf s) h

/-! ### C05: `assignLineages` -/

theorem assign_lin_iff {s : St} (hF : s.Forest) {a b : Node} (ha : a ∈ s.ids) (hb : b ∈ s.ids) :
    s.assignLineages.linOf a = s.assignLineages.linOf b ↔ s.Conn a b := by
  rw [← reach_conn ha]
  exact assigned_iff (rd := s.assignLineages.linOf) (lComps_part hF)
    (fun i c n hi hn => lWritten_lin hF i c n hi hn) ha hb

theorem assign_linOK {s : St} (hF : s.Forest) : s.assignLineages.LinOK := by
  have hG := assignLineages_G s
  have hP := lComps_part hF
  have hrd : ∀ (i : Nat) (c : List Node) (n : Node), (lComps s)[i]? = some c → n ∈ c →
      s.assignLineages.linOf n = some (i + 1) := fun i c n hi hn => lWritten_lin hF i c n hi hn
  refine ⟨?_, ?_, ?_⟩
  · intro n hn
    rw [G_ids hG] at hn
    rcases assigned_some hP hrd hn with ⟨i, _, e⟩
    rw [e]; rfl
  · intro e he
    rw [G_es hG] at he
    rw [assign_lin_iff hF (hF.dst_mem e he) (hF.src_mem e he)]
    exact Conn.up e.2 e.1 e.2 (Conn.refl _ (hF.dst_mem e he)) he
  · intro a b ha hb hab heq
    have ha' := (isRoot_congr hG a).1 ha
    have hb' := (isRoot_congr hG b).1 hb
    exact hab (conn_roots_eq hF ha' hb' ((assign_lin_iff hF ha'.1 hb'.1).1 heq))

theorem assign_LOK {s : St} (hF : s.Forest) : PC.LOK s.assignLineages := by
  have hG := assignLineages_G s
  have hP := lComps_part hF
  have hrd : ∀ (i : Nat) (c : List Node) (n : Node), (lComps s)[i]? = some c → n ∈ c →
      s.assignLineages.linOf n = some (i + 1) := fun i c n hi hn => lWritten_lin hF i c n hi hn
  have hl2n : s.assignLineages.l2n = bookOf (lComps s) := rfl
  refine ⟨⟨?_, ?_⟩, ?_, ?_⟩
  · rw [hl2n]; exact nodup_keys_bookOf _
  · intro id l h; rw [hl2n] at h; exact assigned_book_nodup hP h
  · intro _ id n
    unfold PC.InBook
    rw [hl2n, G_ids hG]
    exact assigned_book_iff hP hrd id n
  · intro _ n t h
    have hn : n ∈ s.ids := by rw [← G_ids hG]; exact PC.linOf_some_mem h
    rcases assigned_some hP hrd hn with ⟨i, hlt, e⟩
    rw [h] at e
    have : t = i + 1 := by simpa using e
    show t ≤ (lComps s).length
    omega

theorem assign_TOK_keep {s : St} (hT : PC.TOK s) : PC.TOK s.assignLineages := by
  have hfr := assignLineages_frame s
  exact PC.TOK_congr (G_ids (assignLineages_G s)) (assignLineages_tidOf s)
    ((congrArg St.t2n hfr).trans rfl) ((congrArg St.maxTid hfr).trans rfl) hT

theorem assignLineages_tidOK {s : St} (h : s.TidOK) : s.assignLineages.TidOK :=
  tidOK_congr (assignLineages_G s) (assignLineages_tidOf s) h

theorem assignLineages_linOn (s : St) : s.assignLineages.linOn = s.linOn :=
  (congrArg St.linOn (assignLineages_frame s)).trans rfl
theorem assignTracklets_linOn (s : St) : s.assignTracklets.linOn = s.linOn :=
  (congrArg St.linOn (assignTracklets_frame s)).trans rfl

/-! ## §7 `enable` -/

/-- registry stage of `enable` -/
def en1 (s : St) (keys : List Key) : St :=
  { s with
    rpActive := s.rpActive ++ (keys.filter (fun k => s.rpAvail.contains k && !(s.rpActive.contains k))).eraseDups,
    iouActive := s.iouActive || (match s.iouKey with | some k => keys.contains k | none => false),
    linOn := s.linOn || keys.contains keyLin,
    regNode := s.regNode ++ ((keys.filter (fun k => s.rpAvail.contains k && !(s.regNode.contains k))).eraseDups),
    regEdge := match s.iouKey with
      | some k => if keys.contains k && !(s.regEdge.contains k) then s.regEdge ++ [k] else s.regEdge
      | none => s.regEdge }

def iouOnOf (s : St) (keys : List Key) : Bool :=
  match s.iouKey with | some k => keys.contains k | none => false

/-- measurement stage (regionprops, IoU) -/
def en3 (s : St) (keys : List Key) : St :=
  if iouOnOf s keys then ((en1 s keys).rpCompute keys).iouCompute else (en1 s keys).rpCompute keys

def en4 (s : St) (keys : List Key) : St :=
  if keys.contains keyTid then (en3 s keys).assignTracklets else en3 s keys

def en5 (s : St) (keys : List Key) : St :=
  if keys.contains keyLin && (en4 s keys).linOn then (en4 s keys).assignLineages else en4 s keys

theorem enable_eq (s : St) (keys : List Key) (rc : Bool) :
    s.enable keys rc =
      if keys.any (fun k => !(s.annotKeys.contains k)) then none
      else if !rc then some (en1 s keys) else some (en5 s keys) := rfl

theorem enable_some {s s' : St} {keys : List Key} {rc : Bool} (h : s.enable keys rc = some s') :
    s' = if rc then en5 s keys else en1 s keys := by
  rw [enable_eq] at h
  split at h
  · cases h
  · cases rc
    · simp only [Bool.not_false, if_true, Option.some.injEq] at h
      simp [h]
    · simp only [Bool.not_true, Bool.false_eq_true, if_false, Option.some.injEq] at h
      simp [h]

/-- same graph view, same id columns, same lookups and maxima (the registry — including
    `linOn` — and the free-form attributes may differ) -/
structure Same (s s' : St) : Prop where
  g : G s' = G s
  tid : ∀ n, s'.tidOf n = s.tidOf n
  lin : ∀ n, s'.linOf n = s.linOf n
  t2n : s'.t2n = s.t2n
  l2n : s'.l2n = s.l2n
  maxTid : s'.maxTid = s.maxTid
  maxLin : s'.maxLin = s.maxLin

theorem Same.refl (s : St) : Same s s := ⟨rfl, fun _ => rfl, fun _ => rfl, rfl, rfl, rfl, rfl⟩

theorem Same.trans {a b c : St} (h1 : Same a b) (h2 : Same b c) : Same a c :=
  ⟨h2.g.trans h1.g, fun n => (h2.tid n).trans (h1.tid n), fun n => (h2.lin n).trans (h1.lin n),
   h2.t2n.trans h1.t2n, h2.l2n.trans h1.l2n, h2.maxTid.trans h1.maxTid, h2.maxLin.trans h1.maxLin⟩

theorem Same.forest {s s' : St} (h : Same s s') (hF : s.Forest) : s'.Forest := forest_congr h.g hF
theorem Same.tidOK {s s' : St} (h : Same s s') (hT : s.TidOK) : s'.TidOK := tidOK_congr h.g h.tid hT
theorem Same.linOK {s s' : St} (h : Same s s') (hL : s.LinOK) : s'.LinOK := linOK_congr h.g h.lin hL
theorem Same.TOK {s s' : St} (h : Same s s') (hT : PC.TOK s) : PC.TOK s' :=
  PC.TOK_congr (G_ids h.g) h.tid h.t2n h.maxTid hT

/-- the lineage lookups are only constrained while the lineage feature is on -/
theorem Same.LOK {s s' : St} (h : Same s s') (hon : s'.linOn = true → s.linOn = true)
    (hL : PC.LOK s) : PC.LOK s' := by
  refine ⟨by rw [h.l2n]; exact hL.wf, ?_, ?_⟩
  · intro ho id n
    unfold PC.InBook
    rw [h.l2n, G_ids h.g, h.lin]
    exact hL.iff (hon ho) id n
  · intro ho n t
    rw [h.lin, h.maxLin]
    exact hL.max (hon ho) n t

theorem same_of_BV {s s' : St} (hb : PC.BV s s') (hg : G s' = G s) : Same s s' :=
  ⟨hg, hb.tidOf, hb.linOf, hb.t2n, hb.l2n, hb.maxTid, hb.maxLin⟩

theorem same_en1 (s : St) (keys : List Key) : Same s (en1 s keys) :=
  ⟨rfl, fun _ => rfl, fun _ => rfl, rfl, rfl, rfl, rfl⟩

theorem en1_linOn (s : St) (keys : List Key) :
    (en1 s keys).linOn = (s.linOn || keys.contains keyLin) := rfl

/-- `rpCompute` only calls `setOther` -/
theorem rpCompute_inv (P : St → Prop) (hP : ∀ st n k v, P st → P (st.setOther n k v))
    (s : St) (keys : List Key) (h : P s) : P (s.rpCompute keys) := by
  unfold rpCompute
  split
  · exact h
  · simp only []
    split
    · exact h
    · apply foldl_inv P _ _ _ h
      intro st t hst
      apply foldl_inv P _ _ _ hst
      intro st2 l hst2
      split
      · apply foldl_inv P _ _ _ hst2
        intro st3 k hst3
        exact hP _ _ _ _ hst3
      · exact hst2

theorem same_rpCompute (s : St) (keys : List Key) : Same s (s.rpCompute keys) ∧
    (s.rpCompute keys).linOn = s.linOn :=
  rpCompute_inv (fun st => Same s st ∧ st.linOn = s.linOn)
    (fun st n k v h =>
      ⟨h.1.trans (same_of_BV (PC.BV_setOther st n k v) (G_setOther st n k v)), h.2⟩)
    s keys ⟨Same.refl s, rfl⟩

theorem iouUpdateEdge_frame {s0 s : St} (h : s = { s0 with edges := s.edges }) (e : Edge) :
    s.iouUpdateEdge e = { s0 with edges := (s.iouUpdateEdge e).edges } := by
  unfold iouUpdateEdge
  split
  · split
    · unfold setEdgeAttr
      simp only []
      rw [h]
    · exact h
  · exact h

theorem iouCompute_frame (s : St) : s.iouCompute = { s with edges := s.iouCompute.edges } := by
  unfold iouCompute
  exact foldl_inv (fun (st : St) => st = { s with edges := st.edges }) _ _ _ rfl
    (fun st e h => iouUpdateEdge_frame h e)

theorem same_iouCompute (s : St) : Same s s.iouCompute ∧ s.iouCompute.linOn = s.linOn := by
  have h := iouCompute_frame s
  have hn : s.iouCompute.nodes = s.nodes := (congrArg St.nodes h).trans rfl
  exact ⟨⟨G_iouCompute s, PC.tidOf_of_nodes hn, PC.linOf_of_nodes hn, (congrArg St.t2n h).trans rfl,
    (congrArg St.l2n h).trans rfl, (congrArg St.maxTid h).trans rfl, (congrArg St.maxLin h).trans rfl⟩,
    (congrArg St.linOn h).trans rfl⟩

theorem same_en3 (s : St) (keys : List Key) :
    Same s (en3 s keys) ∧ (en3 s keys).linOn = (s.linOn || keys.contains keyLin) := by
  have h1 := same_en1 s keys
  have h2 := same_rpCompute (en1 s keys) keys
  unfold en3
  by_cases hi : iouOnOf s keys = true
  · rw [if_pos hi]
    have h3 := same_iouCompute ((en1 s keys).rpCompute keys)
    exact ⟨(h1.trans h2.1).trans h3.1, h3.2.trans (h2.2.trans (en1_linOn s keys))⟩
  · rw [if_neg hi]
    exact ⟨h1.trans h2.1, h2.2.trans (en1_linOn s keys)⟩

theorem en4_G (s : St) (keys : List Key) : G (en4 s keys) = G s := by
  unfold en4
  split
  · exact (assignTracklets_G _).trans (same_en3 s keys).1.g
  · exact (same_en3 s keys).1.g

theorem en4_linOn (s : St) (keys : List Key) :
    (en4 s keys).linOn = (s.linOn || keys.contains keyLin) := by
  unfold en4
  split
  · exact (assignTracklets_linOn _).trans (same_en3 s keys).2
  · exact (same_en3 s keys).2

theorem en5_G (s : St) (keys : List Key) : G (en5 s keys) = G s := by
  unfold en5
  split
  · exact (assignLineages_G _).trans (en4_G s keys)
  · exact en4_G s keys

theorem en5_linOn (s : St) (keys : List Key) :
    (en5 s keys).linOn = (s.linOn || keys.contains keyLin) := by
  unfold en5
  split
  · exact (assignLineages_linOn _).trans (en4_linOn s keys)
  · exact en4_linOn s keys

theorem enable_G {s s' : St} {keys : List Key} {rc : Bool} (h : s.enable keys rc = some s') :
    G s' = G s := by
  rw [enable_some h]
  cases rc
  · exact (same_en1 s keys).g
  · exact en5_G s keys

theorem enable_linOn {s s' : St} {keys : List Key} {rc : Bool} (h : s.enable keys rc = some s') :
    s'.linOn = (s.linOn || keys.contains keyLin) := by
  rw [enable_some h]
  cases rc
  · rfl
  · exact en5_linOn s keys

/-- the graph-side invariant without the `linOn` flag -/
structure VCore (s : St) : Prop where
  forest : s.Forest
  tid : s.TidOK
  lin : s.LinOK
  tok : PC.TOK s
  lok : PC.LOK s

theorem VCore.of_valid {s : St} (h : s.Valid) : VCore s :=
  ⟨h.forest, h.tid, h.lin, ((PC.bookOK_iff s).1 h.book).1, ((PC.bookOK_iff s).1 h.book).2⟩

theorem VCore.valid {s : St} (h : VCore s) (hon : s.linOn = true) : s.Valid :=
  ⟨h.forest, h.tid, h.lin, (PC.bookOK_iff s).2 ⟨h.tok, h.lok⟩, hon⟩

theorem VCore.same {s s' : St} (h : VCore s) (hs : Same s s')
    (hon : s'.linOn = true → s.linOn = true) : VCore s' :=
  ⟨hs.forest h.forest, hs.tidOK h.tid, hs.linOK h.lin, hs.TOK h.tok, hs.LOK hon h.lok⟩

theorem VCore.assignT {s : St} (h : VCore s) : VCore s.assignTracklets :=
  ⟨forest_congr (assignTracklets_G s) h.forest, assign_tidOK h.forest, assignTracklets_linOK h.lin,
   assign_TOK h.forest, assign_LOK_keep h.lok⟩

theorem VCore.assignL {s : St} (h : VCore s) : VCore s.assignLineages :=
  ⟨forest_congr (assignLineages_G s) h.forest, assignLineages_tidOK h.tid, assign_linOK h.forest,
   assign_TOK_keep h.tok, assign_LOK h.forest⟩

/-- preservation: on a valid state (lineage feature already on) every accepted `enable` —
    whatever keys, with or without recompute — gives a valid state -/
theorem enable_valid {s s' : St} {keys : List Key} {rc : Bool} (hV : s.Valid)
    (h : s.enable keys rc = some s') : s'.Valid := by
  have hon : s'.linOn = true := by rw [enable_linOn h, hV.linOn]; rfl
  refine VCore.valid ?_ hon
  rw [enable_some h]
  have h0 := VCore.of_valid hV
  cases rc
  · exact h0.same (same_en1 s keys) (fun _ => hV.linOn)
  · simp only [if_true]
    have h3 : VCore (en3 s keys) := h0.same (same_en3 s keys).1 (fun _ => hV.linOn)
    have h4 : VCore (en4 s keys) := by
      unfold en4; split
      · exact h3.assignT
      · exact h3
    unfold en5; split
    · exact h4.assignL
    · exact h4

/-- the part of `VCore` a recompute of both id features does not need: nothing about the ids -/
theorem enable_recompute_valid {s s' : St} {keys : List Key} (hF : s.Forest)
    (hT : keys.contains keyTid = true) (hL : keys.contains keyLin = true)
    (h : s.enable keys true = some s') : s'.Valid := by
  have hon : s'.linOn = true := by rw [enable_linOn h, hL]; simp
  rw [enable_some h] at hon ⊢
  simp only [if_true] at hon ⊢
  have hF3 : (en3 s keys).Forest := (same_en3 s keys).1.forest hF
  have e4 : en4 s keys = (en3 s keys).assignTracklets := by unfold en4; rw [if_pos hT]
  have hF4 : (en4 s keys).Forest := forest_congr (en4_G s keys) hF
  have hon4 : (en4 s keys).linOn = true := by rw [en4_linOn, hL]; simp
  have e5 : en5 s keys = (en4 s keys).assignLineages := by
    unfold en5; rw [hL, hon4]; rfl
  rw [e5] at hon ⊢
  refine ⟨forest_congr (assignLineages_G _) hF4, ?_, assign_linOK hF4, ?_, hon⟩
  · apply assignLineages_tidOK
    rw [e4]; exact assign_tidOK hF3
  · rw [PC.bookOK_iff]
    refine ⟨?_, assign_LOK hF4⟩
    apply assign_TOK_keep
    rw [e4]; exact assign_TOK hF3

/-! ### what a recompute writes depends on the graph view only; the ids are current -/

theorem trackletEdges_congr {s t : St} (hG : G t = G s) : t.trackletEdges = s.trackletEdges := by
  have he : t.edgeList = s.edgeList := G_es hG
  unfold trackletEdges
  show List.filter _ t.edgeList = List.filter _ s.edgeList
  rw [he]
  apply filter_congr
  intro e _
  rw [G_outdeg hG]

theorem tComps_congr {s t : St} (hG : G t = G s) : tComps t = tComps s := by
  unfold tComps; rw [G_ids hG, trackletEdges_congr hG]

theorem lComps_congr {s t : St} (hG : G t = G s) : lComps t = lComps s := by
  unfold lComps; rw [G_ids hG, G_es hG]

theorem tidOf_none_of_not_mem {s : St} {n : Node} (h : n ∉ s.ids) : s.tidOf n = none := by
  cases ht : s.tidOf n with
  | none => rfl
  | some t => exact absurd (PC.tidOf_some_mem ht) h

theorem linOf_none_of_not_mem {s : St} {n : Node} (h : n ∉ s.ids) : s.linOf n = none := by
  cases ht : s.linOf n with
  | none => rfl
  | some t => exact absurd (PC.linOf_some_mem ht) h

/-- the track ids written by `assignTracklets` are a function of the graph view -/
theorem assign_tid_indep {s t : St} (hF : s.Forest) (hG : G t = G s) (n : Node) :
    t.assignTracklets.tidOf n = s.assignTracklets.tidOf n := by
  have hFt : t.Forest := forest_congr hG hF
  by_cases hn : n ∈ s.ids
  · rcases (tComps_part hF).cover n hn with ⟨i, c, hi, hnc⟩
    rw [assignTracklets_tidOf, assignTracklets_tidOf, tWritten_tid hF i c n hi hnc,
      tWritten_tid hFt i c n (by rw [tComps_congr hG]; exact hi) hnc]
  · rw [tidOf_none_of_not_mem (s := s.assignTracklets) (by rw [G_ids (assignTracklets_G s)]; exact hn),
      tidOf_none_of_not_mem (s := t.assignTracklets)
        (by rw [G_ids (assignTracklets_G t), G_ids hG]; exact hn)]

theorem assign_lin_indep {s t : St} (hF : s.Forest) (hG : G t = G s) (n : Node) :
    t.assignLineages.linOf n = s.assignLineages.linOf n := by
  have hFt : t.Forest := forest_congr hG hF
  by_cases hn : n ∈ s.ids
  · rcases (lComps_part hF).cover n hn with ⟨i, c, hi, hnc⟩
    rw [assignLineages_linOf, assignLineages_linOf, lWritten_lin hF i c n hi hnc,
      lWritten_lin hFt i c n (by rw [lComps_congr hG]; exact hi) hnc]
  · rw [linOf_none_of_not_mem (s := s.assignLineages) (by rw [G_ids (assignLineages_G s)]; exact hn),
      linOf_none_of_not_mem (s := t.assignLineages)
        (by rw [G_ids (assignLineages_G t), G_ids hG]; exact hn)]

/-- after `enable keys true` with the track-id key among `keys`, the stored track ids are what a
    bulk assignment on the bare graph gives -/
theorem enable_tid_eq {s s' : St} {keys : List Key} (hF : s.Forest)
    (hT : keys.contains keyTid = true) (h : s.enable keys true = some s') (n : Node) :
    s'.tidOf n = s.assignTracklets.tidOf n := by
  rw [enable_some h]
  simp only [if_true]
  have e4 : en4 s keys = (en3 s keys).assignTracklets := by unfold en4; rw [if_pos hT]
  have h5 : (en5 s keys).tidOf n = (en4 s keys).tidOf n := by
    unfold en5; split
    · exact assignLineages_tidOf _ n
    · rfl
  rw [h5, e4]
  exact assign_tid_indep hF (same_en3 s keys).1.g n

theorem enable_lin_eq {s s' : St} {keys : List Key} (hF : s.Forest)
    (hL : keys.contains keyLin = true) (h : s.enable keys true = some s') (n : Node) :
    s'.linOf n = s.assignLineages.linOf n := by
  rw [enable_some h]
  simp only [if_true]
  have hon4 : (en4 s keys).linOn = true := by rw [en4_linOn, hL]; simp
  have e5 : en5 s keys = (en4 s keys).assignLineages := by
    unfold en5; rw [hL, hon4]; rfl
  rw [e5]
  exact assign_lin_indep hF (en4_G s keys) n

/-! ### discovery order -/

/-- one step of the `components` loop -/
def cstep (nodes : List Node) (es : List Edge) (acc : List (List Node)) (n : Node) :
    List (List Node) :=
  if acc.any (·.contains n) then acc else acc ++ [comp nodes es n]

theorem components_eq_fold (nodes : List Node) (es : List Edge) :
    components nodes es = nodes.foldl (cstep nodes es) [] := rfl

theorem cfold_prefix (nodes : List Node) (es : List Edge) :
    ∀ (l : List Node) (acc : List (List Node)), ∃ ext, l.foldl (cstep nodes es) acc = acc ++ ext := by
  intro l
  induction l with
  | nil => intro acc; exact ⟨[], by simp⟩
  | cons n l ih =>
    intro acc
    rw [foldl_cons]
    rcases ih (cstep nodes es acc n) with ⟨ext, e⟩
    rw [e]
    unfold cstep
    split
    · exact ⟨ext, rfl⟩
    · exact ⟨[comp nodes es n] ++ ext, by simp⟩

/-- the classes met by a prefix of the node list are exactly the first `k` listed classes -/
theorem components_prefix {nodes : List Node} {es : List Edge}
    (hes : ∀ e ∈ es, e.1 ∈ nodes ∧ e.2 ∈ nodes) (pre suf : List Node) (h : nodes = pre ++ suf) :
    ∃ k, k ≤ (components nodes es).length ∧
      (∀ n ∈ pre, ∃ (i : Nat) (c : List Node), i < k ∧ (components nodes es)[i]? = some c ∧ n ∈ c) ∧
      (∀ i, i < k → ∃ (c : List Node) (n : Node),
        (components nodes es)[i]? = some c ∧ n ∈ pre ∧ n ∈ c) := by
  have hpre : ∀ n ∈ pre, n ∈ nodes := by intro n hn; rw [h]; exact mem_append.2 (Or.inl hn)
  have hI : CInv nodes es pre (pre.foldl (cstep nodes es) []) := by
    have := components_fold hes pre [] [] hpre (by simp) ⟨by simp, by simp, by simp⟩
    rw [List.nil_append] at this
    exact this
  have hcs : components nodes es = suf.foldl (cstep nodes es) (pre.foldl (cstep nodes es) []) := by
    rw [components_eq_fold, ← foldl_append, ← h]
  rcases cfold_prefix nodes es suf (pre.foldl (cstep nodes es) []) with ⟨ext, hext⟩
  rw [hext] at hcs
  generalize pre.foldl (cstep nodes es) [] = A at hI hcs
  have hget : ∀ i, i < A.length → (components nodes es)[i]? = A[i]? := by
    intro i hi; rw [hcs]; exact getElem?_append_left hi
  refine ⟨A.length, by rw [hcs, length_append]; omega, ?_, ?_⟩
  · intro n hn
    rcases hI.cover n hn with ⟨c, hc, hnc⟩
    rcases mem_iff_getElem?.1 hc with ⟨i, hi⟩
    rcases List.getElem?_eq_some_iff.1 hi with ⟨hlt, _⟩
    exact ⟨i, c, hlt, (hget i hlt).trans hi, hnc⟩
  · intro i hi
    have hi' : A[i]? = some A[i] := List.getElem?_eq_some_iff.2 ⟨hi, rfl⟩
    rcases hI.cls A[i] (mem_iff_getElem?.2 ⟨i, hi'⟩) with ⟨m, hm, e⟩
    refine ⟨A[i], m, (hget i hi).trans hi', hm, ?_⟩
    rw [e]
    exact ((comp_spec hes (hpre m hm)).1 m).2 (Reach.refl m)

/-- ids are handed out consecutively in node-list order: on every prefix of the node list the ids
    in use are an initial segment `1..k` -/
theorem assigned_prefix {nodes : List Node} {es : List Edge} {rd : Node → Option Nat}
    (hes : ∀ e ∈ es, e.1 ∈ nodes ∧ e.2 ∈ nodes)
    (hrd : ∀ (i : Nat) (c : List Node) (n : Node), (components nodes es)[i]? = some c → n ∈ c →
      rd n = some (i + 1))
    (pre suf : List Node) (h : nodes = pre ++ suf) :
    ∃ k, k ≤ (components nodes es).length ∧
      ∀ t, (∃ n ∈ pre, rd n = some t) ↔ (1 ≤ t ∧ t ≤ k) := by
  rcases components_prefix hes pre suf h with ⟨k, hk, h1, h2⟩
  refine ⟨k, hk, fun t => ⟨?_, ?_⟩⟩
  · rintro ⟨n, hn, ht⟩
    rcases h1 n hn with ⟨i, c, hik, hi, hnc⟩
    rw [hrd i c n hi hnc] at ht
    have : i + 1 = t := by simpa using ht
    omega
  · rintro ⟨h1t, htk⟩
    rcases h2 (t - 1) (by omega) with ⟨c, n, hi, hn, hnc⟩
    refine ⟨n, hn, ?_⟩
    rw [hrd (t - 1) c n hi hnc]
    congr 1; omega

/-! ### partial re-establishment by a recompute of one id feature -/

theorem enable_tid_part {s s' : St} {keys : List Key} (hF : s.Forest)
    (hT : keys.contains keyTid = true) (h : s.enable keys true = some s') :
    s'.TidOK ∧ PC.TOK s' := by
  rw [enable_some h]
  simp only [if_true]
  have hF3 : (en3 s keys).Forest := (same_en3 s keys).1.forest hF
  have e4 : en4 s keys = (en3 s keys).assignTracklets := by unfold en4; rw [if_pos hT]
  have h4 : (en4 s keys).TidOK ∧ PC.TOK (en4 s keys) := by
    rw [e4]; exact ⟨assign_tidOK hF3, assign_TOK hF3⟩
  unfold en5; split
  · exact ⟨assignLineages_tidOK h4.1, assign_TOK_keep h4.2⟩
  · exact h4

theorem enable_lin_part {s s' : St} {keys : List Key} (hF : s.Forest)
    (hL : keys.contains keyLin = true) (h : s.enable keys true = some s') :
    s'.LinOK ∧ PC.LOK s' ∧ s'.linOn = true := by
  have hon : s'.linOn = true := by rw [enable_linOn h, hL]; simp
  refine ⟨?_, ?_, hon⟩ <;> rw [enable_some h] <;> simp only [if_true]
  all_goals
    have hF4 : (en4 s keys).Forest := forest_congr (en4_G s keys) hF
    have hon4 : (en4 s keys).linOn = true := by rw [en4_linOn, hL]; simp
    have e5 : en5 s keys = (en4 s keys).assignLineages := by
      unfold en5; rw [hL, hon4]; rfl
    rw [e5]
  · exact assign_linOK hF4
  · exact assign_LOK hF4

theorem sameSeg_iff_of_G {s s' : St} (hG : G s' = G s) {a b : Node} : s'.SameSeg a b ↔ s.SameSeg a b :=
  ⟨sameSeg_congr hG.symm, sameSeg_congr hG⟩

theorem conn_iff_of_G {s s' : St} (hG : G s' = G s) {a b : Node} : s'.Conn a b ↔ s.Conn a b :=
  ⟨conn_congr hG.symm, conn_congr hG⟩

/-! ### `disable` only edits the registry -/

theorem disable_same {s s' : St} {keys : List Key} (h : s.disable keys = some s') :
    Same s s' ∧ s'.linOn = (if keys.contains keyLin then false else s.linOn) := by
  unfold disable at h
  split at h
  · cases h
  · simp only [Option.some.injEq] at h
    subst h
    exact ⟨⟨rfl, fun _ => rfl, fun _ => rfl, rfl, rfl, rfl, rfl⟩, rfl⟩

theorem disable_valid {s s' : St} {keys : List Key} (hV : s.Valid) (hk : keyLin ∉ keys)
    (h : s.disable keys = some s') : s'.Valid := by
  rcases disable_same h with ⟨hs, hl⟩
  have hc : keys.contains keyLin = false := by
    cases hb : keys.contains keyLin with
    | false => rfl
    | true => exact absurd (contains_iff_mem.1 hb) hk
  rw [hc] at hl
  simp only [Bool.false_eq_true, if_false] at hl
  exact ((VCore.of_valid hV).same hs (fun _ => hV.linOn)).valid (hl.trans hV.linOn)

/-- a bare graph for the non-vacuity examples: 1 → 2 → {3, 4} (division at 2), 5 → 6 (skip edge),
    nodes inserted in the order 3, 1, 2, 5, 4, 6, stale / missing ids, empty lookups, lineage
    feature off -/
def exBare : St :=
  { nodes := [⟨3, 2, 0, none, []⟩, ⟨1, 0, 7, some 9, []⟩, ⟨2, 1, 0, none, []⟩,
              ⟨5, 0, 7, none, []⟩, ⟨4, 2, 0, none, []⟩, ⟨6, 3, 0, some 9, []⟩],
    edges := [⟨(1, 2), []⟩, ⟨(2, 3), []⟩, ⟨(2, 4), []⟩, ⟨(5, 6), []⟩],
    linOn := false, counter := 7 }

end Ft.R2F
