/-
  FtProofs.HistoryLemmas — helper definitions and lemmas for C02 (history refinement) and C20
  (refresh signal).

  Part 1 (abstract, over `FtModel.History`): the concrete system `Hist × current state`, the
  abstract `Timeline`, runs of both over the op alphabet {edit, undo, redo}, the refinement
  invariant `Refines` (ghost zipper: the steps left of the cursor, the state at the cursor, the
  undone steps right of the cursor together with the records of their inverses) and the
  simulation lemmas.

  Part 2 (session model): no primitive, annotator hook or user action touches the control
  fields `hist`, `refreshes`, `lastPayload` (`St.ctl`), `St.Equiv` is an equivalence relation,
  and the bridge from `St.step` to the abstract system.
-/
import FtProofs.SessionSpec
namespace Ft
namespace Hist

variable {α σ : Type}

/-! ## Part 1 — abstract refinement -/

/-- the laws the abstract theorem needs: `E` is an equivalence, `Rec a s t` ("`a` is a record of
    a step from `s` to `t`") is `E`-invariant, and the inverse law (C01): applying the inverse
    of a record of `s ⟶ t` in any state equivalent to `t` lands in a state equivalent to `s`
    and records a step `t ⟶ s`. -/
structure Laws (inv : σ → α → σ × α) (Rec : α → σ → σ → Prop) (E : σ → σ → Prop) : Prop where
  refl : ∀ s, E s s
  symm : ∀ {s t}, E s t → E t s
  trans : ∀ {s t u}, E s t → E t u → E s u
  congr : ∀ {a s t s' t'}, Rec a s t → E s s' → E t t' → Rec a s' t'
  inverse : ∀ {a s t t'}, Rec a s t → E t' t → E (inv t' a).1 s ∧ Rec (inv t' a).2 t s

/-- op alphabet of the history: a new (top-level) edit that was recorded as `a` and produced
    state `s'`, `undo()`, `redo()` -/
inductive HOp (α σ : Type) where
  | edit (a : α) (s' : σ)
  | undo
  | redo

/-- one call on the concrete system (history, current state); returns the Boolean the Python
    method returns (`True` for an edit) -/
def stepC (inv : σ → α → σ × α) (c : Hist α × σ) : HOp α σ → (Hist α × σ) × Bool
  | .edit a s' => ((c.1.add a, s'), true)
  | .undo => (((c.1.undoStep inv c.2).1, (c.1.undoStep inv c.2).2.1), (c.1.undoStep inv c.2).2.2)
  | .redo => (((c.1.redoStep inv c.2).1, (c.1.redoStep inv c.2).2.1), (c.1.redoStep inv c.2).2.2)

/-- the same call on the specification -/
def stepA (t : Timeline σ) : HOp α σ → Timeline σ × Bool
  | .edit _ s' => (t.edit s', true)
  | .undo => t.undo
  | .redo => t.redo

def runC (inv : σ → α → σ × α) (c : Hist α × σ) : List (HOp α σ) → (Hist α × σ) × List Bool
  | [] => (c, [])
  | op :: ops => ((runC inv (stepC inv c op).1 ops).1, (stepC inv c op).2 :: (runC inv (stepC inv c op).1 ops).2)

def runA (t : Timeline σ) : List (HOp α σ) → Timeline σ × List Bool
  | [] => (t, [])
  | op :: ops => ((runA (stepA t op).1 ops).1, (stepA t op).2 :: (runA (stepA t op).1 ops).2)

/-- an op is admissible in `c` when an edit really is a recorded step out of the current state -/
def OpValid (Rec : α → σ → σ → Prop) (c : Hist α × σ) : HOp α σ → Prop
  | .edit a s' => Rec a c.2 s'
  | .undo => True
  | .redo => True

def ValidRun (Rec : α → σ → σ → Prop) (inv : σ → α → σ × α) (c : Hist α × σ) : List (HOp α σ) → Prop
  | [] => True
  | op :: ops => OpValid Rec c op ∧ ValidRun Rec inv (stepC inv c op).1 ops

/-! ### plain facts about `add / undoStep / redoStep` -/

theorem add_eq (h : Hist α) (a : α) : h.add a = { undo := h.undo ++ h.redo ++ [a], redo := [] } := by
  unfold add
  split
  · rfl
  · rename_i hn
    have : h.redo = [] := by
      cases hr : h.redo with
      | nil => rfl
      | cons x xs => rw [hr] at hn; simp at hn
    simp [this]

theorem undoStep_none (inv : σ → α → σ × α) (h : Hist α) (s : σ)
    (hle : h.undo.length ≤ h.redo.length) : h.undoStep inv s = (h, s, false) := by
  unfold undoStep ptr
  rw [if_pos (by omega)]

theorem undoStep_some (inv : σ → α → σ × α) (h : Hist α) (s : σ) (a : α)
    (hlt : h.redo.length < h.undo.length)
    (ha : h.undo[h.undo.length - h.redo.length - 1]? = some a) :
    h.undoStep inv s = ({ h with redo := h.redo ++ [(inv s a).2] }, (inv s a).1, true) := by
  unfold undoStep ptr
  rw [if_neg (by omega)]
  have : ((h.undo.length : Int) - (h.redo.length : Int) - 1).toNat = h.undo.length - h.redo.length - 1 := by
    omega
  rw [this, ha]

/-- `undo()` returns `False` exactly when the pointer is `-1`, i.e. `|U| ≤ |R|` -/
theorem undoStep_false_iff (inv : σ → α → σ × α) (h : Hist α) (s : σ) :
    (h.undoStep inv s).2.2 = false ↔ h.undo.length ≤ h.redo.length := by
  constructor
  · intro hf
    by_cases hle : h.undo.length ≤ h.redo.length
    · exact hle
    · have hlt : h.redo.length < h.undo.length := by omega
      have hidx : h.undo.length - h.redo.length - 1 < h.undo.length := by omega
      have := undoStep_some inv h s (h.undo[h.undo.length - h.redo.length - 1]) hlt
        (List.getElem?_eq_getElem hidx)
      rw [this] at hf
      simp at hf
  · intro hle
    rw [undoStep_none inv h s hle]

theorem redoStep_none (inv : σ → α → σ × α) (h : Hist α) (s : σ) (hr : h.redo = []) :
    h.redoStep inv s = (h, s, false) := by
  unfold redoStep
  rw [hr]
  rfl

theorem redoStep_some (inv : σ → α → σ × α) (h : Hist α) (s : σ) (rs : List α) (r : α)
    (hr : h.redo = rs ++ [r]) :
    h.redoStep inv s = ({ h with redo := rs }, (inv s r).1, true) := by
  unfold redoStep
  rw [hr]
  simp

theorem redoStep_false_iff (inv : σ → α → σ × α) (h : Hist α) (s : σ) :
    (h.redoStep inv s).2.2 = false ↔ h.redo = [] := by
  constructor
  · intro hf
    rcases List.eq_nil_or_concat h.redo with hn | ⟨rs, r, hr⟩
    · exact hn
    · rw [redoStep_some inv h s rs r (by simpa using hr)] at hf
      simp at hf
  · intro hr
    rw [redoStep_none inv h s hr]

/-! ### the ghost zipper -/

/-- steps left of the cursor, nearest first: `(a, y)` is the step `y ⟶ x` recorded as `a` -/
def Back (Rec : α → σ → σ → Prop) : σ → List (α × σ) → Prop
  | _, [] => True
  | x, (a, y) :: rest => Rec a y x ∧ Back Rec y rest

/-- undone steps right of the cursor, nearest first: `(a, z, r)` is the step `x ⟶ z` recorded
    as `a`, whose undo was recorded as `r : z ⟶ x` -/
def Fwd (Rec : α → σ → σ → Prop) : σ → List (α × σ × α) → Prop
  | _, [] => True
  | x, (a, z, r) :: rest => Rec a x z ∧ Rec r z x ∧ Fwd Rec z rest

/-- the way back over the undone steps, as `Back` steps seen from the far end -/
def srcs : σ → List (α × σ × α) → List (α × σ)
  | _, [] => []
  | x, (a, z, _) :: rest => (a, x) :: srcs z rest

/-- the undo records of the undone steps as `Back` steps seen from the cursor -/
def retr (right : List (α × σ × α)) : List (α × σ) := right.map (fun p => (p.2.2, p.2.1))

structure Ghost (Rec : α → σ → σ → Prop) (E : σ → σ → Prop) (c : Hist α × σ) (t : Timeline σ)
    (left : List (α × σ)) (x : σ) (right : List (α × σ × α)) : Prop where
  back : Back Rec x left
  fwd : Fwd Rec x right
  undo_eq : c.1.undo = left.reverse.map (·.1) ++ right.map (·.1)
  redo_eq : c.1.redo = (right.map (·.2.2)).reverse
  states_eq : t.states = left.reverse.map (·.2) ++ x :: right.map (·.2.1)
  cur_eq : t.cur = left.length
  here : E c.2 x

/-- the refinement invariant between the concrete system and the timeline -/
def Refines (Rec : α → σ → σ → Prop) (E : σ → σ → Prop) (c : Hist α × σ) (t : Timeline σ) : Prop :=
  ∃ left x right, Ghost Rec E c t left x right

theorem srcs_map_fst : ∀ (x : σ) (right : List (α × σ × α)), (srcs x right).map (·.1) = right.map (·.1)
  | _, [] => rfl
  | x, (a, z, r) :: rest => by simp [srcs, srcs_map_fst z rest]

theorem srcs_map_snd : ∀ (x : σ) (right : List (α × σ × α)),
    (srcs x right).map (·.2) = (x :: right.map (·.2.1)).dropLast
  | _, [] => rfl
  | x, (a, z, r) :: rest => by
    simp [srcs, srcs_map_snd z rest]

theorem srcs_length : ∀ (x : σ) (right : List (α × σ × α)), (srcs x right).length = right.length
  | _, [] => rfl
  | x, (a, z, r) :: rest => by simp [srcs, srcs_length z rest]

theorem back_retrace {Rec : α → σ → σ → Prop} :
    ∀ (right : List (α × σ × α)) (x : σ) (left : List (α × σ)), Fwd Rec x right → Back Rec x left →
      Back Rec x (retr right ++ (srcs x right).reverse ++ left)
  | [], x, left, _, hb => by simpa [retr, srcs] using hb
  | (a, z, r) :: rest, x, left, hf, hb => by
    obtain ⟨h1, h2, h3⟩ := hf
    have ih := back_retrace rest z ((a, x) :: left) h3 ⟨h1, hb⟩
    simp only [retr, List.map_cons, srcs, List.reverse_cons, List.cons_append, Back,
      List.append_assoc] at ih ⊢
    exact ⟨h2, ih⟩

theorem dropLast_append_reverse (l : List σ) (hne : l ≠ []) :
    l ++ l.dropLast.reverse = l.dropLast ++ l.reverse := by
  have h := List.dropLast_concat_getLast hne
  have h2 : l.reverse = l.getLast hne :: l.dropLast.reverse := by
    conv => lhs; rw [← h]
    simp
  rw [h2]
  conv => lhs; rw [← h]
  simp

/-- `Timeline.edit` on a timeline split at its cursor -/
theorem edit_states (t : Timeline σ) (L zs : List σ) (x s' : σ)
    (hs : t.states = L ++ x :: zs) (hc : t.cur = L.length) :
    (t.edit s').states = L ++ (x :: zs) ++ (x :: zs).dropLast.reverse ++ [s'] ∧
    (t.edit s').cur = (L ++ (x :: zs) ++ (x :: zs).dropLast.reverse).length := by
  have hd : ((t.states.drop t.cur).take (t.states.length - 1 - t.cur)) = (x :: zs).dropLast := by
    rw [hs, hc, List.drop_left, List.dropLast_eq_take]
    congr 1
    simp
  unfold Timeline.edit
  simp only [hd]
  constructor
  · rw [hs]
  · rw [hs]; simp; omega

theorem Refines.init (Rec : α → σ → σ → Prop) {E : σ → σ → Prop} (hrefl : ∀ s, E s s) (s0 : σ) :
    Refines Rec E (({} : Hist α), s0) ⟨[s0], 0⟩ :=
  ⟨[], s0, [], ⟨trivial, trivial, rfl, rfl, rfl, rfl, hrefl s0⟩⟩

/-- the invariant only looks at the current state up to `E` -/
theorem Refines.congr_state {inv : σ → α → σ × α} {Rec : α → σ → σ → Prop} {E : σ → σ → Prop}
    (L : Laws inv Rec E) {h : Hist α} {s s' : σ} {t : Timeline σ}
    (hr : Refines Rec E (h, s) t) (he : E s' s) : Refines Rec E (h, s') t := by
  obtain ⟨left, x, right, g⟩ := hr
  exact ⟨left, x, right, ⟨g.back, g.fwd, g.undo_eq, g.redo_eq, g.states_eq, g.cur_eq, L.trans he g.here⟩⟩

/-! ### what the invariant says in observable terms -/

theorem Refines.sizes {Rec : α → σ → σ → Prop} {E : σ → σ → Prop} {c : Hist α × σ} {t : Timeline σ}
    (hr : Refines Rec E c t) :
    t.states.length = c.1.undo.length + 1 ∧ t.cur + c.1.redo.length = c.1.undo.length := by
  obtain ⟨left, x, right, g⟩ := hr
  rw [g.states_eq, g.undo_eq, g.redo_eq, g.cur_eq]
  simp
  omega

theorem Refines.current {Rec : α → σ → σ → Prop} {E : σ → σ → Prop} {c : Hist α × σ} {t : Timeline σ}
    (hr : Refines Rec E c t) : ∃ x, t.states[t.cur]? = some x ∧ E c.2 x := by
  obtain ⟨left, x, right, g⟩ := hr
  refine ⟨x, ?_, g.here⟩
  rw [g.states_eq, g.cur_eq]
  have : left.length = (left.reverse.map (·.2)).length := by simp
  rw [this, List.getElem?_append_right (Nat.le_refl _)]
  simp

/-- the entry `undo()` is about to invert is a record of the step into the current state -/
theorem Refines.undo_entry {Rec : α → σ → σ → Prop} {E : σ → σ → Prop} {c : Hist α × σ} {t : Timeline σ}
    (hr : Refines Rec E c t) (hlt : c.1.redo.length < c.1.undo.length) :
    ∃ a y x, c.1.undo[c.1.undo.length - c.1.redo.length - 1]? = some a ∧ Rec a y x ∧ E c.2 x ∧
      t.states[t.cur - 1]? = some y ∧ 0 < t.cur := by
  obtain ⟨left, x, right, g⟩ := hr
  cases left with
  | nil =>
    have h1 := g.undo_eq; have h2 := g.redo_eq
    rw [h1, h2] at hlt
    simp at hlt
  | cons p left' =>
    obtain ⟨a, y⟩ := p
    refine ⟨a, y, x, ?_, g.back.1, g.here, ?_, ?_⟩
    · rw [g.undo_eq, g.redo_eq]
      have : (((a, y) :: left').reverse.map (·.1) ++ right.map (·.1)).length
          - ((right.map (·.2.2)).reverse).length - 1 = (left'.reverse.map (·.1)).length := by
        simp; omega
      rw [this]
      simp only [List.reverse_cons, List.map_append, List.map_cons, List.map_nil, List.append_assoc]
      rw [List.getElem?_append_right (Nat.le_refl _)]
      simp
    · rw [g.states_eq, g.cur_eq]
      have : ((a, y) :: left').length - 1 = (left'.reverse.map (·.2)).length := by simp
      rw [this]
      simp only [List.reverse_cons, List.map_append, List.map_cons, List.map_nil, List.append_assoc]
      rw [List.getElem?_append_right (Nat.le_refl _)]
      simp
    · rw [g.cur_eq]; simp

/-- the entry `redo()` is about to invert is a record of the undo that led to the current state -/
theorem Refines.redo_entry {Rec : α → σ → σ → Prop} {E : σ → σ → Prop} {c : Hist α × σ} {t : Timeline σ}
    (hr : Refines Rec E c t) (r : α) (hl : c.1.redo.getLast? = some r) :
    ∃ z x, Rec r z x ∧ E c.2 x ∧ t.states[t.cur + 1]? = some z := by
  obtain ⟨left, x, right, g⟩ := hr
  cases right with
  | nil =>
    have h2 := g.redo_eq
    rw [h2] at hl
    simp at hl
  | cons p right' =>
    obtain ⟨a, z, r'⟩ := p
    have h2 := g.redo_eq
    rw [h2] at hl
    simp at hl
    subst hl
    refine ⟨z, x, g.fwd.2.1, g.here, ?_⟩
    rw [g.states_eq, g.cur_eq]
    have : left.length + 1 = (left.reverse.map (·.2)).length + 1 := by simp
    rw [this, List.getElem?_append_right (by omega)]
    simp

/-! ### simulation -/

theorem Refines.step {inv : σ → α → σ × α} {Rec : α → σ → σ → Prop} {E : σ → σ → Prop}
    (L : Laws inv Rec E) {c : Hist α × σ} {t : Timeline σ} (hr : Refines Rec E c t)
    (op : HOp α σ) (hv : OpValid Rec c op) :
    Refines Rec E (stepC inv c op).1 (stepA t op).1 ∧ (stepC inv c op).2 = (stepA t op).2 := by
  obtain ⟨left, x, right, g⟩ := hr
  cases op with
  | edit a s' =>
    have hrec : Rec a x s' := L.congr hv g.here (L.refl s')
    obtain ⟨hst, hcur⟩ := edit_states t (left.reverse.map (·.2)) (right.map (·.2.1)) x s'
      g.states_eq (by rw [g.cur_eq]; simp)
    refine ⟨⟨(a, x) :: (retr right ++ (srcs x right).reverse ++ left), s', [], ?_⟩, rfl⟩
    refine ⟨⟨hrec, back_retrace right x left g.fwd g.back⟩, trivial, ?_, ?_, ?_, ?_, L.refl s'⟩
    · show (c.1.add a).undo = _
      rw [add_eq, g.undo_eq, g.redo_eq]
      simp [srcs_map_fst, retr, List.map_reverse]
    · show (c.1.add a).redo = _
      rw [add_eq]; rfl
    · show (t.edit s').states = _
      rw [hst]
      simp only [List.reverse_cons, List.reverse_append, List.reverse_reverse, List.map_append,
        List.map_cons, List.map_nil, srcs_map_snd, List.append_assoc]
      have h1 : (retr right).reverse.map (·.2) = (right.map (·.2.1)).reverse := by
        simp [retr, List.map_reverse]
      rw [h1]
      have h2 := dropLast_append_reverse (x :: right.map (·.2.1)) (by simp)
      have h3 : (x :: right.map (·.2.1)).reverse = (right.map (·.2.1)).reverse ++ [x] := by simp
      rw [h3] at h2
      rw [← List.append_assoc (x :: List.map (fun x => x.2.1) right), h2]
      simp
    · show (t.edit s').cur = _
      rw [hcur]
      simp [srcs_length, retr]
      omega
  | undo =>
    cases left with
    | nil =>
      have hle : c.1.undo.length ≤ c.1.redo.length := by
        rw [g.undo_eq, g.redo_eq]; simp
      have h0 : t.cur = 0 := by rw [g.cur_eq]; rfl
      simp only [stepC, stepA, undoStep_none inv c.1 c.2 hle, Timeline.undo, h0, if_true]
      exact ⟨⟨[], x, right, g⟩, trivial⟩
    | cons p left' =>
      obtain ⟨a, y⟩ := p
      have hlt : c.1.redo.length < c.1.undo.length := by
        rw [g.undo_eq, g.redo_eq]; simp; omega
      have haa : c.1.undo[c.1.undo.length - c.1.redo.length - 1]? = some a := by
        rw [g.undo_eq, g.redo_eq]
        have : (((a, y) :: left').reverse.map (·.1) ++ right.map (·.1)).length
            - ((right.map (·.2.2)).reverse).length - 1 = (left'.reverse.map (·.1)).length := by
          simp; omega
        rw [this]
        simp only [List.reverse_cons, List.map_append, List.map_cons, List.map_nil, List.append_assoc]
        rw [List.getElem?_append_right (Nat.le_refl _)]
        simp
      have hne : t.cur ≠ 0 := by rw [g.cur_eq]; simp
      obtain ⟨hb1, hb2⟩ := g.back
      obtain ⟨hi1, hi2⟩ := L.inverse hb1 g.here
      simp only [stepC, stepA, undoStep_some inv c.1 c.2 a hlt haa, Timeline.undo, hne, if_false]
      refine ⟨⟨left', y, (a, x, (inv c.2 a).2) :: right, ?_⟩, trivial⟩
      refine ⟨hb2, ⟨hb1, hi2, g.fwd⟩, ?_, ?_, ?_, ?_, hi1⟩
      · show c.1.undo = _
        rw [g.undo_eq]; simp
      · show c.1.redo ++ [(inv c.2 a).2] = _
        rw [g.redo_eq]; simp
      · show t.states = _
        rw [g.states_eq]; simp
      · show t.cur - 1 = _
        rw [g.cur_eq]; simp
  | redo =>
    cases right with
    | nil =>
      have hnil : c.1.redo = [] := by rw [g.redo_eq]; rfl
      have hlen : ¬ (t.cur + 1 < t.states.length) := by
        rw [g.states_eq, g.cur_eq]; simp
      simp only [stepC, stepA, redoStep_none inv c.1 c.2 hnil, Timeline.redo, hlen, if_false]
      exact ⟨⟨left, x, [], g⟩, trivial⟩
    | cons p right' =>
      obtain ⟨a, z, r⟩ := p
      have hre : c.1.redo = (right'.map (·.2.2)).reverse ++ [r] := by
        rw [g.redo_eq]; simp
      have hlen : t.cur + 1 < t.states.length := by
        rw [g.states_eq, g.cur_eq]; simp
      obtain ⟨hf1, hf2, hf3⟩ := g.fwd
      obtain ⟨hi1, hi2⟩ := L.inverse hf2 g.here
      simp only [stepC, stepA, redoStep_some inv c.1 c.2 _ r hre, Timeline.redo, hlen, if_true]
      refine ⟨⟨(a, x) :: left, z, right', ?_⟩, trivial⟩
      refine ⟨⟨hf1, g.back⟩, hf3, ?_, rfl, ?_, ?_, hi1⟩
      · show c.1.undo = _
        rw [g.undo_eq]; simp
      · show t.states = _
        rw [g.states_eq]; simp
      · show t.cur + 1 = _
        rw [g.cur_eq]; simp

theorem Refines.run {inv : σ → α → σ × α} {Rec : α → σ → σ → Prop} {E : σ → σ → Prop}
    (L : Laws inv Rec E) : ∀ (ops : List (HOp α σ)) {c : Hist α × σ} {t : Timeline σ},
    Refines Rec E c t → ValidRun Rec inv c ops →
    Refines Rec E (runC inv c ops).1 (runA t ops).1 ∧ (runC inv c ops).2 = (runA t ops).2
  | [], _, _, hr, _ => ⟨hr, rfl⟩
  | op :: ops, c, t, hr, hv => by
    obtain ⟨h1, h2⟩ := hr.step L op hv.1
    obtain ⟨h3, h4⟩ := Refines.run L ops h1 hv.2
    exact ⟨h3, by simp only [runC, runA, h2, h4]⟩

theorem undoStep_false_unchanged (inv : σ → α → σ × α) (h : Hist α) (s : σ)
    (hf : (h.undoStep inv s).2.2 = false) : h.undoStep inv s = (h, s, false) :=
  undoStep_none inv h s ((undoStep_false_iff inv h s).mp hf)

theorem redoStep_false_unchanged (inv : σ → α → σ × α) (h : Hist α) (s : σ)
    (hf : (h.redoStep inv s).2.2 = false) : h.redoStep inv s = (h, s, false) :=
  redoStep_none inv h s ((redoStep_false_iff inv h s).mp hf)

/-! ### nothing is ever forgotten -/

theorem edit_prefix (t : Timeline σ) (s' : σ) : t.states <+: (t.edit s').states := by
  unfold Timeline.edit
  simp only [List.append_assoc]
  exact List.prefix_append _ _

theorem stepA_prefix (t : Timeline σ) (op : HOp α σ) : t.states <+: (stepA t op).1.states := by
  cases op with
  | edit a s' => exact edit_prefix t s'
  | undo => simp only [stepA, Timeline.undo]; split <;> exact List.prefix_refl _
  | redo => simp only [stepA, Timeline.redo]; split <;> exact List.prefix_refl _

theorem stepA_undo_states (t : Timeline σ) : t.undo.1.states = t.states := by
  unfold Timeline.undo; split <;> rfl

theorem stepA_redo_states (t : Timeline σ) : t.redo.1.states = t.states := by
  unfold Timeline.redo; split <;> rfl

theorem runA_prefix : ∀ (ops : List (HOp α σ)) (t : Timeline σ), t.states <+: (runA t ops).1.states
  | [], _ => List.prefix_refl _
  | op :: ops, t => (stepA_prefix t op).trans (runA_prefix ops (stepA t op).1)

theorem runA_append : ∀ (ops ops' : List (HOp α σ)) (t : Timeline σ),
    (runA t (ops ++ ops')).1 = (runA (runA t ops).1 ops').1
  | [], _, _ => rfl
  | op :: ops, ops', t => runA_append ops ops' (stepA t op).1

theorem runC_append (inv : σ → α → σ × α) : ∀ (ops ops' : List (HOp α σ)) (c : Hist α × σ),
    (runC inv c (ops ++ ops')).1 = (runC inv (runC inv c ops).1 ops').1
  | [], _, _ => rfl
  | op :: ops, ops', c => runC_append inv ops ops' (stepC inv c op).1

theorem validRun_append {Rec : α → σ → σ → Prop} (inv : σ → α → σ × α) :
    ∀ (ops ops' : List (HOp α σ)) (c : Hist α × σ),
      ValidRun Rec inv c ops → ValidRun Rec inv (runC inv c ops).1 ops' → ValidRun Rec inv c (ops ++ ops')
  | [], _, _, _, h => h
  | op :: ops, ops', c, h, h' => ⟨h.1, validRun_append inv ops ops' (stepC inv c op).1 h.2 h'⟩

theorem validRun_undos {Rec : α → σ → σ → Prop} (inv : σ → α → σ × α) :
    ∀ (k : Nat) (c : Hist α × σ), ValidRun Rec inv c (List.replicate k .undo)
  | 0, _ => trivial
  | k + 1, _ => ⟨trivial, validRun_undos inv k _⟩

theorem validRun_redos {Rec : α → σ → σ → Prop} (inv : σ → α → σ × α) :
    ∀ (k : Nat) (c : Hist α × σ), ValidRun Rec inv c (List.replicate k .redo)
  | 0, _ => trivial
  | k + 1, _ => ⟨trivial, validRun_redos inv k _⟩

theorem runA_undos : ∀ (k : Nat) (t : Timeline σ), k ≤ t.cur →
    (runA t (List.replicate k (HOp.undo : HOp α σ))).1 = { t with cur := t.cur - k }
  | 0, _, _ => rfl
  | k + 1, t, h => by
    have hne : t.cur ≠ 0 := by omega
    simp only [List.replicate_succ, runA, stepA, Timeline.undo, hne, if_false]
    rw [runA_undos k _ (by simp; omega)]
    simp; omega

theorem runA_redos : ∀ (k : Nat) (t : Timeline σ), t.cur + k < t.states.length →
    (runA t (List.replicate k (HOp.redo : HOp α σ))).1 = { t with cur := t.cur + k }
  | 0, _, _ => rfl
  | k + 1, t, h => by
    have hlt : t.cur + 1 < t.states.length := by omega
    simp only [List.replicate_succ, runA, stepA, Timeline.redo, hlt, if_true]
    rw [runA_redos k _ (by simp; omega)]
    simp; omega

/-- every state on the timeline can be visited again: at or before the cursor by undoing
    `cur - i` times, after the cursor by redoing `i - cur` times -/
theorem Refines.reach {inv : σ → α → σ × α} {Rec : α → σ → σ → Prop} {E : σ → σ → Prop}
    (L : Laws inv Rec E) {c : Hist α × σ} {t : Timeline σ} (hr : Refines Rec E c t)
    (i : Nat) (hi : i < t.states.length) :
    ∃ x, t.states[i]? = some x ∧
      E (runC inv c (if i ≤ t.cur then List.replicate (t.cur - i) .undo
                      else List.replicate (i - t.cur) .redo)).1.2 x := by
  by_cases hle : i ≤ t.cur
  · rw [if_pos hle]
    obtain ⟨h1, _⟩ := Refines.run L _ hr (validRun_undos (Rec := Rec) inv (t.cur - i) c)
    rw [runA_undos _ _ (by omega)] at h1
    obtain ⟨x, hx, hE⟩ := h1.current
    refine ⟨x, ?_, hE⟩
    have : t.cur - (t.cur - i) = i := by omega
    simpa [this] using hx
  · rw [if_neg hle]
    obtain ⟨h1, _⟩ := Refines.run L _ hr (validRun_redos (Rec := Rec) inv (i - t.cur) c)
    rw [runA_redos _ _ (by omega)] at h1
    obtain ⟨x, hx, hE⟩ := h1.current
    refine ⟨x, ?_, hE⟩
    have : t.cur + (i - t.cur) = i := by omega
    simpa [this] using hx

/-! ### the abstraction function: the undo stack chains the timeline -/

/-- consecutive states are linked by the recorded actions: `as[i]` records `l[i] ⟶ l[i+1]` -/
def Linked (Rec : α → σ → σ → Prop) : List σ → List α → Prop
  | [_], [] => True
  | x :: y :: l, a :: as => Rec a x y ∧ Linked Rec (y :: l) as
  | _, _ => False

theorem linked_fwd {Rec : α → σ → σ → Prop} : ∀ (right : List (α × σ × α)) (x : σ),
    Fwd Rec x right → Linked Rec (x :: right.map (·.2.1)) (right.map (·.1))
  | [], _, _ => trivial
  | (_, z, _) :: rest, _, h => ⟨h.1, linked_fwd rest z h.2.2⟩

theorem linked_back {Rec : α → σ → σ → Prop} : ∀ (left : List (α × σ)) (x : σ) (l : List σ) (as : List α),
    Back Rec x left → Linked Rec (x :: l) as →
    Linked Rec (left.reverse.map (·.2) ++ x :: l) (left.reverse.map (·.1) ++ as)
  | [], _, _, _, _, h => by simpa using h
  | (a, y) :: left', x, l, as, hb, h => by
    have ih := linked_back left' y (x :: l) (a :: as) hb.2 ⟨hb.1, h⟩
    simpa using ih

theorem linked_get {Rec : α → σ → σ → Prop} : ∀ (l : List σ) (as : List α), Linked Rec l as →
    ∀ i (hi : i < as.length), ∃ s s', l[i]? = some s ∧ l[i + 1]? = some s' ∧ Rec as[i] s s'
  | [_], [], _, i, hi => by simp at hi
  | x :: y :: l, a :: as, h, 0, _ => ⟨x, y, rfl, rfl, h.1⟩
  | x :: y :: l, a :: as, h, i + 1, hi => by
    obtain ⟨s, s', h1, h2, h3⟩ := linked_get (y :: l) as h.2 i (by simpa using hi)
    exact ⟨s, s', by simpa using h1, by simpa using h2, by simpa using h3⟩
  | [], _, h, _, _ => by simp [Linked] at h
  | [_], _ :: _, h, _, _ => by simp [Linked] at h
  | _ :: _ :: _, [], h, _, _ => by simp [Linked] at h

/-- the abstraction function of the design: the timeline is the chain of the undo stack's
    records — entry `i` of the undo stack records the step from timeline state `i` to `i+1` -/
theorem Refines.linked {Rec : α → σ → σ → Prop} {E : σ → σ → Prop} {c : Hist α × σ} {t : Timeline σ}
    (hr : Refines Rec E c t) : Linked Rec t.states c.1.undo := by
  obtain ⟨left, x, right, g⟩ := hr
  rw [g.states_eq, g.undo_eq]
  exact linked_back left x _ _ g.back (linked_fwd right x g.fwd)

theorem Refines.undo_records {Rec : α → σ → σ → Prop} {E : σ → σ → Prop} {c : Hist α × σ} {t : Timeline σ}
    (hr : Refines Rec E c t) (i : Nat) (hi : i < c.1.undo.length) :
    ∃ s s', t.states[i]? = some s ∧ t.states[i + 1]? = some s' ∧ Rec c.1.undo[i] s s' :=
  linked_get _ _ hr.linked i hi

end Hist

/-! ## Part 2 — the session model -/

namespace St
/-- the control fields: history and refresh log -/
def ctl (s : St) : Hist ActRec × Nat × Option Node := (s.hist, s.refreshes, s.lastPayload)

theorem hist_foldl_inv {β γ : Type} (P : γ → Prop) (f : γ → β → γ) (hf : ∀ acc b, P acc → P (f acc b)) :
    ∀ (l : List β) (init : γ), P init → P (l.foldl f init)
  | [], _, h => h
  | b :: l, init, h => hist_foldl_inv P f hf l (f init b) (hf init b h)

theorem ctl_foldl {β : Type} (f : St → β → St) (hf : ∀ s b, (f s b).ctl = s.ctl) (l : List β) (s : St) :
    (l.foldl f s).ctl = s.ctl :=
  hist_foldl_inv (fun acc => acc.ctl = s.ctl) f (fun acc b h => (hf acc b).trans h) l s rfl

theorem ctl_updNode (s : St) (n : Node) (f : NodeRec → NodeRec) : (s.updNode n f).ctl = s.ctl := rfl
theorem ctl_setTid (s : St) (n : Node) (t : Nat) : (s.setTid n t).ctl = s.ctl := rfl
theorem ctl_setLin (s : St) (n : Node) (l : Option Nat) : (s.setLin n l).ctl = s.ctl := rfl
theorem ctl_setOther (s : St) (n : Node) (k : Key) (v : Val) : (s.setOther n k v).ctl = s.ctl := rfl
theorem ctl_setEdgeAttr (s : St) (e : Edge) (k : Key) (v : Val) : (s.setEdgeAttr e k v).ctl = s.ctl := rfl
theorem ctl_bookAddT (s : St) (ns : List Node) (id : Nat) : (s.bookAddT ns id).ctl = s.ctl := rfl
theorem ctl_bookRemT (s : St) (ns : List Node) (id : Nat) : (s.bookRemT ns id).ctl = s.ctl := rfl
theorem ctl_bookAddL (s : St) (ns : List Node) (id : Nat) : (s.bookAddL ns id).ctl = s.ctl := rfl
theorem ctl_bookRemL (s : St) (ns : List Node) (id : Nat) : (s.bookRemL ns id).ctl = s.ctl := rfl
theorem ctl_bookMoveT (s : St) (ns : List Node) (o n : Nat) : (s.bookMoveT ns o n).ctl = s.ctl := rfl
theorem ctl_bookMoveL (s : St) (ns : List Node) (o : Option Nat) (n : Nat) : (s.bookMoveL ns o n).ctl = s.ctl := by
  cases o <;> rfl
theorem ctl_trackNeighbors (s : St) (tid time : Nat) : (s.trackNeighbors tid time).1.ctl = s.ctl := by
  unfold trackNeighbors
  split <;> rfl
theorem ctl_newNodeIds (s : St) (n : Nat) : (s.newNodeIds n).1.ctl = s.ctl := rfl

theorem ctl_walkNode (old new : Nat) (nl : Option Nat) (ul : Bool) (a : WalkAcc) (n : Node) :
    (walkNode old new nl ul a n).s.ctl = a.s.ctl := by
  unfold walkNode
  cases ul <;> cases a.flag <;> simp
  all_goals (try split) <;> rfl

theorem ctl_walkLevels (old new : Nat) (nl : Option Nat) (ul : Bool) :
    ∀ (fuel : Nat) (a : WalkAcc), (walkLevels old new nl ul fuel a).s.ctl = a.s.ctl
  | 0, _ => rfl
  | fuel + 1, a => by
    unfold walkLevels
    split
    · rfl
    · rw [ctl_walkLevels old new nl ul fuel]
      exact hist_foldl_inv (fun acc => acc.s.ctl = a.s.ctl) _
        (fun acc b h => (ctl_walkNode old new nl ul acc b).trans h) _ { a with next := [] } rfl

theorem ctl_walk (s : St) (start : Node) (oT nT : Nat) (oL nL : Option Nat) :
    (s.walk start oT nT oL nL).ctl = s.ctl := by
  unfold walk
  simp only []
  split
  · rw [ctl_bookMoveL, ctl_bookMoveT, ctl_walkLevels]
  · rw [ctl_bookMoveT, ctl_walkLevels]

theorem ctl_trackOnAdd (s : St) (r : NodeRec) : (s.trackOnAdd r).ctl = s.ctl := by
  unfold trackOnAdd; split <;> rfl
theorem ctl_trackOnDelete (s : St) (r : NodeRec) : (s.trackOnDelete r).ctl = s.ctl := by
  unfold trackOnDelete; split <;> rfl

theorem ctl_rpUpdate (s : St) (n : Node) : (s.rpUpdate n).ctl = s.ctl := by
  unfold rpUpdate
  split
  · split
    · rfl
    · exact ctl_foldl _ (fun st k => ctl_setOther st n k _) _ _
  · rfl

theorem ctl_rpCompute (s : St) (keys : List Key) : (s.rpCompute keys).ctl = s.ctl := by
  unfold rpCompute
  split
  · rfl
  · dsimp only
    split
    · rfl
    · refine ctl_foldl _ (fun st t => ?_) _ _
      refine ctl_foldl _ (fun st2 l => ?_) _ _
      split
      · exact ctl_foldl _ (fun st3 k => ctl_setOther st3 l k _) _ _
      · rfl

theorem ctl_iouUpdateEdge (s : St) (e : Edge) : (s.iouUpdateEdge e).ctl = s.ctl := by
  unfold iouUpdateEdge
  split
  · split <;> rfl
  · rfl
theorem ctl_iouUpdateNode (s : St) (n : Node) : (s.iouUpdateNode n).ctl = s.ctl :=
  ctl_foldl _ ctl_iouUpdateEdge _ _
theorem ctl_iouCompute (s : St) : s.iouCompute.ctl = s.ctl :=
  ctl_foldl _ ctl_iouUpdateEdge _ _

theorem ctl_assignTracklets (s : St) : s.assignTracklets.ctl = s.ctl := by
  unfold assignTracklets
  show (List.foldl _ s _).ctl = s.ctl
  exact ctl_foldl _ (fun st p => ctl_foldl _ (fun st2 n => ctl_setTid st2 n _) _ _) _ _
theorem ctl_assignLineages (s : St) : s.assignLineages.ctl = s.ctl := by
  unfold assignLineages
  show (List.foldl _ s _).ctl = s.ctl
  exact ctl_foldl _ (fun st p => ctl_foldl _ (fun st2 n => ctl_setLin st2 n _) _ _) _ _

theorem ctl_enable (s s' : St) (ks : List Key) (rc : Bool) (h : s.enable ks rc = some s') : s'.ctl = s.ctl := by
  unfold enable at h
  split at h
  · cases h
  · simp only [] at h
    split at h
    · cases h; rfl
    · cases h
      repeat' split
      all_goals simp only [ctl_assignLineages, ctl_assignTracklets, ctl_iouCompute, ctl_rpCompute]
      all_goals rfl

theorem ctl_disable (s s' : St) (ks : List Key) (h : s.disable ks = some s') : s'.ctl = s.ctl := by
  unfold disable at h
  split at h
  · cases h
  · cases h; rfl

/-! primitives -/
theorem ctl_pAddNode {s s' : St} {r : NodeRec} {px : Option (List Pix)} {p : PrimRec}
    (h : s.pAddNode r px = .ok (s', p)) : s'.ctl = s.ctl := by
  unfold pAddNode at h
  split at h
  · cases h
  · split at h
    · cases h
    · simp only [Except.ok.injEq, Prod.mk.injEq] at h
      rw [← h.1]
      have h1 : ∀ (s1 : St), s1.ctl = s.ctl →
          (if s1.hasNode r.id then s1.updNode r.id (fun old => { r with other := amerge r.other old.other })
            else { s1 with nodes := s1.nodes ++ [r] }).ctl = s.ctl := by
        intro s1 h1; split
        · exact h1
        · exact h1
      split
      all_goals (try rw [ctl_trackOnAdd])
      all_goals rw [ctl_rpUpdate]
      all_goals apply h1
      all_goals split <;> rfl

theorem ctl_pDelNode {s s' : St} {n : Node} {px : Option (List Pix)} {p : PrimRec}
    (h : s.pDelNode n px = .ok (s', p)) : s'.ctl = s.ctl := by
  unfold pDelNode at h
  split at h
  · cases h
  · simp only [Except.ok.injEq, Prod.mk.injEq] at h
    rw [← h.1, ctl_trackOnDelete]
    simp only [ctl]
    split <;> rfl

theorem ctl_pAddEdge {s s' : St} {e : Edge} {at_ : List (Key × Val)} {p : PrimRec}
    (h : s.pAddEdge e at_ = .ok (s', p)) : s'.ctl = s.ctl := by
  unfold pAddEdge at h
  split at h
  · cases h
  · simp only [Except.ok.injEq, Prod.mk.injEq] at h
    rw [← h.1, ctl_iouUpdateEdge]
    split <;> rfl

theorem ctl_pDelEdge {s s' : St} {e : Edge} {p : PrimRec}
    (h : s.pDelEdge e = .ok (s', p)) : s'.ctl = s.ctl := by
  unfold pDelEdge at h
  split at h
  · cases h
  · simp only [Except.ok.injEq, Prod.mk.injEq] at h
    rw [← h.1]; rfl

theorem ctl_pUpdTid {s s' : St} {n : Node} {t : Nat} {l : Option Nat} {p : PrimRec}
    (h : s.pUpdTid n t l = .ok (s', p)) : s'.ctl = s.ctl := by
  unfold pUpdTid at h
  split at h
  · cases h
  · simp only [Except.ok.injEq, Prod.mk.injEq] at h
    rw [← h.1, ctl_walk]

theorem ctl_pUpdSeg {s s' : St} {n : Node} {px : List Pix} {b : Bool} {p : PrimRec}
    (h : s.pUpdSeg n px b = .ok (s', p)) : s'.ctl = s.ctl := by
  unfold pUpdSeg at h
  split at h
  · cases h
  · split at h
    · cases h
    · simp only [Except.ok.injEq, Prod.mk.injEq] at h
      rw [← h.1, ctl_iouUpdateNode, ctl_rpUpdate]; rfl

theorem ctl_pUpdAttrs {s s' : St} {n : Node} {at_ : List (Key × Val)} {p : PrimRec}
    (h : s.pUpdAttrs n at_ = .ok (s', p)) : s'.ctl = s.ctl := by
  unfold pUpdAttrs at h
  split at h
  · cases h
  · split at h
    · cases h
    · simp only [Except.ok.injEq, Prod.mk.injEq] at h
      rw [← h.1]
      exact ctl_foldl _ (fun st (kv : Key × Val) => ctl_setOther st n kv.1 kv.2) _ _

theorem ctl_invPrim {s s' : St} {r p : PrimRec} (h : s.invPrim r = .ok (s', p)) : s'.ctl = s.ctl := by
  cases r <;> simp only [invPrim] at h
  · exact ctl_pDelNode h
  · exact ctl_pAddNode h
  · exact ctl_pDelEdge h
  · exact ctl_pAddEdge h
  · exact ctl_pUpdTid h
  · exact ctl_pUpdSeg h
  · exact ctl_pUpdAttrs h

theorem ctl_invGroup (s : St) (recs : List PrimRec) : (s.invGroup recs).1.ctl = s.ctl := by
  unfold invGroup
  refine hist_foldl_inv (fun (acc : St × Except Err (List PrimRec)) => acc.1.ctl = s.ctl) _ (fun acc p h => ?_) _ _ rfl
  split
  · exact h
  · split
    · rename_i h2; exact (ctl_invPrim h2).trans h
    · exact h

theorem ctl_rollback (s : St) (recs : List PrimRec) : (s.rollback recs).ctl = s.ctl :=
  ctl_invGroup s recs

theorem ctl_invTotal (s : St) (a : ActRec) : (s.invTotal a).1.ctl = s.ctl := by
  have := ctl_invGroup s a
  unfold invTotal
  split <;> rename_i h <;> rw [h] at this <;> exact this

/-! user actions -/
def CtlPrimFrame (f : St → Except Err (St × PrimRec)) : Prop :=
  ∀ st st' r, f st = .ok (st', r) → st'.ctl = st.ctl
def CtlUserFrame (f : St → UOut) : Prop := ∀ st, (f st).1.ctl = st.ctl

theorem ctl_thenPrim (acc : UOut) (f : St → Except Err (St × PrimRec)) (hf : CtlPrimFrame f) :
    (thenPrim acc f).1.ctl = acc.1.ctl := by
  unfold thenPrim
  split
  · rfl
  · split
    · rename_i h; exact hf _ _ _ h
    · rfl

theorem ctl_thenUser (acc : UOut) (f : St → UOut) (hf : CtlUserFrame f) :
    (thenUser acc f).1.ctl = acc.1.ctl := by
  unfold thenUser
  split
  · rfl
  · dsimp only
    split <;> exact hf _

macro "ctl_prim_frame" : tactic => `(tactic| (
  intro st st' r h
  first
    | exact ctl_pDelEdge h | exact ctl_pAddEdge h | exact ctl_pUpdTid h | exact ctl_pDelNode h
    | exact ctl_pAddNode h | exact ctl_pUpdSeg h | exact ctl_pUpdAttrs h
    | (dsimp only at h; split at h <;> first | exact ctl_pUpdTid h | cases h)))

theorem ctl_uDeleteEdge (s : St) (e : Edge) : (s.uDeleteEdge e).1.ctl = s.ctl := by
  unfold uDeleteEdge
  repeat' (first | rw [ctl_thenPrim _ _ (by ctl_prim_frame)] | split | dsimp only | rfl)

macro "ctl_user_frame" : tactic => `(tactic| (
  intro st
  first
    | exact ctl_uDeleteEdge _ _))

macro "ctl_frame_step" : tactic => `(tactic| first
  | rw [ctl_thenPrim _ _ (by ctl_prim_frame)]
  | rw [ctl_thenUser _ _ (by ctl_user_frame)]
  | rw [ctl_rollback]
  | split
  | dsimp only
  | rfl)

theorem ctl_uAddEdge (s : St) (e : Edge) (f : Bool) : (s.uAddEdge e f).1.ctl = s.ctl := by
  unfold uAddEdge
  repeat' ctl_frame_step

theorem ctl_trackNeighbors' {s sN : St} {tid time : Nat} {p q : Option Node}
    (h : s.trackNeighbors tid time = (sN, p, q)) : sN.ctl = s.ctl := by
  have := ctl_trackNeighbors s tid time
  rw [h] at this; exact this

macro_rules | `(tactic| ctl_user_frame) => `(tactic| (intro st; exact ctl_uAddEdge _ _ _))

theorem ctl_uAddNode (s : St) (a : AddNodeArgs) : (s.uAddNode a).1.ctl = s.ctl := by
  unfold uAddNode
  split
  · rfl
  · rfl
  split
  · rfl
  extract_lets tid
  split
  rename_i sN pred succ hN
  extract_lets a0 s0 lin a1 rec_
  have hsN : sN.ctl = s.ctl := ctl_trackNeighbors' hN
  have h0 : a0.1.ctl = s.ctl := by
    rw [← hsN]
    simp only [a0]
    repeat' ctl_frame_step
  have h1 : a1.1.ctl = s.ctl := by
    rw [← h0]
    simp only [a1]
    repeat' ctl_frame_step
  clear_value a1 rec_ lin s0 a0
  repeat' ctl_frame_step
  all_goals first | assumption | exact (ctl_pAddNode (by assumption)).trans h1

macro_rules | `(tactic| ctl_user_frame) => `(tactic| (intro st; exact ctl_uAddNode _ _))

theorem ctl_uUpdateAttrs (s : St) (n : Node) (at_ : List (Key × Val)) : (s.uUpdateAttrs n at_).1.ctl = s.ctl := by
  unfold uUpdateAttrs
  repeat' ctl_frame_step

theorem ctl_uSwap (s : St) (n1 n2 : Node) : (s.uSwap n1 n2).1.ctl = s.ctl := by
  unfold uSwap
  repeat' ctl_frame_step

theorem ctl_uDeleteNode (s : St) (n : Node) (px : Option (List Pix)) : (s.uDeleteNode n px).1.ctl = s.ctl := by
  unfold uDeleteNode
  split
  · rfl
  extract_lets hasPred a0 orphans0 a1
  have h0 : a0.1.ctl = s.ctl := by
    simp only [a0]
    refine hist_foldl_inv (fun (acc : UOut) => acc.1.ctl = s.ctl) _ (fun acc p h => ?_) _ _ rfl
    rw [← h]
    repeat' ctl_frame_step
  have h1 : a1.1.ctl = s.ctl := by
    simp only [a1]
    refine hist_foldl_inv (fun (acc : UOut) => acc.1.ctl = s.ctl) _ (fun acc c h => ?_) _ _ h0
    rw [ctl_thenPrim _ _ (by ctl_prim_frame)]; exact h
  clear_value a1 orphans0 a0
  split
  · exact h0
  split
  · exact h1
  · split
    rename_i sN pred succ hN
    have hsN : sN.ctl = s.ctl := (ctl_trackNeighbors' hN).trans h1
    extract_lets a1'
    split
    rename_i a2 orphans h2
    have ha2 : a2.1.ctl = s.ctl := by
      split at h2
      all_goals (simp only [Prod.mk.injEq] at h2; rw [← h2.1])
      · rw [ctl_thenPrim _ _ (by ctl_prim_frame)]; exact hsN
      · exact hsN
    clear_value a1'
    extract_lets idx a3
    rw [ctl_thenPrim _ _ (by ctl_prim_frame)]
    simp only [a3]
    refine hist_foldl_inv (fun (acc : UOut) => acc.1.ctl = s.ctl) _ (fun acc io h => ?_) _ _ ha2
    split
    · rw [ctl_thenPrim _ _ (by ctl_prim_frame)]; exact h
    · exact h
  · exact h1

macro_rules | `(tactic| ctl_user_frame) => `(tactic| (intro st; exact ctl_uDeleteNode _ _ _))

theorem ctl_uUpdateSeg (s : St) (v : Nat) (groups : List (List Pix × Nat)) (tid : Nat) (f : Bool) :
    (s.uUpdateSeg v groups tid f).1.1.ctl = s.ctl := by
  unfold uUpdateSeg
  split
  · rfl
  extract_lets a0
  have h0 : a0.1.ctl = s.ctl := by
    simp only [a0]
    refine hist_foldl_inv (fun (acc : UOut) => acc.1.ctl = s.ctl) _ (fun acc p h => ?_) _ _ rfl
    rw [← h]
    repeat' ctl_frame_step
  clear_value a0
  repeat' ctl_frame_step
  all_goals first | assumption | (rw [ctl_uAddNode]; assumption)

/-! ### session step: top-level edits -/

def _root_.Ft.Op.isTopEdit : Op → Bool
  | .addEdge .. | .delEdge .. | .addNode .. | .delNode .. | .swap .. | .paint .. | .updAttrs .. => true
  | _ => false

/-- the state after an accepted top-level action whose user-action part ended in `u` -/
def committed (u : St) (recs : ActRec) (p : Option Node) : St :=
  { u with hist := u.hist.add recs, refreshes := u.refreshes + 1, lastPayload := p }

/-- the array as the caller of `UserUpdateSegmentation` leaves it: the stroke already painted -/
def painted (s : St) (g : Seg) (v : Nat) (groups : List (List Pix × Nat)) : St :=
  { s with seg := some (g.setPixels (groups.flatMap (fun (grp : List Pix × Nat) => grp.1)) v) }

/-- the payload `step` hands to `refresh.emit` (read off the model) -/
def payloadOf (s : St) : Op → Option Node
  | .addNode a => some a.node
  | .paint v groups tid f =>
    match s.seg with
    | some g => ((painted s g v groups).uUpdateSeg v groups tid f).2
    | none => none
  | _ => none

/-- the payload the property asks for: the new node for an add-node, and for a paint exactly
    when the painted label `v` is non-zero, the stroke is non-empty and no node `v` exists once
    the erased parts of the stroke have been processed (`uUpdateSeg 0 …` is that erase-only
    pass) — i.e. when the paint creates node `v` -/
def expectedPayload (s : St) : Op → Option Node
  | .addNode a => some a.node
  | .paint v groups tid f =>
    match s.seg with
    | some g =>
      if v != 0 && !groups.isEmpty &&
          !(((painted s g v groups).uUpdateSeg 0 groups tid f).1.1.hasNode v) then some v else none
    | none => none
  | _ => none

theorem commit_cases (r : UOut) (p : Option Node) :
    (∃ recs, r.2 = .ok recs ∧ commit r p = (committed r.1 recs p, .ok)) ∨
    (∃ e, r.2 = .error e ∧ commit r p = (r.1, .err e)) := by
  unfold commit
  split
  · rename_i recs h; exact .inl ⟨recs, h, rfl⟩
  · rename_i e h; exact .inr ⟨e, h, rfl⟩

/-- an edit op either commits (one history entry, one refresh) on top of a state with the
    control fields of `s`, or is refused with an error and untouched control fields -/
def EditOutcome (s : St) (op : Op) (r : St × Out) : Prop :=
  (∃ u recs, r = (committed u recs (payloadOf s op), .ok) ∧ u.ctl = s.ctl) ∨
  (∃ e, r.2 = .err e ∧ r.1.ctl = s.ctl)

theorem commit_outcome (s : St) (op : Op) (r : UOut) (p : Option Node) (h : r.1.ctl = s.ctl)
    (hp : p = payloadOf s op) : EditOutcome s op (commit r p) := by
  subst hp
  rcases commit_cases r (payloadOf s op) with ⟨recs, _, h2⟩ | ⟨e, _, h2⟩
  · exact .inl ⟨r.1, recs, h2, h⟩
  · rw [h2]; exact .inr ⟨e, rfl, h⟩

theorem step_edit (s : St) (op : Op) (he : op.isTopEdit = true) : EditOutcome s op (step s op) := by
  cases op <;> simp only [Op.isTopEdit] at he <;> try (cases he)
  all_goals simp only [step]
  · exact commit_outcome s _ _ _ (ctl_uAddEdge _ _ _) rfl
  · exact commit_outcome s _ _ _ (ctl_uDeleteEdge _ _) rfl
  · exact commit_outcome s _ _ _ (ctl_uAddNode _ _) rfl
  · exact commit_outcome s _ _ _ (ctl_uDeleteNode _ _ _) rfl
  · exact commit_outcome s _ _ _ (ctl_uSwap _ _ _) rfl
  · rename_i v groups tid f
    split
    · exact .inr ⟨_, rfl, rfl⟩
    · rename_i g hg
      have hc := ctl_uUpdateSeg (painted s g v groups) v groups tid f
      have hp : payloadOf s (.paint v groups tid f) = ((painted s g v groups).uUpdateSeg v groups tid f).2 := by
        simp only [payloadOf, hg]
      simp only [painted] at hc hp
      generalize St.uUpdateSeg _ v groups tid f = rs at hc hp ⊢
      have hc' : rs.1.1.ctl = s.ctl := hc
      split
      · exact commit_outcome s _ _ _ hc' hp.symm
      · split
        · exact .inr ⟨_, rfl, hc'⟩
        · exact .inr ⟨_, rfl, hc'⟩
  · exact commit_outcome s _ _ _ (ctl_uUpdateAttrs _ _ _) rfl

/-- the composite user action behind a top-level edit op (for a paint: run on the array the
    caller has already painted) -/
def userPart (s : St) : Op → Option UOut
  | .addEdge e f => some (s.uAddEdge e f)
  | .delEdge e => some (s.uDeleteEdge e)
  | .addNode a => some (s.uAddNode a)
  | .delNode n => some (s.uDeleteNode n none)
  | .swap a b => some (s.uSwap a b)
  | .paint v groups tid f =>
    match s.seg with
    | some g => some ((painted s g v groups).uUpdateSeg v groups tid f).1
    | none => none
  | .updAttrs n attrs => some (s.uUpdateAttrs n attrs)
  | _ => none

theorem commit_group (r : UOut) (p : Option Node) (hok : (commit r p).2 = .ok) :
    ∃ recs, r.2 = .ok recs ∧ (commit r p).1 = committed r.1 recs p := by
  rcases commit_cases r p with ⟨recs, h1, h2⟩ | ⟨e, _, h2⟩
  · exact ⟨recs, h1, by rw [h2]⟩
  · rw [h2] at hok; cases hok

/-- an accepted top-level edit stores the *whole* flattened primitive list of its user action
    as a single history entry -/
theorem step_edit_group (s : St) (op : Op) (he : op.isTopEdit = true) (hok : (step s op).2 = .ok) :
    ∃ r recs, userPart s op = some r ∧ r.2 = .ok recs ∧
      (step s op).1 = committed r.1 recs (payloadOf s op) := by
  cases op <;> simp only [Op.isTopEdit] at he <;> try (cases he)
  all_goals simp only [step] at hok ⊢
  · obtain ⟨recs, h1, h2⟩ := commit_group _ _ hok; exact ⟨_, recs, rfl, h1, h2⟩
  · obtain ⟨recs, h1, h2⟩ := commit_group _ _ hok; exact ⟨_, recs, rfl, h1, h2⟩
  · obtain ⟨recs, h1, h2⟩ := commit_group _ _ hok; exact ⟨_, recs, rfl, h1, h2⟩
  · obtain ⟨recs, h1, h2⟩ := commit_group _ _ hok; exact ⟨_, recs, rfl, h1, h2⟩
  · obtain ⟨recs, h1, h2⟩ := commit_group _ _ hok; exact ⟨_, recs, rfl, h1, h2⟩
  · rename_i v groups tid f
    cases hg : s.seg with
    | none => rw [hg] at hok; cases hok
    | some g =>
      simp only [hg] at hok ⊢
      simp only [userPart, payloadOf, hg, painted]
      generalize St.uUpdateSeg _ v groups tid f = rs at hok ⊢
      split at hok
      · rename_i a hr
        obtain ⟨recs, h1, h2⟩ := commit_group _ _ hok
        exact ⟨_, recs, rfl, h1, h2⟩
      · split at hok <;> cases hok
  · obtain ⟨recs, h1, h2⟩ := commit_group _ _ hok; exact ⟨_, recs, rfl, h1, h2⟩

theorem userPart_ctl (s : St) (op : Op) (r : UOut) (h : userPart s op = some r) : r.1.ctl = s.ctl := by
  cases op <;> simp only [userPart] at h
  · cases h; exact ctl_uAddEdge _ _ _
  · cases h; exact ctl_uDeleteEdge _ _
  · cases h; exact ctl_uAddNode _ _
  · cases h; exact ctl_uDeleteNode _ _ _
  · cases h; exact ctl_uSwap _ _ _
  · split at h
    · cases h; exact ctl_uUpdateSeg _ _ _ _ _
    · cases h
  · cases h; exact ctl_uUpdateAttrs _ _ _
  all_goals cases h

/-! ### which node a paint selects -/

theorem uUpdateSeg_sel (s : St) (v : Nat) (groups : List (List Pix × Nat)) (tid : Nat) (f : Bool)
    (recs : List PrimRec) (hok : (s.uUpdateSeg v groups tid f).1.2 = .ok recs) :
    (s.uUpdateSeg v groups tid f).2 =
      if v != 0 && !groups.isEmpty && !((s.uUpdateSeg 0 groups tid f).1.1.hasNode v) then some v else none := by
  unfold uUpdateSeg at hok ⊢
  cases hseg : s.seg with
  | none => rw [hseg] at hok; cases hok
  | some g =>
    simp only [hseg] at hok ⊢
    generalize List.foldl _ ((s, Except.ok []) : UOut) groups = a0 at hok ⊢
    cases h2 : a0.2 with
    | error e => simp only [h2] at hok; cases hok
    | ok recs0 =>
      simp only [h2] at hok ⊢
      simp only [show ((0:Nat) != 0) = false from rfl, Bool.false_and, Bool.false_eq_true, if_false]
      generalize (v != 0 && !groups.isEmpty) = b at hok ⊢
      cases b
      · simp
      · simp only [if_true, Bool.true_and] at hok ⊢
        split at hok
        · rename_i g' p0 hs hh
          by_cases hn : a0.fst.hasNode v = true
          · simp [hn]
          · simp only [hn, Bool.false_eq_true, ↓reduceIte] at hok ⊢
            split at hok
            · rename_i recs' hr
              simp
            · cases hok
        · cases hok

theorem payloadOf_eq (s : St) (op : Op) (he : op.isTopEdit = true) (hok : (step s op).2 = .ok) :
    payloadOf s op = expectedPayload s op := by
  cases op <;> simp only [Op.isTopEdit] at he <;> try (cases he)
  all_goals try rfl
  rename_i v groups tid f
  simp only [step] at hok
  simp only [payloadOf, expectedPayload]
  split
  · rename_i g hg
    simp only [hg] at hok
    split at hok
    · rename_i recs hr
      exact uUpdateSeg_sel _ v groups tid f recs hr
    · split at hok <;> cases hok
  · rfl

/-! ### session step: undo / redo -/

open Hist

/-- the state after a successful `undo()` / `redo()` whose inverse ended in `u` -/
def stepped (u : St) (h : Hist ActRec) : St :=
  { u with hist := h, refreshes := u.refreshes + 1, lastPayload := none }

theorem invTotal_ok {s : St} {a r : ActRec} (h : (s.invGroup a).2 = .ok r) :
    s.invTotal a = ((s.invGroup a).1, r) := by
  unfold invTotal
  split <;> rename_i h2 <;> rw [h2] at h ⊢ <;> cases h
  rfl

theorem step_undo_none (s : St) (hle : s.hist.undo.length ≤ s.hist.redo.length) :
    step s .undo = (s, .bool false) := by
  have hp : s.hist.ptr < 0 := by unfold Hist.ptr; omega
  simp only [step, undoStep_none invTotal s.hist s hle, hp, if_true]
  split <;> simp

theorem ptr_toNat {α : Type} (h : Hist α) : h.ptr.toNat = h.undo.length - h.redo.length - 1 := by
  unfold Hist.ptr; omega

theorem step_undo_ok (s : St) (a r : ActRec) (hlt : s.hist.redo.length < s.hist.undo.length)
    (ha : s.hist.undo[s.hist.undo.length - s.hist.redo.length - 1]? = some a)
    (hok : (s.invGroup a).2 = .ok r) :
    step s .undo = (stepped (s.invGroup a).1 { s.hist with redo := s.hist.redo ++ [r] }, .bool true) := by
  have hp : ¬ s.hist.ptr < 0 := by unfold Hist.ptr; omega
  simp only [step, undoStep_some invTotal s.hist s a hlt ha, ptr_toNat, ha, hp, if_false, hok,
    invTotal_ok hok]
  simp [stepped, Except.toOption]

theorem step_undo_err (s : St) (a : ActRec) (e : Err) (hlt : s.hist.redo.length < s.hist.undo.length)
    (ha : s.hist.undo[s.hist.undo.length - s.hist.redo.length - 1]? = some a)
    (herr : (s.invGroup a).2 = .error e) :
    step s .undo = ((s.invGroup a).1, .err .other) := by
  have hp : ¬ s.hist.ptr < 0 := by unfold Hist.ptr; omega
  have ht : (s.invTotal a).1 = (s.invGroup a).1 := by
    unfold invTotal; split <;> rename_i h2 <;> rw [h2]
  simp only [step, undoStep_some invTotal s.hist s a hlt ha, ptr_toNat, ha, hp, if_false, herr, ht]
  simp [Except.toOption]

theorem step_redo_none (s : St) (hr : s.hist.redo = []) : step s .redo = (s, .bool false) := by
  simp only [step, redoStep_none invTotal s.hist s hr, hr]
  simp

theorem step_redo_ok (s : St) (rs : List ActRec) (a r : ActRec) (hr : s.hist.redo = rs ++ [a])
    (hok : (s.invGroup a).2 = .ok r) :
    step s .redo = (stepped (s.invGroup a).1 { s.hist with redo := rs }, .bool true) := by
  have hl : s.hist.redo.getLast? = some a := by rw [hr]; simp
  simp only [step, redoStep_some invTotal s.hist s rs a hr, hl, hok, invTotal_ok hok]
  simp [stepped, Except.toOption]

theorem step_redo_err (s : St) (rs : List ActRec) (a : ActRec) (e : Err) (hr : s.hist.redo = rs ++ [a])
    (herr : (s.invGroup a).2 = .error e) :
    step s .redo = ((s.invGroup a).1, .err .other) := by
  have hl : s.hist.redo.getLast? = some a := by rw [hr]; simp
  have ht : (s.invTotal a).1 = (s.invGroup a).1 := by
    unfold invTotal; split <;> rename_i h2 <;> rw [h2]
  simp only [step, redoStep_some invTotal s.hist s rs a hr, hl, herr, ht]
  simp [Except.toOption]

/-! ### ops that are neither edits nor undo/redo -/

theorem step_other_ctl (s : St) (op : Op) (he : op.isTopEdit = false) (hu : op ≠ .undo) (hr : op ≠ .redo) :
    (step s op).1.ctl = s.ctl := by
  cases op <;> simp only [Op.isTopEdit] at he <;> try (cases he)
  all_goals simp only [step]
  · exact absurd rfl hu
  · exact absurd rfl hr
  · split
    · rename_i h; exact ctl_enable _ _ _ _ h
    · rfl
  · split
    · rename_i h; exact ctl_disable _ _ _ h
    · rfl
  · exact ctl_trackNeighbors _ _ _
  · exact ctl_newNodeIds _ _

/-! ### `St.Equiv` is an equivalence relation that ignores the control fields -/

theorem hEquiv_refl (s : St) : Equiv s s :=
  ⟨fun _ => Iff.rfl, fun _ => Iff.rfl, rfl, fun _ _ => Iff.rfl, fun _ _ => Iff.rfl,
    ⟨rfl, rfl, rfl, rfl, rfl, rfl, rfl, rfl⟩⟩

theorem hEquiv_symm {s t : St} (h : Equiv s t) : Equiv t s :=
  ⟨fun r => (h.nodes r).symm, fun r => (h.edges r).symm, h.seg.symm, fun a b => (h.t2n a b).symm,
    fun a b => (h.l2n a b).symm,
    ⟨h.reg.1.symm, h.reg.2.1.symm, h.reg.2.2.1.symm, h.reg.2.2.2.1.symm, h.reg.2.2.2.2.1.symm,
      h.reg.2.2.2.2.2.1.symm, h.reg.2.2.2.2.2.2.1.symm, h.reg.2.2.2.2.2.2.2.symm⟩⟩

theorem hEquiv_trans {s t u : St} (h : Equiv s t) (k : Equiv t u) : Equiv s u :=
  ⟨fun r => (h.nodes r).trans (k.nodes r), fun r => (h.edges r).trans (k.edges r), h.seg.trans k.seg,
    fun a b => (h.t2n a b).trans (k.t2n a b), fun a b => (h.l2n a b).trans (k.l2n a b),
    ⟨h.reg.1.trans k.reg.1, h.reg.2.1.trans k.reg.2.1, h.reg.2.2.1.trans k.reg.2.2.1,
      h.reg.2.2.2.1.trans k.reg.2.2.2.1, h.reg.2.2.2.2.1.trans k.reg.2.2.2.2.1,
      h.reg.2.2.2.2.2.1.trans k.reg.2.2.2.2.2.1, h.reg.2.2.2.2.2.2.1.trans k.reg.2.2.2.2.2.2.1,
      h.reg.2.2.2.2.2.2.2.trans k.reg.2.2.2.2.2.2.2⟩⟩

theorem hEquiv_stepped (u : St) (h : Hist ActRec) : Equiv (stepped u h) u :=
  ⟨fun _ => Iff.rfl, fun _ => Iff.rfl, rfl, fun _ _ => Iff.rfl, fun _ _ => Iff.rfl,
    ⟨rfl, rfl, rfl, rfl, rfl, rfl, rfl, rfl⟩⟩

/-! ### the bridge from `St.step` to the abstract history system -/

/-- **The C01 obligation**, as far as C02 needs it, for a record relation `Rec` and an
    observational equivalence `E` (intended: `St.Equiv`, see `C01Obligation.ofEquiv`):
    `E` is an equivalence that does not look at the history / refresh log; `Rec a s t` ("`a` is the
    recorded group of a top-level action that led from `s` to `t`") is `E`-invariant; and
    inverting such a record in any state `E`-equivalent to `t` succeeds, lands in a state
    `E`-equivalent to `s`, and records a step `t ⟶ s`. -/
structure C01Obligation (Rec : ActRec → St → St → Prop) (E : St → St → Prop) : Prop where
  refl : ∀ s, E s s
  symm : ∀ {s t}, E s t → E t s
  trans : ∀ {s t u}, E s t → E t u → E s u
  ctl : ∀ u h, E (stepped u h) u
  congr : ∀ {a s t s' t'}, Rec a s t → E s s' → E t t' → Rec a s' t'
  inverse : ∀ {a s t t'}, Rec a s t → E t' t →
    (∃ r, (t'.invGroup a).2 = .ok r) ∧ E (t'.invTotal a).1 s ∧ Rec (t'.invTotal a).2 t s

theorem C01Obligation.ofEquiv {Rec : ActRec → St → St → Prop}
    (congr : ∀ {a s t s' t'}, Rec a s t → Equiv s s' → Equiv t t' → Rec a s' t')
    (inverse : ∀ {a s t t'}, Rec a s t → Equiv t' t →
      (∃ r, (t'.invGroup a).2 = .ok r) ∧ Equiv (t'.invTotal a).1 s ∧ Rec (t'.invTotal a).2 t s) :
    C01Obligation Rec Equiv :=
  ⟨hEquiv_refl, hEquiv_symm, hEquiv_trans, hEquiv_stepped, congr, inverse⟩

theorem C01Obligation.laws {Rec : ActRec → St → St → Prop} {E : St → St → Prop}
    (h : C01Obligation Rec E) : Hist.Laws invTotal Rec E :=
  ⟨h.refl, h.symm, h.trans, h.congr, fun hr he => (h.inverse hr he).2⟩

/-- what a session step does to the timeline -/
def absStep (t : Timeline St) (op : Op) (r : St × Out) : Timeline St :=
  match op with
  | .undo => t.undo.1
  | .redo => t.redo.1
  | _ => if op.isTopEdit && r.2 == .ok then t.edit r.1 else t

/-- per-step side conditions of `C02_session`: an accepted edit appends a record that satisfies
    `Rec` (C01 obligation on the user actions); every other op that is not undo/redo — a refused
    edit (C11 obligation), a query, a feature switch — leaves the state `≈`-unchanged -/
def SessOpOK (Rec : ActRec → St → St → Prop) (E : St → St → Prop) (s : St) (op : Op) : Prop :=
  op = .undo ∨ op = .redo ∨
  (op.isTopEdit = true ∧ (step s op).2 = .ok ∧
    ∃ recs, (step s op).1.hist = s.hist.add recs ∧ Rec recs s (step s op).1) ∨
  (op ≠ .undo ∧ op ≠ .redo ∧ (op.isTopEdit = true → (step s op).2 ≠ .ok) ∧ E (step s op).1 s)

def SessValid (Rec : ActRec → St → St → Prop) (E : St → St → Prop) : St → List Op → Prop
  | _, [] => True
  | s, op :: ops => SessOpOK Rec E s op ∧ SessValid Rec E (step s op).1 ops

def sessFinal : St → Timeline St → List Op → St × Timeline St
  | s, t, [] => (s, t)
  | s, t, op :: ops => sessFinal (step s op).1 (absStep t op (step s op)) ops

/-- every `undo`/`redo` of the run returned the Boolean the timeline predicts -/
def SessAgree : St → Timeline St → List Op → Prop
  | _, _, [] => True
  | s, t, op :: ops =>
    (op = .undo → (step s op).2 = .bool t.undo.2) ∧ (op = .redo → (step s op).2 = .bool t.redo.2) ∧
    SessAgree (step s op).1 (absStep t op (step s op)) ops

theorem sess_step {Rec : ActRec → St → St → Prop} {E : St → St → Prop} (hC : C01Obligation Rec E)
    {s : St} {t : Timeline St}
    (hr : Refines Rec E (s.hist, s) t) (op : Op) (hv : SessOpOK Rec E s op) :
    Refines Rec E ((step s op).1.hist, (step s op).1) (absStep t op (step s op)) ∧
    (op = .undo → (step s op).2 = .bool t.undo.2) ∧ (op = .redo → (step s op).2 = .bool t.redo.2) := by
  have L := hC.laws
  rcases hv with rfl | rfl | ⟨he, hok, recs, hh, hrec⟩ | ⟨hu, hre, hne, heq⟩
  · -- undo
    obtain ⟨hsim, hb⟩ := hr.step L .undo trivial
    simp only [stepC, stepA] at hsim hb
    refine ⟨?_, fun _ => ?_, fun h => (by cases h)⟩
    all_goals
      by_cases hle : s.hist.undo.length ≤ s.hist.redo.length
      · rw [step_undo_none s hle]
        rw [undoStep_none invTotal s.hist s hle] at hsim hb
        first | exact hsim | exact congrArg Out.bool hb
      · have hlt : s.hist.redo.length < s.hist.undo.length := by omega
        obtain ⟨a, y, x, ha, hrec, hx, _, _⟩ := hr.undo_entry hlt
        obtain ⟨⟨r, hok⟩, _, _⟩ := hC.inverse hrec hx
        rw [step_undo_ok s a r hlt ha hok]
        rw [undoStep_some invTotal s.hist s a hlt ha, invTotal_ok hok] at hsim hb
        first
          | exact Refines.congr_state L hsim (hC.ctl _ _)
          | exact congrArg Out.bool hb
  · -- redo
    obtain ⟨hsim, hb⟩ := hr.step L .redo trivial
    simp only [stepC, stepA] at hsim hb
    refine ⟨?_, fun h => (by cases h), fun _ => ?_⟩
    all_goals
      rcases List.eq_nil_or_concat s.hist.redo with hnil | ⟨rs, a, hcat⟩
      · rw [step_redo_none s hnil]
        rw [redoStep_none invTotal s.hist s hnil] at hsim hb
        first | exact hsim | exact congrArg Out.bool hb
      · have hcat' : s.hist.redo = rs ++ [a] := by simpa using hcat
        have hl : s.hist.redo.getLast? = some a := by rw [hcat']; simp
        obtain ⟨z, x, hrec, hx, _⟩ := hr.redo_entry a hl
        obtain ⟨⟨r, hok⟩, _, _⟩ := hC.inverse hrec hx
        rw [step_redo_ok s rs a r hcat' hok]
        rw [redoStep_some invTotal s.hist s rs a hcat', invTotal_ok hok] at hsim hb
        first
          | exact Refines.congr_state L hsim (hC.ctl _ _)
          | exact congrArg Out.bool hb
  · -- accepted edit
    have hnu : op ≠ .undo := by intro h; rw [h] at he; cases he
    have hnr : op ≠ .redo := by intro h; rw [h] at he; cases he
    obtain ⟨hsim, _⟩ := hr.step L (.edit recs (step s op).1) hrec
    simp only [stepC, stepA] at hsim
    rw [← hh] at hsim
    have habs : absStep t op (step s op) = t.edit (step s op).1 := by
      cases op <;> simp_all [absStep, Op.isTopEdit]
    rw [habs]
    exact ⟨hsim, fun h => absurd h hnu, fun h => absurd h hnr⟩
  · -- anything else: history untouched, state ≈-unchanged
    have hctl : (step s op).1.ctl = s.ctl := by
      cases he : op.isTopEdit
      · exact step_other_ctl s op he hu hre
      · rcases step_edit s op he with ⟨u, recs, h1, _⟩ | ⟨e, _, h2⟩
        · exact absurd (by rw [h1]) (hne he)
        · exact h2
    have hhist : (step s op).1.hist = s.hist := congrArg (·.1) hctl
    have habs : absStep t op (step s op) = t := by
      cases he : op.isTopEdit
      · cases op <;> simp_all [absStep, Op.isTopEdit]
      · have := hne he
        cases op <;> simp_all [absStep, Op.isTopEdit]
    rw [habs, hhist]
    exact ⟨Refines.congr_state L hr heq, fun h => absurd h hu, fun h => absurd h hre⟩

theorem sess_run {Rec : ActRec → St → St → Prop} {E : St → St → Prop} (hC : C01Obligation Rec E) :
    ∀ (ops : List Op) {s : St} {t : Timeline St}, Refines Rec E (s.hist, s) t → SessValid Rec E s ops →
      Refines Rec E ((sessFinal s t ops).1.hist, (sessFinal s t ops).1) (sessFinal s t ops).2 ∧
      SessAgree s t ops
  | [], _, _, hr, _ => ⟨hr, trivial⟩
  | op :: ops, s, t, hr, hv => by
    obtain ⟨h1, h2, h3⟩ := sess_step hC hr op hv.1
    obtain ⟨h4, h5⟩ := sess_run hC ops h1 hv.2
    exact ⟨h4, h2, h3, h5⟩

/-! ### the refresh signal -/

/-- does this call have to emit `refresh`? — an accepted top-level edit, or an undo/redo that
    returned `True` -/
def refreshDue (op : Op) (out : Out) : Bool :=
  match op, out with
  | .undo, .bool true => true
  | .redo, .bool true => true
  | op, .ok => op.isTopEdit
  | _, _ => false

theorem refreshDue_err (op : Op) (e : Err) : refreshDue op (.err e) = false := by
  cases op <;> rfl

theorem refreshDue_edit_ok (op : Op) (he : op.isTopEdit = true) : refreshDue op .ok = true := by
  cases op <;> first | rfl | cases he

theorem refreshDue_other (op : Op) (out : Out) (he : op.isTopEdit = false) (hu : op ≠ .undo) (hr : op ≠ .redo) :
    refreshDue op out = false := by
  cases op <;> first | (cases he; done) | exact absurd rfl hu | exact absurd rfl hr | (cases out <;> rfl)

theorem refreshes_of_ctl {s t : St} (h : s.ctl = t.ctl) : s.refreshes = t.refreshes :=
  congrArg (·.2.1) h
theorem lastPayload_of_ctl {s t : St} (h : s.ctl = t.ctl) : s.lastPayload = t.lastPayload :=
  congrArg (·.2.2) h
theorem hist_of_ctl {s t : St} (h : s.ctl = t.ctl) : s.hist = t.hist :=
  congrArg (·.1) h

/-- one refresh, with the right payload, exactly when due; otherwise the refresh log is untouched -/
theorem step_signal (s : St) (op : Op) :
    (refreshDue op (step s op).2 = true →
      (step s op).1.refreshes = s.refreshes + 1 ∧ (step s op).1.lastPayload = expectedPayload s op) ∧
    (refreshDue op (step s op).2 = false →
      (step s op).1.refreshes = s.refreshes ∧ (step s op).1.lastPayload = s.lastPayload) := by
  by_cases hu : op = .undo
  · subst hu
    by_cases hle : s.hist.undo.length ≤ s.hist.redo.length
    · rw [step_undo_none s hle]
      exact ⟨fun h => (by cases h), fun _ => ⟨rfl, rfl⟩⟩
    · have hlt : s.hist.redo.length < s.hist.undo.length := by omega
      have hidx : s.hist.undo.length - s.hist.redo.length - 1 < s.hist.undo.length := by omega
      have ha := List.getElem?_eq_getElem hidx
      cases hg : (s.invGroup (s.hist.undo[s.hist.undo.length - s.hist.redo.length - 1])).2 with
      | ok r =>
        rw [step_undo_ok s _ r hlt ha hg]
        refine ⟨fun _ => ⟨?_, rfl⟩, fun h => (by cases h)⟩
        show (s.invGroup _).1.refreshes + 1 = _
        rw [refreshes_of_ctl (ctl_invGroup s _)]
      | error e =>
        rw [step_undo_err s _ e hlt ha hg]
        exact ⟨fun h => (by cases h), fun _ => ⟨refreshes_of_ctl (ctl_invGroup s _),
          lastPayload_of_ctl (ctl_invGroup s _)⟩⟩
  by_cases hr : op = .redo
  · subst hr
    rcases List.eq_nil_or_concat s.hist.redo with hnil | ⟨rs, a, hcat⟩
    · rw [step_redo_none s hnil]
      exact ⟨fun h => (by cases h), fun _ => ⟨rfl, rfl⟩⟩
    · have hcat' : s.hist.redo = rs ++ [a] := by simpa using hcat
      cases hg : (s.invGroup a).2 with
      | ok r =>
        rw [step_redo_ok s rs a r hcat' hg]
        refine ⟨fun _ => ⟨?_, rfl⟩, fun h => (by cases h)⟩
        show (s.invGroup _).1.refreshes + 1 = _
        rw [refreshes_of_ctl (ctl_invGroup s _)]
      | error e =>
        rw [step_redo_err s rs a e hcat' hg]
        exact ⟨fun h => (by cases h), fun _ => ⟨refreshes_of_ctl (ctl_invGroup s _),
          lastPayload_of_ctl (ctl_invGroup s _)⟩⟩
  cases he : op.isTopEdit
  · rw [refreshDue_other op _ he hu hr]
    have hc := step_other_ctl s op he hu hr
    exact ⟨fun h => (by cases h), fun _ => ⟨refreshes_of_ctl hc, lastPayload_of_ctl hc⟩⟩
  · rcases step_edit s op he with ⟨u, recs, h1, hc⟩ | ⟨e, h1, hc⟩
    · have hok : (step s op).2 = .ok := by rw [h1]
      rw [hok, refreshDue_edit_ok op he]
      refine ⟨fun _ => ⟨?_, ?_⟩, fun h => (by cases h)⟩
      · rw [h1]; show u.refreshes + 1 = _; rw [refreshes_of_ctl hc]
      · rw [h1]; exact payloadOf_eq s op he hok
    · rw [h1, refreshDue_err]
      exact ⟨fun h => (by cases h), fun _ => ⟨refreshes_of_ctl hc, lastPayload_of_ctl hc⟩⟩

/-- the state after a sequence of calls -/
def finalSt : St → List Op → St
  | s, [] => s
  | s, op :: ops => finalSt (step s op).1 ops

/-- how many calls of the sequence have to emit `refresh` -/
def dueCount : St → List Op → Nat
  | _, [] => 0
  | s, op :: ops => (if refreshDue op (step s op).2 then 1 else 0) + dueCount (step s op).1 ops

theorem finalSt_refreshes : ∀ (ops : List Op) (s : St),
    (finalSt s ops).refreshes = s.refreshes + dueCount s ops
  | [], _ => rfl
  | op :: ops, s => by
    simp only [finalSt, dueCount]
    rw [finalSt_refreshes ops]
    cases hd : refreshDue op (step s op).2
    · rw [((step_signal s op).2 hd).1]; simp
    · rw [((step_signal s op).1 hd).1]; simp; omega


end St
end Ft
