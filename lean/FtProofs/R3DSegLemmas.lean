/-
  FtProofs.R3DSegLemmas — package R3D: the bundle invariant `Inv` through the primitive
  `UpdateNodeSeg` (`St.pUpdSeg`), together with its inverse law over the common equivalence `E`.

  §1  `SegPre` from `Inv`.
  §2  labels other than the written one are untouched: `maskVal` / `offsetsOf` / `iouOf` of the
      other nodes do not move.
  §3  `EdgeInv` and `NodeInv` of the post state `updRes s g' n` from `UpdDesc`.
  §4  `updSeg_inv`.
-/
import FtProofs.R3DBase

namespace Ft.R3D
open Ft Ft.St Ft.R2A1 Ft.R3P List

/-! ## §1 the preconditions of the primitive law from the bundle -/

theorem segPre_of_inv {s : St} {g : Seg} {n : Node} {px : List Pix} {b : Bool} (hI : Inv s)
    (hg : s.seg = some g)
    (hopp : ∀ p ∈ px, p < g.data.length ∧ g.data.getD p 0 = lab (!b) n) : SegPre s g n px b := by
  refine ⟨hI.good.wf, hg, hopp, fun t ht k hk => hI.node.cur g hg n t ht k hk, ?_⟩
  intro k hk hact r hr _
  have hs : s.seg.isSome = true := by rw [hg]; rfl
  exact hI.edge.cur k hk hact hs (obsEdge r) ⟨r, hr, rfl⟩

/-! ## §2 the other labels are untouched -/

theorem mem_ids_of_timeOf {s : St} {m : Node} {t : Nat} (h : s.timeOf m = some t) : m ∈ s.ids := by
  rw [← nobs_isSome_iff]
  rw [timeOf_eq_nobs] at h
  cases hn : nobs s m with
  | none => rw [hn] at h; cases h
  | some o => rfl

theorem lab_cases (b : Bool) (n : Node) : lab b n = n ∨ lab b n = 0 := by
  cases b
  · right; rfl
  · left; rfl

/-- a label that is neither `n` nor the background is not touched by `UpdateNodeSeg(n, px, b)` -/
theorem untouched_other {g : Seg} {n m : Node} {px : List Pix} {b : Bool}
    (hopp : ∀ p ∈ px, p < g.data.length ∧ g.data.getD p 0 = lab (!b) n)
    (hmn : m ≠ n) (hm0 : m ≠ 0) : Seg.Untouched g px (lab b n) m := by
  refine ⟨fun h => ?_, fun p hp _ h => ?_⟩
  · rcases lab_cases b n with h' | h'
    · exact hmn (h.trans h')
    · exact hm0 (h.trans h')
  · rw [(hopp p hp).2] at h
    rcases lab_cases (!b) n with h' | h'
    · exact hmn (h.symm.trans h')
    · exact hm0 (h.symm.trans h')

/-- the IoU of an edge that does not touch `n` does not move -/
theorem iouOf_other {s s₁ : St} {g : Seg} {n : Node} {px : List Pix} {b : Bool}
    (hg : s.seg = some g) (h0 : (0 : Node) ∉ s.ids)
    (hopp : ∀ p ∈ px, p < g.data.length ∧ g.data.getD p 0 = lab (!b) n)
    (hseg : s₁.seg = some (g.setPixels px (lab b n))) (htime : ∀ m, s₁.timeOf m = s.timeOf m)
    {e : Edge} (h1 : e.1 ≠ n) (h2 : e.2 ≠ n) : s₁.iouOf e = s.iouOf e := by
  unfold iouOf
  rw [hseg, hg, htime, htime]
  cases ht1 : s.timeOf e.1 with
  | none => rfl
  | some t1 =>
    cases ht2 : s.timeOf e.2 with
    | none => rfl
    | some t2 =>
      have hm1 : e.1 ≠ 0 := fun h => h0 (h ▸ mem_ids_of_timeOf ht1)
      have hm2 : e.2 ≠ 0 := fun h => h0 (h ▸ mem_ids_of_timeOf ht2)
      simp only
      rw [Seg.offsetsOf_setPixels_other (untouched_other hopp h1 hm1),
        Seg.offsetsOf_setPixels_other (untouched_other hopp h2 hm2)]

/-! ## §3 `EdgeInv` / `NodeInv` of the post state -/

theorem eobs_map_some {o : Option EdgeObs} {F : (Key → Val) → (Key → Val)} {o' : EdgeObs}
    (h : o.map (mapE F) = some o') : ∃ o₀, o = some o₀ ∧ o' = mapE F o₀ := by
  cases o with
  | none => cases h
  | some o₀ => exact ⟨o₀, rfl, (Option.some.inj h).symm⟩

theorem edgeInv_updRes {s : St} {g : Seg} {n : Node} {px : List Pix} {b : Bool} (hI : Inv s)
    (hg : s.seg = some g)
    (hopp : ∀ p ∈ px, p < g.data.length ∧ g.data.getD p 0 = lab (!b) n) :
    EdgeInv (updRes s (g.setPixels px (lab b n)) n) := by
  have hd := upd_desc s (g.setPixels px (lab b n)) n
  generalize updRes s (g.setPixels px (lab b n)) n = s₁ at hd ⊢
  have hw := hI.good.wf
  have hw₁ := hd.wf₁ hw
  obtain ⟨-, q2, -, q4, q5, -, -, -⟩ := reg_fields hd.reg
  have hsS : s.seg.isSome = true := by rw [hg]; rfl
  have hsS₁ : s₁.seg.isSome = true := by rw [hd.seg]; rfl
  have h0 : (0 : Node) ∉ s.ids := hI.node.ne0 g hg
  -- every observed edge of `s₁`: incident and rewritten, or not incident and unchanged
  have hE : ∀ o, EObs s₁ o →
      ((o.1.1 = n ∨ o.1.2 = n) ∧ ∃ o₀, EObs s o₀ ∧ o₀.1 = o.1 ∧ o.2 = iouW s₁ o.1 o₀.2) ∨
      ((o.1.1 ≠ n ∧ o.1.2 ≠ n) ∧ EObs s o) := by
    intro o ho
    have h1 := (eObs_iff_eobs hw₁.edges o).mp ho
    rw [hd.edges] at h1
    by_cases hc : o.1.1 = n ∨ o.1.2 = n
    · rw [if_pos hc] at h1
      obtain ⟨o₀, e1, e2⟩ := eobs_map_some h1
      have ho₀ : o₀.1 = o.1 := by rw [e2]; rfl
      exact Or.inl ⟨hc, o₀, (eObs_iff_eobs hw.edges o₀).mpr (by rw [ho₀]; exact e1), ho₀,
        congrArg Prod.snd e2⟩
    · rw [if_neg hc] at h1
      exact Or.inr ⟨⟨fun h => hc (Or.inl h), fun h => hc (Or.inr h)⟩,
        (eObs_iff_eobs hw.edges o).mpr h1⟩
  refine ⟨fun o ho k hk => ?_, fun a _ k hk => ?_, fun k hk a _ o ho => ?_⟩
  · rw [q2]
    rcases hE o ho with ⟨-, o₀, ho₀, -, e2⟩ | ⟨-, ho'⟩
    · rw [e2] at hk
      unfold iouW at hk
      cases hkk : s₁.iouKey with
      | none => rw [hkk] at hk; exact hI.edge.reg o₀ ho₀ k hk
      | some k0 =>
        rw [hkk] at hk
        simp only at hk
        by_cases hact : (s₁.iouActive && s₁.seg.isSome) = true
        · rw [if_pos hact] at hk
          by_cases hk0 : k = k0
          · rw [hsS₁, Bool.and_true] at hact
            rw [hk0]
            exact hI.edge.iouReg (q5 ▸ hact) hsS k0 (q4 ▸ hkk)
          · simp only [hk0, if_false] at hk
            exact hI.edge.reg o₀ ho₀ k hk
        · rw [if_neg hact] at hk
          exact hI.edge.reg o₀ ho₀ k hk
    · exact hI.edge.reg o ho' k hk
  · rw [q2]; exact hI.edge.iouReg (q5 ▸ a) hsS k (q4 ▸ hk)
  · rcases hE o ho with ⟨-, o₀, -, -, e2⟩ | ⟨⟨h1, h2⟩, ho'⟩
    · rw [e2]
      unfold iouW
      rw [hk]
      simp only
      have hact : (s₁.iouActive && s₁.seg.isSome) = true := by rw [a, hsS₁]; rfl
      rw [if_pos hact]
      simp only [if_true]
    · rw [iouOf_other hg h0 hopp hd.seg hd.time h1 h2]
      exact hI.edge.cur k (q4 ▸ hk) (q5 ▸ a) hsS o ho'

/-- reading of the post state's node attributes -/
theorem otherOf_updRes {s s₁ : St} {g' : Seg} {n : Node} (hd : UpdDesc s g' n s₁) (m : Node) (k : Key) :
    s₁.otherOf m k = if m = n then
        (match s.timeOf n with
          | some t => if k ∈ s.rpActive then g'.maskVal t n else s.otherOf n k
          | none => s.otherOf n k)
      else s.otherOf m k := by
  obtain ⟨-, -, q3, -, -, -, -, -⟩ := reg_fields hd.reg
  rw [otherOf_eq_nobs, hd.nodes]
  by_cases hm : m = n
  · rw [if_pos hm, if_pos hm, otherOf_eq_nobs]
    cases ht : s.timeOf n with
    | none =>
      have : nobs s n = none := by
        rw [timeOf_eq_nobs] at ht
        cases hn : nobs s n with
        | none => rfl
        | some o => rw [hn] at ht; cases ht
      rw [this]; rfl
    | some t =>
      cases hn : nobs s n with
      | none => rw [timeOf_eq_nobs, hn] at ht; cases ht
      | some o =>
        show RW s₁ n o.2.2.2.2 k = _
        unfold RW
        rw [hd.seg, hd.time, ht, q3]
        rfl
  · rw [if_neg hm, if_neg hm, otherOf_eq_nobs]

theorem ids_updRes {s s₁ : St} {g' : Seg} {n : Node} (hd : UpdDesc s g' n s₁) (m : Node) :
    m ∈ s₁.ids ↔ m ∈ s.ids := by
  rw [← nobs_isSome_iff, ← nobs_isSome_iff, hd.nodes]
  by_cases hm : m = n
  · rw [if_pos hm, Option.isSome_map, hm]
  · rw [if_neg hm]

theorem nodeInv_updRes {s : St} {g : Seg} {n : Node} {px : List Pix} {b : Bool} (hI : Inv s)
    (hg : s.seg = some g)
    (hopp : ∀ p ∈ px, p < g.data.length ∧ g.data.getD p 0 = lab (!b) n) :
    R3C.NodeInv (updRes s (g.setPixels px (lab b n)) n) := by
  have hd := upd_desc s (g.setPixels px (lab b n)) n
  generalize updRes s (g.setPixels px (lab b n)) n = s₁ at hd ⊢
  obtain ⟨q1, -, q3, -, -, -, -, -⟩ := reg_fields hd.reg
  have h0 : (0 : Node) ∉ s.ids := hI.node.ne0 g hg
  refine ⟨fun m k hk => ?_, fun k hk => ?_, fun hs => ?_, fun g'' hg'' m t ht k hk => ?_,
    fun g'' _ h => h0 ((ids_updRes hd 0).mp h)⟩
  · rw [q1]
    rw [otherOf_updRes hd] at hk
    by_cases hm : m = n
    · rw [if_pos hm] at hk
      cases ht : s.timeOf n with
      | none => rw [ht] at hk; exact hI.node.registered n k hk
      | some t =>
        rw [ht] at hk
        simp only at hk
        by_cases hka : k ∈ s.rpActive
        · exact hI.node.rpreg k hka
        · rw [if_neg hka] at hk; exact hI.node.registered n k hk
    · rw [if_neg hm] at hk; exact hI.node.registered m k hk
  · rw [q1]; rw [q3] at hk; exact hI.node.rpreg k hk
  · rw [hd.seg] at hs; cases hs
  · rw [hd.seg] at hg''
    cases hg''
    rw [hd.time] at ht
    rw [q3] at hk
    rw [otherOf_updRes hd]
    by_cases hm : m = n
    · rw [if_pos hm]
      rw [hm] at ht ⊢
      rw [ht]
      simp only
      rw [if_pos hk]
    · rw [if_neg hm]
      have hmi : m ∈ s.ids := mem_ids_of_timeOf ht
      have hm0 : m ≠ 0 := fun h => h0 (h ▸ hmi)
      rw [Seg.maskVal_setPixels_other (untouched_other hopp hm hm0)]
      exact hI.node.cur g hg m t ht k hk

/-! ## §4 the bundle through `UpdateNodeSeg` -/

theorem skel_updRes (s : St) (g' : Seg) (n : Node) : (updRes s g' n).skel = s.skel := by
  unfold updRes
  exact (iouUpdateNode_skel _ _).trans ((rpUpdate_skel _ _).trans (withSeg_skel _ _))

/-- `UpdateNodeSeg` of an existing node on an invariant state: when the pixels carry the opposite
    value (background when growing, the node's label when shrinking) and the written array is still
    in one-to-one correspondence with the (unchanged) node skeleton, the primitive is accepted, its
    record satisfies the inverse law over `E`, and the bundle invariant holds again -/
theorem updSeg_inv {s : St} {g : Seg} {n : Node} {px : List Pix} {b : Bool} (hI : Inv s)
    (hg : s.seg = some g) (hn : n ∈ s.ids)
    (hopp : ∀ p ∈ px, p < g.data.length ∧ g.data.getD p 0 = lab (!b) n)
    (hk : SegOKk (g.setPixels px (lab b n)) s.skel) :
    s.pUpdSeg n px b = .ok (updRes s (g.setPixels px (lab b n)) n, .updSeg n px b) ∧
    InvLaw E s (.updSeg n px b) (updRes s (g.setPixels px (lab b n)) n) ∧
    Inv (updRes s (g.setPixels px (lab b n)) n) := by
  have hp : SegPre s g n px b := segPre_of_inv hI hg hopp
  have hacc : s.pUpdSeg n px b = .ok (updRes s (g.setPixels px (lab b n)) n, .updSeg n px b) :=
    pUpdSeg_eq hg ((PC.hasNode_iff _ _).mpr hn) px b
  have hd := upd_desc s (g.setPixels px (lab b n)) n
  obtain ⟨-, -, q3, -, -, q6, -, -⟩ := reg_fields hd.reg
  refine ⟨hacc, law_updSeg hp hI.good.max hacc, ?_⟩
  refine ⟨R3A.pUpdSeg_valid hI.valid hacc, good_updSeg hp hI.good.max hacc,
    edgeInv_updRes hI hg hopp, nodeInv_updRes hI hg hopp, ?_, ?_, ?_⟩
  · rw [segOK_iff_skel]
    intro g'' hg''
    rw [hd.seg] at hg''
    cases hg''
    rw [skel_updRes]
    exact hk
  · intro k hk'
    rw [q6]; rw [q3] at hk'
    exact hI.avail k hk'
  · intro g'' hg''
    rw [hd.seg] at hg''
    cases hg''
    rw [Seg.setPixels_frame]
    exact hI.frame g hg

end Ft.R3D
