/-
  FtProofs.R2CLemmas — package R2C: the joint invariant `Valid` through `uDeleteNode`.

  Plan (DESIGN §3 "UserDeleteNode", model `FtModel/User.lean`):
    s ──loop 1 (sibling relabel, in-edge removed)──▶ s1 ──loop 2 (out-edges removed)──▶ s2 (`Mid`)
      ──get_track_neighbors──▶ s2' ──optional bridge pred→succ──▶ s3 (`Brd`)
      ──orphan relabel loop──▶ s4 ──DeleteNode──▶ final
  Every stage is described relative to the start state `s` (graph view, track ids, lineage ids)
  and carries the bookkeeping invariant `Ft.PC.Inv`; the stages are chained with `OkP`
  ("if the composite is still accepted, the state satisfies …").
-/
import FtProofs.ForestLemmas
import FtProofs.BookLemmas
import FtProofs.TrackLemmas
open Ft Ft.St
namespace Ft.R2C

/-! ### 0. plumbing -/

/-- "if the composite has not failed, its state satisfies `Q`" -/
def OkP (Q : St → Prop) (a : UOut) : Prop := ∀ r, a.2 = .ok r → Q a.1

theorem OkP_err (Q : St → Prop) (st : St) (e : Err) : OkP Q (st, .error e) := fun _ h => by cases h

theorem OkP_pure {Q : St → Prop} {st : St} (r : Except Err (List PrimRec)) (h : Q st) :
    OkP Q (st, r) := fun _ _ => h

theorem OkP_thenPrim {Q Q' : St → Prop} {a : UOut} {f : St → Except Err (St × PrimRec)}
    (ha : OkP Q a) (hf : ∀ st st' r, Q st → f st = .ok (st', r) → Q' st') :
    OkP Q' (thenPrim a f) := by
  intro r h
  obtain ⟨r0, s', p, h0, h1, h2, _⟩ := thenPrim_ok h
  rw [h2]; exact hf _ _ _ (ha _ h0) h1

theorem OkP_mono {Q Q' : St → Prop} {a : UOut} (ha : OkP Q a) (h : ∀ st, Q st → Q' st) :
    OkP Q' a := fun r hr => h _ (ha r hr)

/-! ### 1. small graph facts -/

theorem preds_cases {s : St} (hF : s.Forest) (n : Node) :
    s.preds n = [] ∨ ∃ p, s.preds n = [p] := by
  have h := hF.indeg_le n
  unfold indeg at h
  match hp : s.preds n with
  | [] => exact Or.inl rfl
  | [p] => exact Or.inr ⟨p, rfl⟩
  | _ :: _ :: _ => rw [hp] at h; simp at h

theorem succs_cases {s : St} (hF : s.Forest) (n : Node) :
    s.succs n = [] ∨ (∃ c, s.succs n = [c]) ∨ ∃ c1 c2, s.succs n = [c1, c2] ∧ c1 ≠ c2 := by
  have h := hF.outdeg_le n
  have hnd := hF.succs_nodup n
  unfold outdeg at h
  match hp : s.succs n with
  | [] => exact Or.inl rfl
  | [c] => exact Or.inr (Or.inl ⟨c, rfl⟩)
  | [c1, c2] =>
    refine Or.inr (Or.inr ⟨c1, c2, rfl, ?_⟩)
    rw [hp] at hnd; simpa using hnd
  | _ :: _ :: _ :: _ => rw [hp] at h; simp at h

theorem mem_ids_tm {s : St} {x : Node} (h : x ∈ s.ids) : s.timeOf x = some (s.tk_tm x) :=
  tk_timeOf_of_mem h

theorem no_self_edge {s : St} (hF : s.Forest) (x : Node) : (x, x) ∉ s.edgeList := by
  intro h; have := hF.tm_lt h; omega


/-! ### 2. segments are chains; heads -/

theorem two_le_of_two_mem {α} {l : List α} {a b : α} (ha : a ∈ l) (hb : b ∈ l) (hne : a ≠ b) :
    2 ≤ l.length := by
  match l, ha, hb with
  | [], ha, _ => cases ha
  | [x], ha, hb =>
    simp only [List.mem_singleton] at ha hb
    exact absurd (ha.trans hb.symm) hne
  | _ :: _ :: _, _, _ => simp

theorem outdeg_two {s : St} (hF : s.Forest) {p a b : Node} (ha : (p, a) ∈ s.edgeList)
    (hb : (p, b) ∈ s.edgeList) (hne : a ≠ b) : s.outdeg p = 2 := by
  have h1 : 2 ≤ s.outdeg p := by
    unfold outdeg
    exact two_le_of_two_mem (tk_mem_succs.2 ha) (tk_mem_succs.2 hb) hne
  have := hF.outdeg_le p
  omega

theorem isHead_of_div {s : St} (hF : s.Forest) {p c : Node} (he : (p, c) ∈ s.edgeList)
    (ho : s.outdeg p = 2) : s.IsHead c :=
  ⟨hF.dst_mem _ he, fun q hq => by rw [hF.par_unique hq he]; exact ho⟩

theorem isHead_of_root {s : St} {c : Node} (hc : c ∈ s.ids) (h : ∀ q, (q, c) ∉ s.edgeList) :
    s.IsHead c := ⟨hc, fun q hq => (h q hq).elim⟩

theorem segDown_linear {s : St} {h a b : Node} (h1 : s.tk_SegDown h a) (h2 : s.tk_SegDown h b) :
    s.tk_SegDown a b ∨ s.tk_SegDown b a := by
  induction h1 with
  | refl => exact Or.inl h2
  | step p c _ he ho ih =>
    rcases ih with ih | ih
    · rcases ih.head with rfl | ⟨_, c', hc', hd⟩
      · exact Or.inr (tk_SegDown.step _ _ c (tk_SegDown.refl _) he ho)
      · rw [tk_child_unique ho he hc']; exact Or.inl hd
    · exact Or.inr (tk_SegDown.step _ p c ih he ho)

/-- two nodes with the same track id lie on one downward chain -/
theorem seg_comparable {s : St} (hF : s.Forest) (hT : s.TidOK) {a b : Node} (ha : a ∈ s.ids)
    (hb : b ∈ s.ids) (h : s.tidOf a = s.tidOf b) : s.tk_SegDown a b ∨ s.tk_SegDown b a := by
  have hs := (tk_tid_iff_sameSeg hF hT ha hb).1 h
  rcases tk_exists_head hF _ a ha rfl with ⟨r, hr, hra⟩
  exact segDown_linear hra ((hs.head_iff hF r hr).1 hra)

theorem segDown_tm_lt {s : St} (hF : s.Forest) {a b : Node} (h : s.tk_SegDown a b) (hne : a ≠ b) :
    s.tk_tm a < s.tk_tm b := by
  rcases h.head with h | ⟨_, c, hc, hd⟩
  · exact absurd h hne
  · have := hF.tm_lt hc
    have := hd.anc.tm_le hF
    omega

theorem segDown_tid {s : St} (hT : s.TidOK) {a b : Node} (h : s.tk_SegDown a b) :
    s.tidOf b = s.tidOf a := by
  induction h with
  | refl => rfl
  | step p c _ he ho ih => rw [← ih]; exact hT.along _ he ho

/-- the chain of the sibling of `n` (when the parent of `n` divides) -/
def SibSeg (s : St) (n x : Node) : Prop :=
  ∃ p sib, (p, n) ∈ s.edgeList ∧ (p, sib) ∈ s.edgeList ∧ sib ≠ n ∧ s.tk_SegDown sib x

theorem sibSeg_tid_ne {s : St} (hF : s.Forest) (hT : s.TidOK) {n x : Node}
    (h : SibSeg s n x) : s.tidOf x ≠ s.tidOf n := by
  obtain ⟨p, sib, hpn, hps, hne, hd⟩ := h
  have ho := outdeg_two hF hps hpn hne
  rw [segDown_tid hT hd]
  exact hT.heads sib n (isHead_of_div hF hps ho) (isHead_of_div hF hpn ho) hne

theorem parent_div_tid_ne {s : St} (hF : s.Forest) (hT : s.TidOK) {p n : Node}
    (hpn : (p, n) ∈ s.edgeList) (ho : s.outdeg p = 2) : s.tidOf p ≠ s.tidOf n := by
  rcases tk_exists_head hF _ p (hF.src_mem _ hpn) rfl with ⟨r, hr, hrp⟩
  rw [segDown_tid hT hrp]
  apply hT.heads r n hr (isHead_of_div hF hpn ho)
  intro heq; subst heq
  have := hrp.anc.tm_le hF
  have := hF.tm_lt hpn
  omega

/-- a node of the sibling chain that is a head is the sibling itself -/
theorem sibSeg_head {s : St} {n x : Node} (h : SibSeg s n x) (hx : s.IsHead x) :
    ∃ p, (p, n) ∈ s.edgeList ∧ (p, x) ∈ s.edgeList ∧ x ≠ n := by
  obtain ⟨p, sib, hpn, hps, hne, hd⟩ := h
  by_cases hxs : x = sib
  · subst hxs; exact ⟨p, hpn, hps, hne⟩
  · exact (hd.not_head hxs hx).elim

theorem sibSeg_not_parent {s : St} (hF : s.Forest) {n p : Node} (hpn : (p, n) ∈ s.edgeList) :
    ¬ SibSeg s n p := by
  rintro ⟨p', sib, hpn', hps, _, hd⟩
  have := hF.par_unique hpn hpn'
  subst this
  have := hd.anc.tm_le hF
  have := hF.tm_lt hps
  omega

theorem sibSeg_not_self {s : St} (hF : s.Forest) {n : Node} : ¬ SibSeg s n n := by
  rintro ⟨p, sib, hpn, hps, hne, hd⟩
  rcases hd.tail with h | ⟨q, hq, hqn, hoq⟩
  · exact hne h
  · have := hF.par_unique hpn hqn
    subst this
    have := outdeg_two hF hps hpn hne
    omega

/-- the sibling chain is closed under non-division children … -/
theorem sibSeg_step {s : St} {n a b : Node} (h : SibSeg s n a) (he : (a, b) ∈ s.edgeList)
    (ho : s.outdeg a = 1) : SibSeg s n b := by
  obtain ⟨p, sib, hpn, hps, hne, hd⟩ := h
  exact ⟨p, sib, hpn, hps, hne, tk_SegDown.step _ a b hd he ho⟩

/-- … and under parents, except at the sibling itself -/
theorem sibSeg_up {s : St} (hF : s.Forest) {n a b : Node} (h : SibSeg s n b)
    (he : (a, b) ∈ s.edgeList) (hna : (a, n) ∉ s.edgeList) : SibSeg s n a := by
  obtain ⟨p, sib, hpn, hps, hne, hd⟩ := h
  rcases hd.tail with h | ⟨q, hq, hqb, _⟩
  · subst h
    have := hF.par_unique he hps
    subst this; exact (hna hpn).elim
  · have := hF.par_unique he hqb
    subst this
    exact ⟨p, sib, hpn, hps, hne, hq⟩

theorem sibSeg_conn {s : St} (hF : s.Forest) {n x : Node} (h : SibSeg s n x) : s.Conn x n := by
  obtain ⟨p, sib, hpn, hps, _, hd⟩ := h
  have hp := hF.src_mem _ hpn
  have h1 : s.Conn p x := (Anc.cons hps hd.anc).conn hp
  have h2 : s.Conn p n := Conn.down p p n (Conn.refl p hp) hpn
  exact (h1.symm hF).trans h2


/-! ### 3. the neighbour query in the middle state -/

theorem pc_tm_eq {s st : St} (hnt : st.nt = s.nt) (x : Node) : PC.tm st x = s.tk_tm x := by
  unfold PC.tm tk_tm; rw [timeOf_eq_nt, timeOf_eq_nt, hnt]

theorem ids_of_nt {s st : St} (hnt : st.nt = s.nt) : st.ids = s.ids := by
  rw [ids_eq_nt, ids_eq_nt, hnt]

theorem timeOf_of_nt {s st : St} (hnt : st.nt = s.nt) (x : Node) : st.timeOf x = s.timeOf x := by
  rw [timeOf_eq_nt, timeOf_eq_nt, hnt]

/-- In a state `st` with the node table of `s`, consistent track lookup, and in which exactly
    the nodes of `n`'s track carry its id `T`: the track predecessor of `n` is its parent (iff
    that parent does not divide) and the track successor its child (iff `n` does not divide). -/
theorem nbr_spec {s st : St} (hF : s.Forest) (hTd : s.TidOK) {n : Node} {T : Nat}
    (hn : n ∈ s.ids) (hnT : s.tidOf n = some T) (hnt : st.nt = s.nt) (hTOK : PC.TOK st)
    (htid : ∀ x, st.tidOf x = some T ↔ s.tidOf x = some T) :
    (∀ x, (st.trackNeighbors T (s.tk_tm n)).2.1 = some x → (x, n) ∈ s.edgeList ∧ s.outdeg x = 1) ∧
    ((st.trackNeighbors T (s.tk_tm n)).2.1 = none → ∀ p, (p, n) ∈ s.edgeList → s.outdeg p = 2) ∧
    (∀ x, (st.trackNeighbors T (s.tk_tm n)).2.2 = some x → (n, x) ∈ s.edgeList ∧ s.outdeg n = 1) ∧
    ((st.trackNeighbors T (s.tk_tm n)).2.2 = none → s.outdeg n ≠ 1) := by
  obtain ⟨sp1, sp2, sp3, sp4⟩ := PC.trackNeighbors_spec st hTOK T (s.tk_tm n)
  have hids := ids_of_nt hnt
  simp only [pc_tm_eq hnt, hids, htid] at sp1 sp2 sp3 sp4
  refine ⟨?_, ?_, ?_, ?_⟩
  · intro x hx
    obtain ⟨⟨hxm, hxT⟩, hlt, hmax⟩ := sp1 x hx
    have hxn : x ≠ n := by intro h; subst h; omega
    rcases seg_comparable hF hTd hxm hn (hxT.trans hnT.symm) with hd | hd
    · rcases hd.head with h | ⟨ho, c, hc, hcd⟩
      · exact absurd h hxn
      · by_cases hcn : c = n
        · subst hcn; exact ⟨hc, ho⟩
        · have h1 := segDown_tm_lt hF hcd hcn
          have h2 := hF.tm_lt hc
          have hcT : s.tidOf c = some T := by rw [hTd.along _ hc ho]; exact hxT
          have := hmax c (hF.dst_mem _ hc) hcT h1
          omega
    · have := hd.anc.tm_le hF; omega
  · intro hx p hp
    have hlt := hF.tm_lt hp
    have := hF.outdeg_le p
    have := tk_outdeg_pos hp
    apply Classical.byContradiction
    intro hne
    have ho : s.outdeg p = 1 := by omega
    have hpT : s.tidOf p = some T := by rw [← hTd.along _ hp ho]; exact hnT
    exact sp2 hx p (hF.src_mem _ hp) hpT hlt
  · intro x hx
    obtain ⟨⟨hxm, hxT⟩, hlt, hmin⟩ := sp3 x hx
    have hxn : x ≠ n := by intro h; subst h; omega
    rcases seg_comparable hF hTd hn hxm (hnT.trans hxT.symm) with hd | hd
    · rcases hd.head with h | ⟨ho, c, hc, hcd⟩
      · exact absurd h.symm hxn
      · by_cases hcx : c = x
        · subst hcx; exact ⟨hc, ho⟩
        · have h1 := segDown_tm_lt hF hcd hcx
          have h2 := hF.tm_lt hc
          have hcT : s.tidOf c = some T := by rw [hTd.along _ hc ho]; exact hnT
          have := hmin c (hF.dst_mem _ hc) hcT h2
          omega
    · have := hd.anc.tm_le hF; omega
  · intro hx ho
    match hs : s.succs n, ho with
    | [c], _ =>
      have hc : (n, c) ∈ s.edgeList := tk_mem_succs.1 (by rw [hs]; exact List.mem_cons_self)
      have hcT : s.tidOf c = some T := by rw [hTd.along _ hc ho]; exact hnT
      exact sp4 hx c (hF.dst_mem _ hc) hcT (hF.tm_lt hc)
    | [], ho => unfold outdeg at ho; rw [hs] at ho; cases ho
    | _ :: _ :: _, ho => unfold outdeg at ho; rw [hs] at ho; simp at ho


/-! ### 4. stage A: sibling relabel, edges at `n` removed -/

/-- relation of an intermediate state to the (valid) start state `s`: bookkeeping invariant, node
    table of `s`, edge list `es`, lineage ids of `s`, track ids of `s` except on the sibling chain -/
structure Stg (s : St) (n : Node) (es : List Edge) (st : St) : Prop where
  inv : PC.Inv st
  nt : st.nt = s.nt
  es : st.edgeList = es
  lin : ∀ x, st.linOf x = s.linOf x
  maxLin : st.maxLin = s.maxLin
  linOn : st.linOn = true
  tidIn : ∀ p x, (p, n) ∈ s.edgeList → SibSeg s n x → st.tidOf x = s.tidOf p
  tidOut : ∀ x, ¬ SibSeg s n x → st.tidOf x = s.tidOf x

theorem inv_of_valid {s : St} (hV : s.Valid) : PC.Inv s :=
  ⟨hV.forest, ((PC.bookOK_iff s).1 hV.book).1, ((PC.bookOK_iff s).1 hV.book).2, hV.lin.along⟩

theorem third_child {s : St} (hF : s.Forest) {p a b c : Node} (ha : (p, a) ∈ s.edgeList)
    (hb : (p, b) ∈ s.edgeList) (hc : (p, c) ∈ s.edgeList) (hab : a ≠ b) : c = a ∨ c = b := by
  have ha' := tk_mem_succs.2 ha
  have hb' := tk_mem_succs.2 hb
  have hc' := tk_mem_succs.2 hc
  rcases succs_cases hF p with h | ⟨x, h⟩ | ⟨x, y, h, _⟩
  · rw [h] at ha'; cases ha'
  · rw [h] at ha' hb'; simp at ha' hb'; exact absurd (ha'.trans hb'.symm) hab
  · rw [h] at ha' hb' hc'
    simp only [List.mem_cons, List.not_mem_nil, or_false] at ha' hb' hc'
    rcases ha' with rfl | rfl <;> rcases hb' with rfl | rfl <;> rcases hc' with rfl | rfl <;> simp_all

theorem Stg_pDelEdge {s : St} {n : Node} {es : List Edge} {st st' : St} {e : Edge} {r : PrimRec}
    (h : Stg s n es st) (hk : st.pDelEdge e = .ok (st', r)) : Stg s n (es.filter (· != e)) st' := by
  have hG := (pDelEdge_G hk).2
  have hbv := PC.pDelEdge_BV hk
  refine ⟨PC.pDelEdge_inv h.inv hk, (G_nt' hG).trans h.nt, by rw [G_es' hG, h.es], ?_, ?_, ?_, ?_, ?_⟩
  · intro x; rw [hbv.linOf]; exact h.lin x
  · rw [hbv.maxLin]; exact h.maxLin
  · rw [hbv.linOn]; exact h.linOn
  · intro p x hp hx; rw [hbv.tidOf]; exact h.tidIn p x hp hx
  · intro x hx; rw [hbv.tidOf]; exact h.tidOut x hx

/-- the sibling relabel on the start state -/
theorem Stg_relabel {s : St} (hV : s.Valid) {n p sib : Node} {tp : Nat} {st' : St} {r : PrimRec}
    (hpn : (p, n) ∈ s.edgeList) (hps : (p, sib) ∈ s.edgeList) (hne : sib ≠ n)
    (htp : s.tidOf p = some tp) (hk : s.pUpdTid sib tp none = .ok (st', r)) :
    Stg s n s.edgeList st' := by
  have hF := hV.forest
  have hI := inv_of_valid hV
  obtain ⟨rec, hrec, hw⟩ := tk_pUpdTid_ok hk
  have hsm : sib ∈ s.ids := hF.dst_mem _ hps
  have hG := pUpdTid_G hk
  have hnl := tk_walk_nolin s sib rec.tid tp rec.lin
  have hwt := tk_walk_tid hF hsm rec.tid tp rec.lin none (tk_tidOf_of_findNode hrec)
    (hV.tid.chainHyp hF hsm (tk_tidOf_of_findNode hrec))
  refine ⟨PC.pUpdTid_none_inv hI hk, G_nt hG, G_es hG, ?_, ?_, ?_, ?_, ?_⟩
  · intro x; rw [hw]; exact hnl.1 x
  · rw [hw]; exact hnl.2
  · rw [hw, tk_walk_linOn]; exact hV.linOn
  · intro p' x hp' hx
    have := hF.par_unique hp' hpn; subst this
    obtain ⟨q, sib', hqn, hqs, hne', hd⟩ := hx
    have := hF.par_unique hqn hpn; subst this
    have hss : sib' = sib := by
      rcases third_child hF hpn hps hqs hne.symm with h | h
      · exact absurd h hne'
      · exact h
    subst hss
    rw [hw, hwt.1 x hd, htp]
  · intro x hx
    rw [hw]
    apply hwt.2
    intro hd; exact hx ⟨p, sib, hpn, hps, hne, hd⟩

theorem filter_in_eq_self {s : St} {n : Node} (h : s.preds n = []) :
    s.edgeList.filter (fun e => e.2 != n) = s.edgeList := by
  rw [List.filter_eq_self]
  intro e he
  simp only [bne_iff_ne, ne_eq]
  intro h2
  have : e.1 ∈ s.preds n := tk_mem_preds.2 (by rw [← h2]; exact he)
  rw [h] at this; cases this

theorem filter_in_eq {s : St} (hF : s.Forest) {n p : Node} (hpn : (p, n) ∈ s.edgeList) :
    s.edgeList.filter (· != (p, n)) = s.edgeList.filter (fun e => e.2 != n) := by
  apply List.filter_congr
  intro e he
  show (e != (p, n)) = (e.2 != n)
  by_cases h2 : e.2 = n
  · have : e = (p, n) := by
      have h1 := hF.par_unique (c := n) (p := e.1) (q := p) (by rw [← h2]; exact he) hpn
      exact Prod.ext h1 h2
    rw [this]; simp
  · have : e ≠ (p, n) := fun h => h2 (by rw [h])
    rw [bne_iff_ne.2 this, bne_iff_ne.2 h2]

/-- loop 1 -/
theorem loop1_stg {s : St} (hV : s.Valid) (n : Node) :
    OkP (Stg s n (s.edgeList.filter (fun e => e.2 != n))) (delNodeLoop1 s n) := by
  have hF := hV.forest
  have hI := inv_of_valid hV
  have base : ∀ (hns : ∀ p x, (p, n) ∈ s.edgeList → SibSeg s n x → False), Stg s n s.edgeList s :=
    fun hns => ⟨hI, rfl, rfl, fun _ => rfl, rfl, hV.linOn, fun p x hp hx => (hns p x hp hx).elim,
      fun _ _ => rfl⟩
  rcases preds_cases hF n with hp | ⟨p, hp⟩
  · have : delNodeLoop1 s n = (s, .ok []) := by unfold delNodeLoop1; rw [hp]; rfl
    rw [this, filter_in_eq_self hp]
    apply OkP_pure
    apply base
    intro p x hpn _
    have := tk_mem_preds.2 hpn; rw [hp] at this; cases this
  · have hpn : (p, n) ∈ s.edgeList := tk_mem_preds.1 (by rw [hp]; exact List.mem_cons_self)
    rw [← filter_in_eq hF hpn]
    unfold delNodeLoop1
    rw [hp]
    simp only [List.foldl_cons, List.foldl_nil]
    refine OkP_thenPrim (Q := Stg s n s.edgeList) ?_ (fun st st' r h hk => Stg_pDelEdge h hk)
    by_cases hlen : (s.succs p).length = 2
    · simp only [hlen, beq_self_eq_true, if_true]
      have hnm : n ∈ s.succs p := tk_mem_succs.2 hpn
      cases hh : ((s.succs p).erase n).head? with
      | none =>
        have h1 := List.length_erase_of_mem hnm
        rw [List.head?_eq_none_iff] at hh
        rw [hh, hlen] at h1; simp at h1
      | some sib =>
        simp only []
        have hm := List.mem_of_head? hh
        rw [(hF.succs_nodup p).mem_erase_iff] at hm
        have hps : (p, sib) ∈ s.edgeList := tk_mem_succs.1 hm.2
        refine OkP_thenPrim (Q := fun st => st = s) (OkP_pure _ rfl) ?_
        intro st st' r hst hk
        subst hst
        split at hk
        · rename_i tp htp
          exact Stg_relabel hV hpn hps hm.1 htp hk
        · cases hk
    · have hb : ((s.succs p).length == 2) = false := by simpa using hlen
      simp only [hb, Bool.false_eq_true, if_false]
      apply OkP_pure
      apply base
      rintro p' x hp' ⟨q, sib, hqn, hqs, hne, _⟩
      have := hF.par_unique hqn hpn; subst this
      exact hlen (outdeg_two hF hqs hqn hne)

theorem succs_filter_in {s st : St} (hF : s.Forest) {n : Node}
    (h : st.edgeList = s.edgeList.filter (fun e => e.2 != n)) : st.succs n = s.succs n := by
  rw [succs_eq, succs_eq, h, List.filter_filter]
  congr 1
  apply List.filter_congr
  intro e he
  by_cases h1 : e.1 = n
  · have : e.2 ≠ n := by
      intro h2
      apply no_self_edge hF n
      have : e = (n, n) := Prod.ext h1 h2
      rw [← this]; exact he
    simp [h1, this]
  · simp [h1]

theorem foldl_delOut (n : Node) : ∀ (l : List Node) (es : List Edge),
    l.foldl (fun es c => es.filter (· != (n, c))) es =
      es.filter (fun e => !(e.1 == n && l.contains e.2)) := by
  intro l
  induction l with
  | nil => intro es; symm; show List.filter _ es = es; rw [List.filter_eq_self]; intro e _; simp
  | cons c l ih =>
    intro es
    rw [List.foldl_cons, ih, List.filter_filter]
    apply List.filter_congr
    intro e _
    obtain ⟨a, b⟩ := e
    show (!(a == n && l.contains b) && ((a, b) != (n, c))) = !(a == n && (c :: l).contains b)
    by_cases h1 : a = n
    · subst h1
      by_cases h2 : b = c
      · subst h2; simp
      · have e2 : (b == c) = false := by simpa using h2
        have e3 : ((a, b) != (a, c)) = true := by simp [h2]
        rw [e3, List.contains_cons, e2]; simp
    · have e1 : (a == n) = false := by simpa using h1
      have e3 : ((a, b) != (n, c)) = true := by simp [h1]
      rw [e1, e3]; simp

theorem loop2_gen {s : St} {n : Node} : ∀ (l : List Node) (es : List Edge) (a : UOut),
    OkP (Stg s n es) a →
    OkP (Stg s n (l.foldl (fun es c => es.filter (· != (n, c))) es))
      (l.foldl (fun acc c => thenPrim acc (fun st => st.pDelEdge (n, c))) a) := by
  intro l
  induction l with
  | nil => intro es a h; exact h
  | cons c l ih =>
    intro es a h
    rw [List.foldl_cons, List.foldl_cons]
    exact ih _ _ (OkP_thenPrim h (fun st st' r h hk => Stg_pDelEdge h hk))

/-- the edge list of the middle state -/
def midE (s : St) (n : Node) : List Edge := s.edgeList.filter (fun e => e.1 != n && e.2 != n)

theorem midE_eq {s : St} (n : Node) :
    (s.succs n).foldl (fun es c => es.filter (· != (n, c))) (s.edgeList.filter (fun e => e.2 != n))
      = midE s n := by
  rw [foldl_delOut, List.filter_filter]
  unfold midE
  apply List.filter_congr
  intro e he
  show (!(e.1 == n && (s.succs n).contains e.2) && (e.2 != n)) = (e.1 != n && e.2 != n)
  by_cases h1 : e.1 = n
  · have : (s.succs n).contains e.2 = true := by
      rw [List.contains_iff_mem]
      apply tk_mem_succs.2
      rw [← h1]; exact he
    rw [this, h1]; simp
  · have e1 : (e.1 == n) = false := by simpa using h1
    have e2 : (e.1 != n) = true := by simpa using h1
    rw [e1, e2]; simp

/-- the middle state (all edges at `n` removed, sibling relabelled) -/
theorem mid_stg {s : St} (hV : s.Valid) (n : Node) :
    OkP (Stg s n (midE s n)) (delNodeMid s n) := by
  have h1 := loop1_stg hV n
  unfold delNodeMid delNodeLoop2
  intro r hr
  -- the successors are read in the state after loop 1
  cases h2 : (delNodeLoop1 s n).2 with
  | error e =>
    -- errors propagate through loop 2
    have : ∀ (l : List Node) (a : UOut), a.2 = .error e →
        (l.foldl (fun acc c => thenPrim acc (fun st => st.pDelEdge (n, c))) a).2 = .error e := by
      intro l
      induction l with
      | nil => intro a h; exact h
      | cons c l ih => intro a h; rw [List.foldl_cons]; apply ih; rw [thenPrim_err h]
    rw [this _ _ h2] at hr; cases hr
  | ok r1 =>
    have hs1 := h1 r1 h2
    have hsucc := succs_filter_in hV.forest hs1.es
    rw [hsucc] at hr ⊢
    have := loop2_gen (s := s) (n := n) (s.succs n) _ _ h1 r hr
    rw [midE_eq] at this
    exact this


/-! ### 5. stage B/C: the neighbour query and the bridging edge -/

theorem Stg_trackNeighbors {s : St} {n : Node} {es : List Edge} {st : St} (tid time : Nat)
    (h : Stg s n es st) : Stg s n es (st.trackNeighbors tid time).1 := by
  obtain ⟨h0, hwf, hib⟩ := PC.trackNeighbors_state st tid time
  generalize (st.trackNeighbors tid time).1 = st' at h0 hwf hib
  have hn : st'.nodes = st.nodes := by rw [h0]
  have he : st'.edges = st.edges := by rw [h0]
  have hl2 : st'.l2n = st.l2n := by rw [h0]
  have hmt : st'.maxTid = st.maxTid := by rw [h0]
  have hml : st'.maxLin = st.maxLin := by rw [h0]
  have hon : st'.linOn = st.linOn := by rw [h0]
  have hids : st'.ids = st.ids := PC.ids_of_nodes hn
  have hel : st'.edgeList = st.edgeList := by unfold edgeList; rw [he]
  refine ⟨⟨PC.Forest_congr hids he (PC.timeOf_of_nodes hn) h.inv.forest, ?_, ?_, ?_⟩, ?_, ?_, ?_, ?_, ?_, ?_, ?_⟩
  · refine ⟨hwf h.inv.tok.wf, ?_, ?_⟩
    · intro id x
      rw [hib, hids, PC.tidOf_of_nodes hn]; exact h.inv.tok.iff id x
    · intro x t; rw [PC.tidOf_of_nodes hn, hmt]; exact h.inv.tok.max x t
  · exact PC.LOK_congr hids (PC.linOf_of_nodes hn) hl2 hml hon h.inv.lok
  · intro e he'
    rw [hel] at he'
    rw [PC.linOf_of_nodes hn, PC.linOf_of_nodes hn]; exact h.inv.along e he'
  · unfold nt; rw [hn]; exact h.nt
  · rw [hel]; exact h.es
  · intro x; rw [PC.linOf_of_nodes hn]; exact h.lin x
  · rw [hml]; exact h.maxLin
  · rw [hon]; exact h.linOn
  · intro p x hp hx; rw [PC.tidOf_of_nodes hn]; exact h.tidIn p x hp hx
  · intro x hx; rw [PC.tidOf_of_nodes hn]; exact h.tidOut x hx

theorem mem_midE {s : St} {n : Node} {e : Edge} :
    e ∈ midE s n ↔ e ∈ s.edgeList ∧ e.1 ≠ n ∧ e.2 ≠ n := by
  unfold midE; simp [List.mem_filter]

theorem midE_no_in {s : St} (hF : s.Forest) {n c : Node} (hc : (n, c) ∈ s.edgeList) :
    (midE s n).filter (·.2 == c) = [] := by
  rw [List.filter_eq_nil_iff]
  intro e he h2
  have h2' : e.2 = c := by simpa using h2
  obtain ⟨h1, h3, _⟩ := mem_midE.1 he
  exact h3 (hF.par_unique (c := c) (by rw [← h2']; exact h1) hc)

theorem midE_no_out {s : St} (hF : s.Forest) {n p : Node} (hp : (p, n) ∈ s.edgeList)
    (ho : s.outdeg p = 1) : (midE s n).filter (·.1 == p) = [] := by
  rw [List.filter_eq_nil_iff]
  intro e he h2
  have h2' : e.1 = p := by simpa using h2
  obtain ⟨h1, _, h3⟩ := mem_midE.1 he
  have : (p, e.2) ∈ s.edgeList := by rw [← h2']; exact h1
  have := outdeg_two hF this hp h3
  omega

/-- the bridging edge `pred → succ` -/
theorem Stg_bridge {s : St} (hV : s.Valid) {n p c : Node} {st st' : St} {r : PrimRec}
    (hp : (p, n) ∈ s.edgeList) (hop : s.outdeg p = 1) (hc : (n, c) ∈ s.edgeList)
    (h : Stg s n (midE s n) st) (hk : st.pAddEdge (p, c) [] = .ok (st', r)) :
    Stg s n (midE s n ++ [(p, c)]) st' := by
  have hF := hV.forest
  have hbv := PC.pAddEdge_BV hk
  have hin : st.indeg c = 0 := by rw [indeg_eq, h.es, midE_no_in hF hc]; rfl
  have hout : st.outdeg p ≤ 1 := by rw [outdeg_eq, h.es, midE_no_out hF hp hop]; simp
  have htm : St.tm st p < St.tm st c := by
    rw [tm_congr h.nt, tm_congr h.nt]
    have h1 := hF.tm_lt hp
    have h2 := hF.tm_lt hc
    unfold tk_tm at h1 h2; unfold St.tm; omega
  obtain ⟨hF', hG⟩ := pAddEdge_forest_G h.inv.forest hin hout htm hk
  have hes : st'.edgeList = midE s n ++ [(p, c)] := by rw [G_es' hG, h.es]
  refine ⟨⟨hF', hbv.TOK h.inv.tok, hbv.LOK h.inv.lok, ?_⟩, (G_nt' hG).trans h.nt, hes, ?_, ?_, ?_, ?_, ?_⟩
  · intro e he
    rw [hbv.linOf, hbv.linOf]
    rw [hes] at he
    rcases List.mem_append.1 he with he | he
    · exact h.inv.along e (by rw [h.es]; exact he)
    · simp only [List.mem_singleton] at he
      subst he
      show st.linOf c = st.linOf p
      rw [h.lin, h.lin, hV.lin.along _ hc, hV.lin.along _ hp]
  · intro x; rw [hbv.linOf]; exact h.lin x
  · rw [hbv.maxLin]; exact h.maxLin
  · rw [hbv.linOn]; exact h.linOn
  · intro q x hq hx; rw [hbv.tidOf]; exact h.tidIn q x hq hx
  · intro x hx; rw [hbv.tidOf]; exact h.tidOut x hx


/-! ### 6. stage D: the orphan relabel loop -/

/-- track-id side of `Stg` (what survives the orphan loop unchanged) -/
structure StgT (s : St) (n : Node) (es : List Edge) (st : St) : Prop where
  inv : PC.Inv st
  nt : st.nt = s.nt
  es : st.edgeList = es
  linOn : st.linOn = true
  tidIn : ∀ p x, (p, n) ∈ s.edgeList → SibSeg s n x → st.tidOf x = s.tidOf p
  tidOut : ∀ x, ¬ SibSeg s n x → st.tidOf x = s.tidOf x

theorem Stg.toT {s : St} {n : Node} {es : List Edge} {st : St} (h : Stg s n es st) :
    StgT s n es st := ⟨h.inv, h.nt, h.es, h.linOn, h.tidIn, h.tidOut⟩

/-- lineage side during the orphan loop: `P` = the roots that still share a lineage id with
    another root (the orphans not yet relabelled, and `n` itself); `tg` = all orphans that are relabelled -/
structure LinW (s : St) (tg : List Node) (st : St) (P : List Node) : Prop where
  has : ∀ x ∈ st.ids, (st.linOf x).isSome
  roots : ∀ a b, st.IsRoot a → st.IsRoot b → a ≠ b → st.linOf a = st.linOf b → a ∈ P ∨ b ∈ P
  frame : ∀ x, (∀ c ∈ tg, ¬ s.Anc c x) → st.linOf x = s.linOf x

theorem isRoot_congr {st st' : St} (h : tk_SameG st st') (a : Node) : st'.IsRoot a ↔ st.IsRoot a := by
  unfold IsRoot; rw [h.ids, h.edgeList]

theorem loop_step {s : St} (hF0 : s.Forest) {n c : Node} {tg P : List Node} {st st' : St} {r : PrimRec}
    (hT : StgT s n (midE s n) st) (hL : LinW s tg st (c :: P)) (hc : (n, c) ∈ s.edgeList)
    (hctg : c ∈ tg)
    (hk : (match st.tidOf c with
      | some t => st.pUpdTid c t (some st.nextLin)
      | none => .error .key) = .ok (st', r)) :
    StgT s n (midE s n) st' ∧ LinW s tg st' P := by
  split at hk
  · rename_i t ht
    obtain ⟨rec, hrec, hw⟩ := tk_pUpdTid_ok hk
    have htr : t = rec.tid := by
      have := tk_tidOf_of_findNode hrec; rw [ht] at this; cases this; rfl
    subst htr
    have hF := hT.inv.forest
    have hcm : c ∈ st.ids := tk_findNode_mem hrec
    have hwl := tk_walk_lin hF hcm hT.linOn rec.tid rec.tid rec.lin st.nextLin
    rw [← hw] at hwl
    have hG : tk_SameG st st' := by rw [hw]; exact tk_walk_sameG _ _ _ _ _ _
    have hGG := pUpdTid_G hk
    have hroot : ∀ q, (q, c) ∉ st.edgeList := by
      intro q hq
      rw [hT.es] at hq
      have : (q, c) ∈ (midE s n).filter (·.2 == c) := List.mem_filter.2 ⟨hq, by simp⟩
      rw [midE_no_in hF0 hc] at this; cases this
    have hnoanc : ∀ x, st.IsRoot x → x ≠ c → ¬ st.Anc c x := by
      intro x hx hxc hanc
      rcases hanc.tail with h | ⟨q, _, hq⟩
      · exact hxc h.symm
      · exact hx.2 q hq
    have hmaxb : ∀ x l, st.linOf x = some l → l ≤ st.maxLin := hT.inv.lok.max hT.linOn
    have hfresh : ∀ x, st.linOf x ≠ some st.nextLin := by
      intro x hx; have := hmaxb x _ hx; unfold nextLin at this; omega
    obtain ⟨hT', hL', hF', _⟩ := PC.pUpdTid_book hF hT.inv.tok hT.inv.lok hT.inv.along hk
    have htid : ∀ x, st'.tidOf x = st.tidOf x := by
      intro x; rw [hw]; exact tk_walk_tid_same _ _ _ _ _ _
    refine ⟨⟨⟨hF', hT', hL', ?_⟩, (G_nt hGG).trans hT.nt, (G_es hGG).trans hT.es, ?_, ?_, ?_⟩, ⟨?_, ?_, ?_⟩⟩
    · rintro ⟨u, v⟩ he
      rw [hG.edgeList] at he
      show st'.linOf v = st'.linOf u
      by_cases hu : st.Anc c u
      · rw [hwl.1 v (Anc.step _ u v hu he), hwl.1 u hu]
      · have hv : ¬ st.Anc c v := by
          intro hanc
          rcases hanc.tail with h | ⟨q, hq, hqv⟩
          · subst h; exact hroot u he
          · rw [hF.par_unique he hqv] at hu; exact hu hq
        rw [hwl.2.1 v hv, hwl.2.1 u hu]; exact hT.inv.along _ he
    · rw [hw, tk_walk_linOn]; exact hT.linOn
    · intro p x hp hx; rw [htid]; exact hT.tidIn p x hp hx
    · intro x hx; rw [htid]; exact hT.tidOut x hx
    · intro x hx
      rw [hG.ids] at hx
      by_cases ha : st.Anc c x
      · rw [hwl.1 x ha]; rfl
      · rw [hwl.2.1 x ha]; exact hL.has x hx
    · intro a b ha hb hab hlin
      rw [isRoot_congr hG] at ha hb
      by_cases hac : a = c
      · subst hac
        rw [hwl.1 a (Anc.refl a), hwl.2.1 b (hnoanc b hb (Ne.symm hab))] at hlin
        exact absurd hlin.symm (hfresh b)
      · by_cases hbc : b = c
        · subst hbc
          rw [hwl.1 b (Anc.refl b), hwl.2.1 a (hnoanc a ha hac)] at hlin
          exact absurd hlin (hfresh a)
        · rw [hwl.2.1 a (hnoanc a ha hac), hwl.2.1 b (hnoanc b hb hbc)] at hlin
          rcases hL.roots a b ha hb hab hlin with h | h
          · exact Or.inl ((List.mem_cons.1 h).resolve_left hac)
          · exact Or.inr ((List.mem_cons.1 h).resolve_left hbc)
    · intro x hx
      have : ¬ st.Anc c x := by
        intro hanc
        apply hx c hctg
        apply Anc.mono _ hanc
        intro e he; rw [hT.es] at he; exact (mem_midE.1 he).1
      rw [hwl.2.1 x this]; exact hL.frame x hx
  · cases hk

/-- the orphan loop over its relabel targets -/
theorem loop_gen {s : St} (hF0 : s.Forest) {n : Node} {tg0 : List Node} : ∀ (tg P : List Node) (a : UOut),
    (∀ c ∈ tg, (n, c) ∈ s.edgeList ∧ c ∈ tg0) →
    OkP (fun st => StgT s n (midE s n) st ∧ LinW s tg0 st (tg ++ P)) a →
    OkP (fun st => StgT s n (midE s n) st ∧ LinW s tg0 st P)
      (tg.foldl (fun acc c => thenPrim acc (fun st => match st.tidOf c with
        | some t => st.pUpdTid c t (some st.nextLin)
        | none => .error .key)) a) := by
  intro tg
  induction tg with
  | nil => intro P a _ h; exact h
  | cons c tg ih =>
    intro P a hc h
    rw [List.foldl_cons]
    apply ih P _ (fun c' hc' => hc c' (List.mem_cons_of_mem _ hc'))
    refine OkP_thenPrim h ?_
    intro st st' r hst hk
    exact loop_step hF0 hst.1 hst.2 (hc c List.mem_cons_self).1 (hc c List.mem_cons_self).2 hk

/-- the index test `has_pred or i > 0` selects all orphans, or all but the first -/
theorem loop_eq (hasPred : Bool) (f : Node → St → Except Err (St × PrimRec)) (a : UOut)
    (orphans : List Node) (hlen : orphans.length ≤ 2) :
    (List.zip (List.range orphans.length) orphans).foldl (fun acc io =>
        if hasPred || io.1 > 0 then thenPrim acc (f io.2) else acc) a
      = (if hasPred then orphans else orphans.tail).foldl (fun acc c => thenPrim acc (f c)) a := by
  match orphans, hlen with
  | [], _ => cases hasPred <;> rfl
  | [c], _ => cases hasPred <;> rfl
  | [c1, c2], _ => cases hasPred <;> rfl
  | _ :: _ :: _ :: _, h => simp at h

theorem mem_tail_of_two {α} {l : List α} {a b : α} (ha : a ∈ l) (hb : b ∈ l) (hab : a ≠ b) :
    a ∈ l.tail ∨ b ∈ l.tail := by
  match l, ha, hb with
  | [], ha, _ => cases ha
  | x :: t, ha, hb =>
    simp only [List.tail_cons]
    rcases List.mem_cons.1 ha with h1 | h1
    · rcases List.mem_cons.1 hb with h2 | h2
      · exact absurd (h1.trans h2.symm) hab
      · exact Or.inr h2
    · exact Or.inl h1

/-- a root of the middle graph other than `n` is an old root or a child of `n` -/
theorem mid_root {s : St} {n x : Node} (hx : ∀ q, (q, x) ∉ midE s n) (hxn : x ≠ n) :
    (∀ q, (q, x) ∉ s.edgeList) ∨ (n, x) ∈ s.edgeList := by
  by_cases h : (n, x) ∈ s.edgeList
  · exact Or.inr h
  · left
    intro q hq
    by_cases hqn : q = n
    · subst hqn; exact h hq
    · exact hx q (mem_midE.2 ⟨hq, hqn, hxn⟩)

/-- lineage side at the start of the orphan loop, no bridging edge -/
theorem linW_init {s : St} (hV : s.Valid) {n : Node} (hn : n ∈ s.ids) {st : St}
    (h : Stg s n (midE s n) st) (hasPred : Bool)
    (hhp : hasPred = true ↔ ∃ p, (p, n) ∈ s.edgeList) (tg : List Node) :
    LinW s tg st ((if hasPred then s.succs n else (s.succs n).tail) ++ [n]) := by
  have hF := hV.forest
  have hids := ids_of_nt h.nt
  refine ⟨?_, ?_, fun x _ => h.lin x⟩
  · intro x hx; rw [h.lin]; exact hV.lin.has x (hids ▸ hx)
  · intro a b ha hb hab hlin
    rw [h.lin, h.lin] at hlin
    by_cases han : a = n
    · exact Or.inl (List.mem_append_right _ (by simp [han]))
    by_cases hbn : b = n
    · exact Or.inr (List.mem_append_right _ (by simp [hbn]))
    have ha' := mid_root (fun q hq => ha.2 q (by rw [h.es]; exact hq)) han
    have hb' := mid_root (fun q hq => hb.2 q (by rw [h.es]; exact hq)) hbn
    have ham : a ∈ s.ids := hids ▸ ha.1
    have hbm : b ∈ s.ids := hids ▸ hb.1
    -- an orphan next to an old root
    have mixed : ∀ x y, (n, x) ∈ s.edgeList → (∀ q, (q, y) ∉ s.edgeList) → y ∈ s.ids → y ≠ n →
        s.linOf x = s.linOf y →
        x ∈ (if hasPred then s.succs n else (s.succs n).tail) := by
      intro x y hx hy hym hyn hl
      cases hpb : hasPred with
      | true => simp only [if_true]; exact tk_mem_succs.2 hx
      | false =>
        exfalso
        have hnr : s.IsRoot n := ⟨hn, fun p hp => by
          have := hhp.2 ⟨p, hp⟩; rw [hpb] at this; cases this⟩
        apply hV.lin.roots y n ⟨hym, hy⟩ hnr hyn
        rw [← hl]; exact hV.lin.along _ hx
    rcases ha' with ha' | ha' <;> rcases hb' with hb' | hb'
    · exact absurd hlin (hV.lin.roots a b ⟨ham, ha'⟩ ⟨hbm, hb'⟩ hab)
    · exact Or.inr (List.mem_append_left _ (mixed b a hb' ha' ham han hlin.symm))
    · exact Or.inl (List.mem_append_left _ (mixed a b ha' hb' hbm hbn hlin))
    · have h1 := tk_mem_succs.2 ha'
      have h2 := tk_mem_succs.2 hb'
      cases hasPred with
      | true => exact Or.inl (List.mem_append_left _ h1)
      | false =>
        rcases mem_tail_of_two h1 h2 hab with h3 | h3
        · exact Or.inl (List.mem_append_left _ h3)
        · exact Or.inr (List.mem_append_left _ h3)

/-- lineage side after the bridging edge: only `n` shares a lineage with another root -/
theorem linW_bridge {s : St} (hV : s.Valid) {n p c : Node} {st : St}
    (hc : (n, c) ∈ s.edgeList) (hon : s.outdeg n = 1)
    (h : Stg s n (midE s n ++ [(p, c)]) st) (tg : List Node) : LinW s tg st [n] := by
  have hF := hV.forest
  have hids := ids_of_nt h.nt
  refine ⟨?_, ?_, fun x _ => h.lin x⟩
  · intro x hx; rw [h.lin]; exact hV.lin.has x (hids ▸ hx)
  · intro a b ha hb hab hlin
    rw [h.lin, h.lin] at hlin
    by_cases han : a = n
    · exact Or.inl (by simp [han])
    by_cases hbn : b = n
    · exact Or.inr (by simp [hbn])
    exfalso
    have old : ∀ x, st.IsRoot x → x ≠ n → s.IsRoot x := by
      intro x hx hxn
      refine ⟨hids ▸ hx.1, ?_⟩
      rcases mid_root (s := s) (n := n) (x := x)
        (fun q hq => hx.2 q (by rw [h.es]; exact List.mem_append_left _ hq)) hxn with h1 | h1
      · exact h1
      · have := tk_child_unique hon h1 hc
        subst this
        exact (hx.2 p (by rw [h.es]; simp)).elim
    exact hV.lin.roots a b (old a ha han) (old b hb hbn) hab hlin


/-! ### 7. the final graph and `TidOK` -/

/-- the bridging edge list: `[(p, c)]` iff parent and `n` both do not divide -/
def Br (s : St) (n : Node) (b : List Edge) : Prop :=
  (b = [] ∧ ∀ p c, (p, n) ∈ s.edgeList → (n, c) ∈ s.edgeList → ¬ (s.outdeg p = 1 ∧ s.outdeg n = 1)) ∨
  (∃ p c, b = [(p, c)] ∧ (p, n) ∈ s.edgeList ∧ (n, c) ∈ s.edgeList ∧ s.outdeg p = 1 ∧ s.outdeg n = 1)

theorem noSib {s : St} (hF : s.Forest) {n p : Node} (hp : (p, n) ∈ s.edgeList)
    (ho : s.outdeg p = 1) (x : Node) : ¬ SibSeg s n x := by
  rintro ⟨q, sib, hqn, hqs, hne, _⟩
  have := hF.par_unique hqn hp; subst this
  have := outdeg_two hF hqs hqn hne
  omega

theorem Br.src {s : St} {n : Node} {b : List Edge} (hb : Br s n b) {e : Edge} (he : e ∈ b) :
    (e.1, n) ∈ s.edgeList ∧ (n, e.2) ∈ s.edgeList ∧ s.outdeg e.1 = 1 ∧ s.outdeg n = 1 := by
  rcases hb with ⟨h, _⟩ | ⟨p, c, h, h1, h2, h3, h4⟩
  · rw [h] at he; cases he
  · rw [h] at he; simp only [List.mem_singleton] at he; subst he; exact ⟨h1, h2, h3, h4⟩

theorem outdeg_final_eq {s F : St} {n : Node} {b : List Edge} (hb : Br s n b)
    (hes : F.edgeList = midE s n ++ b) {a : Node} (han : a ≠ n) (hpa : (a, n) ∉ s.edgeList) :
    F.outdeg a = s.outdeg a := by
  rw [outdeg_eq, outdeg_eq, hes, List.filter_append, List.length_append]
  have h1 : b.filter (·.1 == a) = [] := by
    rw [List.filter_eq_nil_iff]
    intro e he h2
    have h2' : e.1 = a := by simpa using h2
    exact hpa (h2' ▸ (hb.src he).1)
  have h2 : (midE s n).filter (·.1 == a) = s.edgeList.filter (·.1 == a) := by
    unfold midE
    rw [List.filter_filter]
    apply List.filter_congr
    intro e he
    show (e.1 == a && (e.1 != n && e.2 != n)) = (e.1 == a)
    by_cases h3 : e.1 = a
    · have e1 : (e.1 != n) = true := by rw [h3]; simpa using han
      have e2 : (e.2 != n) = true := by
        rw [bne_iff_ne]; intro h4; apply hpa
        have : e = (a, n) := Prod.ext h3 h4
        rw [← this]; exact he
      rw [e1, e2]; simp
    · have : (e.1 == a) = false := by simpa using h3
      rw [this]; simp
  rw [h1, h2]; simp

theorem outdeg_final_parent {s F : St} (hF : s.Forest) {n : Node} {b : List Edge} (hb : Br s n b)
    (hes : F.edgeList = midE s n ++ b) {p : Node} (hp : (p, n) ∈ s.edgeList) : F.outdeg p ≤ 1 := by
  rw [outdeg_eq, hes, List.filter_append, List.length_append]
  have h1 : ((midE s n).filter (·.1 == p)).length + 1 ≤ s.outdeg p := by
    rw [outdeg_eq]
    unfold midE
    rw [List.filter_filter]
    apply tk_filter_length_lt _ _ _ (p, n) (by simp) (by simp) _ hp
    intro x hx
    simp only [Bool.and_eq_true] at hx
    exact hx.1
  have h2 := hF.outdeg_le p
  rcases hb with ⟨h, _⟩ | ⟨p', c, h, hp', _, hop, _⟩
  · rw [h]; simp; omega
  · have := hF.par_unique hp' hp; subst this
    rw [h]
    have : ((midE s n).filter (·.1 == p')).length = 0 := by omega
    rw [this]
    exact Nat.le_trans (Nat.add_le_add_left (List.length_filter_le _ _) 0) (by simp)

theorem tidOK_final {s : St} (hV : s.Valid) {n : Node} (hn : n ∈ s.ids) {b : List Edge} {F : St}
    (hb : Br s n b)
    (hids : ∀ x, x ∈ F.ids ↔ x ∈ s.ids ∧ x ≠ n)
    (hes : F.edgeList = midE s n ++ b)
    (htin : ∀ p x, (p, n) ∈ s.edgeList → SibSeg s n x → F.tidOf x = s.tidOf p)
    (htout : ∀ x, x ≠ n → ¬ SibSeg s n x → F.tidOf x = s.tidOf x) : F.TidOK := by
  have hF := hV.forest
  have hTd := hV.tid
  have hO1 := fun a => outdeg_final_eq (a := a) hb hes
  have hO2 := fun p => outdeg_final_parent (p := p) hF hb hes
  have hnn : ∀ x, (n, x) ∈ s.edgeList → x ≠ n := fun x hx h => no_self_edge hF n (h ▸ hx)
  have hnn' : ∀ x, (x, n) ∈ s.edgeList → x ≠ n := fun x hx h => no_self_edge hF n (h ▸ hx)
  have childNoSib : ∀ a, (n, a) ∈ s.edgeList → ¬ SibSeg s n a := fun a ha h =>
    sibSeg_not_self hF (sibSeg_up hF h ha (no_self_edge hF n))
  refine ⟨?_, ?_⟩
  · rintro ⟨a, c⟩ he ho
    rw [hes] at he
    show F.tidOf c = F.tidOf a
    simp only at ho
    rcases List.mem_append.1 he with he | he
    · obtain ⟨hac, han, hcn⟩ := mem_midE.1 he
      simp only at hac han hcn
      by_cases hpa : (a, n) ∈ s.edgeList
      · have hsc : SibSeg s n c := ⟨a, c, hpa, hac, hcn, tk_SegDown.refl c⟩
        rw [htin a c hpa hsc, htout a han (sibSeg_not_parent hF hpa)]
      · rw [hO1 a han hpa] at ho
        by_cases hsa : SibSeg s n a
        · have hsa' := hsa
          obtain ⟨p, _, hp, _⟩ := hsa'
          rw [htin p c hp (sibSeg_step hsa hac ho), htin p a hp hsa]
        · have hsc : ¬ SibSeg s n c := fun h => hsa (sibSeg_up hF h hac hpa)
          rw [htout c hcn hsc, htout a han hsa]; exact hTd.along _ hac ho
    · obtain ⟨hp, hc, hop, hon⟩ := hb.src he
      simp only at hp hc hop
      rw [htout c (hnn c hc) (noSib hF hp hop c), htout a (hnn' a hp) (noSib hF hp hop a)]
      rw [hTd.along _ hc hon, hTd.along _ hp hop]
  · have key : ∀ a, F.IsHead a → ∃ a', s.IsHead a' ∧ s.tidOf a' = F.tidOf a ∧
        (a' = a ∨ (a' = n ∧ (n, a) ∈ s.edgeList ∧ s.outdeg n = 1)) := by
      intro a ha
      obtain ⟨ham, han⟩ := (hids a).1 ha.1
      by_cases hna : (n, a) ∈ s.edgeList
      · have hns := childNoSib a hna
        by_cases hon : s.outdeg n = 1
        · refine ⟨n, ⟨hn, fun q hq => ?_⟩, by rw [htout a han hns]; exact (hTd.along _ hna hon).symm,
            Or.inr ⟨rfl, hna, hon⟩⟩
          apply Classical.byContradiction
          intro hne
          have hoq : s.outdeg q = 1 := by
            have := tk_outdeg_pos hq; have := hF.outdeg_le q; omega
          rcases hb with ⟨_, h⟩ | ⟨p, c, h, hp, hc, _, _⟩
          · exact h q a hq hna ⟨hoq, hon⟩
          · have := hF.par_unique hp hq; subst this
            have := tk_child_unique hon hc hna; subst this
            have h1 := ha.2 p (by rw [hes, h]; simp)
            have := hO2 p hp
            omega
        · have ho2 : s.outdeg n = 2 := by
            have := tk_outdeg_pos hna; have := hF.outdeg_le n; omega
          exact ⟨a, isHead_of_div hF hna ho2, (htout a han hns).symm, Or.inl rfl⟩
      · have ahead : s.IsHead a := by
          refine ⟨ham, fun q hq => ?_⟩
          have hqn : q ≠ n := fun h => hna (h ▸ hq)
          have h1 := ha.2 q (by rw [hes]; exact List.mem_append_left _ (mem_midE.2 ⟨hq, hqn, han⟩))
          have hqp : (q, n) ∉ s.edgeList := fun h => by have := hO2 q h; omega
          rw [← hO1 q hqn hqp]; exact h1
        have hns : ¬ SibSeg s n a := by
          intro hsa
          obtain ⟨p, hpn, hpa, _⟩ := sibSeg_head hsa ahead
          have h1 := ha.2 p (by
            rw [hes]; exact List.mem_append_left _ (mem_midE.2 ⟨hpa, hnn' p hpn, han⟩))
          have := hO2 p hpn
          omega
        exact ⟨a, ahead, (htout a han hns).symm, Or.inl rfl⟩
    intro a c ha hc hac
    obtain ⟨a', ha1, ha2, ha3⟩ := key a ha
    obtain ⟨c', hc1, hc2, hc3⟩ := key c hc
    rw [← ha2, ← hc2]
    apply hTd.heads a' c' ha1 hc1
    have han := ((hids a).1 ha.1).2
    have hcn := ((hids c).1 hc.1).2
    rcases ha3 with rfl | ⟨rfl, h1, h2⟩ <;> rcases hc3 with rfl | ⟨rfl, h3, _⟩
    · exact hac
    · exact han
    · exact Ne.symm hcn
    · exact absurd (tk_child_unique h2 h1 h3) hac


/-! ### 8. stage E: `DeleteNode`, and the assembled post-condition -/

theorem trackOnDelete_proj (s : St) (r : NodeRec) :
    (s.trackOnDelete r).nodes = s.nodes ∧ (s.trackOnDelete r).linOn = s.linOn := by
  unfold trackOnDelete; simp only []; split <;> exact ⟨rfl, rfl⟩

theorem pDelNode_nodes {st F : St} {n : Node} {px : Option (List Pix)} {r : PrimRec}
    (hk : st.pDelNode n px = .ok (F, r)) :
    F.nodes = st.nodes.filter (·.id != n) ∧ F.linOn = st.linOn := by
  have key : ∀ pxs saved, (PC.delNodeTail (PC.paintNew st 0 pxs) n saved).nodes =
      st.nodes.filter (·.id != n) ∧ (PC.delNodeTail (PC.paintNew st 0 pxs) n saved).linOn = st.linOn := by
    intro pxs saved
    unfold PC.delNodeTail
    obtain ⟨h1, h2⟩ := trackOnDelete_proj (PC.delGraph (PC.paintNew st 0 pxs) n) saved
    obtain ⟨g1, _, _, _, _, _, g7⟩ := PC.paintNew_proj st 0 pxs
    rw [h1, h2]
    exact ⟨by show List.filter _ (PC.paintNew st 0 pxs).nodes = _; rw [g1], g7⟩
  rw [PC.pDelNode_unfold] at hk
  split at hk
  · cases hk
  · simp only [Except.ok.injEq, Prod.mk.injEq] at hk
    rw [← hk.1]
    exact key _ _

/-- the orphans whose subtree gets a fresh lineage id: all children of `n`, except the first one
    when `n` is a root (when both `n` and its parent do not divide nothing is relabelled at all) -/
def relTargets (s : St) (n : Node) : List Node :=
  if !(s.preds n).isEmpty then s.succs n else (s.succs n).tail

/-- what holds after an accepted `uDeleteNode s n` -/
structure Post (s : St) (n : Node) (F : St) : Prop where
  valid : F.Valid
  ids : ∀ x, x ∈ F.ids ↔ x ∈ s.ids ∧ x ≠ n
  time : ∀ x, x ≠ n → F.timeOf x = s.timeOf x
  edges : ∃ b, Br s n b ∧ F.edgeList = midE s n ++ b
  tidIn : ∀ p x, (p, n) ∈ s.edgeList → SibSeg s n x → F.tidOf x = s.tidOf p
  tidOut : ∀ x, x ≠ n → ¬ SibSeg s n x → F.tidOf x = s.tidOf x
  linOut : ∀ x, x ≠ n → (∀ c ∈ relTargets s n, ¬ s.Anc c x) → F.linOf x = s.linOf x

theorem post_of_delNode {s : St} (hV : s.Valid) {n : Node} (hn : n ∈ s.ids) {b : List Edge}
    (hb : Br s n b) {st F : St} {px : Option (List Pix)} {r : PrimRec}
    (hT : StgT s n (midE s n ++ b) st) (hL : LinW s (relTargets s n) st [n])
    (hk : st.pDelNode n px = .ok (F, r)) : Post s n F := by
  have hF := hV.forest
  obtain ⟨_, hG⟩ := pDelNode_G hk
  obtain ⟨hnodes, hon⟩ := pDelNode_nodes hk
  have hfind : ∀ m, F.findNode m = if m = n then none else st.findNode m := by
    intro m; unfold findNode; rw [hnodes]; exact PC.find_filter_ne st.nodes n m
  have htid : ∀ m, m ≠ n → F.tidOf m = st.tidOf m := by
    intro m hm; unfold tidOf; rw [hfind, if_neg hm]
  have hlin : ∀ m, m ≠ n → F.linOf m = st.linOf m := by
    intro m hm; unfold linOf; rw [hfind, if_neg hm]
  have htime : ∀ m, m ≠ n → F.timeOf m = st.timeOf m := by
    intro m hm; unfold timeOf; rw [hfind, if_neg hm]
  have hids0 : ∀ m, m ∈ F.ids ↔ m ∈ st.ids ∧ m ≠ n := by
    intro m
    rw [tk_mem_ids_iff, tk_mem_ids_iff, hfind]
    by_cases hm : m = n
    · simp [hm]
    · simp [hm]
  have hsti := ids_of_nt hT.nt
  have hids : ∀ m, m ∈ F.ids ↔ m ∈ s.ids ∧ m ≠ n := by intro m; rw [hids0, hsti]
  have hbn : ∀ e ∈ b, e.1 ≠ n ∧ e.2 ≠ n := by
    intro e he
    obtain ⟨h1, h2, _, _⟩ := hb.src he
    exact ⟨fun h => no_self_edge hF n (h ▸ h1), fun h => no_self_edge hF n (by rw [← h] at h2 ⊢; exact h2)⟩
  have hes0 : F.edgeList = st.edgeList := by
    rw [G_es' hG, List.filter_eq_self]
    intro e he
    rw [hT.es] at he
    rcases List.mem_append.1 he with he | he
    · obtain ⟨_, h1, h2⟩ := mem_midE.1 he; simp [h1, h2]
    · obtain ⟨h1, h2⟩ := hbn e he; simp [h1, h2]
  have hes : F.edgeList = midE s n ++ b := hes0.trans hT.es
  have hen : ∀ e ∈ F.edgeList, e.1 ≠ n ∧ e.2 ≠ n := by
    intro e he
    rw [hes] at he
    rcases List.mem_append.1 he with he | he
    · exact (mem_midE.1 he).2
    · exact hbn e he
  obtain ⟨hTOK, hLOK⟩ := PC.pDelNode_book hT.inv.tok hT.inv.lok hk
  have htin : ∀ p x, (p, n) ∈ s.edgeList → SibSeg s n x → F.tidOf x = s.tidOf p := by
    intro p x hp hx
    have hxn : x ≠ n := fun h => sibSeg_not_self hF (h ▸ hx)
    rw [htid x hxn]; exact hT.tidIn p x hp hx
  have htout : ∀ x, x ≠ n → ¬ SibSeg s n x → F.tidOf x = s.tidOf x := by
    intro x hxn hx; rw [htid x hxn]; exact hT.tidOut x hx
  have hroot : ∀ a, F.IsRoot a → st.IsRoot a ∧ a ≠ n := by
    intro a ha
    obtain ⟨h1, h2⟩ := (hids0 a).1 ha.1
    exact ⟨⟨h1, fun q hq => ha.2 q (hes0 ▸ hq)⟩, h2⟩
  refine ⟨⟨pDelNode_forest hT.inv.forest hk, tidOK_final hV hn hb hids hes htin htout, ⟨?_, ?_, ?_⟩,
    (PC.bookOK_iff F).2 ⟨hTOK, hLOK⟩, hon.trans hT.linOn⟩, hids, ?_, ⟨b, hb, hes⟩, htin, htout, ?_⟩
  · intro x hx
    obtain ⟨h1, h2⟩ := (hids0 x).1 hx
    rw [hlin x h2]; exact hL.has x h1
  · intro e he
    obtain ⟨h1, h2⟩ := hen e he
    rw [hlin _ h1, hlin _ h2]
    exact hT.inv.along e (hes0 ▸ he)
  · intro a c ha hc hac hl
    obtain ⟨ha1, ha2⟩ := hroot a ha
    obtain ⟨hc1, hc2⟩ := hroot c hc
    rw [hlin a ha2, hlin c hc2] at hl
    rcases hL.roots a c ha1 hc1 hac hl with h | h
    · exact ha2 (by simpa using h)
    · exact hc2 (by simpa using h)
  · intro x hx; rw [htime x hx]; exact timeOf_of_nt hT.nt x
  · intro x hxn hx; rw [hlin x hxn]; exact hL.frame x hx


/-! ### 9. assembly -/

theorem mid_tid_iff {s : St} (hV : s.Valid) {n : Node} {T : Nat} (hnT : s.tidOf n = some T)
    {st : St} (h : Stg s n (midE s n) st) (x : Node) :
    st.tidOf x = some T ↔ s.tidOf x = some T := by
  have hF := hV.forest
  by_cases hx : SibSeg s n x
  · have hx' := hx
    obtain ⟨p, sib, hpn, hps, hne, _⟩ := hx'
    rw [h.tidIn p x hpn hx]
    have h1 := parent_div_tid_ne hF hV.tid hpn (outdeg_two hF hps hpn hne)
    have h2 := sibSeg_tid_ne hF hV.tid hx
    rw [hnT] at h1 h2
    exact ⟨fun h => absurd h h1, fun h => absurd h h2⟩
  · rw [h.tidOut x hx]

theorem tail_post {s : St} (hV : s.Valid) {n : Node} (hn : n ∈ s.ids) {T : Nat}
    (hnT : s.tidOf n = some T) {a1 : UOut} (hst : Stg s n (midE s n) a1.1) (hasPred : Bool)
    (hhp0 : hasPred = !(s.preds n).isEmpty) (px : Option (List Pix)) :
    OkP (Post s n) (delNodeTail a1 (s.succs n) hasPred n px T (s.tk_tm n)) := by
  have hF := hV.forest
  have hhp : hasPred = true ↔ ∃ p, (p, n) ∈ s.edgeList := by
    rw [hhp0, Bool.not_eq_true', List.isEmpty_eq_false_iff_exists_mem]
    constructor
    · rintro ⟨p, hp⟩; exact ⟨p, tk_mem_preds.1 hp⟩
    · rintro ⟨p, hp⟩; exact ⟨p, tk_mem_preds.2 hp⟩
  have htg : relTargets s n = if hasPred then s.succs n else (s.succs n).tail := by
    unfold relTargets; rw [hhp0]
  have hnb := nbr_spec hF hV.tid hn hnT hst.nt hst.inv.tok (mid_tid_iff hV hnT hst)
  have hst2 := Stg_trackNeighbors T (s.tk_tm n) hst
  unfold delNodeTail
  simp only []
  generalize a1.1.trackNeighbors T (s.tk_tm n) = r at hnb hst2
  obtain ⟨st2, pr, sc⟩ := r
  simp only at hnb hst2
  obtain ⟨nb1, nb2, nb3, nb4⟩ := hnb
  have hlen : (s.succs n).length ≤ 2 := hF.outdeg_le n
  -- the branch without bridging edge
  have nobridge : (∀ p c, (p, n) ∈ s.edgeList → (n, c) ∈ s.edgeList →
        ¬ (s.outdeg p = 1 ∧ s.outdeg n = 1)) →
      OkP (Post s n) (thenPrim
        ((List.zip (List.range (s.succs n).length) (s.succs n)).foldl (fun acc io =>
          if hasPred || io.1 > 0 then
            thenPrim acc (fun st => match st.tidOf io.2 with
              | some t => st.pUpdTid io.2 t (some st.nextLin)
              | none => .error .key)
          else acc) (st2, a1.2)) (fun st => st.pDelNode n px)) := by
    intro hbr
    have hb : Br s n [] := Or.inl ⟨rfl, hbr⟩
    rw [loop_eq hasPred (fun c st => match st.tidOf c with
              | some t => st.pUpdTid c t (some st.nextLin)
              | none => .error .key) _ _ hlen]
    refine OkP_thenPrim (loop_gen (tg0 := relTargets s n) hF _ [n] (st2, a1.2) ?_
      (OkP_pure _ ⟨hst2.toT, linW_init hV hn hst2 hasPred hhp _⟩)) ?_
    · intro c hc
      refine ⟨?_, by rw [htg]; exact hc⟩
      apply tk_mem_succs.1
      cases hasPred
      · exact List.mem_of_mem_tail hc
      · exact hc
    · intro st st' r hq hk
      exact post_of_delNode hV hn hb (by rw [List.append_nil]; exact hq.1) hq.2 hk
  cases pr with
  | none =>
    cases sc <;> simp only [] <;> apply nobridge <;> intro p c hp _ hh <;>
      (have := nb2 rfl p hp; omega)
  | some p =>
    cases sc with
    | none =>
      simp only []
      apply nobridge
      intro p c _ _ hh
      exact nb4 rfl hh.2
    | some c =>
      simp only []
      obtain ⟨hp, hop⟩ := nb1 p rfl
      obtain ⟨hc, hon⟩ := nb3 c rfl
      have hsn : s.succs n = [c] := tk_eq_singleton_of_length_one hon (tk_mem_succs.2 hc)
      have hb : Br s n [(p, c)] := Or.inr ⟨p, c, rfl, hp, hc, hop, hon⟩
      rw [hsn]
      simp only [List.erase_cons_head, List.length_nil, List.range_zero, List.zip_nil_right,
        List.foldl_nil]
      refine OkP_thenPrim (Q := Stg s n (midE s n ++ [(p, c)]))
        (OkP_thenPrim (Q := Stg s n (midE s n)) (OkP_pure _ hst2)
          (fun st st' r h hk => Stg_bridge hV hp hop hc h hk)) ?_
      intro st st' r hq hk
      exact post_of_delNode hV hn hb hq.toT (linW_bridge hV hc hon hq _) hk

/-- **accepted `uDeleteNode` on a valid solution**: the post-condition bundle -/
theorem uDeleteNode_post {s : St} (hV : s.Valid) {n : Node} {px : Option (List Pix)}
    {recs : List PrimRec} (h : (s.uDeleteNode n px).2 = .ok recs) :
    n ∈ s.ids ∧ Post s n (s.uDeleteNode n px).1 := by
  have hF := hV.forest
  have hn : n ∈ s.ids := by
    rw [← hasNode_iff]
    cases hh : s.hasNode n with
    | true => rfl
    | false => rw [uDeleteNode_eq] at h; simp [hh] at h
  refine ⟨hn, ?_⟩
  revert recs
  change OkP (Post s n) (s.uDeleteNode n px)
  rw [uDeleteNode_eq]
  split
  · exact OkP_err _ _ _
  · simp only []
    split
    · exact OkP_err _ _ _
    · have hmid := mid_stg hV n
      unfold delNodeMid at hmid
      rename_i r0 h0
      have hs1 := loop1_stg hV n r0 h0
      have hsucc := succs_filter_in hF hs1.es
      obtain ⟨T, hnT⟩ : ∃ T, s.tidOf n = some T := by
        obtain ⟨r, hr⟩ := tk_mem_ids_iff.1 hn
        exact ⟨r.tid, tk_tidOf_of_findNode hr⟩
      split
      · exact OkP_err _ _ _
      · rename_i r1 tid time h1 htid htime
        have hst := hmid r1 h1
        have e1 : tid = T := by
          rw [hst.tidOut n (sibSeg_not_self hF), hnT] at htid; cases htid; rfl
        have e2 : time = s.tk_tm n := by
          rw [timeOf_of_nt hst.nt, mem_ids_tm hn] at htime; cases htime; rfl
        subst e1 e2
        rw [hsucc]
        exact tail_post hV hn hnT hst _ rfl px
      · exact OkP_err _ _ _


/-! ### 10. `Forest` alone: the same stages without the lineage side

`C03_step_deleteNode` assumes only `Forest`, `TidOK`, `BookOK` (no `LinOK`, lineage feature
possibly off), so the middle state is described once more with the track part only. -/

structure StgF (s : St) (n : Node) (es : List Edge) (st : St) : Prop where
  forest : st.Forest
  tok : PC.TOK st
  nt : st.nt = s.nt
  es : st.edgeList = es
  tidIn : ∀ p x, (p, n) ∈ s.edgeList → SibSeg s n x → st.tidOf x = s.tidOf p
  tidOut : ∀ x, ¬ SibSeg s n x → st.tidOf x = s.tidOf x

theorem StgF_pDelEdge {s : St} {n : Node} {es : List Edge} {st st' : St} {e : Edge} {r : PrimRec}
    (h : StgF s n es st) (hk : st.pDelEdge e = .ok (st', r)) : StgF s n (es.filter (· != e)) st' := by
  have hG := (pDelEdge_G hk).2
  have hbv := PC.pDelEdge_BV hk
  refine ⟨pDelEdge_forest h.forest hk, hbv.TOK h.tok, (G_nt' hG).trans h.nt, by rw [G_es' hG, h.es], ?_, ?_⟩
  · intro p x hp hx; rw [hbv.tidOf]; exact h.tidIn p x hp hx
  · intro x hx; rw [hbv.tidOf]; exact h.tidOut x hx

theorem StgF_relabel {s : St} (hF : s.Forest) (hTd : s.TidOK) (hTOK : PC.TOK s) {n p sib : Node}
    {tp : Nat} {st' : St} {r : PrimRec}
    (hpn : (p, n) ∈ s.edgeList) (hps : (p, sib) ∈ s.edgeList) (hne : sib ≠ n)
    (htp : s.tidOf p = some tp) (hk : s.pUpdTid sib tp none = .ok (st', r)) :
    StgF s n s.edgeList st' := by
  obtain ⟨rec, hrec, hw⟩ := tk_pUpdTid_ok hk
  have hsm : sib ∈ s.ids := hF.dst_mem _ hps
  have hG := pUpdTid_G hk
  have hwt := tk_walk_tid hF hsm rec.tid tp rec.lin none (tk_tidOf_of_findNode hrec)
    (hTd.chainHyp hF hsm (tk_tidOf_of_findNode hrec))
  refine ⟨forest_congr hG hF, by rw [hw]; exact PC.walk_TOK hF hTOK hsm _ _ _ _, G_nt hG, G_es hG, ?_, ?_⟩
  · intro p' x hp' hx
    have := hF.par_unique hp' hpn; subst this
    obtain ⟨q, sib', hqn, hqs, hne', hd⟩ := hx
    have := hF.par_unique hqn hpn; subst this
    have hss : sib' = sib := by
      rcases third_child hF hpn hps hqs hne.symm with h | h
      · exact absurd h hne'
      · exact h
    subst hss
    rw [hw, hwt.1 x hd, htp]
  · intro x hx
    rw [hw]
    apply hwt.2
    intro hd; exact hx ⟨p, sib, hpn, hps, hne, hd⟩

theorem loop1_stgF {s : St} (hF : s.Forest) (hTd : s.TidOK) (hTOK : PC.TOK s) (n : Node) :
    OkP (StgF s n (s.edgeList.filter (fun e => e.2 != n))) (delNodeLoop1 s n) := by
  have base : ∀ (hns : ∀ p x, (p, n) ∈ s.edgeList → SibSeg s n x → False), StgF s n s.edgeList s :=
    fun hns => ⟨hF, hTOK, rfl, rfl, fun p x hp hx => (hns p x hp hx).elim, fun _ _ => rfl⟩
  rcases preds_cases hF n with hp | ⟨p, hp⟩
  · have : delNodeLoop1 s n = (s, .ok []) := by unfold delNodeLoop1; rw [hp]; rfl
    rw [this, filter_in_eq_self hp]
    apply OkP_pure
    apply base
    intro p x hpn _
    have := tk_mem_preds.2 hpn; rw [hp] at this; cases this
  · have hpn : (p, n) ∈ s.edgeList := tk_mem_preds.1 (by rw [hp]; exact List.mem_cons_self)
    rw [← filter_in_eq hF hpn]
    unfold delNodeLoop1
    rw [hp]
    simp only [List.foldl_cons, List.foldl_nil]
    refine OkP_thenPrim (Q := StgF s n s.edgeList) ?_ (fun st st' r h hk => StgF_pDelEdge h hk)
    by_cases hlen : (s.succs p).length = 2
    · simp only [hlen, beq_self_eq_true, if_true]
      have hnm : n ∈ s.succs p := tk_mem_succs.2 hpn
      cases hh : ((s.succs p).erase n).head? with
      | none =>
        have h1 := List.length_erase_of_mem hnm
        rw [List.head?_eq_none_iff] at hh
        rw [hh, hlen] at h1; simp at h1
      | some sib =>
        simp only []
        have hm := List.mem_of_head? hh
        rw [(hF.succs_nodup p).mem_erase_iff] at hm
        have hps : (p, sib) ∈ s.edgeList := tk_mem_succs.1 hm.2
        refine OkP_thenPrim (Q := fun st => st = s) (OkP_pure _ rfl) ?_
        intro st st' r hst hk
        subst hst
        split at hk
        · rename_i tp htp
          exact StgF_relabel hF hTd hTOK hpn hps hm.1 htp hk
        · cases hk
    · have hb : ((s.succs p).length == 2) = false := by simpa using hlen
      simp only [hb, Bool.false_eq_true, if_false]
      apply OkP_pure
      apply base
      rintro p' x hp' ⟨q, sib, hqn, hqs, hne, _⟩
      have := hF.par_unique hqn hpn; subst this
      exact hlen (outdeg_two hF hqs hqn hne)

theorem loop2_genF {s : St} {n : Node} : ∀ (l : List Node) (es : List Edge) (a : UOut),
    OkP (StgF s n es) a →
    OkP (StgF s n (l.foldl (fun es c => es.filter (· != (n, c))) es))
      (l.foldl (fun acc c => thenPrim acc (fun st => st.pDelEdge (n, c))) a) := by
  intro l
  induction l with
  | nil => intro es a h; exact h
  | cons c l ih =>
    intro es a h
    rw [List.foldl_cons, List.foldl_cons]
    exact ih _ _ (OkP_thenPrim h (fun st st' r h hk => StgF_pDelEdge h hk))

theorem foldl_thenPrim_err {e : Err} (g : Node → St → Except Err (St × PrimRec)) :
    ∀ (l : List Node) (a : UOut), a.2 = .error e →
      (l.foldl (fun acc c => thenPrim acc (g c)) a).2 = .error e := by
  intro l
  induction l with
  | nil => intro a h; exact h
  | cons c l ih => intro a h; rw [List.foldl_cons]; apply ih; rw [thenPrim_err h]

theorem mid_stgF {s : St} (hF : s.Forest) (hTd : s.TidOK) (hTOK : PC.TOK s) (n : Node) :
    OkP (StgF s n (midE s n)) (delNodeMid s n) := by
  have h1 := loop1_stgF hF hTd hTOK n
  unfold delNodeMid delNodeLoop2
  intro r hr
  cases h2 : (delNodeLoop1 s n).2 with
  | error e =>
    rw [foldl_thenPrim_err (fun c st => st.pDelEdge (n, c)) _ _ h2] at hr; cases hr
  | ok r1 =>
    have hs1 := h1 r1 h2
    have hsucc := succs_filter_in hF hs1.es
    rw [hsucc] at hr ⊢
    have := loop2_genF (s := s) (n := n) (s.succs n) _ _ h1 r hr
    rw [midE_eq] at this
    exact this

theorem mid_tid_iffF {s : St} (hF : s.Forest) (hTd : s.TidOK) {n : Node} {T : Nat}
    (hnT : s.tidOf n = some T) {st : St} (h : StgF s n (midE s n) st) (x : Node) :
    st.tidOf x = some T ↔ s.tidOf x = some T := by
  by_cases hx : SibSeg s n x
  · have hx' := hx
    obtain ⟨p, sib, hpn, hps, hne, _⟩ := hx'
    rw [h.tidIn p x hpn hx]
    have h1 := parent_div_tid_ne hF hTd hpn (outdeg_two hF hps hpn hne)
    have h2 := sibSeg_tid_ne hF hTd hx
    rw [hnT] at h1 h2
    exact ⟨fun h => absurd h h1, fun h => absurd h h2⟩
  · rw [h.tidOut x hx]

/-- the neighbour condition of `C03_step_deleteNode_partial`, for an accepted middle state -/
theorem nbrOK_mid {s : St} (hF : s.Forest) (hTd : s.TidOK) {n : Node} (hn : n ∈ s.ids) {T : Nat}
    (hnT : s.tidOf n = some T) {st : St} (h : StgF s n (midE s n) st) (p sc : Node)
    (hp : (st.trackNeighbors T (s.tk_tm n)).2.1 = some p)
    (hsc : (st.trackNeighbors T (s.tk_tm n)).2.2 = some sc) :
    st.indeg sc = 0 ∧ st.outdeg p ≤ 1 := by
  obtain ⟨nb1, _, nb3, _⟩ := nbr_spec hF hTd hn hnT h.nt h.tok (mid_tid_iffF hF hTd hnT h)
  obtain ⟨h1, h2⟩ := nb1 p hp
  obtain ⟨h3, _⟩ := nb3 sc hsc
  refine ⟨?_, ?_⟩
  · rw [indeg_eq, h.es, midE_no_in hF h3]; rfl
  · rw [outdeg_eq, h.es, midE_no_out hF h1 h2]; simp

/-- **`Forest` through an accepted `uDeleteNode`** from `Forest`, `TidOK`, `BookOK` -/
theorem uDeleteNode_forest {s : St} (hF : s.Forest) (hTd : s.TidOK) (hB : s.BookOK) {n : Node}
    {px : Option (List Pix)} {recs : List PrimRec} (h : (s.uDeleteNode n px).2 = .ok recs) :
    (s.uDeleteNode n px).1.Forest := by
  have hTOK := ((PC.bookOK_iff s).1 hB).1
  have hn : n ∈ s.ids := by
    rw [← hasNode_iff]
    cases hh : s.hasNode n with
    | true => rfl
    | false => rw [uDeleteNode_eq] at h; simp [hh] at h
  revert recs
  change FOk (s.uDeleteNode n px)
  rw [uDeleteNode_eq]
  have err : ∀ (st : St) (e : Err), FOk (st, .error e) := fun _ e r h => by cases h
  split
  · exact err _ _
  · simp only []
    split
    · exact err _ _
    · have hmid := mid_stgF hF hTd hTOK n
      unfold delNodeMid at hmid
      obtain ⟨T, hnT⟩ : ∃ T, s.tidOf n = some T := by
        obtain ⟨r, hr⟩ := tk_mem_ids_iff.1 hn
        exact ⟨r.tid, tk_tidOf_of_findNode hr⟩
      split
      · exact err _ _
      · rename_i r1 tid time h1 htid htime
        have hst := hmid r1 h1
        have e1 : tid = T := by
          rw [hst.tidOut n (sibSeg_not_self hF), hnT] at htid; cases htid; rfl
        have e2 : time = s.tk_tm n := by
          rw [timeOf_of_nt hst.nt, mem_ids_tm hn] at htime; cases htime; rfl
        subst e1 e2
        exact delNodeTail_FOk hst.forest (fun p sc hp hsc => nbrOK_mid hF hTd hn hnT hst p sc hp hsc)
      · exact err _ _


/-! ### 11. the gap of `C03_step_deleteNode_partial`: `Forest ∧ TidOK ∧ BookOK → DelNbrOK`

`DelNbrOK` speaks about the state of `delNodeMid` whether or not it failed, so we also need
that the two edge loops cannot fail on a forest. -/

theorem thenPrim_isOk {a : UOut} {f : St → Except Err (St × PrimRec)} {r0 : List PrimRec}
    {s' : St} {r : PrimRec} (h0 : a.2 = .ok r0) (h1 : f a.1 = .ok (s', r)) :
    thenPrim a f = (s', .ok (r0 ++ [r])) := by
  unfold thenPrim; rw [h0]; simp only []; rw [h1]

theorem pUpdTid_isOk {s : St} {x : Node} (hx : x ∈ s.ids) (t : Nat) (l : Option Nat) :
    ∃ s' r, s.pUpdTid x t l = .ok (s', r) := by
  obtain ⟨rec, hrec⟩ := tk_mem_ids_iff.1 hx
  unfold pUpdTid; rw [hrec]; exact ⟨_, _, rfl⟩

theorem loop1_ok {s : St} (hF : s.Forest) (n : Node) :
    ∃ r, (delNodeLoop1 s n).2 = .ok r := by
  rcases preds_cases hF n with hp | ⟨p, hp⟩
  · exact ⟨[], by unfold delNodeLoop1; rw [hp]; rfl⟩
  · have hpn : (p, n) ∈ s.edgeList := tk_mem_preds.1 (by rw [hp]; exact List.mem_cons_self)
    unfold delNodeLoop1
    rw [hp]
    simp only [List.foldl_cons, List.foldl_nil]
    -- the accumulator before the `DeleteEdge`
    have fin : ∀ acc1 : UOut, (∃ r, acc1.2 = .ok r) → G acc1.1 = G s →
        ∃ r, (thenPrim acc1 (fun st => st.pDelEdge (p, n))).2 = .ok r := by
      intro acc1 ⟨r1, h1⟩ hG
      obtain ⟨s', r, hk⟩ := pDelEdge_isOk (s := acc1.1) (e := (p, n)) (by rw [G_es hG]; exact hpn)
      exact ⟨_, by rw [thenPrim_isOk h1 hk]⟩
    apply fin
    · split
      · split
        · rename_i sib hh
          have hm := List.mem_of_head? hh
          have hps : (p, sib) ∈ s.edgeList := tk_mem_succs.1 (List.mem_of_mem_erase hm)
          obtain ⟨rp, hrp⟩ := tk_mem_ids_iff.1 (hF.src_mem _ hpn)
          obtain ⟨s', r, hk⟩ := pUpdTid_isOk (hF.dst_mem _ hps) rp.tid none
          have hk' : (fun st : St => match st.tidOf p with
              | some t => st.pUpdTid sib t none
              | none => .error .key) (s, (Except.ok [] : Except Err (List PrimRec))).1 = .ok (s', r) := by
            show (match s.tidOf p with
              | some t => s.pUpdTid sib t none
              | none => .error .key) = .ok (s', r)
            rw [tk_tidOf_of_findNode hrp]; exact hk
          exact ⟨[] ++ [r], by rw [thenPrim_isOk (a := (s, .ok [])) rfl hk']⟩
        · exact ⟨[], rfl⟩
      · exact ⟨[], rfl⟩
    · split
      · split
        · exact thenPrim_G_pres (GPres_updTid_of _ _ _)
        · rfl
      · rfl

theorem loop2_ok (n : Node) : ∀ (l : List Node) (a : UOut), (∃ r, a.2 = .ok r) → l.Nodup →
    (∀ c ∈ l, (n, c) ∈ a.1.edgeList) →
    ∃ r, (l.foldl (fun acc c => thenPrim acc (fun st => st.pDelEdge (n, c))) a).2 = .ok r := by
  intro l
  induction l with
  | nil => intro a h _ _; exact h
  | cons c l ih =>
    intro a ⟨r0, h0⟩ hnd hmem
    rw [List.foldl_cons]
    obtain ⟨s', r, hk⟩ := pDelEdge_isOk (hmem c List.mem_cons_self)
    rw [thenPrim_isOk h0 hk]
    apply ih _ ⟨_, rfl⟩ (List.nodup_cons.1 hnd).2
    intro c' hc'
    show (n, c') ∈ s'.edgeList
    rw [G_es' (pDelEdge_G hk).2, List.mem_filter]
    refine ⟨hmem c' (List.mem_cons_of_mem _ hc'), ?_⟩
    have : c' ≠ c := fun h => (List.nodup_cons.1 hnd).1 (h ▸ hc')
    simp [this]

theorem mid_ok {s : St} (hF : s.Forest) (n : Node) : ∃ r, (delNodeMid s n).2 = .ok r := by
  obtain ⟨r1, h1⟩ := loop1_ok hF n
  have hFN := delNodeLoop1_FN n hF
  unfold delNodeMid delNodeLoop2
  apply loop2_ok n _ _ ⟨r1, h1⟩ (hFN.1.succs_nodup n)
  intro c hc; exact tk_mem_succs.1 hc

/-- **the gap of `C03_step_deleteNode_partial`** -/
theorem delNbrOK_of_book {s : St} (hF : s.Forest) (hTd : s.TidOK) (hB : s.BookOK) (n : Node) :
    DelNbrOK s n := by
  have hTOK := ((PC.bookOK_iff s).1 hB).1
  obtain ⟨r, hr⟩ := mid_ok hF n
  have hst := mid_stgF hF hTd hTOK n r hr
  unfold DelNbrOK
  simp only []
  split
  · rename_i tid time htid htime
    have hn : n ∈ s.ids := by
      rw [← ids_of_nt hst.nt]; exact tk_tidOf_some_mem htid
    obtain ⟨T, hnT⟩ : ∃ T, s.tidOf n = some T := by
      obtain ⟨r, hr⟩ := tk_mem_ids_iff.1 hn
      exact ⟨r.tid, tk_tidOf_of_findNode hr⟩
    have e1 : tid = T := by
      rw [hst.tidOut n (sibSeg_not_self hF), hnT] at htid; cases htid; rfl
    have e2 : time = s.tk_tm n := by
      rw [timeOf_of_nt hst.nt, mem_ids_tm hn] at htime; cases htime; rfl
    subst e1 e2
    split
    · rename_i p sc hp hsc
      exact nbrOK_mid hF hTd hn hnT hst p sc hp hsc
    · trivial
  · trivial

end Ft.R2C
