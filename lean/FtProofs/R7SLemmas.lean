/-
  FtProofs.R7SLemmas — helper lemmas for package R7S (construction of a Tracks / SolutionTracks
  object, model `FtModel/Construct.lean`).

  Part 1: association lists as Python dicts (`aset`, `amerge`, `dictOf`, `hasKey`).
  Part 2: views of a constructed object (`tableKeys`, `activeKeys`, `regKeys`) and how every
          primitive step of the construction changes them (activation, registration, special keys,
          the three bulk computations).
  Part 3: `enable`, `setupKey`, `setupCore`, `activateFromDict`: the invariant
          `RegInv S o` (registry = S ∪ active keys, every active key is an annotator key) and the
          special-key facts.
-/
import FtModel.Construct
import FtProofs.SessionSpec
namespace Ft.R7S
open Ft Ft.Construct List

/-! ## Part 1: dicts -/

theorem hasKey_iff {β} (k : Name) (d : List (Name × β)) : hasKey k d = true ↔ k ∈ keysOf d := by
  simp only [hasKey, keysOf, any_eq_true, mem_map, beq_iff_eq]

theorem hasKey_false_iff {β} (k : Name) (d : List (Name × β)) : hasKey k d = false ↔ k ∉ keysOf d := by
  rw [← hasKey_iff]; simp

theorem mem_keys_aset {β} (k k' : Name) (v : β) (d : List (Name × β)) :
    k' ∈ keysOf (aset k v d) ↔ k' = k ∨ k' ∈ keysOf d := by
  induction d with
  | nil => simp [aset, keysOf]
  | cons x r ih =>
    obtain ⟨a, b⟩ := x
    simp only [aset]
    by_cases h : a = k
    · subst h
      simp only [beq_self_eq_true, if_true, keysOf, map_cons, mem_cons]
      constructor
      · rintro (h | h)
        · exact Or.inl h
        · exact Or.inr (Or.inr h)
      · rintro (h | h | h)
        · exact Or.inl h
        · exact Or.inl h
        · exact Or.inr h
    · have hb : (a == k) = false := by simpa using h
      simp only [hb, Bool.false_eq_true, if_false, keysOf, map_cons, mem_cons]
      simp only [keysOf] at ih
      rw [ih]
      constructor
      · rintro (h | h | h)
        · exact Or.inr (Or.inl h)
        · exact Or.inl h
        · exact Or.inr (Or.inr h)
      · rintro (h | h | h)
        · exact Or.inr (Or.inl h)
        · exact Or.inl h
        · exact Or.inr (Or.inr h)

theorem mem_keys_foldl_aset {β} (ps : List (Name × β)) (acc : List (Name × β)) (k : Name) :
    k ∈ keysOf (ps.foldl (fun acc kv => aset kv.1 kv.2 acc) acc) ↔ k ∈ keysOf ps ∨ k ∈ keysOf acc := by
  induction ps generalizing acc with
  | nil => simp [keysOf]
  | cons x r ih =>
    simp only [foldl_cons]
    rw [ih, mem_keys_aset]
    simp only [keysOf, map_cons, mem_cons]
    constructor
    · rintro (h | h | h)
      · exact Or.inl (Or.inr h)
      · exact Or.inl (Or.inl h)
      · exact Or.inr h
    · rintro ((h | h) | h)
      · exact Or.inr (Or.inl h)
      · exact Or.inl h
      · exact Or.inr (Or.inr h)

theorem mem_keys_amerge {β} (new old : List (Name × β)) (k : Name) :
    k ∈ keysOf (amerge new old) ↔ k ∈ keysOf new ∨ k ∈ keysOf old :=
  mem_keys_foldl_aset new old k

theorem mem_keys_dictOf {β} (ps : List (Name × β)) (k : Name) :
    k ∈ keysOf (dictOf ps) ↔ k ∈ keysOf ps := by
  unfold dictOf
  rw [mem_keys_foldl_aset]
  simp [keysOf]

theorem alook_isSome_iff {β} (k : Name) (d : List (Name × β)) :
    (alook k d).isSome = true ↔ k ∈ keysOf d := by
  induction d with
  | nil => simp [alook, keysOf]
  | cons x r ih =>
    obtain ⟨a, b⟩ := x
    simp only [alook]
    by_cases h : a = k
    · subst h; simp [keysOf]
    · have hb : (a == k) = false := by simpa using h
      simp only [hb, Bool.false_eq_true, if_false, keysOf, map_cons, mem_cons]
      simp only [keysOf] at ih
      rw [ih]
      constructor
      · exact Or.inr
      · rintro (h' | h')
        · exact absurd h'.symm h
        · exact h'

theorem alook_some_of_mem {β} {k : Name} {d : List (Name × β)} (h : k ∈ keysOf d) :
    ∃ v, alook k d = some v := by
  have := (alook_isSome_iff k d).2 h
  exact Option.isSome_iff_exists.mp this

/-- the keys of a dict with the value column dropped are the keys -/
theorem keysOf_map_snd {β γ} (f : Name × β → γ) (d : List (Name × β)) :
    keysOf (d.map (fun kv => (kv.1, f kv))) = keysOf d := by
  simp [keysOf, Function.comp_def]

/-! ## Part 2: views -/

/-- keys some annotator can manage (`annotators.all_features` keys) -/
def tableKeys (o : COut) : List Name := (annTables o).flatMap (fun kt => keysOf kt.2)

def regKeys (o : COut) : List Name := keysOf o.reg

/-- position key(s) as a list -/
def posKeyList : PosKey → List Name
  | .none => []
  | .single k => [k]
  | .multi ks => ks

theorem mem_keys_allFeatures_aux (ts : List (AKind × Table)) (acc : Table) (k : Name) :
    k ∈ keysOf (ts.foldl (fun acc kt => amerge kt.2 acc) acc) ↔
      k ∈ ts.flatMap (fun kt => keysOf kt.2) ∨ k ∈ keysOf acc := by
  induction ts generalizing acc with
  | nil => simp
  | cons x r ih =>
    simp only [foldl_cons, flatMap_cons, mem_append]
    rw [ih, mem_keys_amerge]
    constructor
    · rintro (h | h | h)
      · exact Or.inl (Or.inr h)
      · exact Or.inl (Or.inl h)
      · exact Or.inr h
    · rintro ((h | h) | h)
      · exact Or.inr (Or.inl h)
      · exact Or.inl h
      · exact Or.inr (Or.inr h)

theorem mem_keys_allFeatures (o : COut) (k : Name) : k ∈ keysOf (allFeatures o) ↔ k ∈ tableKeys o := by
  unfold allFeatures tableKeys
  rw [mem_keys_allFeatures_aux]
  simp [keysOf]

theorem hasKey_allFeatures (o : COut) (k : Name) : hasKey k (allFeatures o) = true ↔ k ∈ tableKeys o := by
  rw [hasKey_iff, mem_keys_allFeatures]

/-- pointwise description of `GraphAnnotator.activate_features` -/
theorem activateTbl_eq (keys : List Name) (t : Table) :
    activateTbl keys t = t.map (fun e => (e.1, e.2.1, e.2.2 || keys.contains e.1)) := by
  unfold activateTbl
  induction keys generalizing t with
  | nil => simp
  | cons k r ih =>
    simp only [foldl_cons]
    rw [ih]
    simp only [map_map]
    apply map_congr_left
    intro e _
    simp only [Function.comp]
    by_cases h : e.1 = k
    · simp [h]
    · have hb : (e.1 == k) = false := by simpa using h
      simp [hb, h]

theorem keysOf_activateTbl (keys : List Name) (t : Table) : keysOf (activateTbl keys t) = keysOf t := by
  rw [activateTbl_eq]; simp [keysOf, Function.comp_def]

theorem annTables_mapTables (f : Table → Table) (o : COut) :
    annTables (mapTables f o) = (annTables o).map (fun kt => (kt.1, f kt.2)) := by
  unfold annTables mapTables
  cases o.rp <;> cases o.edge <;> cases o.track <;> simp

theorem tableKeys_mapTables_activate (keys : List Name) (o : COut) :
    tableKeys (mapTables (activateTbl keys) o) = tableKeys o := by
  unfold tableKeys
  rw [annTables_mapTables]
  simp only [flatMap_map]
  congr 1
  funext kt
  exact keysOf_activateTbl keys kt.2

theorem mem_activeKeys (o : COut) (k : Name) :
    k ∈ activeKeys o ↔ ∃ kt ∈ annTables o, ∃ e ∈ kt.2, e.2.2 = true ∧ e.1 = k := by
  unfold activeKeys
  simp only [mem_map, mem_flatMap, mem_filter]
  constructor
  · rintro ⟨e, ⟨kt, hkt, he, hf⟩, rfl⟩
    exact ⟨kt, hkt, e, he, hf, rfl⟩
  · rintro ⟨kt, hkt, e, he, hf, rfl⟩
    exact ⟨e, ⟨kt, hkt, he, hf⟩, rfl⟩

theorem mem_tableKeys (o : COut) (k : Name) :
    k ∈ tableKeys o ↔ ∃ kt ∈ annTables o, ∃ e ∈ kt.2, e.1 = k := by
  unfold tableKeys
  simp only [mem_flatMap, keysOf, mem_map]

theorem activeKeys_sub_tableKeys (o : COut) (k : Name) (h : k ∈ activeKeys o) : k ∈ tableKeys o := by
  rw [mem_activeKeys] at h
  rw [mem_tableKeys]
  obtain ⟨kt, hkt, e, he, _, hk⟩ := h
  exact ⟨kt, hkt, e, he, hk⟩

theorem mem_activeKeys_activate (keys : List Name) (o : COut) (k : Name) :
    k ∈ activeKeys (mapTables (activateTbl keys) o) ↔
      k ∈ activeKeys o ∨ (k ∈ keys ∧ k ∈ tableKeys o) := by
  rw [mem_activeKeys, mem_activeKeys, mem_tableKeys, annTables_mapTables]
  simp only [mem_map]
  constructor
  · rintro ⟨kt', ⟨kt, hkt, rfl⟩, e', he', hf, rfl⟩
    simp only [activateTbl_eq, mem_map] at he'
    obtain ⟨e, he, rfl⟩ := he'
    simp only [Bool.or_eq_true, contains_eq_mem, decide_eq_true_eq] at hf
    rcases hf with hf | hf
    · exact Or.inl ⟨kt, hkt, e, he, hf, rfl⟩
    · exact Or.inr ⟨hf, kt, hkt, e, he, rfl⟩
  · rintro (⟨kt, hkt, e, he, hf, rfl⟩ | ⟨hk, kt, hkt, e, he, rfl⟩)
    · refine ⟨(kt.1, activateTbl keys kt.2), ⟨kt, hkt, rfl⟩, (e.1, e.2.1, e.2.2 || keys.contains e.1), ?_, ?_, rfl⟩
      · simp only [activateTbl_eq, mem_map]; exact ⟨e, he, rfl⟩
      · simp [hf]
    · refine ⟨(kt.1, activateTbl keys kt.2), ⟨kt, hkt, rfl⟩, (e.1, e.2.1, e.2.2 || keys.contains e.1), ?_, ?_, rfl⟩
      · simp only [activateTbl_eq, mem_map]; exact ⟨e, he, rfl⟩
      · simp [hk]


/-! ### frames: what each primitive step can change -/

/-- the part of the TrackAnnotator the registry logic looks at -/
def trackSkel (o : COut) : Option (Name × Name × Table) := o.track.map (fun a => (a.tKey, a.lKey, a.table))

theorem annTables_congr {o o' : COut} (h1 : o'.rp = o.rp) (h2 : o'.edge = o.edge)
    (h3 : trackSkel o' = trackSkel o) : annTables o' = annTables o := by
  unfold annTables
  rw [h1, h2]
  congr 1
  unfold trackSkel at h3
  cases h : o'.track <;> cases h' : o.track <;> simp [h, h'] at h3 ⊢
  exact h3.2.2

theorem tableKeys_congr {o o' : COut} (h : annTables o' = annTables o) : tableKeys o' = tableKeys o := by
  unfold tableKeys; rw [h]

theorem activeKeys_congr {o o' : COut} (h : annTables o' = annTables o) : activeKeys o' = activeKeys o := by
  unfold activeKeys; rw [h]

theorem allFeatures_congr {o o' : COut} (h : annTables o' = annTables o) : allFeatures o' = allFeatures o := by
  unfold allFeatures; rw [h]

theorem rpCompute_frame (o : COut) (keys : List Name) :
    rpCompute o keys = { o with nodes := (rpCompute o keys).nodes, computed := (rpCompute o keys).computed } := by
  unfold rpCompute
  repeat (first | rfl | split | dsimp only)

theorem edgeCompute_frame (o : COut) (keys : List Name) :
    edgeCompute o keys = { o with computed := (edgeCompute o keys).computed } := by
  unfold edgeCompute
  repeat (first | rfl | split | dsimp only)

theorem trackCompute_frame (o : COut) (keys : List Name) :
    trackCompute o keys = { o with nodes := (trackCompute o keys).nodes,
                                   computed := (trackCompute o keys).computed,
                                   track := (trackCompute o keys).track } := by
  unfold trackCompute computeT computeL
  repeat (first | rfl | split | dsimp only)

def sk (a : TrackAnn) : Name × Name × Table := (a.tKey, a.lKey, a.table)

theorem trackCompute_some (o : COut) (keys : List Name) (a : TrackAnn) (h : o.track = some a) :
    trackCompute o keys =
      if (filterActive a.table keys).isEmpty then o else
      let p1 := if (filterActive a.table keys).contains a.tKey then computeT o a else (o, a)
      let p2 := if (filterActive a.table keys).contains a.lKey then computeL p1.1 p1.2 else p1
      { p2.1 with track := some p2.2 } := by
  unfold trackCompute; rw [h]

theorem trackCompute_none (o : COut) (keys : List Name) (h : o.track = none) : trackCompute o keys = o := by
  unfold trackCompute; rw [h]

theorem trackCompute_track (o : COut) (keys : List Name) :
    (o.track = none ∧ (trackCompute o keys).track = none) ∨
    (∃ a a', o.track = some a ∧ (trackCompute o keys).track = some a' ∧ sk a' = sk a) := by
  cases h : o.track with
  | none => left; exact ⟨rfl, by rw [trackCompute_none o keys h]; exact h⟩
  | some a =>
    right
    rw [trackCompute_some o keys a h]
    by_cases hE : (filterActive a.table keys).isEmpty = true
    · exact ⟨a, a, rfl, by rw [if_pos hE]; exact h, rfl⟩
    · rw [if_neg hE]
      refine ⟨a, _, rfl, rfl, ?_⟩
      have h1 : ∀ c : Bool, sk (if c = true then computeT o a else (o, a)).2 = sk a := by
        intro c; cases c <;> rfl
      have h2 : ∀ (c : Bool) (p : COut × TrackAnn), sk (if c = true then computeL p.1 p.2 else p).2 = sk p.2 := by
        intro c p; cases c <;> rfl
      show sk (if _ then computeL _ _ else _).2 = sk a
      rw [h2, h1]

theorem trackCompute_skel (o : COut) (keys : List Name) : trackSkel (trackCompute o keys) = trackSkel o := by
  unfold trackSkel
  rcases trackCompute_track o keys with ⟨h1, h2⟩ | ⟨a, a', h1, h2, h3⟩
  · rw [h1, h2]
  · rw [h1, h2]; simp only [Option.map_some]; exact congrArg some h3

theorem annTables_rpCompute (o : COut) (keys : List Name) : annTables (rpCompute o keys) = annTables o := by
  rw [rpCompute_frame]; rfl

theorem annTables_edgeCompute (o : COut) (keys : List Name) : annTables (edgeCompute o keys) = annTables o := by
  rw [edgeCompute_frame]; rfl

theorem annTables_trackCompute (o : COut) (keys : List Name) : annTables (trackCompute o keys) = annTables o := by
  apply annTables_congr
  · rw [trackCompute_frame]
  · rw [trackCompute_frame]
  · exact trackCompute_skel o keys

theorem annTables_computeAll (o : COut) (keys : List Name) : annTables (computeAll o keys) = annTables o := by
  unfold computeAll
  rw [annTables_trackCompute, annTables_edgeCompute, annTables_rpCompute]

/-- fields the bulk computations never touch -/
structure SameReg (o o' : COut) : Prop where
  solution : o'.solution = o.solution
  hasSeg : o'.hasSeg = o.hasSeg
  ndim : o'.ndim = o.ndim
  reg : o'.reg = o.reg
  timeKey : o'.timeKey = o.timeKey
  posKey : o'.posKey = o.posKey
  trackletKey : o'.trackletKey = o.trackletKey
  lineageKey : o'.lineageKey = o.lineageKey
  edges : o'.edges = o.edges

theorem SameReg.refl (o : COut) : SameReg o o := ⟨rfl, rfl, rfl, rfl, rfl, rfl, rfl, rfl, rfl⟩

theorem SameReg.trans {a b c : COut} (h1 : SameReg a b) (h2 : SameReg b c) : SameReg a c :=
  ⟨h2.solution.trans h1.solution, h2.hasSeg.trans h1.hasSeg, h2.ndim.trans h1.ndim, h2.reg.trans h1.reg,
   h2.timeKey.trans h1.timeKey, h2.posKey.trans h1.posKey, h2.trackletKey.trans h1.trackletKey,
   h2.lineageKey.trans h1.lineageKey, h2.edges.trans h1.edges⟩

theorem sameReg_rpCompute (o : COut) (keys : List Name) : SameReg o (rpCompute o keys) := by
  rw [rpCompute_frame]; exact ⟨rfl, rfl, rfl, rfl, rfl, rfl, rfl, rfl, rfl⟩

theorem sameReg_edgeCompute (o : COut) (keys : List Name) : SameReg o (edgeCompute o keys) := by
  rw [edgeCompute_frame]; exact ⟨rfl, rfl, rfl, rfl, rfl, rfl, rfl, rfl, rfl⟩

theorem sameReg_trackCompute (o : COut) (keys : List Name) : SameReg o (trackCompute o keys) := by
  rw [trackCompute_frame]; exact ⟨rfl, rfl, rfl, rfl, rfl, rfl, rfl, rfl, rfl⟩

theorem sameReg_computeAll (o : COut) (keys : List Name) : SameReg o (computeAll o keys) := by
  unfold computeAll
  exact ((sameReg_rpCompute o keys).trans (sameReg_edgeCompute _ keys)).trans (sameReg_trackCompute _ keys)

/-! ### registration -/

/-- one iteration of the registration loop -/
def register1 (st : COut) (k : Name) : COut :=
  if hasKey k st.reg then st else
  match alook k (allFeatures st) with
  | some fb => { st with reg := st.reg ++ [(k, fb.1)] }
  | none => st

theorem registerKeys_eq (o : COut) (keys : List Name) : registerKeys o keys = keys.foldl register1 o := rfl

/-- every field but `reg` agrees -/
structure EqExceptReg (o o' : COut) : Prop where
  solution : o'.solution = o.solution
  hasSeg : o'.hasSeg = o.hasSeg
  ndim : o'.ndim = o.ndim
  timeKey : o'.timeKey = o.timeKey
  posKey : o'.posKey = o.posKey
  trackletKey : o'.trackletKey = o.trackletKey
  lineageKey : o'.lineageKey = o.lineageKey
  rp : o'.rp = o.rp
  edge : o'.edge = o.edge
  track : o'.track = o.track
  nodes : o'.nodes = o.nodes
  edges : o'.edges = o.edges
  computed : o'.computed = o.computed

theorem EqExceptReg.refl (o : COut) : EqExceptReg o o := ⟨rfl, rfl, rfl, rfl, rfl, rfl, rfl, rfl, rfl, rfl, rfl, rfl, rfl⟩

theorem EqExceptReg.trans {a b c : COut} (h1 : EqExceptReg a b) (h2 : EqExceptReg b c) : EqExceptReg a c :=
  ⟨h2.solution.trans h1.solution, h2.hasSeg.trans h1.hasSeg, h2.ndim.trans h1.ndim,
   h2.timeKey.trans h1.timeKey, h2.posKey.trans h1.posKey, h2.trackletKey.trans h1.trackletKey,
   h2.lineageKey.trans h1.lineageKey, h2.rp.trans h1.rp, h2.edge.trans h1.edge, h2.track.trans h1.track,
   h2.nodes.trans h1.nodes, h2.edges.trans h1.edges, h2.computed.trans h1.computed⟩

theorem EqExceptReg.annTables {o o' : COut} (h : EqExceptReg o o') : annTables o' = annTables o :=
  annTables_congr h.rp h.edge (by unfold trackSkel; rw [h.track])

theorem register1_frame (o : COut) (k : Name) : EqExceptReg o (register1 o k) := by
  unfold register1
  split
  · exact EqExceptReg.refl o
  · split
    · exact ⟨rfl, rfl, rfl, rfl, rfl, rfl, rfl, rfl, rfl, rfl, rfl, rfl, rfl⟩
    · exact EqExceptReg.refl o

theorem mem_regKeys_register1 (o : COut) (k k' : Name) :
    k' ∈ regKeys (register1 o k) ↔ k' ∈ regKeys o ∨ (k' = k ∧ k ∈ tableKeys o) := by
  unfold register1 regKeys
  by_cases h : hasKey k o.reg = true
  · rw [if_pos h]
    constructor
    · exact Or.inl
    · rintro (h' | ⟨rfl, _⟩)
      · exact h'
      · exact (hasKey_iff _ _).1 h
  · rw [if_neg h]
    by_cases ht : k ∈ tableKeys o
    · obtain ⟨v, hv⟩ := alook_some_of_mem ((mem_keys_allFeatures o k).2 ht)
      rw [hv]
      simp only [keysOf, map_append, map_cons, map_nil, mem_append, mem_singleton]
      constructor
      · rintro (h' | h')
        · exact Or.inl h'
        · exact Or.inr ⟨h', ht⟩
      · rintro (h' | ⟨h', _⟩)
        · exact Or.inl h'
        · exact Or.inr h'
    · have hn : alook k (allFeatures o) = none := by
        cases hv : alook k (allFeatures o) with
        | none => rfl
        | some v =>
          exact absurd ((mem_keys_allFeatures o k).1 ((alook_isSome_iff _ _).1 (by rw [hv]; rfl))) ht
      rw [hn]
      constructor
      · exact Or.inl
      · rintro (h' | ⟨_, h'⟩)
        · exact h'
        · exact absurd h' ht

theorem registerKeys_frame (o : COut) (keys : List Name) : EqExceptReg o (registerKeys o keys) := by
  rw [registerKeys_eq]
  induction keys generalizing o with
  | nil => exact EqExceptReg.refl o
  | cons k r ih =>
    simp only [foldl_cons]
    exact (register1_frame o k).trans (ih (register1 o k))

theorem annTables_registerKeys (o : COut) (keys : List Name) : annTables (registerKeys o keys) = annTables o :=
  (registerKeys_frame o keys).annTables

theorem mem_regKeys_registerKeys (o : COut) (keys : List Name) (k' : Name) :
    k' ∈ regKeys (registerKeys o keys) ↔ k' ∈ regKeys o ∨ (k' ∈ keys ∧ k' ∈ tableKeys o) := by
  rw [registerKeys_eq]
  induction keys generalizing o with
  | nil => simp
  | cons k r ih =>
    simp only [foldl_cons]
    rw [ih (register1 o k), mem_regKeys_register1]
    have ht : tableKeys (register1 o k) = tableKeys o := tableKeys_congr (register1_frame o k).annTables
    rw [ht]
    simp only [mem_cons]
    constructor
    · rintro ((h | ⟨rfl, h⟩) | ⟨h1, h2⟩)
      · exact Or.inl h
      · exact Or.inr ⟨Or.inl rfl, h⟩
      · exact Or.inr ⟨Or.inr h1, h2⟩
    · rintro (h | ⟨rfl | h1, h2⟩)
      · exact Or.inl (Or.inl h)
      · exact Or.inl (Or.inr ⟨rfl, h2⟩)
      · exact Or.inr ⟨h1, h2⟩

/-! ### special keys -/

theorem setSpecial_frame (o : COut) (keys : List Name) :
    setSpecial o keys = { o with trackletKey := (setSpecial o keys).trackletKey,
                                 lineageKey := (setSpecial o keys).lineageKey } := by
  unfold setSpecial
  repeat (first | rfl | split | dsimp only)

theorem setSpecial_tracklet (o : COut) (keys : List Name) (a : TrackAnn) (ha : o.track = some a) :
    (setSpecial o keys).trackletKey = if keys.contains a.tKey then some a.tKey else o.trackletKey := by
  unfold setSpecial
  rw [ha]
  simp only
  repeat (first | rfl | split | dsimp only)

theorem setSpecial_lineage (o : COut) (keys : List Name) (a : TrackAnn) (ha : o.track = some a) :
    (setSpecial o keys).lineageKey = if keys.contains a.lKey then some a.lKey else o.lineageKey := by
  unfold setSpecial
  rw [ha]
  simp only
  repeat (first | rfl | split | dsimp only)

theorem setSpecial_none (o : COut) (keys : List Name) (ha : o.track = none) : setSpecial o keys = o := by
  unfold setSpecial; rw [ha]


/-! ## Part 3: `enable`, `setupKey`, `setupCore`, `activateFromDict` -/

/-- C10 on the constructed object: registry = static keys ∪ active annotator keys -/
def RegInv (S : List Name) (o : COut) : Prop := ∀ k, k ∈ regKeys o ↔ (k ∈ S ∨ k ∈ activeKeys o)

def trackKeys (o : COut) : Option (Name × Name) := o.track.map (fun a => (a.tKey, a.lKey))

def rpKey (o : COut) : Option Name := o.rp.map (·.1)

theorem trackKeys_of_skel {o o' : COut} (h : trackSkel o' = trackSkel o) : trackKeys o' = trackKeys o := by
  unfold trackSkel at h
  unfold trackKeys
  cases h1 : o'.track <;> cases h2 : o.track <;> simp [h1, h2] at h ⊢
  exact ⟨h.1, h.2.1⟩

/-- what a step that registers and activates the keys `ks` does to the object -/
structure Grow (o o' : COut) (ks : List Name) : Prop where
  tableKeys : tableKeys o' = tableKeys o
  reg : ∀ k, k ∈ regKeys o' ↔ k ∈ regKeys o ∨ k ∈ ks
  act : ∀ k, k ∈ activeKeys o' ↔ k ∈ activeKeys o ∨ k ∈ ks
  solution : o'.solution = o.solution
  hasSeg : o'.hasSeg = o.hasSeg
  ndim : o'.ndim = o.ndim
  edges : o'.edges = o.edges
  timeKey : o'.timeKey = o.timeKey
  posKey : o'.posKey = o.posKey
  trackKeys : trackKeys o' = trackKeys o
  rpKey : rpKey o' = rpKey o
  tracklet : o'.trackletKey = o.trackletKey ∨ ∃ a, o.track = some a ∧ a.tKey ∈ ks ∧ o'.trackletKey = some a.tKey
  lineage : o'.lineageKey = o.lineageKey ∨ ∃ a, o.track = some a ∧ a.lKey ∈ ks ∧ o'.lineageKey = some a.lKey

theorem Grow.refl (o : COut) : Grow o o [] :=
  ⟨rfl, by simp, by simp, rfl, rfl, rfl, rfl, rfl, rfl, rfl, rfl, Or.inl rfl, Or.inl rfl⟩

theorem trackKeys_some {o o' : COut} (h : trackKeys o' = trackKeys o) {a : TrackAnn} (ha : o.track = some a) :
    ∃ a', o'.track = some a' ∧ a'.tKey = a.tKey ∧ a'.lKey = a.lKey := by
  unfold trackKeys at h
  rw [ha] at h
  cases h' : o'.track with
  | none => rw [h'] at h; simp at h
  | some a' =>
    rw [h'] at h
    simp only [Option.map_some, Option.some.injEq, Prod.mk.injEq] at h
    exact ⟨a', rfl, h.1, h.2⟩

theorem trackKeys_some' {o o' : COut} (h : trackKeys o' = trackKeys o) {a' : TrackAnn} (ha : o'.track = some a') :
    ∃ a, o.track = some a ∧ a'.tKey = a.tKey ∧ a'.lKey = a.lKey := by
  obtain ⟨a, h1, h2, h3⟩ := trackKeys_some h.symm ha
  exact ⟨a, h1, h2.symm, h3.symm⟩

theorem Grow.trans {a b c : COut} {k1 k2 : List Name} (h1 : Grow a b k1) (h2 : Grow b c k2) :
    Grow a c (k1 ++ k2) where
  tableKeys := h2.tableKeys.trans h1.tableKeys
  reg := by
    intro k; rw [h2.reg, h1.reg, mem_append]
    constructor
    · rintro ((h | h) | h)
      · exact Or.inl h
      · exact Or.inr (Or.inl h)
      · exact Or.inr (Or.inr h)
    · rintro (h | h | h)
      · exact Or.inl (Or.inl h)
      · exact Or.inl (Or.inr h)
      · exact Or.inr h
  act := by
    intro k; rw [h2.act, h1.act, mem_append]
    constructor
    · rintro ((h | h) | h)
      · exact Or.inl h
      · exact Or.inr (Or.inl h)
      · exact Or.inr (Or.inr h)
    · rintro (h | h | h)
      · exact Or.inl (Or.inl h)
      · exact Or.inl (Or.inr h)
      · exact Or.inr h
  solution := h2.solution.trans h1.solution
  hasSeg := h2.hasSeg.trans h1.hasSeg
  ndim := h2.ndim.trans h1.ndim
  edges := h2.edges.trans h1.edges
  timeKey := h2.timeKey.trans h1.timeKey
  posKey := h2.posKey.trans h1.posKey
  trackKeys := h2.trackKeys.trans h1.trackKeys
  rpKey := h2.rpKey.trans h1.rpKey
  tracklet := by
    rcases h2.tracklet with e2 | ⟨a', ha', hk', e2⟩
    · rcases h1.tracklet with e1 | ⟨a0, ha0, hk0, e1⟩
      · exact Or.inl (e2.trans e1)
      · exact Or.inr ⟨a0, ha0, mem_append_left _ hk0, e2.trans e1⟩
    · obtain ⟨a0, ha0, ht, _⟩ := trackKeys_some' h1.trackKeys ha'
      exact Or.inr ⟨a0, ha0, mem_append_right _ (ht ▸ hk'), by rw [e2, ht]⟩
  lineage := by
    rcases h2.lineage with e2 | ⟨a', ha', hk', e2⟩
    · rcases h1.lineage with e1 | ⟨a0, ha0, hk0, e1⟩
      · exact Or.inl (e2.trans e1)
      · exact Or.inr ⟨a0, ha0, mem_append_left _ hk0, e2.trans e1⟩
    · obtain ⟨a0, ha0, _, hl⟩ := trackKeys_some' h1.trackKeys ha'
      exact Or.inr ⟨a0, ha0, mem_append_right _ (hl ▸ hk'), by rw [e2, hl]⟩

theorem Grow.regInv {o o' : COut} {ks S : List Name} (h : Grow o o' ks) (hr : RegInv S o) : RegInv S o' := by
  intro k
  rw [h.reg, h.act, hr k]
  constructor
  · rintro ((h | h) | h)
    · exact Or.inl h
    · exact Or.inr (Or.inl h)
    · exact Or.inr (Or.inr h)
  · rintro (h | h | h)
    · exact Or.inl (Or.inl h)
    · exact Or.inl (Or.inr h)
    · exact Or.inr h

/-! ### activation -/

theorem activate_eq_some_iff (o o' : COut) (keys : List Name) :
    activate o keys = some o' ↔ (∀ k ∈ keys, k ∈ tableKeys o) ∧ o' = mapTables (activateTbl keys) o := by
  unfold activate
  by_cases h : keys.any (fun k => !(hasKey k (allFeatures o))) = true
  · rw [if_pos h]
    simp only [any_eq_true, Bool.not_eq_true'] at h
    obtain ⟨k, hk, hn⟩ := h
    constructor
    · intro h'; cases h'
    · rintro ⟨h', _⟩
      have := (hasKey_allFeatures o k).2 (h' k hk)
      rw [this] at hn; cases hn
  · rw [if_neg h]
    have hall : ∀ k ∈ keys, k ∈ tableKeys o := by
      intro k hk
      rw [← hasKey_allFeatures]
      cases hv : hasKey k (allFeatures o) with
      | true => rfl
      | false => exact absurd (any_eq_true.2 ⟨k, hk, by simp [hv]⟩) h
    constructor
    · intro h'; injection h' with h'; exact ⟨hall, h'.symm⟩
    · rintro ⟨_, h'⟩; rw [h']

theorem activate_eq_none_iff (o : COut) (keys : List Name) :
    activate o keys = none ↔ ∃ k ∈ keys, k ∉ tableKeys o := by
  constructor
  · intro h
    apply Classical.byContradiction
    intro hn
    have hall : ∀ k ∈ keys, k ∈ tableKeys o := by
      intro k hk
      apply Classical.byContradiction
      intro hk'
      exact hn ⟨k, hk, hk'⟩
    have := (activate_eq_some_iff o _ keys).2 ⟨hall, rfl⟩
    rw [h] at this; cases this
  · rintro ⟨k, hk, hn⟩
    cases h : activate o keys with
    | none => rfl
    | some o' => exact absurd (((activate_eq_some_iff o o' keys).1 h).1 k hk) hn

/-- the activation step, as a `Grow` without registration -/
structure ActOnly (o o' : COut) (ks : List Name) : Prop where
  tabKeys : tableKeys o' = tableKeys o
  act : ∀ k, k ∈ activeKeys o' ↔ k ∈ activeKeys o ∨ (k ∈ ks ∧ k ∈ tableKeys o)
  same : SameReg o o'
  trackKeys : trackKeys o' = trackKeys o
  rpKey : rpKey o' = rpKey o
  nodes : o'.nodes = o.nodes
  computed : o'.computed = o.computed

theorem mapTables_activate_actOnly (o : COut) (ks : List Name) :
    ActOnly o (mapTables (activateTbl ks) o) ks where
  tabKeys := tableKeys_mapTables_activate ks o
  act := mem_activeKeys_activate ks o
  same := ⟨rfl, rfl, rfl, rfl, rfl, rfl, rfl, rfl, rfl⟩
  trackKeys := by
    unfold trackKeys mapTables
    cases o.track <;> rfl
  rpKey := by
    unfold rpKey mapTables
    cases o.rp <;> rfl
  nodes := rfl
  computed := rfl

/-! ### `enable_features` -/

/-- everything `enable_features` does before the optional recomputation -/
def enableCore (o : COut) (keys : List Name) : COut :=
  setSpecial (registerKeys (mapTables (activateTbl keys) o) keys) keys

theorem enable_eq_some_iff (o o' : COut) (keys : List Name) (rc : Bool) :
    enable o keys rc = some o' ↔
      (∀ k ∈ keys, k ∈ tableKeys o) ∧
      o' = (if rc then computeAll (enableCore o keys) keys else enableCore o keys) := by
  unfold enable enableCore
  cases h : activate o keys with
  | none =>
    obtain ⟨k, hk, hn⟩ := (activate_eq_none_iff o keys).1 h
    simp only
    constructor
    · intro h'; cases h'
    · rintro ⟨h', _⟩; exact absurd (h' k hk) hn
  | some o1 =>
    obtain ⟨hall, rfl⟩ := (activate_eq_some_iff o o1 keys).1 h
    simp only [Option.some.injEq]
    constructor
    · intro h'; exact ⟨hall, h'.symm⟩
    · rintro ⟨_, h'⟩; exact h'.symm

theorem enable_eq_none_iff (o : COut) (keys : List Name) (rc : Bool) :
    enable o keys rc = none ↔ ∃ k ∈ keys, k ∉ tableKeys o := by
  rw [← activate_eq_none_iff]
  unfold enable
  cases h : activate o keys <;> simp

theorem annTables_setSpecial (o : COut) (keys : List Name) : annTables (setSpecial o keys) = annTables o := by
  rw [setSpecial_frame]; rfl

theorem trackKeys_computeAll (o : COut) (keys : List Name) : trackKeys (computeAll o keys) = trackKeys o := by
  unfold computeAll
  have h1 : trackKeys (trackCompute (edgeCompute (rpCompute o keys) keys) keys) =
      trackKeys (edgeCompute (rpCompute o keys) keys) := trackKeys_of_skel (trackCompute_skel _ _)
  rw [h1, edgeCompute_frame, rpCompute_frame]
  rfl

theorem rpKey_computeAll (o : COut) (keys : List Name) : rpKey (computeAll o keys) = rpKey o := by
  unfold computeAll rpKey
  rw [trackCompute_frame, edgeCompute_frame, rpCompute_frame]

theorem enableCore_grow (o : COut) (keys : List Name) (hall : ∀ k ∈ keys, k ∈ tableKeys o) :
    Grow o (enableCore o keys) keys := by
  have hA := mapTables_activate_actOnly o keys
  have hR := registerKeys_frame (mapTables (activateTbl keys) o) keys
  have hT : annTables (enableCore o keys) = annTables (mapTables (activateTbl keys) o) := by
    unfold enableCore; rw [annTables_setSpecial, annTables_registerKeys]
  have hreg : (enableCore o keys).reg = (registerKeys (mapTables (activateTbl keys) o) keys).reg := by
    unfold enableCore; rw [setSpecial_frame]
  have htrack : (registerKeys (mapTables (activateTbl keys) o) keys).track = (mapTables (activateTbl keys) o).track :=
    hR.track
  refine
    { tableKeys := (tableKeys_congr hT).trans hA.tabKeys
      reg := ?_
      act := ?_
      solution := by unfold enableCore; rw [setSpecial_frame]; exact hR.solution
      hasSeg := by unfold enableCore; rw [setSpecial_frame]; exact hR.hasSeg
      ndim := by unfold enableCore; rw [setSpecial_frame]; exact hR.ndim
      edges := by unfold enableCore; rw [setSpecial_frame]; exact hR.edges
      timeKey := by unfold enableCore; rw [setSpecial_frame]; exact hR.timeKey
      posKey := by unfold enableCore; rw [setSpecial_frame]; exact hR.posKey
      trackKeys := ?_
      rpKey := ?_
      tracklet := ?_
      lineage := ?_ }
  · intro k
    unfold regKeys
    rw [hreg]
    have := mem_regKeys_registerKeys (mapTables (activateTbl keys) o) keys k
    unfold regKeys at this
    rw [this, hA.tabKeys]
    constructor
    · rintro (h | ⟨h, _⟩)
      · exact Or.inl h
      · exact Or.inr h
    · rintro (h | h)
      · exact Or.inl h
      · exact Or.inr ⟨h, hall k h⟩
  · intro k
    rw [activeKeys_congr hT, hA.act]
    constructor
    · rintro (h | ⟨h, _⟩)
      · exact Or.inl h
      · exact Or.inr h
    · rintro (h | h)
      · exact Or.inl h
      · exact Or.inr ⟨h, hall k h⟩
  · have : trackKeys (enableCore o keys) = trackKeys (mapTables (activateTbl keys) o) := by
      unfold enableCore trackKeys; rw [setSpecial_frame]; simp only; rw [htrack]
    exact this.trans hA.trackKeys
  · have : rpKey (enableCore o keys) = rpKey (mapTables (activateTbl keys) o) := by
      unfold enableCore rpKey; rw [setSpecial_frame]; simp only; rw [hR.rp]
    exact this.trans hA.rpKey
  · unfold enableCore
    cases ht : o.track with
    | none =>
      left
      have : (registerKeys (mapTables (activateTbl keys) o) keys).track = none := by
        rw [htrack]; unfold mapTables; simp [ht]
      rw [setSpecial_none _ _ this]; exact hR.trackletKey
    | some a =>
      obtain ⟨a', ha', ht', _⟩ := trackKeys_some hA.trackKeys ht
      have hreg' : (registerKeys (mapTables (activateTbl keys) o) keys).track = some a' := by rw [htrack]; exact ha'
      rw [setSpecial_tracklet _ _ a' hreg']
      by_cases hc : keys.contains a'.tKey = true
      · right
        rw [if_pos hc]
        exact ⟨a, rfl, by rw [← ht']; simpa using hc, by rw [ht']⟩
      · left
        rw [if_neg hc]; exact hR.trackletKey
  · unfold enableCore
    cases ht : o.track with
    | none =>
      left
      have : (registerKeys (mapTables (activateTbl keys) o) keys).track = none := by
        rw [htrack]; unfold mapTables; simp [ht]
      rw [setSpecial_none _ _ this]; exact hR.lineageKey
    | some a =>
      obtain ⟨a', ha', _, hl'⟩ := trackKeys_some hA.trackKeys ht
      have hreg' : (registerKeys (mapTables (activateTbl keys) o) keys).track = some a' := by rw [htrack]; exact ha'
      rw [setSpecial_lineage _ _ a' hreg']
      by_cases hc : keys.contains a'.lKey = true
      · right
        rw [if_pos hc]
        exact ⟨a, rfl, by rw [← hl']; simpa using hc, by rw [hl']⟩
      · left
        rw [if_neg hc]; exact hR.lineageKey

/-- a bulk computation is a `Grow` by nothing -/
theorem computeAll_grow (o : COut) (keys : List Name) : Grow o (computeAll o keys) [] := by
  have hS := sameReg_computeAll o keys
  have hT := annTables_computeAll o keys
  exact
    { tableKeys := tableKeys_congr hT
      reg := by intro k; unfold regKeys; rw [hS.reg]; simp
      act := by intro k; rw [activeKeys_congr hT]; simp
      solution := hS.solution, hasSeg := hS.hasSeg, ndim := hS.ndim, edges := hS.edges
      timeKey := hS.timeKey, posKey := hS.posKey
      trackKeys := trackKeys_computeAll o keys
      rpKey := rpKey_computeAll o keys
      tracklet := Or.inl hS.trackletKey
      lineage := Or.inl hS.lineageKey }

theorem enable_grow {o o' : COut} {keys : List Name} {rc : Bool} (h : enable o keys rc = some o') :
    Grow o o' keys := by
  obtain ⟨hall, rfl⟩ := (enable_eq_some_iff o o' keys rc).1 h
  cases rc with
  | false => exact enableCore_grow o keys hall
  | true =>
    have := (enableCore_grow o keys hall).trans (computeAll_grow (enableCore o keys) keys)
    simpa using this


/-! ### `_setup_core_computed_features` -/

theorem setupKey_eq (o : COut) (k : Name) :
    setupKey o k =
      if checkExisting o k then (activate (register1 o k) [k]).getD (register1 o k)
      else (enable o [k] true).getD o := rfl

theorem register1_grow_act (o : COut) (k : Name) (hk : k ∈ tableKeys o) :
    Grow o (mapTables (activateTbl [k]) (register1 o k)) [k] := by
  have hR := register1_frame o k
  have hA := mapTables_activate_actOnly (register1 o k) [k]
  have hT : tableKeys (register1 o k) = tableKeys o := tableKeys_congr hR.annTables
  exact
    { tableKeys := hA.tabKeys.trans hT
      reg := by
        intro k'
        have : regKeys (mapTables (activateTbl [k]) (register1 o k)) = regKeys (register1 o k) := rfl
        rw [this, mem_regKeys_register1, mem_singleton]
        constructor
        · rintro (h | ⟨h, _⟩)
          · exact Or.inl h
          · exact Or.inr h
        · rintro (h | h)
          · exact Or.inl h
          · exact Or.inr ⟨h, hk⟩
      act := by
        intro k'
        rw [hA.act, hT, activeKeys_congr hR.annTables, mem_singleton]
        constructor
        · rintro (h | ⟨h, _⟩)
          · exact Or.inl h
          · exact Or.inr h
        · rintro (h | h)
          · exact Or.inl h
          · exact Or.inr ⟨h, h ▸ hk⟩
      solution := hR.solution, hasSeg := hR.hasSeg, ndim := hR.ndim, edges := hR.edges
      timeKey := hR.timeKey, posKey := hR.posKey
      trackKeys := hA.trackKeys.trans (by unfold trackKeys; rw [hR.track])
      rpKey := hA.rpKey.trans (by unfold rpKey; rw [hR.rp])
      tracklet := Or.inl hR.trackletKey
      lineage := Or.inl hR.lineageKey }

theorem setupKey_grow (o : COut) (k : Name) (hk : k ∈ tableKeys o) : Grow o (setupKey o k) [k] := by
  rw [setupKey_eq]
  split
  · have hT : tableKeys (register1 o k) = tableKeys o := tableKeys_congr (register1_frame o k).annTables
    have : activate (register1 o k) [k] = some (mapTables (activateTbl [k]) (register1 o k)) :=
      (activate_eq_some_iff _ _ _).2 ⟨by intro k' hk'; rw [mem_singleton] at hk'; rw [hk', hT]; exact hk, rfl⟩
    rw [this]
    exact register1_grow_act o k hk
  · have hs : ∃ o', enable o [k] true = some o' := by
      cases h : enable o [k] true with
      | some o' => exact ⟨o', rfl⟩
      | none =>
        obtain ⟨k', hk', hn⟩ := (enable_eq_none_iff o [k] true).1 h
        rw [mem_singleton] at hk'
        exact absurd hk (hk' ▸ hn)
    obtain ⟨o', ho'⟩ := hs
    rw [ho']
    exact enable_grow ho'

theorem setupFold_grow (core : List Name) (o : COut) (hsub : ∀ k ∈ core, k ∈ tableKeys o) :
    Grow o (core.foldl setupKey o) core := by
  induction core generalizing o with
  | nil => exact Grow.refl o
  | cons k r ih =>
    simp only [foldl_cons]
    have h1 := setupKey_grow o k (hsub k mem_cons_self)
    have h2 := ih (setupKey o k) (by
      intro k' hk'; rw [h1.tableKeys]; exact hsub k' (mem_cons_of_mem _ hk'))
    have := h1.trans h2
    simpa using this

/-! ### the freshly built annotators: nothing is active -/

theorem filter_false_tbl {β} (d : List (Name × β)) :
    ((d.map (fun kv => ((kv.1, kv.2, false) : Name × β × Bool))).filter (·.2.2)) = [] := by
  induction d with
  | nil => rfl
  | cons x r ih => simp only [map_cons, filter_cons, Bool.false_eq_true, if_false]; exact ih

theorem mkTrack_table (nodes : List CNode) (tk lk : Option Name) :
    (mkTrack nodes tk lk).table =
      (dictOf [(tk.getD "tracklet_id", Feat.tracklet), (lk.getD "lineage_id", Feat.lineage)]).map
        (fun kv => (kv.1, kv.2, false)) := by
  unfold mkTrack
  repeat (first | rfl | split | dsimp only)

theorem mkTrack_tKey (nodes : List CNode) (tk lk : Option Name) :
    (mkTrack nodes tk lk).tKey = tk.getD "tracklet_id" := by
  unfold mkTrack
  repeat (first | rfl | split | dsimp only)

theorem mkTrack_lKey (nodes : List CNode) (tk lk : Option Name) :
    (mkTrack nodes tk lk).lKey = lk.getD "lineage_id" := by
  unfold mkTrack
  repeat (first | rfl | split | dsimp only)

theorem activeKeys_mkAnnotators (o : COut) : activeKeys (mkAnnotators o) = [] := by
  unfold activeKeys annTables mkAnnotators
  have hrp : ∀ n p, (rpTable n p).filter (·.2.2) = [] := by
    intro n p; unfold rpTable; exact filter_false_tbl _
  have htr : ∀ ns a b, (mkTrack ns a b).table.filter (·.2.2) = [] := by
    intro ns a b; rw [mkTrack_table]; exact filter_false_tbl _
  cases o.hasSeg <;> cases o.solution <;>
    simp [hrp, htr, edgeTable]

theorem mem_tableKeys_mkTrack (nodes : List CNode) (tk lk : Option Name) (k : Name) :
    k ∈ keysOf (mkTrack nodes tk lk).table ↔ k = tk.getD "tracklet_id" ∨ k = lk.getD "lineage_id" := by
  rw [mkTrack_table]
  have : keysOf ((dictOf [(tk.getD "tracklet_id", Feat.tracklet), (lk.getD "lineage_id", Feat.lineage)]).map
      (fun kv => ((kv.1, kv.2, false) : Name × Feat × Bool))) =
      keysOf (dictOf [(tk.getD "tracklet_id", Feat.tracklet), (lk.getD "lineage_id", Feat.lineage)]) := by
    simp [keysOf, Function.comp_def]
  rw [this, mem_keys_dictOf]
  simp [keysOf]

theorem mem_keys_rpTable (ndim : Nat) (p k : Name) :
    k ∈ keysOf (rpTable ndim p) ↔
      (k = p ∨ k = "area" ∨ k = "ellipse_axis_radii" ∨ k = "circularity" ∨ k = "perimeter") := by
  unfold rpTable
  have : ∀ d : List (Name × Feat), keysOf (d.map (fun kv => ((kv.1, kv.2, false) : Name × Feat × Bool))) = keysOf d := by
    intro d; simp [keysOf, Function.comp_def]
  simp only [this, mem_keys_dictOf]
  by_cases hp : p = "pos"
  · subst hp
    simp [keysOf]
  · have hb : (p != "pos") = true := by simpa using hp
    simp only [hb, if_true]
    simp only [keysOf, map_append, mem_append, mem_map, mem_filter]
    constructor
    · rintro (⟨e, ⟨he, _⟩, rfl⟩ | ⟨e, he, rfl⟩)
      · simp only [mem_cons, not_mem_nil, or_false] at he
        rcases he with rfl | rfl | rfl | rfl | rfl
        · simp at *
        · exact Or.inr (Or.inl rfl)
        · exact Or.inr (Or.inr (Or.inl rfl))
        · exact Or.inr (Or.inr (Or.inr (Or.inl rfl)))
        · exact Or.inr (Or.inr (Or.inr (Or.inr rfl)))
      · simp only [mem_singleton] at he
        subst he; exact Or.inl rfl
    · rintro (rfl | rfl | rfl | rfl | rfl)
      · exact Or.inr ⟨_, mem_singleton.2 rfl, rfl⟩
      · exact Or.inl ⟨("area", Feat.area ndim), ⟨by simp, by dsimp only; decide⟩, rfl⟩
      · exact Or.inl ⟨("ellipse_axis_radii", Feat.ellipse ndim), ⟨by simp, by dsimp only; decide⟩, rfl⟩
      · exact Or.inl ⟨("circularity", Feat.circ ndim), ⟨by simp, by dsimp only; decide⟩, rfl⟩
      · exact Or.inl ⟨("perimeter", Feat.perim ndim), ⟨by simp, by dsimp only; decide⟩, rfl⟩


/-! ### `_activate_features_from_dict` -/

theorem ActOnly.refl (o : COut) : ActOnly o o [] :=
  ⟨rfl, by simp, SameReg.refl o, rfl, rfl, rfl, rfl⟩

theorem ActOnly.skip (o : COut) (k : Name) (hk : k ∉ tableKeys o) : ActOnly o o [k] :=
  ⟨rfl, by
    intro k'; constructor
    · exact Or.inl
    · rintro (h | ⟨h1, h2⟩)
      · exact h
      · rw [mem_singleton] at h1; exact absurd (h1 ▸ h2) hk,
   SameReg.refl o, rfl, rfl, rfl, rfl⟩

theorem ActOnly.trans {a b c : COut} {k1 k2 : List Name} (h1 : ActOnly a b k1) (h2 : ActOnly b c k2) :
    ActOnly a c (k1 ++ k2) where
  tabKeys := h2.tabKeys.trans h1.tabKeys
  act := by
    intro k
    rw [h2.act, h1.act, h1.tabKeys, mem_append]
    constructor
    · rintro ((h | ⟨h, h'⟩) | ⟨h, h'⟩)
      · exact Or.inl h
      · exact Or.inr ⟨Or.inl h, h'⟩
      · exact Or.inr ⟨Or.inr h, h'⟩
    · rintro (h | ⟨h | h, h'⟩)
      · exact Or.inl (Or.inl h)
      · exact Or.inl (Or.inr ⟨h, h'⟩)
      · exact Or.inr ⟨h, h'⟩
  same := h1.same.trans h2.same
  trackKeys := h2.trackKeys.trans h1.trackKeys
  rpKey := h2.rpKey.trans h1.rpKey
  nodes := h2.nodes.trans h1.nodes
  computed := h2.computed.trans h1.computed

/-- one iteration of `_activate_features_from_dict` -/
def actStep (st : COut) (k : Name) : COut :=
  if hasKey k (allFeatures st) then (activate st [k]).getD st else st

theorem activateFromDict_eq (o : COut) : activateFromDict o = (keysOf o.reg).foldl actStep o := rfl

theorem actStep_actOnly (o : COut) (k : Name) : ActOnly o (actStep o k) [k] := by
  unfold actStep
  by_cases h : hasKey k (allFeatures o) = true
  · rw [if_pos h]
    have hk := (hasKey_allFeatures o k).1 h
    have : activate o [k] = some (mapTables (activateTbl [k]) o) :=
      (activate_eq_some_iff _ _ _).2 ⟨by intro k' hk'; rw [mem_singleton] at hk'; rw [hk']; exact hk, rfl⟩
    rw [this]
    exact mapTables_activate_actOnly o [k]
  · rw [if_neg h]
    exact ActOnly.skip o k (fun hk => h ((hasKey_allFeatures o k).2 hk))

theorem actFold_actOnly (ks : List Name) (o : COut) : ActOnly o (ks.foldl actStep o) ks := by
  induction ks generalizing o with
  | nil => exact ActOnly.refl o
  | cons k r ih =>
    simp only [foldl_cons]
    have := (actStep_actOnly o k).trans (ih (actStep o k))
    simpa using this

theorem activateFromDict_actOnly (o : COut) : ActOnly o (activateFromDict o) (regKeys o) :=
  actFold_actOnly (keysOf o.reg) o

/-! ### the annotators of a fresh object -/

/-- the position key handed to the RegionpropsAnnotator -/
def rpPosKey (o : COut) : Name :=
  match o.posKey with
  | .single k => k
  | _ => "pos"

theorem annTables_mkAnnotators (o : COut) :
    annTables (mkAnnotators o) =
      (if o.hasSeg then [(AKind.rp, rpTable o.ndim (rpPosKey o)), (AKind.edge, edgeTable)] else []) ++
      (if o.solution then [(AKind.track, (mkTrack o.nodes o.trackletKey o.lineageKey).table)] else []) := by
  unfold annTables mkAnnotators rpPosKey
  cases o.hasSeg <;> cases o.solution <;> rfl

theorem mem_tableKeys_mkAnnotators (o : COut) (k : Name) :
    k ∈ tableKeys (mkAnnotators o) ↔
      (o.hasSeg = true ∧ (k = rpPosKey o ∨ k = "area" ∨ k = "ellipse_axis_radii" ∨ k = "circularity" ∨
          k = "perimeter" ∨ k = "iou")) ∨
      (o.solution = true ∧ (k = o.trackletKey.getD "tracklet_id" ∨ k = o.lineageKey.getD "lineage_id")) := by
  unfold tableKeys
  rw [annTables_mkAnnotators, flatMap_append, mem_append]
  have hrp := mem_keys_rpTable o.ndim (rpPosKey o) k
  have htr := mem_tableKeys_mkTrack o.nodes o.trackletKey o.lineageKey k
  have he : k ∈ keysOf edgeTable ↔ k = "iou" := by simp [edgeTable, keysOf]
  have h1 : k ∈ (if o.hasSeg then [(AKind.rp, rpTable o.ndim (rpPosKey o)), (AKind.edge, edgeTable)] else []).flatMap
        (fun kt => keysOf kt.2) ↔
      (o.hasSeg = true ∧ (k = rpPosKey o ∨ k = "area" ∨ k = "ellipse_axis_radii" ∨ k = "circularity" ∨
          k = "perimeter" ∨ k = "iou")) := by
    cases o.hasSeg
    · simp
    · simp only [if_true, flatMap_cons, flatMap_nil, append_nil, mem_append, hrp, he, true_and]
      grind
  have h2 : k ∈ (if o.solution then [(AKind.track, (mkTrack o.nodes o.trackletKey o.lineageKey).table)] else []).flatMap
        (fun kt => keysOf kt.2) ↔
      (o.solution = true ∧ (k = o.trackletKey.getD "tracklet_id" ∨ k = o.lineageKey.getD "lineage_id")) := by
    cases o.solution
    · simp
    · simp only [if_true, flatMap_cons, flatMap_nil, append_nil, htr, true_and]
  rw [h1, h2]


theorem coreKeys_mkAnnotators (x : COut) :
    coreKeys (mkAnnotators x) =
      ({ mkAnnotators x with
          posKey := if x.hasSeg then PosKey.single (rpPosKey x) else x.posKey,
          trackletKey := if x.solution then some (x.trackletKey.getD "tracklet_id") else x.trackletKey,
          lineageKey := if x.solution then some (x.lineageKey.getD "lineage_id") else x.lineageKey },
       (if x.hasSeg then [rpPosKey x, "area"] else []) ++
       (if x.solution then [x.trackletKey.getD "tracklet_id", x.lineageKey.getD "lineage_id"] else [])) := by
  unfold coreKeys mkAnnotators rpPosKey
  cases x.hasSeg <;> cases x.solution <;> simp [mkTrack_tKey, mkTrack_lKey] <;> cases x.posKey <;> rfl

theorem mkAnnotators_track (x : COut) :
    (mkAnnotators x).track = if x.solution then some (mkTrack x.nodes x.trackletKey x.lineageKey) else none := rfl

/-! ### the feature set of a constructor call without FeatureDict -/

/-- `pos_attr` with its default -/
def effPosAttr (i : CInput) : PosKey :=
  match i.posAttr with
  | .none => .single "pos"
  | p => p

/-- the keys `_get_feature_set` registers: time, and the position key(s) if there is no array -/
def staticKeysFresh (i : CInput) : List Name :=
  (i.timeAttr.getD "time") :: (if i.hasSeg then [] else posKeyList (effPosAttr i))

/-- the keys `_setup_core_computed_features` goes through -/
def coreList (i : CInput) : List Name :=
  (if i.hasSeg then ["pos", "area"] else []) ++
  (if i.solution then [i.trackletAttr.getD "track_id", i.lineageAttr.getD "lineage_id"] else [])

theorem mem_keys_foldl_aset_const {β} (v : β) (ks : List Name) (acc : List (Name × β)) (k : Name) :
    k ∈ keysOf (ks.foldl (fun r a => aset a v r) acc) ↔ k ∈ ks ∨ k ∈ keysOf acc := by
  induction ks generalizing acc with
  | nil => simp
  | cons x r ih =>
    simp only [foldl_cons]
    rw [ih, mem_keys_aset, mem_cons]
    grind

theorem featureSet_reg (i : CInput) :
    (featureSet i).reg =
      if i.hasSeg then [(i.timeAttr.getD "time", Feat.time)] else
      match effPosAttr i with
      | .multi ks => ks.foldl (fun r a => aset a Feat.axis r) [(i.timeAttr.getD "time", Feat.time)]
      | .single k => aset k (Feat.position (nax i.ndim)) [(i.timeAttr.getD "time", Feat.time)]
      | .none => [(i.timeAttr.getD "time", Feat.time)] := by
  unfold featureSet effPosAttr
  cases i.hasSeg <;> cases i.posAttr <;> rfl

theorem featureSet_posKey (i : CInput) :
    (featureSet i).posKey = if i.hasSeg then PosKey.none else effPosAttr i := by
  unfold featureSet effPosAttr
  cases i.hasSeg <;> cases i.posAttr <;> rfl

theorem featureSet_fields (i : CInput) :
    (featureSet i).timeKey = some (i.timeAttr.getD "time") ∧
    (featureSet i).trackletKey = some (i.trackletAttr.getD "track_id") ∧
    (featureSet i).lineageKey = some (i.lineageAttr.getD "lineage_id") ∧
    (featureSet i).solution = i.solution ∧ (featureSet i).hasSeg = i.hasSeg ∧
    (featureSet i).nodes = i.nodes ∧ (featureSet i).edges = i.edges ∧ (featureSet i).ndim = i.ndim ∧
    (featureSet i).computed = [] := by
  unfold featureSet
  cases i.hasSeg <;> cases i.posAttr <;> exact ⟨rfl, rfl, rfl, rfl, rfl, rfl, rfl, rfl, rfl⟩

theorem effPosAttr_ne_none (i : CInput) : effPosAttr i ≠ PosKey.none := by
  unfold effPosAttr; cases i.posAttr <;> simp

theorem mem_regKeys_featureSet (i : CInput) (k : Name) :
    k ∈ regKeys (featureSet i) ↔ k ∈ staticKeysFresh i := by
  unfold regKeys staticKeysFresh
  rw [featureSet_reg]
  cases i.hasSeg
  · simp only [Bool.false_eq_true, if_false]
    cases h : effPosAttr i with
    | none => exact absurd h (effPosAttr_ne_none i)
    | single p =>
      simp only [posKeyList]
      rw [mem_keys_aset]
      simp only [keysOf, map_cons, map_nil, mem_cons, not_mem_nil, or_false]
      grind
    | multi ks =>
      simp only [posKeyList]
      rw [mem_keys_foldl_aset_const]
      simp only [keysOf, map_cons, map_nil, mem_cons, not_mem_nil, or_false]
      grind
  · simp [keysOf]

theorem rpPosKey_featureSet (i : CInput) (h : i.hasSeg = true) : rpPosKey (featureSet i) = "pos" := by
  unfold rpPosKey; rw [featureSet_posKey, h]; rfl

/-! ### the two construction paths -/

theorem construct_fresh_eq (i : CInput) (hp : i.prebuilt = none) :
    construct i = (coreList i).foldl setupKey (coreKeys (mkAnnotators (featureSet i))).1 := by
  unfold construct setupCore
  rw [hp]
  simp only
  congr 1
  rw [coreKeys_mkAnnotators]
  obtain ⟨_, h2, h3, h4, h5, _⟩ := featureSet_fields i
  unfold coreList
  simp only [h2, h3, h4, h5, Option.getD_some]
  cases hs : i.hasSeg
  · rfl
  · rw [rpPosKey_featureSet i hs]

theorem coreList_sub (i : CInput) :
    ∀ k ∈ coreList i, k ∈ tableKeys (coreKeys (mkAnnotators (featureSet i))).1 := by
  intro k hk
  have hT : tableKeys (coreKeys (mkAnnotators (featureSet i))).1 = tableKeys (mkAnnotators (featureSet i)) := by
    rw [coreKeys_mkAnnotators]; rfl
  rw [hT, mem_tableKeys_mkAnnotators]
  obtain ⟨_, h2, h3, h4, h5, _⟩ := featureSet_fields i
  rw [h2, h3, h4, h5]
  simp only [Option.getD_some]
  unfold coreList at hk
  rw [mem_append] at hk
  rcases hk with hk | hk
  · left
    cases hs : i.hasSeg
    · rw [hs] at hk; simp at hk
    · rw [hs] at hk
      simp only [if_true, mem_cons, not_mem_nil, or_false] at hk
      refine ⟨rfl, ?_⟩
      rw [rpPosKey_featureSet i hs]
      rcases hk with hk | hk
      · exact Or.inl hk
      · exact Or.inr (Or.inl hk)
  · right
    cases hs : i.solution
    · rw [hs] at hk; simp at hk
    · rw [hs] at hk
      simp only [if_true, mem_cons, not_mem_nil, or_false] at hk
      exact ⟨rfl, hk⟩

/-- the object the second loop of `_setup_core_computed_features` starts from -/
def fresh0 (i : CInput) : COut := (coreKeys (mkAnnotators (featureSet i))).1

theorem fresh0_eq (i : CInput) :
    fresh0 i = { mkAnnotators (featureSet i) with
      posKey := if (featureSet i).hasSeg then PosKey.single (rpPosKey (featureSet i)) else (featureSet i).posKey,
      trackletKey := if (featureSet i).solution then some ((featureSet i).trackletKey.getD "tracklet_id")
                     else (featureSet i).trackletKey,
      lineageKey := if (featureSet i).solution then some ((featureSet i).lineageKey.getD "lineage_id")
                    else (featureSet i).lineageKey } := by
  unfold fresh0; rw [coreKeys_mkAnnotators]

theorem fresh0_fields (i : CInput) :
    regKeys (fresh0 i) = regKeys (featureSet i) ∧ activeKeys (fresh0 i) = [] ∧
    (fresh0 i).timeKey = some (i.timeAttr.getD "time") ∧
    (fresh0 i).posKey = (if i.hasSeg then PosKey.single "pos" else effPosAttr i) ∧
    (fresh0 i).trackletKey = some (i.trackletAttr.getD "track_id") ∧
    (fresh0 i).lineageKey = some (i.lineageAttr.getD "lineage_id") ∧
    (fresh0 i).track = (if i.solution then
        some (mkTrack i.nodes (some (i.trackletAttr.getD "track_id")) (some (i.lineageAttr.getD "lineage_id")))
      else none) ∧
    (fresh0 i).solution = i.solution ∧ (fresh0 i).hasSeg = i.hasSeg ∧ (fresh0 i).nodes = i.nodes ∧
    (fresh0 i).edges = i.edges ∧ (fresh0 i).computed = [] := by
  obtain ⟨h1, h2, h3, h4, h5, h6, h7, _, h9⟩ := featureSet_fields i
  have e := fresh0_eq i
  have hA : activeKeys (fresh0 i) = activeKeys (mkAnnotators (featureSet i)) := by rw [e]; rfl
  have f1 : regKeys (fresh0 i) = regKeys (featureSet i) := by rw [e]; rfl
  have f3 : (fresh0 i).timeKey = (featureSet i).timeKey := by rw [e]; rfl
  have f4 : (fresh0 i).posKey = if (featureSet i).hasSeg then PosKey.single (rpPosKey (featureSet i))
      else (featureSet i).posKey := by rw [e]
  have f5 : (fresh0 i).trackletKey = if (featureSet i).solution then some ((featureSet i).trackletKey.getD "tracklet_id")
      else (featureSet i).trackletKey := by rw [e]
  have f6 : (fresh0 i).lineageKey = if (featureSet i).solution then some ((featureSet i).lineageKey.getD "lineage_id")
      else (featureSet i).lineageKey := by rw [e]
  have f7 : (fresh0 i).track = (mkAnnotators (featureSet i)).track := by rw [e]
  have f8 : (fresh0 i).solution = (featureSet i).solution := by rw [e]; rfl
  have f9 : (fresh0 i).hasSeg = (featureSet i).hasSeg := by rw [e]; rfl
  have f10 : (fresh0 i).nodes = (featureSet i).nodes := by rw [e]; rfl
  have f11 : (fresh0 i).edges = (featureSet i).edges := by rw [e]; rfl
  have f12 : (fresh0 i).computed = (featureSet i).computed := by rw [e]; rfl
  refine ⟨f1, by rw [hA]; exact activeKeys_mkAnnotators _, f3.trans h1, ?_, ?_, ?_, ?_, f8.trans h4, f9.trans h5,
    f10.trans h6, f11.trans h7, f12.trans h9⟩
  · rw [f4, h5]
    cases hs : i.hasSeg
    · simp only [Bool.false_eq_true, if_false]
      rw [featureSet_posKey, hs]; rfl
    · simp only [if_true]; rw [rpPosKey_featureSet i hs]
  · rw [f5, h4, h2]; cases i.solution <;> rfl
  · rw [f6, h4, h3]; cases i.solution <;> rfl
  · rw [f7, mkAnnotators_track, h4, h2, h3, h6]


/-! ### the D17 guard: what `enable_features` does to the special keys, exactly -/

theorem enableCore_special (o : COut) (keys : List Name) (a : TrackAnn) (ha : o.track = some a) :
    (enableCore o keys).trackletKey = (if keys.contains a.tKey then some a.tKey else o.trackletKey) ∧
    (enableCore o keys).lineageKey = (if keys.contains a.lKey then some a.lKey else o.lineageKey) := by
  have hA := mapTables_activate_actOnly o keys
  have hR := registerKeys_frame (mapTables (activateTbl keys) o) keys
  obtain ⟨a', ha', ht', hl'⟩ := trackKeys_some hA.trackKeys ha
  have hreg' : (registerKeys (mapTables (activateTbl keys) o) keys).track = some a' := by rw [hR.track]; exact ha'
  unfold enableCore
  rw [setSpecial_tracklet _ _ a' hreg', setSpecial_lineage _ _ a' hreg', ht', hl', hR.trackletKey, hR.lineageKey]
  exact ⟨rfl, rfl⟩

theorem enable_special {o o' : COut} {keys : List Name} {rc : Bool} {a : TrackAnn}
    (h : enable o keys rc = some o') (ha : o.track = some a) :
    o'.trackletKey = (if keys.contains a.tKey then some a.tKey else o.trackletKey) ∧
    o'.lineageKey = (if keys.contains a.lKey then some a.lKey else o.lineageKey) := by
  obtain ⟨_, rfl⟩ := (enable_eq_some_iff o o' keys rc).1 h
  have hc := enableCore_special o keys a ha
  cases rc with
  | false => exact hc
  | true =>
    have hS := sameReg_computeAll (enableCore o keys) keys
    simp only [if_true]
    rw [hS.trackletKey, hS.lineageKey]; exact hc

end Ft.R7S
