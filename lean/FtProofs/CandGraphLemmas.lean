/-
  Helper lemmas for the candidate-graph model (property C18).
  Part 1: sorting, association lists, frame dictionary, edge insertion, the frame loop.
  Part 2: node extraction (points list, label array).
  Part 3: IoU table and `add_iou`.
-/
import FtModel.CandGraph
namespace Ft.CandGraph
open Ft

/-! ## Part 1 -/

theorem insertNat_perm (x : Nat) (l : List Nat) : (insertNat x l).Perm (x :: l) := by
  induction l with
  | nil => exact List.Perm.refl _
  | cons y ys ih =>
    unfold insertNat
    split
    · exact List.Perm.refl _
    · exact ((List.Perm.cons y ih).trans (List.Perm.swap x y ys))

theorem sortNat_perm (l : List Nat) : (sortNat l).Perm l := by
  induction l with
  | nil => exact List.Perm.refl _
  | cons x xs ih =>
    show (insertNat x (sortNat xs)).Perm (x :: xs)
    exact (insertNat_perm x _).trans (List.Perm.cons x ih)

theorem mem_sortNat {a : Nat} {l : List Nat} : a ∈ sortNat l ↔ a ∈ l :=
  (sortNat_perm l).mem_iff

theorem nodup_sortNat {l : List Nat} : (sortNat l).Nodup ↔ l.Nodup :=
  (sortNat_perm l).nodup_iff

/-! ### association lists -/

theorem alook_aset {α β} [BEq α] [LawfulBEq α] (k k' : α) (v : β) (l : List (α × β)) :
    alook k (aset k' v l) = if (k' == k) = true then some v else alook k l := by
  induction l with
  | nil => simp [aset, alook]
  | cons p r ih =>
    obtain ⟨a, b⟩ := p
    cases hb : (a == k') with
    | true =>
      have e := eq_of_beq hb
      subst e
      simp only [aset, hb, if_true, alook]
      cases hk : (a == k) <;> simp
    | false =>
      simp only [aset, hb, alook, ih, Bool.false_eq_true, if_false]
      cases hk : (k' == k) with
      | true =>
        have e := eq_of_beq hk
        subst e
        simp [hb]
      | false => simp

/-! ### frame dictionary -/

theorem dget_nil (t : Nat) : dget [] t = none := rfl

theorem dget_cons (t' : Nat) (l : List Node) (r : FrameDict) (t : Nat) :
    dget ((t', l) :: r) t = if t' = t then some l else dget r t := by
  simp only [dget, alook]
  by_cases h : t' = t <;> simp [h]

theorem dget_eq_none_iff {d : FrameDict} {t : Nat} : dget d t = none ↔ t ∉ keys d := by
  induction d with
  | nil => simp [dget_nil, keys]
  | cons p r ih =>
    obtain ⟨a, b⟩ := p
    rw [dget_cons]
    by_cases h : a = t
    · subst h; simp [keys]
    · simp only [h, if_false, ih, keys, List.map_cons, List.mem_cons]
      constructor
      · intro h1 h2
        rcases h2 with h2 | h2
        · exact h h2.symm
        · exact h1 h2
      · intro h1 h2; exact h1 (Or.inr h2)

theorem mem_keys_of_dget {d : FrameDict} {t : Nat} {ns : List Node} (h : dget d t = some ns) :
    t ∈ keys d := by
  apply Classical.byContradiction
  intro hn
  rw [dget_eq_none_iff.mpr hn] at h
  cases h

/-- the loop variable is a key, so `d[frame]` cannot fail -/
theorem dget_of_mem_keys {d : FrameDict} {t : Nat} (h : t ∈ keys d) : ∃ ns, dget d t = some ns := by
  cases hd : dget d t with
  | none => exact absurd h (dget_eq_none_iff.mp hd)
  | some ns => exact ⟨ns, rfl⟩

theorem mem_getD_dget {d : FrameDict} {t : Nat} {n : Node} (h : n ∈ (dget d t).getD []) :
    ∃ ns, dget d t = some ns ∧ n ∈ ns := by
  cases hd : dget d t with
  | none => rw [hd] at h; simp at h
  | some ns => rw [hd] at h; exact ⟨ns, rfl, h⟩

theorem dget_dextend (d : FrameDict) (t : Nat) (ns : List Node) (t' : Nat) :
    dget (dextend d t ns) t' =
      if t' = t then some ((dget d t).getD [] ++ ns) else dget d t' := by
  induction d with
  | nil =>
    simp only [dextend, dget_cons, dget_nil]
    by_cases h : t' = t
    · subst h; simp
    · have : ¬ t = t' := fun e => h e.symm
      simp [h, this]
  | cons p r ih =>
    obtain ⟨a, l⟩ := p
    by_cases h1 : a = t
    · subst h1
      simp only [dextend, beq_self_eq_true, if_true, dget_cons]
      by_cases h : t' = a
      · subst h; simp
      · have : ¬ a = t' := fun e => h e.symm
        simp [h, this]
    · have hb : (a == t) = false := by simp [h1]
      simp only [dextend, hb, Bool.false_eq_true, if_false, dget_cons, ih]
      by_cases h : t' = t
      · subst h
        simp [h1]
      · simp [h]

theorem mem_keys_dextend {d : FrameDict} {t : Nat} {ns : List Node} {t' : Nat} :
    t' ∈ keys (dextend d t ns) ↔ t' = t ∨ t' ∈ keys d := by
  induction d with
  | nil => simp [dextend, keys]
  | cons p r ih =>
    obtain ⟨a, l⟩ := p
    by_cases h1 : a = t
    · subst h1
      simp only [dextend, beq_self_eq_true, if_true, keys, List.map_cons, List.mem_cons]
      constructor
      · intro h; rcases h with h | h
        · exact Or.inl h
        · exact Or.inr (Or.inr h)
      · intro h; rcases h with h | h | h
        · exact Or.inl h
        · exact Or.inl h
        · exact Or.inr h
    · have hb : (a == t) = false := by simp [h1]
      simp only [dextend, hb, Bool.false_eq_true, if_false, keys, List.map_cons, List.mem_cons] at ih ⊢
      rw [ih]
      constructor
      · intro h; rcases h with h | h | h
        · exact Or.inr (Or.inl h)
        · exact Or.inl h
        · exact Or.inr (Or.inr h)
      · intro h; rcases h with h | h | h
        · exact Or.inr (Or.inl h)
        · exact Or.inl h
        · exact Or.inr (Or.inr h)

theorem nodup_keys_dextend {d : FrameDict} {t : Nat} {ns : List Node} (h : (keys d).Nodup) :
    (keys (dextend d t ns)).Nodup := by
  induction d with
  | nil => simp [dextend, keys]
  | cons p r ih =>
    obtain ⟨a, l⟩ := p
    have h' : a ∉ keys r ∧ (keys r).Nodup := by
      simpa [keys, List.nodup_cons] using h
    by_cases h1 : a = t
    · subst h1
      simpa [dextend, keys, List.nodup_cons] using h'
    · have hb : (a == t) = false := by simp [h1]
      have hk : keys (dextend ((a, l) :: r) t ns) = a :: keys (dextend r t ns) := by
        simp [dextend, hb, keys]
      rw [hk, List.nodup_cons]
      refine ⟨?_, ih h'.2⟩
      intro hm
      rcases mem_keys_dextend.mp hm with e | e
      · exact h1 e
      · exact h'.1 e

/-! ### edges -/

theorem contains_false_of_not_mem {es : List Edge} {e : Edge} (h : e ∉ es) :
    es.contains e = false := by
  cases hh : es.contains e with
  | false => rfl
  | true => exact absurd (List.contains_iff_mem.mp hh) h

theorem mem_addEdge {es : List Edge} {e x : Edge} : x ∈ addEdge es e ↔ x ∈ es ∨ x = e := by
  by_cases h : e ∈ es
  · have hc : es.contains e = true := List.contains_iff_mem.mpr h
    simp only [addEdge, hc, if_true]
    constructor
    · exact Or.inl
    · intro h'; rcases h' with h' | h'
      · exact h'
      · subst h'; exact h
  · simp only [addEdge, contains_false_of_not_mem h, Bool.false_eq_true, if_false,
      List.mem_append, List.mem_singleton]

theorem mem_foldl_addEdge {l es : List Edge} {x : Edge} :
    x ∈ l.foldl addEdge es ↔ x ∈ es ∨ x ∈ l := by
  induction l generalizing es with
  | nil => simp
  | cons e r ih =>
    simp only [List.foldl_cons, ih, mem_addEdge, List.mem_cons]
    constructor
    · intro h; rcases h with (h | h) | h
      · exact Or.inl h
      · exact Or.inr (Or.inl h)
      · exact Or.inr (Or.inr h)
    · intro h; rcases h with h | h | h
      · exact Or.inl (Or.inl h)
      · exact Or.inl (Or.inr h)
      · exact Or.inr h

theorem nodup_addEdge {es : List Edge} {e : Edge} (h : es.Nodup) : (addEdge es e).Nodup := by
  by_cases hm : e ∈ es
  · have hc : es.contains e = true := List.contains_iff_mem.mpr hm
    simp only [addEdge, hc, if_true]; exact h
  · simp only [addEdge, contains_false_of_not_mem hm, Bool.false_eq_true, if_false]
    rw [List.nodup_append]
    refine ⟨h, by simp, ?_⟩
    intro a ha b hb
    simp at hb
    subst hb
    intro e'; subst e'; exact hm ha

theorem nodup_foldl_addEdge {l es : List Edge} (h : es.Nodup) : (l.foldl addEdge es).Nodup := by
  induction l generalizing es with
  | nil => simpa
  | cons e r ih => exact ih (nodup_addEdge h)

theorem mem_ballQuery {near : Node → Node → Bool} {prev next : List Node} {u v : Node} :
    (u, v) ∈ ballQuery near prev next ↔ u ∈ prev ∧ v ∈ next ∧ near u v = true := by
  unfold ballQuery
  simp only [List.mem_flatMap, List.mem_map, List.mem_filter, Prod.mk.injEq]
  constructor
  · rintro ⟨a, ha, b, ⟨hb, hn⟩, rfl, rfl⟩
    exact ⟨ha, hb, hn⟩
  · rintro ⟨hu, hv, hn⟩
    exact ⟨u, hu, v, ⟨hv, hn⟩, rfl, rfl⟩

/-- what one visit of the repaired loop contributes -/
def stepEdges (near : Node → Node → Bool) (d : FrameDict) (f : Nat) : List Edge :=
  match dget d (f + 1) with
  | none => []
  | some next => ballQuery near ((dget d f).getD []) next

theorem mem_frameStep {near : Node → Node → Bool} {d : FrameDict} {es : List Edge} {f : Nat}
    {x : Edge} : x ∈ frameStep near d es f ↔ x ∈ es ∨ x ∈ stepEdges near d f := by
  unfold frameStep stepEdges
  cases dget d (f + 1) with
  | none => simp
  | some next => simp only [mem_foldl_addEdge]

theorem mem_foldl_frameStep {near : Node → Node → Bool} {d : FrameDict} {fs : List Nat}
    {es : List Edge} {x : Edge} :
    x ∈ fs.foldl (frameStep near d) es ↔ x ∈ es ∨ ∃ f ∈ fs, x ∈ stepEdges near d f := by
  induction fs generalizing es with
  | nil => simp
  | cons f r ih =>
    simp only [List.foldl_cons, ih, mem_frameStep, List.mem_cons]
    constructor
    · intro h; rcases h with (h | h) | ⟨g, hg, hx⟩
      · exact Or.inl h
      · exact Or.inr ⟨f, Or.inl rfl, h⟩
      · exact Or.inr ⟨g, Or.inr hg, hx⟩
    · intro h; rcases h with h | ⟨g, hg, hx⟩
      · exact Or.inl (Or.inl h)
      · rcases hg with hg | hg
        · subst hg; exact Or.inl (Or.inr hx)
        · exact Or.inr ⟨g, hg, hx⟩

theorem nodup_frameStep {near : Node → Node → Bool} {d : FrameDict} {es : List Edge} {f : Nat}
    (h : es.Nodup) : (frameStep near d es f).Nodup := by
  unfold frameStep
  cases dget d (f + 1) with
  | none => exact h
  | some next => exact nodup_foldl_addEdge h

theorem nodup_addCandEdgesD {near : Node → Node → Bool} {d : FrameDict} {es : List Edge}
    (h : es.Nodup) : (addCandEdgesD near d es).Nodup := by
  unfold addCandEdgesD
  generalize sortedKeys d = fs
  induction fs generalizing es with
  | nil => simpa
  | cons f r ih => exact ih (nodup_frameStep h)

theorem mem_addCandEdgesD {near : Node → Node → Bool} {d : FrameDict} {u v : Node} :
    (u, v) ∈ addCandEdgesD near d [] ↔
      ∃ f prev next, dget d f = some prev ∧ dget d (f + 1) = some next ∧
        u ∈ prev ∧ v ∈ next ∧ near u v = true := by
  unfold addCandEdgesD
  rw [mem_foldl_frameStep]
  constructor
  · rintro (h | ⟨f, hf, hx⟩)
    · cases h
    · have hk : f ∈ keys d := mem_sortNat.mp hf
      obtain ⟨prev, hp⟩ := dget_of_mem_keys hk
      unfold stepEdges at hx
      cases hn : dget d (f + 1) with
      | none => rw [hn] at hx; cases hx
      | some next =>
        rw [hn, hp] at hx
        obtain ⟨h1, h2, h3⟩ := mem_ballQuery.mp hx
        exact ⟨f, prev, next, hp, hn, h1, h2, h3⟩
  · rintro ⟨f, prev, next, hp, hn, h1, h2, h3⟩
    refine Or.inr ⟨f, mem_sortNat.mpr (mem_keys_of_dget hp), ?_⟩
    unfold stepEdges
    rw [hn, hp]
    exact mem_ballQuery.mpr ⟨h1, h2, h3⟩

/-! ### well-formed frame dictionary

`WF nodes d`: the dictionary lists each node exactly once, under its own time.
All quantifiers are bounded, so the predicate is decidable. -/

def WF (nodes : List (Node × Nat)) (d : FrameDict) : Prop :=
  (keys d).Nodup ∧ (nodes.map Prod.fst).Nodup ∧
  (∀ t ∈ keys d, ((dget d t).getD []).Nodup) ∧
  (∀ t ∈ keys d, ∀ n ∈ (dget d t).getD [], (n, t) ∈ nodes) ∧
  (∀ q ∈ nodes, q.1 ∈ (dget d q.2).getD [])

instance (nodes : List (Node × Nat)) (d : FrameDict) : Decidable (WF nodes d) := by
  unfold WF; infer_instance

theorem WF.mem_iff {nodes : List (Node × Nat)} {d : FrameDict} (h : WF nodes d) {n t : Nat} :
    (∃ ns, dget d t = some ns ∧ n ∈ ns) ↔ (n, t) ∈ nodes := by
  obtain ⟨_, _, _, h3, h4⟩ := h
  constructor
  · rintro ⟨ns, hd, hn⟩
    have := h3 t (mem_keys_of_dget hd) n
    rw [hd] at this
    exact this hn
  · intro hm
    exact mem_getD_dget (h4 (n, t) hm)

theorem fst_nodup_unique {nodes : List (Node × Nat)} (hn : (nodes.map Prod.fst).Nodup)
    {n t t' : Nat} (h1 : (n, t) ∈ nodes) (h2 : (n, t') ∈ nodes) : t = t' := by
  induction nodes with
  | nil => cases h1
  | cons q r ih =>
    simp only [List.map_cons, List.nodup_cons] at hn
    rcases List.mem_cons.mp h1 with e1 | e1 <;> rcases List.mem_cons.mp h2 with e2 | e2
    · rw [← e1] at e2; exact (Prod.mk.inj e2).2.symm
    · exfalso; apply hn.1; rw [← e1]; exact List.mem_map.mpr ⟨(n, t'), e2, rfl⟩
    · exfalso; apply hn.1; rw [← e2]; exact List.mem_map.mpr ⟨(n, t), e1, rfl⟩
    · exact ih hn.2 e1 e2

theorem WF.time_unique {nodes : List (Node × Nat)} {d : FrameDict} (h : WF nodes d) {n t t' : Nat}
    (h1 : (n, t) ∈ nodes) (h2 : (n, t') ∈ nodes) : t = t' :=
  fst_nodup_unique h.2.1 h1 h2

theorem WF_nil : WF [] [] := by decide

theorem WF.nodes_nil {nodes : List (Node × Nat)} (h : WF nodes []) : nodes = [] := by
  obtain ⟨_, _, _, _, h4⟩ := h
  cases nodes with
  | nil => rfl
  | cons q r =>
    have := h4 q (List.mem_cons_self)
    simp [dget_nil] at this

theorem orCompute_of_WF {nodes : List (Node × Nat)} {d : FrameDict} (h : WF nodes d) :
    orCompute nodes d = d := by
  unfold orCompute
  cases d with
  | nil => rw [h.nodes_nil]; rfl
  | cons p r => rfl

/-- adding fresh nodes `ns` at time `t` to both the node list and the dictionary -/
theorem WF_extend {nodes : List (Node × Nat)} {d : FrameDict} (h : WF nodes d)
    (t : Nat) (ns : List Node) (hnd : ns.Nodup) (hfresh : ∀ n ∈ ns, n ∉ nodes.map Prod.fst) :
    WF (nodes ++ ns.map (fun n => (n, t))) (dextend d t ns) := by
  obtain ⟨h0, h1, h2, h3, h4⟩ := h
  have hold : ∀ n ∈ (dget d t).getD [], n ∉ ns := by
    intro n hn hns
    obtain ⟨l, hl, hnl⟩ := mem_getD_dget hn
    have := h3 t (mem_keys_of_dget hl) n (by rw [hl]; exact hnl)
    exact hfresh n hns (List.mem_map.mpr ⟨(n, t), this, rfl⟩)
  refine ⟨nodup_keys_dextend h0, ?_, ?_, ?_, ?_⟩
  · rw [List.map_append, List.map_map, List.nodup_append]
    have : (Prod.fst ∘ fun n => (n, t)) = (id : Nat → Nat) := rfl
    rw [this, List.map_id]
    refine ⟨h1, hnd, ?_⟩
    intro a ha b hb e
    subst e
    exact hfresh a hb ha
  · intro t' _
    rw [dget_dextend]
    by_cases e : t' = t
    · subst e
      simp only [if_true, Option.getD_some]
      rw [List.nodup_append]
      refine ⟨?_, hnd, ?_⟩
      · cases hd : dget d t' with
        | none => simp
        | some l =>
          have := h2 t' (mem_keys_of_dget hd)
          rw [hd] at this
          simpa using this
      · intro a ha b hb e
        subst e
        exact hold a ha hb
    · simp only [e, if_false]
      cases hd : dget d t' with
      | none => simp
      | some l =>
        have := h2 t' (mem_keys_of_dget hd)
        rw [hd] at this
        simpa using this
  · intro t' _ n hn
    rw [dget_dextend] at hn
    by_cases e : t' = t
    · subst e
      simp only [if_true, Option.getD_some, List.mem_append] at hn
      rcases hn with hn | hn
      · obtain ⟨l, hl, hnl⟩ := mem_getD_dget hn
        exact List.mem_append_left _ (h3 t' (mem_keys_of_dget hl) n (by rw [hl]; exact hnl))
      · exact List.mem_append_right _ (List.mem_map.mpr ⟨n, hn, rfl⟩)
    · simp only [e, if_false] at hn
      obtain ⟨l, hl, hnl⟩ := mem_getD_dget hn
      exact List.mem_append_left _ (h3 t' (mem_keys_of_dget hl) n (by rw [hl]; exact hnl))
  · intro q hq
    rw [dget_dextend]
    rcases List.mem_append.mp hq with hq | hq
    · have := h4 q hq
      by_cases e : q.2 = t
      · simp only [e, if_true, Option.getD_some]
        rw [e] at this
        exact List.mem_append_left _ this
      · simp only [e, if_false]; exact this
    · obtain ⟨n, hn, rfl⟩ := List.mem_map.mp hq
      simp only [if_true, Option.getD_some]
      exact List.mem_append_right _ hn

/-- the edge characterisation of the repaired loop, for every `near`, dictionary and node list -/
theorem mem_addCandEdges {near : Node → Node → Bool} {nodes : List (Node × Nat)} {d : FrameDict}
    (h : WF nodes d) {u v : Node} :
    (u, v) ∈ addCandEdges near nodes d ↔
      ∃ tu tv, (u, tu) ∈ nodes ∧ (v, tv) ∈ nodes ∧ tv = tu + 1 ∧ near u v = true := by
  unfold addCandEdges
  rw [orCompute_of_WF h, mem_addCandEdgesD]
  constructor
  · rintro ⟨f, prev, next, hp, hn, h1, h2, h3⟩
    exact ⟨f, f + 1, h.mem_iff.mp ⟨prev, hp, h1⟩, h.mem_iff.mp ⟨next, hn, h2⟩, rfl, h3⟩
  · rintro ⟨tu, tv, hu, hv, rfl, hn⟩
    obtain ⟨prev, hp, h1⟩ := h.mem_iff.mpr hu
    obtain ⟨next, hx, h2⟩ := h.mem_iff.mpr hv
    exact ⟨tu, prev, next, hp, hx, h1, h2, hn⟩

/-! ## Part 2: node extraction -/

/-! ### points list -/

theorem nodesFromPointsAux_spec (s0 : Nat) (ts : List Nat) :
    ∀ (i : Nat) (nodes : List (Node × Nat)) (d : FrameDict), WF nodes d →
      (∀ q ∈ nodes, q.1 < i) →
      (nodesFromPointsAux s0 ts i nodes d).1
          = nodes ++ (ts.zipIdx i).map (fun p => (p.2, p.1 * s0)) ∧
        WF (nodesFromPointsAux s0 ts i nodes d).1 (nodesFromPointsAux s0 ts i nodes d).2 := by
  induction ts with
  | nil => intro i nodes d h _; simpa [nodesFromPointsAux] using h
  | cons t rest ih =>
    intro i nodes d h hlt
    have hfresh : ∀ n ∈ [i], n ∉ nodes.map Prod.fst := by
      intro n hn hm
      simp at hn
      subst hn
      obtain ⟨q, hq, e⟩ := List.mem_map.mp hm
      have := hlt q hq
      rw [e] at this
      exact Nat.lt_irrefl _ this
    have hw := WF_extend h (t * s0) [i] (by simp) hfresh
    have hlt' : ∀ q ∈ nodes ++ [(i, t * s0)], q.1 < i + 1 := by
      intro q hq
      rcases List.mem_append.mp hq with hq | hq
      · exact Nat.lt_succ_of_lt (hlt q hq)
      · simp at hq; subst hq; exact Nat.lt_succ_self _
    have := ih (i + 1) (nodes ++ [(i, t * s0)]) (dappend d (t * s0) i) hw hlt'
    simp only [nodesFromPointsAux]
    refine ⟨?_, this.2⟩
    rw [this.1, List.zipIdx_cons, List.map_cons, List.append_assoc]
    rfl

/-! ### label array -/

theorem mem_dedup {a : Nat} {l : List Nat} : a ∈ dedup l ↔ a ∈ l := by
  induction l with
  | nil => simp [dedup]
  | cons x xs ih =>
    by_cases h : x ∈ xs
    · have hc : xs.contains x = true := List.contains_iff_mem.mpr h
      simp only [dedup, hc, if_true, ih, List.mem_cons]
      constructor
      · exact Or.inr
      · intro h'; rcases h' with h' | h'
        · subst h'; exact h
        · exact h'
    · have hc : xs.contains x = false := by
        cases hh : xs.contains x with
        | false => rfl
        | true => exact absurd (List.contains_iff_mem.mp hh) h
      simp only [dedup, hc, Bool.false_eq_true, if_false, List.mem_cons, ih]

theorem nodup_dedup (l : List Nat) : (dedup l).Nodup := by
  induction l with
  | nil => simp [dedup]
  | cons x xs ih =>
    by_cases h : x ∈ xs
    · have hc : xs.contains x = true := List.contains_iff_mem.mpr h
      simpa only [dedup, hc, if_true] using ih
    · have hc : xs.contains x = false := by
        cases hh : xs.contains x with
        | false => rfl
        | true => exact absurd (List.contains_iff_mem.mp hh) h
      simp only [dedup, hc, Bool.false_eq_true, if_false, List.nodup_cons]
      exact ⟨fun hm => h (mem_dedup.mp hm), ih⟩

theorem mem_labelsOf {l : Nat} {f : List Nat} : l ∈ labelsOf f ↔ l ≠ 0 ∧ l ∈ f := by
  unfold labelsOf
  rw [mem_sortNat, mem_dedup, List.mem_filter]
  constructor
  · rintro ⟨h1, h2⟩; exact ⟨by simpa using h2, h1⟩
  · rintro ⟨h1, h2⟩; exact ⟨h2, by simpa using h1⟩

theorem nodup_labelsOf (f : List Nat) : (labelsOf f).Nodup :=
  nodup_sortNat.mpr (nodup_dedup _)

/-- the node record `nodes_from_segmentation` creates for label `l` of `frame` at time `t` -/
def mkDet (shape : List Nat) (frame : List Nat) (t : Nat) (l : Nat) : Det :=
  ⟨l, t, frame.count l, posSum shape frame l⟩

theorem addRegions_some {shape : List Nat} {frame : List Nat} {t : Nat} (ls : List Nat) :
    ∀ (nodes : List Det), ls.Nodup → (∀ l ∈ ls, l ∉ nodes.map Det.id) →
      addRegions shape frame t ls nodes = some (nodes ++ ls.map (mkDet shape frame t)) := by
  induction ls with
  | nil => intro nodes _ _; simp [addRegions]
  | cons l ls ih =>
    intro nodes hnd hfresh
    have hl : l ∉ nodes.map Det.id := hfresh l List.mem_cons_self
    have hc : (nodes.map Det.id).contains l = false := by
      cases hh : (nodes.map Det.id).contains l with
      | false => rfl
      | true => exact absurd (List.contains_iff_mem.mp hh) hl
    rw [List.nodup_cons] at hnd
    simp only [addRegions, hc, Bool.false_eq_true, if_false]
    rw [ih _ hnd.2]
    · simp [mkDet, List.append_assoc]
    · intro l' hl' hm
      rw [List.map_append, List.mem_append] at hm
      rcases hm with hm | hm
      · exact hfresh l' (List.mem_cons_of_mem _ hl') hm
      · simp at hm; subst hm; exact hnd.1 hl'

theorem addRegions_none {shape : List Nat} {frame : List Nat} {t : Nat} (ls : List Nat) :
    ∀ (nodes : List Det) (l : Nat), l ∈ ls → l ∈ nodes.map Det.id →
      addRegions shape frame t ls nodes = none := by
  induction ls with
  | nil => intro nodes l h; cases h
  | cons l0 ls ih =>
    intro nodes l hl hm
    cases hh : (nodes.map Det.id).contains l0 with
    | true => simp only [addRegions, hh, if_true]
    | false =>
      simp only [addRegions, hh, Bool.false_eq_true, if_false]
      have hne : l ≠ l0 := by
        intro e; subst e
        have := List.contains_iff_mem.mpr hm
        rw [hh] at this; cases this
      rcases List.mem_cons.mp hl with e | hl'
      · exact absurd e hne
      · apply ih _ l hl'
        rw [List.map_append, List.mem_append]
        exact Or.inl hm

/-- `n` is the record of a non-zero label of one of the (frame, time) pairs `zs` -/
def FromFrames (shape : List Nat) (zs : List (List Nat × Nat)) (n : Det) : Prop :=
  ∃ p ∈ zs, n.id ≠ 0 ∧ n.id ∈ p.1 ∧ n = mkDet shape p.1 p.2 n.id

theorem detTimes_fst (nodes : List Det) : (detTimes nodes).map Prod.fst = nodes.map Det.id := by
  simp [detTimes, List.map_map, Function.comp_def]

theorem detTimes_append_mk (shape : List Nat) (frame : List Nat) (t : Nat) (nodes : List Det)
    (ls : List Nat) :
    detTimes (nodes ++ ls.map (mkDet shape frame t)) = detTimes nodes ++ ls.map (fun n => (n, t)) := by
  simp [detTimes, List.map_map, Function.comp_def, mkDet]

theorem nodesFromSegAux_some (shape : List Nat) (rest : List (List Nat)) :
    ∀ (t : Nat) (nodes : List Det) (d : FrameDict) (nodes' : List Det) (d' : FrameDict),
      nodesFromSegAux shape rest t nodes d = some (nodes', d') → WF (detTimes nodes) d →
      WF (detTimes nodes') d' ∧
        ∀ n, n ∈ nodes' ↔ n ∈ nodes ∨ FromFrames shape (rest.zipIdx t) n := by
  induction rest with
  | nil =>
    intro t nodes d nodes' d' h hw
    simp only [nodesFromSegAux, Option.some.injEq, Prod.mk.injEq] at h
    obtain ⟨rfl, rfl⟩ := h
    refine ⟨hw, fun n => ?_⟩
    simp [FromFrames]
  | cons frame rest ih =>
    intro t nodes d nodes' d' h hw
    by_cases hex : ∃ l ∈ labelsOf frame, l ∈ nodes.map Det.id
    · obtain ⟨l, hl, hm⟩ := hex
      simp [nodesFromSegAux, addRegions_none (labelsOf frame) nodes l hl hm] at h
    · have hfresh : ∀ l ∈ labelsOf frame, l ∉ nodes.map Det.id :=
        fun l hl hm => hex ⟨l, hl, hm⟩
      have hreg := addRegions_some (shape := shape) (frame := frame) (t := t)
        (labelsOf frame) nodes (nodup_labelsOf frame) hfresh
      simp only [nodesFromSegAux, hreg] at h
      -- well-formedness after this frame
      have hw1 : WF (detTimes (nodes ++ (labelsOf frame).map (mkDet shape frame t)))
          (if (labelsOf frame).isEmpty then d else dextend d t (labelsOf frame)) := by
        rw [detTimes_append_mk]
        cases hls : labelsOf frame with
        | nil => simpa using hw
        | cons a b =>
          simp only [List.isEmpty_cons, Bool.false_eq_true, if_false]
          rw [← hls]
          exact WF_extend hw t (labelsOf frame) (nodup_labelsOf frame)
            (by rw [detTimes_fst]; exact hfresh)
      obtain ⟨hwf, hmem⟩ := ih (t + 1) _ _ nodes' d' h hw1
      refine ⟨hwf, fun n => ?_⟩
      rw [hmem n, List.zipIdx_cons, List.mem_append, List.mem_map]
      constructor
      · rintro ((hn | ⟨l, hl, rfl⟩) | ⟨p, hp, hrest⟩)
        · exact Or.inl hn
        · have := mem_labelsOf.mp hl
          exact Or.inr ⟨(frame, t), List.mem_cons_self, this.1, this.2, rfl⟩
        · exact Or.inr ⟨p, List.mem_cons_of_mem _ hp, hrest⟩
      · rintro (hn | ⟨p, hp, h1, h2, h3⟩)
        · exact Or.inl (Or.inl hn)
        · rcases List.mem_cons.mp hp with e | hp'
          · subst e
            exact Or.inl (Or.inr ⟨n.id, mem_labelsOf.mpr ⟨h1, h2⟩, h3.symm⟩)
          · exact Or.inr ⟨p, hp', h1, h2, h3⟩

/-- a non-zero label occurs in two different (frame, time) pairs of `zs` -/
def DupIn (zs : List (List Nat × Nat)) : Prop :=
  ∃ p1 ∈ zs, ∃ p2 ∈ zs, p1.2 < p2.2 ∧ ∃ l, l ≠ 0 ∧ l ∈ p1.1 ∧ l ∈ p2.1

theorem nodesFromSegAux_none (shape : List Nat) (rest : List (List Nat)) :
    ∀ (t : Nat) (nodes : List Det) (d : FrameDict),
      nodesFromSegAux shape rest t nodes d = none ↔
        (∃ p ∈ rest.zipIdx t, ∃ l, l ≠ 0 ∧ l ∈ p.1 ∧ l ∈ nodes.map Det.id) ∨
          DupIn (rest.zipIdx t) := by
  induction rest with
  | nil =>
    intro t nodes d
    simp [nodesFromSegAux, DupIn]
  | cons frame rest ih =>
    intro t nodes d
    by_cases hex : ∃ l ∈ labelsOf frame, l ∈ nodes.map Det.id
    · obtain ⟨l, hl, hm⟩ := hex
      have hl' := mem_labelsOf.mp hl
      simp only [nodesFromSegAux, addRegions_none (labelsOf frame) nodes l hl hm, true_iff]
      exact Or.inl ⟨(frame, t), by rw [List.zipIdx_cons]; exact List.mem_cons_self,
        l, hl'.1, hl'.2, hm⟩
    · have hfresh : ∀ l ∈ labelsOf frame, l ∉ nodes.map Det.id :=
        fun l hl hm => hex ⟨l, hl, hm⟩
      have hreg := addRegions_some (shape := shape) (frame := frame) (t := t)
        (labelsOf frame) nodes (nodup_labelsOf frame) hfresh
      simp only [nodesFromSegAux, hreg]
      rw [ih, List.zipIdx_cons]
      have hids : ∀ l, l ∈ (nodes ++ (labelsOf frame).map (mkDet shape frame t)).map Det.id ↔
          l ∈ nodes.map Det.id ∨ l ∈ labelsOf frame := by
        intro l
        simp [List.map_append, List.map_map, Function.comp_def, mkDet]
      have hge : ∀ p ∈ rest.zipIdx (t + 1), t < p.2 := by
        intro p hp
        have := List.le_snd_of_mem_zipIdx hp
        omega
      constructor
      · rintro (⟨p, hp, l, h0, h1, h2⟩ | ⟨p1, hp1, p2, hp2, hlt, hl⟩)
        · rcases (hids l).mp h2 with h2 | h2
          · exact Or.inl ⟨p, List.mem_cons_of_mem _ hp, l, h0, h1, h2⟩
          · exact Or.inr ⟨(frame, t), List.mem_cons_self, p, List.mem_cons_of_mem _ hp,
              hge p hp, l, h0, (mem_labelsOf.mp h2).2, h1⟩
        · exact Or.inr ⟨p1, List.mem_cons_of_mem _ hp1, p2, List.mem_cons_of_mem _ hp2, hlt, hl⟩
      · rintro (⟨p, hp, l, h0, h1, h2⟩ | ⟨p1, hp1, p2, hp2, hlt, l, h0, h1, h2⟩)
        · rcases List.mem_cons.mp hp with e | hp'
          · subst e
            exact absurd h2 (hfresh l (mem_labelsOf.mpr ⟨h0, h1⟩))
          · exact Or.inl ⟨p, hp', l, h0, h1, (hids l).mpr (Or.inl h2)⟩
        · rcases List.mem_cons.mp hp1 with e1 | hp1' <;> rcases List.mem_cons.mp hp2 with e2 | hp2'
          · subst e1; subst e2; simp at hlt
          · subst e1
            exact Or.inl ⟨p2, hp2', l, h0, h2, (hids l).mpr (Or.inr (mem_labelsOf.mpr ⟨h0, h1⟩))⟩
          · subst e2
            have := hge p1 hp1'
            simp at hlt
            omega
          · exact Or.inr ⟨p1, hp1', p2, hp2', hlt, l, h0, h1, h2⟩

/-! ## Part 3: IoU -/

/-- number of pixel positions carrying `u` in the first and `v` in the second frame: |A ∩ B| -/
def interCount (u v : Nat) (f1 f2 : List Nat) : Nat :=
  (f1.zip f2).countP (fun p => p.1 == u && p.2 == v)

/-- number of pixel positions carrying `u` in the first or `v` in the second frame: |A ∪ B| -/
def unionCount (u v : Nat) (f1 f2 : List Nat) : Nat :=
  (f1.zip f2).countP (fun p => p.1 == u || p.2 == v)

/-- the true overlap as an `IouVal` (`none` is the number 0 = 0 / |A ∪ B|) -/
def overlap (u v : Nat) (f1 f2 : List Nat) : IouVal :=
  if interCount u v f1 f2 = 0 then none else some (interCount u v f1 f2, unionCount u v f1 f2)

theorem mem_dedupP {a : Nat × Nat} {l : List (Nat × Nat)} : a ∈ dedupP l ↔ a ∈ l := by
  induction l with
  | nil => simp [dedupP]
  | cons x xs ih =>
    by_cases h : x ∈ xs
    · have hc : xs.contains x = true := List.contains_iff_mem.mpr h
      simp only [dedupP, hc, if_true, ih, List.mem_cons]
      constructor
      · exact Or.inr
      · intro h'; rcases h' with h' | h'
        · subst h'; exact h
        · exact h'
    · have hc : xs.contains x = false := by
        cases hh : xs.contains x with
        | false => rfl
        | true => exact absurd (List.contains_iff_mem.mp hh) h
      simp only [dedupP, hc, Bool.false_eq_true, if_false, List.mem_cons, ih]

theorem alook_insertAll_map (val : Nat × Nat → Nat × Nat) (k : Nat × Nat) (ks : List (Nat × Nat)) :
    ∀ acc : IouDict, alook k (insertAll acc (ks.map (fun p => (p, val p)))) =
      if k ∈ ks then some (val k) else alook k acc := by
  induction ks with
  | nil => intro acc; simp [insertAll]
  | cons p r ih =>
    intro acc
    have hstep : insertAll acc (((p :: r)).map (fun p => (p, val p))) =
        insertAll (aset p (val p) acc) (r.map (fun p => (p, val p))) := by
      simp [insertAll]
    rw [hstep, ih, alook_aset]
    by_cases h1 : k ∈ r
    · simp [h1]
    · by_cases h2 : p = k
      · subst h2; simp
      · have h3 : ¬ k = p := fun e => h2 e.symm
        simp [h1, h2, h3]

theorem mem_nzPairs {u v : Nat} {f1 f2 : List Nat} :
    (u, v) ∈ nzPairs f1 f2 ↔ (u, v) ∈ f1.zip f2 ∧ u ≠ 0 ∧ v ≠ 0 := by
  simp [nzPairs, List.mem_filter]

theorem alook_insertAll_computeIous (u v : Nat) (f1 f2 : List Nat) (acc : IouDict) :
    alook (u, v) (insertAll acc (computeIous f1 f2)) =
      if (u, v) ∈ nzPairs f1 f2 then
        some ((nzPairs f1 f2).count (u, v),
          f1.count u + f2.count v - (nzPairs f1 f2).count (u, v))
      else alook (u, v) acc := by
  unfold computeIous
  rw [alook_insertAll_map (fun p => ((nzPairs f1 f2).count p,
    f1.count p.1 + f2.count p.2 - (nzPairs f1 f2).count p))]
  simp only [mem_dedupP]

/-! counting -/

theorem countP_incl_excl (u v : Nat) (l : List (Nat × Nat)) :
    l.countP (fun p => p.1 == u) + l.countP (fun p => p.2 == v) =
      l.countP (fun p => p.1 == u || p.2 == v) + l.countP (fun p => p.1 == u && p.2 == v) := by
  induction l with
  | nil => simp
  | cons p r ih =>
    simp only [List.countP_cons]
    cases h1 : (p.1 == u) <;> cases h2 : (p.2 == v) <;> simp <;> omega

theorem count_fst_zip (u : Nat) (f1 f2 : List Nat) (h : f1.length ≤ f2.length) :
    f1.count u = (f1.zip f2).countP (fun p => p.1 == u) := by
  have e : f1 = (f1.zip f2).map Prod.fst := (List.map_fst_zip h).symm
  conv => lhs; rw [e]
  rw [List.count_eq_countP, List.countP_map]
  rfl

theorem count_snd_zip (v : Nat) (f1 f2 : List Nat) (h : f2.length ≤ f1.length) :
    f2.count v = (f1.zip f2).countP (fun p => p.2 == v) := by
  have e : f2 = (f1.zip f2).map Prod.snd := (List.map_snd_zip h).symm
  conv => lhs; rw [e]
  rw [List.count_eq_countP, List.countP_map]
  rfl

theorem count_nzPairs (u v : Nat) (f1 f2 : List Nat) (hu : u ≠ 0) (hv : v ≠ 0) :
    (nzPairs f1 f2).count (u, v) = interCount u v f1 f2 := by
  unfold nzPairs interCount
  rw [List.count_filter (by simp [hu, hv]), List.count_eq_countP]
  apply List.countP_congr
  intro p _
  obtain ⟨a, b⟩ := p
  simp [Prod.ext_iff]

theorem interCount_eq_zero {u v : Nat} {f1 f2 : List Nat} :
    interCount u v f1 f2 = 0 ↔ (u, v) ∉ f1.zip f2 := by
  unfold interCount
  rw [List.countP_eq_zero]
  constructor
  · intro h hm
    exact h (u, v) hm (by simp)
  · intro h p hp hp'
    obtain ⟨a, b⟩ := p
    simp at hp'
    obtain ⟨rfl, rfl⟩ := hp'
    exact h hp

theorem union_formula (u v : Nat) (f1 f2 : List Nat) (h : f1.length = f2.length) :
    f1.count u + f2.count v - interCount u v f1 f2 = unionCount u v f1 f2 := by
  have := countP_incl_excl u v (f1.zip f2)
  rw [count_fst_zip u f1 f2 (by omega), count_snd_zip v f1 f2 (by omega)]
  unfold interCount unionCount
  omega

/-- one frame pair's contribution to the table, in terms of the true overlap -/
theorem alook_insertAll_computeIous' (u v : Nat) (f1 f2 : List Nat) (acc : IouDict)
    (hu : u ≠ 0) (hv : v ≠ 0) (h : f1.length = f2.length) :
    alook (u, v) (insertAll acc (computeIous f1 f2)) =
      if (u, v) ∈ f1.zip f2 then some (interCount u v f1 f2, unionCount u v f1 f2)
      else alook (u, v) acc := by
  rw [alook_insertAll_computeIous, count_nzPairs u v f1 f2 hu hv, union_formula u v f1 f2 h]
  by_cases hm : (u, v) ∈ f1.zip f2
  · have : (u, v) ∈ nzPairs f1 f2 := mem_nzPairs.mpr ⟨hm, hu, hv⟩
    simp [hm, this]
  · have : (u, v) ∉ nzPairs f1 f2 := fun h' => hm (mem_nzPairs.mp h').1
    simp [hm, this]

/-- the body of the loop of `_get_iou_dict` -/
def iouTableStep (frames : List (List Nat)) (acc : IouDict) (f : Nat) : IouDict :=
  insertAll acc (computeIous (frames.getD f []) (frames.getD (f + 1) []))

theorem getIouDict_eq (frames : List (List Nat)) :
    getIouDict frames = (List.range (frames.length - 1)).foldl (iouTableStep frames) [] := rfl

theorem alook_foldl_iouTableStep (frames : List (List Nat)) (u v t : Nat)
    (hu : u ≠ 0) (hv : v ≠ 0)
    (hlen : (frames.getD t []).length = (frames.getD (t + 1) []).length)
    (is : List Nat) :
    ∀ acc : IouDict,
      (∀ i ∈ is, i ≠ t → (u, v) ∉ nzPairs (frames.getD i []) (frames.getD (i + 1) [])) →
      alook (u, v) (is.foldl (iouTableStep frames) acc) =
        if t ∈ is ∧ (u, v) ∈ (frames.getD t []).zip (frames.getD (t + 1) []) then
          some (interCount u v (frames.getD t []) (frames.getD (t + 1) []),
                unionCount u v (frames.getD t []) (frames.getD (t + 1) []))
        else alook (u, v) acc := by
  induction is with
  | nil => intro acc _; simp
  | cons i r ih =>
    intro acc hothers
    rw [List.foldl_cons, ih _ (fun j hj => hothers j (List.mem_cons_of_mem _ hj))]
    by_cases e : i = t
    · subst e
      unfold iouTableStep
      rw [alook_insertAll_computeIous' u v _ _ acc hu hv hlen]
      by_cases hm : (u, v) ∈ (frames.getD i []).zip (frames.getD (i + 1) [])
      · simp only [hm, and_true, List.mem_cons, true_or, if_true, ite_self]
      · simp only [hm, and_false, if_false]
    · have hno := hothers i List.mem_cons_self e
      unfold iouTableStep
      rw [alook_insertAll_computeIous]
      have e' : ¬ t = i := fun h => e h.symm
      simp only [hno, if_false, List.mem_cons, e', false_or]

/-- the IoU table entry of `(u, v)` when `u` is a label of frame `t` only -/
theorem alook_getIouDict (frames : List (List Nat)) (u v t : Nat) (fu fv : List Nat)
    (hu : u ≠ 0) (hv : v ≠ 0)
    (h1 : frames[t]? = some fu) (h2 : frames[t + 1]? = some fv) (hlen : fu.length = fv.length)
    (huniq : ∀ i f, frames[i]? = some f → u ∈ f → i = t) :
    alook (u, v) (getIouDict frames) = overlap u v fu fv := by
  have g1 : frames.getD t [] = fu := by rw [List.getD_eq_getElem?_getD, h1]; rfl
  have g2 : frames.getD (t + 1) [] = fv := by rw [List.getD_eq_getElem?_getD, h2]; rfl
  have hlt : t + 1 < frames.length := by
    apply Classical.byContradiction
    intro hn
    have : frames[t + 1]? = none := List.getElem?_eq_none (by omega)
    rw [this] at h2; cases h2
  rw [getIouDict_eq, alook_foldl_iouTableStep frames u v t hu hv (by rw [g1, g2]; exact hlen)]
  · have hin : t ∈ List.range (frames.length - 1) := List.mem_range.mpr (by omega)
    rw [g1, g2]
    unfold overlap
    by_cases hm : (u, v) ∈ fu.zip fv
    · have : interCount u v fu fv ≠ 0 := fun h0 => interCount_eq_zero.mp h0 hm
      simp [hin, hm, this]
    · have : interCount u v fu fv = 0 := interCount_eq_zero.mpr hm
      simp [hm, this, alook]
  · intro i _ hne hm
    have hz := (mem_nzPairs.mp hm).1
    have hmem : u ∈ frames.getD i [] := (List.of_mem_zip hz).1
    rw [List.getD_eq_getElem?_getD] at hmem
    cases hf : frames[i]? with
    | none => rw [hf] at hmem; simp at hmem
    | some f =>
      rw [hf] at hmem
      exact hne (huniq i f hf hmem)

/-! ### `add_iou` -/

theorem mem_iouPairs {prev next : List Node} {u v : Node} :
    (u, v) ∈ iouPairs prev next ↔ u ∈ prev ∧ v ∈ next := by
  unfold iouPairs
  simp only [List.mem_flatMap, List.mem_map, Prod.mk.injEq]
  constructor
  · rintro ⟨a, ha, b, hb, rfl, rfl⟩; exact ⟨ha, hb⟩
  · rintro ⟨h1, h2⟩; exact ⟨u, h1, v, h2, rfl, rfl⟩

theorem alook_foldl_iouSet (ious : IouDict) (edges : List Edge) (e : Edge) (l : List Edge) :
    ∀ attrs : EdgeIou, alook e (l.foldl (iouSet ious edges) attrs) =
      if e ∈ l ∧ e ∈ edges then some (alook e ious) else alook e attrs := by
  induction l with
  | nil => intro attrs; simp
  | cons x r ih =>
    intro attrs
    rw [List.foldl_cons, ih]
    by_cases hx : x ∈ edges
    · have hc : edges.contains x = true := List.contains_iff_mem.mpr hx
      simp only [iouSet, hc, if_true, alook_aset]
      by_cases h1 : x = e
      · subst h1
        simp [hx]
      · have h2 : ¬ e = x := fun h => h1 h.symm
        simp [h1, h2]
    · have hc : edges.contains x = false := contains_false_of_not_mem hx
      simp only [iouSet, hc, Bool.false_eq_true, if_false]
      by_cases h1 : e = x
      · subst h1
        simp [hx]
      · simp [h1]

/-- the pairs one visit of the `add_iou` loop looks at -/
def visited (d : FrameDict) (f : Nat) : List Edge :=
  match dget d (f + 1) with
  | none => []
  | some next => iouPairs ((dget d f).getD []) next

theorem alook_iouStep (ious : IouDict) (d : FrameDict) (edges : List Edge) (e : Edge)
    (attrs : EdgeIou) (f : Nat) :
    alook e (iouStep ious d edges attrs f) =
      if e ∈ visited d f ∧ e ∈ edges then some (alook e ious) else alook e attrs := by
  unfold iouStep visited
  cases dget d (f + 1) with
  | none => simp
  | some next => exact alook_foldl_iouSet ious edges e _ attrs

theorem alook_foldl_iouStep (ious : IouDict) (d : FrameDict) (edges : List Edge) (e : Edge)
    (fs : List Nat) :
    ∀ attrs : EdgeIou, alook e (fs.foldl (iouStep ious d edges) attrs) =
      if (∃ f ∈ fs, e ∈ visited d f) ∧ e ∈ edges then some (alook e ious) else alook e attrs := by
  induction fs with
  | nil => intro attrs; simp
  | cons f r ih =>
    intro attrs
    rw [List.foldl_cons, ih, alook_iouStep]
    by_cases he : e ∈ edges
    · by_cases h1 : ∃ g ∈ r, e ∈ visited d g
      · simp [he, h1]
      · by_cases h2 : e ∈ visited d f
        · simp [he, h1, h2]
        · simp [he, h1, h2]
    · simp [he]

/-- every edge joining consecutive dictionary frames gets the table value -/
theorem alook_addIou {nodes : List (Node × Nat)} {d : FrameDict} (hw : WF nodes d)
    (frames : List (List Nat)) (edges : List Edge) {u v tu : Nat}
    (he : (u, v) ∈ edges) (h1 : (u, tu) ∈ nodes) (h2 : (v, tu + 1) ∈ nodes) :
    alook (u, v) (addIou frames d edges) = some (alook (u, v) (getIouDict frames)) := by
  unfold addIou
  rw [alook_foldl_iouStep]
  obtain ⟨prev, hp, hu⟩ := hw.mem_iff.mpr h1
  obtain ⟨next, hn, hv⟩ := hw.mem_iff.mpr h2
  have : ∃ f ∈ sortedKeys d, (u, v) ∈ visited d f := by
    refine ⟨tu, mem_sortNat.mpr (mem_keys_of_dget hp), ?_⟩
    unfold visited
    rw [hn, hp]
    exact mem_iouPairs.mpr ⟨hu, hv⟩
  simp [this, he]

end Ft.CandGraph
