/-
  FtProofs.InverseLemmas — helper lemmas of package PE (C10, C11, C01 at primitive level).

  * association-list facts (`alook`/`aset`/`adel`)
  * `Equiv` is an equivalence relation; `trackNeighbors` stays inside the `Equiv` class
  * the configuration frame `SameCfg` (history, refresh log, registry, annotator flags) that
    every primitive, the relabel walk, rollback and all seven user actions preserve
  * per-primitive effect lemmas used by the inverse laws of `Props/C01.lean`
-/
import FtProofs.SessionSpec
open List
namespace Ft

/-! ### association lists -/
section Assoc
variable {α β : Type} [BEq α] [LawfulBEq α]

theorem alook_aset_self (k : α) (v : β) (l : List (α × β)) : alook k (aset k v l) = some v := by
  induction l with
  | nil => simp [aset, alook]
  | cons p r ih =>
    obtain ⟨k', v'⟩ := p
    by_cases h : k' = k
    · subst h; simp [aset, alook]
    · simp [aset, alook, h, ih]

theorem alook_aset_ne {k k' : α} (h : k' ≠ k) (v : β) (l : List (α × β)) :
    alook k' (aset k v l) = alook k' l := by
  induction l with
  | nil => simp [aset, alook, Ne.symm h]
  | cons p r ih =>
    obtain ⟨k₀, v₀⟩ := p
    by_cases h0 : k₀ = k
    · subst h0; simp [aset, alook, Ne.symm h]
    · by_cases h1 : k₀ = k'
      · subst h1; simp [aset, alook, h0]
      · simp [aset, alook, h0, h1, ih]

theorem alook_aset (k k' : α) (v : β) (l : List (α × β)) :
    alook k' (aset k v l) = if k' == k then some v else alook k' l := by
  by_cases h : k' = k
  · subst h; simp [alook_aset_self]
  · simp [h, alook_aset_ne h]

theorem aset_aset_same (k : α) (v w : β) (l : List (α × β)) :
    aset k v (aset k w l) = aset k v l := by
  induction l with
  | nil => simp [aset]
  | cons p r ih =>
    obtain ⟨k₀, v₀⟩ := p
    by_cases h0 : k₀ = k
    · subst h0; simp [aset]
    · simp [aset, h0, ih]

theorem aset_eq_self {k : α} {v : β} {l : List (α × β)} (h : alook k l = some v) :
    aset k v l = l := by
  induction l with
  | nil => simp [alook] at h
  | cons p r ih =>
    obtain ⟨k₀, v₀⟩ := p
    by_cases h0 : k₀ = k
    · subst h0; simp [alook] at h; simp [aset, h]
    · simp [alook, h0] at h; simp [aset, h0, ih h]

theorem alook_isSome_aset {k k' : α} (v : β) {l : List (α × β)} (h : (alook k' l).isSome) :
    (alook k' (aset k v l)).isSome := by
  rw [alook_aset]; split <;> simp [h]

theorem aset_comm {k k' : α} (hne : k ≠ k') (a b : β) {l : List (α × β)}
    (hk : (alook k l).isSome) (hk' : (alook k' l).isSome) :
    aset k a (aset k' b l) = aset k' b (aset k a l) := by
  induction l with
  | nil => simp [alook] at hk
  | cons p r ih =>
    obtain ⟨k₀, v₀⟩ := p
    by_cases h0 : k₀ = k
    · subst h0
      simp [aset, hne]
    · by_cases h1 : k₀ = k'
      · subst h1
        simp [aset, h0]
      · simp [alook, h0] at hk
        simp [alook, h1] at hk'
        simp [aset, h0, h1, ih hk hk']

theorem alook_adel_ne {k k' : α} (h : k' ≠ k) (l : List (α × β)) :
    alook k' (adel k l) = alook k' l := by
  induction l with
  | nil => simp [adel, alook]
  | cons p r ih =>
    obtain ⟨k₀, v₀⟩ := p
    by_cases h0 : k₀ = k
    · subst h0; simp [adel, alook, Ne.symm h]
    · by_cases h1 : k₀ = k'
      · subst h1; simp [adel, alook, h0]
      · simp [adel, alook, h0, h1, ih]

/-- `setAll ks v l`: write `v` under every key of `ks` (what `rpUpdate` does to one record) -/
def setAll (ks : List α) (v : β) (l : List (α × β)) : List (α × β) :=
  ks.foldl (fun o k => aset k v o) l

omit [LawfulBEq α] in
theorem setAll_nil (v : β) (l : List (α × β)) : setAll ([] : List α) v l = l := rfl
omit [LawfulBEq α] in
theorem setAll_cons (k : α) (ks : List α) (v : β) (l : List (α × β)) :
    setAll (k :: ks) v l = setAll ks v (aset k v l) := rfl

theorem alook_setAll_not_mem {k : α} {ks : List α} (h : k ∉ ks) (v : β) (l : List (α × β)) :
    alook k (setAll ks v l) = alook k l := by
  induction ks generalizing l with
  | nil => rfl
  | cons k₀ r ih =>
    simp only [mem_cons, not_or] at h
    rw [setAll_cons, ih h.2, alook_aset_ne h.1]

theorem alook_setAll_mem {k : α} {ks : List α} (h : k ∈ ks) (v : β) (l : List (α × β)) :
    alook k (setAll ks v l) = some v := by
  induction ks generalizing l with
  | nil => simp at h
  | cons k₀ r ih =>
    rw [setAll_cons]
    by_cases hr : k ∈ r
    · exact ih hr _
    · rcases mem_cons.mp h with h | h
      · subst h; rw [alook_setAll_not_mem hr, alook_aset_self]
      · exact absurd h hr

theorem aset_setAll_comm {k : α} {ks : List α} (hk : k ∉ ks) (a v : β) {l : List (α × β)}
    (hp : (alook k l).isSome) (hps : ∀ k' ∈ ks, (alook k' l).isSome) :
    aset k a (setAll ks v l) = setAll ks v (aset k a l) := by
  induction ks generalizing l with
  | nil => rfl
  | cons k₀ r ih =>
    simp only [mem_cons, not_or] at hk
    rw [setAll_cons, setAll_cons]
    rw [ih hk.2 (alook_isSome_aset _ hp)
      (fun k' h' => alook_isSome_aset _ (hps k' (mem_cons_of_mem _ h')))]
    rw [aset_comm hk.1 a v hp (hps k₀ mem_cons_self)]

/-- writing `v₁` under all keys and then the old common value `v₀` gives the list back -/
theorem setAll_setAll_restore {ks : List α} (hn : ks.Nodup) (v₀ v₁ : β) {l : List (α × β)}
    (h : ∀ k ∈ ks, alook k l = some v₀) : setAll ks v₀ (setAll ks v₁ l) = l := by
  induction ks generalizing l with
  | nil => rfl
  | cons k r ih =>
    have hk : k ∉ r := (nodup_cons.mp hn).1
    have hr := (nodup_cons.mp hn).2
    have hpres : ∀ k' ∈ k :: r, (alook k' l).isSome := fun k' h' => by simp [h k' h']
    rw [setAll_cons, setAll_cons]
    rw [aset_setAll_comm hk v₀ v₁ (alook_isSome_aset _ (hpres k mem_cons_self))
      (fun k' h' => alook_isSome_aset _ (hpres k' (mem_cons_of_mem _ h')))]
    rw [aset_aset_same, aset_eq_self (h k mem_cons_self)]
    exact ih hr (fun k' h' => h k' (mem_cons_of_mem _ h'))

end Assoc

namespace St

/-! ### `Equiv` is an equivalence relation -/

theorem Equiv.refl (s : St) : Equiv s s :=
  ⟨fun _ => Iff.rfl, fun _ => Iff.rfl, rfl, fun _ _ => Iff.rfl, fun _ _ => Iff.rfl,
   rfl, rfl, rfl, rfl, rfl, rfl, rfl, rfl⟩

theorem Equiv.of_eq {s t : St} (h : s = t) : Equiv s t := h ▸ Equiv.refl s

theorem Equiv.symm {s t : St} (h : Equiv s t) : Equiv t s := by
  obtain ⟨h1, h2, h3, h4, h5, h6, h7, h8, h9, h10, h11, h12, h13⟩ := h
  exact ⟨fun r => (h1 r).symm, fun r => (h2 r).symm, h3.symm, fun a b => (h4 a b).symm,
    fun a b => (h5 a b).symm, h6.symm, h7.symm, h8.symm, h9.symm, h10.symm, h11.symm,
    h12.symm, h13.symm⟩

theorem Equiv.trans {s t u : St} (h : Equiv s t) (g : Equiv t u) : Equiv s u := by
  obtain ⟨h1, h2, h3, h4, h5, h6, h7, h8, h9, h10, h11, h12, h13⟩ := h
  obtain ⟨g1, g2, g3, g4, g5, g6, g7, g8, g9, g10, g11, g12, g13⟩ := g
  exact ⟨fun r => (h1 r).trans (g1 r), fun r => (h2 r).trans (g2 r), h3.trans g3,
    fun a b => (h4 a b).trans (g4 a b), fun a b => (h5 a b).trans (g5 a b),
    h6.trans g6, h7.trans g7, h8.trans g8, h9.trans g9, h10.trans g10, h11.trans g11,
    h12.trans g12, h13.trans g13⟩

/-! ### `trackNeighbors` only re-sorts one lookup list -/

theorem pe_mem_insByTime (s : St) (x y : Node) (l : List Node) :
    y ∈ s.insByTime x l ↔ y = x ∨ y ∈ l := by
  induction l with
  | nil => simp [insByTime]
  | cons z r ih =>
    simp only [insByTime]
    split
    · simp only [mem_cons, ih]; exact or_left_comm
    · simp only [mem_cons]

theorem pe_mem_sortByTime (s : St) (y : Node) (l : List Node) : y ∈ s.sortByTime l ↔ y ∈ l := by
  have : ∀ acc, y ∈ l.foldl (fun acc x => insByTime s x acc) acc ↔ y ∈ acc ∨ y ∈ l := by
    induction l with
    | nil => simp
    | cons x r ih =>
      intro acc
      simp only [foldl_cons, ih, pe_mem_insByTime, mem_cons]
      constructor
      · rintro ((h | h) | h)
        · exact Or.inr (Or.inl h)
        · exact Or.inl h
        · exact Or.inr (Or.inr h)
      · rintro (h | h | h)
        · exact Or.inl (Or.inr h)
        · exact Or.inl (Or.inl h)
        · exact Or.inr h
  simpa [sortByTime] using this []

/-- the state returned by `trackNeighbors` is `s` with one `t2n` entry permuted -/
theorem trackNeighbors_fst (s : St) (tid time : Nat) :
    (s.trackNeighbors tid time).1 = s ∨
    ∃ cands, alook tid s.t2n = some cands ∧
      (s.trackNeighbors tid time).1 = { s with t2n := aset tid (s.sortByTime cands) s.t2n } := by
  unfold trackNeighbors
  split
  · exact Or.inl rfl
  · exact Or.inl rfl
  · rename_i cands _ h
    exact Or.inr ⟨cands, h, rfl⟩

theorem trackNeighbors_equiv (s : St) (tid time : Nat) :
    Equiv (s.trackNeighbors tid time).1 s := by
  rcases trackNeighbors_fst s tid time with h | ⟨cands, hc, h⟩
  · rw [h]; exact Equiv.refl s
  · rw [h]
    refine ⟨fun _ => Iff.rfl, fun _ => Iff.rfl, rfl, ?_, fun _ _ => Iff.rfl,
      rfl, rfl, rfl, rfl, rfl, rfl, rfl, rfl⟩
    intro id n
    show (∃ l, alook id (aset tid (s.sortByTime cands) s.t2n) = some l ∧ n ∈ l) ↔ _
    by_cases hid : id = tid
    · subst hid
      rw [alook_aset_self, hc]
      simp [pe_mem_sortByTime]
    · rw [alook_aset_ne hid]


/-! ### the configuration frame: history, refresh log, registry and annotator flags -/

/-- everything no primitive, walk, rollback or user action ever writes -/
def cfg (s : St) :=
  (s.hist, s.refreshes, s.lastPayload, s.linOn, s.posKeys, s.regNode, s.regEdge,
   s.rpAvail, s.rpActive, s.iouKey, s.iouActive)

theorem foldl_cfg {β : Type} (f : St → β → St) (h : ∀ a x, (f a x).cfg = a.cfg)
    (l : List β) (a : St) : (l.foldl f a).cfg = a.cfg := by
  induction l generalizing a with
  | nil => rfl
  | cons x r ih => rw [foldl_cons, ih, h]

@[simp] theorem cfg_updNode (s : St) (n : Node) (f : NodeRec → NodeRec) : (s.updNode n f).cfg = s.cfg := rfl
@[simp] theorem cfg_setTid (s : St) (n : Node) (t : Nat) : (s.setTid n t).cfg = s.cfg := rfl
@[simp] theorem cfg_setLin (s : St) (n : Node) (l : Option Nat) : (s.setLin n l).cfg = s.cfg := rfl
@[simp] theorem cfg_setOther (s : St) (n : Node) (k : Key) (v : Val) : (s.setOther n k v).cfg = s.cfg := rfl
@[simp] theorem cfg_setEdgeAttr (s : St) (e : Edge) (k : Key) (v : Val) : (s.setEdgeAttr e k v).cfg = s.cfg := rfl
@[simp] theorem cfg_bookAddT (s : St) (ns : List Node) (id : Nat) : (s.bookAddT ns id).cfg = s.cfg := rfl
@[simp] theorem cfg_bookRemT (s : St) (ns : List Node) (id : Nat) : (s.bookRemT ns id).cfg = s.cfg := rfl
@[simp] theorem cfg_bookAddL (s : St) (ns : List Node) (id : Nat) : (s.bookAddL ns id).cfg = s.cfg := rfl
@[simp] theorem cfg_bookRemL (s : St) (ns : List Node) (id : Nat) : (s.bookRemL ns id).cfg = s.cfg := rfl
@[simp] theorem cfg_bookMoveT (s : St) (ns : List Node) (a b : Nat) : (s.bookMoveT ns a b).cfg = s.cfg := rfl
@[simp] theorem cfg_bookMoveL (s : St) (ns : List Node) (a : Option Nat) (b : Nat) :
    (s.bookMoveL ns a b).cfg = s.cfg := by
  cases a <;> rfl

theorem cfg_walkNode (o n' : Nat) (nl : Option Nat) (u : Bool) (a : WalkAcc) (n : Node) :
    (walkNode o n' nl u a n).s.cfg = a.s.cfg := by
  unfold walkNode
  cases u <;> simp only [if_true] <;> split <;> (try split) <;> (try split) <;> simp_all

theorem cfg_walkLevels (o n' : Nat) (nl : Option Nat) (u : Bool) (fuel : Nat) (a : WalkAcc) :
    (walkLevels o n' nl u fuel a).s.cfg = a.s.cfg := by
  induction fuel generalizing a with
  | zero => rfl
  | succ f ih =>
    unfold walkLevels
    split
    · rfl
    · rw [ih]
      rename_i curr _
      have : ∀ (l : List Node) (b : WalkAcc), (l.foldl (walkNode o n' nl u) b).s.cfg = b.s.cfg := by
        intro l
        induction l with
        | nil => intro b; rfl
        | cons x r ihl => intro b; rw [foldl_cons, ihl, cfg_walkNode]
      rw [this]

@[simp] theorem cfg_walk (s : St) (start : Node) (oT nT : Nat) (oL nL : Option Nat) :
    (s.walk start oT nT oL nL).cfg = s.cfg := by
  unfold walk
  simp only
  split <;> simp [cfg_walkLevels]

@[simp] theorem cfg_trackOnAdd (s : St) (r : NodeRec) : (s.trackOnAdd r).cfg = s.cfg := by
  unfold trackOnAdd; split <;> simp

@[simp] theorem cfg_trackOnDelete (s : St) (r : NodeRec) : (s.trackOnDelete r).cfg = s.cfg := by
  unfold trackOnDelete; split <;> simp

@[simp] theorem cfg_rpUpdate (s : St) (n : Node) : (s.rpUpdate n).cfg = s.cfg := by
  unfold rpUpdate
  split
  · split
    · rfl
    · exact foldl_cfg (fun st k => st.setOther n k _) (fun a x => rfl) _ _
  · rfl

@[simp] theorem cfg_iouUpdateEdge (s : St) (e : Edge) : (s.iouUpdateEdge e).cfg = s.cfg := by
  unfold iouUpdateEdge
  split
  · split <;> rfl
  · rfl

@[simp] theorem cfg_iouUpdateNode (s : St) (n : Node) : (s.iouUpdateNode n).cfg = s.cfg := by
  unfold iouUpdateNode
  exact foldl_cfg _ (fun a x => cfg_iouUpdateEdge a x) _ _

@[simp] theorem cfg_iouCompute (s : St) : s.iouCompute.cfg = s.cfg := by
  unfold iouCompute
  exact foldl_cfg _ (fun a x => cfg_iouUpdateEdge a x) _ _

theorem cfg_trackNeighbors (s : St) (tid time : Nat) : (s.trackNeighbors tid time).1.cfg = s.cfg := by
  rcases trackNeighbors_fst s tid time with h | ⟨_, _, h⟩ <;> rw [h] <;> rfl

/-! primitives -/

theorem cfg_pAddNode {s s' : St} {r : NodeRec} {px : Option (List Pix)} {rec : PrimRec}
    (h : s.pAddNode r px = .ok (s', rec)) : s'.cfg = s.cfg := by
  unfold pAddNode at h
  split at h
  · cases h
  · split at h
    · cases h
    · injection h with h; injection h with h _; subst h
      split
      · rw [cfg_trackOnAdd, cfg_rpUpdate]
        split <;> (split <;> rfl)
      · rw [cfg_rpUpdate]
        split <;> (split <;> rfl)

theorem cfg_pDelNode {s s' : St} {n : Node} {px : Option (List Pix)} {rec : PrimRec}
    (h : s.pDelNode n px = .ok (s', rec)) : s'.cfg = s.cfg := by
  unfold pDelNode at h
  split at h
  · cases h
  · injection h with h; injection h with h _; subst h
    rw [cfg_trackOnDelete]
    split <;> rfl

theorem cfg_pAddEdge {s s' : St} {e : Edge} {at_ : List (Key × Val)} {rec : PrimRec}
    (h : s.pAddEdge e at_ = .ok (s', rec)) : s'.cfg = s.cfg := by
  unfold pAddEdge at h
  split at h
  · cases h
  · injection h with h; injection h with h _; subst h
    rw [cfg_iouUpdateEdge]
    split <;> rfl

theorem cfg_pDelEdge {s s' : St} {e : Edge} {rec : PrimRec}
    (h : s.pDelEdge e = .ok (s', rec)) : s'.cfg = s.cfg := by
  unfold pDelEdge at h
  split at h
  · cases h
  · injection h with h; injection h with h _; subst h; rfl

theorem cfg_pUpdTid {s s' : St} {n : Node} {t : Nat} {l : Option Nat} {rec : PrimRec}
    (h : s.pUpdTid n t l = .ok (s', rec)) : s'.cfg = s.cfg := by
  unfold pUpdTid at h
  split at h
  · cases h
  · injection h with h; injection h with h _; subst h; simp

theorem cfg_pUpdSeg {s s' : St} {n : Node} {px : List Pix} {b : Bool} {rec : PrimRec}
    (h : s.pUpdSeg n px b = .ok (s', rec)) : s'.cfg = s.cfg := by
  unfold pUpdSeg at h
  split at h
  · cases h
  · split at h
    · cases h
    · injection h with h; injection h with h _; subst h; simp; rfl

theorem cfg_pUpdAttrs {s s' : St} {n : Node} {at_ : List (Key × Val)} {rec : PrimRec}
    (h : s.pUpdAttrs n at_ = .ok (s', rec)) : s'.cfg = s.cfg := by
  unfold pUpdAttrs at h
  split at h
  · cases h
  · split at h
    · cases h
    · injection h with h; injection h with h _; subst h
      exact foldl_cfg (fun st (kv : Key × Val) => st.setOther n kv.1 kv.2) (fun a x => rfl) _ _

theorem cfg_invPrim {s s' : St} {p rec : PrimRec} (h : s.invPrim p = .ok (s', rec)) :
    s'.cfg = s.cfg := by
  cases p <;> simp only [invPrim] at h
  · exact cfg_pDelNode h
  · exact cfg_pAddNode h
  · exact cfg_pDelEdge h
  · exact cfg_pAddEdge h
  · exact cfg_pUpdTid h
  · exact cfg_pUpdSeg h
  · exact cfg_pUpdAttrs h

theorem cfg_invGroup (s : St) (recs : List PrimRec) : (s.invGroup recs).1.cfg = s.cfg := by
  unfold invGroup
  generalize recs.reverse = l
  have : ∀ (acc : St × Except Err (List PrimRec)),
      (l.foldl (fun (acc : St × Except Err (List PrimRec)) p =>
        match acc.2 with
        | .error e => (acc.1, .error e)
        | .ok done =>
          match acc.1.invPrim p with
          | .ok (s', r) => (s', .ok (done ++ [r]))
          | .error e => (acc.1, .error e)) acc).1.cfg = acc.1.cfg := by
    induction l with
    | nil => intro acc; rfl
    | cons p r ih =>
      intro acc
      rw [foldl_cons, ih]
      split
      · rfl
      · split
        · rename_i h; exact cfg_invPrim h
        · rfl
  exact this _

@[simp] theorem cfg_rollback (s : St) (recs : List PrimRec) : (s.rollback recs).cfg = s.cfg :=
  cfg_invGroup s recs

theorem cfg_thenPrim (acc : UOut) (f : St → Except Err (St × PrimRec))
    (h : ∀ st s' r, f st = .ok (s', r) → s'.cfg = st.cfg) : (thenPrim acc f).1.cfg = acc.1.cfg := by
  unfold thenPrim
  split
  · rfl
  · split
    · rename_i h'; exact h _ _ _ h'
    · rfl

theorem cfg_thenUser (acc : UOut) (f : St → UOut)
    (h : ∀ st, (f st).1.cfg = st.cfg) : (thenUser acc f).1.cfg = acc.1.cfg := by
  unfold thenUser
  split
  · rfl
  · simp only; split <;> exact h _


/-! user actions never touch the configuration frame (whatever the outcome) -/

/-- discharges `∀ st s' r, f st = .ok (s', r) → s'.cfg = st.cfg` for the primitive calls
    that occur inside the user actions -/
macro "prim_ok" : tactic => `(tactic| (intro st s' r h; first
  | exact cfg_pUpdTid h | exact cfg_pDelEdge h | exact cfg_pAddEdge h | exact cfg_pDelNode h
  | exact cfg_pUpdSeg h | exact cfg_pUpdAttrs h
  | (split at h <;> first | exact cfg_pUpdTid h | cases h)))

theorem cfg_uDeleteEdge (s : St) (e : Edge) : (s.uDeleteEdge e).1.cfg = s.cfg := by
  unfold uDeleteEdge
  have ha : (thenPrim (s, .ok []) (fun st => st.pDelEdge e)).1.cfg = s.cfg :=
    cfg_thenPrim _ _ (by prim_ok)
  split
  · rfl
  · simp only
    split
    · exact (cfg_thenPrim _ _ (by prim_ok)).trans ha
    · split
      · split
        · exact ha
        · exact (cfg_thenPrim _ _ (by prim_ok)).trans ((cfg_thenPrim _ _ (by prim_ok)).trans ha)
      · exact ha

theorem cfg_uAddEdge (s : St) (e : Edge) (force : Bool) : (s.uAddEdge e force).1.cfg = s.cfg := by
  unfold uAddEdge
  split; · rfl
  split; · rfl
  split; · rfl
  simp only
  generalize hg : (if s.indeg e.2 > 0 then
      if !force then ((s, .error .forceable) : UOut)
      else match (s.preds e.2).head? with
        | some p => thenUser (s, .ok []) (fun st => st.uDeleteEdge (p, e.2))
        | none => (s, .error .other)
    else (s, .ok [])) = a0
  have h0 : a0.1.cfg = s.cfg := by
    subst hg
    split
    · split
      · rfl
      · split
        · exact cfg_thenUser _ _ (fun st => cfg_uDeleteEdge st _)
        · rfl
    · rfl
  split
  · exact h0
  · refine (cfg_thenPrim _ _ (by prim_ok)).trans ?_
    split
    · exact (cfg_thenPrim _ _ (by prim_ok)).trans h0
    · split
      · split
        · exact h0
        · exact (cfg_thenPrim _ _ (by prim_ok)).trans ((cfg_thenPrim _ _ (by prim_ok)).trans h0)
      · rw [cfg_rollback]; exact h0


/-! ### `uAddNode` in named pieces (definitionally equal to the model) -/

/-- the downstream-division test of `uAddNode` -/
def anDown (sN : St) (force : Bool) (succ : Option Node) : UOut :=
  match succ with
  | some sc =>
    match (sN.preds sc).head? with
    | some pos =>
      if sN.outdeg pos == 2 then
        if !force then (sN, .error .forceable)
        else thenUser (sN, .ok []) (fun st => st.uDeleteEdge (pos, sc))
      else (sN, .ok [])
    | none => (sN, .ok [])
  | none => (sN, .ok [])

/-- the division checks (with forced removals) of `uAddNode` -/
def anConflicts (sN : St) (force : Bool) (pred succ : Option Node) : UOut :=
  match pred with
  | some p =>
    if sN.outdeg p == 2 then
      if !force then (sN, .error .forceable)
      else match sN.succs p with
        | [c1, c2] =>
          let b := thenUser (sN, .ok []) (fun st => st.uDeleteEdge (p, c1))
          thenUser b (fun st => st.uDeleteEdge (p, c2))
        | _ => (sN, .error .other)
    else anDown sN force succ
  | none => anDown sN force succ

def anLin (s0 : St) (alin : Option Nat) (pred succ : Option Node) : Option Nat :=
  match alin with
  | some l => some l
  | none =>
    match pred, succ with
    | some p, _ => s0.linOf p
    | none, some sc => s0.linOf sc
    | none, none => some s0.nextLin

/-- removal of the skip edge between the track neighbours -/
def anSkip (a0 : UOut) (pred succ : Option Node) : UOut :=
  match pred, succ with
  | some p, some sc => thenPrim a0 (fun st => st.pDelEdge (p, sc))
  | _, _ => a0

/-- the two edges to the new node -/
def anLink (a2 : UOut) (node : Node) (pred succ : Option Node) : UOut :=
  let a3 := match pred with
    | some p => thenPrim a2 (fun st => st.pAddEdge (p, node) [])
    | none => a2
  match succ with
  | some sc => thenPrim a3 (fun st => st.pAddEdge (node, sc) [])
  | none => a3

/-- everything after the division checks -/
def anTail (a : AddNodeArgs) (time tid : Nat) (pred succ : Option Node) (a0 : UOut) : UOut :=
  match a0.2 with
  | .error err => (a0.1, .error err)
  | .ok _ =>
    let a1 := anSkip a0 pred succ
    match a1.2 with
    | .error err => (a1.1, .error err)
    | .ok recs1 =>
      let rec_ : NodeRec := { id := a.node, time := time, tid := tid,
                              lin := anLin a0.1 a.lin pred succ, other := a.other }
      match a1.1.pAddNode rec_ a.pixels with
      | .error err => (a1.1.rollback recs1, .error err)
      | .ok (s2, r) => anLink (s2, .ok (recs1 ++ [r])) a.node pred succ

def anTid (s : St) (tid0 time : Nat) : Nat := if s.hasTrackAt tid0 time then s.nextTid else tid0

theorem uAddNode_eq_pieces (s : St) (a : AddNodeArgs) {time tid0 : Nat} (ht : a.time = some time)
    (hd : a.tid = some tid0) (hn : s.hasNode a.node = false) : s.uAddNode a =
      anTail a time (anTid s tid0 time) (s.trackNeighbors (anTid s tid0 time) time).2.1
        (s.trackNeighbors (anTid s tid0 time) time).2.2
        (anConflicts (s.trackNeighbors (anTid s tid0 time) time).1 a.force
          (s.trackNeighbors (anTid s tid0 time) time).2.1
          (s.trackNeighbors (anTid s tid0 time) time).2.2) := by
  unfold uAddNode
  rw [ht, hd]
  simp only [hn]
  rfl


theorem cfg_anDown (sN : St) (force : Bool) (succ : Option Node) :
    (anDown sN force succ).1.cfg = sN.cfg := by
  unfold anDown
  split
  · split
    · split
      · split
        · rfl
        · exact cfg_thenUser _ _ (fun st => cfg_uDeleteEdge st _)
      · rfl
    · rfl
  · rfl

theorem cfg_anConflicts (sN : St) (force : Bool) (pred succ : Option Node) :
    (anConflicts sN force pred succ).1.cfg = sN.cfg := by
  unfold anConflicts
  split
  · split
    · split
      · rfl
      · split
        · exact (cfg_thenUser _ _ (fun st => cfg_uDeleteEdge st _)).trans
            (cfg_thenUser _ _ (fun st => cfg_uDeleteEdge st _))
        · rfl
    · exact cfg_anDown _ _ _
  · exact cfg_anDown _ _ _

theorem cfg_anSkip (a0 : UOut) (pred succ : Option Node) : (anSkip a0 pred succ).1.cfg = a0.1.cfg := by
  unfold anSkip
  split
  · exact cfg_thenPrim _ _ (by prim_ok)
  · rfl

theorem cfg_anLink (a2 : UOut) (node : Node) (pred succ : Option Node) :
    (anLink a2 node pred succ).1.cfg = a2.1.cfg := by
  unfold anLink
  simp only
  split <;> split <;>
    first
    | exact (cfg_thenPrim _ _ (by prim_ok)).trans (cfg_thenPrim _ _ (by prim_ok))
    | exact cfg_thenPrim _ _ (by prim_ok)
    | rfl

theorem cfg_anTail (a : AddNodeArgs) (time tid : Nat) (pred succ : Option Node) (a0 : UOut) :
    (anTail a time tid pred succ a0).1.cfg = a0.1.cfg := by
  unfold anTail
  split
  · rfl
  · simp only
    split
    · exact cfg_anSkip _ _ _
    · split
      · rw [cfg_rollback]; exact cfg_anSkip _ _ _
      · rename_i h
        rw [cfg_anLink]
        exact (cfg_pAddNode h).trans (cfg_anSkip _ _ _)

theorem cfg_uAddNode (s : St) (a : AddNodeArgs) : (s.uAddNode a).1.cfg = s.cfg := by
  cases ht : a.time with
  | none => unfold uAddNode; rw [ht]
  | some time =>
    cases hd : a.tid with
    | none => unfold uAddNode; rw [ht, hd]
    | some tid0 =>
      cases hn : s.hasNode a.node with
      | true => unfold uAddNode; rw [ht, hd]; simp only [hn]; rfl
      | false =>
        rw [uAddNode_eq_pieces s a ht hd hn, cfg_anTail, cfg_anConflicts, cfg_trackNeighbors]

theorem cfg_foldl_uout {β : Type} (f : UOut → β → UOut) (h : ∀ a x, (f a x).1.cfg = a.1.cfg)
    (l : List β) (a : UOut) : (l.foldl f a).1.cfg = a.1.cfg := by
  induction l generalizing a with
  | nil => rfl
  | cons x r ih => rw [foldl_cons, ih, h]

theorem cfg_uDeleteNode (s : St) (n : Node) (px : Option (List Pix)) :
    (s.uDeleteNode n px).1.cfg = s.cfg := by
  unfold uDeleteNode
  split
  · rfl
  · simp only
    generalize hg0 : foldl _ ((s, .ok []) : UOut) (s.preds n) = a0
    have h0 : a0.1.cfg = s.cfg := by
      subst hg0
      refine cfg_foldl_uout _ ?_ _ _
      intro acc p
      split
      · rfl
      · refine (cfg_thenPrim _ _ (by prim_ok)).trans ?_
        split
        · split
          · exact cfg_thenPrim _ _ (by prim_ok)
          · rfl
        · rfl
    split
    · exact h0
    · generalize hg1 : foldl _ a0 (a0.1.succs n) = a1
      have h1 : a1.1.cfg = s.cfg := by
        subst hg1
        exact (cfg_foldl_uout _ (fun acc c => cfg_thenPrim _ _ (by prim_ok)) _ _).trans h0
      split
      · exact h1
      · refine (cfg_thenPrim _ _ (by prim_ok)).trans ?_
        refine (cfg_foldl_uout _ ?_ _ _).trans ?_
        · intro acc io
          split
          · exact cfg_thenPrim _ _ (by prim_ok)
          · rfl
        · split
          · refine (cfg_thenPrim _ _ (by prim_ok)).trans ?_
            exact (cfg_trackNeighbors _ _ _).trans h1
          · exact (cfg_trackNeighbors _ _ _).trans h1
      · exact h1


theorem cfg_uSwap (s : St) (n1 n2 : Node) : (s.uSwap n1 n2).1.cfg = s.cfg := by
  unfold uSwap
  have hD : ∀ (acc : UOut) (e : Edge), (thenUser acc (fun st => st.uDeleteEdge e)).1.cfg = acc.1.cfg :=
    fun acc e => cfg_thenUser _ _ (fun st => cfg_uDeleteEdge st _)
  have hA : ∀ (acc : UOut) (e : Edge), (thenUser acc (fun st => st.uAddEdge e false)).1.cfg = acc.1.cfg :=
    fun acc e => cfg_thenUser _ _ (fun st => cfg_uAddEdge st _ _)
  split; · rfl
  simp only
  generalize (s.preds n1).head? = p1
  generalize (s.preds n2).head? = p2
  split; · rfl
  split; · rfl
  cases p1 <;> cases p2 <;> simp only [] <;> (repeat' split) <;> simp only [hD, hA]

theorem cfg_uUpdateAttrs (s : St) (n : Node) (attrs : List (Key × Val)) :
    (s.uUpdateAttrs n attrs).1.cfg = s.cfg := by
  unfold uUpdateAttrs
  exact cfg_thenPrim _ _ (by prim_ok)

theorem cfg_uUpdateSeg (s : St) (v : Nat) (groups : List (List Pix × Nat)) (curTid : Nat)
    (force : Bool) : (s.uUpdateSeg v groups curTid force).1.1.cfg = s.cfg := by
  unfold uUpdateSeg
  split
  · rfl
  · simp only
    generalize hg0 : foldl _ ((s, .ok []) : UOut) groups = a0
    have h0 : a0.1.cfg = s.cfg := by
      subst hg0
      refine cfg_foldl_uout _ ?_ _ _
      intro acc grp
      split
      · rfl
      · split
        · rfl
        · split
          · split
            · exact cfg_thenUser _ _ (fun st => cfg_uDeleteNode st _ _)
            · exact cfg_thenPrim _ _ (by prim_ok)
          · rfl
    split
    · exact h0
    · split
      · split
        · split
          · exact (cfg_thenPrim _ _ (by prim_ok)).trans h0
          · split
            · exact (cfg_uAddNode _ _).trans h0
            · rw [cfg_rollback]; exact (cfg_uAddNode _ _).trans h0
        · exact h0
      · exact h0


/-! ### error kinds of the primitives, unfolding of `thenPrim` -/

theorem pDelEdge_err {s : St} {e : Edge} {x : Err} (h : s.pDelEdge e = .error x) : x = .value := by
  unfold pDelEdge at h
  split at h
  · injection h with h; exact h.symm
  · cases h

theorem pAddEdge_err {s : St} {e : Edge} {at_ : List (Key × Val)} {x : Err}
    (h : s.pAddEdge e at_ = .error x) : x = .value := by
  unfold pAddEdge at h
  split at h
  · injection h with h; exact h.symm
  · cases h

theorem pAddNode_err {s : St} {r : NodeRec} {px : Option (List Pix)} {x : Err}
    (h : s.pAddNode r px = .error x) : x = .value := by
  unfold pAddNode at h
  split at h
  · injection h with h; exact h.symm
  · split at h
    · injection h with h; exact h.symm
    · cases h

theorem thenPrim_ok_acc {acc : UOut} {recs : List PrimRec} (h : acc.2 = .ok recs)
    (f : St → Except Err (St × PrimRec)) :
    thenPrim acc f = match f acc.1 with
      | .ok (s', r) => (s', .ok (recs ++ [r]))
      | .error e => (acc.1, .error e) := by
  unfold thenPrim; rw [h]; rfl

theorem thenPrim_err_acc {acc : UOut} {x : Err} (h : acc.2 = .error x)
    (f : St → Except Err (St × PrimRec)) : thenPrim acc f = (acc.1, .error x) := by
  unfold thenPrim; rw [h]

/-- a failing `thenPrim` step: either the accumulator had failed already, or the primitive
    refused — in both cases the state is the accumulator's -/
theorem thenPrim_err_state {acc : UOut} {f : St → Except Err (St × PrimRec)} {x : Err}
    (h : (thenPrim acc f).2 = .error x) :
    (thenPrim acc f).1 = acc.1 ∧ (acc.2 = .error x ∨ f acc.1 = .error x) := by
  unfold thenPrim at h ⊢
  split at h
  · rename_i e he
    simp only [he]
    injection h with h; subst h
    simp
  · rename_i recs he
    simp only [he]
    split at h
    · cases h
    · rename_i e hf
      rw [hf]
      injection h with h; subst h
      simp

theorem anDown_noforce (sN : St) (succ : Option Node) :
    (anDown sN false succ) = (sN, .ok []) ∨ (anDown sN false succ) = (sN, .error .forceable) := by
  unfold anDown
  split
  · split
    · split
      · exact Or.inr rfl
      · exact Or.inl rfl
    · exact Or.inl rfl
  · exact Or.inl rfl

theorem anConflicts_noforce (sN : St) (pred succ : Option Node) :
    (anConflicts sN false pred succ) = (sN, .ok []) ∨
    (anConflicts sN false pred succ) = (sN, .error .forceable) := by
  unfold anConflicts
  split
  · split
    · exact Or.inr rfl
    · exact anDown_noforce _ _
  · exact anDown_noforce _ _


theorem anLink_err {a2 : UOut} {node : Node} {pred succ : Option Node} {recs : List PrimRec} {x : Err}
    (h2 : a2.2 = .ok recs) (h : (anLink a2 node pred succ).2 = .error x) : x = .value := by
  unfold anLink at h
  simp only at h
  have key : ∀ (acc : UOut) (e : Edge) (y : Err),
      (thenPrim acc (fun st => st.pAddEdge e [])).2 = .error y → acc.2 = .error y ∨ y = .value := by
    intro acc e y hy
    rcases (thenPrim_err_state hy).2 with h' | h'
    · exact Or.inl h'
    · exact Or.inr (pAddEdge_err h')
  split at h <;> split at h
  · rcases key _ _ _ h with h' | h'
    · rcases key _ _ _ h' with h'' | h''
      · rw [h2] at h''; cases h''
      · exact h''
    · exact h'
  · rcases key _ _ _ h with h' | h'
    · rw [h2] at h'; cases h'
    · exact h'
  · rcases key _ _ _ h with h' | h'
    · rw [h2] at h'; cases h'
    · exact h'
  · rw [h2] at h; cases h

theorem anTail_ok_err {a : AddNodeArgs} {time tid : Nat} {pred succ : Option Node} {a0 : UOut}
    {recs : List PrimRec} {x : Err} (h0 : a0.2 = .ok recs)
    (h : (anTail a time tid pred succ a0).2 = .error x) : x = .value := by
  unfold anTail at h
  rw [h0] at h
  simp only at h
  split at h
  · rename_i e he
    injection h with h; subst h
    unfold anSkip at he
    split at he
    · rcases (thenPrim_err_state he).2 with h' | h'
      · rw [h0] at h'; cases h'
      · exact pDelEdge_err h'
    · rw [h0] at he; cases he
  · split at h
    · rename_i e he
      injection h with h; subst h
      exact pAddNode_err he
    · exact anLink_err rfl h

theorem anTail_err_acc {a : AddNodeArgs} {time tid : Nat} {pred succ : Option Node} {a0 : UOut}
    {x : Err} (h0 : a0.2 = .error x) : anTail a time tid pred succ a0 = (a0.1, .error x) := by
  unfold anTail; rw [h0]


theorem cfg_invTotal (s : St) (a : ActRec) : (s.invTotal a).1.cfg = s.cfg := by
  unfold invTotal
  split <;> (rename_i hh; have := cfg_invGroup s a; rw [hh] at this; exact this)

theorem cfg_undoStep (h : Hist ActRec) (s : St) : (h.undoStep invTotal s).2.1.cfg = s.cfg := by
  unfold Hist.undoStep
  split
  · rfl
  · split
    · rfl
    · exact cfg_invTotal _ _

theorem cfg_redoStep (h : Hist ActRec) (s : St) : (h.redoStep invTotal s).2.1.cfg = s.cfg := by
  unfold Hist.redoStep
  split
  · rfl
  · exact cfg_invTotal _ _

/-- body of `step` for undo / redo after the `bad` test has been evaluated -/
def histCore (s : St) (r : Hist ActRec × St × Bool) (bad : Bool) : St × Out :=
  if bad then (r.2.1, .err .other) else
  if r.2.2 then ({ r.2.1 with hist := r.1, refreshes := r.2.1.refreshes + 1, lastPayload := none }, .bool true)
  else (s, .bool false)

theorem histCore_err {s : St} {r : Hist ActRec × St × Bool} {bad : Bool} {e : Err}
    (h : (histCore s r bad).2 = .err e) : (histCore s r bad).1 = r.2.1 := by
  unfold histCore at h ⊢
  cases bad
  · simp only [Bool.false_eq_true, if_false] at h
    split at h <;> cases h
  · rfl

theorem step_undo_eq (s : St) : s.step .undo = histCore s (s.hist.undoStep invTotal s)
    (match s.hist.undo[s.hist.ptr.toNat]? with
        | some a => if s.hist.ptr < 0 then false else (s.invGroup a).2.toOption.isNone
        | none => false) := rfl

theorem step_redo_eq (s : St) : s.step .redo = histCore s (s.hist.redoStep invTotal s)
    (match s.hist.redo.getLast? with
        | some a => (s.invGroup a).2.toOption.isNone
        | none => false) := rfl


/-! ### registry projection -/

/-- what `RegOK` reads -/
def reg (s : St) := (s.regNode, s.regEdge, s.rpActive, s.iouKey, s.iouActive, s.rpAvail, s.linOn, s.posKeys)

theorem reg_of_cfg {s t : St} (h : t.cfg = s.cfg) : t.reg = s.reg := by
  simp only [cfg, Prod.mk.injEq] at h
  simp only [reg, Prod.mk.injEq]
  simp [h]

theorem RegOK_of_reg {s t : St} (h : t.reg = s.reg) {sn se : List Key} (hr : RegOK s sn se) :
    RegOK t sn se := by
  simp only [reg, Prod.mk.injEq] at h
  obtain ⟨h1, h2, h3, h4, h5, _⟩ := h
  unfold RegOK at hr ⊢
  rw [h1, h2, h3, h4, h5]; exact hr

@[simp] theorem cfg_rpCompute (s : St) (keys : List Key) : (s.rpCompute keys).cfg = s.cfg := by
  unfold rpCompute
  split
  · rfl
  · simp only
    split
    · rfl
    · refine foldl_cfg _ ?_ _ _
      intro a t
      refine foldl_cfg _ ?_ _ _
      intro b l
      split
      · exact foldl_cfg (fun st3 k => st3.setOther l k _) (fun _ _ => rfl) _ _
      · rfl

theorem reg_assignTracklets (s : St) : s.assignTracklets.reg = s.reg := by
  unfold assignTracklets
  simp only
  have : ∀ (idx : List (Nat × List Node)) (st : St),
      (idx.foldl (fun st p => p.2.foldl (fun st2 n => st2.setTid n (p.1 + 1)) st) st).cfg = st.cfg := by
    intro idx st
    refine foldl_cfg _ ?_ _ _
    intro a p
    exact foldl_cfg (fun st2 n => st2.setTid n (p.1 + 1)) (fun _ _ => rfl) _ _
  have h2 := reg_of_cfg (this (List.zip (List.range (components (s.nodes.map (·.id)) s.trackletEdges).length)
    (components (s.nodes.map (·.id)) s.trackletEdges)) s)
  rw [← h2]; rfl

theorem reg_assignLineages (s : St) : s.assignLineages.reg = s.reg := by
  unfold assignLineages
  simp only
  have : ∀ (idx : List (Nat × List Node)) (st : St),
      (idx.foldl (fun st p => p.2.foldl (fun st2 n => st2.setLin n (some (p.1 + 1))) st) st).cfg = st.cfg := by
    intro idx st
    refine foldl_cfg _ ?_ _ _
    intro a p
    exact foldl_cfg (fun st2 n => st2.setLin n (some (p.1 + 1))) (fun _ _ => rfl) _ _
  have h2 := reg_of_cfg (this (List.zip (List.range (components (s.nodes.map (·.id)) (s.edges.map (·.e))).length)
    (components (s.nodes.map (·.id)) (s.edges.map (·.e)))) s)
  rw [← h2]; rfl

/-- the registry part of `enable`, before any recomputation -/
def enableReg (s : St) (keys : List Key) : St :=
  let rpNew := keys.filter (fun k => s.rpAvail.contains k && !(s.rpActive.contains k))
  let iouOn := match s.iouKey with | some k => keys.contains k | none => false
  { s with
    rpActive := s.rpActive ++ rpNew.eraseDups,
    iouActive := s.iouActive || iouOn,
    linOn := s.linOn || keys.contains keyLin,
    regNode := s.regNode ++ ((keys.filter (fun k => s.rpAvail.contains k && !(s.regNode.contains k))).eraseDups),
    regEdge := match s.iouKey with
      | some k => if keys.contains k && !(s.regEdge.contains k) then s.regEdge ++ [k] else s.regEdge
      | none => s.regEdge }

/-- the recomputation part of `enable` -/
def enableRecompute (s1 : St) (keys : List Key) : St :=
  let iouOn := match s1.iouKey with | some k => keys.contains k | none => false
  let s2 := s1.rpCompute keys
  let s3 := if iouOn then s2.iouCompute else s2
  let s4 := if keys.contains keyTid then s3.assignTracklets else s3
  if keys.contains keyLin && s4.linOn then s4.assignLineages else s4

theorem enable_eq (s : St) (keys : List Key) (rc : Bool)
    (h : keys.any (fun k => !(s.annotKeys.contains k)) = false) :
    s.enable keys rc = some (if rc then enableRecompute (enableReg s keys) keys else enableReg s keys) := by
  unfold enable
  rw [if_neg (by rw [h]; exact Bool.false_ne_true)]
  cases rc <;> rfl

theorem enable_none (s : St) (keys : List Key) (rc : Bool)
    (h : keys.any (fun k => !(s.annotKeys.contains k)) = true) : s.enable keys rc = none := by
  unfold enable; rw [if_pos h]

theorem reg_enableRecompute (s1 : St) (keys : List Key) : (enableRecompute s1 keys).reg = s1.reg := by
  unfold enableRecompute
  simp only
  have h2 : (s1.rpCompute keys).reg = s1.reg := reg_of_cfg (cfg_rpCompute _ _)
  generalize s1.rpCompute keys = s2 at h2 ⊢
  generalize (match s1.iouKey with | some k => keys.contains k | none => false) = iouOn
  have h3 : (if iouOn then s2.iouCompute else s2).reg = s1.reg := by
    split
    · exact (reg_of_cfg (cfg_iouCompute _)).trans h2
    · exact h2
  generalize (if iouOn then s2.iouCompute else s2) = s3 at h3 ⊢
  have h4 : (if keys.contains keyTid then s3.assignTracklets else s3).reg = s1.reg := by
    split
    · exact (reg_assignTracklets _).trans h3
    · exact h3
  generalize (if keys.contains keyTid then s3.assignTracklets else s3) = s4 at h4 ⊢
  split
  · exact (reg_assignLineages _).trans h4
  · exact h4


/-! ### edges: `iouUpdateEdge`, `pAddEdge`, `pDelEdge` in closed form -/

/-- what the edge annotator does to the attribute list of edge `e` -/
def iouF (s : St) (e : Edge) (l : List (Key × Val)) : List (Key × Val) :=
  match s.iouKey with
  | some k => if s.iouActive && s.seg.isSome then aset k (s.iouOf e) l else l
  | none => l

/-- apply `F` to the attributes of every record of edge `e` -/
def onEdge (e : Edge) (F : List (Key × Val) → List (Key × Val)) (r : EdgeRec) : EdgeRec :=
  if r.e == e then { r with attrs := F r.attrs } else r

@[simp] theorem onEdge_e (e : Edge) (F) (r : EdgeRec) : (onEdge e F r).e = r.e := by
  unfold onEdge; split <;> rfl

theorem onEdge_ne {e : Edge} {F} {r : EdgeRec} (h : r.e ≠ e) : onEdge e F r = r := by
  unfold onEdge; rw [if_neg (by simpa using h)]

theorem onEdge_eq {e : Edge} {F} {r : EdgeRec} (h : r.e = e) : onEdge e F r = { r with attrs := F r.attrs } := by
  unfold onEdge; rw [if_pos (by simpa using h)]

/-- replace the edge list -/
def setEdges (s : St) (es : List EdgeRec) : St := { s with edges := es }

theorem setEdges_self (s : St) : s.setEdges s.edges = s := rfl

theorem iouF_setEdges (s : St) (es : List EdgeRec) (e : Edge) : iouF (s.setEdges es) e = iouF s e := rfl

theorem iouUpdateEdge_eq (s : St) (e : Edge) :
    s.iouUpdateEdge e = s.setEdges (s.edges.map (onEdge e (iouF s e))) := by
  have hid : ∀ l : List EdgeRec, l.map (onEdge e (fun a => a)) = l := by
    intro l
    induction l with
    | nil => rfl
    | cons r t ih => rw [map_cons, ih]; unfold onEdge; split <;> rfl
  unfold iouUpdateEdge iouF
  rcases hk : s.iouKey with _ | k
  · simp only [hid]; rfl
  · simp only
    cases hc : (s.iouActive && s.seg.isSome) with
    | false => simp only [Bool.false_eq_true, if_false, hid]; rfl
    | true => simp only [if_true]; rfl

theorem hasEdge_false_iff (s : St) (e : Edge) : s.hasEdge e = false ↔ ∀ r ∈ s.edges, r.e ≠ e := by
  unfold hasEdge
  rw [Bool.eq_false_iff]
  simp [any_eq_true]

theorem map_onEdge_of_not_mem {l : List EdgeRec} {e : Edge} (F) (h : ∀ r ∈ l, r.e ≠ e) :
    l.map (onEdge e F) = l := by
  induction l with
  | nil => rfl
  | cons r t ih =>
    rw [map_cons, ih (fun r hr => h r (mem_cons_of_mem _ hr)), onEdge_ne (h r mem_cons_self)]

theorem filter_ne_of_not_mem {l : List EdgeRec} {e : Edge} (h : ∀ r ∈ l, r.e ≠ e) :
    l.filter (·.e != e) = l := by
  rw [filter_eq_self]; intro r hr; simpa using h r hr

theorem filter_ne_map_onEdge (l : List EdgeRec) (e : Edge) (F) :
    (l.map (onEdge e F)).filter (·.e != e) = l.filter (·.e != e) := by
  induction l with
  | nil => rfl
  | cons r t ih =>
    by_cases h : r.e = e
    · rw [map_cons, filter_cons, filter_cons, ih]; simp [h]
    · rw [map_cons, onEdge_ne h, filter_cons, filter_cons, ih]

/-- AddEdge of a new edge, closed form -/
theorem pAddEdge_new {s : St} {e : Edge} (attrs : List (Key × Val))
    (h1 : s.hasNode e.1 = true) (h2 : s.hasNode e.2 = true) (hne : s.hasEdge e = false) :
    s.pAddEdge e attrs =
      .ok (s.setEdges (s.edges ++ [{ e := e, attrs := iouF s e attrs }]), .addEdge e attrs) := by
  unfold pAddEdge
  simp only [h1, h2, hne, Bool.not_true, Bool.or_self, Bool.false_eq_true, if_false]
  rw [show ({ s with edges := s.edges ++ [{ e := e, attrs := attrs }] } : St)
      = s.setEdges (s.edges ++ [{ e := e, attrs := attrs }]) from rfl, iouUpdateEdge_eq, iouF_setEdges]
  show Except.ok ((s.setEdges _).setEdges (map _ (s.edges ++ [_])), _) = _
  simp only [map_append, map_cons, map_nil]
  rw [map_onEdge_of_not_mem _ ((hasEdge_false_iff s e).mp hne),
    onEdge_eq (r := { e := e, attrs := attrs }) rfl]
  rfl

theorem pAddEdge_fail {s : St} {e : Edge} (attrs : List (Key × Val))
    (h : s.hasNode e.1 = false ∨ s.hasNode e.2 = false) : s.pAddEdge e attrs = .error .value := by
  unfold pAddEdge
  rcases h with h | h <;> simp [h]

/-- DeleteEdge, closed form -/
theorem pDelEdge_eq {s : St} {e : Edge} {r : EdgeRec} (h : s.findEdge e = some r) :
    s.pDelEdge e = .ok (s.setEdges (s.edges.filter (fun r => r.e != e)),
      .delEdge e (r.attrs.filter (fun kv => s.regEdge.contains kv.1 && kv.2 != Val.none))) := by
  unfold pDelEdge; rw [h]; rfl

theorem findEdge_append_new {s : St} {e : Edge} (a : List (Key × Val)) (hne : s.hasEdge e = false) :
    (s.edges ++ [({ e := e, attrs := a } : EdgeRec)]).find? (fun r => r.e == e)
      = some { e := e, attrs := a } := by
  rw [find?_append]
  have : s.edges.find? (·.e == e) = none := by
    rw [find?_eq_none]; intro r hr; simpa using (hasEdge_false_iff s e).mp hne r hr
  rw [this]; simp

theorem hasEdge_filter_ne (s : St) (e : Edge) :
    (s.setEdges (s.edges.filter (·.e != e))).hasEdge e = false := by
  rw [hasEdge_false_iff]
  intro r hr
  have := (mem_filter.mp hr).2
  simpa using this


/-! ### inverse laws: AddEdge / DeleteEdge -/

theorem val_bne_none (v : Val) : (v != Val.none) = true ↔ v ≠ Val.none := by
  cases v <;> simp [bne] <;> rfl

/-- what DeleteEdge saves of an attribute list -/
def savedEdge (s : St) (l : List (Key × Val)) : List (Key × Val) :=
  l.filter (fun kv => s.regEdge.contains kv.1 && kv.2 != Val.none)

theorem savedEdge_eq_self {s : St} {l : List (Key × Val)}
    (h : ∀ kv ∈ l, kv.1 ∈ s.regEdge ∧ kv.2 ≠ Val.none) : savedEdge s l = l := by
  unfold savedEdge
  rw [filter_eq_self]
  intro kv hkv
  have := h kv hkv
  have h2 : (kv.2 != Val.none) = true := (val_bne_none _).mpr this.2
  simp [this.1, h2]

theorem iouF_idem (s : St) (e : Edge) (l : List (Key × Val)) : iouF s e (iouF s e l) = iouF s e l := by
  unfold iouF
  split
  · split
    · exact aset_aset_same _ _ _ _
    · rfl
  · rfl

/-- AddEdge of a new edge, then its inverse: the input state itself comes back -/
theorem inv_addEdge {s : St} {e : Edge} (attrs : List (Key × Val)) (hne : s.hasEdge e = false) :
    (s.setEdges (s.edges ++ [{ e := e, attrs := iouF s e attrs }])).invPrim (.addEdge e attrs)
      = .ok (s, .delEdge e (savedEdge s (iouF s e attrs))) := by
  simp only [invPrim]
  have hf : (s.setEdges (s.edges ++ [{ e := e, attrs := iouF s e attrs }])).findEdge e
      = some { e := e, attrs := iouF s e attrs } := findEdge_append_new _ hne
  rw [pDelEdge_eq hf]
  have : (s.setEdges (s.edges ++ [{ e := e, attrs := iouF s e attrs }])).setEdges
      (filter (fun r => r.e != e) (s.setEdges (s.edges ++ [{ e := e, attrs := iouF s e attrs }])).edges) = s := by
    show s.setEdges (filter (fun r => r.e != e) (s.edges ++ [{ e := e, attrs := iouF s e attrs }])) = s
    rw [filter_append, filter_ne_of_not_mem ((hasEdge_false_iff s e).mp hne)]
    simp [setEdges_self]
  rw [this]; rfl

/-- … and inverting that inverse reproduces the post-edit state exactly, provided everything
    on the new edge is a registered, non-None feature (what DeleteEdge saves) -/
theorem inv_inv_addEdge {s : St} {e : Edge} (attrs : List (Key × Val))
    (h1 : s.hasNode e.1 = true) (h2 : s.hasNode e.2 = true) (hne : s.hasEdge e = false)
    (hreg : ∀ kv ∈ iouF s e attrs, kv.1 ∈ s.regEdge ∧ kv.2 ≠ Val.none) :
    s.invPrim (.delEdge e (savedEdge s (iouF s e attrs)))
      = .ok (s.setEdges (s.edges ++ [{ e := e, attrs := iouF s e attrs }]),
             .addEdge e (savedEdge s (iouF s e attrs))) := by
  simp only [invPrim]
  rw [pAddEdge_new _ h1 h2 hne, savedEdge_eq_self hreg, iouF_idem]

theorem edge_unique {l : List EdgeRec} (hn : (l.map (·.e)).Nodup) {a b : EdgeRec}
    (ha : a ∈ l) (hb : b ∈ l) (h : a.e = b.e) : a = b := by
  induction l with
  | nil => simp at ha
  | cons x t ih =>
    rw [map_cons, nodup_cons] at hn
    rcases mem_cons.mp ha with ha | ha <;> rcases mem_cons.mp hb with hb | hb
    · rw [ha, hb]
    · rw [ha] at h; exact absurd (mem_map.mpr ⟨b, hb, h.symm⟩ : x.e ∈ map (·.e) t) hn.1
    · rw [hb] at h; exact absurd (mem_map.mpr ⟨a, ha, h⟩ : x.e ∈ map (·.e) t) hn.1
    · exact ih hn.2 ha hb

theorem findEdge_some {s : St} {e : Edge} {r : EdgeRec} (h : s.findEdge e = some r) :
    r ∈ s.edges ∧ r.e = e := by
  unfold findEdge at h
  exact ⟨mem_of_find?_eq_some h, by simpa using find?_some h⟩

/-- the state after DeleteEdge and its inverse -/
def readdEdge (s : St) (e : Edge) (r : EdgeRec) : St :=
  s.setEdges (s.edges.filter (fun x => x.e != e) ++ [{ e := e, attrs := iouF s e (savedEdge s r.attrs) }])

/-- DeleteEdge then its inverse: closed form of the resulting state -/
theorem inv_delEdge_eq {s : St} {e : Edge} (r : EdgeRec)
    (h1 : s.hasNode e.1 = true) (h2 : s.hasNode e.2 = true) :
    (s.setEdges (s.edges.filter (fun x => x.e != e))).invPrim (.delEdge e (savedEdge s r.attrs))
      = .ok (readdEdge s e r, .addEdge e (savedEdge s r.attrs)) := by
  simp only [invPrim]
  rw [pAddEdge_new _ (by exact h1) (by exact h2) (hasEdge_filter_ne s e)]
  rfl

/-- … which is `Equiv` to the start: same edges as a set (the edge moved to the end of the
    insertion order). Needs: edge keys distinct; every attribute on the edge is a registered
    non-None feature (only those are saved); an active IoU is current (it is recomputed). -/
theorem readdEdge_equiv {s : St} {e : Edge} {r : EdgeRec} (hf : s.findEdge e = some r)
    (hn : s.edgeList.Nodup)
    (hreg : ∀ kv ∈ r.attrs, kv.1 ∈ s.regEdge ∧ kv.2 ≠ Val.none)
    (hiou : ∀ k, s.iouKey = some k → s.iouActive = true → s.seg.isSome = true →
        alook k r.attrs = some (s.iouOf e)) :
    Equiv (readdEdge s e r) s := by
  obtain ⟨hr, hre⟩ := findEdge_some hf
  have hrec : ({ e := e, attrs := iouF s e (savedEdge s r.attrs) } : EdgeRec) = r := by
    rw [savedEdge_eq_self hreg]
    have : iouF s e r.attrs = r.attrs := by
      unfold iouF
      split
      · rename_i k hk
        split
        · rename_i hc
          simp only [Bool.and_eq_true] at hc
          exact aset_eq_self (hiou k hk hc.1 hc.2)
        · rfl
      · rfl
    rw [this, ← hre]
  refine ⟨fun _ => Iff.rfl, ?_, rfl, fun _ _ => Iff.rfl, fun _ _ => Iff.rfl,
    rfl, rfl, rfl, rfl, rfl, rfl, rfl, rfl⟩
  intro x
  show x ∈ s.edges.filter (fun x => x.e != e) ++ [_] ↔ x ∈ s.edges
  rw [hrec, mem_append, mem_filter, mem_singleton]
  constructor
  · rintro (⟨h, _⟩ | h)
    · exact h
    · rw [h]; exact hr
  · intro hx
    by_cases hxe : x.e = e
    · exact Or.inr (edge_unique hn hx hr (hxe.trans hre.symm))
    · exact Or.inl ⟨hx, by simpa using hxe⟩

/-- inverting the inverse of DeleteEdge reproduces the post-delete state exactly -/
theorem inv_inv_delEdge {s : St} {e : Edge} {r : EdgeRec} :
    ∃ saved', (readdEdge s e r).invPrim (.addEdge e (savedEdge s r.attrs))
      = .ok (s.setEdges (s.edges.filter (fun x => x.e != e)), .delEdge e saved') := by
  simp only [invPrim]
  have hf : (readdEdge s e r).findEdge e = some { e := e, attrs := iouF s e (savedEdge s r.attrs) } := by
    show find? _ (filter _ _ ++ [_]) = _
    rw [find?_append]
    have : (s.edges.filter (fun x => x.e != e)).find? (fun r => r.e == e) = none := by
      rw [find?_eq_none]; intro x hx
      have := (mem_filter.mp hx).2
      simpa using this
    rw [this]; simp
  rw [pDelEdge_eq hf]
  refine ⟨savedEdge (readdEdge s e r) (iouF s e (savedEdge s r.attrs)), ?_⟩
  have : (readdEdge s e r).setEdges (filter (fun r => r.e != e) (readdEdge s e r).edges)
      = s.setEdges (s.edges.filter (fun x => x.e != e)) := by
    show s.setEdges (filter _ (filter _ _ ++ [_])) = _
    rw [filter_append, filter_filter]
    simp
  rw [this]; rfl


/-! ### groups: `invGroup` step by step, the compositional inverse law -/

/-- one step of `ActionGroup.inverse` -/
def invStep (acc : St × Except Err (List PrimRec)) (p : PrimRec) : St × Except Err (List PrimRec) :=
  match acc.2 with
  | .error e => (acc.1, .error e)
  | .ok done =>
    match acc.1.invPrim p with
    | .ok (s', r) => (s', .ok (done ++ [r]))
    | .error e => (acc.1, .error e)

theorem invGroup_eq (s : St) (recs : List PrimRec) :
    s.invGroup recs = recs.reverse.foldl invStep (s, .ok []) := rfl

theorem invGroup_nil (s : St) : s.invGroup [] = (s, .ok []) := rfl

theorem invGroup_cons (s : St) (r : PrimRec) (rs : List PrimRec) :
    s.invGroup (r :: rs) = invStep (s.invGroup rs) r := by
  rw [invGroup_eq, invGroup_eq, reverse_cons, foldl_append]; rfl

theorem invGroup_single (s : St) (r : PrimRec) :
    s.invGroup [r] = match s.invPrim r with
      | .ok (s', r') => (s', .ok [r'])
      | .error e => (s, .error e) := by
  rw [invGroup_cons, invGroup_nil]; rfl

/-- inverse law of one recorded primitive: `r` was recorded on the way from `s` to `s₁`; from
    every state equivalent to `s₁`, inverting `r` succeeds and lands in a state equivalent
    to `s` -/
def InvLaw (s : St) (r : PrimRec) (s₁ : St) : Prop :=
  ∀ s₁', Equiv s₁' s₁ → ∃ s₂ r', s₁'.invPrim r = .ok (s₂, r') ∧ Equiv s₂ s

/-- a recorded run `s —r₁→ s₁ —r₂→ … —rₙ→ sₙ` in which every primitive satisfies its inverse
    law at the state where it was applied -/
inductive Chain : St → List PrimRec → St → Prop where
  | nil (s : St) : Chain s [] s
  | cons {s s₁ sₙ : St} {r : PrimRec} {rs : List PrimRec} :
      InvLaw s r s₁ → Chain s₁ rs sₙ → Chain s (r :: rs) sₙ

theorem invGroup_chain {s sₙ : St} {recs : List PrimRec} (h : Chain s recs sₙ) :
    ∀ sₙ', Equiv sₙ' sₙ → ∃ s' recs', sₙ'.invGroup recs = (s', .ok recs') ∧ Equiv s' s ∧
      recs'.length = recs.length := by
  induction h with
  | nil s => intro sₙ' he; exact ⟨sₙ', [], rfl, he, rfl⟩
  | cons hl _ ih =>
    intro sₙ' he
    obtain ⟨s₁', recs', hg, he1, hlen⟩ := ih sₙ' he
    obtain ⟨s₂, r', hinv, he2⟩ := hl s₁' he1
    refine ⟨s₂, recs' ++ [r'], ?_, he2, by simp [hlen]⟩
    rw [invGroup_cons, hg]
    simp only [invStep, hinv]


/-- AddEdge of a new edge satisfies the (Equiv-robust) inverse law -/
theorem invLaw_addEdge {s : St} {e : Edge} (attrs : List (Key × Val)) (hne : s.hasEdge e = false) :
    InvLaw s (.addEdge e attrs) (s.setEdges (s.edges ++ [{ e := e, attrs := iouF s e attrs }])) := by
  intro s₁' he
  obtain ⟨hN, hE, hS, hT, hL, hR⟩ := he
  have hnew : ({ e := e, attrs := iouF s e attrs } : EdgeRec) ∈ s₁'.edges :=
    (hE _).mpr (by show _ ∈ s.edges ++ [_]; simp)
  have hsome : (s₁'.findEdge e).isSome := by
    unfold findEdge; rw [find?_isSome]; exact ⟨_, hnew, by simp⟩
  obtain ⟨r', hr'⟩ := Option.isSome_iff_exists.mp hsome
  refine ⟨_, _, by simp only [invPrim]; exact pDelEdge_eq hr', ?_⟩
  refine ⟨hN, ?_, hS, hT, hL, hR⟩
  intro x
  show x ∈ s₁'.edges.filter (fun r => r.e != e) ↔ x ∈ s.edges
  rw [mem_filter, hE x]
  show (x ∈ s.edges ++ [_] ∧ _) ↔ _
  rw [mem_append, mem_singleton]
  have hall := (hasEdge_false_iff s e).mp hne
  constructor
  · rintro ⟨h | h, hx⟩
    · exact h
    · rw [h] at hx; simp at hx
  · intro h; exact ⟨Or.inl h, by simpa using hall x h⟩

theorem pAddNode_refuse {s : St} {r : NodeRec} {px : Option (List Pix)}
    (h : (px = none ∧ (s.posKeys.all (fun k => (alook k r.other).isSome)) = false) ∨
         (px.isSome = true ∧ s.seg = none)) : s.pAddNode r px = .error .value := by
  unfold pAddNode
  rcases h with ⟨h1, h2⟩ | ⟨h1, h2⟩
  · simp [h1, h2]
  · have : px.isNone = false := by cases px <;> simp_all
    simp [h1, h2, this]

theorem trackNeighbors_fields (s : St) (tid time : Nat) :
    (s.trackNeighbors tid time).1.nodes = s.nodes ∧ (s.trackNeighbors tid time).1.edges = s.edges ∧
    (s.trackNeighbors tid time).1.seg = s.seg := by
  rcases trackNeighbors_fst s tid time with h | ⟨_, _, h⟩ <;> rw [h] <;> exact ⟨rfl, rfl, rfl⟩

/-- hypotheses under which DeleteEdge is exactly invertible on every edge of the state -/
structure EdgesOK (s : St) : Prop where
  nodup : s.edgeList.Nodup
  ends : ∀ r ∈ s.edges, s.hasNode r.e.1 = true ∧ s.hasNode r.e.2 = true
  reg : ∀ r ∈ s.edges, ∀ kv ∈ r.attrs, kv.1 ∈ s.regEdge ∧ kv.2 ≠ Val.none
  iou : ∀ r ∈ s.edges, ∀ k, s.iouKey = some k → s.iouActive = true → s.seg.isSome = true →
        alook k r.attrs = some (s.iouOf r.e)

theorem EdgesOK.congr {s t : St} (h : EdgesOK s) (hn : t.nodes = s.nodes) (he : t.edges = s.edges)
    (hs : t.seg = s.seg) (hc : t.cfg = s.cfg) : EdgesOK t := by
  simp only [cfg, Prod.mk.injEq] at hc
  obtain ⟨_, _, _, _, _, _, hre, _, _, hik, hia⟩ := hc
  have hio : ∀ e, t.iouOf e = s.iouOf e := by
    intro e; unfold iouOf timeOf findNode; rw [hs, hn]
  refine ⟨?_, ?_, ?_, ?_⟩
  · unfold edgeList; rw [he]; exact h.nodup
  · intro r hr; rw [he] at hr; unfold hasNode findNode; rw [hn]; exact h.ends r hr
  · intro r hr; rw [he] at hr; rw [hre]; exact h.reg r hr
  · intro r hr k; rw [he] at hr; rw [hik, hia, hs, hio]; exact h.iou r hr k

/-- rollback of a single DeleteEdge: the state comes back up to `Equiv` -/
theorem rollback_delEdge {s : St} {e : Edge} {r : EdgeRec} (hok : EdgesOK s) (hf : s.findEdge e = some r) :
    Equiv ((s.setEdges (s.edges.filter (fun x => x.e != e))).rollback [.delEdge e (savedEdge s r.attrs)]) s := by
  obtain ⟨hr, hre⟩ := findEdge_some hf
  have hends := hok.ends r hr
  rw [hre] at hends
  unfold rollback
  rw [invGroup_single, inv_delEdge_eq r hends.1 hends.2]
  exact readdEdge_equiv hf hok.nodup (hok.reg r hr) (fun k => by have := hok.iou r hr k; rwa [hre] at this)


/-- `UserAddNode` after conflict-free division checks, when `AddNode` refuses (missing position
    / no segmentation): whatever was applied before (the skip-edge removal) is rolled back -/
theorem anTail_refused {a : AddNodeArgs} {time tid : Nat} {pred succ : Option Node} {sN : St}
    (hok : EdgesOK sN)
    (hpx : ∀ r : NodeRec, r.other = a.other →
      (a.pixels = none ∧ (sN.posKeys.all (fun k => (alook k r.other).isSome)) = false) ∨
      (a.pixels.isSome = true ∧ sN.seg = none)) :
    ∃ e, (anTail a time tid pred succ (sN, .ok [])).2 = .error e ∧
      Equiv (anTail a time tid pred succ (sN, .ok [])).1 sN := by
  have hrefuse : ∀ (st : St) (r : NodeRec), r.other = a.other → st.posKeys = sN.posKeys →
      st.seg = sN.seg → st.pAddNode r a.pixels = .error .value := by
    intro st r hr h1 h2
    apply pAddNode_refuse
    rw [h1, h2]; exact hpx r hr
  have plain : anSkip (sN, .ok []) pred succ = (sN, .ok []) →
      ∃ e, (anTail a time tid pred succ (sN, .ok [])).2 = .error e ∧
        Equiv (anTail a time tid pred succ (sN, .ok [])).1 sN := by
    intro hs
    unfold anTail
    simp only [hs]
    rw [hrefuse sN _ rfl rfl rfl]
    exact ⟨_, rfl, Equiv.refl _⟩
  cases pred with
  | none => exact plain (by unfold anSkip; rfl)
  | some p =>
    cases succ with
    | none => exact plain (by unfold anSkip; rfl)
    | some sc =>
      have hskip : anSkip (sN, .ok []) (some p) (some sc)
          = thenPrim (sN, .ok []) (fun st => st.pDelEdge (p, sc)) := rfl
      cases hf : sN.findEdge (p, sc) with
      | none =>
        have hd : sN.pDelEdge (p, sc) = .error .value := by unfold pDelEdge; rw [hf]
        unfold anTail
        simp only [hskip, thenPrim, hd]
        exact ⟨_, rfl, Equiv.refl _⟩
      | some r =>
        unfold anTail
        simp only [hskip, thenPrim, pDelEdge_eq hf, nil_append]
        rw [hrefuse (sN.setEdges (filter (fun r => r.e != (p, sc)) sN.edges)) _ rfl rfl rfl]
        exact ⟨_, rfl, rollback_delEdge hok hf⟩


/-! ### a disabled key is not written -/

/-- the `k`-column of the node table -/
def col (k : Key) (s : St) : List (Node × Option Val) := s.nodes.map (fun r => (r.id, alook k r.other))

theorem col_setOther {k k' : Key} (h : k ≠ k') (s : St) (n : Node) (v : Val) :
    col k (s.setOther n k' v) = col k s := by
  unfold col setOther updNode
  simp only [map_map]
  apply map_congr_left
  intro r _
  simp only [Function.comp]
  split
  · simp only [alook_aset_ne h]
  · rfl

theorem foldl_col {β : Type} (k : Key) (f : St → β → St) (l : List β)
    (h : ∀ a x, x ∈ l → col k (f a x) = col k a) (a : St) : col k (l.foldl f a) = col k a := by
  induction l generalizing a with
  | nil => rfl
  | cons x r ih =>
    rw [foldl_cons, ih (fun a y hy => h a y (mem_cons_of_mem _ hy)), h a x mem_cons_self]

theorem col_rpUpdate {k : Key} {s : St} (h : k ∉ s.rpActive) (n : Node) :
    col k (s.rpUpdate n) = col k s := by
  unfold rpUpdate
  split
  · split
    · rfl
    · refine foldl_col k (fun st k' => st.setOther n k' _) _ ?_ s
      intro a k' hk'
      exact col_setOther (fun hh => h (by rw [hh]; exact hk')) _ _ _
  · rfl

theorem col_rpCompute {k : Key} {s : St} (h : k ∉ s.rpActive) (keys : List Key) :
    col k (s.rpCompute keys) = col k s := by
  unfold rpCompute
  split
  · rfl
  · simp only
    split
    · rfl
    · refine foldl_col k _ _ ?_ s
      intro a t _
      refine foldl_col k _ _ ?_ a
      intro b l _
      split
      · refine foldl_col k (fun st3 k' => st3.setOther l k' _) _ ?_ b
        intro c k' hk'
        have : k' ∈ s.rpActive := by
          have := (mem_filter.mp hk').2
          simpa using this
        exact col_setOther (fun hh => h (by rw [hh]; exact this)) _ _ _
      · rfl

theorem iouUpdateEdge_off {s : St} (h : s.iouActive = false) (e : Edge) : s.iouUpdateEdge e = s := by
  unfold iouUpdateEdge
  split
  · simp [h]
  · rfl

theorem iouCompute_off {s : St} (h : s.iouActive = false) : s.iouCompute = s := by
  unfold iouCompute
  generalize s.edges.map (·.e) = l
  induction l with
  | nil => rfl
  | cons x r ih => rw [foldl_cons, iouUpdateEdge_off h, ih]

theorem iouUpdateNode_off {s : St} (h : s.iouActive = false) (n : Node) : s.iouUpdateNode n = s := by
  unfold iouUpdateNode
  simp only
  generalize (s.edges.filter (·.e.2 == n)).map (·.e) ++ (s.edges.filter (·.e.1 == n)).map (·.e) = l
  induction l with
  | nil => rfl
  | cons x r ih => rw [foldl_cons, iouUpdateEdge_off h, ih]

theorem nodes_iouUpdateNode (s : St) (n : Node) : (s.iouUpdateNode n).nodes = s.nodes := by
  unfold iouUpdateNode
  simp only
  generalize (s.edges.filter (·.e.2 == n)).map (·.e) ++ (s.edges.filter (·.e.1 == n)).map (·.e) = l
  induction l generalizing s with
  | nil => rfl
  | cons x r ih => rw [foldl_cons, ih, iouUpdateEdge_eq]; rfl

/-- UpdateNodeSeg does not write a disabled regionprops key on any node -/
theorem col_pUpdSeg {k : Key} {s s' : St} {n : Node} {px : List Pix} {b : Bool} {rec : PrimRec}
    (hk : k ∉ s.rpActive) (h : s.pUpdSeg n px b = .ok (s', rec)) : col k s' = col k s := by
  unfold pUpdSeg at h
  split at h
  · cases h
  · split at h
    · cases h
    · injection h with h; injection h with h _; subst h
      rename_i g _ _ _
      have := col_rpUpdate (s := { s with seg := some (g.setPixels px (if b then n else 0)) }) hk n
      unfold col at this ⊢
      rw [nodes_iouUpdateNode]
      exact this


/-! ### example states for the non-vacuity checks of the property files -/

/-- 1@0 divides into 2@1 and 3@1; 2 continues (skip edge) to 4@3; 5@2 is isolated -/
def exS : St := {
  nodes := [⟨1, 0, 1, some 1, [(7, .tok 0)]⟩, ⟨2, 1, 2, some 1, [(7, .tok 1)]⟩, ⟨3, 1, 3, some 1, [(7, .tok 2)]⟩,
            ⟨4, 3, 2, some 1, [(7, .tok 3)]⟩, ⟨5, 2, 4, some 2, [(7, .tok 4)]⟩],
  edges := [⟨(1, 2), []⟩, ⟨(1, 3), []⟩, ⟨(2, 4), []⟩],
  posKeys := [7], regNode := [7], regEdge := [], rpAvail := [10], rpActive := [],
  t2n := [(1, [1]), (2, [4, 2]), (3, [3]), (4, [5])],
  l2n := [(1, [1, 2, 3, 4]), (2, [5])], maxTid := 4, maxLin := 2, counter := 6 }

/-- the same graph with a 4-frame, 4-pixel label array and all annotators switched on -/
def exSeg : St := { exS with
  seg := some ⟨4, [1,0,0,0, 2,2,3,0, 5,0,0,0, 4,4,0,0]⟩,
  rpActive := [10], regNode := [7, 10], iouKey := some 11, iouActive := true, regEdge := [11] }

theorem exS_edgesOK : EdgesOK exS := by
  refine ⟨by decide, by decide, by decide, ?_⟩
  intro r _ k hk; cases hk


end St
end Ft
