/-
  FtProofs.R5BFrozenLemmas — package R5B, part C: the column of a DISABLED key along a run.

  `col k s` = the list `(node id, stored value of k)` in insertion order.  `FrzL c c'` ("frozen"):
  `c'` is `c` with the entries of some nodes dropped, every other entry UNCHANGED and in place,
  followed by entries of nodes that are not among the survivors (a node that is deleted and
  re-created re-appears at the end).  `FrzL` is a preorder.

  `FzI k c0`: the invariant "`col k` is frozen w.r.t. `c0`, `k` is an annotator key that is neither
  active nor registered"; `FzP k`: a recorded `DeleteNode` carries no value of `k`.  Both are
  primitive-closed (`closedFz`) for `AddNode` calls whose attribute dictionary has no `k`
  (`FzQ`) — hence, by the generic lifting, kept by every composite user action whatever its outcome,
  by rollbacks, undo, redo; and by `disable`, by `enable` of other keys, by the queries.
-/
import FtProofs.R5BShapeLemmas
namespace Ft.R5B
open Ft Ft.St Ft.R2G List

abbrev Col := List (Node × Option Val)

def dropC (c : Col) (dels : List Node) : Col := c.filter (fun p => !(dels.contains p.1))

/-- surviving entries unchanged and in place, the others dropped, fresh ones appended -/
def FrzL (c c' : Col) : Prop :=
  ∃ dels extra, c' = dropC c dels ++ extra ∧ ∀ p ∈ extra, p.1 ∉ (dropC c dels).map (·.1)

theorem dropC_nil (c : Col) : dropC c [] = c := by
  unfold dropC
  rw [List.filter_eq_self]
  intro p _; rfl

theorem dropC_dropC (c : Col) (d d' : List Node) : dropC (dropC c d) d' = dropC c (d ++ d') := by
  unfold dropC
  rw [List.filter_filter]
  apply List.filter_congr
  intro p _
  by_cases h1 : p.1 ∈ d <;> by_cases h2 : p.1 ∈ d' <;> simp [h1, h2]

theorem dropC_append (c e : Col) (d : List Node) : dropC (c ++ e) d = dropC c d ++ dropC e d := by
  unfold dropC; rw [List.filter_append]

theorem mem_ids_dropC {c : Col} {d : List Node} {n : Node} (h : n ∈ (dropC c d).map (·.1)) :
    n ∈ c.map (·.1) := by
  obtain ⟨p, hp, rfl⟩ := List.mem_map.1 h
  exact List.mem_map.2 ⟨p, (List.mem_filter.1 hp).1, rfl⟩

theorem FrzL.refl (c : Col) : FrzL c c := ⟨[], [], by rw [dropC_nil, List.append_nil], fun p hp => by cases hp⟩

theorem FrzL.of_eq {c c' : Col} (h : c' = c) : FrzL c c' := h ▸ FrzL.refl c

theorem FrzL.trans {a b c : Col} (h1 : FrzL a b) (h2 : FrzL b c) : FrzL a c := by
  obtain ⟨d, e, rfl, he⟩ := h1
  obtain ⟨d', e', rfl, he'⟩ := h2
  refine ⟨d ++ d', dropC e d' ++ e', ?_, ?_⟩
  · rw [dropC_append, dropC_dropC, List.append_assoc]
  · intro p hp
    rcases List.mem_append.1 hp with hp | hp
    · intro hm
      have hpe : p ∈ e := (List.mem_filter.1 hp).1
      apply he p hpe
      rw [← dropC_dropC] at hm
      exact mem_ids_dropC hm
    · intro hm
      apply he' p hp
      rw [dropC_append, List.map_append, dropC_dropC]
      exact List.mem_append_left _ hm

theorem FrzL.drop (c : Col) (n : Node) : FrzL c (c.filter (fun p => p.1 != n)) := by
  refine ⟨[n], [], ?_, fun p hp => by cases hp⟩
  rw [List.append_nil]
  unfold dropC
  apply List.filter_congr
  intro p _
  by_cases h : p.1 = n <;> simp [h]

theorem FrzL.push (c : Col) (n : Node) (v : Option Val) (h : n ∉ c.map (·.1)) : FrzL c (c ++ [(n, v)]) := by
  refine ⟨[], [(n, v)], by rw [dropC_nil], ?_⟩
  intro p hp
  rw [List.mem_singleton.1 hp, dropC_nil]
  exact h

/-! ### the invariant and its closure under the primitives -/

structure FzI (k : Key) (c0 : Col) (st : St) : Prop where
  frz : FrzL c0 (col k st)
  off : k ∉ st.rpActive
  unreg : k ∉ st.regNode
  prot : k ∈ st.annotKeys

def FzP (k : Key) : PrimRec → Prop
  | .delNode saved _ => alook k saved.other = none
  | _ => True

def FzQ (k : Key) (o : List (Key × Val)) : Prop := alook k o = none

theorem FzI.of_cfg {k : Key} {c0 : Col} {s t : St} (h : FzI k c0 s) (hc : t.cfg = s.cfg)
    (hf : FrzL (col k s) (col k t)) : FzI k c0 t := by
  have hr := reg_of_cfg hc
  have ha := annotKeys_of_avail (avail_of_reg hr)
  simp only [reg, Prod.mk.injEq] at hr
  exact ⟨h.frz.trans hf, by rw [hr.2.2.1]; exact h.off, by rw [hr.1]; exact h.unreg, by rw [ha]; exact h.prot⟩

theorem alook_aset_ne' {k k' : Key} (h : k' ≠ k) (v : Val) (l : List (Key × Val)) :
    alook k (aset k' v l) = alook k l := by
  induction l with
  | nil => simp [aset, alook, h]
  | cons x r ih =>
    obtain ⟨k'', v''⟩ := x
    unfold aset
    by_cases hk : (k'' == k') = true
    · have e : k'' = k' := by simpa using hk
      simp only [hk, if_true, alook]
      have h1 : (k' == k) = false := by simpa using h
      have h2 : (k'' == k) = false := by rw [e]; exact h1
      rw [h1, h2]; rfl
    · simp only [hk, Bool.false_eq_true, if_false, alook, ih]

theorem alook_amerge_none {k : Key} {new : List (Key × Val)} (h : alook k new = none) (old : List (Key × Val)) :
    alook k (amerge new old) = alook k old := by
  unfold amerge
  induction new generalizing old with
  | nil => rfl
  | cons x r ih =>
    obtain ⟨k', v'⟩ := x
    have hne : k' ≠ k := by
      intro e; subst e; simp [alook] at h
    have hr : alook k r = none := by
      have : (k' == k) = false := by simpa using hne
      simpa [alook, this] using h
    rw [List.foldl_cons, ih hr, alook_aset_ne' hne]

theorem col_addNodeRaw_old {k : Key} {s : St} {r : NodeRec} (hq : alook k r.other = none)
    (hn : s.hasNode r.id = true) : col k (s.addNodeRaw r) = col k s := by
  unfold addNodeRaw
  rw [if_pos hn]
  unfold col updNode
  simp only [List.map_map]
  apply List.map_congr_left
  intro old _
  simp only [Function.comp]
  by_cases h : (old.id == r.id) = true
  · simp only [h, if_true, alook_amerge_none hq]
    have : old.id = r.id := by simpa using h
    rw [this]
  · simp only [h, Bool.false_eq_true, if_false]

theorem col_pAddNode_old {k : Key} {s s' : St} {r : NodeRec} {px : Option (List Pix)} {rec : PrimRec}
    (hk : k ∉ s.rpActive) (hq : alook k r.other = none) (hn : s.hasNode r.id = true)
    (h : s.pAddNode r px = .ok (s', rec)) : col k s' = col k s := by
  obtain ⟨-, -, rfl⟩ := pAddNode_ok_sg h
  rw [(Fc.ofFr (Fr.trackAdd _ _)).col]
  have hn1 : (s.paintWith px r.id).hasNode r.id = true := by rw [paintWith_hasNode, hn]
  have hk1 : k ∉ ((s.paintWith px r.id).addNodeRaw r).rpActive := by
    have : ((s.paintWith px r.id).addNodeRaw r).rpActive = s.rpActive := by
      unfold addNodeRaw; split <;> simp [updNode]
    rw [this]; exact hk
  rw [col_rpUpdate hk1, col_addNodeRaw_old hq hn1]
  simp [col]

theorem closedFz (k : Key) (c0 : Col) : PrimClosed (FzI k c0) (FzP k) (FzQ k) where
  recQ := fun h => h
  qnil := rfl
  addNode := by
    intro s s' r px rec hI hq h
    refine ⟨hI.of_cfg (cfg_pAddNode h) ?_, by rw [(pAddNode_ok_sg h).1]; trivial⟩
    cases hn : s.hasNode r.id with
    | true => exact FrzL.of_eq (col_pAddNode_old hI.off hq hn h)
    | false =>
      rw [(col_pAddNode_new hI.off hn h).1]
      apply FrzL.push
      intro hm
      have : r.id ∈ s.ids := by simpa [col, ids] using hm
      rw [← hasNode_iff_mem_ids_sg, hn] at this; cases this
  delNode := by
    intro s s' n px rec hI h
    refine ⟨hI.of_cfg (cfg_pDelNode h) ?_, ?_⟩
    · rw [(col_pDelNode h).1]; exact FrzL.drop _ _
    · obtain ⟨r, -, hr, -⟩ := pDelNode_ok_sg h
      rw [hr]
      exact alook_savedAttrs hI.unreg
  addEdge := by
    intro s s' e at_ rec hI h
    refine ⟨hI.of_cfg (cfg_pAddEdge h) (FrzL.of_eq ((FcPrim.pAddEdge e at_ _ _ _ h).col k)), ?_⟩
    rw [(pAddEdge_ok_sg h).2.2.1]; trivial
  delEdge := by
    intro s s' e rec hI h
    refine ⟨hI.of_cfg (cfg_pDelEdge h) (FrzL.of_eq ((FcPrim.pDelEdge (fun _ => e) _ _ _ h).col k)), ?_⟩
    unfold pDelEdge at h
    split at h
    · cases h
    · injection h with h; injection h with _ h; rw [← h]; trivial
  updTid := by
    intro s s' n t l rec hI h
    refine ⟨hI.of_cfg (cfg_pUpdTid h) (FrzL.of_eq ((Fc.ofFr (Fr.pUpdTid h)).col k)), ?_⟩
    unfold pUpdTid at h
    split at h
    · cases h
    · injection h with h; injection h with _ h; rw [← h]; trivial
  updSeg := by
    intro s s' n px b rec hI h
    refine ⟨hI.of_cfg (cfg_pUpdSeg h) (FrzL.of_eq (col_pUpdSeg hI.off h)), ?_⟩
    rw [(pUpdSeg_ok_sg h).choose_spec.2.2.1]; trivial
  updAttrs := by
    intro s s' n at_ rec hI h
    refine ⟨hI.of_cfg (cfg_pUpdAttrs h)
      (FrzL.of_eq (C10_disabled_frozen_updAttrs s s' k n at_ rec hI.prot h)), ?_⟩
    unfold pUpdAttrs at h
    split at h
    · cases h
    · split at h
      · cases h
      · injection h with h; injection h with _ h; rw [← h]; trivial
  nbrs := by
    intro s tid time hI
    exact hI.of_cfg (cfg_trackNeighbors s tid time)
      (FrzL.of_eq ((Fc.ofFr (Fr.trackNeighbors s tid time)).col k))

/-! ### steps -/

theorem FzI.congr {k : Key} {c0 : Col} {s t : St} (h : FzI k c0 s) (hn : t.nodes = s.nodes)
    (hr : t.reg = s.reg) : FzI k c0 t := by
  have ha := annotKeys_of_avail (avail_of_reg hr)
  simp only [reg, Prod.mk.injEq] at hr
  exact ⟨by rw [col_congr hn]; exact h.frz, by rw [hr.2.2.1]; exact h.off, by rw [hr.1]; exact h.unreg,
    by rw [ha]; exact h.prot⟩

/-- every recorded primitive of the history satisfies `P` -/
def HistP (P : PrimRec → Prop) (s : St) : Prop := ∀ a, (a ∈ s.hist.undo ∨ a ∈ s.hist.redo) → ∀ r ∈ a, P r

theorem histP_add {P : PrimRec → Prop} {s : St} (hH : HistP P s) {recs : ActRec} (hr : ∀ r ∈ recs, P r) (u : St)
    (hu : u.hist = s.hist.add recs) : HistP P u := by
  intro a ha
  rw [hu, Hist.add_eq] at ha
  rcases ha with ha | ha
  · rcases List.mem_append.1 ha with ha | ha
    · rcases List.mem_append.1 ha with ha | ha
      · exact hH a (Or.inl ha)
      · exact hH a (Or.inr ha)
    · rw [List.mem_singleton.1 ha]; exact hr
  · cases ha

theorem histP_of_hist {P : PrimRec → Prop} {s u : St} (hH : HistP P s) (hu : u.hist = s.hist) : HistP P u := by
  intro a ha; rw [hu] at ha; exact hH a ha

/-- what the frozen-column theorem asks of one operation: an add-node brings no value of `k`,
    an `enable` does not name `k` -/
def FzAdm (k : Key) : Op → Prop
  | .addNode a => alook k a.other = none
  | .enable ks _ => k ∉ ks
  | _ => True

theorem fz_commit {k : Key} {c0 : Col} {s : St} {r : UOut} (p : Option Node) (hz : Pz (FzI k c0) (FzP k) r)
    (hh : r.1.hist = s.hist) (hH : HistP (FzP k) s) :
    FzI k c0 (commit r p).1 ∧ HistP (FzP k) (commit r p).1 := by
  rcases commit_cases r p with ⟨recs, h1, h2⟩ | ⟨e, h1, h2⟩
  · rw [h2]
    exact ⟨hz.1.congr rfl rfl, histP_add hH (hz.2 recs h1) _ (by show r.1.hist.add recs = _; rw [hh])⟩
  · rw [h2]
    exact ⟨hz.1, histP_of_hist hH hh⟩

theorem col_assignLineages (k : Key) (s : St) : col k s.assignLineages = col k s :=
  (Fc.ofFr (Fr.assignLineages s)).col k
theorem col_assignTracklets (k : Key) (s : St) : col k s.assignTracklets = col k s :=
  (Fc.ofFr (Fr.assignTracklets s)).col k
theorem col_iouCompute (k : Key) (s : St) : col k s.iouCompute = col k s :=
  col_congr (show s.iouCompute.nodes = s.nodes from foldl_iouUpdateEdge_nodes _ _)

theorem col_enableRecompute {k : Key} {s1 : St} (hk : k ∉ s1.rpActive) (ks : List Key) :
    col k (enableRecompute s1 ks) = col k s1 := by
  unfold enableRecompute
  simp only
  repeat' split
  all_goals simp only [col_assignLineages, col_assignTracklets, col_iouCompute, col_rpCompute hk]

theorem fz_enable {k : Key} {c0 : Col} {s s' : St} {ks : List Key} {rc : Bool} (hI : FzI k c0 s)
    (hk : k ∉ ks) (h : s.enable ks rc = some s') : FzI k c0 s' := by
  cases hany : ks.any (fun k => !(s.annotKeys.contains k)) with
  | true => rw [enable_none s ks rc hany] at h; cases h
  | false =>
    rw [enable_eq s ks rc hany] at h
    injection h with h
    subst h
    have h1 : FzI k c0 (enableReg s ks) := by
      refine ⟨hI.frz, ?_, ?_, hI.prot⟩
      · intro hm
        rcases List.mem_append.1 hm with hm | hm
        · exact hI.off hm
        · exact hk (List.mem_filter.1 (List.mem_eraseDups.1 hm)).1
      · intro hm
        rcases List.mem_append.1 hm with hm | hm
        · exact hI.unreg hm
        · exact hk (List.mem_filter.1 (List.mem_eraseDups.1 hm)).1
    cases rc with
    | false => exact h1
    | true =>
      show FzI k c0 (enableRecompute (enableReg s ks) ks)
      have hr := reg_enableRecompute (enableReg s ks) ks
      have ha := annotKeys_of_avail (avail_of_reg hr)
      simp only [reg, Prod.mk.injEq] at hr
      exact ⟨by rw [col_enableRecompute h1.off]; exact h1.frz, by rw [hr.2.2.1]; exact h1.off,
        by rw [hr.1]; exact h1.unreg, by rw [ha]; exact h1.prot⟩

theorem fz_disable {k : Key} {c0 : Col} {s s' : St} {ks : List Key} (hI : FzI k c0 s)
    (h : s.disable ks = some s') : FzI k c0 s' := by
  unfold disable at h
  split at h
  · cases h
  · injection h with h
    subst h
    exact ⟨hI.frz, fun hm => hI.off (List.mem_filter.1 hm).1, fun hm => hI.unreg (List.mem_filter.1 hm).1, hI.prot⟩

/-- **one step keeps the frozen-column invariant** — any operation, any outcome -/
theorem fz_step {k : Key} {c0 : Col} {s : St} (hI : FzI k c0 s) (hH : HistP (FzP k) s) (op : Op)
    (hadm : FzAdm k op) : FzI k c0 (s.step op).1 ∧ HistP (FzP k) (s.step op).1 := by
  have C := closedFz k c0
  cases op with
  | addEdge e f => exact fz_commit _ (Pz.uAddEdge C hI e f) (hist_of_cfg (cfg_uAddEdge s e f)) hH
  | delEdge e => exact fz_commit _ (Pz.uDeleteEdge C hI e) (hist_of_cfg (cfg_uDeleteEdge s e)) hH
  | addNode a => exact fz_commit _ (Pz.uAddNode C hI a hadm) (hist_of_cfg (cfg_uAddNode s a)) hH
  | delNode n => exact fz_commit _ (Pz.uDeleteNode C hI n none) (hist_of_cfg (cfg_uDeleteNode s n none)) hH
  | swap a b => exact fz_commit _ (Pz.uSwap C hI a b) (hist_of_cfg (cfg_uSwap s a b)) hH
  | updAttrs n at_ => exact fz_commit _ (Pz.uUpdateAttrs C hI n at_) (hist_of_cfg (cfg_uUpdateAttrs s n at_)) hH
  | paint v groups tid f =>
    rw [step_paint_eq]
    cases hg : s.seg with
    | none => exact ⟨hI, hH⟩
    | some g =>
      simp only
      have hp : FzI k c0 (painted s g v groups) := hI.congr rfl rfl
      have hz := Pz.uUpdateSeg C hp v groups tid f
      have hh : ((painted s g v groups).uUpdateSeg v groups tid f).1.1.hist = s.hist :=
        hist_of_cfg (cfg_uUpdateSeg (painted s g v groups) v groups tid f)
      generalize (painted s g v groups).uUpdateSeg v groups tid f = out at hz hh
      unfold paintFin
      rcases out with ⟨⟨r1, r2⟩, sel⟩
      cases r2 with
      | ok recs => exact fz_commit sel hz hh hH
      | error e =>
        simp only
        cases hs : r1.seg with
        | none => exact ⟨hz.1, histP_of_hist hH hh⟩
        | some g' => exact ⟨hz.1.congr rfl rfl, histP_of_hist hH hh⟩
  | undo =>
    by_cases hle : s.hist.undo.length ≤ s.hist.redo.length
    · rw [step_undo_none s hle]; exact ⟨hI, hH⟩
    · have hlt : s.hist.redo.length < s.hist.undo.length := by omega
      have hidx : s.hist.undo.length - s.hist.redo.length - 1 < s.hist.undo.length := by omega
      have ha := List.getElem?_eq_getElem hidx
      generalize s.hist.undo[s.hist.undo.length - s.hist.redo.length - 1] = a at ha
      have hz := Pz.invGroup C hI a (hH a (Or.inl (List.mem_of_getElem? ha)))
      have hh : (s.invGroup a).1.hist = s.hist := hist_of_cfg (cfg_invGroup s a)
      cases hg : (s.invGroup a).2 with
      | ok r =>
        rw [step_undo_ok s a r hlt ha hg]
        refine ⟨hz.1.congr rfl rfl, ?_⟩
        intro b hb
        rcases hb with hb | hb
        · exact hH b (Or.inl hb)
        · rcases List.mem_append.1 hb with hb | hb
          · exact hH b (Or.inr hb)
          · rw [List.mem_singleton.1 hb]; exact hz.2 r hg
      | error e =>
        rw [step_undo_err s a e hlt ha hg]
        exact ⟨hz.1, histP_of_hist hH hh⟩
  | redo =>
    rcases List.eq_nil_or_concat s.hist.redo with hnil | ⟨rs, a, hcat⟩
    · rw [step_redo_none s hnil]; exact ⟨hI, hH⟩
    · have hcat' : s.hist.redo = rs ++ [a] := by simpa using hcat
      have hz := Pz.invGroup C hI a (hH a (Or.inr (by rw [hcat']; simp)))
      have hh : (s.invGroup a).1.hist = s.hist := hist_of_cfg (cfg_invGroup s a)
      cases hg : (s.invGroup a).2 with
      | ok r =>
        rw [step_redo_ok s rs a r hcat' hg]
        refine ⟨hz.1.congr rfl rfl, ?_⟩
        intro b hb
        rcases hb with hb | hb
        · exact hH b (Or.inl hb)
        · exact hH b (Or.inr (by rw [hcat']; exact List.mem_append_left _ hb))
      | error e =>
        rw [step_redo_err s rs a e hcat' hg]
        exact ⟨hz.1, histP_of_hist hH hh⟩
  | enable ks rc =>
    simp only [step]
    split
    · rename_i s' h
      exact ⟨fz_enable hI hadm h, histP_of_hist hH (congrArg (·.1) (ctl_enable s s' ks rc h))⟩
    · exact ⟨hI, hH⟩
  | disable ks =>
    simp only [step]
    split
    · rename_i s' h
      exact ⟨fz_disable hI h, histP_of_hist hH (congrArg (·.1) (ctl_disable s s' ks h))⟩
    · exact ⟨hI, hH⟩
  | qNeighbors tid time =>
    exact ⟨C.nbrs s tid time hI, histP_of_hist hH (congrArg (·.1) (ctl_trackNeighbors s tid time))⟩
  | qHasTrack tid time => exact ⟨hI, hH⟩
  | qNewIds n => exact ⟨hI.congr rfl rfl, hH⟩
  | nop => exact ⟨hI, hH⟩

theorem fz_run {k : Key} {c0 : Col} : ∀ (ops : List Op) (s : St), FzI k c0 s → HistP (FzP k) s →
    (∀ op ∈ ops, FzAdm k op) → FzI k c0 (run s ops) ∧ HistP (FzP k) (run s ops)
  | [], _, hI, hH, _ => ⟨hI, hH⟩
  | op :: ops, s, hI, hH, ha => by
    obtain ⟨h1, h2⟩ := fz_step hI hH op (ha op mem_cons_self)
    exact fz_run ops _ h1 h2 (fun o ho => ha o (mem_cons_of_mem _ ho))

end Ft.R5B
